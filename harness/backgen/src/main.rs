// Stage 1 of T2: for every specification of a batch, run the real generator and
// write (a) its output verbatim and (b) `Dump` impls + a dispatcher derived from
// the public `Ast`, as one Rust module per specification.
//
// usage: fxbackgen <batch file: one hex-encoded spec per line> <out dir> [clone]
// prints one line per spec: `K ok` | `K err <msg>` | `K panic <where>`
use fastxdr::ast::indexes::AstType;
use fastxdr::ast::*;
use std::fmt::Write;

const KW: &[&str] = &[
    "as", "async", "await", "break", "const", "continue", "crate", "dyn", "else", "enum", "extern", "false", "fn", "for", "if",
    "impl", "in", "let", "loop", "match", "mod", "move", "mut", "pub", "ref", "return", "Self", "self", "static", "struct",
    "super", "trait", "true", "type", "union", "unsafe", "use", "where", "while",
];

// the documented field-name escape (README: reserved words get `_v`)
fn safe(s: &str) -> String {
    if KW.contains(&s) {
        format!("{}_v", s)
    } else if s == "TRUE" || s == "FALSE" {
        s.to_lowercase()
    } else {
        s.to_string()
    }
}
// the documented variant-name escape (`v_` before a leading digit)
fn variant(s: &str) -> String {
    match s.chars().next() {
        Some(c) if c.is_numeric() => format!("v_{}", s),
        _ => s.to_string(),
    }
}

fn unhex(s: &str) -> Vec<u8> {
    if s == "-" {
        return vec![];
    }
    (0..s.len() / 2).map(|i| u8::from_str_radix(&s[2 * i..2 * i + 2], 16).unwrap()).collect()
}

fn dump_impls(ast: &Ast) -> (String, Vec<(String, String)>) {
    let mut o = String::new();
    let mut tys = vec![];
    for t in ast.types().iter() {
        let (name, declared) = match t {
            AstType::Struct(s) => (s.name.clone(), true),
            AstType::Union(u) => (u.name.clone(), true),
            AstType::Enum(e) => (e.name.clone(), true),
            AstType::Typedef(d) => (d.alias.unwrap_array().as_str().to_string(), d.target != *d.alias.unwrap_array()),
        };
        if !declared {
            continue;
        }
        let path = if ast.generics().contains(&name) { format!("xdr::{}<Bytes>", name) } else { format!("xdr::{}", name) };
        tys.push((name.clone(), path.clone()));
        writeln!(o, "impl Dump for {} {{ fn dump(&self, cx: &Ctx, out: &mut String) {{", path).unwrap();
        match t {
            AstType::Struct(s) => {
                writeln!(o, "out.push_str(\"(S:{}\");", name).unwrap();
                for f in s.fields.iter() {
                    let fname = safe(&f.field_name);
                    writeln!(o, "out.push_str(\" {}=\"); self.{}.dump(cx, out);", fname, fname).unwrap();
                }
                writeln!(o, "out.push(')');").unwrap();
            }
            AstType::Union(u) => {
                writeln!(o, "match self {{").unwrap();
                for c in u.cases.iter() {
                    for l in c.case_values.iter() {
                        let v = variant(l);
                        writeln!(o, "xdr::{}::{}(inner) => {{ out.push_str(\"(U:{}::{} \"); inner.dump(cx, out); out.push(')'); }}", name, v, name, v).unwrap();
                    }
                }
                for l in u.void_cases.iter() {
                    let v = variant(l);
                    writeln!(o, "xdr::{}::{} => out.push_str(\"(U:{}::{})\"),", name, v, name, v).unwrap();
                }
                if u.default.is_some() {
                    writeln!(o, "xdr::{}::default(inner) => {{ out.push_str(\"(U:{}::default \"); inner.dump(cx, out); out.push(')'); }}", name, name).unwrap();
                }
                writeln!(o, "}}").unwrap();
            }
            AstType::Enum(e) => {
                writeln!(o, "match self {{").unwrap();
                for v in e.variants.iter() {
                    writeln!(o, "xdr::{}::{} => out.push_str(\"(E:{}::{})\"),", name, v.name, name, v.name).unwrap();
                }
                writeln!(o, "}}").unwrap();
            }
            AstType::Typedef(_) => {
                writeln!(o, "out.push_str(\"(T:{} \"); self.0.dump(cx, out); out.push(')');", name).unwrap();
            }
        }
        writeln!(o, "}} }}").unwrap();
    }
    (o, tys)
}

fn main() {
    let args: Vec<String> = std::env::args().collect();
    let batch = std::fs::read_to_string(&args[1]).unwrap();
    let outdir = std::path::Path::new(&args[2]);
    let with_clone = args.get(3).map(|s| s == "clone").unwrap_or(false);
    std::fs::create_dir_all(outdir).unwrap();
    std::panic::set_hook(Box::new(|_| {}));
    let mut modrs = String::new();
    let mut dispatch = String::new();
    let mut sizes = String::new();
    for (k, line) in batch.lines().enumerate() {
        let text = String::from_utf8(unhex(line.trim())).unwrap();
        let t2 = text.clone();
        let r = std::panic::catch_unwind(move || {
            let ast = Ast::new(&t2).map_err(|e| e.to_string())?;
            let code = fastxdr::Generator::default().generate(&t2).map_err(|e| e.to_string())?;
            let code_c = fastxdr::Generator::default()
                .with_derive("#[derive(Debug, PartialEq, Clone)]")
                .generate(&t2)
                .map_err(|e| e.to_string())?;
            let (dumps, tys) = dump_impls(&ast);
            Ok::<_, String>((code, code_c, dumps, tys))
        });
        match r {
            Err(_) => println!("{} panic", k),
            Ok(Err(e)) => println!("{} err {}", k, e.replace('\n', " ")),
            Ok(Ok((code, code_c, dumps, tys))) => {
                println!("{} ok", k);
                std::fs::write(outdir.join(format!("s{}_code.rs", k)), code).unwrap();
                let mut m = String::new();
                writeln!(m, "include!(\"s{}_code.rs\");", k).unwrap();
                writeln!(m, "pub mod h {{\ninclude!(concat!(env!(\"CARGO_MANIFEST_DIR\"), \"/src/dump.rs\"));\ninclude!(concat!(env!(\"CARGO_MANIFEST_DIR\"), \"/src/perspec.rs\"));").unwrap();
                m.push_str(&dumps);
                writeln!(m, "pub fn run(ty: &str, fam: &str, whole: &Bytes, lead: usize, len: usize, out: &mut String) -> bool {{ match ty {{").unwrap();
                for (n, p) in tys.iter() {
                    writeln!(m, "\"{}\" => dec::<{}>(fam, whole, lead, len, out),", n, p).unwrap();
                }
                writeln!(m, "_ => return false, }} true }}").unwrap();
                writeln!(m, "pub fn sizes(out: &mut String) {{").unwrap();
                for (n, p) in tys.iter() {
                    writeln!(m, "out.push_str(&format!(\" {}={{}}\", std::mem::size_of::<{}>()));", n, p).unwrap();
                }
                writeln!(m, "}}\n}}").unwrap();
                std::fs::write(outdir.join(format!("s{}.rs", k)), m).unwrap();
                writeln!(modrs, "#[allow(dead_code, unused_imports, unused_mut, non_camel_case_types, non_snake_case, unreachable_patterns, unused_variables, non_upper_case_globals)]\npub mod s{};", k).unwrap();
                writeln!(dispatch, "{} => gen::s{}::h::run(ty, fam, whole, lead, len, out),", k, k).unwrap();
                writeln!(sizes, "{} => gen::s{}::h::sizes(out),", k, k).unwrap();
                if with_clone {
                    std::fs::write(outdir.join(format!("c{}_code.rs", k)), code_c).unwrap();
                    std::fs::write(outdir.join(format!("c{}.rs", k)), format!("include!(\"c{}_code.rs\");\n", k)).unwrap();
                    writeln!(modrs, "#[allow(dead_code, unused_imports, unused_mut, non_camel_case_types, non_snake_case, unreachable_patterns, unused_variables, non_upper_case_globals)]\npub mod c{};", k).unwrap();
                }
            }
        }
    }
    std::fs::write(outdir.join("mod.rs"), modrs).unwrap();
    std::fs::write(
        outdir.join("dispatch.rs"),
        format!(
            "pub fn dispatch(k: usize, ty: &str, fam: &str, whole: &Bytes, lead: usize, len: usize, out: &mut String) -> bool {{ match k {{\n{}_ => false }} }}\npub fn sizes(k: usize, out: &mut String) {{ match k {{\n{}_ => {{}} }} }}\n",
            dispatch, sizes
        ),
    )
    .unwrap();
}
