// T3 / T1: the real front end (`Ast::new`) and generator (`Generator::generate`)
// behind the line protocol.  Requests:
//   ast <hex utf8 text>          -> ok <canonical dump> | err | panic <file> <message>
//   gen <d|c> <hex utf8 text>    -> ok <hex of output after the header> | err <msg> | panic ... | badheader
//   genrep <n> <hex>             -> n repeated/interleaved calls on one Generator: same|differ
use fastxdr::ast::indexes::{AstType, ConstantType};
use fastxdr::ast::*;
use std::cell::RefCell;
use std::fmt::Write;
use std::io::{BufRead, Write as IoWrite};

thread_local! {
    static LAST_PANIC: RefCell<String> = RefCell::new(String::new());
}

fn q(s: &str, out: &mut String) {
    for c in s.chars() {
        if c.is_ascii_alphanumeric() || c == '_' {
            out.push(c);
        } else {
            let mut b = [0u8; 4];
            for x in c.encode_utf8(&mut b).bytes() {
                write!(out, "\\x{:02x}", x).unwrap();
            }
        }
    }
}

fn bt(t: &BasicType, out: &mut String) {
    match t {
        BasicType::U32 => out.push_str("u32"),
        BasicType::U64 => out.push_str("u64"),
        BasicType::I32 => out.push_str("i32"),
        BasicType::I64 => out.push_str("i64"),
        BasicType::F32 => out.push_str("f32"),
        BasicType::F64 => out.push_str("f64"),
        BasicType::String => out.push_str("string"),
        BasicType::Bool => out.push_str("bool"),
        BasicType::Opaque => out.push_str("opaque"),
        BasicType::Ident(s) => {
            out.push_str("I\"");
            q(s, out);
            out.push('"');
        }
    }
}

fn asz(s: &ArraySize, out: &mut String) {
    match s {
        ArraySize::Known(n) => write!(out, "K{}", n).unwrap(),
        ArraySize::Constant(c) => {
            out.push_str("C\"");
            q(c, out);
            out.push('"');
        }
    }
}

fn at(t: &ArrayType<BasicType>, out: &mut String) {
    match t {
        ArrayType::None(b) => {
            out.push_str("N(");
            bt(b, out);
            out.push(')');
        }
        ArrayType::FixedSize(b, s) => {
            out.push_str("F(");
            bt(b, out);
            out.push(',');
            asz(s, out);
            out.push(')');
        }
        ArrayType::VariableSize(b, s) => {
            out.push_str("V(");
            bt(b, out);
            out.push(',');
            match s {
                Some(s) => asz(s, out),
                None => out.push('-'),
            }
            out.push(')');
        }
    }
}

fn ucase(c: &UnionCase, out: &mut String) {
    out.push_str("([");
    for (i, v) in c.case_values.iter().enumerate() {
        if i > 0 {
            out.push(',');
        }
        q(v, out);
    }
    out.push_str("];");
    q(&c.field_name, out);
    out.push(';');
    at(&c.field_value, out);
    out.push(')');
}

fn asttype(t: &AstType, out: &mut String) {
    match t {
        AstType::Struct(s) => {
            out.push_str("S(");
            q(&s.name, out);
            out.push_str(";[");
            for (i, f) in s.fields.iter().enumerate() {
                if i > 0 {
                    out.push(',');
                }
                q(&f.field_name, out);
                out.push(':');
                at(&f.field_value, out);
                out.push_str(if f.is_optional { ":opt" } else { ":req" });
            }
            out.push_str("])");
        }
        AstType::Union(u) => {
            out.push_str("U(");
            q(&u.name, out);
            out.push_str(";sw=");
            q(&u.switch.var_name, out);
            out.push(':');
            bt(&u.switch.var_type, out);
            out.push_str(";cases=[");
            for (i, c) in u.cases.iter().enumerate() {
                if i > 0 {
                    out.push(',');
                }
                ucase(c, out);
            }
            out.push_str("];default=");
            match &u.default {
                Some(c) => ucase(c, out),
                None => out.push('-'),
            }
            out.push_str(";void=[");
            for (i, v) in u.void_cases.iter().enumerate() {
                if i > 0 {
                    out.push(',');
                }
                q(v, out);
            }
            out.push_str("])");
        }
        AstType::Enum(e) => {
            out.push_str("E(");
            q(&e.name, out);
            out.push_str(";[");
            for (i, v) in e.variants.iter().enumerate() {
                if i > 0 {
                    out.push(',');
                }
                q(&v.name, out);
                out.push('=');
                match &v.value {
                    VariantValue::Numeric(n) => write!(out, "N{}", n).unwrap(),
                    VariantValue::String(s) => {
                        out.push_str("S\"");
                        q(s, out);
                        out.push('"');
                    }
                }
            }
            out.push_str("])");
        }
        AstType::Typedef(t) => {
            out.push_str("D(target=");
            bt(&t.target, out);
            out.push_str(";alias=");
            at(&t.alias, out);
            out.push(')');
        }
    }
}

fn dump_ast(a: &Ast) -> String {
    let mut out = String::from("C{");
    for (i, (k, v)) in a.constants().0.iter().enumerate() {
        if i > 0 {
            out.push('|');
        }
        q(k, &mut out);
        out.push('=');
        match v {
            ConstantType::ConstValue(s) => {
                out.push_str("V:");
                q(s, &mut out);
            }
            ConstantType::EnumValue { enum_name, variant } => {
                out.push_str("E:");
                q(enum_name, &mut out);
                out.push_str("::");
                q(variant, &mut out);
            }
        }
    }
    out.push_str("};G{");
    let mut g: Vec<&String> = a.generics().0.iter().collect();
    g.sort();
    for (i, k) in g.iter().enumerate() {
        if i > 0 {
            out.push(',');
        }
        q(k, &mut out);
    }
    out.push_str("};T{");
    for (i, (k, v)) in a.types().0.iter().enumerate() {
        if i > 0 {
            out.push('|');
        }
        q(k, &mut out);
        out.push('=');
        asttype(v, &mut out);
        // get() must return the same entry
        match a.types().get(k) {
            Some(x) if x == v => {}
            _ => out.push_str("!GET"),
        }
    }
    out.push('}');
    out
}

fn unhex(s: &str) -> Vec<u8> {
    if s == "-" {
        return vec![];
    }
    (0..s.len() / 2).map(|i| u8::from_str_radix(&s[2 * i..2 * i + 2], 16).unwrap()).collect()
}
fn hex(b: &[u8]) -> String {
    if b.is_empty() {
        return "-".into();
    }
    let mut s = String::with_capacity(b.len() * 2);
    for x in b {
        write!(s, "{:02x}", x).unwrap();
    }
    s
}

fn guarded<F: FnOnce() -> String + std::panic::UnwindSafe>(f: F) -> String {
    match std::panic::catch_unwind(f) {
        Ok(s) => s,
        Err(_) => LAST_PANIC.with(|p| format!("panic {}", p.borrow())),
    }
}

const HEADER: &str = include_str!("/repo/src/header.rs");

fn run(line: &str) -> String {
    let f: Vec<&str> = line.split_whitespace().collect();
    if f.is_empty() {
        return String::new();
    }
    match f[0] {
        "ast" => {
            let text = String::from_utf8(unhex(f[1])).unwrap();
            guarded(move || match Ast::new(&text) {
                Ok(a) => format!("ok {}", dump_ast(&a)),
                Err(_) => "err".to_string(),
            })
        }
        "gen" => {
            let derive = f[1].to_string();
            let text = String::from_utf8(unhex(f[2])).unwrap();
            guarded(move || {
                let g = match derive.as_str() {
                    "d" => fastxdr::Generator::default(),
                    _ => fastxdr::Generator::default().with_derive("#[derive(Debug, PartialEq, Clone)]"),
                };
                match g.generate(&text) {
                    Ok(s) => {
                        let h = format!("{}\n", HEADER);
                        if let Some(rest) = s.strip_prefix(h.as_str()) {
                            format!("ok {}", hex(rest.as_bytes()))
                        } else {
                            "badheader".to_string()
                        }
                    }
                    Err(e) => {
                        let mut m = String::new();
                        q(&e.to_string(), &mut m);
                        format!("err {}", m)
                    }
                }
            })
        }
        "genfull" => {
            // the complete text Generator::default().generate returns (what the CLI must print)
            let text = String::from_utf8(unhex(f[1])).unwrap();
            guarded(move || match fastxdr::Generator::default().generate(&text) {
                Ok(s) => format!("ok {}", hex(s.as_bytes())),
                Err(_) => "err".to_string(),
            })
        }
        "genrep" => {
            // repeated and interleaved calls on one Generator value
            let n: usize = f[1].parse().unwrap();
            let text = String::from_utf8(unhex(f[2])).unwrap();
            let other = String::from_utf8(unhex(f[3])).unwrap();
            guarded(move || {
                let g = fastxdr::Generator::default();
                let first = g.generate(&text).map_err(|e| e.to_string());
                for i in 0..n {
                    if i % 2 == 1 {
                        let _ = g.generate(&other);
                    }
                    if g.generate(&text).map_err(|e| e.to_string()) != first {
                        return "differ".to_string();
                    }
                }
                "same".to_string()
            })
        }
        _ => "bad-op".to_string(),
    }
}


// watchdog: a request that does not answer within FX_REQ_TIMEOUT_MS (default 20 s) ends the process with status 124;
// the driver reports it as `abort timeout` for that request and goes on with the next one
static BUSY_SINCE_MS: std::sync::atomic::AtomicU64 = std::sync::atomic::AtomicU64::new(0);
fn now_ms() -> u64 {
    std::time::SystemTime::now().duration_since(std::time::UNIX_EPOCH).map(|d| d.as_millis() as u64).unwrap_or(1)
}
fn start_watchdog() {
    let limit: u64 = std::env::var("FX_REQ_TIMEOUT_MS").ok().and_then(|s| s.parse().ok()).unwrap_or(20000);
    std::thread::spawn(move || loop {
        std::thread::sleep(std::time::Duration::from_millis(250));
        let since = BUSY_SINCE_MS.load(std::sync::atomic::Ordering::Relaxed);
        if since != 0 && now_ms().saturating_sub(since) > limit {
            std::process::exit(124);
        }
    });
}

fn main() {
    start_watchdog();
    std::panic::set_hook(Box::new(|info| {
        let file = info.location().map(|l| l.file().to_string()).unwrap_or_default();
        let msg = if let Some(s) = info.payload().downcast_ref::<&str>() {
            s.to_string()
        } else if let Some(s) = info.payload().downcast_ref::<String>() {
            s.clone()
        } else {
            "?".to_string()
        };
        let mut m = String::new();
        for c in msg.chars() {
            m.push(if c == '\n' || c == '\r' || c == '\t' { ' ' } else { c });
        }
        LAST_PANIC.with(|p| *p.borrow_mut() = format!("{} {}", file, m));
    }));
    let stdin = std::io::stdin();
    let stdout = std::io::stdout();
    let mut w = std::io::BufWriter::new(stdout.lock());
    for line in stdin.lock().lines() {
        let line = line.unwrap();
        BUSY_SINCE_MS.store(now_ms(), std::sync::atomic::Ordering::Relaxed);
        let reply = run(&line);
        BUSY_SINCE_MS.store(0, std::sync::atomic::Ordering::Relaxed);
        writeln!(w, "{}", reply).unwrap();
        w.flush().unwrap();
    }
}
