// included inside `mod h` of every per-specification module, after common/dump.rs
use super::xdr;
use std::convert::TryFrom;
use xdr::WireSize;

pub fn dec<T>(fam: &str, whole: &Bytes, lead: usize, len: usize, out: &mut String)
where
    T: TryFrom<Bytes, Error = xdr::Error> + for<'a> TryFrom<&'a mut Bytes, Error = xdr::Error> + WireSize + Dump,
{
    let mut buf = whole.slice(lead..lead + len);
    let cx = Ctx {
        base: whole.as_ptr() as usize + lead,
        boff: lead,
        alloc_lo: whole.as_ptr() as usize,
        alloc_hi: whole.as_ptr() as usize + whole.len(),
    };
    let owned = buf.clone();
    crate::alloc::start();
    let r = if fam == "val" { T::try_from(owned) } else { T::try_from(&mut buf) };
    crate::alloc::stop();
    match r {
        Ok(v) => {
            out.push_str("ok ");
            v.dump(&cx, out);
            if fam == "ref" {
                use fastxdr::bytes::Buf;
                out.push_str(&format!(
                    " rem={} at={}",
                    buf.remaining(),
                    if buf.is_empty() { "-".to_string() } else { format!("{}", buf.as_ptr() as usize - cx.base + cx.boff) }
                ));
            }
            out.push_str(&format!(" ws={}", v.wire_size()));
        }
        Err(e) => dump_err(&e, out),
    }
}
