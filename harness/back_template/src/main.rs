// Stage 2 of T2: the compiled generated decoders behind the line protocol.
//   dec <K> <val|ref> <type> <lead> <hex>   -> ok <dump> [rem= at=] ws=<n>\tallocs … | err …\tallocs … | panic
//   sizes <K>                               -> sizes name=size_of …
#![allow(dead_code, unused_imports)]
mod alloc;
#[path = "gen/mod.rs"]
mod gen;

use fastxdr::bytes::Bytes;
use std::io::{BufRead, Write as IoWrite};

include!("gen/dispatch.rs");

#[global_allocator]
static GLOBAL: alloc::Counting = alloc::Counting;

// segments separated by `~`: `<hex>` (or `-`, empty) and `<count>:<bb>` (`count` copies of the byte `bb`)
fn unhex(s: &str) -> Vec<u8> {
    let mut out: Vec<u8> = Vec::new();
    for seg in s.split('~') {
        if let Some((n, b)) = seg.split_once(':') {
            let n: usize = n.parse().unwrap();
            let b = u8::from_str_radix(b, 16).unwrap();
            out.extend(std::iter::repeat(b).take(n));
        } else if seg != "-" {
            out.extend((0..seg.len() / 2).map(|i| u8::from_str_radix(&seg[2 * i..2 * i + 2], 16).unwrap()));
        }
    }
    out
}

fn run(line: &str) -> String {
    let f: Vec<&str> = line.split_whitespace().collect();
    if f.is_empty() {
        return String::new();
    }
    match f[0] {
        "sizes" => {
            let mut out = String::from("sizes");
            sizes(f[1].parse().unwrap(), &mut out);
            out
        }
        "dec" => {
            let k: usize = f[1].parse().unwrap();
            let fam = f[2].to_string();
            let ty = f[3].to_string();
            let lead: usize = f[4].parse().unwrap();
            let payload = unhex(f[5]);
            let mut whole = vec![0xEEu8; lead];
            whole.extend_from_slice(&payload);
            whole.extend_from_slice(&[0xDD; 7]);
            let whole = Bytes::from(whole);
            let len = payload.len();
            let res = std::panic::catch_unwind(std::panic::AssertUnwindSafe(|| {
                let mut out = String::new();
                if !dispatch(k, &ty, &fam, &whole, lead, len, &mut out) {
                    out.push_str("no-such-type");
                }
                out
            }));
            alloc::stop();
            let log = alloc::take();
            let mut out = match res {
                Ok(s) => s,
                Err(_) => "panic".to_string(),
            };
            out.push_str("\tallocs");
            if !out.starts_with("panic") {
                for a in log {
                    out.push_str(&format!(" {}", a));
                }
            }
            out
        }
        _ => "bad-op".to_string(),
    }
}


// watchdog: a request that does not answer within FX_REQ_TIMEOUT_MS (default 20 s) ends the process with status 124;
// the driver reports it as `abort timeout` for that request and goes on with the next one
static BUSY_SINCE_MS: std::sync::atomic::AtomicU64 = std::sync::atomic::AtomicU64::new(0);
fn now_ms() -> u64 {
    std::time::SystemTime::now().duration_since(std::time::UNIX_EPOCH).map(|d| d.as_millis() as u64).unwrap_or(1)
}
fn start_watchdog() {
    let limit: u64 = std::env::var("FX_REQ_TIMEOUT_MS").ok().and_then(|s| s.parse().ok()).unwrap_or(20000);
    std::thread::spawn(move || loop {
        std::thread::sleep(std::time::Duration::from_millis(250));
        let since = BUSY_SINCE_MS.load(std::sync::atomic::Ordering::Relaxed);
        if since != 0 && now_ms().saturating_sub(since) > limit {
            std::process::exit(124);
        }
    });
}

fn main() {
    start_watchdog();
    std::panic::set_hook(Box::new(|_| {}));
    // decode on a thread with a large stack so that deep (but legitimate) optional chains do not overflow
    let stack: usize = std::env::var("FX_STACK_MB").ok().and_then(|s| s.parse().ok()).unwrap_or(64) << 20;
    let h = std::thread::Builder::new()
        .stack_size(stack)
        .spawn(|| {
            let stdin = std::io::stdin();
            let stdout = std::io::stdout();
            let mut w = std::io::BufWriter::new(stdout.lock());
            for line in stdin.lock().lines() {
                let line = line.unwrap();
                BUSY_SINCE_MS.store(now_ms(), std::sync::atomic::Ordering::Relaxed);
                let reply = run(&line);
                BUSY_SINCE_MS.store(0, std::sync::atomic::Ordering::Relaxed);
                writeln!(w, "{}", reply).unwrap();
                w.flush().unwrap();
            }
        })
        .unwrap();
    h.join().unwrap();
}
