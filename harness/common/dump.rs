// Canonical dump of decoded values, shared by the rt and back harnesses.
// `base` is the address of the first byte of the caller's input view and
// `boff` the absolute offset of that view inside its allocation, so every
// opaque leaf prints the absolute offset of its bytes in the input allocation.
use super::xdr::Error;
use fastxdr::bytes::Bytes;
use std::fmt::Write;

pub struct Ctx {
    pub base: usize,
    pub boff: usize,
    pub alloc_lo: usize,
    pub alloc_hi: usize,
}

pub trait Dump {
    fn dump(&self, cx: &Ctx, out: &mut String);
}

macro_rules! dump_int {
    ($($t:ty),+) => { $( impl Dump for $t { fn dump(&self, _cx: &Ctx, out: &mut String) { write!(out, "{}", self).unwrap(); } } )+ };
}
dump_int!(u8, u32, u64, i32, i64, bool);

impl Dump for f32 {
    fn dump(&self, _cx: &Ctx, out: &mut String) {
        write!(out, "f32:{:08x}", self.to_bits()).unwrap();
    }
}
impl Dump for f64 {
    fn dump(&self, _cx: &Ctx, out: &mut String) {
        write!(out, "f64:{:016x}", self.to_bits()).unwrap();
    }
}
pub fn hex(b: &[u8], out: &mut String) {
    for x in b {
        write!(out, "{:02x}", x).unwrap();
    }
}
impl Dump for String {
    fn dump(&self, _cx: &Ctx, out: &mut String) {
        out.push_str("s:");
        hex(self.as_bytes(), out);
    }
}
impl Dump for Bytes {
    fn dump(&self, cx: &Ctx, out: &mut String) {
        if self.is_empty() {
            out.push_str("b@-:");
            return;
        }
        let p = self.as_ptr() as usize;
        if p >= cx.alloc_lo && p + self.len() <= cx.alloc_hi {
            write!(out, "b@{}:", p - cx.base + cx.boff).unwrap();
        } else {
            out.push_str("b@COPY:");
        }
        hex(self.as_ref(), out);
    }
}
impl<T: Dump> Dump for Vec<T> {
    fn dump(&self, cx: &Ctx, out: &mut String) {
        out.push_str("(vec");
        for x in self {
            out.push(' ');
            x.dump(cx, out);
        }
        out.push(')');
    }
}
impl<T: Dump, const N: usize> Dump for [T; N] {
    fn dump(&self, cx: &Ctx, out: &mut String) {
        out.push_str("(arr");
        for x in self {
            out.push(' ');
            x.dump(cx, out);
        }
        out.push(')');
    }
}
impl<T: Dump> Dump for Option<T> {
    fn dump(&self, cx: &Ctx, out: &mut String) {
        match self {
            None => out.push_str("none"),
            Some(x) => {
                out.push_str("(some ");
                x.dump(cx, out);
                out.push(')');
            }
        }
    }
}
impl<T: Dump> Dump for Box<T> {
    fn dump(&self, cx: &Ctx, out: &mut String) {
        (**self).dump(cx, out)
    }
}

pub fn dump_err(e: &Error, out: &mut String) {
    match e {
        Error::InvalidLength => out.push_str("err InvalidLength"),
        Error::NonUtf8String(_) => out.push_str("err NonUtf8String"),
        Error::InvalidBoolean => out.push_str("err InvalidBoolean"),
        Error::UnknownVariant(d) => write!(out, "err UnknownVariant {}", d).unwrap(),
        Error::UnknownOptionVariant(d) => write!(out, "err UnknownOptionVariant {}", d).unwrap(),
        Error::Unknown(s) => write!(out, "err Unknown {}", s).unwrap(),
    }
}

pub fn unhex(s: &str) -> Vec<u8> {
    if s == "-" {
        return vec![];
    }
    (0..s.len() / 2)
        .map(|i| u8::from_str_radix(&s[2 * i..2 * i + 2], 16).unwrap())
        .collect()
}
