// Counting allocator: records the size of every alloc/realloc request made on
// the calling thread between start() and stop().
use std::alloc::{GlobalAlloc, Layout, System};
use std::cell::{Cell, RefCell};

pub struct Counting;

thread_local! {
    static ON: Cell<bool> = const { Cell::new(false) };
    static LOG: RefCell<Vec<usize>> = const { RefCell::new(Vec::new()) };
}

fn record(sz: usize) {
    let on = ON.try_with(|o| o.get()).unwrap_or(false);
    if on {
        ON.with(|o| o.set(false));
        let _ = LOG.try_with(|l| l.borrow_mut().push(sz));
        ON.with(|o| o.set(true));
    }
}

unsafe impl GlobalAlloc for Counting {
    unsafe fn alloc(&self, l: Layout) -> *mut u8 {
        record(l.size());
        System.alloc(l)
    }
    unsafe fn dealloc(&self, p: *mut u8, l: Layout) {
        System.dealloc(p, l)
    }
    unsafe fn realloc(&self, p: *mut u8, l: Layout, new: usize) -> *mut u8 {
        record(new);
        System.realloc(p, l, new)
    }
}

pub fn start() {
    LOG.with(|l| {
        let mut l = l.borrow_mut();
        l.clear();
        l.reserve(4096);
    });
    ON.with(|o| o.set(true));
}
pub fn stop() {
    ON.with(|o| o.set(false));
}
pub fn take() -> Vec<usize> {
    LOG.with(|l| l.borrow().clone())
}
