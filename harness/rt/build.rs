// The runtime under test is whatever /repo's generator emits for an empty
// specification: header.rs as text, closed by the generator's final brace.
fn main() {
    println!("cargo:rerun-if-changed=/repo/src");
    let code = fastxdr::Generator::default().generate("").expect("generate(\"\")");
    let out = std::path::Path::new(&std::env::var("OUT_DIR").unwrap()).join("out.rs");
    std::fs::write(out, code).unwrap();
}
