// T4: drives every public reader of the generated `DeserialiserExt` and the
// blanket `WireSize` impls directly.  One request per stdin line, one canonical
// reply per stdout line (same protocol as the Lean driver's `rt` requests).
#![allow(dead_code, unused_imports, unused_mut)]

include!(concat!(env!("OUT_DIR"), "/out.rs"));

#[path = "../../common/dump.rs"]
mod dump;
#[path = "../../common/alloc.rs"]
mod alloc;

use dump::*;
use fastxdr::bytes::{Buf, Bytes};
use std::convert::TryFrom;
use std::io::{BufRead, Write as IoWrite};
use xdr::*;

#[global_allocator]
static GLOBAL: alloc::Counting = alloc::Counting;

// Element types for read_variable_array (the three shapes header.rs' own
// dormant tests use): 1 byte / wire size 1, 4 bytes / wire size 4, and a
// variable-sized element (count word + that many words).
#[derive(Debug, PartialEq)]
pub struct B1(u8);
impl TryFrom<Bytes> for B1 {
    type Error = Error;
    fn try_from(mut v: Bytes) -> Result<Self, Error> {
        if v.remaining() < 1 {
            return Err(Error::InvalidLength);
        }
        Ok(B1(v.get_u8()))
    }
}
impl WireSize for B1 {
    fn wire_size(&self) -> usize {
        1
    }
}
impl Dump for B1 {
    fn dump(&self, _cx: &Ctx, out: &mut String) {
        out.push_str(&format!("{}", self.0));
    }
}

#[derive(Debug, PartialEq)]
pub struct W4(u32);
impl TryFrom<Bytes> for W4 {
    type Error = Error;
    fn try_from(mut v: Bytes) -> Result<Self, Error> {
        Ok(W4(v.read_u32()?))
    }
}
impl WireSize for W4 {
    fn wire_size(&self) -> usize {
        self.0.wire_size()
    }
}
impl Dump for W4 {
    fn dump(&self, _cx: &Ctx, out: &mut String) {
        out.push_str(&format!("{}", self.0));
    }
}

// count word n, then n words; keeps (n, sum of words) so it never allocates.
#[derive(Debug, PartialEq)]
pub struct VS(u32, u64);
impl TryFrom<Bytes> for VS {
    type Error = Error;
    fn try_from(mut v: Bytes) -> Result<Self, Error> {
        let n = v.read_u32()?;
        let mut s = 0u64;
        for _ in 0..n {
            s += v.read_u32()? as u64;
        }
        Ok(VS(n, s))
    }
}
impl WireSize for VS {
    fn wire_size(&self) -> usize {
        4 + 4 * self.0 as usize
    }
}
impl Dump for VS {
    fn dump(&self, _cx: &Ctx, out: &mut String) {
        out.push_str(&format!("(vec {} {})", self.0, self.1));
    }
}

fn parse_max(s: &str) -> Option<usize> {
    if s == "-" {
        None
    } else {
        Some(s.parse().unwrap())
    }
}

fn finish<T: Dump>(r: Result<T, Error>, buf: &Bytes, cx: &Ctx, out: &mut String) {
    match r {
        Ok(v) => {
            out.push_str("ok ");
            v.dump(cx, out);
            out.push_str(&format!(
                " rem={} at={}",
                buf.remaining(),
                if buf.is_empty() { "-".to_string() } else { format!("{}", buf.as_ptr() as usize - cx.base + cx.boff) }
            ));
        }
        Err(e) => dump_err(&e, out),
    }
}

fn run(line: &str) -> String {
    let f: Vec<&str> = line.split_whitespace().collect();
    let mut out = String::new();
    if f.is_empty() {
        return out;
    }
    // size helpers: no buffer
    match f[0] {
        "ws" => {
            let n: usize = f.get(2).map(|x| x.parse().unwrap()).unwrap_or(0);
            let r = match f[1] {
                "u8" => 7u8.wire_size(),
                "u32" => 7u32.wire_size(),
                "i32" => 7i32.wire_size(),
                "f32" => 7f32.wire_size(),
                "bool" => true.wire_size(),
                "u64" => 7u64.wire_size(),
                "i64" => 7i64.wire_size(),
                "f64" => 7f64.wire_size(),
                "bytes" => Bytes::from(vec![1u8; n]).wire_size(),
                "string" => "a".repeat(n).wire_size(),
                // non-ASCII text: n characters of 2, 3 and 4 bytes each (the XDR length is in bytes)
                "string_u2" => "\u{e9}".repeat(n).wire_size(),
                "string_u3" => "\u{65e5}".repeat(n).wire_size(),
                "string_u4" => "\u{1f600}".repeat(n).wire_size(),
                "string_mix" => (0..n).map(|i| ["a", "\u{e9}", "\u{65e5}", "\u{1f600}"][i % 4]).collect::<String>().wire_size(),
                "vec_u8" => vec![1u8; n].wire_size(),
                "vec_u32" => vec![1u32; n].wire_size(),
                "vec_u64" => vec![1u64; n].wire_size(),
                "slice_u8" => vec![1u8; n][..].wire_size(),
                "slice_u32" => vec![1u32; n][..].wire_size(),
                "slice_string" => (0..n).map(|i| "a".repeat(i)).collect::<Vec<String>>()[..].wire_size(),
                "slice_vec_u32" => (0..n).map(|i| vec![1u32; i]).collect::<Vec<Vec<u32>>>()[..].wire_size(),
                "vec_vec_u32" => (0..n).map(|i| vec![1u32; i]).collect::<Vec<Vec<u32>>>().wire_size(),
                "opt_string" => Some("a".repeat(n)).wire_size(),
                "box_vec_u32" => Box::new(vec![1u32; n]).wire_size(),
                "vec_string" => (0..n).map(|i| "a".repeat(i)).collect::<Vec<String>>().wire_size(),
                "opt_none" => (None as Option<u32>).wire_size(),
                "opt_u32" => Some(1u32).wire_size(),
                "opt_box_u64" => Some(Box::new(1u64)).wire_size(),
                "box_string" => Box::new("a".repeat(n)).wire_size(),
                other => panic!("unknown ws {}", other),
            };
            return format!("ok {}", r);
        }
        _ => {}
    }
    // readers: last field is the buffer, optionally preceded by `@off` meaning
    // the view starts `off` bytes into a larger allocation.
    let hexs = f[f.len() - 1];
    let mut args = &f[1..f.len() - 1];
    let mut lead = 0usize;
    if let Some(a) = args.last() {
        if let Some(stripped) = a.strip_prefix('@') {
            lead = stripped.parse().unwrap();
            args = &args[..args.len() - 1];
        }
    }
    let payload = unhex(hexs);
    let mut whole = vec![0xEEu8; lead];
    whole.extend_from_slice(&payload);
    whole.extend_from_slice(&[0xDD; 5]); // trailing slack the view does not cover
    let whole = Bytes::from(whole);
    let mut buf = whole.slice(lead..lead + payload.len());
    let cx = Ctx {
        base: whole.as_ptr() as usize + lead,
        boff: lead,
        alloc_lo: whole.as_ptr() as usize,
        alloc_hi: whole.as_ptr() as usize + whole.len(),
    };
    let mut elem_size = 0usize;
    alloc::start();
    let res = std::panic::catch_unwind(std::panic::AssertUnwindSafe(|| {
        let mut out = String::new();
        match f[0] {
            "u32" => { let r = buf.read_u32(); alloc::stop(); finish(r, &buf, &cx, &mut out) }
            "u64" => { let r = buf.read_u64(); alloc::stop(); finish(r, &buf, &cx, &mut out) }
            "i32" => { let r = buf.read_i32(); alloc::stop(); finish(r, &buf, &cx, &mut out) }
            "i64" => { let r = buf.read_i64(); alloc::stop(); finish(r, &buf, &cx, &mut out) }
            "f32" => { let r = buf.read_f32(); alloc::stop(); finish(r, &buf, &cx, &mut out) }
            "f64" => { let r = buf.read_f64(); alloc::stop(); finish(r, &buf, &cx, &mut out) }
            "bool" => { let r = buf.read_bool(); alloc::stop(); finish(r, &buf, &cx, &mut out) }
            "bytes" => { let r = buf.read_bytes(args[0].parse().unwrap()); alloc::stop(); finish(r, &buf, &cx, &mut out) }
            "varbytes" => { let r = buf.read_variable_bytes(parse_max(args[0])); alloc::stop(); finish(r, &buf, &cx, &mut out) }
            "string" => { let r = buf.read_string(parse_max(args[0])); alloc::stop(); finish(r, &buf, &cx, &mut out) }
            "vararr" => match args[0] {
                "b1" => { elem_size = std::mem::size_of::<B1>(); let r = buf.read_variable_array::<B1>(parse_max(args[1])); alloc::stop(); finish(r, &buf, &cx, &mut out) }
                "w4" => { elem_size = std::mem::size_of::<W4>(); let r = buf.read_variable_array::<W4>(parse_max(args[1])); alloc::stop(); finish(r, &buf, &cx, &mut out) }
                "vs" => { elem_size = std::mem::size_of::<VS>(); let r = buf.read_variable_array::<VS>(parse_max(args[1])); alloc::stop(); finish(r, &buf, &cx, &mut out) }
                other => panic!("unknown elem {}", other),
            },
            other => { alloc::stop(); out.push_str(&format!("bad-op {}", other)) }
        }
        out
    }));
    alloc::stop();
    let log = alloc::take();
    match res {
        Ok(s) => out.push_str(&s),
        Err(_) => out.push_str("panic"),
    }
    out.push_str("\tallocs");
    for a in log {
        if elem_size > 0 {
            out.push_str(&format!(" {}/{}", a, elem_size));
        } else {
            out.push_str(&format!(" {}", a));
        }
    }
    out
}


// watchdog: a request that does not answer within FX_REQ_TIMEOUT_MS (default 20 s) ends the process with status 124;
// the driver reports it as `abort timeout` for that request and goes on with the next one
static BUSY_SINCE_MS: std::sync::atomic::AtomicU64 = std::sync::atomic::AtomicU64::new(0);
fn now_ms() -> u64 {
    std::time::SystemTime::now().duration_since(std::time::UNIX_EPOCH).map(|d| d.as_millis() as u64).unwrap_or(1)
}
fn start_watchdog() {
    let limit: u64 = std::env::var("FX_REQ_TIMEOUT_MS").ok().and_then(|s| s.parse().ok()).unwrap_or(20000);
    std::thread::spawn(move || loop {
        std::thread::sleep(std::time::Duration::from_millis(250));
        let since = BUSY_SINCE_MS.load(std::sync::atomic::Ordering::Relaxed);
        if since != 0 && now_ms().saturating_sub(since) > limit {
            std::process::exit(124);
        }
    });
}

fn main() {
    start_watchdog();
    std::panic::set_hook(Box::new(|_| {}));
    let stdin = std::io::stdin();
    let stdout = std::io::stdout();
    let mut w = std::io::BufWriter::new(stdout.lock());
    for line in stdin.lock().lines() {
        let line = line.unwrap();
        BUSY_SINCE_MS.store(now_ms(), std::sync::atomic::Ordering::Relaxed);
        let r = run(&line);
        BUSY_SINCE_MS.store(0, std::sync::atomic::Ordering::Relaxed);
        writeln!(w, "{}", r).unwrap();
        w.flush().unwrap();
    }
}
