#!/bin/sh
# Offline setup: build the Lean development (model, proofs, driver) and the Rust harnesses.
set -e
cd "$(dirname "$0")"
export CARGO_NET_OFFLINE=true
mkdir -p work evidence replays
if [ -f tools/pest2lean.py ]; then python3 tools/pest2lean.py /repo/src/xdr.pest lean/Fx/Grammar.lean; fi
(cd lean && lake build)
for c in harness/*/; do
  if [ -f "$c/Cargo.toml" ]; then
    [ -f "$c/Cargo.lock" ] || cp /repo/Cargo.lock "$c/Cargo.lock"
    (cd "$c" && cargo build --offline --quiet) || echo "warning: $c did not build (checks rebuild it)"
  fi
done
