/-
  Fx.Index — `ConstantIndex::new`, `TypeIndex::new`, `GenericIndex::new`, `Ast::new`
  (src/ast/indexes/*.rs, src/ast/mod.rs 50-67).
-/
import Fx.Walk
import Fx.Grammar
namespace Fx

/-- `BTreeMap::insert` on a key-sorted association list; returns whether the key was present -/
def bins {α} (k : String) (v : α) : List (String × α) → List (String × α)
  | [] => [(k, v)]
  | (k', v') :: t =>
    if k < k' then (k, v) :: (k', v') :: t
    else if k = k' then (k, v) :: t
    else (k', v') :: bins k v t

def bget {α} (k : String) : List (String × α) → Option α
  | [] => none
  | (k', v') :: t => if k = k' then some v' else bget k t

def bhas {α} (k : String) (m : List (String × α)) : Bool := (bget k m).isSome

/-- the (name, value) pairs `ConstantIndex::new` inserts, in source order -/
def constEntries : List Item → List (String × ConstantType)
  | [] => []
  | .constant n v :: rest => (n, .constValue v) :: constEntries rest
  | .enum e :: rest => e.variants.map (fun v => (v.name, ConstantType.enumValue e.name v.name)) ++ constEntries rest
  | _ :: rest => constEntries rest

def constInsertAll : List (String × ConstantType) → List (String × ConstantType) → Out (List (String × ConstantType))
  | [], m => .ok m
  | (k, v) :: rest, m =>
    if bhas k m then .panicAt "constants.rs" "duplicate case keys"
    else constInsertAll rest (bins k v m)

/-- `ConstantIndex::new`: panics on a duplicate key -/
def ConstantIndex.new (items : List Item) : Out (List (String × ConstantType)) :=
  constInsertAll (constEntries items) []

def typeEntry : Item → Option (String × AstType)
  | .typedef t => some (t.alias.unwrapArray.asStr, .typedef t)
  | .struct s => some (s.name, .struct s)
  | .union u => some (u.name, .union u)
  | .enum e => some (e.name, .enum e)
  | .constant _ _ => none

/-- `TypeIndex::new`: last insert wins -/
def TypeIndex.new (items : List Item) : List (String × AstType) :=
  (items.filterMap typeEntry).foldl (fun m kv => bins kv.1 kv.2 m) []

/-- what `GenericIndex::recurse` looks at in one root child -/
structure GItem where
  name : String
  own : Bool              -- declares an `opaque` itself
  refs : List String      -- the names whose membership it asks for
deriving Repr, DecidableEq

def refsOf (ts : List ArrayType) : List String :=
  ts.filterMap fun t => match t.unwrapArray with | .ident i => some i | _ => none

/-- the name a typedef asks the index about: only an identifier is looked up (a primitive never is) -/
def BasicType.identRefs : BasicType → List String
  | .ident i => [i]
  | _ => []

def gitemOf : Item → Option GItem
  | .struct s => some ⟨s.name, s.innerTypes.any (·.unwrapArray.isOpaque), refsOf s.innerTypes⟩
  | .union u => some ⟨u.name, u.innerTypes.any (·.unwrapArray.isOpaque), refsOf u.innerTypes⟩
  | .typedef t => some ⟨t.alias.unwrapArray.asStr, t.target.isOpaque, t.target.identRefs⟩
  | _ => none

def GItem.hit (idx : List String) (it : GItem) : Bool := it.own || it.refs.any (fun r => idx.contains r)

/-- one root child in one pass of `recurse` -/
def gstep (idx : List String) (it : GItem) : List String :=
  if idx.contains it.name then idx else if it.hit idx then it.name :: idx else idx

def gpass (items : List GItem) (idx : List String) : List String := items.foldl gstep idx

/-- `while last_size != index.len() { … }` -/
def gloop : Nat → List GItem → List String → List String
  | 0, _, idx => idx
  | fuel+1, items, idx =>
    let idx' := gpass items idx
    if idx'.length = idx.length then idx' else gloop fuel items idx'

def genericIndexOf (gs : List GItem) : List String := gloop (gs.length + 1) gs []

def GenericIndex.new (items : List Item) : List String := genericIndexOf (items.filterMap gitemOf)

/-- front-end outcome -/
inductive FrontRes where
  | ok (ast : Ast)
  | err                       -- the grammar rejects the text
  | panicAt (file msg : String)
  | outOfFuel
deriving Repr

def Ast.ofItems (items : List Item) : Out Ast :=
  (ConstantIndex.new items).bind fun cs =>
    .ok ⟨cs, GenericIndex.new items, TypeIndex.new items⟩

/-- from the token tree of `item` to the `Ast` -/
def Ast.ofPairs (ps : List Peg.Pair) : Out Ast :=
  match ps with
  | root :: _ =>
    (walk root).bind fun n =>
      match n with
      | .root ns => (itemsOf ns).bind Ast.ofItems
      | _ => Ast.ofItems []
  | [] => .panicAt "mod.rs" "unable to tokenise input"

/-- `Ast::new` -/
def Ast.new (txt : String) : FrontRes :=
  match Peg.parseWith Grammar.xdr "item" txt.toList with
  | .fail => .err
  | .outOfFuel => .outOfFuel
  | .ok _ ps =>
    match Ast.ofPairs ps with
    | .ok a => .ok a
    | .panicAt f m => .panicAt f m

end Fx
