/-
  Fx.Peg — interpreter for the dialect of pest 2.8 that `src/xdr.pest` uses.

  Modelled from pest's generator (`generate_rule`, `generate_skip`,
  `generate_expr`, `generate_expr_atomic`) and `ParserState::{rule,sequence,
  repeat,optional,lookahead,atomic}`:
  * ordered choice, sequence with backtracking, `* + ?`, `!e`;
  * rule kinds: normal, silent `_`, atomic `@`; atomicity is dynamic;
  * in non-atomic context `a ~ b` is `a ~ skip ~ b` and `e*` is
    `(e ~ (skip ~ e)*)?`, where `skip = WHITESPACE* ~ (COMMENT ~ WHITESPACE*)*`;
  * the rules named WHITESPACE / COMMENT always run atomically;
  * a rule produces a token only outside atomic context and outside lookahead.
  The interpreter is indexed by fuel (bounding recursion depth), so it is a
  total function and lemmas can be proved about it.  Tied to pest by T3.
-/
namespace Fx.Peg

inductive Expr where
  | str (s : List Char)
  | any | soi | eoi | digit | alnum | newline
  | ref (name : String)
  | seq (a b : Expr)
  | alt (a b : Expr)
  | star (e : Expr)
  | plus (e : Expr)
  | opt (e : Expr)
  | not (e : Expr)
deriving Repr, Inhabited, BEq

inductive RuleTy | normal | silent | atomic
deriving Repr, DecidableEq, BEq

structure Rule where
  name : String
  ty : RuleTy
  body : Expr
deriving Repr

/-- A token pair: rule name, matched text, children (pest's `Pair`). -/
inductive Pair where
  | mk (rule : String) (text : List Char) (children : List Pair)
deriving Repr, Inhabited, BEq

def Pair.rule : Pair → String | .mk r _ _ => r
def Pair.text : Pair → List Char | .mk _ t _ => t
def Pair.children : Pair → List Pair | .mk _ _ c => c

abbrev Grammar := List Rule

def Grammar.find (g : Grammar) (n : String) : Option Rule := List.find? (fun r => r.name == n) g

/-- parser state: characters consumed so far and the remaining input -/
structure St where
  pos : Nat
  rest : List Char
deriving Repr, BEq

inductive PR where
  | ok (s : St) (ps : List Pair)
  | fail
  | outOfFuel
deriving Repr

def matchStr : List Char → St → Option St
  | [], s => some s
  | c :: cs, ⟨p, d :: ds⟩ => if c = d then matchStr cs ⟨p + 1, ds⟩ else none
  | _ :: _, ⟨_, []⟩ => none

def isAsciiDigit (c : Char) : Bool := '0' ≤ c && c ≤ '9'
def isAsciiAlnum (c : Char) : Bool :=
  isAsciiDigit c || ('a' ≤ c && c ≤ 'z') || ('A' ≤ c && c ≤ 'Z')

def ofOpt : Option St → PR
  | some s => .ok s []
  | none => .fail

/-- text consumed between two states of the same parse -/
def consumed (a b : St) : List Char := a.rest.take (b.pos - a.pos)

mutual
def eval (g : Grammar) : Nat → Bool → Expr → St → PR
  | 0, _, _, _ => .outOfFuel
  | fuel+1, atomic, e, s =>
    match e with
    | .str t => ofOpt (matchStr t s)
    | .any => match s.rest with
      | _ :: ds => .ok ⟨s.pos + 1, ds⟩ []
      | [] => .fail
    | .soi => if s.pos = 0 then .ok s [] else .fail
    | .eoi =>
      -- `EOI` is itself a rule: it yields an (empty) `EOI` token outside atomic context
      if s.rest.isEmpty then (if atomic then .ok s [] else .ok s [Pair.mk "EOI" [] []]) else .fail
    | .digit => match s.rest with
      | d :: ds => if isAsciiDigit d then .ok ⟨s.pos + 1, ds⟩ [] else .fail
      | [] => .fail
    | .alnum => match s.rest with
      | d :: ds => if isAsciiAlnum d then .ok ⟨s.pos + 1, ds⟩ [] else .fail
      | [] => .fail
    | .newline =>
      match matchStr ['\n'] s with
      | some s' => .ok s' []
      | none => match matchStr ['\r', '\n'] s with
        | some s' => .ok s' []
        | none => ofOpt (matchStr ['\r'] s)
    | .ref n => evalRule g fuel atomic n s
    | .seq a b =>
      match eval g fuel atomic a s with
      | .ok s1 t1 =>
        (match (if atomic then PR.ok s1 [] else skip g fuel s1) with
         | .ok s1' _ =>
           match eval g fuel atomic b s1' with
           | .ok s2 t2 => .ok s2 (t1 ++ t2)
           | r => r
         | r => r)
      | r => r
    | .alt a b =>
      match eval g fuel atomic a s with
      | .fail => eval g fuel atomic b s
      | r => r
    | .opt e =>
      match eval g fuel atomic e s with
      | .fail => .ok s []
      | r => r
    | .not e =>
      match eval g fuel atomic e s with
      | .ok _ _ => .fail
      | .fail => .ok s []
      | .outOfFuel => .outOfFuel
    | .star e =>
      match eval g fuel atomic e s with
      | .ok s1 t1 => repeatMore g fuel atomic e s1 t1
      | .fail => .ok s []
      | .outOfFuel => .outOfFuel
    | .plus e =>
      -- pest (without grammar-extras) rewrites `e+` to `e ~ e*`: in non-atomic context the
      -- sequence puts a `skip` between `e` and `e*`, and it is kept even when `e*` matches nothing
      eval g fuel atomic (.seq e (.star e)) s

/-- `(skip ~ e)*` after a first match; an iteration that fails restores the position before `skip` -/
def repeatMore (g : Grammar) : Nat → Bool → Expr → St → List Pair → PR
  | 0, _, _, _, _ => .outOfFuel
  | fuel+1, atomic, e, s, acc =>
    match (if atomic then PR.ok s [] else skip g fuel s) with
    | .ok s' _ =>
      (match eval g fuel atomic e s' with
       | .ok s2 t2 =>
         -- pest's `repeat` stops when an iteration makes no progress … it cannot: it loops. We stop (guard).
         if s2.pos = s.pos then .ok s acc else repeatMore g fuel atomic e s2 (acc ++ t2)
       | .fail => .ok s acc
       | .outOfFuel => .outOfFuel)
    | .fail => .ok s acc
    | .outOfFuel => .outOfFuel

def evalRule (g : Grammar) : Nat → Bool → String → St → PR
  | 0, _, _, _ => .outOfFuel
  | fuel+1, atomic, n, s =>
    match g.find n with
    | none => .fail
    | some r =>
      if n == "WHITESPACE" || n == "COMMENT" then
        match eval g fuel true r.body s with
        | .ok s' _ => .ok s' []
        | x => x
      else match r.ty with
      | .silent => eval g fuel atomic r.body s
      | .normal =>
        (match eval g fuel atomic r.body s with
         | .ok s' ts => if atomic then .ok s' [] else .ok s' [Pair.mk n (consumed s s') ts]
         | x => x)
      | .atomic =>
        (match eval g fuel true r.body s with
         | .ok s' _ => if atomic then .ok s' [] else .ok s' [Pair.mk n (consumed s s') []]
         | x => x)

/-- `WHITESPACE*` -/
def skipWs (g : Grammar) : Nat → St → PR
  | 0, _ => .outOfFuel
  | fuel+1, s =>
    match evalRule g fuel true "WHITESPACE" s with
    | .ok s' _ => if s'.pos = s.pos then .ok s [] else skipWs g fuel s'
    | .fail => .ok s []
    | .outOfFuel => .outOfFuel

/-- pest's implicit `skip`: `WHITESPACE* ~ (COMMENT ~ WHITESPACE*)*` -/
def skip (g : Grammar) : Nat → St → PR
  | 0, _ => .outOfFuel
  | fuel+1, s =>
    match skipWs g fuel s with
    | .ok s1 _ =>
      (match evalRule g fuel true "COMMENT" s1 with
       | .ok s2 _ => if s2.pos = s1.pos then .ok s1 [] else skip g fuel s2
       | .fail => .ok s1 []
       | .outOfFuel => .outOfFuel)
    | x => x
end

/-- fuel that bounds the recursion depth for an input of this length -/
def fuelFor (n : Nat) : Nat := 6 * n + 200

/-- `XDRParser::parse(Rule::item, text)`; `EOI` inside `item` contributes an `EOI` token -/
def parseWith (g : Grammar) (start : String) (txt : List Char) : PR :=
  evalRule g (fuelFor txt.length) false start ⟨0, txt⟩

end Fx.Peg
