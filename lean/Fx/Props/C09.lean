/-
  C09 — memory requested by a decode is bounded by the input, not by length fields.
  (first instalment: the one reservation site of the runtime)
-/
import Fx.Eval
import Fx.Lemmas.Advance
import Fx.Props.C10
import Fx.Lemmas.LogBound
import Fx.Lemmas.Total
import Fx.Lemmas.EmitPlans
import Fx.Lemmas.Depth
import Fx.Lemmas.Linear
import Fx.Lemmas.Fuel
namespace Fx.C09
open Fx

/-- the reservation of `read_variable_array` is logged before any element is decoded and is at most the number of
    bytes present after the count word — whatever the count says (repair F2) -/
theorem C09_reserve_bounded (dec : Cur → Res Val) (ws : Val → Nat) (max : Option Nat) (n : Nat) (hn : n < 2^32)
    (o : Nat) (s : List Byte) (l) (hlim : overLimit max n = false) :
    readVariableArray dec ws max ⟨o, be32 n ++ s, l⟩ =
      (arrLoop dec ws n ⟨o + 4, s, l ++ [.vec (min n s.length)]⟩ 0 .nil).bind (fun (r : Vals × Nat) c3 =>
        if c3.remaining < padLen r.2 then .err .invalidLength c3.log
        else (advanceP (padLen r.2) c3).bind fun _ c4 => .ok (.vec r.1) c4) ∧
    min n s.length ≤ s.length := by
  refine ⟨?_, Nat.min_le_right _ _⟩
  simp [readVariableArray, readU32_be32 n hn, hlim, Cur.addLog]

/-- a string copy is exactly the payload that was present -/
theorem C09_string_copy (max : Option Nat) (n : Nat) (hn : n < 2^32) (o : Nat) (s : List Byte) (l) (v : Val) (c' : Cur)
    (h : readString max ⟨o, be32 n ++ s, l⟩ = .ok v c') : c'.log = l ++ [.str n] ∧ n ≤ s.length := by
  rw [C10.read_string_spec max n hn] at h
  split at h
  · cases h
  · split at h
    · cases h
    · rename_i hlen
      have hle : n ≤ s.length := by omega
      split at h
      · cases h
        simp [Nat.min_eq_left hle, hle]
      · cases h

/-- **Every allocation request of a decode call is bounded by the bytes present**: for ALL byte strings, ALL plans,
    every type and fuel, and whether the call succeeds or fails, the allocation log of the call extends the
    incoming log by events — `Vec` reservations (in elements), string copies (in bytes), one `Box` per optional
    link — each of weight at most the number of bytes in the input view.  A count word alone reserves nothing. -/
theorem C09_requests_bounded (a : Ast) (p : Plans) (fuel : Nat) (name : String) (c : Cur) (l' : List Ev)
    (h : (evalImpl a p fuel name c).log? = some l') :
    ∃ new, l' = c.log ++ new ∧ ∀ e ∈ new, e.weight ≤ c.remaining :=
  (eval_logB a p fuel).1 name c l' h

/-- the same for the counted-array reader on its own, for ANY element decoder that obeys the bound -/
theorem C09_array_reader_bounded (dec : Cur → Res Val) (ws : Val → Nat) (hd : ∀ c, LogB c (dec c))
    (m : Option Nat) (c : Cur) : LogB c (readVariableArray dec ws m c) :=
  readVariableArray_logB dec ws hd m c

/-- the defect repaired by F2, against the pre-repair reservation `Vec::with_capacity(n)`:
    four bytes (a count of 2^32-1) requested 2^32-1 elements -/
def reserve_old (n : Nat) (_remaining : Nat) : Ev := .vec n
theorem C09_defect_reserve_old : (reserve_old (2^32 - 1) 0).weight = 4294967295 := by decide

/-- **C09 (the total).**  For ALL byte strings, every plan whose size impls are exact and whose array elements consume input
    (`Plans.elemsSure`, decidable: an element of zero encoded size has no bound on its count), every type and recursion
    budget `f`, success or failure: the allocation events the call adds — `Vec` reservations in elements, string copies in
    bytes, four per `Box` — weigh in total at most `f` × (bytes consumed) on success and `f` × (bytes present) on failure.
    `f` bounds the nesting depth of decoder calls.  For a specification without recursion through counted arrays the depth
    needed does not grow with such nesting and the total is linear in the input; for `struct t { t kids<>; }` the depth grows
    with the input and the total is quadratic — finding K11, witnessed below and on the real decoder. -/
theorem C09_total_bounded (a : Ast) (p : Plans) (hp : p.SizeExact' = true) (hs : p.elemsSure = true)
    (f : Nat) (name : String) (c : Cur) (l' : List Ev) (h : (evalImpl a p f name c).log? = some l') :
    ∃ new, l' = c.log ++ new ∧ wt new ≤ f * c.remaining := by
  have ht := (eval_total a p hp hs f).1 name c
  cases hr : evalImpl a p f name c with
  | ok v c' =>
    rw [hr] at ht h
    obtain ⟨hle, new, hl, hw⟩ := ht
    cases h
    exact ⟨new, hl, Nat.le_trans hw (Nat.mul_le_mul_left _ (Nat.sub_le _ _))⟩
  | err e l =>
    rw [hr] at ht h
    cases h
    exact ht
  | panic s => rw [hr] at h; cases h
  | abort => rw [hr] at h; cases h
  | outOfFuel => rw [hr] at h; cases h

/-- on success the charge is per byte *consumed* (so sibling arrays do not multiply it) -/
theorem C09_total_success (a : Ast) (p : Plans) (hp : p.SizeExact' = true) (hs : p.elemsSure = true)
    (f : Nat) (name : String) (c : Cur) (v : Val) (c' : Cur) (h : evalImpl a p f name c = .ok v c') :
    ∃ new, c'.log = c.log ++ new ∧ wt new ≤ f * (c.remaining - c'.remaining) := by
  have ht := (eval_total a p hp hs f).1 name c
  rw [h] at ht
  exact ht.2

/-- **C09 for specifications without recursive types: the constant does not depend on the input.**  When no declaration can
    reach itself (decidable `Plans.acyclic`: the computed ranking decreases along every reference, direct, optional or array),
    `p.depth name` — computed from the plans alone (Lemmas/Depth) — is a budget at which the decoder of `name` answers on
    EVERY buffer; the answer is the same for every larger budget, and all the memory it requests, on success or on failure,
    adds up to at most `p.depth name × bytes present`.  (For recursive types the factor is the nesting the input itself
    spells out — `C09_total_bounded` — and for array-recursive ones the total is quadratic: finding K11.) -/
theorem C09_total_acyclic (a : Ast) (p : Plans) (hp : p.SizeExact' = true) (hs : p.elemsSure = true) (hac : p.acyclic = true)
    (name : String) (c : Cur) :
    ∃ r, r ≠ .outOfFuel ∧ (∀ f, p.depth name ≤ f → evalImpl a p f name c = r) ∧
      ∀ l', r.log? = some l' → ∃ new, l' = c.log ++ new ∧ wt new ≤ p.depth name * c.remaining := by
  have hno := depth_suffices a p hac name (p.depth name) (Nat.le_refl _) c
  refine ⟨evalImpl a p (p.depth name) name c, hno, fun f hf => evalImpl_fuel_mono a p name c _ f hf hno, fun l' hl => ?_⟩
  exact C09_total_bounded a p hp hs (p.depth name) name c l' hl

/-- non-vacuity and a negative: `struct in { opaque o<>; unsigned n; }; struct s { in xs<>; in *opt; in arr[2]; }` has no
    recursive type and nesting budget 14 for `s`; the K11 type `struct t { t kids<>; }` is (rightly) not acyclic -/
example :
    let p : Plans := ⟨[⟨"in", true, .struct [.plain "o" (.varBytes none), .plain "n" (.one (.prim .u32))]⟩,
                       ⟨"s", true, .struct [.plain "xs" (.varArr "in" true none), .optional "opt" "in",
                                            .plain "arr" (.fixedArr 2 (.tryFrom "in"))]⟩], []⟩
    p.acyclic = true ∧ p.depth "in" = 5 ∧ p.depth "s" = 14 := by decide

/-- **C09, the general case in closed form: never worse than quadratic.**  For every specification with finite types (exact size
    impls, array elements that consume input) and EVERY buffer of `n` bytes, the decoder answers, and all the memory it requests —
    on success or on failure — adds up to at most `(n/4 + 1) · L · n`, where `L = p.maxLocal 0` is a constant of the specification
    (`C04_depth_linear_in_input` gives the budget, `C09_total_bounded` the charge per level).  For specifications without
    recursive types the bound is linear (`C09_total_acyclic`); finding K11 shows the quadratic term is reached by types recursive
    through an unbounded counted array. -/
theorem C09_total_at_most_quadratic (a : Ast) (p : Plans) (hp : p.SizeExact' = true) (hs : p.elemsSure = true) (hfin : p.finite = true)
    (name : String) (c : Cur) :
    ∃ r, r ≠ .outOfFuel ∧ (∀ f, (c.remaining / 4 + 1) * p.maxLocal 0 ≤ f → evalImpl a p f name c = r) ∧
      ∀ l', r.log? = some l' → ∃ new, l' = c.log ++ new ∧ wt new ≤ (c.remaining / 4 + 1) * p.maxLocal 0 * c.remaining := by
  have hb := budget_suffices a p hfin (c.remaining / 4) name c (by omega)
  have hlin := budget_linear p (c.remaining / 4)
  have hno := hb _ hlin
  refine ⟨evalImpl a p ((c.remaining / 4 + 1) * p.maxLocal 0) name c, hno,
    fun f hf => evalImpl_fuel_mono a p name c _ f hf hno, fun l' hl => ?_⟩
  exact C09_total_bounded a p hp hs _ name c l' hl

/-- K11 in the model (a test, not the unbounded claim): the plans of `struct t { t kids<>; }` on 16, 32 and 64 bytes of `ff`
    request 24, 112 and 480 units — the total grows quadratically (2k(k-1) for 4k bytes) while every single request stays
    below the bytes present -/
def k11Plans : Plans :=
  ⟨[⟨"t", false, .struct [.plain "kids" (.varArr "t" false none)]⟩], [⟨"t", false, .struct [⟨"kids", false, false⟩]⟩]⟩

example : ((evalImpl ⟨[], [], []⟩ k11Plans 40 "t" ⟨0, List.replicate 16 255, []⟩).log?.map wt) = some 24 := by decide
example : ((evalImpl ⟨[], [], []⟩ k11Plans 40 "t" ⟨0, List.replicate 32 255, []⟩).log?.map wt) = some 112 := by decide
example : k11Plans.SizeExact' = true ∧ k11Plans.elemsSure = true ∧ k11Plans.acyclic = false := by decide

end Fx.C09
