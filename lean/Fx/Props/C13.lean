/-
  C13 — a type is generic exactly when opaque data is reachable from it.
-/
import Fx.Lemmas.Generic
namespace Fx.C13
open Fx

/-- `n ∈ generics()` iff an `opaque` is reachable from `n` — for every list of root items,
    in any order, of any depth and shape (cycles, undeclared references included). -/
theorem C13_fixpoint_is_reachability (gs : List GItem) (n : String) :
    n ∈ genericIndexOf gs ↔ Reach gs n :=
  ⟨genericIndexOf_sound gs n, genericIndexOf_complete gs⟩

/-- the same for the `Item`s `walk` leaves at the root -/
theorem C13_generics_iff_reach (items : List Item) (n : String) :
    n ∈ GenericIndex.new items ↔ Reach (items.filterMap gitemOf) n :=
  C13_fixpoint_is_reachability _ n

/-- reachability does not depend on the order of the declarations … -/
theorem reach_perm {gs gs' : List GItem} (hp : gs.Perm gs') {n} (h : Reach gs n) : Reach gs' n := by
  induction h with
  | own hm ho => exact Reach.own (hp.mem_iff.mp hm) ho
  | ref hm hr _ ih => exact Reach.ref (hp.mem_iff.mp hm) hr ih

/-- … hence neither does membership in the generic index. -/
theorem C13_order_independent {gs gs' : List GItem} (hp : gs.Perm gs') (n : String) :
    n ∈ genericIndexOf gs ↔ n ∈ genericIndexOf gs' := by
  rw [C13_fixpoint_is_reachability, C13_fixpoint_is_reachability]
  exact ⟨reach_perm hp, reach_perm hp.symm⟩

/-- the loop of `GenericIndex::new` terminates: within `items.length + 1` passes it reaches a set
    that one more pass does not change (the fuel given to the model's loop is never exhausted). -/
theorem C13_terminates (gs : List GItem) :
    gpass gs (genericIndexOf gs) = genericIndexOf gs := by
  have hc := genericIndexOf_closed gs
  -- a closed index is a fixpoint of every step
  have step_fix : ∀ it ∈ gs, gstep (genericIndexOf gs) it = genericIndexOf gs := by
    intro it hm
    unfold gstep
    split
    · rfl
    · rename_i hn
      split
      · rename_i hh
        exact absurd (by simpa using hc it hm hh) (by simpa using hn)
      · rfl
  unfold gpass
  generalize hG : genericIndexOf gs = G at step_fix
  clear hc hG
  generalize gs = sub at step_fix
  induction sub with
  | nil => rfl
  | cons a rest ih =>
    simp only [List.foldl_cons]
    rw [step_fix a List.mem_cons_self]
    exact ih (fun it hit => step_fix it (List.mem_cons_of_mem _ hit))

/-- non-vacuity: a reversed chain of depth 3 ending in an opaque typedef -/
example : Reach [⟨"a", false, ["b"]⟩, ⟨"b", false, ["c"]⟩, ⟨"c", true, []⟩] "a" :=
  .ref (it := ⟨"a", false, ["b"]⟩) (by simp) (by simp)
    (.ref (it := ⟨"b", false, ["c"]⟩) (by simp) (by simp) (.own (it := ⟨"c", true, []⟩) (by simp) rfl))

end Fx.C13
