/-
  C13 — a type is generic exactly when opaque data is reachable from it.
-/
import Fx.Lemmas.Generic
import Fx.Emit
import Fx.OutputOk
namespace Fx.C13
open Fx

/-- `n ∈ generics()` iff an `opaque` is reachable from `n` — for every list of root items,
    in any order, of any depth and shape (cycles, undeclared references included). -/
theorem C13_fixpoint_is_reachability (gs : List GItem) (n : String) :
    n ∈ genericIndexOf gs ↔ Reach gs n :=
  ⟨genericIndexOf_sound gs n, genericIndexOf_complete gs⟩

/-- the same for the `Item`s `walk` leaves at the root -/
theorem C13_generics_iff_reach (items : List Item) (n : String) :
    n ∈ GenericIndex.new items ↔ Reach (items.filterMap gitemOf) n :=
  C13_fixpoint_is_reachability _ n

/-- reachability does not depend on the order of the declarations … -/
theorem reach_perm {gs gs' : List GItem} (hp : gs.Perm gs') {n} (h : Reach gs n) : Reach gs' n := by
  induction h with
  | own hm ho => exact Reach.own (hp.mem_iff.mp hm) ho
  | ref hm hr _ ih => exact Reach.ref (hp.mem_iff.mp hm) hr ih

/-- … hence neither does membership in the generic index. -/
theorem C13_order_independent {gs gs' : List GItem} (hp : gs.Perm gs') (n : String) :
    n ∈ genericIndexOf gs ↔ n ∈ genericIndexOf gs' := by
  rw [C13_fixpoint_is_reachability, C13_fixpoint_is_reachability]
  exact ⟨reach_perm hp, reach_perm hp.symm⟩

/-- the loop of `GenericIndex::new` terminates: within `items.length + 1` passes it reaches a set
    that one more pass does not change (the fuel given to the model's loop is never exhausted). -/
theorem C13_terminates (gs : List GItem) :
    gpass gs (genericIndexOf gs) = genericIndexOf gs := by
  have hc := genericIndexOf_closed gs
  -- a closed index is a fixpoint of every step
  have step_fix : ∀ it ∈ gs, gstep (genericIndexOf gs) it = genericIndexOf gs := by
    intro it hm
    unfold gstep
    split
    · rfl
    · rename_i hn
      split
      · rename_i hh
        exact absurd (by simpa using hc it hm hh) (by simpa using hn)
      · rfl
  unfold gpass
  generalize hG : genericIndexOf gs = G at step_fix
  clear hc hG
  generalize gs = sub at step_fix
  induction sub with
  | nil => rfl
  | cons a rest ih =>
    simp only [List.foldl_cons]
    rw [step_fix a List.mem_cons_self]
    exact ih (fun it hit => step_fix it (List.mem_cons_of_mem _ hit))

/-- non-vacuity: a reversed chain of depth 3 ending in an opaque typedef -/
example : Reach [⟨"a", false, ["b"]⟩, ⟨"b", false, ["c"]⟩, ⟨"c", true, []⟩] "a" :=
  .ref (it := ⟨"a", false, ["b"]⟩) (by simp) (by simp)
    (.ref (it := ⟨"b", false, ["c"]⟩) (by simp) (by simp) (.own (it := ⟨"c", true, []⟩) (by simp) rfl))

/-! ### the parameter is declared exactly where it is used -/

theorem eq_of_name_eq : ∀ (gs : List GItem), (gnames gs).Nodup → ∀ a ∈ gs, ∀ b ∈ gs, a.name = b.name → a = b := by
  intro gs
  induction gs with
  | nil => intro _ a ha; cases ha
  | cons x xs ih =>
    intro hnd a ha b hb hab
    simp only [gnames, List.map_cons, List.nodup_cons] at hnd
    obtain ⟨hx, hxs⟩ := hnd
    rcases List.mem_cons.mp ha with rfl | ha'
    · rcases List.mem_cons.mp hb with rfl | hb'
      · rfl
      · exact absurd (List.mem_map.mpr ⟨b, hb', hab.symm⟩) hx
    · rcases List.mem_cons.mp hb with rfl | hb'
      · exact absurd (List.mem_map.mpr ⟨a, ha', hab⟩) hx
      · exact ih hxs a ha' b hb' hab

/-- a declared name is in the generic index iff its own declaration "hits": it holds an opaque itself or refers to a name
    that is in the index (the index is exactly the least fixpoint, read one step at a time) -/
theorem C13_generic_iff_hit (gs : List GItem) (hnd : (gnames gs).Nodup) (it : GItem) (hm : it ∈ gs) :
    it.name ∈ genericIndexOf gs ↔ it.hit (genericIndexOf gs) = true := by
  constructor
  · intro h
    have hr := genericIndexOf_sound gs _ h
    generalize hn : it.name = n at hr
    cases hr with
    | @own it' hm' ho =>
      have : it' = it := eq_of_name_eq gs hnd it' hm' it hm hn.symm
      subst this
      simp [GItem.hit, ho]
    | @ref it' r hm' hr' hreach =>
      have : it' = it := eq_of_name_eq gs hnd it' hm' it hm hn.symm
      subst this
      have hin := genericIndexOf_complete gs hreach
      simp only [GItem.hit, Bool.or_eq_true, List.any_eq_true]
      exact Or.inr ⟨r, hr', by simpa using hin⟩
  · intro h
    exact genericIndexOf_closed gs it hm h

/-- does a declarator mention the byte container: an `opaque`, or a name that carries the parameter -/
def mentionsT (idx : List String) (t : ArrayType) : Bool :=
  t.unwrapArray.isOpaque || (match t.unwrapArray with | .ident i => idx.contains i | _ => false)

theorem any_or_any {α} (p q : α → Bool) : ∀ (l : List α), (l.any p || l.any q) = l.any (fun x => p x || q x) := by
  intro l
  induction l with
  | nil => rfl
  | cons x xs ih =>
    simp only [List.any_cons, ← ih]
    cases p x <;> cases q x <;> cases xs.any p <;> cases xs.any q <;> rfl

theorem refs_any (idx : List String) : ∀ (ts : List ArrayType),
    (refsOf ts).any (fun r => idx.contains r) = ts.any (fun t => match t.unwrapArray with | .ident i => idx.contains i | _ => false) := by
  intro ts
  induction ts with
  | nil => rfl
  | cons t rest ih =>
    simp only [refsOf, List.filterMap_cons, List.any_cons] at ih ⊢
    cases hu : t.unwrapArray <;> simp only [List.any_cons] <;> rw [ih] <;> simp

theorem hit_eq_any (name : String) (idx : List String) (ts : List ArrayType) :
    (GItem.mk name (ts.any (·.unwrapArray.isOpaque)) (refsOf ts)).hit idx = ts.any (mentionsT idx) := by
  simp only [GItem.hit, refs_any, any_or_any]
  rfl

theorem payloadTy_usesT (a : Ast) (t : ArrayType) : (payloadTy a t).usesT = mentionsT a.generics t := by
  unfold payloadTy mentionsT
  cases hu : t.unwrapArray <;> cases t <;> simp [TyExpr.usesT, BasicType.isOpaque, Ast.isGeneric] <;>
    (split <;> simp_all [TyExpr.usesT])

theorem armTy_usesT (a : Ast) (t : ArrayType) : (armTy a t).usesT = mentionsT a.generics t := by
  unfold armTy
  cases hu : t.unwrapArray with
  | ident i =>
    simp only
    by_cases hg : a.isGeneric i = true
    · simp [hg, TyExpr.usesT, mentionsT, hu, BasicType.isOpaque]; simpa [Ast.isGeneric] using hg
    · simp only [hg, Bool.false_eq_true, if_false]; exact payloadTy_usesT a t
  | «opaque» => simp [TyExpr.usesT, mentionsT, hu, BasicType.isOpaque]
  | string => simp [TyExpr.usesT, mentionsT, hu, BasicType.isOpaque]
  | _ => simp only []; exact payloadTy_usesT a t

/-- **C13, emitted types.**  For every list of declarations with distinct type names: a struct carries the byte-container
    parameter (it is in the generic index, so its type, both decoders and its size impl are printed with `<T>` / `<Bytes>`,
    `C07_impl_params_consistent`) if and only if one of the field types the emitter prints for it mentions `T` — the parameter
    is declared exactly where it is used, which is what rustc demands (E0392 / E0107). -/
theorem C13_struct_param_iff_used (items : List Item) (a : Ast) (ha : Ast.ofItems items = .ok a)
    (hnd : (gnames (items.filterMap gitemOf)).Nodup) (s : Struct) (hs : Item.struct s ∈ items) :
    a.isGeneric s.name = (s.fields.any fun f =>
      (if f.isOptional then TyExpr.optBox (payloadTy a f.fieldValue) else payloadTy a f.fieldValue).usesT) := by
  have hgen : a.generics = genericIndexOf (items.filterMap gitemOf) := by
    unfold Ast.ofItems at ha
    cases hc : ConstantIndex.new items with
    | panicAt f m => simp [hc] at ha
    | ok cs => simp only [hc, Out.bind_ok] at ha; cases ha; rfl
  have hmem : (GItem.mk s.name (s.innerTypes.any (·.unwrapArray.isOpaque)) (refsOf s.innerTypes)) ∈ items.filterMap gitemOf :=
    List.mem_filterMap.mpr ⟨_, hs, rfl⟩
  have hiff := C13_generic_iff_hit _ hnd _ hmem
  rw [hit_eq_any, ← hgen] at hiff
  have hfields : (s.fields.any fun f =>
      (if f.isOptional then TyExpr.optBox (payloadTy a f.fieldValue) else payloadTy a f.fieldValue).usesT) =
      s.innerTypes.any (mentionsT a.generics) := by
    simp only [Struct.innerTypes, List.any_map]
    congr 1
    funext f
    by_cases ho : f.isOptional = true
    · simp [ho, TyExpr.usesT, payloadTy_usesT]
    · simp [ho, payloadTy_usesT]
  rw [hfields]
  simp only [Ast.isGeneric]
  rw [Bool.eq_iff_iff]
  simpa using hiff

/-- the same for unions: the parameter iff some arm's payload type (default arm included) mentions `T` -/
theorem C13_union_param_iff_used (items : List Item) (a : Ast) (ha : Ast.ofItems items = .ok a)
    (hnd : (gnames (items.filterMap gitemOf)).Nodup) (u : Union) (hu : Item.union u ∈ items) :
    a.isGeneric u.name = ((u.cases ++ u.default.toList).any fun c => (armTy a c.fieldValue).usesT) := by
  have hgen : a.generics = genericIndexOf (items.filterMap gitemOf) := by
    unfold Ast.ofItems at ha
    cases hc : ConstantIndex.new items with
    | panicAt f m => simp [hc] at ha
    | ok cs => simp only [hc, Out.bind_ok] at ha; cases ha; rfl
  have hmem : (GItem.mk u.name (u.innerTypes.any (·.unwrapArray.isOpaque)) (refsOf u.innerTypes)) ∈ items.filterMap gitemOf :=
    List.mem_filterMap.mpr ⟨_, hu, rfl⟩
  have hiff := C13_generic_iff_hit _ hnd _ hmem
  rw [hit_eq_any, ← hgen] at hiff
  have hfields : ((u.cases ++ u.default.toList).any fun c => (armTy a c.fieldValue).usesT) =
      u.innerTypes.any (mentionsT a.generics) := by
    simp only [Union.innerTypes, List.any_map]
    congr 1
    funext c
    simp [armTy_usesT]
  rw [hfields]
  simp only [Ast.isGeneric]
  rw [Bool.eq_iff_iff]
  simpa using hiff

/-- typedefs: the newtype is printed with the parameter (`emitTypeDecl`: target opaque, or target generic) exactly when its
    name is in the index that the impl headers consult -/
theorem C13_typedef_param_consistent (items : List Item) (a : Ast) (ha : Ast.ofItems items = .ok a)
    (hnd : (gnames (items.filterMap gitemOf)).Nodup) (t : Typedef) (ht : Item.typedef t ∈ items) :
    a.isGeneric t.alias.unwrapArray.asStr =
      (t.target.isOpaque || a.targetGeneric t.target) := by
  have hgen : a.generics = genericIndexOf (items.filterMap gitemOf) := by
    unfold Ast.ofItems at ha
    cases hc : ConstantIndex.new items with
    | panicAt f m => simp [hc] at ha
    | ok cs => simp only [hc, Out.bind_ok] at ha; cases ha; rfl
  have hmem : (GItem.mk t.alias.unwrapArray.asStr t.target.isOpaque t.target.identRefs) ∈ items.filterMap gitemOf :=
    List.mem_filterMap.mpr ⟨_, ht, rfl⟩
  have hiff := C13_generic_iff_hit _ hnd _ hmem
  rw [← hgen] at hiff
  simp only [Ast.isGeneric]
  rw [Bool.eq_iff_iff]
  cases htg : t.target <;>
    simpa [GItem.hit, BasicType.identRefs, htg, BasicType.isOpaque, Ast.targetGeneric, Ast.isGeneric] using hiff

end Fx.C13
