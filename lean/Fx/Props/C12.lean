/-
  C12 — the AST and its indexes reflect exactly what the specification declares.
  (first instalment: the index layer; `C12_build_faithful` for the constructors follows)
-/
import Fx.Index
namespace Fx.C12
open Fx

theorem bget_bins_self {α} (k : String) (v : α) (m : List (String × α)) : bget k (bins k v m) = some v := by
  induction m with
  | nil => simp [bins, bget]
  | cons hd t ih =>
    obtain ⟨k', v'⟩ := hd
    simp only [bins]
    split
    · simp [bget]
    · split
      · simp [bget]
      · rename_i h1 h2
        simp [bget, h2, ih]

theorem bget_bins_other {α} (k k2 : String) (v : α) (m : List (String × α)) (h : k2 ≠ k) :
    bget k2 (bins k v m) = bget k2 m := by
  induction m with
  | nil => simp [bins, bget, h]
  | cons hd t ih =>
    obtain ⟨k', v'⟩ := hd
    simp only [bins]
    split
    · simp [bget, h]
    · split
      · rename_i h1 h2
        subst h2
        simp [bget, h]
      · simp only [bget, ih]

/-- `TypeIndex`: every declared type is retrievable by name, with the declaration that was inserted last under that name. -/
theorem C12_type_index_get (entries : List (String × AstType)) (k : String) (v : AstType) (m : List (String × AstType))
    (hlast : ∀ kv ∈ entries, kv.1 ≠ k) :
    bget k ((entries).foldl (fun m kv => bins kv.1 kv.2 m) (bins k v m)) = some v := by
  induction entries generalizing m with
  | nil => exact bget_bins_self k v m
  | cons e rest ih =>
    simp only [List.foldl_cons]
    have hne : e.1 ≠ k := hlast e List.mem_cons_self
    have key : ∀ m', bget k m' = some v → bget k (rest.foldl (fun m kv => bins kv.1 kv.2 m) m') = some v := by
      intro m' hm'
      clear ih
      induction rest generalizing m' with
      | nil => exact hm'
      | cons e2 r2 ih2 =>
        simp only [List.foldl_cons]
        apply ih2 (fun kv hkv => hlast kv (by simp only [List.mem_cons] at hkv ⊢; rcases hkv with h | h; exact Or.inl h; exact Or.inr (Or.inr h)))
        rw [bget_bins_other _ _ _ _ (Ne.symm (hlast e2 (by simp)))]
        exact hm'
    apply key
    rw [bget_bins_other _ _ _ _ (Ne.symm hne)]
    exact bget_bins_self k v m

/-- nothing is invented: a name the index returns was inserted -/
theorem C12_type_index_sound (entries : List (String × AstType)) (m : List (String × AstType)) (k : String) (v : AstType)
    (h : bget k (entries.foldl (fun m kv => bins kv.1 kv.2 m) m) = some v) :
    (k, v) ∈ entries ∨ bget k m = some v := by
  induction entries generalizing m with
  | nil => exact Or.inr h
  | cons e rest ih =>
    simp only [List.foldl_cons] at h
    rcases ih _ h with hin | hb
    · exact Or.inl (List.mem_cons_of_mem _ hin)
    · by_cases hk : k = e.1
      · subst hk
        rw [bget_bins_self] at hb
        cases hb
        exact Or.inl (by simp)
      · rw [bget_bins_other _ _ _ _ hk] at hb
        exact Or.inr hb

end Fx.C12
