/-
  C12 — the AST and its indexes reflect exactly what the specification declares.
  (first instalment: the index layer; `C12_build_faithful` for the constructors follows)
-/
import Fx.Index
import Fx.Walk
import Fx.Lemmas.ParseNorm
import Fx.Lemmas.ParseAst
import Fx.Lemmas.PegLimit
import Fx.Lemmas.IndexFacts
namespace Fx.C12
open Fx

theorem bget_bins_self {α} (k : String) (v : α) (m : List (String × α)) : bget k (bins k v m) = some v := by
  induction m with
  | nil => simp [bins, bget]
  | cons hd t ih =>
    obtain ⟨k', v'⟩ := hd
    simp only [bins]
    split
    · simp [bget]
    · split
      · simp [bget]
      · rename_i h1 h2
        simp [bget, h2, ih]

theorem bget_bins_other {α} (k k2 : String) (v : α) (m : List (String × α)) (h : k2 ≠ k) :
    bget k2 (bins k v m) = bget k2 m := by
  induction m with
  | nil => simp [bins, bget, h]
  | cons hd t ih =>
    obtain ⟨k', v'⟩ := hd
    simp only [bins]
    split
    · simp [bget, h]
    · split
      · rename_i h1 h2
        subst h2
        simp [bget, h]
      · simp only [bget, ih]

/-- `TypeIndex`: every declared type is retrievable by name, with the declaration that was inserted last under that name. -/
theorem C12_type_index_get (entries : List (String × AstType)) (k : String) (v : AstType) (m : List (String × AstType))
    (hlast : ∀ kv ∈ entries, kv.1 ≠ k) :
    bget k ((entries).foldl (fun m kv => bins kv.1 kv.2 m) (bins k v m)) = some v := by
  induction entries generalizing m with
  | nil => exact bget_bins_self k v m
  | cons e rest ih =>
    simp only [List.foldl_cons]
    have hne : e.1 ≠ k := hlast e List.mem_cons_self
    have key : ∀ m', bget k m' = some v → bget k (rest.foldl (fun m kv => bins kv.1 kv.2 m) m') = some v := by
      intro m' hm'
      clear ih
      induction rest generalizing m' with
      | nil => exact hm'
      | cons e2 r2 ih2 =>
        simp only [List.foldl_cons]
        apply ih2 (fun kv hkv => hlast kv (by simp only [List.mem_cons] at hkv ⊢; rcases hkv with h | h; exact Or.inl h; exact Or.inr (Or.inr h)))
        rw [bget_bins_other _ _ _ _ (Ne.symm (hlast e2 (by simp)))]
        exact hm'
    apply key
    rw [bget_bins_other _ _ _ _ (Ne.symm hne)]
    exact bget_bins_self k v m

/-- nothing is invented: a name the index returns was inserted -/
theorem C12_type_index_sound (entries : List (String × AstType)) (m : List (String × AstType)) (k : String) (v : AstType)
    (h : bget k (entries.foldl (fun m kv => bins kv.1 kv.2 m) m) = some v) :
    (k, v) ∈ entries ∨ bget k m = some v := by
  induction entries generalizing m with
  | nil => exact Or.inr h
  | cons e rest ih =>
    simp only [List.foldl_cons] at h
    rcases ih _ h with hin | hb
    · exact Or.inl (List.mem_cons_of_mem _ hin)
    · by_cases hk : k = e.1
      · subst hk
        rw [bget_bins_self] at hb
        cases hb
        exact Or.inl (by simp)
      · rw [bget_bins_other _ _ _ _ hk] at hb
        exact Or.inr hb

/-! ### the constructors: nothing dropped, merged or invented -/

/-- the labels an arm node of a union contributes: its own case value, and the word `default` for the default arm -/
def armLabels : Node → List String
  | .unionCase (.type t :: _) => [t.asStr]
  | .unionCase _ => []
  | .unionDefault (.type t :: _) => ["default", t.asStr]
  | .unionDefault _ => ["default"]
  | _ => []

def isDefaultArm : Node → Bool
  | .unionDefault _ => true
  | _ => false

/-- every label the accumulator of `Union::new` holds: data arms, void arms, the default arm, and the labels still waiting for a body -/
def accAll (acc : UAcc) : List String :=
  (acc.cases.map (·.caseValues)).flatten ++ acc.voidCases ++
    (match acc.default with | some d => d.caseValues | none => []) ++ acc.pending

def headLabel : List Node → List String
  | .type t :: _ => [t.asStr]
  | _ => []

def stmtLabels : CaseStmt → List String
  | .fallthrough vs => vs
  | .defined c => c.caseValues
  | .void vs => vs

theorem unionCase_values {cv : List String} {ns : List Node} {c : UnionCase} (h : UnionCase.new cv ns = .ok c) : c.caseValues = cv := by
  unfold UnionCase.new at h
  split at h
  · cases h; rfl
  · cases h

theorem caseStmt_labels (cv : List String) (nodes : List Node) (stmt : CaseStmt) (h : CaseStmt.parse cv nodes = .ok stmt) :
    stmtLabels stmt = cv ++ headLabel nodes := by
  cases nodes with
  | nil => simp [CaseStmt.parse] at h
  | cons n rest =>
    cases n
    case type t =>
      cases rest with
      | nil => simp only [CaseStmt.parse] at h; cases h; rfl
      | cons m rest' =>
        cases m
        case unionVoid => simp only [CaseStmt.parse] at h; cases h; rfl
        case unionDataField ns =>
          simp only [CaseStmt.parse] at h
          cases hc : UnionCase.new (cv ++ [t.asStr]) ns with
          | panicAt f m => rw [hc] at h; cases h
          | ok c =>
            rw [hc] at h; simp only [Out.bind_ok] at h; cases h
            simp [stmtLabels, headLabel, unionCase_values hc]
        all_goals (simp only [CaseStmt.parse] at h; cases h)
    case unionVoid => simp only [CaseStmt.parse] at h; cases h; simp [stmtLabels, headLabel]
    case unionDataField ns =>
      simp only [CaseStmt.parse] at h
      cases hc : UnionCase.new cv ns with
      | panicAt f m => rw [hc] at h; cases h
      | ok c =>
        rw [hc] at h; simp only [Out.bind_ok] at h; cases h
        simp [stmtLabels, headLabel, unionCase_values hc]
    all_goals (simp only [CaseStmt.parse] at h; cases h)

theorem armLabels_case (nodes : List Node) : armLabels (.unionCase nodes) = headLabel nodes := by
  cases nodes with
  | nil => rfl
  | cons n rest => cases n <;> rfl

theorem armLabels_default (nodes : List Node) : armLabels (.unionDefault nodes) = "default" :: headLabel nodes := by
  cases nodes with
  | nil => rfl
  | cons n rest => cases n <;> rfl

/-- **one arm: conservation of labels.**  After `Union::new` has processed an arm node, every label occurs in the accumulator
    exactly as often as before plus its occurrences in that arm — provided a second `default` arm does not overwrite the first
    (the one way the loop can lose labels). -/
theorem union_step_conserves (acc acc' : UAcc) (v : Node) (h : Union.step acc v = .ok acc')
    (hdef : isDefaultArm v = true → acc.default = none) (l : String) :
    (accAll acc').count l = (accAll acc).count l + (armLabels v).count l := by
  cases v
  case unionCase nodes =>
    simp only [Union.step] at h
    cases hs : CaseStmt.parse acc.pending nodes with
    | panicAt f m => rw [hs] at h; cases h
    | ok stmt =>
      rw [hs] at h
      have hl := caseStmt_labels _ _ _ hs
      simp only [Out.bind_ok] at h
      rw [armLabels_case]
      cases stmt with
      | «fallthrough» vs =>
        cases h; simp only [stmtLabels] at hl
        simp only [accAll, hl, List.count_append]; omega
      | defined c =>
        cases h; simp only [stmtLabels] at hl
        simp only [accAll, List.map_append, List.flatten_append, List.map_cons, List.map_nil, List.flatten_cons, List.flatten_nil,
          List.append_nil, hl, List.count_append, List.count_nil]; omega
      | void vs =>
        cases h; simp only [stmtLabels] at hl
        simp only [accAll, hl, List.count_append, List.count_nil]; omega
  case unionDefault nodes =>
    simp only [Union.step] at h
    have hnone := hdef rfl
    cases hs : CaseStmt.parse (acc.pending ++ ["default"]) nodes with
    | panicAt f m => rw [hs] at h; cases h
    | ok stmt =>
      rw [hs] at h
      have hl := caseStmt_labels _ _ _ hs
      simp only [Out.bind_ok] at h
      rw [armLabels_default]
      cases stmt with
      | «fallthrough» vs =>
        cases h; simp only [stmtLabels] at hl
        simp only [accAll, hl, List.count_append, List.count_cons, List.count_nil]; omega
      | defined c =>
        cases h; simp only [stmtLabels] at hl
        simp only [accAll, hnone, hl, List.count_append, List.count_cons, List.count_nil]; omega
      | void vs =>
        cases h; simp only [stmtLabels] at hl
        simp only [accAll, hl, List.count_append, List.count_cons, List.count_nil]; omega
  all_goals (simp only [Union.step] at h; cases h)

/-- **the whole body of a union.**  With at most one `default` arm, every label written in the source occurs in the `Union` the
    AST holds exactly as often as it was written (data arms with their complete fall-through groups, void labels, the default
    arm, and — only if the body ends in a label without an arm — the labels left pending). -/
theorem union_loop_conserves : ∀ (vs : List Node) (acc acc' : UAcc), Union.loop acc vs = .ok acc' →
    (acc.default = none ∧ (vs.filter isDefaultArm).length ≤ 1 ∨ (vs.filter isDefaultArm).length = 0) →
    ∀ l, (accAll acc').count l = (accAll acc).count l + ((vs.map armLabels).flatten).count l := by
  intro vs
  induction vs with
  | nil => intro acc acc' h _ l; simp only [Union.loop] at h; cases h; simp
  | cons v rest ih =>
    intro acc acc' h hd l
    simp only [Union.loop] at h
    cases hs : Union.step acc v with
    | panicAt f m => rw [hs] at h; cases h
    | ok acc1 =>
      rw [hs] at h
      simp only [Out.bind_ok] at h
      have hstep := union_step_conserves acc acc1 v hs (by
        intro hv
        rcases hd with ⟨hnone, _⟩ | hz
        · exact hnone
        · simp [List.filter_cons, hv] at hz) l
      have hrest := ih acc1 acc' h (by
        cases hv : isDefaultArm v
        · -- not a default arm: the default slot is untouched
          rcases hd with ⟨hnone, hlen⟩ | hz
          · left
            refine ⟨?_, by simpa [List.filter_cons, hv] using hlen⟩
            cases v
            case unionCase nodes =>
              simp only [Union.step] at hs
              cases hp : CaseStmt.parse acc.pending nodes with
              | panicAt f m => rw [hp] at hs; cases hs
              | ok stmt =>
                rw [hp] at hs
                cases stmt <;> (cases hs; exact hnone)
            case unionDefault nodes => simp [isDefaultArm] at hv
            all_goals (simp only [Union.step] at hs; cases hs)
          · right; simpa [List.filter_cons, hv] using hz
        · right
          rcases hd with ⟨_, hlen⟩ | hz
          · simp only [List.filter_cons, hv, if_true, List.length_cons] at hlen
            omega
          · simp [List.filter_cons, hv] at hz) l
      simp only [List.map_cons, List.flatten_cons, List.count_append]
      omega

/-- `Union::new`: name, discriminant and the conservation of labels -/
theorem C12_union_faithful (n ty var : Node) (rest : List Node) (u : Union) (h : Union.new (n :: ty :: var :: rest) = .ok u)
    (hd : (rest.filter isDefaultArm).length ≤ 1) :
    n.identStr = .ok u.name ∧ var.identStr = .ok u.switch.varName ∧
    (∀ l, ((u.cases.map (·.caseValues)).flatten ++ u.voidCases ++ (match u.default with | some d => d.caseValues | none => [])).count l
        ≤ ((rest.map armLabels).flatten).count l) := by
  unfold Union.new at h
  cases h1 : n.identStr with
  | panicAt f m => simp [h1] at h
  | ok name =>
    cases h2 : var.identStr with
    | panicAt f m => simp [h1, h2] at h
    | ok vn =>
      cases h3 : ty.identStr with
      | panicAt f m => simp [h1, h2, h3] at h
      | ok ts =>
        cases h4 : Union.loop {} rest with
        | panicAt f m => simp [h1, h2, h3, h4] at h
        | ok acc =>
          simp only [h1, h2, h3, h4, Out.bind_ok] at h
          cases h
          refine ⟨rfl, rfl, fun l => ?_⟩
          have := union_loop_conserves rest {} acc h4 (Or.inl ⟨rfl, hd⟩) l
          simp only [accAll, List.count_append] at this ⊢
          simp at this
          omega

theorem mapOut_length {α β} (f : α → Out β) : ∀ (l : List α) (r : List β), mapOut f l = .ok r → r.length = l.length := by
  intro l
  induction l with
  | nil => intro r h; simp only [mapOut] at h; cases h; rfl
  | cons a as ih =>
    intro r h
    simp only [mapOut] at h
    cases h1 : f a with
    | panicAt x y => simp [h1] at h
    | ok b =>
      cases h2 : mapOut f as with
      | panicAt x y => simp [h1, h2] at h
      | ok bs =>
        simp only [h1, h2, Out.bind_ok] at h
        cases h
        simp [ih bs h2]

theorem mapOut_get {α β} (f : α → Out β) : ∀ (l : List α) (r : List β), mapOut f l = .ok r →
    ∀ (i : Nat) (hi : i < l.length) (hr : i < r.length), f l[i] = .ok r[i] := by
  intro l
  induction l with
  | nil => intro r h i hi; cases hi
  | cons a as ih =>
    intro r h i hi hr
    simp only [mapOut] at h
    cases h1 : f a with
    | panicAt x y => simp [h1] at h
    | ok b =>
      cases h2 : mapOut f as with
      | panicAt x y => simp [h1, h2] at h
      | ok bs =>
        simp only [h1, h2, Out.bind_ok] at h
        cases h
        cases i with
        | zero => simpa using h1
        | succ j => simpa using ih bs h2 j (by simpa using hi) (by simpa using hr)

/-- `Struct::new`: the name is the first token; there is exactly one field per field node, in source order, each built from
    its own node (type, name, array kind and bound, optional flag: `StructField::new`) -/
theorem C12_struct_faithful (n : Node) (rest : List Node) (s : Struct) (h : Struct.new (n :: rest) = .ok s) :
    n.identStr = .ok s.name ∧ s.fields.length = rest.length ∧
    ∀ (i : Nat) (hi : i < rest.length) (hs : i < s.fields.length), StructField.new rest[i] = .ok s.fields[i] := by
  unfold Struct.new at h
  cases h1 : n.identStr with
  | panicAt f m => simp [h1] at h
  | ok name =>
    cases h2 : mapOut StructField.new rest with
    | panicAt f m => simp [h1, h2] at h
    | ok fs =>
      simp only [h1, h2, Out.bind_ok] at h
      cases h
      exact ⟨rfl, mapOut_length _ _ _ h2, mapOut_get _ _ _ h2⟩

/-- the four field shapes and what each yields (type, name, array kind with its bound text, optional flag) -/
theorem C12_struct_field_shapes (rhs : BasicType) (lhs size : String) :
    StructField.new (.structDataField [.type rhs, .type (.ident lhs)]) = .ok ⟨lhs, .none rhs, false⟩ ∧
    StructField.new (.structDataField [.type rhs, .type (.ident lhs), .arrayVariable size]) = .ok ⟨lhs, .variable rhs (optSize size), false⟩ ∧
    StructField.new (.structDataField [.type rhs, .type (.ident lhs), .arrayFixed size]) = .ok ⟨lhs, .fixed rhs (ArraySize.ofStr size), false⟩ ∧
    StructField.new (.structDataField [.type rhs, .option [.type (.ident lhs)]]) = .ok ⟨lhs, .none rhs, true⟩ :=
  ⟨rfl, rfl, rfl, rfl⟩

/-- `Enum::new`: one variant per member node, in source order, each with its own name and value -/
theorem C12_enum_faithful (n : Node) (rest : List Node) (e : Enum) (h : Enum.new (n :: rest) = .ok e) :
    n.identStr = .ok e.name ∧ e.variants.length = rest.length ∧
    ∀ (i : Nat) (hi : i < rest.length) (hs : i < e.variants.length), Variant.new rest[i] = .ok e.variants[i] := by
  unfold Enum.new at h
  cases h1 : n.identStr with
  | panicAt f m => simp [h1] at h
  | ok name =>
    cases h2 : mapOut Variant.new rest with
    | panicAt f m => simp [h1, h2] at h
    | ok vs =>
      simp only [h1, h2, Out.bind_ok] at h
      cases h
      exact ⟨rfl, mapOut_length _ _ _ h2, mapOut_get _ _ _ h2⟩

/-- member values: the digits of a hex literal are read in base 16 (not as the decimal number they spell) -/
example : hexStrVal ['1', '0'] = some 16 ∧ hexStrVal ['8', '0', '0'] = some 2048 ∧ hexStrVal ['f', 'F'] = some 255 ∧
    hexStrVal ['g'] = none := by decide

/-- the root: every declaration node becomes exactly one item, in source order; nothing else does -/
theorem C12_root_items (ns : List Node) (items : List Item) (h : itemsOf ns = .ok items) :
    items.length = (ns.filter fun n => match n with
      | .constant _ | .typedef _ | .enum _ | .struct _ | .union _ => true
      | _ => false).length := by
  induction ns generalizing items with
  | nil => simp only [itemsOf] at h; cases h; rfl
  | cons n rest ih =>
    simp only [itemsOf] at h
    cases h1 : itemOf n with
    | panicAt f m => simp [h1] at h
    | ok i =>
      cases h2 : itemsOf rest with
      | panicAt f m => simp [h1, h2] at h
      | ok is =>
        simp only [h1, h2, Out.bind_ok] at h
        cases h
        have := ih is h2
        cases n <;> simp only [itemOf] at h1 <;> try (cases h1; simp [List.filter_cons, this])
        · -- a constant: two tokens
          rename_i l
          match l, h1 with
          | [a, b], h1 =>
            cases ha : a.identStr with
            | panicAt f m => simp [ha] at h1
            | ok x =>
              cases hb : b.identStr with
              | panicAt f m => simp [ha, hb] at h1
              | ok y => simp only [ha, hb, Out.bind_ok] at h1; cases h1; simp [List.filter_cons, this]
          | [], h1 => cases h1
          | [_], h1 => cases h1
          | _ :: _ :: _ :: _, h1 => cases h1

/-! ### from the text: "whatever the layout, comments or declaration order"

`Parse.Spec` is the concrete syntax of the grammar regenerated from `src/xdr.pest`, with a layout (blanks, tabs, line ends,
block and line comments, in any number and order) at every gap between two tokens; `Spec.ok` is the decidable
well-formedness (identifiers, numbers, two names separated by something, the white space after a built-in word inside its
token, a line comment ended by a line end, no `*/` inside a block comment); `Spec.norm` forgets every layout. -/

/-- `Ast::new` after the parser -/
def frontOf : Out Ast → FrontRes
  | .ok a => .ok a
  | .panicAt f m => .panicAt f m

/-- **the parser accepts every well-formed text**, with the token tree its declarations determine (`Spec.root`: one token per
    declaration, declarator, arm, label, bound …; the texts of the leaves are the names and numbers as written) — for every
    sufficient recursion budget -/
theorem C12_parse_complete (s : Parse.Spec) (h : s.ok = true) :
    ∃ F, ∀ f, F ≤ f → Peg.evalRule Grammar.xdr f false "item" ⟨0, s.text⟩ = .ok ⟨s.text.length, []⟩ [s.root] := by
  obtain ⟨F, hF⟩ := Parse.spec_parses s h
  exact ⟨F, fun f hf => Peg.rule_lift _ hF (by simp) hf⟩

/-- **the AST is a function of the declarations alone.**  For every well-formed text, `Ast::new` returns what the
    constructors make of the *layout-free* token tree `s.norm.root` — no layout, comment or white-space choice is visible in
    the result (unless the model's recursion budget for this text length is exhausted, which the T3 tie would show).
    Together with the constructor theorems above (labels, fields, members conserved) this is faithfulness from the text. -/
theorem C12_ast_from_declarations (s : Parse.Spec) (h : s.ok = true) :
    Ast.new (String.ofList s.text) = .outOfFuel ∨ Ast.new (String.ofList s.text) = frontOf (Ast.ofPairs [s.norm.root]) := by
  unfold Ast.new
  rw [String.toList_ofList]
  rcases Parse.spec_parseWith s h with hp | hp
  · refine .inr ?_
    have hw : Ast.ofPairs [s.root] = Ast.ofPairs [s.norm.root] := by
      simp only [Ast.ofPairs, Parse.walk_sim _ _ (Parse.spec_sim s h)]
    rw [show Peg.parseWith Grammar.xdr "item" s.text = _ from hp]
    simp only [hw]
    cases Ast.ofPairs [s.norm.root] <;> rfl
  · exact .inl (by rw [show Peg.parseWith Grammar.xdr "item" s.text = _ from hp])

/-- **C12 from the text, in closed form.**  For every well-formed text, `Ast::new` is: for each declaration, in source order,
    the node its constructor (`Typedef::new`, `Enum::new`, `Struct::new`, `Union::new`) builds from the node list the
    *declaration itself* determines (`Decl.node`: the name, then per declarator its type — a name, or the built-in type a
    spelling denotes whatever white space it contains —, its name, an optional marker, its array suffix with the bound as
    written; per arm its label and body; per member its name and value), then `itemsOf` and the three indexes.  No token, no
    text and no layout occurs on the right-hand side.  With the constructor theorems above (nothing dropped, merged or
    invented by `Union::new`, `Struct::new`, `Enum::new`, the indexes) this is C12 end to end, for the model tied by T3. -/
theorem C12_ast_closed_form (s : Parse.Spec) (h : s.ok = true) :
    Ast.new (String.ofList s.text) = .outOfFuel ∨
    Ast.new (String.ofList s.text) =
      frontOf ((mapOut (fun dl : Parse.Decl × Parse.Layout => dl.1.node) s.decls).bind fun ns =>
        (itemsOf (ns ++ [.eof])).bind Ast.ofItems) := by
  unfold Ast.new
  rw [String.toList_ofList]
  rcases Parse.spec_parseWith s h with hp | hp
  · refine .inr ?_
    rw [show Peg.parseWith Grammar.xdr "item" s.text = _ from hp]
    simp only [Ast.ofPairs, Parse.walk_root s h]
    cases mapOut (fun dl : Parse.Decl × Parse.Layout => dl.1.node) s.decls with
    | panicAt f m => rfl
    | ok ns =>
      simp only [Out.bind_ok]
      cases (itemsOf (ns ++ [.eof])).bind Ast.ofItems <;> rfl
  · exact .inl (by rw [show Peg.parseWith Grammar.xdr "item" s.text = _ from hp])


/-- **the same two theorems without a budget.**  `Ast.newLim` is the front end over the parser's budget-free answer
    (Lemmas/PegLimit: every text has exactly one, because the regenerated grammar is a DAG); it is never `outOfFuel`, and
    the executable `Ast.new` — the one the T3 tie runs against the real `Ast::new` — equals it whenever it answers. -/
theorem C12_ast_from_declarations_total (s : Parse.Spec) (h : s.ok = true) :
    Ast.newLim (String.ofList s.text) = frontOf (Ast.ofPairs [s.norm.root]) := by
  unfold Ast.newLim
  rw [String.toList_ofList, Peg.parseLim_of_ROk (Parse.spec_parses s h)]
  have hw : Ast.ofPairs [s.root] = Ast.ofPairs [s.norm.root] := by
    simp only [Ast.ofPairs, Parse.walk_sim _ _ (Parse.spec_sim s h)]
  simp only [hw]
  cases Ast.ofPairs [s.norm.root] <;> rfl

theorem C12_ast_closed_form_total (s : Parse.Spec) (h : s.ok = true) :
    Ast.newLim (String.ofList s.text) =
      frontOf ((mapOut (fun dl : Parse.Decl × Parse.Layout => dl.1.node) s.decls).bind fun ns =>
        (itemsOf (ns ++ [.eof])).bind Ast.ofItems) := by
  unfold Ast.newLim
  rw [String.toList_ofList, Peg.parseLim_of_ROk (Parse.spec_parses s h)]
  simp only [Ast.ofPairs, Parse.walk_root s h]
  cases mapOut (fun dl : Parse.Decl × Parse.Layout => dl.1.node) s.decls with
  | panicAt f m => rfl
  | ok ns =>
    simp only [Out.bind_ok]
    cases (itemsOf (ns ++ [.eof])).bind Ast.ofItems <;> rfl

/-- the executable front end and the budget-free one: equal wherever the executable one answers -/
theorem C12_executable_front_end_agrees (txt : String) (h : Ast.new txt ≠ .outOfFuel) : Ast.new txt = Ast.newLim txt :=
  Ast.new_eq_newLim txt h

/-! ### the indexes of every `Ast` the front end builds -/

/-- **C12 (the type index is complete and exact).**  For every item list whose type names are declared once: every declaration
    is in the type index under its own name (`bget name = some declaration`), and everything in the index is a declaration of the
    specification under its own name; the index is strictly sorted by name. -/
theorem C12_type_index_exact (items : List Item) (hd : (items.filterMap typeEntry).Pairwise (fun x y => x.1 ≠ y.1)) :
    (∀ kv ∈ items.filterMap typeEntry, bget kv.1 (TypeIndex.new items) = some kv.2) ∧
    (∀ kv ∈ TypeIndex.new items, ∃ item ∈ items, typeEntry item = some kv) ∧
    SortedK (TypeIndex.new items) :=
  ⟨fun kv h => typeIndex_complete items hd kv h, fun kv h => typeIndex_mem items kv h, typeIndex_sorted items⟩

/-- **C12 (the constant index is exact).**  When `ConstantIndex::new` does not panic, the index holds exactly the constants and
    enum members the specification declares, each under its own name, strictly sorted. -/
theorem C12_constant_index_exact (items : List Item) (cs : List (String × ConstantType)) (h : ConstantIndex.new items = .ok cs) :
    SortedK cs ∧ (∀ x, x ∈ cs ↔ x ∈ constEntries items) ∧ (∀ x ∈ constEntries items, bget x.1 cs = some x.2) := by
  obtain ⟨hs, hm⟩ := constIndex_spec items cs h
  exact ⟨hs, hm, fun x hx => bget_of_mem_sortedK cs hs x.1 x.2 ((hm x).mpr hx)⟩

/-- the part of `Supported` that is about the *content* of the specification: which constructs it uses, how things are named -/
def SupportedContent (a : Ast) : Bool :=
  a.types.all (fun kv => nameSafe kv.1 && typeOk a kv.2) && constNamesOk a && noGuardConst a

/-- **`Supported` is a condition on the specification, not on the index machinery.**  For every `Ast` the front end builds from an
    item list whose type names are declared once, the index-shape conjuncts of `Supported` (`keysOk`'s key and order part,
    `enumConstsOk`, `constsWellFormed`) hold by construction (Lemmas/IndexFacts), so `Supported a` is exactly its content part. -/
theorem C12_supported_iff_content (items : List Item) (a : Ast) (ha : Ast.ofItems items = .ok a)
    (hd : (items.filterMap typeEntry).Pairwise (fun x y => x.1 ≠ y.1)) :
    Supported a = SupportedContent a := by
  obtain ⟨hk, hs, he, hw⟩ := index_facts_of_front_end items a ha hd
  rw [Bool.eq_iff_iff]
  simp only [Supported, SupportedContent, keysOk, hs, he, hw, Bool.and_true, Bool.and_eq_true, List.all_eq_true, beq_iff_eq]
  constructor
  · rintro ⟨⟨⟨h1, h2⟩, h3⟩, h4⟩
    exact ⟨⟨fun kv hkv => ⟨(h1 kv hkv).2, h2 kv hkv⟩, h3⟩, h4⟩
  · rintro ⟨⟨h1, h3⟩, h4⟩
    exact ⟨⟨⟨fun kv hkv => ⟨hk kv hkv, (h1 kv hkv).1⟩, fun kv hkv => (h1 kv hkv).2⟩, h3⟩, h4⟩

section example_closed_form
open Parse

private def sp' : Layout := ⟨[' '], []⟩

/-- `const A = 1; struct s { unsigned \tint x<A>; opaque o<>; };` -/
def exS : Spec := ⟨nl, [
  (.const ⟨sp', ['A'], sp', sp', ['1'], nl⟩, sp'),
  (.struct ⟨sp', ['s'], sp', sp',
     [(⟨.prim (.uint [' ', '\t']) [' '], nl, none, ['x'], nl, some (.var nl (some (.name ['A'], nl)), nl)⟩, sp'),
      (⟨.prim .opaque [' '], nl, none, ['o'], nl, some (.var nl none, nl)⟩, sp')], nl⟩, nl)]⟩

example : exS.ok = true := by decide
example : String.ofList exS.text = "const A = 1; struct s { unsigned \tint x<A>; opaque o<>; };" := by decide

/-- the right-hand side of `C12_ast_closed_form` on it: exactly the declared constant and struct -/
example : ((mapOut (fun dl : Decl × Layout => dl.1.node) exS.decls).bind fun ns => (itemsOf (ns ++ [.eof])).bind Ast.ofItems) =
    .ok { constants := [("A", .constValue "1")], generics := ["s"],
          types := [("s", .struct ⟨"s", [⟨"x", .variable .u32 (some (.constant "A")), false⟩,
                                           ⟨"o", .variable .opaque none, false⟩]⟩)] } := by rfl
end example_closed_form

end Fx.C12
