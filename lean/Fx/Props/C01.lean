/-
  C01 — decoding the XDR encoding of any value returns that value.
  `C01_roundtrip`: whole specifications, every declared type, every well-typed value, any nesting depth.
-/
import Fx.Eval
import Fx.Xdr
import Fx.Lemmas.Runtime
import Fx.Lemmas.Roundtrip
import Fx.Lemmas.Selects
namespace Fx.C01
open Fx

theorem C01_u32 (n : Nat) (h : n < 2^32) (o : Nat) (s : List Byte) (l) :
    readU32 ⟨o, (XVal.u32 n).enc ++ s, l⟩ = .ok n ⟨o + 4, s, l⟩ := readU32_be32 n h o s l

theorem C01_u64 (n : Nat) (h : n < 2^64) (o : Nat) (s : List Byte) (l) :
    readU64 ⟨o, (XVal.u64 n).enc ++ s, l⟩ = .ok n ⟨o + 8, s, l⟩ := readU64_be64 n h o s l

/-- variable-length opaque: the payload comes back as a window of the input at its wire offset, whatever
    follows it; a declared maximum ≥ the length does not matter -/
theorem C01_var_opaque (bs s : List Byte) (max : Option Nat) (hl : bs.length < 2^32)
    (hm : ∀ m, max = some m → bs.length ≤ m) (o : Nat) (l) :
    readVariableBytes max ⟨o, (XVal.varOpaque bs).enc ++ s, l⟩ =
      .ok (.bytes (o + 4) bs) ⟨o + (4 + bs.length + padLen bs.length), s, l⟩ := by
  simp only [XVal.enc, List.append_assoc, readVariableBytes, readU32_be32 _ hl, Res.bind_ok]
  have hlim : overLimit max bs.length = false := by
    cases max with
    | none => rfl
    | some m => have := hm m rfl; simp [overLimit]; omega
  simp only [hlim, Bool.false_eq_true, if_false]
  have := readBytes_enc bs s (o + 4) l
  rw [List.append_assoc] at this
  rw [this]
  congr 2
  omega

/-- fixed-length opaque -/
theorem C01_fixed_opaque (bs s : List Byte) (o : Nat) (l) :
    readBytes bs.length ⟨o, (XVal.fixedOpaque bs).enc ++ s, l⟩ =
      .ok (.bytes o bs) ⟨o + (bs.length + padLen bs.length), s, l⟩ := by
  simp only [XVal.enc]
  exact readBytes_enc bs s o l

/-- **Decoding the encoding of any value returns that value.**
    For every `Ast` in the supported subset (`Supported`, decidable, read off the declarations: no bracket-less `opaque`
    field or `opaque` union arm — finding K1 —, declared references, decimal bounds, …) for which generation succeeds,
    every declared type `n`, every value `x` that the reference typing `hasTypeNamed` accepts for `n` (any nesting depth,
    counted arrays of variable-sized structs/unions/typedefs included), every trailing suffix `s`, every leading offset
    `off`, and any fuel above the size of `x`: the generated decoder run on `enc x ++ s` returns exactly the documented
    Rust value `reprNamed a n off x` — every field, element, optional link, arm and payload, each opaque leaf being the
    window of the input at its wire offset — and leaves the cursor right after the encoding with `s` untouched.
    Both families (`C03_families_agree`).
    Hypothesis `MatchSelects`: the emitted arm list of every union selects the declared arm (`C06_match_selects`;
    vacuous for specifications without unions, see `C01_roundtrip_no_unions`). -/
theorem C01_roundtrip (a : Ast) (m : Module) (hs : Supported a = true) (hg : generateModule a = .ok m)
    (hms : MatchSelects a m.plans) (n : String) (x : XVal) (h : hasTypeNamed a n x = true)
    (fuel : Nat) (hf : x.fsize < fuel) (off : Nat) (s : List Byte) (l : List Ev) :
    ∃ l', evalImpl a m.plans fuel n ⟨off, x.enc ++ s, l⟩ = .ok (reprNamed a n off x) ⟨off + x.enc.length, s, l'⟩ :=
  roundtrip hs hg hms n x h fuel hf off s l

/-- for specifications that declare no union the hypothesis on arm selection is vacuous -/
theorem C01_roundtrip_no_unions (a : Ast) (m : Module) (hs : Supported a = true) (hg : generateModule a = .ok m)
    (hnu : ∀ n u, bget n a.types ≠ some (.union u))
    (n : String) (x : XVal) (h : hasTypeNamed a n x = true)
    (fuel : Nat) (hf : x.fsize < fuel) (off : Nat) (s : List Byte) (l : List Ev) :
    ∃ l', evalImpl a m.plans fuel n ⟨off, x.enc ++ s, l⟩ = .ok (reprNamed a n off x) ⟨off + x.enc.length, s, l'⟩ :=
  roundtrip hs hg (fun n u _ _ hb _ _ => absurd hb (hnu n u)) n x h fuel hf off s l

/-- consequence (C02 for values): `wire_size()` of the decoded value is the length of the encoding -/
theorem C01_wire_size_is_encoded_length (a : Ast) (m : Module) (hs : Supported a = true) (hg : generateModule a = .ok m)
    (hms : MatchSelects a m.plans) (n : String) (x : XVal) (h : hasTypeNamed a n x = true) :
    wsVal m.plans (reprNamed a n 0 x) = x.enc.length := by
  obtain ⟨l', e⟩ := roundtrip hs hg hms n x h (x.fsize + 1) (by omega) 0 [] []
  have := (eval_consumed a m.plans (supported_plans hs hg).2 (x.fsize + 1)).1 n _ _ _ e
  have h2 := this.2.1
  simp only at h2
  omega

/-- **C01, unconditional on the supported subset**: `MatchSelects` is itself a theorem (`C06_match_selects`). -/
theorem C01_roundtrip_supported (a : Ast) (m : Module) (hs : Supported a = true) (hg : generateModule a = .ok m)
    (n : String) (x : XVal) (h : hasTypeNamed a n x = true)
    (fuel : Nat) (hf : x.fsize < fuel) (off : Nat) (s : List Byte) (l : List Ev) :
    ∃ l', evalImpl a m.plans fuel n ⟨off, x.enc ++ s, l⟩ = .ok (reprNamed a n off x) ⟨off + x.enc.length, s, l'⟩ :=
  roundtrip hs hg (match_selects_of_supported hs hg) n x h fuel hf off s l

/-- `wire_size()` of the decoded value is the length of the encoding, unconditionally on the supported subset -/
theorem C01_wire_size_supported (a : Ast) (m : Module) (hs : Supported a = true) (hg : generateModule a = .ok m)
    (n : String) (x : XVal) (h : hasTypeNamed a n x = true) :
    wsVal m.plans (reprNamed a n 0 x) = x.enc.length :=
  C01_wire_size_is_encoded_length a m hs hg (match_selects_of_supported hs hg) n x h

end Fx.C01
