/-
  C01 — decoding the XDR encoding of any value returns that value.
  `C01_roundtrip`: whole specifications, every declared type, every well-typed value, any nesting depth.
-/
import Fx.Eval
import Fx.Xdr
import Fx.Lemmas.Runtime
import Fx.Lemmas.Roundtrip
import Fx.Lemmas.Selects
import Fx.Props.C12
namespace Fx.C01
open Fx

theorem C01_u32 (n : Nat) (h : n < 2^32) (o : Nat) (s : List Byte) (l) :
    readU32 ⟨o, (XVal.u32 n).enc ++ s, l⟩ = .ok n ⟨o + 4, s, l⟩ := readU32_be32 n h o s l

theorem C01_u64 (n : Nat) (h : n < 2^64) (o : Nat) (s : List Byte) (l) :
    readU64 ⟨o, (XVal.u64 n).enc ++ s, l⟩ = .ok n ⟨o + 8, s, l⟩ := readU64_be64 n h o s l

/-- variable-length opaque: the payload comes back as a window of the input at its wire offset, whatever
    follows it; a declared maximum ≥ the length does not matter -/
theorem C01_var_opaque (bs s : List Byte) (max : Option Nat) (hl : bs.length < 2^32)
    (hm : ∀ m, max = some m → bs.length ≤ m) (o : Nat) (l) :
    readVariableBytes max ⟨o, (XVal.varOpaque bs).enc ++ s, l⟩ =
      .ok (.bytes (o + 4) bs) ⟨o + (4 + bs.length + padLen bs.length), s, l⟩ := by
  simp only [XVal.enc, List.append_assoc, readVariableBytes, readU32_be32 _ hl, Res.bind_ok]
  have hlim : overLimit max bs.length = false := by
    cases max with
    | none => rfl
    | some m => have := hm m rfl; simp [overLimit]; omega
  simp only [hlim, Bool.false_eq_true, if_false]
  have := readBytes_enc bs s (o + 4) l
  rw [List.append_assoc] at this
  rw [this]
  congr 2
  omega

/-- fixed-length opaque -/
theorem C01_fixed_opaque (bs s : List Byte) (o : Nat) (l) :
    readBytes bs.length ⟨o, (XVal.fixedOpaque bs).enc ++ s, l⟩ =
      .ok (.bytes o bs) ⟨o + (bs.length + padLen bs.length), s, l⟩ := by
  simp only [XVal.enc]
  exact readBytes_enc bs s o l

/-- **Decoding the encoding of any value returns that value.**
    For every `Ast` in the supported subset (`Supported`, decidable, read off the declarations: no bracket-less `opaque`
    field or `opaque` union arm — finding K1 —, declared references, decimal bounds, …) for which generation succeeds,
    every declared type `n`, every value `x` that the reference typing `hasTypeNamed` accepts for `n` (any nesting depth,
    counted arrays of variable-sized structs/unions/typedefs included), every trailing suffix `s`, every leading offset
    `off`, and any fuel above the size of `x`: the generated decoder run on `enc x ++ s` returns exactly the documented
    Rust value `reprNamed a n off x` — every field, element, optional link, arm and payload, each opaque leaf being the
    window of the input at its wire offset — and leaves the cursor right after the encoding with `s` untouched.
    Both families (`C03_families_agree`).
    Hypothesis `MatchSelects`: the emitted arm list of every union selects the declared arm (`C06_match_selects`;
    vacuous for specifications without unions, see `C01_roundtrip_no_unions`). -/
theorem C01_roundtrip (a : Ast) (m : Module) (hs : Supported a = true) (hg : generateModule a = .ok m)
    (hms : MatchSelects a m.plans) (n : String) (x : XVal) (h : hasTypeNamed a n x = true)
    (fuel : Nat) (hf : x.fsize < fuel) (off : Nat) (s : List Byte) (l : List Ev) :
    ∃ l', evalImpl a m.plans fuel n ⟨off, x.enc ++ s, l⟩ = .ok (reprNamed a n off x) ⟨off + x.enc.length, s, l'⟩ :=
  roundtrip hs hg hms n x h fuel hf off s l

/-- for specifications that declare no union the hypothesis on arm selection is vacuous -/
theorem C01_roundtrip_no_unions (a : Ast) (m : Module) (hs : Supported a = true) (hg : generateModule a = .ok m)
    (hnu : ∀ n u, bget n a.types ≠ some (.union u))
    (n : String) (x : XVal) (h : hasTypeNamed a n x = true)
    (fuel : Nat) (hf : x.fsize < fuel) (off : Nat) (s : List Byte) (l : List Ev) :
    ∃ l', evalImpl a m.plans fuel n ⟨off, x.enc ++ s, l⟩ = .ok (reprNamed a n off x) ⟨off + x.enc.length, s, l'⟩ :=
  roundtrip hs hg (fun n u _ _ hb _ _ => absurd hb (hnu n u)) n x h fuel hf off s l

/-- consequence (C02 for values): `wire_size()` of the decoded value is the length of the encoding -/
theorem C01_wire_size_is_encoded_length (a : Ast) (m : Module) (hs : Supported a = true) (hg : generateModule a = .ok m)
    (hms : MatchSelects a m.plans) (n : String) (x : XVal) (h : hasTypeNamed a n x = true) :
    wsVal m.plans (reprNamed a n 0 x) = x.enc.length := by
  obtain ⟨l', e⟩ := roundtrip hs hg hms n x h (x.fsize + 1) (by omega) 0 [] []
  have := (eval_consumed a m.plans (supported_plans hs hg).2 (x.fsize + 1)).1 n _ _ _ e
  have h2 := this.2.1
  simp only at h2
  omega

/-- **C01, unconditional on the supported subset**: `MatchSelects` is itself a theorem (`C06_match_selects`). -/
theorem C01_roundtrip_supported (a : Ast) (m : Module) (hs : Supported a = true) (hg : generateModule a = .ok m)
    (n : String) (x : XVal) (h : hasTypeNamed a n x = true)
    (fuel : Nat) (hf : x.fsize < fuel) (off : Nat) (s : List Byte) (l : List Ev) :
    ∃ l', evalImpl a m.plans fuel n ⟨off, x.enc ++ s, l⟩ = .ok (reprNamed a n off x) ⟨off + x.enc.length, s, l'⟩ :=
  roundtrip hs hg (match_selects_of_supported hs hg) n x h fuel hf off s l

/-- `wire_size()` of the decoded value is the length of the encoding, unconditionally on the supported subset -/
theorem C01_wire_size_supported (a : Ast) (m : Module) (hs : Supported a = true) (hg : generateModule a = .ok m)
    (n : String) (x : XVal) (h : hasTypeNamed a n x = true) :
    wsVal m.plans (reprNamed a n 0 x) = x.enc.length :=
  C01_wire_size_is_encoded_length a m hs hg (match_selects_of_supported hs hg) n x h

/-- **C01 end to end, from the specification text.**  Take any well-formed text (`Spec.ok`: the concrete syntax with an arbitrary
    layout — blanks, tabs, any line ending, block and line comments — at every gap).  Its declarations determine a node list, an
    item list and, through the three indexes, an `Ast` (`C12_ast_closed_form_total`: that *is* what `Ast::new` returns).  If the
    type names are declared once and the specification's *content* is in the supported subset (`SupportedContent`: which constructs
    it uses and how things are named — `C12_supported_iff_content` shows the rest of `Supported` holds by construction), then
    `Ast::new` of the text is `Ok(a)`, and for every module the generator emits for it, every declared type, every well-typed
    value, every suffix and offset, the emitted decoder applied to the RFC 4506 encoding returns exactly the documented value and
    leaves the cursor just behind the encoding.  Nothing in the statement mentions tokens, budgets or indexes. -/
theorem C01_roundtrip_from_text (s : Parse.Spec) (hok : s.ok = true)
    (ns : List Node) (items : List Item) (a : Ast)
    (hns : mapOut (fun dl : Parse.Decl × Parse.Layout => dl.1.node) s.decls = .ok ns)
    (hitems : itemsOf (ns ++ [.eof]) = .ok items) (ha : Ast.ofItems items = .ok a)
    (hd : (items.filterMap typeEntry).Pairwise (fun x y => x.1 ≠ y.1))
    (hc : C12.SupportedContent a = true) :
    Ast.newLim (String.ofList s.text) = .ok a ∧
    ∀ (m : Module), generateModule a = .ok m →
      ∀ (n : String) (x : XVal), hasTypeNamed a n x = true →
        ∀ (fuel : Nat), x.fsize < fuel → ∀ (off : Nat) (sfx : List Byte) (l : List Ev),
          ∃ l', evalImpl a m.plans fuel n ⟨off, x.enc ++ sfx, l⟩ = .ok (reprNamed a n off x) ⟨off + x.enc.length, sfx, l'⟩ := by
  have e1 := C12.C12_ast_closed_form_total s hok
  simp only [hns, Out.bind_ok, hitems, ha] at e1
  have hs : Supported a = true := by rw [C12.C12_supported_iff_content items a ha hd]; exact hc
  exact ⟨e1, fun m hg n x hx fuel hf off sfx l => C01_roundtrip_supported a m hs hg n x hx fuel hf off sfx l⟩

section example_from_text
open Parse

private def sp1 : Layout := ⟨[' '], []⟩
private def nl0 : Layout := ⟨[], []⟩

/-- `const A = 4; struct s { opaque o<A>; unsigned int n; };` with a comment and odd spacing -/
def exT : Spec := ⟨⟨[], [(.long ['h', 'i'], ['\n'])]⟩, [
  (.const ⟨sp1, ['A'], sp1, sp1, ['4'], nl0⟩, sp1),
  (.struct ⟨sp1, ['s'], sp1, sp1,
     [(⟨.prim .opaque [' '], nl0, none, ['o'], nl0, some (.var nl0 (some (.name ['A'], nl0)), nl0)⟩, sp1),
      (⟨.prim (.uint [' ', '\t']) [' '], nl0, none, ['n'], nl0, none⟩, sp1)], nl0⟩, nl0)]⟩

example : exT.ok = true := by decide
example : String.ofList exT.text = "/*hi*/\nconst A = 4; struct s { opaque o<A>; unsigned \tint n; };" := by decide

/-- the hypotheses of `C01_roundtrip_from_text` hold for it (non-vacuity) -/
example : ∃ ns items a, mapOut (fun dl : Decl × Layout => dl.1.node) exT.decls = .ok ns ∧ itemsOf (ns ++ [.eof]) = .ok items ∧
    Ast.ofItems items = .ok a ∧ (items.filterMap typeEntry).Pairwise (fun x y => x.1 ≠ y.1) ∧ C12.SupportedContent a = true :=
  ⟨_, _, _, rfl, rfl, rfl, by decide, by decide⟩

end example_from_text

end Fx.C01
