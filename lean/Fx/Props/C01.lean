/-
  C01 — decoding the XDR encoding of any value returns that value.
  (first instalment: the leaf readers invert the RFC encoding for every payload, suffix and offset;
   the theorem for whole specifications, `C01_roundtrip`, follows as the emitter lemmas land)
-/
import Fx.Eval
import Fx.Xdr
import Fx.Lemmas.Runtime
namespace Fx.C01
open Fx

theorem C01_u32 (n : Nat) (h : n < 2^32) (o : Nat) (s : List Byte) (l) :
    readU32 ⟨o, (XVal.u32 n).enc ++ s, l⟩ = .ok n ⟨o + 4, s, l⟩ := readU32_be32 n h o s l

theorem C01_u64 (n : Nat) (h : n < 2^64) (o : Nat) (s : List Byte) (l) :
    readU64 ⟨o, (XVal.u64 n).enc ++ s, l⟩ = .ok n ⟨o + 8, s, l⟩ := readU64_be64 n h o s l

/-- variable-length opaque: the payload comes back as a window of the input at its wire offset, whatever
    follows it; a declared maximum ≥ the length does not matter -/
theorem C01_var_opaque (bs s : List Byte) (max : Option Nat) (hl : bs.length < 2^32)
    (hm : ∀ m, max = some m → bs.length ≤ m) (o : Nat) (l) :
    readVariableBytes max ⟨o, (XVal.varOpaque bs).enc ++ s, l⟩ =
      .ok (.bytes (o + 4) bs) ⟨o + (4 + bs.length + padLen bs.length), s, l⟩ := by
  simp only [XVal.enc, List.append_assoc, readVariableBytes, readU32_be32 _ hl, Res.bind_ok]
  have hlim : overLimit max bs.length = false := by
    cases max with
    | none => rfl
    | some m => have := hm m rfl; simp [overLimit]; omega
  simp only [hlim, Bool.false_eq_true, if_false]
  have := readBytes_enc bs s (o + 4) l
  rw [List.append_assoc] at this
  rw [this]
  congr 2
  omega

/-- fixed-length opaque -/
theorem C01_fixed_opaque (bs s : List Byte) (o : Nat) (l) :
    readBytes bs.length ⟨o, (XVal.fixedOpaque bs).enc ++ s, l⟩ =
      .ok (.bytes o bs) ⟨o + (bs.length + padLen bs.length), s, l⟩ := by
  simp only [XVal.enc]
  exact readBytes_enc bs s o l

end Fx.C01
