/-
  C14 — the generator is total: Ok or Err, never a panic.

  The front end's only panics are the explicit `panicAt` outcomes of `Fx.Walk`
  / `Fx.Index`; this file characterises them site by site.  On the current
  tree the property is false at those sites (findings K6.*); the theorems say
  exactly where, so that any *other* panic is a new violation.
-/
import Fx.Index
import Fx.Lemmas.Generic
import Fx.Lemmas.PegTerm
import Fx.Lemmas.PegFuel
import Fx.Lemmas.WalkTotal
import Fx.Lemmas.EmitTotal
import Fx.Lemmas.ParsePlain
import Fx.Lemmas.PegLimit
namespace Fx.C14
open Fx

/-- a text the grammar rejects is reported as `Err`, never as a panic (the `?` in `Ast::new`) -/
theorem C14_reject_is_err (txt : String)
    (h : Peg.parseWith Grammar.xdr "item" txt.toList = .fail) : Ast.new txt = .err := by
  simp [Ast.new, h]

/-- `StructField::new` panics exactly when the token list has none of the four supported shapes -/
theorem C14_struct_field_ok (rhs : BasicType) (lhs : String) :
    StructField.new (.structDataField [.type rhs, .type (.ident lhs)]) = .ok ⟨lhs, .none rhs, false⟩ ∧
    (∀ sz, StructField.new (.structDataField [.type rhs, .type (.ident lhs), .arrayVariable sz]) =
        .ok ⟨lhs, .variable rhs (optSize sz), false⟩) ∧
    (∀ sz, StructField.new (.structDataField [.type rhs, .type (.ident lhs), .arrayFixed sz]) =
        .ok ⟨lhs, .fixed rhs (ArraySize.ofStr sz), false⟩) ∧
    (∀ rest, StructField.new (.structDataField [.type rhs, .option (.type (.ident lhs) :: rest)]) =
        .ok ⟨lhs, .none rhs, true⟩) := by
  refine ⟨rfl, fun _ => rfl, fun _ => rfl, fun _ => rfl⟩

/-- finding K6.b: a primitive spelling used as a field name reaches the `panic!` of `StructField::new` -/
theorem C14_struct_field_primitive_name_panics (rhs : BasicType) :
    StructField.new (.structDataField [.type rhs, .type .u32]) =
      .panicAt "structure.rs" "invalid number of struct field tokens" := rfl

/-- finding K6.a: any declarator other than `type name` in a union arm reaches the `panic!` of `UnionCase::new` -/
theorem C14_union_arm_array_panics (cv : List String) (t : BasicType) (l sz : String) :
    UnionCase.new cv [.type t, .type (.ident l), .arrayVariable sz] =
      .panicAt "union.rs" "invalid number of union field tokens" := rfl

theorem C14_union_arm_ok (cv : List String) (t : BasicType) (l : String) :
    UnionCase.new cv [.type t, .type (.ident l)] = .ok ⟨cv, l, .none t⟩ := rfl

/-- `Typedef::new` never panics on the token shapes the grammar produces -/
theorem C14_typedef_ok (target alias : BasicType) :
    (Typedef.new [.type target, .type alias]).isOk = true ∧
    (∀ s, (Typedef.new [.type target, .type alias, .arrayFixed s]).isOk = true) ∧
    (∀ s, (Typedef.new [.type target, .type alias, .arrayVariable s]).isOk = true) := by
  refine ⟨rfl, fun _ => rfl, fun s => ?_⟩
  simp only [Typedef.new]
  split
  · split <;> rfl
  · rfl

/-- `ConstantIndex::new` panics iff some key is inserted twice -/
theorem C14_constant_index_ok_of_nodup (es : List (String × ConstantType)) (m : List (String × ConstantType))
    (hnd : (es.map (·.1)).Nodup) (hfresh : ∀ e ∈ es, bhas e.1 m = false) :
    (constInsertAll es m).isOk = true := by
  induction es generalizing m with
  | nil => rfl
  | cons e rest ih =>
    obtain ⟨k, v⟩ := e
    simp only [constInsertAll]
    have h0 : bhas k m = false := hfresh (k, v) List.mem_cons_self
    simp only [h0, Bool.false_eq_true, if_false]
    simp only [List.map_cons, List.nodup_cons] at hnd
    apply ih _ hnd.2
    intro e he
    have hne : e.1 ≠ k := by
      intro heq
      apply hnd.1
      rw [← heq]
      exact List.mem_map_of_mem he
    have := hfresh e (List.mem_cons_of_mem _ he)
    unfold bhas at this ⊢
    -- insertion of a different key does not make `e.1` present
    have hb : ∀ (m : List (String × ConstantType)), bget e.1 (bins k v m) = bget e.1 m := by
      intro m
      induction m with
      | nil => simp [bins, bget, hne]
      | cons hd t ih2 =>
        obtain ⟨k', v'⟩ := hd
        simp only [bins]
        split
        · simp [bget, hne]
        · split
          · rename_i _ h2; subst h2; simp [bget, hne]
          · simp only [bget, ih2]
    rw [hb]; exact this

theorem C14_constant_index_dup_panics (k : String) (v : ConstantType) (rest : List (String × ConstantType))
    (m : List (String × ConstantType)) (h : bhas k m = true) :
    constInsertAll ((k, v) :: rest) m = .panicAt "constants.rs" "duplicate case keys" := by
  simp [constInsertAll, h]

/-- the one non-structural loop of the front end terminates (restated from C13) -/
theorem C14_generic_loop_terminates (gs : List GItem) : gpass gs (genericIndexOf gs) = genericIndexOf gs := by
  have hc := genericIndexOf_closed gs
  have step_fix : ∀ it ∈ gs, gstep (genericIndexOf gs) it = genericIndexOf gs := by
    intro it hm
    unfold gstep
    split
    · rfl
    · rename_i hn
      split
      · rename_i hh
        exact absurd (by simpa using hc it hm hh) (by simpa using hn)
      · rfl
  unfold gpass
  generalize genericIndexOf gs = G at step_fix
  generalize gs = sub at step_fix
  induction sub with
  | nil => rfl
  | cons a rest ih =>
    simp only [List.foldl_cons]
    rw [step_fix a List.mem_cons_self]
    exact ih (fun it hit => step_fix it (List.mem_cons_of_mem _ hit))

/-- the grammar translated from `src/xdr.pest` (regenerated on every run) has no recursion among its rules -/
theorem xdr_grammar_is_dag : Peg.dag Grammar.xdr = true := Fx.xdr_grammar_is_dag

/-- **C14 (the parser terminates).**  For every bound on the length of the text there is one recursion budget from which on the
    model of pest's parser, run on the grammar of `src/xdr.pest` from any start rule, answers (accepts or rejects) on every text
    of at most that length: rule references go down in rank (the grammar is a DAG — `xdr_grammar_is_dag`, re-checked against the
    regenerated grammar on every run) and every repetition stops on an iteration without progress. -/
theorem C14_parser_terminates (N : Nat) :
    ∃ F, ∀ (txt : List Char), txt.length ≤ N → ∀ f, F ≤ f → Peg.evalRule Grammar.xdr f false "item" ⟨0, txt⟩ ≠ .outOfFuel := by
  obtain ⟨F, hF⟩ := Peg.parse_terminates Grammar.xdr _ (Peg.dag_ranked _ xdr_grammar_is_dag) N
  exact ⟨F, fun txt hl f hf => hF "item" ⟨0, txt⟩ hl f hf⟩

/-- what comes after the parser is structurally recursive (`walk`, the constructors, the sorted-insert folds) or the generic
    index loop, which reaches its fixpoint within `items.length + 1` passes (`C14_generic_loop_terminates`): so `Ast::new`
    terminates on every text — with `Ok`, `Err`, or one of the panics characterised above (findings K6.*) -/
theorem C14_front_end_terminates (txt : List Char) :
    ∃ F, ∀ f, F ≤ f → ∃ r, Peg.evalRule Grammar.xdr f false "item" ⟨0, txt⟩ = r ∧ r ≠ .outOfFuel := by
  obtain ⟨F, hF⟩ := C14_parser_terminates txt.length
  exact ⟨F, fun f hf => ⟨_, rfl, hF txt (Nat.le_refl _) f hf⟩⟩

/-- the parse is a function of the text: there is one answer — accept with one token tree, or reject — and every sufficient
    budget returns it (termination + budget irrelevance) -/
theorem C14_parse_is_a_function (txt : List Char) :
    ∃ (r : Peg.PR) (F : Nat), r ≠ .outOfFuel ∧ ∀ f, F ≤ f → Peg.evalRule Grammar.xdr f false "item" ⟨0, txt⟩ = r := by
  obtain ⟨F, hF⟩ := C14_parser_terminates txt.length
  have h0 := hF txt (Nat.le_refl _) F (Nat.le_refl _)
  exact ⟨_, F, h0, fun f hf => Peg.evalRule_fuel_mono Grammar.xdr false "item" ⟨0, txt⟩ F f hf h0⟩

/-- **C14 (exactly where the property fails).**  For EVERY text, `Ast::new` returns `Ok`, returns `Err`, or panics at one of
    five sites: K6.a `UnionCase::new` ("invalid number of union field tokens"), K6.b / K6.f `StructField::new` ("invalid
    number of struct field tokens" / "unexpected struct field option layout"), K6.c `VariantValue::from` (the hex `unwrap`),
    K6.d `ConstantIndex::new` ("duplicate case keys").  The token trees the parser produces conform to the grammar
    (`Peg.shape`), and on such trees the other seventeen panic, unwrap, index and `unreachable!` sites of `src/ast` are
    unreachable (`Fx.Lemmas.WalkTotal`, rule by rule over the grammar regenerated from `src/xdr.pest`).  So the list of known
    findings the check matches against is complete for the front end: a panic anywhere else is a new defect (or a model error,
    which the T3 tie reports). -/
theorem C14_only_known_panic_sites (txt : String) (f m : String) (h : Ast.new txt = .panicAt f m) : (f, m) ∈ knownSites :=
  front_end_known_panics txt f m h

/-- the same, as the three-way outcome -/
theorem C14_ok_err_or_known_panic (txt : String) :
    (∃ a, Ast.new txt = .ok a) ∨ Ast.new txt = .err ∨ (∃ f m, Ast.new txt = .panicAt f m ∧ (f, m) ∈ knownSites) ∨ Ast.new txt = .outOfFuel := by
  cases h : Ast.new txt with
  | ok a => exact Or.inl ⟨a, rfl⟩
  | err => exact Or.inr (Or.inl rfl)
  | panicAt f m => exact Or.inr (Or.inr (Or.inl ⟨f, m, rfl, front_end_known_panics txt f m h⟩))
  | outOfFuel => exact Or.inr (Or.inr (Or.inr rfl))

/-- the emitters: after a successful `Ast::new`, `Generator::generate` returns `Ok`, returns `Err`, or reaches its one
    `unreachable!` — a fixed-length `string s[N]` (finding K6.e) -/
theorem C14_generate_only_known_panic (a : Ast) (f m : String) (h : generateModule a = .panicAt f m) :
    f = "from.rs" ∧ m = "unexpected fixed length string" :=
  generateModule_g1 a f m h

/-- **C14 on texts: where the constructor panics are *not*.**  For every well-formed text (`Spec.ok`, any layout) whose
    declarations are *plain* — a decidable predicate on the declarations: every struct field and union arm has an ordinary
    name (not a spelling `BasicType::from` turns into a built-in type), no struct field has both `*` and an array suffix, every
    union arm is `type name;`, no enum member is a hex literal `i32::from_str_radix` rejects — `Ast::new` returns `Ok`, or stops
    at the duplicate-name check of `ConstantIndex::new`.  So the findings K6.a, K6.b, K6.c and K6.f are confined to exactly the
    declaration forms `Spec.plain` excludes, and K6.d to repeated constant / member names; together with
    `C14_only_known_panic_sites` (no other site, for *all* texts) the boundary of the property is stated on declarations. -/
theorem C14_plain_text (s : Parse.Spec) (hok : s.ok = true) (hp : s.plain = true) :
    Ast.new (String.ofList s.text) = .outOfFuel ∨ (∃ a, Ast.new (String.ofList s.text) = .ok a) ∨
    Ast.new (String.ofList s.text) = .panicAt "constants.rs" "duplicate case keys" := by
  unfold Ast.new
  rw [String.toList_ofList]
  rcases Parse.spec_parseWith s hok with hpw | hpw
  · rw [show Peg.parseWith Grammar.xdr "item" s.text = _ from hpw]
    rcases Parse.plain_front s hok hp with ⟨a, ha⟩ | hd
    · exact .inr (.inl ⟨a, by simp only [ha]⟩)
    · exact .inr (.inr (by simp only [hd]))
  · exact .inl (by rw [show Peg.parseWith Grammar.xdr "item" s.text = _ from hpw])


/-- **the front end is total, with no budget in the statement.**  `Ast.newLim` runs the constructors on the parser's
    budget-free answer (Lemmas/PegLimit).  For EVERY text it is `Ok`, `Err`, or a panic at one of the recorded sites — there
    is no fourth outcome — and the executable `Ast.new` equals it at every text where `Ast.new` answers. -/
theorem C14_front_end_total (txt : String) :
    (∃ a, Ast.newLim txt = .ok a) ∨ Ast.newLim txt = .err ∨ (∃ f m, Ast.newLim txt = .panicAt f m ∧ (f, m) ∈ knownSites) := by
  cases h : Ast.newLim txt with
  | ok a => exact Or.inl ⟨a, rfl⟩
  | err => exact Or.inr (Or.inl rfl)
  | panicAt f m => exact Or.inr (Or.inr ⟨f, m, rfl, Ast.newLim_known_panics txt f m h⟩)
  | outOfFuel => exact absurd h (Ast.newLim_ne_outOfFuel txt)

theorem C14_executable_front_end_agrees (txt : String) (h : Ast.new txt ≠ .outOfFuel) : Ast.new txt = Ast.newLim txt :=
  Ast.new_eq_newLim txt h

/-- `C14_plain_text` without a budget: a plain well-formed text is `Ok` or the duplicate-name panic K6.d -/
theorem C14_plain_text_total (s : Parse.Spec) (hok : s.ok = true) (hp : s.plain = true) :
    (∃ a, Ast.newLim (String.ofList s.text) = .ok a) ∨
    Ast.newLim (String.ofList s.text) = .panicAt "constants.rs" "duplicate case keys" := by
  unfold Ast.newLim
  rw [String.toList_ofList, Peg.parseLim_of_ROk (Parse.spec_parses s hok)]
  rcases Parse.plain_front s hok hp with ⟨a, ha⟩ | hd
  · exact .inl ⟨a, by simp only [ha]⟩
  · exact .inr (by simp only [hd])

/-- non-vacuity: a plain specification with a fall-through union, an optional field and a counted array -/
def exP : Parse.Spec :=
  let sp : Parse.Layout := ⟨[' '], []⟩
  let nl := Parse.nl
  ⟨nl, [
    (.struct ⟨sp, ['n', 'o', 'd', 'e'], sp, sp,
      [(⟨.prim .int [' '], nl, none, ['v'], nl, none⟩, sp),
       (⟨.named ['n', 'o', 'd', 'e'], sp, some nl, ['n', 'e', 'x', 't'], nl, none⟩, sp),
       (⟨.prim .opaque [' '], nl, none, ['d'], nl, some (.var nl (some (.num ['8'], nl)), nl)⟩, sp)], nl⟩, sp),
    (.union ⟨sp, ['u'], sp, sp, nl, .prim .int [' '], nl, ['k'], nl, sp, sp,
      [(.case sp (.num ['1']) nl nl none, nl),
       (.case sp (.num ['2']) nl sp (some (.field ⟨.named ['n', 'o', 'd', 'e'], sp, none, ['a'], nl, none⟩)), sp),
       (.dflt nl sp (.void nl), sp)], nl⟩, nl)]⟩

example : exP.ok = true ∧ exP.plain = true := by decide
example : String.ofList exP.text =
    "struct node { int v; node *next; opaque d<8>; }; union u switch (int k) { case 1:case 2: node a; default: void; };" := by decide

end Fx.C14
