/-
  C15 — the CLI prints exactly what the library generates.
-/
import Fx.Cli
namespace Fx.C15
open Fx

def texts : List FileOutcome → Option (List String)
  | [] => some []
  | .generated t :: rest => (texts rest).map (t :: ·)
  | _ :: _ => none

theorem cliGo_all_generated (ts : List String) (out : String) :
    cliGo (ts.map .generated) out = (out ++ concatLines ts, 0) := by
  induction ts generalizing out with
  | nil => simp [cliGo, concatLines]
  | cons t rest ih => simp [cliGo, ih, concatLines, String.append_assoc]

/-- every file read and generated: stdout is the library's text for each file in argument order, each followed by
    the newline `println!` adds, and the exit status is 0 -/
theorem C15_cli_all_ok (argv0 : String) (ts : List String) (h : ts ≠ []) :
    cli argv0 (ts.map .generated) = (concatLines ts, 0) := by
  unfold cli
  have : (ts.map FileOutcome.generated).isEmpty = false := by
    cases ts with
    | nil => exact absurd rfl h
    | cons _ _ => rfl
  simp only [this, Bool.false_eq_true, if_false]
  rw [cliGo_all_generated]
  simp

/-- no arguments: usage line, non-zero exit -/
theorem C15_cli_no_args (argv0 : String) : (cli argv0 []).2 = 1 ∧ (cli argv0 []).1 = "usage: " ++ argv0 ++ " ./path/to/spec.x\n" := by
  simp [cli]

theorem cliGo_prefix (ts : List String) (bad : FileOutcome) (hb : ∀ t, bad ≠ .generated t) (rest : List FileOutcome) (out : String) :
    (cliGo (ts.map .generated ++ bad :: rest) out).1 = out ++ concatLines ts ∧
    (cliGo (ts.map .generated ++ bad :: rest) out).2 ≠ 0 := by
  induction ts generalizing out with
  | nil =>
    cases bad with
    | generated t => exact absurd rfl (hb t)
    | rejected => simp [cliGo, concatLines]
    | unreadable => simp [cliGo, concatLines]
    | panicked => simp [cliGo, concatLines]
  | cons t ts ih =>
    have := ih (out ++ t ++ "\n")
    simp only [List.map_cons, List.cons_append, cliGo]
    refine ⟨?_, this.2⟩
    rw [this.1]
    simp [concatLines, String.append_assoc]

/-- the first file that cannot be read, is rejected, or makes the generator panic: non-zero exit, and stdout holds
    exactly the output of the files before it -/
theorem C15_cli_first_failure (argv0 : String) (ts : List String) (bad : FileOutcome) (hb : ∀ t, bad ≠ .generated t)
    (rest : List FileOutcome) :
    (cli argv0 (ts.map .generated ++ bad :: rest)).1 = concatLines ts ∧
    (cli argv0 (ts.map .generated ++ bad :: rest)).2 ≠ 0 := by
  unfold cli
  have : (ts.map FileOutcome.generated ++ bad :: rest).isEmpty = false := by
    cases ts <;> rfl
  simp only [this, Bool.false_eq_true, if_false]
  have := cliGo_prefix ts bad hb rest ""
  simpa using this

/-- non-vacuity -/
example : cli "fastxdr" [.generated "A", .generated "B"] = ("A\nB\n", 0) := by decide
example : cli "fastxdr" [.generated "A", .rejected, .generated "B"] = ("A\n", 1) := by decide

end Fx.C15
