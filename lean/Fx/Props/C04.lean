/-
  C04 — decoders never panic, abort or overflow, whatever the bytes.
-/
import Fx.Lemmas.NoPanic
import Fx.Lemmas.EmitPlans
import Fx.Lemmas.Terminates
import Fx.Lemmas.Fuel
import Fx.Lemmas.Linear
namespace Fx.C04
open Fx

/-- For every specification whose emitted plans are well-formed (`Plans.Ok`: every decoder that is called
    exists, a union without a tail arm has a `_` arm — decidable, evaluated by the driver for every
    compiled specification), every declared type, every fuel and EVERY byte string at any offset:
    the decoder's outcome is `ok`, `err` or out-of-fuel — never `panic` or `abort`. -/
theorem C04_no_panic (a : Ast) (p : Plans) (hp : p.Ok = true) (name : String)
    (hn : (p.findImpl name).isSome = true) (fuel : Nat) (c : Cur) :
    (evalImpl a p fuel name c).isBad = false :=
  (eval_ne_bad a p hp fuel).1 name c hn

/-- both entry points (`TryFrom<Bytes>`, `TryFrom<&mut Bytes>`) -/
theorem C04_no_panic_entry (a : Ast) (p : Plans) (hp : p.Ok = true) (name : String)
    (hn : (p.findImpl name).isSome = true) (c : Cur) :
    (decodeByValue a p name c).isBad = false ∧ (decodeRefMut a p name c).isBad = false :=
  ⟨C04_no_panic a p hp name hn _ c, C04_no_panic a p hp name hn _ c⟩

/-- **Specification level**: for every `Ast` in the supported subset (`Supported`, a decidable predicate read off the
    declarations) for which generation succeeds, every declared type, every fuel and EVERY byte string: the generated
    decoders — both families — never reach `panic` or `abort`. -/
theorem C04_no_panic_supported (a : Ast) (m : Module) (hs : Supported a = true) (hg : generateModule a = .ok m)
    (name : String) (hn : declared a name = true) (fuel : Nat) (c : Cur) :
    (evalImpl a m.plans fuel name c).isBad = false :=
  C04_no_panic a m.plans (supported_plans hs hg).1 name ((plansFor_of_supported hs hg).declared_has_impl name hn) fuel c

/-- every reader of the runtime is panic-free on every buffer (the lemmas the induction rests on) -/
theorem C04_readers (c : Cur) (n : Nat) (m : Option Nat) :
    (readU32 c).isBad = false ∧ (readU64 c).isBad = false ∧ (readI32 c).isBad = false ∧
    (readI64 c).isBad = false ∧ (readBool c).isBad = false ∧ (readBytes n c).isBad = false ∧
    (readVariableBytes m c).isBad = false ∧ (readString m c).isBad = false :=
  ⟨readU32_ne_bad c, readU64_ne_bad c, readI32_ne_bad c, readI64_ne_bad c, readBool_ne_bad c,
   readBytes_ne_bad n c, readVariableBytes_ne_bad m c, readString_ne_bad m c⟩

/-- the counted-array reader is panic-free for ANY element decoder that is (incl. the unchecked-padding case repaired by F2) -/
theorem C04_array_reader (dec : Cur → Res Val) (ws : Val → Nat) (hd : ∀ c, (dec c).isBad = false)
    (m : Option Nat) (c : Cur) : (readVariableArray dec ws m c).isBad = false :=
  readVariableArray_ne_bad dec ws hd m c

/-! ### the defects repaired by F1/F2, against frozen copies of the pre-repair readers -/

/-- `read_bytes` as it was at the pinned commit: only the payload was checked -/
def readBytes_old (n : Nat) (c : Cur) : Res Val :=
  if c.remaining < n then .err .invalidLength c.log
  else (sliceP n c).bind fun data c1 =>
    (advanceP (n + padLen n) c1).bind fun _ c2 => .ok data c2

/-- witness: one payload byte without its padding made `Bytes::advance` panic -/
theorem C04_defect_read_bytes_old : (readBytes_old 1 ⟨0, [9], []⟩).isBad = true := by decide

/-- the repaired reader on the same input -/
example : readBytes 1 ⟨0, [9], []⟩ = .err .invalidLength [] := by
  rw [readBytes_short] <;> simp [Cur.remaining, padLen]

/-- non-vacuity of `Plans.Ok`: a plan with a struct referring to itself through an optional and a counted array -/
example : (Plans.mk [⟨"s", false, .struct [.plain "a" (.one (.prim .u32)), .optional "n" "s", .plain "xs" (.varArr "s" false none)]⟩] []).Ok = true := by
  decide

/-- **C04 (termination).**  If the types of the plans are finite — every reference to another decoder that is not behind
    `Option<Box<_>>` or `Vec<_>` goes to a type of lower rank; `Plans.finite` computes a ranking and checks it, and rustc rejects
    the others as infinitely sized — then for EVERY buffer and every decoder there is a recursion budget from which on the model
    never answers "out of fuel": the computation the evaluator describes terminates.  The bound is uniform in the buffer length
    (`eval_terminates`), and by `C03_fuel_irrelevant` the answer is the same for every sufficient budget. -/
theorem C04_terminates (a : Ast) (p : Plans) (hfin : p.finite = true) (name : String) (c : Cur) :
    ∃ F, ∀ f, F ≤ f → evalImpl a p f name c ≠ .outOfFuel := by
  obtain ⟨F, hF⟩ := eval_terminates a p _ (p.finite_ranked hfin) c.remaining
  exact ⟨F, fun f hf => hF name c (Nat.le_refl _) f hf⟩

/-- **C04, the property's own words**: for well-formed plans with finite types, EVERY byte string and every declared decoder,
    the outcome is `Ok` or `Err` — not a panic, not an abort, not a failure to terminate — and it is one outcome, independent of
    the budget. -/
theorem C04_ok_or_err (a : Ast) (p : Plans) (hp : p.Ok = true) (hfin : p.finite = true) (name : String)
    (hn : (p.findImpl name).isSome = true) (c : Cur) :
    ∃ F, ((∃ v c', ∀ f, F ≤ f → evalImpl a p f name c = .ok v c') ∨ (∃ e l, ∀ f, F ≤ f → evalImpl a p f name c = .err e l)) := by
  obtain ⟨F, hF⟩ := C04_terminates a p hfin name c
  have hbad := C04_no_panic a p hp name hn F c
  have hno := hF F (Nat.le_refl _)
  have hmono : ∀ f, F ≤ f → evalImpl a p f name c = evalImpl a p F name c :=
    fun f hf => evalImpl_fuel_mono a p name c F f hf hno
  refine ⟨F, ?_⟩
  cases hr : evalImpl a p F name c with
  | ok v c' => exact Or.inl ⟨v, c', fun f hf => by rw [hmono f hf, hr]⟩
  | err e l => exact Or.inr ⟨e, l, fun f hf => by rw [hmono f hf, hr]⟩
  | panic s => rw [hr] at hbad; cases hbad
  | abort => rw [hr] at hbad; cases hbad
  | outOfFuel => exact absurd hr hno

/-- specification level: supported subset + finite types (the one condition `Supported` leaves to rustc) -/
theorem C04_ok_or_err_supported (a : Ast) (m : Module) (hs : Supported a = true) (hg : generateModule a = .ok m)
    (hfin : m.plans.finite = true) (name : String) (hn : declared a name = true) (c : Cur) :
    ∃ F, ((∃ v c', ∀ f, F ≤ f → evalImpl a m.plans f name c = .ok v c') ∨
          (∃ e l, ∀ f, F ≤ f → evalImpl a m.plans f name c = .err e l)) :=
  C04_ok_or_err a m.plans (supported_plans hs hg).1 hfin name ((plansFor_of_supported hs hg).declared_has_impl name hn) c

/-- non-vacuity: a recursive list type (`struct node { unsigned v; node *next; }`) is finite — the recursion is behind a `Box` -/
example : (Plans.mk [⟨"node", false, .struct [.plain "v" (.one (.prim .u32)), .optional "next" "node"]⟩] []).finite = true := by decide

/-- and a type that contains itself directly is not -/
example : (Plans.mk [⟨"bad", false, .struct [.plain "x" (.one (.tryFrom "bad"))]⟩] []).finite = false := by decide

/-- **C04 (the recursion depth is bounded by an explicit function of the input length).**  For every specification with finite
    types, `p.budget k` — computed from the plans alone (Lemmas/Linear) — is a recursion budget at which every decoder answers on
    EVERY buffer shorter than `4 (k + 1)` bytes; so on a buffer of `n` bytes the nesting of decoder calls never exceeds
    `p.budget (n / 4)`.  A reference behind `Option<Box<_>>` / `Vec<_>` costs one level only after 4 bytes have been consumed.
    This is the quantitative half of "never overflows the stack": the depth is a function of the input length that the driver
    evaluates (a constant per 4 bytes on the campaign's recursive types, examples below); the other half — that the machine stack
    holds that many frames — is finding K5 (recorded: a chain of 5·10⁴ optional links overflows an 8 MB stack). -/
theorem C04_depth_bounded_by_input (a : Ast) (p : Plans) (hfin : p.finite = true) (name : String) (c : Cur) :
    ∀ f, p.budget (c.remaining / 4) ≤ f → evalImpl a p f name c ≠ .outOfFuel :=
  fun f hf => budget_suffices a p hfin (c.remaining / 4) name c (by omega) f hf

/-- **the bound is linear in the input**: `p.budget k ≤ (k + 1) · p.maxLocal 0`, so on a buffer of `n` bytes every decoder answers
    at the budget `(n / 4 + 1) · L` where `L = p.maxLocal 0` is a constant of the specification (the largest one-level budget) -/
theorem C04_depth_linear_in_input (a : Ast) (p : Plans) (hfin : p.finite = true) (name : String) (c : Cur) :
    ∀ f, (c.remaining / 4 + 1) * p.maxLocal 0 ≤ f → evalImpl a p f name c ≠ .outOfFuel :=
  fun f hf => C04_depth_bounded_by_input a p hfin name c f (Nat.le_trans (budget_linear p _) hf)

/-- the budget of the list type `struct node { unsigned v; node *next; }` on buffers of under 4, 8, 12, 16 and 44 bytes: 4, 7, 10, 13, 34 —
    three budget units (one nesting of `node::try_from`: impl, field list, field) per 4 bytes -/
example :
    let p : Plans := ⟨[⟨"node", false, .struct [.plain "v" (.one (.prim .u32)), .optional "next" "node"]⟩], []⟩
    p.finite = true ∧ p.budget 0 = 4 ∧ p.budget 1 = 7 ∧ p.budget 2 = 10 ∧ p.budget 3 = 13 ∧ p.budget 10 = 34 := by decide

end Fx.C04
