/-
  C07 — accepted specifications yield a module that compiles, with the documented API.
  rustc is not modelled; `Fx.outputOk` is a decidable judgement standing in for it, validated
  against rustc on every compiled batch (both directions).  First instalment: the structural
  part of the documented API, for every `Ast` for which generation succeeds.
-/
import Fx.OutputOk
import Fx.Lemmas.Emit
import Fx.Render
namespace Fx.C07
open Fx

/-- one `TryFrom<Bytes>` impl, one `TryFrom<&mut Bytes>` impl and one `WireSize` impl per declared type, in the
    same order and under the declaration's own name -/
theorem C07_three_impls_per_declaration (a : Ast) (m : Module) (h : generateModule a = .ok m) :
    m.fromBytes.map (·.name) = a.types.map (fun kv => kv.2.rustName) ∧
    m.fromRefMut.map (·.name) = a.types.map (fun kv => kv.2.rustName) ∧
    m.sizes.map (·.name) = a.types.map (fun kv => kv.2.rustName) := by
  obtain ⟨_, h1, h2, h3⟩ := generateModule_ok h
  refine ⟨?_, ?_, ?_⟩
  · have := mapG_ok_map (g := fun (i : Impl) => i.name) (h := fun (t : AstType) => t.rustName)
      (fun x y hxy => emitImpl_name hxy) _ _ h1
    simpa [List.map_map, Function.comp_def] using this
  · have := mapG_ok_map (g := fun (i : Impl) => i.name) (h := fun (t : AstType) => t.rustName)
      (fun x y hxy => emitImpl_name hxy) _ _ h2
    simpa [List.map_map, Function.comp_def] using this
  · rw [h3]
    simp [emitWireSize, List.map_map, Function.comp_def, emitSize_name]

/-- the two decoder families are the same list of plans (they differ only in the template they are printed under) -/
theorem C07_families_identical (a : Ast) (m : Module) (h : generateModule a = .ok m) : m.fromBytes = m.fromRefMut := by
  obtain ⟨_, h1, h2, _⟩ := generateModule_ok h
  have : emitFrom .bytes a = emitFrom .refMutBytes a := rfl
  rw [this, h2] at h1
  injection h1 with h1
  exact h1.symm

/-- every impl header carries the `<Bytes>` parameter iff the name is in the generic index — decoder and size impls alike -/
theorem C07_impl_params_consistent (a : Ast) (m : Module) (h : generateModule a = .ok m) :
    m.fromRefMut.map (fun i => (i.name, i.generic)) = a.types.map (fun kv => (kv.2.rustName, a.isGeneric kv.2.rustName)) ∧
    m.sizes.map (fun s => (s.name, s.generic)) = a.types.map (fun kv => (kv.2.rustName, a.isGeneric kv.2.rustName)) := by
  obtain ⟨_, _, h2, h3⟩ := generateModule_ok h
  refine ⟨?_, ?_⟩
  · have := mapG_ok_map (g := fun (i : Impl) => (i.name, i.generic)) (h := fun (t : AstType) => (t.rustName, a.isGeneric t.rustName))
      (fun x y hxy => by simp [emitImpl_name hxy, emitImpl_generic hxy]) _ _ h2
    simpa [List.map_map, Function.comp_def] using this
  · rw [h3]
    simp [emitWireSize, List.map_map, Function.comp_def, emitSize_name, emitSize_generic]

/-! ### the documented shape of the types (what `print_types` writes, as the model of it that T1 compares token by token) -/

/-- structs keep their fields: one `pub` field per declared field, in declaration order, under the declared name
    (through `SafeName`), optional fields as `Option<Box<_>>` -/
theorem C07_struct_shape (a : Ast) (s : Struct) :
    emitTypeDecl a (.struct s) = some (.struct s.name (a.isGeneric s.name) (s.fields.map fun f =>
      (f.fieldName, if f.isOptional then .optBox (payloadTy a f.fieldValue) else payloadTy a f.fieldValue))) := rfl

/-- the printed field names, in order -/
theorem C07_struct_field_names (a : Ast) (s : Struct) (g : Bool) (fs : List (String × TyExpr))
    (h : emitTypeDecl a (.struct s) = some (.struct s.name g fs)) :
    fs.map (fun f => safeName f.1) = s.fields.map (fun f => safeName f.fieldName) := by
  simp only [emitTypeDecl, Option.some.injEq, TypeDecl.struct.injEq, true_and] at h
  rw [← h.2]
  simp [List.map_map, Function.comp_def]

/-- reserved words get `_v`; every other field name is printed as declared (TRUE/FALSE lower-cased) -/
theorem C07_safe_name (s : String) :
    safeName s = if isKeyword s then s ++ "_v" else if s == "TRUE" then "true" else if s == "FALSE" then "false" else s := rfl

/-- unions are enums with one variant per case label (every label of a fall-through group gets its own variant with the
    group's payload), then one payload-less variant per void label, then `default` if it carries data -/
theorem C07_union_shape (a : Ast) (u : Union) :
    emitTypeDecl a (.union u) = some (.union u.name (a.isGeneric u.name)
      ((u.cases.map fun c => c.caseValues.map fun l => (l, some (armTy a c.fieldValue))).flatten
       ++ u.voidCases.map (fun l => (l, none))
       ++ (match u.default with | some d => [("default", some (armTy a d.fieldValue))] | none => []))) := rfl

/-- variant names get `v_` in front of a leading digit and are otherwise the label itself -/
theorem C07_variant_name_digit (c : Char) (cs : List Char) (h : '0' ≤ c ∧ c ≤ '9') :
    nonDigitName (String.ofList (c :: cs)) = "v_" ++ String.ofList (c :: cs) := by
  simp [nonDigitName, h]

theorem C07_variant_name_other (c : Char) (cs : List Char) (h : ¬ ('0' ≤ c ∧ c ≤ '9')) :
    nonDigitName (String.ofList (c :: cs)) = String.ofList (c :: cs) := by
  simp [nonDigitName, h]

/-- typedefs are distinct tuple newtypes named after the alias (except `typedef t t`-style identities, which print nothing) -/
theorem C07_typedef_newtype (a : Ast) (td : Typedef) (h : (td.target == td.alias.unwrapArray) = false) :
    ∃ g sp inner, emitTypeDecl a (.typedef td) = some (.typedef td.alias.unwrapArray.asStr g sp inner) := by
  simp only [emitTypeDecl, h, Bool.false_eq_true, if_false]
  split
  · exact ⟨_, _, _, rfl⟩
  · split <;> exact ⟨_, _, _, rfl⟩

end Fx.C07
