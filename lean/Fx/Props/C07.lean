/-
  C07 — accepted specifications yield a module that compiles, with the documented API.
  rustc is not modelled; `Fx.outputOk` is a decidable judgement standing in for it, validated
  against rustc on every compiled batch (both directions).  First instalment: the structural
  part of the documented API, for every `Ast` for which generation succeeds.
-/
import Fx.OutputOk
import Fx.Lemmas.Emit
namespace Fx.C07
open Fx

/-- one `TryFrom<Bytes>` impl, one `TryFrom<&mut Bytes>` impl and one `WireSize` impl per declared type, in the
    same order and under the declaration's own name -/
theorem C07_three_impls_per_declaration (a : Ast) (m : Module) (h : generateModule a = .ok m) :
    m.fromBytes.map (·.name) = a.types.map (fun kv => kv.2.rustName) ∧
    m.fromRefMut.map (·.name) = a.types.map (fun kv => kv.2.rustName) ∧
    m.sizes.map (·.name) = a.types.map (fun kv => kv.2.rustName) := by
  obtain ⟨_, h1, h2, h3⟩ := generateModule_ok h
  refine ⟨?_, ?_, ?_⟩
  · have := mapG_ok_map (g := fun (i : Impl) => i.name) (h := fun (t : AstType) => t.rustName)
      (fun x y hxy => emitImpl_name hxy) _ _ h1
    simpa [List.map_map, Function.comp_def] using this
  · have := mapG_ok_map (g := fun (i : Impl) => i.name) (h := fun (t : AstType) => t.rustName)
      (fun x y hxy => emitImpl_name hxy) _ _ h2
    simpa [List.map_map, Function.comp_def] using this
  · rw [h3]
    simp [emitWireSize, List.map_map, Function.comp_def, emitSize_name]

/-- the two decoder families are the same list of plans (they differ only in the template they are printed under) -/
theorem C07_families_identical (a : Ast) (m : Module) (h : generateModule a = .ok m) : m.fromBytes = m.fromRefMut := by
  obtain ⟨_, h1, h2, _⟩ := generateModule_ok h
  have : emitFrom .bytes a = emitFrom .refMutBytes a := rfl
  rw [this, h2] at h1
  injection h1 with h1
  exact h1.symm

/-- every impl header carries the `<Bytes>` parameter iff the name is in the generic index — decoder and size impls alike -/
theorem C07_impl_params_consistent (a : Ast) (m : Module) (h : generateModule a = .ok m) :
    m.fromRefMut.map (fun i => (i.name, i.generic)) = a.types.map (fun kv => (kv.2.rustName, a.isGeneric kv.2.rustName)) ∧
    m.sizes.map (fun s => (s.name, s.generic)) = a.types.map (fun kv => (kv.2.rustName, a.isGeneric kv.2.rustName)) := by
  obtain ⟨_, _, h2, h3⟩ := generateModule_ok h
  refine ⟨?_, ?_⟩
  · have := mapG_ok_map (g := fun (i : Impl) => (i.name, i.generic)) (h := fun (t : AstType) => (t.rustName, a.isGeneric t.rustName))
      (fun x y hxy => by simp [emitImpl_name hxy, emitImpl_generic hxy]) _ _ h2
    simpa [List.map_map, Function.comp_def] using this
  · rw [h3]
    simp [emitWireSize, List.map_map, Function.comp_def, emitSize_name, emitSize_generic]

end Fx.C07
