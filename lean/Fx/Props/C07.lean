/-
  C07 — accepted specifications yield a module that compiles, with the documented API.
  rustc is not modelled; `Fx.outputOk` is a decidable judgement standing in for it, validated
  against rustc on every compiled batch (both directions).  First instalment: the structural
  part of the documented API, for every `Ast` for which generation succeeds.
-/
import Fx.OutputOk
import Fx.Lemmas.Emit
import Fx.Render
import Fx.Props.C13
import Fx.Lemmas.Fits
namespace Fx.C07
open Fx

/-- one `TryFrom<Bytes>` impl, one `TryFrom<&mut Bytes>` impl and one `WireSize` impl per declared type, in the
    same order and under the declaration's own name -/
theorem C07_three_impls_per_declaration (a : Ast) (m : Module) (h : generateModule a = .ok m) :
    m.fromBytes.map (·.name) = a.types.map (fun kv => kv.2.rustName) ∧
    m.fromRefMut.map (·.name) = a.types.map (fun kv => kv.2.rustName) ∧
    m.sizes.map (·.name) = a.types.map (fun kv => kv.2.rustName) := by
  obtain ⟨_, h1, h2, h3⟩ := generateModule_ok h
  refine ⟨?_, ?_, ?_⟩
  · have := mapG_ok_map (g := fun (i : Impl) => i.name) (h := fun (t : AstType) => t.rustName)
      (fun x y hxy => emitImpl_name hxy) _ _ h1
    simpa [List.map_map, Function.comp_def] using this
  · have := mapG_ok_map (g := fun (i : Impl) => i.name) (h := fun (t : AstType) => t.rustName)
      (fun x y hxy => emitImpl_name hxy) _ _ h2
    simpa [List.map_map, Function.comp_def] using this
  · rw [h3]
    simp [emitWireSize, List.map_map, Function.comp_def, emitSize_name]

/-- the two decoder families are the same list of plans (they differ only in the template they are printed under) -/
theorem C07_families_identical (a : Ast) (m : Module) (h : generateModule a = .ok m) : m.fromBytes = m.fromRefMut := by
  obtain ⟨_, h1, h2, _⟩ := generateModule_ok h
  have : emitFrom .bytes a = emitFrom .refMutBytes a := rfl
  rw [this, h2] at h1
  injection h1 with h1
  exact h1.symm

/-- every impl header carries the `<Bytes>` parameter iff the name is in the generic index — decoder and size impls alike -/
theorem C07_impl_params_consistent (a : Ast) (m : Module) (h : generateModule a = .ok m) :
    m.fromRefMut.map (fun i => (i.name, i.generic)) = a.types.map (fun kv => (kv.2.rustName, a.isGeneric kv.2.rustName)) ∧
    m.sizes.map (fun s => (s.name, s.generic)) = a.types.map (fun kv => (kv.2.rustName, a.isGeneric kv.2.rustName)) := by
  obtain ⟨_, _, h2, h3⟩ := generateModule_ok h
  refine ⟨?_, ?_⟩
  · have := mapG_ok_map (g := fun (i : Impl) => (i.name, i.generic)) (h := fun (t : AstType) => (t.rustName, a.isGeneric t.rustName))
      (fun x y hxy => by simp [emitImpl_name hxy, emitImpl_generic hxy]) _ _ h2
    simpa [List.map_map, Function.comp_def] using this
  · rw [h3]
    simp [emitWireSize, List.map_map, Function.comp_def, emitSize_name, emitSize_generic]

/-! ### the documented shape of the types (what `print_types` writes, as the model of it that T1 compares token by token) -/

/-- structs keep their fields: one `pub` field per declared field, in declaration order, under the declared name
    (through `SafeName`), optional fields as `Option<Box<_>>` -/
theorem C07_struct_shape (a : Ast) (s : Struct) :
    emitTypeDecl a (.struct s) = some (.struct s.name (a.isGeneric s.name) (s.fields.map fun f =>
      (f.fieldName, if f.isOptional then .optBox (payloadTy a f.fieldValue) else payloadTy a f.fieldValue))) := rfl

/-- the printed field names, in order -/
theorem C07_struct_field_names (a : Ast) (s : Struct) (g : Bool) (fs : List (String × TyExpr))
    (h : emitTypeDecl a (.struct s) = some (.struct s.name g fs)) :
    fs.map (fun f => safeName f.1) = s.fields.map (fun f => safeName f.fieldName) := by
  simp only [emitTypeDecl, Option.some.injEq, TypeDecl.struct.injEq, true_and] at h
  rw [← h.2]
  simp [List.map_map, Function.comp_def]

/-- reserved words get `_v`; every other field name is printed as declared (TRUE/FALSE lower-cased) -/
theorem C07_safe_name (s : String) :
    safeName s = if isKeyword s then s ++ "_v" else if s == "TRUE" then "true" else if s == "FALSE" then "false" else s := rfl

/-- unions are enums with one variant per case label (every label of a fall-through group gets its own variant with the
    group's payload), then one payload-less variant per void label, then `default` if it carries data -/
theorem C07_union_shape (a : Ast) (u : Union) :
    emitTypeDecl a (.union u) = some (.union u.name (a.isGeneric u.name)
      ((u.cases.map fun c => c.caseValues.map fun l => (l, some (armTy a c.fieldValue))).flatten
       ++ u.voidCases.map (fun l => (l, none))
       ++ (match u.default with | some d => [("default", some (armTy a d.fieldValue))] | none => []))) := rfl

/-- variant names get `v_` in front of a leading digit and are otherwise the label itself -/
theorem C07_variant_name_digit (c : Char) (cs : List Char) (h : '0' ≤ c ∧ c ≤ '9') :
    nonDigitName (String.ofList (c :: cs)) = "v_" ++ String.ofList (c :: cs) := by
  simp [nonDigitName, h]

theorem C07_variant_name_other (c : Char) (cs : List Char) (h : ¬ ('0' ≤ c ∧ c ≤ '9')) :
    nonDigitName (String.ofList (c :: cs)) = String.ofList (c :: cs) := by
  simp [nonDigitName, h]

/-- typedefs are distinct tuple newtypes named after the alias (except `typedef t t`-style identities, which print nothing) -/
theorem C07_typedef_newtype (a : Ast) (td : Typedef) (h : (td.target == td.alias.unwrapArray) = false) :
    ∃ g sp inner, emitTypeDecl a (.typedef td) = some (.typedef td.alias.unwrapArray.asStr g sp inner) := by
  simp only [emitTypeDecl, h, Bool.false_eq_true, if_false]
  split
  · exact ⟨_, _, _, rfl⟩
  · split <;> exact ⟨_, _, _, rfl⟩

/-! ### rustc's rule "a type parameter is declared iff it is used" (E0392 / E0107), for the emitted types -/

/-- structs: the declaration carries `<T>` exactly when one of its printed field types mentions `T` -/
theorem C07_struct_param_declared_iff_used (items : List Item) (a : Ast) (ha : Ast.ofItems items = .ok a)
    (hnd : (gnames (items.filterMap gitemOf)).Nodup) (s : Struct) (hs : Item.struct s ∈ items)
    (g : Bool) (fs : List (String × TyExpr)) (h : emitTypeDecl a (.struct s) = some (.struct s.name g fs)) :
    g = fs.any (·.2.usesT) := by
  simp only [emitTypeDecl, Option.some.injEq, TypeDecl.struct.injEq, true_and] at h
  obtain ⟨hg, hfs⟩ := h
  rw [← hg, ← hfs, C13.C13_struct_param_iff_used items a ha hnd s hs]
  simp [List.any_map, Function.comp_def]

theorem flatten_any_arms (a : Ast) : ∀ (cs : List UnionCase), (∀ c ∈ cs, c.caseValues ≠ []) →
    ((cs.map fun c => c.caseValues.map fun l => (l, some (armTy a c.fieldValue))).flatten.any
      fun (v : String × Option TyExpr) => match v.2 with | some t => t.usesT | none => false) = cs.any fun c => (armTy a c.fieldValue).usesT := by
  intro cs
  induction cs with
  | nil => intro _; rfl
  | cons c rest ih =>
    intro hne
    have hc := hne c List.mem_cons_self
    simp only [List.map_cons, List.flatten_cons, List.any_append, List.any_cons, List.any_map, Function.comp_def]
    rw [ih (fun c' hc' => hne c' (List.mem_cons_of_mem _ hc'))]
    congr 1
    cases hcv : c.caseValues with
    | nil => exact absurd hcv hc
    | cons l ls => cases (armTy a c.fieldValue).usesT <;> simp

/-- unions: `<T>` exactly when the payload type of some variant (the default's included) mentions `T` -/
theorem C07_union_param_declared_iff_used (items : List Item) (a : Ast) (ha : Ast.ofItems items = .ok a)
    (hnd : (gnames (items.filterMap gitemOf)).Nodup) (u : Union) (hu : Item.union u ∈ items)
    (hne : ∀ c ∈ u.cases, c.caseValues ≠ [])
    (g : Bool) (vs : List (String × Option TyExpr)) (h : emitTypeDecl a (.union u) = some (.union u.name g vs)) :
    g = vs.any (fun v => match v.2 with | some t => t.usesT | none => false) := by
  simp only [emitTypeDecl, Option.some.injEq, TypeDecl.union.injEq, true_and] at h
  obtain ⟨hg, hvs⟩ := h
  rw [← hg, ← hvs, C13.C13_union_param_iff_used items a ha hnd u hu]
  simp only [List.any_append, flatten_any_arms a u.cases hne, List.any_map, Function.comp_def]
  have hv : (u.voidCases.any fun _ => false) = false := by
    induction u.voidCases with
    | nil => rfl
    | cons x xs ih => simp [ih]
  cases u.default with
  | none => simp [hv]
  | some d => simp [hv]


/-- **C07 (the three emitters agree), for every supported specification.**  The decoder emitter, the type emitter and the
    generic index are three pieces of code that must agree for the module to type-check.  For every specification in the
    supported subset whose parameter lists are those of the generic index (`paramsOk`: what `C13_typedef_param_consistent`
    proves of every `Ast` the front end builds), whose integer labels fit the discriminant's type (`labelsTyped`) and whose
    labels give distinct variant names (`variantsDistinct`) — three decidable side conditions `Supported` leaves to rustc,
    evaluated by the driver on every campaign specification — every emitted decoder *fits* the emitted declaration of the
    same name: the same parameter list; struct fields in order, each decode expression of exactly the declared field type
    (`T`, `String`, `name`, `name<T>`, `[_; N]` with the resolved length, `Vec<_>`, `Option<Box<_>>`); every union arm's
    pattern well-typed against the discriminant's Rust type (integer literal in range, `true`/`false`, `c if c == E::V as ty`
    with the right cast) and its payload of its variant's type, the `default(..)` tail included; every enum arm a declared
    member with an in-range discriminant; the newtype's inner type.  `implFits` is the type part of the judgement `outputOk`
    that stands in for rustc (whose agreement with rustc is measured on every compiled batch). -/
theorem C07_decoders_fit_declarations (a : Ast) (m : Module) (hs : Supported a = true) (hp : paramsOk a = true)
    (hl : labelsTyped a = true) (hv : variantsDistinct a = true) (hg : generateModule a = .ok m) :
    m.fromRefMut.all (implFits a m) = true ∧ m.fromBytes.all (implFits a m) = true := by
  have h := decoders_fit hs hp hl hv hg
  have hfam : m.fromBytes = m.fromRefMut := C07_families_identical a m hg
  exact ⟨h, by rw [hfam]; exact h⟩

/-- **C07 (every type written in a declaration resolves).**  For every supported specification (with the front end's parameter
    lists): in every emitted `pub struct` / `pub enum` / newtype, every field, payload and inner type resolves — a primitive, `T`,
    `String`, or a declaration of the same module written with a parameter list exactly when that declaration has one, under
    `[_; N]`, `Vec<_>`, `Option<Box<_>>`.  With `C07_struct/union_param_declared_iff_used` (the parameter is declared iff used)
    and `C07_decoders_fit_declarations` this is the whole *type* part of the judgement `outputOk`; what it leaves is the name
    hygiene (reserved names, finding K9, duplicate names, infinite types), which is a condition on the names the specification
    chooses and is evaluated, not proved. -/
theorem C07_declared_types_resolve (a : Ast) (m : Module) (hs : Supported a = true) (hp : paramsOk a = true)
    (hg : generateModule a = .ok m) : m.types.all (declTypesResolve m) = true :=
  decls_resolve hs hp hg

/-! ### `paramsOk` holds for every `Ast` the front end builds -/

theorem mem_bins {α} (k : String) (v : α) : ∀ (m : List (String × α)) (x : String × α), x ∈ bins k v m → x = (k, v) ∨ x ∈ m := by
  intro m
  induction m with
  | nil => intro x h; simp only [bins, List.mem_singleton] at h; exact Or.inl h
  | cons y ys ih =>
    intro x h
    obtain ⟨k', v'⟩ := y
    simp only [bins] at h
    split at h
    · rcases List.mem_cons.mp h with h | h
      · exact Or.inl h
      · exact Or.inr h
    · split at h
      · rcases List.mem_cons.mp h with h | h
        · exact Or.inl h
        · exact Or.inr (List.mem_cons_of_mem _ h)
      · rcases List.mem_cons.mp h with h | h
        · exact Or.inr (h ▸ List.mem_cons_self)
        · rcases ih x h with h | h
          · exact Or.inl h
          · exact Or.inr (List.mem_cons_of_mem _ h)

theorem mem_foldl_bins {α} : ∀ (es m : List (String × α)) (x : String × α),
    x ∈ es.foldl (fun m kv => bins kv.1 kv.2 m) m → x ∈ es ∨ x ∈ m := by
  intro es
  induction es with
  | nil => intro m x h; exact Or.inr h
  | cons e rest ih =>
    intro m x h
    simp only [List.foldl_cons] at h
    rcases ih _ x h with h | h
    · exact Or.inl (List.mem_cons_of_mem _ h)
    · rcases mem_bins e.1 e.2 m x h with h | h
      · exact Or.inl (h ▸ List.mem_cons_self)
      · exact Or.inr h

/-- every name in the generic index is the name of a struct, union or typedef declaration -/
theorem reach_name {gs : List GItem} {n : String} (h : Reach gs n) : n ∈ gnames gs := by
  cases h with
  | own hm _ => exact List.mem_map.mpr ⟨_, hm, rfl⟩
  | ref hm _ _ => exact List.mem_map.mpr ⟨_, hm, rfl⟩

/-- **the parameter-list hypothesis of `C07_decoders_fit_declarations` is a theorem about the front end**: for every item list
    whose struct / union / typedef names are pairwise distinct and not also the name of an enum, the `Ast` that `Ast::new` builds
    satisfies `paramsOk` (typedefs via `C13_typedef_param_consistent`; an enum is never in the generic index) -/
theorem C07_paramsOk_of_front_end (items : List Item) (a : Ast) (ha : Ast.ofItems items = .ok a)
    (hnd : (gnames (items.filterMap gitemOf)).Nodup)
    (hen : ∀ e, Item.enum e ∈ items → e.name ∉ gnames (items.filterMap gitemOf)) : paramsOk a = true := by
  have hty : a.types = TypeIndex.new items ∧ a.generics = GenericIndex.new items := by
    unfold Ast.ofItems at ha
    cases hc : ConstantIndex.new items with
    | panicAt f m => simp [hc] at ha
    | ok cs => simp only [hc, Out.bind_ok] at ha; cases ha; exact ⟨rfl, rfl⟩
  simp only [paramsOk, List.all_eq_true]
  intro kv hkv
  rw [hty.1, TypeIndex.new] at hkv
  rcases mem_foldl_bins _ _ kv hkv with hmem | hmem
  · obtain ⟨item, hitem, hentry⟩ := List.mem_filterMap.mp hmem
    cases item with
    | constant n v => simp [typeEntry] at hentry
    | struct s => simp only [typeEntry] at hentry; cases hentry; rfl
    | union u => simp only [typeEntry] at hentry; cases hentry; rfl
    | typedef t =>
      simp only [typeEntry] at hentry; cases hentry
      simp only [beq_iff_eq]
      exact C13.C13_typedef_param_consistent items a ha hnd t hitem
    | enum e =>
      simp only [typeEntry] at hentry; cases hentry
      simp only [Bool.not_eq_true', Ast.isGeneric, hty.2]
      cases hc : (GenericIndex.new items).contains e.name with
      | false => rfl
      | true =>
        have hin : e.name ∈ GenericIndex.new items := by simpa using hc
        exact absurd (reach_name ((C13.C13_generics_iff_reach items e.name).mp hin)) (hen e hitem)
  · cases hmem


/-- **C07: the whole type part of the judgement, for every supported specification.**  `outputOk` (the judgement that stands in
    for rustc) is exactly `outputTypesOk && outputHygiene` (`outputOk_split`).  `outputTypesOk` — every declaration resolves and
    carries its parameter iff used, every decoder of both families fits its declaration, the two families are identical, one
    size impl per decoder in the same order — holds for EVERY specification in the supported subset that satisfies the four
    decidable side conditions (`paramsOk`, `paramsUsed`: proved of every `Ast` the front end builds; `labelsTyped`,
    `variantsDistinct`: evaluated per campaign specification).  What is left to evaluation is `outputHygiene`: identifiers,
    reserved names, the K9 bindings, duplicate names, recursion without indirection — conditions on the names a specification
    chooses — and the agreement of the judgement with rustc itself, measured on every compiled batch. -/
theorem C07_types_part (a : Ast) (m : Module) (hs : Supported a = true) (hp : paramsOk a = true) (hu : paramsUsed a = true)
    (hl : labelsTyped a = true) (hv : variantsDistinct a = true) (hg : generateModule a = .ok m) :
    outputTypesOk a m = true ∧ outputOk a m = outputHygiene m := by
  have h1 := declarations_fit hs hp hu hg
  have h2 := (C07_decoders_fit_declarations a m hs hp hl hv hg).1
  have h3 : decide (m.fromBytes = m.fromRefMut) = true := by simp [C07_families_identical a m hg]
  have h4 : ((m.fromRefMut.map (·.name)) == (m.sizes.map (·.name))) = true := by
    obtain ⟨_, hb, hc⟩ := C07_three_impls_per_declaration a m hg
    rw [hb, hc]; exact beq_self_eq_true _
  have ht : outputTypesOk a m = true := by simp only [outputTypesOk, h1, h2, h3, h4, Bool.and_self]
  exact ⟨ht, by rw [outputOk_split, ht, Bool.true_and]⟩

/-- the struct / union half of the parameter hypotheses is a theorem about the front end too -/
theorem C07_paramsUsed_of_front_end (items : List Item) (a : Ast) (ha : Ast.ofItems items = .ok a)
    (hnd : (gnames (items.filterMap gitemOf)).Nodup)
    (hne : ∀ u, Item.union u ∈ items → ∀ c ∈ u.cases, c.caseValues ≠ []) : paramsUsed a = true := by
  have hty : a.types = TypeIndex.new items := by
    unfold Ast.ofItems at ha
    cases hc : ConstantIndex.new items with
    | panicAt f m => simp [hc] at ha
    | ok cs => simp only [hc, Out.bind_ok] at ha; cases ha; rfl
  simp only [paramsUsed, List.all_eq_true]
  intro kv hkv
  rw [hty, TypeIndex.new] at hkv
  rcases mem_foldl_bins _ _ kv hkv with hmem | hmem
  · obtain ⟨item, hitem, hentry⟩ := List.mem_filterMap.mp hmem
    cases item with
    | constant n v => simp [typeEntry] at hentry
    | enum e => simp only [typeEntry] at hentry; cases hentry; rfl
    | typedef t => simp only [typeEntry] at hentry; cases hentry; rfl
    | struct s =>
      simp only [typeEntry] at hentry; cases hentry
      simp only [beq_iff_eq]
      exact C13.C13_struct_param_iff_used items a ha hnd s hitem
    | union u =>
      simp only [typeEntry] at hentry; cases hentry
      simp only [beq_iff_eq]
      exact C07_union_param_declared_iff_used items a ha hnd u hitem (hne u hitem) (a.isGeneric u.name) (unionVariants a u) rfl
  · cases hmem


/-- non-vacuity: `const A = 3; enum e { M = 1 }; struct s { opaque o<A>; unsigned int n; }; typedef unsigned int t;
    union u switch (e d) { case M: s x; }` satisfies all four hypotheses -/
def exAst : Ast :=
  { constants := [("A", .constValue "3"), ("M", .enumValue "e" "M")],
    generics := ["s", "u"],
    types := [("e", .enum ⟨"e", [⟨"M", .numeric 1⟩]⟩),
              ("s", .struct ⟨"s", [⟨"o", .variable .opaque (some (.constant "A")), false⟩, ⟨"n", .none .u32, false⟩]⟩),
              ("t", .typedef ⟨.u32, .none (.ident "t")⟩),
              ("u", .union ⟨"u", [⟨["M"], "x", .none (.ident "s")⟩], none, [], ⟨"d", .ident "e"⟩⟩)] }

example : Supported exAst = true ∧ paramsOk exAst = true ∧ paramsUsed exAst = true ∧ labelsTyped exAst = true ∧ variantsDistinct exAst = true := by decide

end Fx.C07
