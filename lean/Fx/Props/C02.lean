/-
  C02 — wire_size() equals the encoded length of the value.
  (first instalment: alignment of encodings and the blanket size rules at value level;
   `C02_consumed_all` / `C02_size_exact` follow in Fx/Props/C02 as the emitter lemmas land)
-/
import Fx.Eval
import Fx.Lemmas.Enc
namespace Fx.C02
open Fx

/-- RFC 4506 §3: every encoding is a multiple of four bytes -/
theorem C02_enc_aligned (x : XVal) : x.enc.length % 4 = 0 := XVal.enc_len_mod4 x

/-- the blanket `WireSize` impls on decoded values: `Vec`, `[T; n]`, `Option<Box<T>>`, `String`, `Bytes`, scalars -/
theorem C02_ws_blanket (p : Plans) (xs : Vals) (v : Val) (bs : List Byte) (o : Nat) :
    wsVal p (.vec xs) = 4 + wsSum p xs + padLen (wsSum p xs) ∧
    wsVal p (.arr xs) = wsSum p xs + padLen (wsSum p xs) ∧
    wsVal p .none = 4 ∧ wsVal p (.some v) = 4 + wsVal p v ∧
    wsVal p (.str bs) = 4 + bs.length + padLen bs.length ∧
    wsVal p (.bytes o bs) = bs.length := by
  simp [wsVal, wsString, wsBytes]

/-- sizes of the RFC encodings of the leaf forms agree with those rules -/
theorem C02_leaf_sizes (bs : List Byte) :
    (XVal.str bs).enc.length = 4 + bs.length + padLen bs.length ∧
    (XVal.varOpaque bs).enc.length = 4 + bs.length + padLen bs.length ∧
    (XVal.fixedOpaque bs).enc.length = bs.length + padLen bs.length := by
  simp [XVal.enc]; omega

end Fx.C02
