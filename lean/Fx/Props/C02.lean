/-
  C02 — wire_size() equals the encoded length of the value.
  (first instalment: alignment of encodings and the blanket size rules at value level;
   `C02_consumed_all` / `C02_size_exact` follow in Fx/Props/C02 as the emitter lemmas land)
-/
import Fx.Eval
import Fx.Lemmas.Enc
import Fx.Lemmas.Consumed
import Fx.Lemmas.EmitPlans
namespace Fx.C02
open Fx

/-- RFC 4506 §3: every encoding is a multiple of four bytes -/
theorem C02_enc_aligned (x : XVal) : x.enc.length % 4 = 0 := XVal.enc_len_mod4 x

/-- the blanket `WireSize` impls on decoded values: `Vec`, `[T; n]`, `Option<Box<T>>`, `String`, `Bytes`, scalars -/
theorem C02_ws_blanket (p : Plans) (xs : Vals) (v : Val) (bs : List Byte) (o : Nat) :
    wsVal p (.vec xs) = 4 + wsSum p xs + padLen (wsSum p xs) ∧
    wsVal p (.arr xs) = wsSum p xs + padLen (wsSum p xs) ∧
    wsVal p .none = 4 ∧ wsVal p (.some v) = 4 + wsVal p v ∧
    wsVal p (.str bs) = 4 + bs.length + padLen bs.length ∧
    wsVal p (.bytes o bs) = bs.length := by
  simp [wsVal, wsString, wsBytes]

/-- sizes of the RFC encodings of the leaf forms agree with those rules -/
theorem C02_leaf_sizes (bs : List Byte) :
    (XVal.str bs).enc.length = 4 + bs.length + padLen bs.length ∧
    (XVal.varOpaque bs).enc.length = 4 + bs.length + padLen bs.length ∧
    (XVal.fixedOpaque bs).enc.length = bs.length + padLen bs.length := by
  simp [XVal.enc]; omega

/-- **The decoder consumes exactly the `wire_size()` of what it returns — for ALL byte strings, valid or not.**
    Hypothesis: `Plans.SizeExact'` (decidable, evaluated by the driver for every compiled specification): every emitted
    size impl matches its decoder (false exactly where a bracket-less `opaque` field or an `opaque` union arm occurs —
    finding K1) and union discriminants are one word.  Then every successful decode leaves the cursor advanced by
    `wire_size(v)` bytes, a whole number of words, with the remaining bytes untouched. -/
theorem C02_consumed_all (a : Ast) (p : Plans) (hp : p.SizeExact' = true) (fuel : Nat) (name : String)
    (c : Cur) (v : Val) (c' : Cur) (h : evalImpl a p fuel name c = .ok v c') :
    wsVal p v ≤ c.remaining ∧ c'.off = c.off + wsVal p v ∧ c'.data = c.data.drop (wsVal p v) ∧ wsVal p v % 4 = 0 :=
  (eval_consumed a p hp fuel).1 name c v c' h

/-- **Specification level**: for every `Ast` in the supported subset for which generation succeeds, every type, fuel and
    EVERY byte string: a successful decode consumes exactly `wire_size()` of the value it returns. -/
theorem C02_consumed_all_supported (a : Ast) (m : Module) (hs : Supported a = true) (hg : generateModule a = .ok m)
    (fuel : Nat) (name : String) (c : Cur) (v : Val) (c' : Cur) (h : evalImpl a m.plans fuel name c = .ok v c') :
    wsVal m.plans v ≤ c.remaining ∧ c'.off = c.off + wsVal m.plans v ∧ c'.data = c.data.drop (wsVal m.plans v) ∧
      wsVal m.plans v % 4 = 0 :=
  C02_consumed_all a m.plans (supported_plans hs hg).2 fuel name c v c' h

/-- in particular the element stepping of `read_variable_array` (advance by `wire_size()` of the element decoded from a
    clone) lands exactly where the element's own decoder stopped -/
theorem C02_array_stepping_exact (a : Ast) (p : Plans) (hp : p.SizeExact' = true) (fuel : Nat) (ty : String) (m : Option Nat)
    (c : Cur) (v : Val) (c' : Cur) (h : readVariableArray (evalImpl a p fuel ty) (wsVal p) m c = .ok v c') :
    c'.off = c.off + wsVal p v ∧ c'.data = c.data.drop (wsVal p v) := by
  have := readVariableArray_advBy p (fun c v c' hh => (eval_consumed a p hp fuel).1 ty c v c' hh) h
  exact ⟨this.2.1, this.2.2.1⟩

/-- the K1 sites are exactly where the hypothesis fails: a struct with a bracket-less opaque field is not `SizeExact` -/
theorem C02_defect_bare_opaque :
    (Plans.mk [⟨"s", true, .struct [.plain "o" (.one .opaque)]⟩] [⟨"s", true, .struct [⟨"o", true, false⟩]⟩]).SizeExact = false := by
  decide

/-- … and there the size is short by exactly the 4-byte length prefix (the value `opaque o;` = 1 byte: 8 on the wire, 4 reported) -/
theorem C02_defect_bare_opaque_witness :
    wsVal (Plans.mk [] [⟨"s", true, .struct [⟨"o", true, false⟩]⟩]) (.struct "s" ["o"] (.cons (.bytes 4 [7]) .nil)) = 4 ∧
    (XVal.struct (.cons (.varOpaque [7]) .nil)).enc.length = 8 := by
  decide

/-- non-vacuity of the hypothesis -/
example : (Plans.mk [⟨"s", true, .struct [.plain "o" (.varBytes none), .plain "n" (.one (.prim .u32))]⟩]
    [⟨"s", true, .struct [⟨"o", true, true⟩, ⟨"n", false, false⟩]⟩]).SizeExact' = true := by decide

end Fx.C02
