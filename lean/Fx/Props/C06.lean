/-
  C06 — only declared discriminants are accepted; each selects its own arm.
  (first instalment: strictness of bool / optional marker / enum / union tail, for every word)
-/
import Fx.Eval
import Fx.Xdr
import Fx.Lemmas.Runtime
import Fx.Props.C10
import Fx.Lemmas.Selects
import Fx.Lemmas.Sound
namespace Fx.C06
open Fx

/-- a boolean other than 0/1 is `InvalidBoolean` (all 2^32 words) -/
theorem C06_bool_strict (n : Nat) (h : n < 2^32) (h0 : n ≠ 0) (h1 : n ≠ 1) (o : Nat) (s : List Byte) (l) :
    readBool ⟨o, be32 n ++ s, l⟩ = .err .invalidBoolean l := by
  rw [C10.read_bool_spec n h]; simp [h0, h1]

/-- an optional-data marker other than 0/1 is `UnknownOptionVariant(marker)`: for every emitted struct decoder,
    every position of an optional field, every word -/
theorem C06_marker_strict (a : Ast) (p : Plans) (fuel : Nat) (nm ty : String) (rest : List StructFieldDec)
    (m : Nat) (h : m < 2^32) (h0 : m ≠ 0) (h1 : m ≠ 1) (o : Nat) (s : List Byte) (l) :
    evalFields a p (fuel + 1) (.optional nm ty :: rest) ⟨o, be32 m ++ s, l⟩ = .err (.unknownOptionVariant m) l := by
  simp [evalFields, readU32_be32 m h, h0, h1]

/-- marker 0 is `None` and consumes exactly the marker -/
theorem C06_marker_none (a : Ast) (p : Plans) (fuel : Nat) (nm ty : String) (o : Nat) (s : List Byte) (l) :
    evalFields a p (fuel + 2) [.optional nm ty] ⟨o, be32 0 ++ s, l⟩ = .ok (.cons .none .nil) ⟨o + 4, s, l⟩ := by
  simp [evalFields, readU32_be32 0 (by decide)]

/-- an enum word matching no declared member is `UnknownVariant(word as i32)` -/
theorem C06_enum_strict (a : Ast) (p : Plans) (fuel : Nat) (name : String) (i : Impl) (arms : List (VariantValue × String))
    (hi : p.findImpl name = some i) (hb : i.body = .enum arms) (n : Nat) (hn : n < 2^32) (o : Nat) (s : List Byte) (l)
    (hnone : selectEnum a (.i32 (toSigned 32 n)) arms = none) :
    evalImpl a p (fuel + 1) name ⟨o, be32 n ++ s, l⟩ = .err (.unknownVariant (toSigned 32 n)) l := by
  simp [evalImpl, hi, hb, readI32, Res.map, readU32_be32 n hn, hnone]

/-- a union discriminant that matches no arm, with no default, is `UnknownVariant(d as i32)` -/
theorem C06_union_unknown_rejected (a : Ast) (p : Plans) (fuel : Nat) (name : String) (i : Impl) (u : UnionDec)
    (hi : p.findImpl name = some i) (hb : i.body = .union u) (ht : u.tail = .errUnknown)
    (c : Cur) (d : Val) (c1 : Cur) (hd : evalBasic a p fuel u.disc c = .ok d c1)
    (hnone : selectArm a d u.arms = none) :
    evalImpl a p (fuel + 1) name c = .err (.unknownVariant (asI32 a d)) c1.log := by
  simp [evalImpl, hi, hb, hd, hnone, ht]

/-- strings: the payload is returned iff it is well-formed UTF-8, otherwise `NonUtf8String` -/
theorem C06_utf8 (max : Option Nat) (bs s : List Byte) (hl : bs.length < 2^32)
    (hm : overLimit max bs.length = false) (o : Nat) (l) :
    readString max ⟨o, be32 bs.length ++ (bs ++ zeros (padLen bs.length) ++ s), l⟩ =
      if utf8Valid bs then .ok (.str bs) ⟨o + 4 + (bs.length + padLen bs.length), s, l ++ [.str bs.length]⟩
      else .err .nonUtf8String (l ++ [.str bs.length]) := by
  rw [C10.read_string_spec max bs.length hl]
  have hlen : ¬ (bs ++ zeros (padLen bs.length) ++ s).length < bs.length + padLen bs.length := by simp
  simp only [hm, Bool.false_eq_true, if_false, hlen]
  simp [List.append_assoc]

/-- **C06 (the match selects the declared arm).**  For every supported specification, every union of it and every
    discriminant word `d` its switch type admits: the emitted discriminant decoder reads `d`, and the emitted arm list
    (data arms in declaration order, then void arms, then the tail) selects exactly the arm the specification declares
    for `d` (`selectDeclared`: the labels denoting `d`, by numeral, constant, enum member or TRUE/FALSE; the default
    arm only when no label denotes `d`; nothing — and then the tail is `Err(UnknownVariant)` — when there is no default). -/
theorem C06_match_selects (a : Ast) (m : Module) (hs : Supported a = true) (hg : generateModule a = .ok m) :
    MatchSelects a m.plans :=
  match_selects_of_supported hs hg

/-- run through the whole decoder: a discriminant no arm declares is `Err(UnknownVariant(d as i32))`, whatever follows it -/
theorem C06_undeclared_rejected (a : Ast) (m : Module) (hs : Supported a = true) (hg : generateModule a = .ok m)
    (n : String) (u : Union) (hb : bget n a.types = some (.union u))
    (d : Nat) (hd : discOk a (discKind a u.switch.varType) d = true) (hno : selectDeclared a u d = .noArm)
    (fuel off : Nat) (s : List Byte) (l : List Ev) :
    ∃ l', evalImpl a m.plans (fuel + 3) n ⟨off, be32 d ++ s, l⟩ = .err (.unknownVariant (asI32 a (scrutOf a u d))) l' := by
  have F := sfacts_of_supported hs
  obtain ⟨_, _, h2, _⟩ := generateModule_ok hg
  obtain ⟨i, hi, hemit⟩ := find_impl_of_types a a.types m.fromRefMut h2 F.keys n _ hb
  have hfi : m.plans.findImpl n = some i := by simp only [Module.plans, Plans.findImpl]; exact hi
  simp only [emitImpl] at hemit
  obtain ⟨ud, _, hemit⟩ := G.bind_eq_ok hemit
  cases hemit
  obtain ⟨hdisc, hsel⟩ := match_selects_of_supported hs hg n u _ ud hb hfi rfl d hd
  simp only [hno] at hsel
  obtain ⟨l', e⟩ := hdisc fuel off s l
  exact ⟨l', by simp [evalImpl, hfi, e, hsel.1, hsel.2]⟩

/-- **C06 (only declared discriminants are ever accepted).**  For every supported specification, every declared type and EVERY
    byte string: an accepted input decodes to the documented value of a well-typed XDR value — every enum inside it holds a
    declared member value, every union a discriminant that one of its arms declares (a label, or the default when there is
    one) with the payload of exactly that arm, every optional field a marker 0 or 1, every boolean 0 or 1, every string
    well-formed UTF-8.  Whatever is not of this form is answered `Err` (or not at all: `C04`). -/
theorem C06_accepted_is_declared (a : Ast) (m : Module) (hs : Supported a = true) (hg : generateModule a = .ok m)
    (n : String) (hn : declared a n = true) (fuel : Nat) (c : Cur) (v : Val) (c' : Cur)
    (h : evalImpl a m.plans fuel n c = .ok v c') :
    ∃ x, hasTypeNamed a n x = true ∧ v = reprNamed a n c.off x ∧ c'.off = c.off + x.enc.length :=
  decode_sound hs hg n hn fuel c v c' h

/-- in particular an accepted enum word is a declared value of that enum -/
theorem C06_accepted_enum_is_member (a : Ast) (m : Module) (hs : Supported a = true) (hg : generateModule a = .ok m)
    (n : String) (e : Enum) (hb : bget n a.types = some (.enum e)) (fuel : Nat) (c : Cur) (v : Val) (c' : Cur)
    (h : evalImpl a m.plans fuel n c = .ok v c') :
    ∃ w mem, enumHasValue a e w = true ∧ enumMemberName a e w = some mem ∧ v = .cenum n mem := by
  cases fuel with
  | zero => simp [evalImpl] at h
  | succ k =>
    obtain ⟨w, mem, h1, h2, h3, _⟩ := enum_sound (sd_of_supported hs hg).toRT n e hb k c v c' h
    exact ⟨w, mem, h1, h2, h3⟩

end Fx.C06
