/-
  C08 — opaque data is never copied out of the input buffer.
  (first instalment: the two readers that produce opaque leaves)
-/
import Fx.Eval
import Fx.Lemmas.Advance
namespace Fx.C08
open Fx

/-- `read_bytes`: the payload is a window of the input: same offset as the cursor, bytes = the input's bytes there -/
theorem C08_read_bytes_view (n : Nat) (c : Cur) (v : Val) (c' : Cur) (h : readBytes n c = .ok v c') :
    v = .bytes c.off (c.data.take n) ∧ c.off + n ≤ c.off + c.remaining := by
  obtain ⟨hl, hv, _⟩ := readBytes_ok h
  exact ⟨hv, by omega⟩

/-- `read_variable_bytes`: the payload is the window right after the length word -/
theorem C08_read_variable_bytes_view (m : Option Nat) (c : Cur) (v : Val) (c' : Cur)
    (h : readVariableBytes m c = .ok v c') :
    ∃ n, v = .bytes (c.off + 4) ((c.data.drop 4).take n) ∧ c.off + 4 + n ≤ c.off + c.remaining := by
  unfold readVariableBytes at h
  obtain ⟨n, c1, h1, h2⟩ := Res.bind_eq_ok h
  split at h2
  · cases h2
  · obtain ⟨e, l4, _, _⟩ := readU32_ok h1
    obtain ⟨hl, hv, _⟩ := readBytes_ok h2
    subst e
    refine ⟨n, by simpa using hv, ?_⟩
    simp at hl
    omega

end Fx.C08
