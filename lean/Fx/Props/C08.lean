/-
  C08 — opaque data is never copied out of the input buffer.
  (first instalment: the two readers that produce opaque leaves)
-/
import Fx.Eval
import Fx.Lemmas.Advance
import Fx.Lemmas.Leaves
import Fx.Lemmas.Sound
namespace Fx.C08
open Fx

/-- `read_bytes`: the payload is a window of the input: same offset as the cursor, bytes = the input's bytes there -/
theorem C08_read_bytes_view (n : Nat) (c : Cur) (v : Val) (c' : Cur) (h : readBytes n c = .ok v c') :
    v = .bytes c.off (c.data.take n) ∧ c.off + n ≤ c.off + c.remaining := by
  obtain ⟨hl, hv, _⟩ := readBytes_ok h
  exact ⟨hv, by omega⟩

/-- `read_variable_bytes`: the payload is the window right after the length word -/
theorem C08_read_variable_bytes_view (m : Option Nat) (c : Cur) (v : Val) (c' : Cur)
    (h : readVariableBytes m c = .ok v c') :
    ∃ n, v = .bytes (c.off + 4) ((c.data.drop 4).take n) ∧ c.off + 4 + n ≤ c.off + c.remaining := by
  unfold readVariableBytes at h
  obtain ⟨n, c1, h1, h2⟩ := Res.bind_eq_ok h
  split at h2
  · cases h2
  · obtain ⟨e, l4, _, _⟩ := readU32_ok h1
    obtain ⟨hl, hv, _⟩ := readBytes_ok h2
    subst e
    refine ⟨n, by simpa using hv, ?_⟩
    simp at hl
    omega

/-- **Every opaque leaf of every successfully decoded value is a view of the input**: for ALL byte strings, ALL plans,
    every type and fuel, each `Bytes` inside the result starts at an absolute offset inside the input view,
    ends inside it, and holds exactly the input's bytes at that offset (`Val.LeavesIn`). -/
theorem C08_views (a : Ast) (p : Plans) (fuel : Nat) (name : String) (c : Cur) (v : Val) (c' : Cur)
    (h : evalImpl a p fuel name c = .ok v c') : v.LeavesIn c :=
  (eval_leaves a p fuel).1 name c v c' h

/-- what `LeavesIn` says for one leaf -/
theorem C08_leaf_meaning (c : Cur) (off : Nat) (bs : List Byte) :
    (Val.bytes off bs).LeavesIn c ↔
      (c.off ≤ off ∧ off + bs.length ≤ c.off + c.remaining ∧ bs = (c.data.drop (off - c.off)).take bs.length) := by
  simp [Val.LeavesIn, leafIn]

/-- non-vacuity: a struct holding a counted opaque, decoded from a view that starts at offset 7 -/
example : (Val.struct "s" ["o"] (.cons (.bytes 11 [1, 2]) .nil)).LeavesIn ⟨7, be32 2 ++ [1, 2, 0, 0], []⟩ := by
  simp [Val.LeavesIn, Vals.LeavesIn, leafIn, Cur.remaining, be32]

/-- **C08 at the level of the specification**: for every supported specification, declared type and EVERY accepted byte string,
    the result is the documented value of a well-typed `x` *as laid out from the cursor's offset* — `reprNamed` places every
    opaque leaf at the offset the RFC 4506 encoding of `x` assigns to its bytes (counts, discriminants, markers and padding
    before it included) — and each such leaf is the window of the input at that very offset. -/
theorem C08_leaves_at_wire_offsets (a : Ast) (m : Module) (hs : Supported a = true) (hg : generateModule a = .ok m)
    (n : String) (hn : declared a n = true) (fuel : Nat) (c : Cur) (v : Val) (c' : Cur)
    (h : evalImpl a m.plans fuel n c = .ok v c') :
    (∃ x, hasTypeNamed a n x = true ∧ v = reprNamed a n c.off x) ∧ v.LeavesIn c := by
  obtain ⟨x, hx, hv, _⟩ := decode_sound hs hg n hn fuel c v c' h
  exact ⟨⟨x, hx, hv⟩, C08_views a m.plans fuel n c v c' h⟩

end Fx.C08
