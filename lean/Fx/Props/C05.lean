/-
  C05 — declared maxima and available bytes are enforced.
  (first instalment: reader level, for every buffer)
-/
import Fx.Eval
import Fx.Xdr
import Fx.Lemmas.Runtime
import Fx.Lemmas.Local
import Fx.Lemmas.Fuel
import Fx.Lemmas.Roundtrip
import Fx.Lemmas.Selects
import Fx.Lemmas.Sound
import Fx.Lemmas.Limits
namespace Fx.C05
open Fx

/-- a length above the declared maximum is `InvalidLength`, whatever else is in the buffer -/
theorem C05_over_max_opaque (m n : Nat) (hn : n < 2^32) (h : m < n) (o : Nat) (s : List Byte) (l) :
    readVariableBytes (some m) ⟨o, be32 n ++ s, l⟩ = .err .invalidLength l := by
  simp [readVariableBytes, readU32_be32 n hn, overLimit, h]

theorem C05_over_max_string (m n : Nat) (hn : n < 2^32) (h : m < n) (o : Nat) (s : List Byte) (l) :
    readString (some m) ⟨o, be32 n ++ s, l⟩ = .err .invalidLength l := by
  simp [readString, readVariableBytes, readU32_be32 n hn, overLimit, h]

/-- an element count above the declared maximum is `InvalidLength` before any element is looked at or any memory reserved -/
theorem C05_over_max_array (dec : Cur → Res Val) (ws : Val → Nat) (m n : Nat) (hn : n < 2^32) (h : m < n)
    (o : Nat) (s : List Byte) (l) :
    readVariableArray dec ws (some m) ⟨o, be32 n ++ s, l⟩ = .err .invalidLength l := by
  simp [readVariableArray, readU32_be32 n hn, overLimit, h]

/-- a length that exceeds the bytes present (payload or padding) is `InvalidLength` -/
theorem C05_over_available (max : Option Nat) (n : Nat) (hn : n < 2^32) (o : Nat) (s : List Byte) (l)
    (h : s.length < n + padLen n) :
    (readVariableBytes max ⟨o, be32 n ++ s, l⟩ = .err .invalidLength l) := by
  simp only [readVariableBytes, readU32_be32 n hn, Res.bind_ok]
  split
  · rfl
  · exact readBytes_short n _ h

/-- the comparison is `>`: a length exactly equal to the maximum is accepted -/
theorem C05_at_max_accepted (bs s : List Byte) (hl : bs.length < 2^32) (o : Nat) (l) :
    (readVariableBytes (some bs.length) ⟨o, (XVal.varOpaque bs).enc ++ s, l⟩).isOk = true := by
  simp only [XVal.enc, List.append_assoc, readVariableBytes, readU32_be32 _ hl, Res.bind_ok, overLimit]
  simp only [gt_iff_lt, Nat.lt_irrefl, decide_false, Bool.false_eq_true, if_false]
  rw [← List.append_assoc, readBytes_enc]
  rfl

/-- the bound the emitter passes is the declared one: a literal as written; a constant through the constant
    index (its text read as a decimal `u32`), exactly the value the reference `boundValue` assigns to a decimal constant -/
theorem C05_bound_resolution_literal (a : Ast) (n : Nat) : resolveSize a (.known n) = .ok n := rfl

theorem C05_bound_resolution_constant (a : Ast) (c t : String) (n : Nat)
    (hc : bget c a.constants = some (.constValue t)) (hp : parseU32 t = some n) :
    resolveSize a (.constant c) = .ok n := by
  simp [resolveSize, Ast.getConst, hc, ConstantType.display, hp]

/-- **C05 (no strict prefix of a valid encoding is ever accepted).**  For every supported specification, declared type and
    well-typed value `x`: if the encoding of `x` is cut anywhere before its end (`enc x = pfx ++ t`, `t ≠ []`), the generated
    decoder does not return `Ok` on `pfx` — at any offset, with any budget.
    Proof: an accepted prefix would, by locality, be accepted with the same stopping point on `enc x` itself, but the
    round trip theorem says the decoder stops exactly at the end of `enc x`. -/
theorem C05_no_strict_prefix (a : Ast) (m : Module) (hs : Supported a = true) (hg : generateModule a = .ok m)
    (n : String) (x : XVal) (h : hasTypeNamed a n x = true) (pfx t : List Byte) (hsplit : x.enc = pfx ++ t) (ht : t ≠ [])
    (fuel off : Nat) (l : List Ev) (v : Val) (c' : Cur) :
    evalImpl a m.plans fuel n ⟨off, pfx, l⟩ ≠ .ok v c' := by
  intro hok
  obtain ⟨pre, d, o, r⟩ := (eval_local a m.plans (supported_plans hs hg).2 fuel).1 n _ v c' hok
  simp only at d o
  obtain ⟨l2', e⟩ := r (c'.data ++ t) l
  have henc : pre ++ (c'.data ++ t) = x.enc := by rw [hsplit, d, List.append_assoc]
  rw [henc] at e
  have e1 := evalImpl_fuel_mono a m.plans n ⟨off, x.enc, l⟩ fuel (max fuel (x.fsize + 1)) (Nat.le_max_left _ _)
    (by simp only at e; rw [e]; simp)
  obtain ⟨l', e2⟩ := roundtrip hs hg (match_selects_of_supported hs hg) n x h (max fuel (x.fsize + 1))
    (by have := Nat.le_max_right fuel (x.fsize + 1); omega) off [] l
  simp only [List.append_nil] at e2
  simp only at e
  rw [e1, e] at e2
  injection e2 with _ hc
  injection hc with _ hdata _
  have : t = [] := (List.append_eq_nil_iff.mp hdata).2
  exact ht this

/-- **C05 (nothing above a declared maximum is ever accepted).**  For every supported specification, every declared type and
    EVERY byte string: if the generated decoder returns `Ok(v)`, then `v` is the documented value of a *well-typed* XDR value `x`
    — so every opaque, string and array inside it is within the maximum declared for it (literal or named constant, inline or
    through a typedef: `hasType` checks `withinLimit` at every counted position against the bound the specification declares) and
    holds exactly as many elements as its count says — and the decoder consumed exactly `|enc x|` bytes.
    With `C01_roundtrip_supported` (every well-typed value at or below its maxima IS accepted) this is an exact
    characterisation of what the decoders accept. -/
theorem C05_accepted_is_well_typed (a : Ast) (m : Module) (hs : Supported a = true) (hg : generateModule a = .ok m)
    (n : String) (hn : declared a n = true) (fuel : Nat) (c : Cur) (v : Val) (c' : Cur)
    (h : evalImpl a m.plans fuel n c = .ok v c') :
    ∃ x, hasTypeNamed a n x = true ∧ v = reprNamed a n c.off x ∧ c'.off = c.off + x.enc.length :=
  decode_sound hs hg n hn fuel c v c' h


/-- **C05 (what a declared maximum does, for ALL plans, inputs and budgets).**  `p.eraseMax` is the same module with every
    `Some(max)` handed to `read_variable_bytes` / `read_string` / `read_variable_array` replaced by `None`.  On every input the
    decoder with the maxima either behaves exactly like the one without them — same value, same cursor, same error, same
    allocation log — or returns `Err(Error::InvalidLength)`.  A maximum cannot change a value, move the cursor or produce
    another error kind (Lemmas/Limits: a simulation over the five evaluators and the array loop). -/
theorem C05_limits_only_reject (a : Ast) (p : Plans) (fuel : Nat) (name : String) (c : Cur) :
    evalImpl a p fuel name c = evalImpl a p.eraseMax fuel name c ∨ ∃ l, evalImpl a p fuel name c = .err .invalidLength l :=
  limits_only_reject a p fuel name c

/-- **C05 (the error kind, at specification level).**  For every supported specification and every declared type: an input on
    which the decoder *without* the maxima would return `Ok(v)`, where `v` is not the documented value of any XDR value within
    the declared maxima (an opaque, string or array anywhere inside it is longer than the specification allows), is rejected
    by the generated decoder, and the rejection is `Err(Error::InvalidLength)`.  (`C05_limits_only_reject` says the outcome is
    the unbounded one or `InvalidLength`; `C05_accepted_is_well_typed` excludes the unbounded one.) -/
theorem C05_over_max_is_invalid_length (a : Ast) (m : Module) (hs : Supported a = true) (hg : generateModule a = .ok m)
    (n : String) (hn : declared a n = true) (fuel : Nat) (c : Cur) (v : Val) (c' : Cur)
    (hun : evalImpl a m.plans.eraseMax fuel n c = .ok v c')
    (hover : ¬ ∃ x, hasTypeNamed a n x = true ∧ v = reprNamed a n c.off x) :
    ∃ l, evalImpl a m.plans fuel n c = .err .invalidLength l := by
  rcases limits_only_reject a m.plans fuel n c with heq | hl
  · rw [hun] at heq
    obtain ⟨x, hx, hv, _⟩ := decode_sound hs hg n hn fuel c v c' heq
    exact absurd ⟨x, hx, hv⟩ hover
  · exact hl

/-- an instance by evaluation (a test): `struct s { opaque o<2>; }` on a 3-byte payload — `InvalidLength` with the maximum,
    the 3-byte value without it -/
example :
    let p : Plans := ⟨[⟨"s", true, .struct [.plain "o" (.varBytes (some 2))]⟩], []⟩
    (match evalImpl ⟨[], [], []⟩ p 9 "s" ⟨0, be32 3 ++ [1, 2, 3, 0], []⟩ with
     | .err .invalidLength _ => true | _ => false) = true ∧
    (match evalImpl ⟨[], [], []⟩ p.eraseMax 9 "s" ⟨0, be32 3 ++ [1, 2, 3, 0], []⟩ with
     | .ok (.struct "s" _ (.cons (.bytes 4 [1, 2, 3]) .nil)) c => c.off == 8 | _ => false) = true := by decide

/-- the reference's reading of a bounded position: at most `max` items (here for an opaque; strings and arrays alike) -/
example (a : Ast) : varHasType a (some 3) .opaque (.varOpaque [1, 2, 3]) = true ∧ varHasType a (some 3) .opaque (.varOpaque [1, 2, 3, 4]) = false := by
  constructor <;> (rw [varHasType.eq_def]; simp [withinLimit])

end Fx.C05
