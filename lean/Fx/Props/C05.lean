/-
  C05 — declared maxima and available bytes are enforced.
  (first instalment: reader level, for every buffer)
-/
import Fx.Eval
import Fx.Xdr
import Fx.Lemmas.Runtime
namespace Fx.C05
open Fx

/-- a length above the declared maximum is `InvalidLength`, whatever else is in the buffer -/
theorem C05_over_max_opaque (m n : Nat) (hn : n < 2^32) (h : m < n) (o : Nat) (s : List Byte) (l) :
    readVariableBytes (some m) ⟨o, be32 n ++ s, l⟩ = .err .invalidLength l := by
  simp [readVariableBytes, readU32_be32 n hn, overLimit, h]

theorem C05_over_max_string (m n : Nat) (hn : n < 2^32) (h : m < n) (o : Nat) (s : List Byte) (l) :
    readString (some m) ⟨o, be32 n ++ s, l⟩ = .err .invalidLength l := by
  simp [readString, readVariableBytes, readU32_be32 n hn, overLimit, h]

/-- an element count above the declared maximum is `InvalidLength` before any element is looked at or any memory reserved -/
theorem C05_over_max_array (dec : Cur → Res Val) (ws : Val → Nat) (m n : Nat) (hn : n < 2^32) (h : m < n)
    (o : Nat) (s : List Byte) (l) :
    readVariableArray dec ws (some m) ⟨o, be32 n ++ s, l⟩ = .err .invalidLength l := by
  simp [readVariableArray, readU32_be32 n hn, overLimit, h]

/-- a length that exceeds the bytes present (payload or padding) is `InvalidLength` -/
theorem C05_over_available (max : Option Nat) (n : Nat) (hn : n < 2^32) (o : Nat) (s : List Byte) (l)
    (h : s.length < n + padLen n) :
    (readVariableBytes max ⟨o, be32 n ++ s, l⟩ = .err .invalidLength l) := by
  simp only [readVariableBytes, readU32_be32 n hn, Res.bind_ok]
  split
  · rfl
  · exact readBytes_short n _ h

/-- the comparison is `>`: a length exactly equal to the maximum is accepted -/
theorem C05_at_max_accepted (bs s : List Byte) (hl : bs.length < 2^32) (o : Nat) (l) :
    (readVariableBytes (some bs.length) ⟨o, (XVal.varOpaque bs).enc ++ s, l⟩).isOk = true := by
  simp only [XVal.enc, List.append_assoc, readVariableBytes, readU32_be32 _ hl, Res.bind_ok, overLimit]
  simp only [gt_iff_lt, Nat.lt_irrefl, decide_false, Bool.false_eq_true, if_false]
  rw [← List.append_assoc, readBytes_enc]
  rfl

/-- the bound the emitter passes is the declared one: a literal as written; a constant through the constant
    index (its text read as a decimal `u32`), exactly the value the reference `boundValue` assigns to a decimal constant -/
theorem C05_bound_resolution_literal (a : Ast) (n : Nat) : resolveSize a (.known n) = .ok n := rfl

theorem C05_bound_resolution_constant (a : Ast) (c t : String) (n : Nat)
    (hc : bget c a.constants = some (.constValue t)) (hp : parseU32 t = some n) :
    resolveSize a (.constant c) = .ok n := by
  simp [resolveSize, Ast.getConst, hc, ConstantType.display, hp]

end Fx.C05
