/-
  C11 — code generation is a pure function of the declarations.
  Determinism is definitional for the Lean functions; what the theorems add is order-independence
  of the three indexes, i.e. that the *declaration set* determines the `Ast` the emitters see.
-/
import Fx.Index
import Fx.Lemmas.Generic
import Fx.Props.C13
import Fx.Lemmas.Membership
import Fx.Props.C12
namespace Fx.C11
open Fx

theorem tri (a b : String) : a < b ∨ a = b ∨ b < a := by
  by_cases h : a < b
  · exact Or.inl h
  · have h1 := String.not_lt.mp h
    by_cases h2 : b < a
    · exact Or.inr (Or.inr h2)
    · have h3 := String.not_lt.mp h2
      exact Or.inr (Or.inl (String.le_antisymm h3 h1))

theorem ne_of_lt' {a b : String} (h : a < b) : a ≠ b := by
  intro e; subst e; exact String.lt_irrefl a h
theorem ne_of_gt' {a b : String} (h : a < b) : b ≠ a := fun e => ne_of_lt' h e.symm

/-- `BTreeMap::insert` of two different keys commutes — on any list -/
theorem bins_comm {α} (k1 k2 : String) (v1 v2 : α) (hne : k1 ≠ k2) (l : List (String × α)) :
    bins k1 v1 (bins k2 v2 l) = bins k2 v2 (bins k1 v1 l) := by
  induction l with
  | nil =>
    simp only [bins]
    rcases tri k1 k2 with h | h | h
    · have := String.lt_asymm h
      simp [h, this, hne, Ne.symm hne, bins]
    · exact absurd h hne
    · have := String.lt_asymm h
      simp [h, this, hne, Ne.symm hne, bins]
  | cons hd t ih =>
    obtain ⟨k', v'⟩ := hd
    have a12 := @String.lt_asymm k1 k2
    have a21 := @String.lt_asymm k2 k1
    have a1 := @String.lt_asymm k1 k'
    have a1' := @String.lt_asymm k' k1
    have a2 := @String.lt_asymm k2 k'
    have a2' := @String.lt_asymm k' k2
    have t12 := @String.lt_trans k1 k2 k'
    have t21 := @String.lt_trans k2 k1 k'
    have t1k2 := @String.lt_trans k1 k' k2
    have t2k1 := @String.lt_trans k2 k' k1
    have ir1 := String.lt_irrefl k1
    have ir2 := String.lt_irrefl k2
    have irk := String.lt_irrefl k'
    have hne' := Ne.symm hne
    have n1 := @ne_of_lt' k1 k'
    have n1' := @ne_of_gt' k1 k'
    have n2 := @ne_of_lt' k2 k'
    have n2' := @ne_of_gt' k2 k'
    have n3 := @ne_of_lt' k' k1
    have n3' := @ne_of_gt' k' k1
    have n4 := @ne_of_lt' k' k2
    have n4' := @ne_of_gt' k' k2
    rcases tri k1 k' with h1 | h1 | h1 <;> rcases tri k2 k' with h2 | h2 | h2 <;>
      rcases tri k1 k2 with h12 | h12 | h12 <;>
      first
        | exact absurd h12 hne
        | (subst_vars; simp [bins, *]; done)
        | (simp [bins, *]; done)
        | (exfalso; grind)
        | (subst_vars; exfalso; grind)

theorem foldl_bins_perm {α} {l1 l2 : List (String × α)} (hp : l1.Perm l2)
    (hd : l1.Pairwise (fun a b => a.1 ≠ b.1)) (m : List (String × α)) :
    l1.foldl (fun m kv => bins kv.1 kv.2 m) m = l2.foldl (fun m kv => bins kv.1 kv.2 m) m := by
  induction hp generalizing m with
  | nil => rfl
  | cons x _ ih =>
    simp only [List.foldl_cons]
    exact ih (List.pairwise_cons.mp hd).2 _
  | swap x y l =>
    simp only [List.foldl_cons]
    have hxy : y.1 ≠ x.1 := by
      have := (List.pairwise_cons.mp hd).1 x (by simp)
      exact this
    rw [bins_comm x.1 y.1 x.2 y.2 (Ne.symm hxy)]
  | trans h1 _ ih1 ih2 =>
    rw [ih1 hd, ih2 ((h1.pairwise_iff (fun {a b} h => Ne.symm h)).mp hd)]

/-- the type index does not depend on the order of the declarations (distinct names) -/
theorem C11_type_index_order_independent {items items' : List Item} (hp : items.Perm items')
    (hd : (items.filterMap typeEntry).Pairwise (fun a b => a.1 ≠ b.1)) :
    TypeIndex.new items = TypeIndex.new items' := by
  unfold TypeIndex.new
  exact foldl_bins_perm (hp.filterMap typeEntry) hd []

/-- nor does membership in the generic index (no hypothesis at all: any order, duplicates, cycles) -/
theorem C11_generic_index_order_independent {items items' : List Item} (hp : items.Perm items') (n : String) :
    n ∈ GenericIndex.new items ↔ n ∈ GenericIndex.new items' :=
  C13.C13_order_independent (hp.filterMap gitemOf) n

/-- on fresh, pairwise different keys `ConstantIndex::new` is the plain fold of `BTreeMap::insert` -/
theorem constInsertAll_eq_foldl (es : List (String × ConstantType)) (m : List (String × ConstantType))
    (hnd : (es.map (·.1)).Nodup) (hfresh : ∀ e ∈ es, bhas e.1 m = false) :
    constInsertAll es m = .ok (es.foldl (fun m kv => bins kv.1 kv.2 m) m) := by
  induction es generalizing m with
  | nil => rfl
  | cons e rest ih =>
    obtain ⟨k, v⟩ := e
    simp only [constInsertAll]
    have h0 : bhas k m = false := hfresh (k, v) List.mem_cons_self
    simp only [h0, Bool.false_eq_true, if_false, List.foldl_cons]
    simp only [List.map_cons, List.nodup_cons] at hnd
    apply ih _ hnd.2
    intro e he
    have hne : e.1 ≠ k := by
      intro heq
      apply hnd.1
      rw [← heq]
      exact List.mem_map_of_mem he
    have := hfresh e (List.mem_cons_of_mem _ he)
    unfold bhas at this ⊢
    rw [Fx.C12.bget_bins_other k e.1 v m hne]; exact this

def itemConstEntries : Item → List (String × ConstantType)
  | .constant n v => [(n, .constValue v)]
  | .enum e => e.variants.map (fun v => (v.name, ConstantType.enumValue e.name v.name))
  | _ => []

theorem constEntries_eq_flatMap : ∀ (items : List Item), constEntries items = items.flatMap itemConstEntries := by
  intro items
  induction items with
  | nil => rfl
  | cons it rest ih =>
    cases it <;> simp [constEntries, itemConstEntries, List.flatMap_cons, ih]

/-- the constant index does not depend on the order of the declarations (no name declared twice; with a duplicate it panics
    in every order — K6.d) -/
theorem C11_constant_index_order_independent {items items' : List Item} (hp : items.Perm items')
    (hd : ((constEntries items).map (·.1)).Nodup) :
    ConstantIndex.new items = ConstantIndex.new items' := by
  have hperm : (constEntries items).Perm (constEntries items') := by
    rw [constEntries_eq_flatMap, constEntries_eq_flatMap]
    exact hp.flatMap_right itemConstEntries
  have hd' : ((constEntries items').map (·.1)).Nodup := (hperm.map (·.1)).nodup_iff.mp hd
  unfold ConstantIndex.new
  rw [constInsertAll_eq_foldl _ [] hd (fun _ _ => rfl), constInsertAll_eq_foldl _ [] hd' (fun _ _ => rfl)]
  congr 1
  apply foldl_bins_perm hperm
  have := List.nodup_iff_pairwise_ne.mp hd
  exact (List.pairwise_map.mp this)

/-- **C11 (declaration order).**  Reordering the top-level declarations in any way — forward references, cycles and all —
    leaves the generated module unchanged: the three indexes determine the same constants and types and the same *set* of
    generic names, and the emitters consult the generic index only through membership (`generateModule_membership_only`),
    so not even the iteration order of the real `HashSet` can show.  (Names declared once; duplicates are K6.d / rustc errors.) -/
theorem C11_generate_order_independent {items items' : List Item} (hp : items.Perm items')
    (hdT : (items.filterMap typeEntry).Pairwise (fun a b => a.1 ≠ b.1))
    (hdC : ((constEntries items).map (·.1)).Nodup)
    (a a' : Ast) (ha : Ast.ofItems items = .ok a) (ha' : Ast.ofItems items' = .ok a') :
    generateModule a = generateModule a' := by
  have hc := C11_constant_index_order_independent hp hdC
  have ht := C11_type_index_order_independent hp hdT
  unfold Ast.ofItems at ha ha'
  cases h1 : ConstantIndex.new items with
  | panicAt f m => simp [h1] at ha
  | ok cs =>
    rw [← hc, h1] at ha'
    simp only [h1, Out.bind_ok] at ha ha'
    cases ha; cases ha'
    rw [← ht]
    apply generateModule_membership_only
    intro n
    have := C11_generic_index_order_independent hp n
    rw [Bool.eq_iff_iff]
    simpa using this

/-- non-vacuity -/
example : TypeIndex.new [.enum ⟨"b", []⟩, .enum ⟨"a", []⟩] = TypeIndex.new [.enum ⟨"a", []⟩, .enum ⟨"b", []⟩] := by decide

/-! ### layout: white space and comments between tokens -/

/-- **C11 (the one place where layout is consumed).**  The implicit skip that pest inserts between the parts of a sequence and
    between repetitions consumes exactly a layout — any run of blanks, tabs and line ends, then any number of block or line
    comments each followed by such a run — whatever follows it. -/
theorem C11_skip_absorbs_layout (l : Parse.Layout) (p : Nat) (r : List Char) (hl : l.ok = true) (hr : Parse.NoLayoutStart r) :
    ∃ f ts, Peg.skip Grammar.xdr f ⟨p, l.text ++ r⟩ = .ok ⟨p + l.text.length, r⟩ ts :=
  Parse.skOk_layout l p r hl hr

/-- **C11 (layout).**  Two well-formed texts of the same declarations — the same tokens in the same order, with any layouts
    at the gaps (`s.norm = s'.norm`) — give the same `Ast::new` result, hence (the generator is a function of the `Ast`) the
    same generated module.  Proved through the parser model: every well-formed text is accepted with the token tree of its
    declarations (`C12_parse_complete`, rule by rule over the grammar regenerated from `src/xdr.pest`, using the budget-free
    big-step rules of `Fx.Lemmas.PegRel`), and `walk` reads only rule names, shapes and the leaf texts (`Parse.walk_sim`). -/
theorem C11_layout_insensitive (s s' : Parse.Spec) (h : s.ok = true) (h' : s'.ok = true) (hn : s.norm = s'.norm) :
    Ast.new (String.ofList s.text) = .outOfFuel ∨ Ast.new (String.ofList s'.text) = .outOfFuel ∨
    Ast.new (String.ofList s.text) = Ast.new (String.ofList s'.text) := by
  rcases C12.C12_ast_from_declarations s h with h1 | h1
  · exact .inl h1
  · rcases C12.C12_ast_from_declarations s' h' with h2 | h2
    · exact .inr (.inl h2)
    · exact .inr (.inr (by rw [h1, h2, hn]))

section examples

/-- **layout-insensitive, with no budget in the statement**: two well-formed texts of the same declarations give the same
    `Ast::new` result — same AST, same `Err`, or the same panic (`Ast.newLim`, Lemmas/PegLimit, is `Ast.new` wherever that
    answers) -/
theorem C11_layout_insensitive_total (s s' : Parse.Spec) (h : s.ok = true) (h' : s'.ok = true) (hn : s.norm = s'.norm) :
    Ast.newLim (String.ofList s.text) = Ast.newLim (String.ofList s'.text) := by
  rw [C12.C12_ast_from_declarations_total s h, C12.C12_ast_from_declarations_total s' h', hn]

/-! ### declaration order, from the text -/

/-- all results in order, or the first panic -/
def seqOut {β} : List (Out β) → Out (List β)
  | [] => .ok []
  | x :: xs => x.bind fun b => (seqOut xs).bind fun bs => .ok (b :: bs)

theorem mapOut_eq_seqOut {α β} (f : α → Out β) : ∀ (l : List α), mapOut f l = seqOut (l.map f)
  | [] => rfl
  | a :: as => by simp only [mapOut, List.map_cons, seqOut, mapOut_eq_seqOut f as]

theorem seqOut_cons_ok {β} {x : Out β} {xs : List (Out β)} {r : List β} (h : seqOut (x :: xs) = .ok r) :
    ∃ b bs, x = .ok b ∧ seqOut xs = .ok bs ∧ r = b :: bs := by
  simp only [seqOut] at h
  cases x with
  | panicAt f m => simp at h
  | ok b =>
    simp only [Out.bind_ok] at h
    cases hs : seqOut xs with
    | panicAt f m => simp [hs] at h
    | ok bs => simp only [hs, Out.bind_ok] at h; cases h; exact ⟨b, bs, rfl, rfl, rfl⟩

/-- when every element succeeds, a permutation of the arguments gives the same results, permuted -/
theorem seqOut_perm {β} {xs ys : List (Out β)} (hp : xs.Perm ys) :
    ∀ r, seqOut xs = .ok r → ∃ r', seqOut ys = .ok r' ∧ r.Perm r' := by
  induction hp with
  | nil => intro r h; exact ⟨r, h, List.Perm.refl _⟩
  | cons x _ ih =>
    intro r h
    obtain ⟨b, bs, rfl, hbs, rfl⟩ := seqOut_cons_ok h
    obtain ⟨bs', hbs', hp'⟩ := ih bs hbs
    exact ⟨b :: bs', by simp [seqOut, hbs'], List.Perm.cons _ hp'⟩
  | swap x y l =>
    intro r h
    obtain ⟨b, bs, rfl, hbs, rfl⟩ := seqOut_cons_ok h
    obtain ⟨c, cs, rfl, hcs, rfl⟩ := seqOut_cons_ok hbs
    exact ⟨c :: b :: cs, by simp [seqOut, hcs], List.Perm.swap _ _ _⟩
  | trans _ _ ih1 ih2 =>
    intro r h
    obtain ⟨r1, h1, p1⟩ := ih1 r h
    obtain ⟨r2, h2, p2⟩ := ih2 r1 h1
    exact ⟨r2, h2, p1.trans p2⟩

theorem itemsOf_eq_seqOut : ∀ (ns : List Node), itemsOf ns = (seqOut (ns.map itemOf)).bind fun os => .ok (os.filterMap id)
  | [] => rfl
  | n :: ns => by
    simp only [itemsOf, List.map_cons, seqOut, itemsOf_eq_seqOut ns]
    cases itemOf n with
    | panicAt f m => rfl
    | ok o =>
      simp only [Out.bind_ok]
      cases seqOut (ns.map itemOf) with
      | panicAt f m => rfl
      | ok os => cases o <;> rfl

theorem itemsOf_perm {ns ns' : List Node} (hp : ns.Perm ns') (items : List Item) (h : itemsOf ns = .ok items) :
    ∃ items', itemsOf ns' = .ok items' ∧ items.Perm items' := by
  rw [itemsOf_eq_seqOut] at h ⊢
  cases hs : seqOut (ns.map itemOf) with
  | panicAt f m => simp [hs] at h
  | ok os =>
    simp only [hs, Out.bind_ok] at h
    cases h
    obtain ⟨os', hos', hpo⟩ := seqOut_perm (hp.map itemOf) os hs
    exact ⟨os'.filterMap id, by simp [hos'], hpo.filterMap id⟩

/-- **C11 from the text: declaration order does not matter.**  Two well-formed texts (any layouts) whose declarations are
    the same up to order — the node lists their declarations determine are permutations of each other — and whose type,
    constant and enum-member names are declared once: if `Ast::new` answers `Ok` for one it answers `Ok` for the other, and
    `Generator::generate` produces the same module for both.  (Budget-free front end `Ast.newLim`, the executable `Ast.new`
    wherever that answers; `C12_ast_closed_form_total`, `seqOut_perm`, `C11_generate_order_independent`.) -/
theorem C11_text_order_independent (s s' : Parse.Spec) (h : s.ok = true) (h' : s'.ok = true)
    (hperm : (s.decls.map fun dl => dl.1.node).Perm (s'.decls.map fun dl => dl.1.node))
    (ns : List Node) (items : List Item) (a : Ast)
    (hns : mapOut (fun dl : Parse.Decl × Parse.Layout => dl.1.node) s.decls = .ok ns)
    (hitems : itemsOf (ns ++ [.eof]) = .ok items) (ha : Ast.ofItems items = .ok a)
    (hdT : (items.filterMap typeEntry).Pairwise (fun x y => x.1 ≠ y.1))
    (hdC : ((constEntries items).map (·.1)).Nodup) :
    Ast.newLim (String.ofList s.text) = .ok a ∧
    ∃ a', Ast.newLim (String.ofList s'.text) = .ok a' ∧ generateModule a' = generateModule a := by
  have e1 := C12.C12_ast_closed_form_total s h
  have e2 := C12.C12_ast_closed_form_total s' h'
  simp only [hns, Out.bind_ok, hitems, ha] at e1
  refine ⟨e1, ?_⟩
  rw [mapOut_eq_seqOut] at hns
  have hpm : (s.decls.map fun dl : Parse.Decl × Parse.Layout => dl.1.node).Perm (s'.decls.map fun dl => dl.1.node) := hperm
  obtain ⟨ns', hns', hpn⟩ := seqOut_perm hpm ns hns
  obtain ⟨items', hitems', hpi⟩ := itemsOf_perm (hpn.append_right [Node.eof]) items hitems
  have hc := C11_constant_index_order_independent hpi hdC
  have hof : ∃ a', Ast.ofItems items' = .ok a' := by
    unfold Ast.ofItems at ha ⊢
    cases h1 : ConstantIndex.new items with
    | panicAt f m => simp [h1] at ha
    | ok cs => rw [← hc, h1]; exact ⟨_, rfl⟩
  obtain ⟨a', ha'⟩ := hof
  rw [mapOut_eq_seqOut] at e2
  simp only [hns', Out.bind_ok, hitems', ha'] at e2
  exact ⟨a', e2, (C11_generate_order_independent hpi hdT hdC a a' ha ha').symm⟩


open Parse

private def sp : Layout := ⟨[' '], []⟩

/-- `const A = 1;\nstruct s { unsigned   int x<3>; /* c */ };` -/
def exA : Spec := ⟨nl, [
  (.const ⟨sp, ['A'], sp, sp, ['1'], nl⟩, ⟨['\n'], []⟩),
  (.struct ⟨sp, ['s'], sp, sp,
     [(⟨.prim (.uint [' ', ' ', ' ']) [' '], nl, none, ['x'], nl, some (.var nl (some (.num ['3'], nl)), nl)⟩,
       ⟨[' '], [(.long [' ', 'c', ' '], [' '])]⟩)], nl⟩, nl)]⟩

/-- the same declarations, laid out differently: comments before, between and inside, a line comment, tabs -/
def exB : Spec := ⟨⟨[], [(.short ['h', 'i'], ['\n'])]⟩, [
  (.const ⟨⟨['\t'], []⟩, ['A'], nl, ⟨[], [(.long ['*'], [])]⟩, ['1'], sp⟩, nl),
  (.struct ⟨⟨['\n', ' '], []⟩, ['s'], nl, ⟨['\r', '\n'], []⟩,
     [(⟨.prim (.uint ['\n']) ['\t'], ⟨[], [(.long [], [])]⟩, none, ['x'], sp, some (.var sp (some (.num ['3'], sp)), sp)⟩, nl)], sp⟩,
   ⟨['\n'], []⟩)]⟩

example : exA.ok = true ∧ exB.ok = true := by decide
example : String.ofList exA.text = "const A = 1;\nstruct s { unsigned   int x<3>; /* c */ };" := by decide
example : String.ofList exB.text = "//hi\nconst\tA=/***/1 ;struct\n s{\r\nunsigned\nint\t/**/x < 3 > ;} ;\n" := by decide
example : exA.norm = exB.norm := rfl
end examples

end Fx.C11
