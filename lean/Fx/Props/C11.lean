/-
  C11 — code generation is a pure function of the declarations.
  Determinism is definitional for the Lean functions; what the theorems add is order-independence
  of the three indexes, i.e. that the *declaration set* determines the `Ast` the emitters see.
-/
import Fx.Index
import Fx.Lemmas.Generic
import Fx.Props.C13
namespace Fx.C11
open Fx

theorem tri (a b : String) : a < b ∨ a = b ∨ b < a := by
  by_cases h : a < b
  · exact Or.inl h
  · have h1 := String.not_lt.mp h
    by_cases h2 : b < a
    · exact Or.inr (Or.inr h2)
    · have h3 := String.not_lt.mp h2
      exact Or.inr (Or.inl (String.le_antisymm h3 h1))

theorem ne_of_lt' {a b : String} (h : a < b) : a ≠ b := by
  intro e; subst e; exact String.lt_irrefl a h
theorem ne_of_gt' {a b : String} (h : a < b) : b ≠ a := fun e => ne_of_lt' h e.symm

/-- `BTreeMap::insert` of two different keys commutes — on any list -/
theorem bins_comm {α} (k1 k2 : String) (v1 v2 : α) (hne : k1 ≠ k2) (l : List (String × α)) :
    bins k1 v1 (bins k2 v2 l) = bins k2 v2 (bins k1 v1 l) := by
  induction l with
  | nil =>
    simp only [bins]
    rcases tri k1 k2 with h | h | h
    · have := String.lt_asymm h
      simp [h, this, hne, Ne.symm hne, bins]
    · exact absurd h hne
    · have := String.lt_asymm h
      simp [h, this, hne, Ne.symm hne, bins]
  | cons hd t ih =>
    obtain ⟨k', v'⟩ := hd
    have a12 := @String.lt_asymm k1 k2
    have a21 := @String.lt_asymm k2 k1
    have a1 := @String.lt_asymm k1 k'
    have a1' := @String.lt_asymm k' k1
    have a2 := @String.lt_asymm k2 k'
    have a2' := @String.lt_asymm k' k2
    have t12 := @String.lt_trans k1 k2 k'
    have t21 := @String.lt_trans k2 k1 k'
    have t1k2 := @String.lt_trans k1 k' k2
    have t2k1 := @String.lt_trans k2 k' k1
    have ir1 := String.lt_irrefl k1
    have ir2 := String.lt_irrefl k2
    have irk := String.lt_irrefl k'
    have hne' := Ne.symm hne
    have n1 := @ne_of_lt' k1 k'
    have n1' := @ne_of_gt' k1 k'
    have n2 := @ne_of_lt' k2 k'
    have n2' := @ne_of_gt' k2 k'
    have n3 := @ne_of_lt' k' k1
    have n3' := @ne_of_gt' k' k1
    have n4 := @ne_of_lt' k' k2
    have n4' := @ne_of_gt' k' k2
    rcases tri k1 k' with h1 | h1 | h1 <;> rcases tri k2 k' with h2 | h2 | h2 <;>
      rcases tri k1 k2 with h12 | h12 | h12 <;>
      first
        | exact absurd h12 hne
        | (subst_vars; simp [bins, *]; done)
        | (simp [bins, *]; done)
        | (exfalso; grind)
        | (subst_vars; exfalso; grind)

theorem foldl_bins_perm {α} {l1 l2 : List (String × α)} (hp : l1.Perm l2)
    (hd : l1.Pairwise (fun a b => a.1 ≠ b.1)) (m : List (String × α)) :
    l1.foldl (fun m kv => bins kv.1 kv.2 m) m = l2.foldl (fun m kv => bins kv.1 kv.2 m) m := by
  induction hp generalizing m with
  | nil => rfl
  | cons x _ ih =>
    simp only [List.foldl_cons]
    exact ih (List.pairwise_cons.mp hd).2 _
  | swap x y l =>
    simp only [List.foldl_cons]
    have hxy : y.1 ≠ x.1 := by
      have := (List.pairwise_cons.mp hd).1 x (by simp)
      exact this
    rw [bins_comm x.1 y.1 x.2 y.2 (Ne.symm hxy)]
  | trans h1 _ ih1 ih2 =>
    rw [ih1 hd, ih2 ((h1.pairwise_iff (fun {a b} h => Ne.symm h)).mp hd)]

/-- the type index does not depend on the order of the declarations (distinct names) -/
theorem C11_type_index_order_independent {items items' : List Item} (hp : items.Perm items')
    (hd : (items.filterMap typeEntry).Pairwise (fun a b => a.1 ≠ b.1)) :
    TypeIndex.new items = TypeIndex.new items' := by
  unfold TypeIndex.new
  exact foldl_bins_perm (hp.filterMap typeEntry) hd []

/-- nor does membership in the generic index (no hypothesis at all: any order, duplicates, cycles) -/
theorem C11_generic_index_order_independent {items items' : List Item} (hp : items.Perm items') (n : String) :
    n ∈ GenericIndex.new items ↔ n ∈ GenericIndex.new items' :=
  C13.C13_order_independent (hp.filterMap gitemOf) n

/-- non-vacuity -/
example : TypeIndex.new [.enum ⟨"b", []⟩, .enum ⟨"a", []⟩] = TypeIndex.new [.enum ⟨"a", []⟩, .enum ⟨"b", []⟩] := by decide

end Fx.C11
