/-
  C03 — both decoder families agree and consume exactly one value.
-/
import Fx.Eval
import Fx.Xdr
import Fx.Lemmas.Advance
namespace Fx.C03
open Fx

/-- the two `TryFrom` families are the same emitter run under two templates: the plans are equal -/
theorem emit_families_same_plan (a : Ast) : emitFrom .bytes a = emitFrom .refMutBytes a := rfl

/-- hence, for ALL byte strings (valid or not), every specification and type, the two families
    return the same result (value or error) and leave the same cursor -/
theorem C03_families_agree (a : Ast) (p : Plans) (name : String) (c : Cur) :
    decodeByValue a p name c = decodeRefMut a p name c := rfl

/-- on success the `&mut` form leaves the caller's buffer advanced by some `k ≤ remaining`:
    same buffer, offset moved by `k`, and the remaining bytes are exactly the old bytes after `k` (untouched).
    For ALL byte strings, ALL plans, every fuel. -/
theorem C03_cursor (a : Ast) (p : Plans) (fuel : Nat) (name : String) (c : Cur) (v : Val) (c' : Cur)
    (h : evalImpl a p fuel name c = .ok v c') :
    ∃ k, k ≤ c.remaining ∧ c'.off = c.off + k ∧ c'.data = c.data.drop k :=
  (eval_adv a p fuel).1 name c v c' h

/-- non-vacuity: a concrete successful decode of a struct of two words followed by one spare byte -/
example : evalImpl ⟨[], [], []⟩ ⟨[⟨"s", false, .struct [.plain "a" (.one (.prim .u32)), .plain "b" (.one (.prim .u32))]⟩], []⟩
      10 "s" ⟨0, be32 1 ++ be32 2 ++ [9], []⟩ =
    .ok (.struct "s" ["a", "b"] (.cons (.u32 1) (.cons (.u32 2) .nil))) ⟨8, [9], []⟩ := by
  simp [evalImpl, Plans.findImpl, evalFields, evalField, evalBasic, readPrim, Res.map, readU32_be32, fieldNameOf,
    List.append_assoc, safeName, isKeyword, rustKeywords]

end Fx.C03
