/-
  C03 — both decoder families agree and consume exactly one value.
-/
import Fx.Eval
import Fx.Xdr
import Fx.Lemmas.Advance
import Fx.Lemmas.Local
import Fx.Lemmas.Fuel
import Fx.Lemmas.Shift
import Fx.Lemmas.EmitPlans
namespace Fx.C03
open Fx

/-- the two `TryFrom` families are the same emitter run under two templates: the plans are equal -/
theorem emit_families_same_plan (a : Ast) : emitFrom .bytes a = emitFrom .refMutBytes a := rfl

/-- hence, for ALL byte strings (valid or not), every specification and type, the two families
    return the same result (value or error) and leave the same cursor -/
theorem C03_families_agree (a : Ast) (p : Plans) (name : String) (c : Cur) :
    decodeByValue a p name c = decodeRefMut a p name c := rfl

/-- on success the `&mut` form leaves the caller's buffer advanced by some `k ≤ remaining`:
    same buffer, offset moved by `k`, and the remaining bytes are exactly the old bytes after `k` (untouched).
    For ALL byte strings, ALL plans, every fuel. -/
theorem C03_cursor (a : Ast) (p : Plans) (fuel : Nat) (name : String) (c : Cur) (v : Val) (c' : Cur)
    (h : evalImpl a p fuel name c = .ok v c') :
    ∃ k, k ≤ c.remaining ∧ c'.off = c.off + k ∧ c'.data = c.data.drop k :=
  (eval_adv a p fuel).1 name c v c' h

/-- non-vacuity: a concrete successful decode of a struct of two words followed by one spare byte -/
example : evalImpl ⟨[], [], []⟩ ⟨[⟨"s", false, .struct [.plain "a" (.one (.prim .u32)), .plain "b" (.one (.prim .u32))]⟩], []⟩
      10 "s" ⟨0, be32 1 ++ be32 2 ++ [9], []⟩ =
    .ok (.struct "s" ["a", "b"] (.cons (.u32 1) (.cons (.u32 2) .nil))) ⟨8, [9], []⟩ := by
  simp [evalImpl, Plans.findImpl, evalFields, evalField, evalBasic, readPrim, Res.map, readU32_be32, fieldNameOf,
    List.append_assoc, safeName, isKeyword, rustKeywords]

/-- **C03 (locality).**  For ALL byte strings and all plans whose size impls are exact: a successful decode consumed a prefix
    `pre` of the buffer, and on EVERY buffer that starts with `pre` — whatever follows, however long — the decoder returns the
    same value and stops at the same place.  "The result does not depend on what follows the value in the buffer."
    (Only the allocation log may differ: the reservation looks at `remaining()`.) -/
theorem C03_locality (a : Ast) (p : Plans) (hp : p.SizeExact' = true) (fuel : Nat) (name : String) (c : Cur) (v : Val) (c' : Cur)
    (h : evalImpl a p fuel name c = .ok v c') :
    ∃ pre, c.data = pre ++ c'.data ∧ c'.off = c.off + pre.length ∧
      ∀ (s2 : List Byte) (l2 : List Ev), ∃ l2', evalImpl a p fuel name ⟨c.off, pre ++ s2, l2⟩ = .ok v ⟨c'.off, s2, l2'⟩ :=
  (eval_local a p hp fuel).1 name c v c' h

/-- the same for every supported specification (`Supported a` implies exact size impls) -/
theorem C03_locality_supported (a : Ast) (m : Module) (hs : Supported a = true) (hg : generateModule a = .ok m)
    (fuel : Nat) (name : String) (c : Cur) (v : Val) (c' : Cur) (h : evalImpl a m.plans fuel name c = .ok v c') :
    ∃ pre, c.data = pre ++ c'.data ∧ c'.off = c.off + pre.length ∧
      ∀ (s2 : List Byte) (l2 : List Ev), ∃ l2', evalImpl a m.plans fuel name ⟨c.off, pre ++ s2, l2⟩ = .ok v ⟨c'.off, s2, l2'⟩ :=
  C03_locality a m.plans (supported_plans hs hg).2 fuel name c v c' h

/-- the recursion budget of the model is not observable: any answer other than "out of fuel" is the answer at every larger budget -/
theorem C03_fuel_irrelevant (a : Ast) (p : Plans) (name : String) (c : Cur) (f g : Nat) (hfg : f ≤ g)
    (h : evalImpl a p f name c ≠ .outOfFuel) : evalImpl a p g name c = evalImpl a p f name c :=
  evalImpl_fuel_mono a p name c f g hfg h

/-- **C03 (position independence).**  For ALL byte strings, ALL plans, every budget: the same bytes viewed `δ` bytes further into
    a larger allocation decode to the same outcome — the same error, or the same value in which every opaque leaf is the same
    window moved by `δ` (`Val.shift`), with the cursor `δ` further as well.  "Nor on where the view sits inside a larger allocation." -/
theorem C03_position_independent (a : Ast) (p : Plans) (fuel : Nat) (name : String) (off δ : Nat) (data : List Byte) (log : List Ev) :
    evalImpl a p fuel name ⟨off + δ, data, log⟩ =
      (evalImpl a p fuel name ⟨off, data, log⟩).shiftWith (Val.shift δ) δ :=
  (eval_shift a p δ fuel).1 name ⟨off, data, log⟩

/-- what moves and what does not: leaves move, their bytes, all sizes and every other part of the value stay -/
example : (Val.struct "s" ["a", "b"] (.cons (.u32 7) (.cons (.bytes 4 [1, 2]) .nil))).shift 100 =
    Val.struct "s" ["a", "b"] (.cons (.u32 7) (.cons (.bytes 104 [1, 2]) .nil)) := by
  simp [Val.shift, Vals.shift]

end Fx.C03
