/-
  C10 — runtime readers and size helpers honour their contracts at every boundary.

  One complete case split per public reader of `DeserialiserExt for Bytes`
  (header.rs), for every buffer: offset `o`, contents, allocation log `l`.
  `r = c.remaining`.  The statements are about `Fx.Runtime`, which is tied to
  the real readers by T4 (exhaustive grid, harness/rt).
-/
import Fx.Lemmas.Runtime
namespace Fx.C10
open Fx

/-- `pad_length`: the padded size is the least multiple of four ≥ n. -/
theorem padLen_spec (n : Nat) :
    (n + padLen n) % 4 = 0 ∧ padLen n < 4 ∧ ∀ k, (n + k) % 4 = 0 → padLen n ≤ k :=
  ⟨padLen_mod n, padLen_lt n, fun k h => padLen_min n k h⟩

/-- `read_u32`: fewer than 4 bytes → `InvalidLength`, nothing consumed or allocated. -/
theorem read_u32_short (c : Cur) (h : c.remaining < 4) : readU32 c = .err .invalidLength c.log :=
  readU32_short c h

/-- `read_u32`: otherwise the big-endian value of the first four bytes, advance by 4, rest untouched. -/
theorem read_u32_value (n : Nat) (h : n < 2^32) (o : Nat) (s : List Byte) (l) :
    readU32 ⟨o, be32 n ++ s, l⟩ = .ok n ⟨o + 4, s, l⟩ := readU32_be32 n h o s l

/-- every buffer with ≥ 4 bytes is of the form `be32 n ++ s`, so the two cases above are exhaustive. -/
theorem read_u32_total (c : Cur) (h : 4 ≤ c.remaining) :
    ∃ n, n < 2^32 ∧ c.data = be32 n ++ c.data.drop 4 ∧ readU32 c = .ok n (c.advance 4) := by
  cases hr : readU32 c with
  | ok n c' =>
    obtain ⟨e, _, hn, ht⟩ := readU32_ok hr
    refine ⟨n, hn, ?_, by rw [e]⟩
    rw [← ht, List.take_append_drop]
  | err e l => simp [readU32, Nat.not_lt.mpr h, getU32P] at hr; split at hr <;> simp_all
  | panic s => have := readU32_ne_bad c; rw [hr] at this; cases this
  | abort => have := readU32_ne_bad c; rw [hr] at this; cases this
  | outOfFuel => simp [readU32, Nat.not_lt.mpr h, getU32P] at hr; split at hr <;> simp_all

theorem read_u64_short (c : Cur) (h : c.remaining < 8) : readU64 c = .err .invalidLength c.log :=
  readU64_short c h

theorem read_u64_value (n : Nat) (h : n < 2^64) (o : Nat) (s : List Byte) (l) :
    readU64 ⟨o, be64 n ++ s, l⟩ = .ok n ⟨o + 8, s, l⟩ := readU64_be64 n h o s l

/-- `read_i32` is `read_u32` reinterpreted in two's complement (same for i64/f32/f64: same bytes, same advance). -/
theorem read_i32_value (n : Nat) (h : n < 2^32) (o : Nat) (s : List Byte) (l) :
    readI32 ⟨o, be32 n ++ s, l⟩ = .ok (toSigned 32 n) ⟨o + 4, s, l⟩ := by
  simp [readI32, Res.map, readU32_be32 n h]

theorem read_i64_value (n : Nat) (h : n < 2^64) (o : Nat) (s : List Byte) (l) :
    readI64 ⟨o, be64 n ++ s, l⟩ = .ok (toSigned 64 n) ⟨o + 8, s, l⟩ := by
  simp [readI64, Res.map, readU64_be64 n h]

theorem read_i32_short (c : Cur) (h : c.remaining < 4) : readI32 c = .err .invalidLength c.log := by
  simp [readI32, Res.map, readU32_short c h]

theorem read_i64_short (c : Cur) (h : c.remaining < 8) : readI64 c = .err .invalidLength c.log := by
  simp [readI64, Res.map, readU64_short c h]

/-- `read_bool`: exactly the words 0 and 1 are accepted, every other 32-bit word is `InvalidBoolean`. -/
theorem read_bool_spec (n : Nat) (h : n < 2^32) (o : Nat) (s : List Byte) (l) :
    readBool ⟨o, be32 n ++ s, l⟩ =
      if n = 0 then .ok false ⟨o + 4, s, l⟩
      else if n = 1 then .ok true ⟨o + 4, s, l⟩
      else .err .invalidBoolean l := by
  simp only [readBool, readI32, Res.map, readU32_be32 n h, Res.bind_ok]
  unfold toSigned
  by_cases h0 : n = 0
  · subst h0; simp
  · by_cases h1 : n = 1
    · subst h1; simp
    · simp only [h0, h1, if_false]
      split
      · rename_i hlt
        have b : ¬ ((n : Int) = 1) := by omega
        simp [h0, b]
      · rename_i hlt
        have a : ¬ ((n : Int) - 4294967296 = 0) := by omega
        have b : ¬ ((n : Int) - 4294967296 = 1) := by omega
        simp [a, b]

theorem read_bool_short (c : Cur) (h : c.remaining < 4) : readBool c = .err .invalidLength c.log := by
  simp [readBool, read_i32_short c h]

/-- `read_bytes(n)`: `InvalidLength` iff fewer than `n + pad` bytes remain (repair F1)… -/
theorem read_bytes_short (n : Nat) (c : Cur) (h : c.remaining < n + padLen n) :
    readBytes n c = .err .invalidLength c.log := readBytes_short n c h

/-- …otherwise the first `n` bytes as a window at the same offset, advance by `n` rounded up to 4. -/
theorem read_bytes_enough (n : Nat) (c : Cur) (h : n + padLen n ≤ c.remaining) :
    readBytes n c = .ok (.bytes c.off (c.data.take n)) (c.advance (n + padLen n)) :=
  readBytes_enough n c h

/-- `read_variable_bytes(max)`: complete case split on the count word. -/
theorem read_variable_bytes_spec (max : Option Nat) (n : Nat) (h : n < 2^32) (o : Nat) (s : List Byte) (l) :
    readVariableBytes max ⟨o, be32 n ++ s, l⟩ =
      if overLimit max n then .err .invalidLength l
      else if s.length < n + padLen n then .err .invalidLength l
      else .ok (.bytes (o + 4) (s.take n)) ⟨o + 4 + (n + padLen n), s.drop (n + padLen n), l⟩ := by
  simp only [readVariableBytes, readU32_be32 n h, Res.bind_ok]
  split
  · rfl
  · split
    · rename_i hs; exact readBytes_short n _ hs
    · rename_i hs; rw [readBytes_enough n _ (by simpa using Nat.not_lt.mp hs)]; rfl

theorem read_variable_bytes_short (max : Option Nat) (c : Cur) (h : c.remaining < 4) :
    readVariableBytes max c = .err .invalidLength c.log := by
  simp [readVariableBytes, readU32_short c h]

/-- the limit is compared with `>`: a length equal to the maximum is accepted -/
theorem overLimit_spec (max : Option Nat) (n : Nat) :
    overLimit max n = true ↔ ∃ m, max = some m ∧ m < n := by
  cases max <;> simp [overLimit]

/-- `read_string(max)`: as `read_variable_bytes`, then one copy of `n` bytes and the UTF-8 check. -/
theorem read_string_spec (max : Option Nat) (n : Nat) (h : n < 2^32) (o : Nat) (s : List Byte) (l) :
    readString max ⟨o, be32 n ++ s, l⟩ =
      if overLimit max n then .err .invalidLength l
      else if s.length < n + padLen n then .err .invalidLength l
      else if utf8Valid (s.take n) then
        .ok (.str (s.take n)) ⟨o + 4 + (n + padLen n), s.drop (n + padLen n), l ++ [.str (min n s.length)]⟩
      else .err .nonUtf8String (l ++ [.str (min n s.length)]) := by
  simp only [readString, read_variable_bytes_spec max n h]
  split
  · rfl
  · split
    · rfl
    · simp only [Res.bind_ok, payloadOf, Cur.addLog, List.length_take]

/-- no reader panics or aborts, whatever the buffer -/
theorem readers_never_panic (c : Cur) (n : Nat) :
    (readU32 c).isBad = false ∧ (readU64 c).isBad = false ∧ (readBytes n c).isBad = false := 
  ⟨readU32_ne_bad c, readU64_ne_bad c, readBytes_ne_bad n c⟩

/-- blanket `WireSize` impls: the RFC 4506 size of what they hold. -/
theorem ws_vec_spec (elems : List Nat) : wsVec elems = 4 + elems.sum + padLen elems.sum := rfl
theorem ws_slice_spec (elems : List Nat) : wsSlice elems = elems.sum + padLen elems.sum := rfl
theorem ws_string_spec (len : Nat) : wsString len = 4 + len + padLen len ∧ wsString len % 4 = 0 := by
  refine ⟨rfl, ?_⟩
  have := padLen_mod len
  unfold wsString; omega
theorem ws_option_spec : wsOption none = 4 ∧ ∀ n, wsOption (some n) = 4 + n := ⟨rfl, fun _ => rfl⟩

/-- non-vacuity: a buffer of five bytes holding the word 5 and one trailing byte -/
example : readU32 ⟨0, be32 5 ++ [0xaa], []⟩ = .ok 5 ⟨4, [0xaa], []⟩ := read_u32_value 5 (by decide) 0 _ _
example : readVariableBytes (some 3) ⟨0, be32 3 ++ [1, 2, 3, 0, 9], []⟩ = .ok (.bytes 4 [1, 2, 3]) ⟨8, [9], []⟩ := by
  rw [read_variable_bytes_spec (some 3) 3 (by decide)]; simp [overLimit, padLen]

end Fx.C10
