/-
  Fx.Plan — the "generated Rust" the three emitters can produce, as data.
  A plan is semantic enough to be evaluated (Fx.Eval) and syntactic enough to
  be printed back to the exact text the emitters write (Fx.Render).
-/
import Fx.Ast
namespace Fx

inductive Prim where
  | u32 | u64 | i32 | i64 | f32 | f64 | bool
deriving Repr, DecidableEq, BEq

/-- `FromTemplate`: `Bytes` (`TryFrom<Bytes>`, nested calls pass `&mut v`) or
    `RefMutBytes` (`TryFrom<&mut Bytes>`, nested calls pass `&mut *v`). -/
inductive Template where
  | bytes
  | refMutBytes
deriving Repr, DecidableEq, BEq

/-- what `print_decode_basic_type` writes (without the trailing `?`) -/
inductive BasicDec where
  | prim (p : Prim)                 -- `v.read_u32()` …
  | string                          -- `v.read_string(None)`
  | opaque                          -- `v.read_variable_bytes(None)`
  | tryFrom (name : String)         -- `name::try_from(<ref>)`
deriving Repr, DecidableEq, BEq

/-- what `print_decode_array` writes -/
inductive FieldDec where
  | one (b : BasicDec)                                    -- `b?`
  | fixedBytes (n : Nat)                                  -- `v.read_bytes(n)?`
  | fixedArr (n : Nat) (b : BasicDec)                     -- `[ b?, … n times ]`
  | varBytes (max : Option Nat)                           -- `v.read_variable_bytes(max)?`
  | varString (max : Option Nat)                          -- `v.read_string(max)?`
  | varArr (ty : String) (generic : Bool) (max : Option Nat)   -- `v.read_variable_array::<ty[<Bytes>]>(max)?`
deriving Repr, DecidableEq, BEq

inductive StructFieldDec where
  | plain (name : String) (d : FieldDec)
  | optional (name : String) (ty : String)   -- marker match around `ty::try_from(<ref>)`
deriving Repr, DecidableEq, BEq

/-- a match-arm pattern of a union decoder -/
inductive Pat where
  | lit (text : String)                                   -- printed verbatim: integer literal, `true`/`false`, or an identifier
  | guard (enumName variant castTy : String)              -- `c if c == E::V as ty`
  | wild                                                  -- `_`
deriving Repr, DecidableEq, BEq

structure Arm where
  pat : Pat
  variant : String                  -- the raw label (printed through `NonDigitName`)
  payload : Option FieldDec
deriving Repr, DecidableEq, BEq

inductive Tail where
  | defaultData (d : FieldDec)      -- `_ => Self::default(…)`
  | errUnknown                      -- `d => return Err(Error::UnknownVariant(d as i32))`
  | none                            -- a void default already wrote `_ =>`
deriving Repr, DecidableEq, BEq

structure UnionDec where
  swVar : String
  disc : BasicDec
  arms : List Arm
  tail : Tail
deriving Repr, DecidableEq, BEq

inductive ImplBody where
  | struct (fields : List StructFieldDec)
  | union (u : UnionDec)
  | enum (arms : List (VariantValue × String))     -- (declared value, member): `value => Self::member`
  | typedef (d : FieldDec)
deriving Repr, DecidableEq, BEq

structure Impl where
  name : String
  generic : Bool
  body : ImplBody
deriving Repr, DecidableEq, BEq

/-- one field's contribution in a struct's `wire_size` -/
structure SizeField where
  name : String
  pad : Bool        -- `+ pad_length(self.f.wire_size())`
  plus4 : Bool      -- `+ 4` (variable-length opaque)
deriving Repr, DecidableEq, BEq

inductive SizeArm where
  | data (variant : String) (pad : Bool)      -- `Self::v(inner) => inner.wire_size() [+ pad_length(inner.wire_size())]`
  | void (variant : String)                   -- `Self::v => 0`
deriving Repr, DecidableEq, BEq

inductive SizeBody where
  | struct (fields : List SizeField)
  | union (arms : List SizeArm)
  | enum
  | typedef (opq : Bool) (plus4 : Bool)
deriving Repr, DecidableEq, BEq

structure SizeImpl where
  name : String
  generic : Bool
  body : SizeBody
deriving Repr, DecidableEq, BEq

/-- Rust type expressions written by `print_types` -/
inductive TyExpr where
  | path (s : String)               -- a name or primitive, printed verbatim
  | pathT (s : String)              -- `s<T>`
  | t                               -- `T`
  | string                          -- `String`
  | arr (e : TyExpr) (size : ArraySize)
  | vec (e : TyExpr)
  | optBox (e : TyExpr)
deriving Repr, DecidableEq, BEq

inductive TypeDecl where
  | const (name val : String)
  | struct (name : String) (generic : Bool) (fields : List (String × TyExpr))
  | union (name : String) (generic : Bool) (variants : List (String × Option TyExpr))
  | enum (name : String) (variants : List (String × String))
  | typedef (name : String) (generic : Bool) (spaceBeforeParen : Bool) (inner : TyExpr)
deriving Repr, DecidableEq, BEq

/-- everything `Generator::generate` writes after the header -/
structure Module where
  types : List TypeDecl
  fromBytes : List Impl
  fromRefMut : List Impl
  sizes : List SizeImpl
deriving Repr, BEq

end Fx
