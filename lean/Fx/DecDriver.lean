/-
  Fx.DecDriver — `spec`, `dec`, `genval` requests (T2).
-/
import Fx.Eval
import Fx.XGen
import Fx.GenDriver
import Fx.OutputOk
import Fx.Supported
import Fx.Finite
import Fx.Lemmas.Consumed
namespace Fx

structure Loaded where
  ast : Ast
  plans : Plans

abbrev DState := Array (Option Loaded)

def loadSpec (txt : String) : String × Option Loaded :=
  match Ast.new txt with
  | .err => ("err", none)
  | .outOfFuel => ("out-of-fuel", none)
  | .panicAt f m => ("panic " ++ f ++ " " ++ m, none)
  | .ok a =>
    match generateModule a with
    | .ok m => ("ok " ++ ",".intercalate (a.types.map (·.1)), some ⟨a, m.plans⟩)
    | .err _ => ("err", none)
    | .panicAt f m => ("panic " ++ f ++ " " ++ m, none)

def showDec (p : Plans) (fam : String) (r : Res Val) : String :=
  match r with
  | .ok v c =>
    "ok " ++ v.show ++ (if fam == "ref" then " " ++ c.showAt else "") ++ " ws=" ++ toString (wsVal p v) ++
      "\tallocs" ++ showLog c.log
  | .err e l => e.show ++ "\tallocs" ++ showLog l
  | .panic s => "panic " ++ s ++ "\tallocs"
  | .abort => "abort\tallocs"
  | .outOfFuel => "out-of-fuel\tallocs"

/-- segments separated by `~`: `<hex>` (or `-`, empty) and `<count>:<bb>` (`count` copies of the byte `bb`): buffers and payloads far
    larger than what a hex string should carry -/
def bytesOfHexRL (s : String) : Option (List Byte) :=
  (s.splitOn "~").foldr (fun seg acc =>
    match acc with
    | none => none
    | some rest =>
      (match seg.splitOn ":" with
       | [h] => (bytesOfHex h).map (· ++ rest)
       | [n, b] =>
         (match n.toNat?, bytesOfHex b with
          | some n, some [x] => some (List.replicate n x ++ rest)
          | _, _ => none)
       | _ => none)) (some [])

def decRequest (st : DState) (f : List String) : String :=
  match f with
  | [k, fam, ty, lead, hex] =>
    (match k.toNat?, lead.toNat?, bytesOfHexRL hex with
     | some k, some lead, some bs =>
       (match st[k]? with
        | some (some l) =>
          let c : Cur := { off := lead, data := bs }
          let r := if fam == "val" then decodeByValue l.ast l.plans ty c else decodeRefMut l.ast l.plans ty c
          showDec l.plans fam r
        | _ => "no-spec")
     | _, _, _ => "bad-op")
  | _ => "bad-op"

/-- `genval K ty seed lead`: a random value of the declared type `ty`, its encoding and the documented result -/
def genvalRequest (st : DState) (f : List String) : String :=
  match f with
  | [k, ty, seed, lead] =>
    (match k.toNat?, seed.toNat?, lead.toNat? with
     | some k, some seed, some lead =>
       (match st[k]? with
        | some (some l) =>
          let (x, _) := genNamed l.ast 400 0 ty { s := seed * 2654435761 + 12345 }
          if hasTypeNamed l.ast ty x then
            let e := x.enc
            hexOfBytes e ++ "\t" ++ (reprNamed l.ast ty lead x).show ++ " ws=" ++ toString e.length ++
              "\t" ++ " ".intercalate (marksNamed l.ast ty 0 x)
          else "skip"
        | _ => "no-spec")
     | _, _, _ => "bad-op")
  | _ => "bad-op"

/-- `gendeep K ty seed depth`: as `genval` (lead 0), the value being a path of `depth` nested one-element counted arrays -/
def gendeepRequest (st : DState) (f : List String) : String :=
  match f with
  | [k, ty, seed, depth] =>
    (match k.toNat?, seed.toNat?, depth.toNat? with
     | some k, some seed, some depth =>
       (match st[k]? with
        | some (some l) =>
          let (x, _) := genNamed l.ast (20 * depth + 400) 0 ty { s := seed * 2654435761 + 12345, spine := depth + 1 }
          if hasTypeNamed l.ast ty x then
            let e := x.enc
            hexOfBytes e ++ "\t" ++ (reprNamed l.ast ty 0 x).show ++ " ws=" ++ toString e.length ++
              "\t" ++ " ".intercalate (marksNamed l.ast ty 0 x)
          else "skip"
        | _ => "no-spec")
     | _, _, _ => "bad-op")
  | _ => "bad-op"

/-- `outputok <hex text>`: the judgement that stands in for rustc, and `Plans.Ok` -/
def outputOkRequest (f : List String) : String :=
  match f with
  | [h] =>
    (match textOfHex h with
     | some t =>
       (match Ast.new t with
        | .ok a =>
          (match generateModule a with
           | .ok m => "ok outputok=" ++ toString (outputOk a m) ++ " plansok=" ++ toString m.plans.Ok ++
               " sizeexact=" ++ toString m.plans.SizeExact' ++ " supported=" ++ toString (Supported a) ++ " finite=" ++ toString m.plans.finite ++ " elemssure=" ++ toString m.plans.elemsSure ++
               " acyclic=" ++ toString m.plans.acyclic ++ " paramsok=" ++ toString (paramsOk a && paramsUsed a) ++ " typesok=" ++ toString (outputTypesOk a m) ++ " labelstyped=" ++ toString (labelsTyped a) ++
               " variantsdistinct=" ++ toString (variantsDistinct a) ++ " implfits=" ++ toString (m.fromRefMut.all (implFits a m))
           | _ => "nogen")
        | _ => "nogen")
     | none => "bad-op")
  | _ => "bad-op"

/-- `genover K ty seed k`: as `genval`, but the k-th bounded position met carries max+1 items with all their bytes
    present; replies the encoding (the decoder must answer `InvalidLength`) or `skip` when there is no such position -/
def genoverRequest (st : DState) (f : List String) : String :=
  match f with
  | [k, ty, seed, vk] =>
    (match k.toNat?, seed.toNat?, vk.toNat? with
     | some k, some seed, some vk =>
       (match st[k]? with
        | some (some l) =>
          let (x, r) := genNamed l.ast 400 0 ty { s := seed * 2654435761 + 12345, victim := vk }
          if r.hit then hexOfBytes x.enc else "skip"
        | _ => "no-spec")
     | _, _, _ => "bad-op")
  | _ => "bad-op"

end Fx
