/-
  Fx.Cli — `src/main.rs`: what the binary prints and how it exits, as a function of what the
  library does for each argument.
-/
namespace Fx

/-- what happens to one command-line argument -/
inductive FileOutcome where
  | generated (text : String)    -- read_to_string ok, generate ok
  | rejected                     -- generate returned Err
  | unreadable                   -- read_to_string failed (missing, a directory, not UTF-8)
  | panicked                     -- the generator panicked
deriving Repr, DecidableEq

def cliGo : List FileOutcome → String → String × Nat
  | [], out => (out, 0)
  | .generated t :: rest, out => cliGo rest (out ++ t ++ "\n")      -- `println!("{}", code)`
  | .rejected :: _, out => (out, 1)                                  -- `?` in main: exit code 1
  | .unreadable :: _, out => (out, 1)
  | .panicked :: _, out => (out, 101)

/-- stdout and exit status of `fastxdr FILE...` -/
def cli (argv0 : String) (files : List FileOutcome) : String × Nat :=
  if files.isEmpty then ("usage: " ++ argv0 ++ " ./path/to/spec.x\n", 1) else cliGo files ""

/-- the texts in order, each terminated by the newline `println!` adds -/
def concatLines : List String → String
  | [] => ""
  | t :: ts => t ++ "\n" ++ concatLines ts

end Fx
