/-
  Fx.Proto — canonical text forms shared with the Rust harnesses
  (`harness/common/dump.rs`).  No proofs depend on this file.
-/
import Fx.Basic
namespace Fx

def hexDigit (n : Nat) : Char :=
  if n < 10 then Char.ofNat (48 + n) else Char.ofNat (87 + n)

def hexOfBytes (bs : List Byte) : String :=
  String.ofList (bs.flatMap fun b => [hexDigit (b.toNat / 16), hexDigit (b.toNat % 16)])

def hexFixed (digits : Nat) (n : Nat) : String :=
  String.ofList ((List.range digits).reverse.map fun i => hexDigit (n / 16^i % 16))

def hexVal (c : Char) : Option Nat :=
  if '0' ≤ c ∧ c ≤ '9' then some (c.toNat - 48)
  else if 'a' ≤ c ∧ c ≤ 'f' then some (c.toNat - 87)
  else if 'A' ≤ c ∧ c ≤ 'F' then some (c.toNat - 55)
  else none

def bytesOfHexChars : List Char → Option (List Byte)
  | [] => some []
  | a :: b :: rest => do
    let x ← hexVal a
    let y ← hexVal b
    let r ← bytesOfHexChars rest
    pure (UInt8.ofNat (x * 16 + y) :: r)
  | _ => none

def bytesOfHex (s : String) : Option (List Byte) :=
  if s == "-" then some [] else bytesOfHexChars s.toList

mutual
def Val.show : Val → String
  | .u32 n => toString n
  | .u64 n => toString n
  | .i32 i => toString i
  | .i64 i => toString i
  | .f32 b => "f32:" ++ hexFixed 8 b
  | .f64 b => "f64:" ++ hexFixed 16 b
  | .bool b => if b then "true" else "false"
  | .str bs => "s:" ++ hexOfBytes bs
  | .bytes off bs => if bs.isEmpty then "b@-:" else "b@" ++ toString off ++ ":" ++ hexOfBytes bs
  | .vec xs => "(vec" ++ xs.showAll ++ ")"
  | .arr xs => "(arr" ++ xs.showAll ++ ")"
  | .none => "none"
  | .some v => "(some " ++ v.show ++ ")"
  | .struct name fnames fs => "(S:" ++ name ++ fs.showFields fnames ++ ")"
  | .unit ty variant => "(U:" ++ ty ++ "::" ++ variant ++ ")"
  | .tuple ty variant v => "(U:" ++ ty ++ "::" ++ variant ++ " " ++ v.show ++ ")"
  | .newtype name v => "(T:" ++ name ++ " " ++ v.show ++ ")"
  | .cenum name m => "(E:" ++ name ++ "::" ++ m ++ ")"
def Vals.showAll : Vals → String
  | .nil => ""
  | .cons v vs => " " ++ v.show ++ vs.showAll
def Vals.showFields : Vals → List String → String
  | .nil, _ => ""
  | .cons v vs, [] => " ?=" ++ v.show ++ vs.showFields []
  | .cons v vs, n :: ns => " " ++ n ++ "=" ++ v.show ++ vs.showFields ns
end

def Err.show : Err → String
  | .invalidLength => "err InvalidLength"
  | .nonUtf8String => "err NonUtf8String"
  | .invalidBoolean => "err InvalidBoolean"
  | .unknownVariant d => "err UnknownVariant " ++ toString d
  | .unknownOptionVariant d => "err UnknownOptionVariant " ++ toString d
  | .unknown s => "err Unknown " ++ s

def Ev.show : Ev → String
  | .vec n => "vec:" ++ toString n
  | .str n => "str:" ++ toString n
  | .box => "box"

def showLog (l : List Ev) : String := String.join (l.map fun e => " " ++ e.show)

def Cur.showAt (c : Cur) : String :=
  "rem=" ++ toString c.remaining ++ " at=" ++ (if c.data.isEmpty then "-" else toString c.off)

def Res.showWith {α} (sh : α → String) : Res α → String
  | .ok a c => "ok " ++ sh a ++ " " ++ c.showAt ++ "\tallocs" ++ showLog c.log
  | .err e l => e.show ++ "\tallocs" ++ showLog l
  | .panic _ => "panic\tallocs"
  | .abort => "abort\tallocs"
  | .outOfFuel => "out-of-fuel\tallocs"

end Fx
