/-
  Fx.Xdr — the reference the decoder properties are stated against, written from
  RFC 4506 and the README, independently of the emitters and the evaluator:
  typed XDR values, their encoding, when a value has a declared type, and the
  Rust value the documentation promises for it.
-/
import Fx.Ast
import Fx.Basic
import Fx.Index
import Fx.Runtime
namespace Fx

mutual
/-- XDR values; the constructors follow the declared type so that `enc` needs no type. -/
inductive XVal where
  | u32 (n : Nat) | i32 (i : Int) | u64 (n : Nat) | i64 (i : Int)
  | f32 (bits : Nat) | f64 (bits : Nat) | bool (b : Bool)
  | str (bs : List Byte)
  | varOpaque (bs : List Byte)
  | fixedOpaque (bs : List Byte)
  | varArr (xs : XVals)
  | fixedArr (xs : XVals)
  | optNone
  | optSome (v : XVal)
  | struct (fs : XVals)
  | union (disc : Nat) (arm : XVal)      -- the discriminant word and the arm (`void` for a void arm)
  | void
  | enumv (n : Nat)
  | alias (v : XVal)                     -- a value of a typedef'd type
inductive XVals where
  | nil
  | cons (v : XVal) (vs : XVals)
end

instance : Inhabited XVal := ⟨.void⟩

def XVals.len : XVals → Nat
  | .nil => 0
  | .cons _ vs => vs.len + 1

def XVals.ofList : List XVal → XVals
  | [] => .nil
  | v :: vs => .cons v (XVals.ofList vs)

/-! ### RFC 4506 encoding -/

mutual
def XVal.enc : XVal → List Byte
  | .u32 n => be32 n
  | .i32 i => be32 (ofSigned 32 i)
  | .u64 n => be64 n
  | .i64 i => be64 (ofSigned 64 i)
  | .f32 b => be32 b
  | .f64 b => be64 b
  | .bool b => be32 (if b then 1 else 0)
  | .str bs => be32 bs.length ++ bs ++ zeros (padLen bs.length)
  | .varOpaque bs => be32 bs.length ++ bs ++ zeros (padLen bs.length)
  | .fixedOpaque bs => bs ++ zeros (padLen bs.length)
  | .varArr xs => be32 xs.len ++ xs.enc
  | .fixedArr xs => xs.enc
  | .optNone => be32 0
  | .optSome v => be32 1 ++ v.enc
  | .struct fs => fs.enc
  | .union d arm => be32 d ++ arm.enc
  | .void => []
  | .enumv n => be32 n
  | .alias v => v.enc
def XVals.enc : XVals → List Byte
  | .nil => []
  | .cons v vs => v.enc ++ vs.enc
end

/-! ### declared types -/

/-- value of a case label / enum member / constant as the specification declares it -/
def parseDecOrHex (s : String) : Option Nat :=
  match s.toList with
  | '0' :: 'x' :: rest => if rest.isEmpty then none else hexStrVal rest
  | cs => if allDigits cs then some (digitsVal cs) else none

def enumMemberValue (a : Ast) (v : Variant) : Option Nat :=
  match v.value with
  | .numeric i => if i < 0 then none else some i.toNat
  | .str s => (match bget s a.constants with
               | some (.constValue t) => parseDecOrHex t
               | _ => none)

def findEnumMember (a : Ast) (member : String) : Option Nat :=
  match bget member a.constants with
  | some (.enumValue e _) =>
    (match bget e a.types with
     | some (.enum en) => (en.variants.find? (·.name == member)).bind (enumMemberValue a)
     | _ => none)
  | _ => none

/-- the number a case label denotes -/
def constLabelValue (a : Ast) (l : String) : Option Nat :=
  match bget l a.constants with
  | some (.constValue t) => parseDecOrHex t
  | some (.enumValue _ _) => findEnumMember a l
  | none => none

def labelValue (a : Ast) (l : String) : Option Nat :=
  if l == "TRUE" then some 1
  else if l == "FALSE" then some 0
  else match parseDecOrHex l with
    | some n => some n
    | none => constLabelValue a l

def boundValue (a : Ast) : ArraySize → Option Nat
  | .known n => some n
  | .constant c =>
    (match bget c a.constants with
     | some (.constValue t) => parseDecOrHex t
     | _ => none)

/-- which arm of a union a discriminant selects: (label that matched or "default", payload declarator or none for void) -/
inductive ArmSel where
  | data (label : String) (ty : ArrayType)
  | void (label : String)
  | noArm
deriving Repr, DecidableEq

def findCaseLabel (a : Ast) (d : Nat) : List String → Option String
  | [] => none
  | l :: ls => if labelValue a l == some d then some l else findCaseLabel a d ls

def findDataCase (a : Ast) (d : Nat) : List UnionCase → Option (String × ArrayType)
  | [] => none
  | c :: cs =>
    (match findCaseLabel a d c.caseValues with
     | some l => some (l, c.fieldValue)
     | none => findDataCase a d cs)

/-- the declared arm for discriminant `d` -/
def selectDeclared (a : Ast) (u : Union) (d : Nat) : ArmSel :=
  match findDataCase a d u.cases with
  | some (l, ty) => .data l ty
  | none =>
    (match findCaseLabel a d (u.voidCases.filter (· != "default")) with
     | some l => .void l
     | none =>
       -- labels that fall through into the default arm select the default arm as well
       (match u.default with
        | some dc => .data "default" dc.fieldValue
        | none => if u.voidCases.contains "default" then .void "default" else .noArm))

/-- the integer type the switch of a union is read as (through at most one typedef) -/
inductive DiscKind where
  | u32 | i32 | bool | enum (e : Enum) | unsupported
deriving Repr

def discKind (a : Ast) (t : BasicType) : DiscKind :=
  match t with
  | .u32 => .u32 | .i32 => .i32 | .bool => .bool
  | .ident n =>
    (match bget n a.types with
     | some (.enum e) => .enum e
     | some (.typedef td) =>
       (match td.alias, td.target with
        | .none _, .u32 => .u32
        | .none _, .i32 => .i32
        | _, _ => .unsupported)
     | _ => .unsupported)
  | _ => .unsupported

def enumHasValue (a : Ast) (e : Enum) (n : Nat) : Bool :=
  e.variants.any fun v => enumMemberValue a v == some n

def enumMemberName (a : Ast) (e : Enum) (n : Nat) : Option String :=
  (e.variants.find? fun v => enumMemberValue a v == some n).map (·.name)

def discOk (a : Ast) (k : DiscKind) (d : Nat) : Bool :=
  match k with
  | .u32 => d < 2^32
  | .i32 => d < 2^32
  | .bool => d ≤ 1
  | .enum e => enumHasValue a e d
  | .unsupported => false

def withinLimit (lim : Option Nat) (k : Nat) : Bool :=
  k < 2^32 && (match lim with | some m => k ≤ m | none => true)

/-- the limit of a counted declarator: `none` when its constant does not resolve -/
def limitOf (a : Ast) : Option ArraySize → Option (Option Nat)
  | none => some none
  | some sz => (boundValue a sz).map some

mutual
/-- `x` is a value of a declarator position `t`, `t[n]`, `t<max>` (decidable) -/
def hasType (a : Ast) (at_ : ArrayType) (x : XVal) : Bool :=
  match at_ with
  | .none t => hasTypeBasic a t x
  | .fixed t sz =>
    (match boundValue a sz with
     | some n => fixedHasType a n t x
     | none => false)
  | .variable t max =>
    (match limitOf a max with
     | some lim => varHasType a lim t x
     | none => false)
termination_by (sizeOf x, 4)
/-- `x` is `t[n]`: exactly `n` opaque bytes, or `n` elements -/
def fixedHasType (a : Ast) (n : Nat) (t : BasicType) (x : XVal) : Bool :=
  match t, x with
  | .opaque, .fixedOpaque bs => bs.length == n
  | .string, _ => false
  | .opaque, _ => false
  | t, .fixedArr xs => xs.len == n && allHaveType a t xs
  | _, _ => false
termination_by (sizeOf x, 3)
/-- `x` is `t<lim>`: at most `lim` opaque bytes / UTF-8 bytes / elements -/
def varHasType (a : Ast) (lim : Option Nat) (t : BasicType) (x : XVal) : Bool :=
  match t, x with
  | .opaque, .varOpaque bs => withinLimit lim bs.length
  | .string, .str bs => withinLimit lim bs.length && utf8Valid bs
  | .opaque, _ => false
  | .string, _ => false
  | t, .varArr xs => withinLimit lim xs.len && allHaveType a t xs
  | _, _ => false
termination_by (sizeOf x, 3)
def hasTypeBasic (a : Ast) (t : BasicType) (x : XVal) : Bool :=
  match t, x with
  | .u32, .u32 n => n < 2^32
  | .i32, .i32 i => -(2^31 : Int) ≤ i && i < 2^31
  | .u64, .u64 n => n < 2^64
  | .i64, .i64 i => -(2^63 : Int) ≤ i && i < 2^63
  | .f32, .f32 b => b < 2^32
  | .f64, .f64 b => b < 2^64
  | .bool, .bool _ => true
  | .string, .str bs => bs.length < 2^32 && utf8Valid bs
  | .opaque, .varOpaque bs => bs.length < 2^32
  | .ident n, x => hasTypeNamed a n x
  | _, _ => false
termination_by (sizeOf x, 2)
def hasTypeNamed (a : Ast) (n : String) (x : XVal) : Bool :=
  match x with
  | .struct fs =>
    (match bget n a.types with
     | some (.struct s) => fieldsHaveType a s.fields fs
     | _ => false)
  | .union d arm =>
    (match bget n a.types with
     | some (.union u) =>
       discOk a (discKind a u.switch.varType) d &&
       (match selectDeclared a u d with
        | .data _ ty => hasType a ty arm
        | .void _ => (match arm with | .void => true | _ => false)
        | .noArm => false)
     | _ => false)
  | .enumv v =>
    (match bget n a.types with
     | some (.enum e) => enumHasValue a e v
     | _ => false)
  | .alias v =>
    (match bget n a.types with
     | some (.typedef td) =>
       -- the alias' array kind applied to the target type
       (match td.alias with
        | .none _ => hasType a (.none td.target) v
        | .fixed _ sz => hasType a (.fixed td.target sz) v
        | .variable _ m => hasType a (.variable td.target m) v)
     | _ => false)
  | _ => false
termination_by (sizeOf x, 1)
def allHaveType (a : Ast) (t : BasicType) (xs : XVals) : Bool :=
  match xs with
  | .nil => true
  | .cons v vs => hasTypeBasic a t v && allHaveType a t vs
termination_by (sizeOf xs, 0)
def fieldHasType (a : Ast) (f : StructField) (v : XVal) : Bool :=
  if f.isOptional then
    (match v with
     | .optNone => true
     | .optSome x => hasTypeBasic a f.fieldValue.unwrapArray x
     | _ => false)
  else hasType a f.fieldValue v
termination_by (sizeOf v, 5)
def fieldsHaveType (a : Ast) (fs : List StructField) (xs : XVals) : Bool :=
  match fs, xs with
  | [], .nil => true
  | f :: fs, .cons v vs => fieldHasType a f v && fieldsHaveType a fs vs
  | _, _ => false
termination_by (sizeOf xs, 0)
end

/-! ### the Rust value the documentation promises -/

/-- README: struct fields keep their names, reserved words get `_v` -/
def docFieldName (s : String) : String := if isKeyword s then s ++ "_v" else s

/-- README: one variant per case label, `v_` before a leading digit -/
def docVariantName (l : String) : String :=
  match l.toList with
  | c :: _ => if '0' ≤ c ∧ c ≤ '9' then "v_" ++ l else l
  | [] => l

mutual
/-- the documented shape of `x` decoded from offset `off` of the input -/
def repr (a : Ast) (at_ : ArrayType) (off : Nat) (x : XVal) : Val :=
  match at_ with
  | .none t => reprBasic a t off x
  | .fixed t _ =>
    (match x with
     | .fixedOpaque bs => .bytes off bs
     | .fixedArr xs => .arr (reprAll a t off xs)
     | _ => .none)
  | .variable t _ =>
    (match x with
     | .varOpaque bs => .bytes (off + 4) bs
     | .str bs => .str bs
     | .varArr xs => .vec (reprAll a t (off + 4) xs)
     | _ => .none)
termination_by (sizeOf x, 3)
def reprBasic (a : Ast) (t : BasicType) (off : Nat) (x : XVal) : Val :=
  match x with
  | .u32 n => .u32 n | .i32 i => .i32 i | .u64 n => .u64 n | .i64 i => .i64 i
  | .f32 b => .f32 b | .f64 b => .f64 b | .bool b => .bool b
  | .str bs => .str bs
  | .varOpaque bs => .bytes (off + 4) bs
  | x => (match t with | .ident n => reprNamed a n off x | _ => .none)
termination_by (sizeOf x, 2)
def reprNamed (a : Ast) (n : String) (off : Nat) (x : XVal) : Val :=
  match x with
  | .struct fs =>
    (match bget n a.types with
     | some (.struct s) => .struct n (s.fields.map fun f => docFieldName f.fieldName) (reprFields a s.fields off fs)
     | _ => .none)
  | .union d arm =>
    (match bget n a.types with
     | some (.union u) =>
       (match selectDeclared a u d with
        | .data l ty => .tuple n (docVariantName l) (repr a ty (off + 4) arm)
        | .void l => .unit n (docVariantName l)
        | .noArm => .none)
     | _ => .none)
  | .enumv v =>
    (match bget n a.types with
     | some (.enum e) => (match enumMemberName a e v with | some m => .cenum n m | none => .none)
     | _ => .none)
  | .alias v =>
    (match bget n a.types with
     | some (.typedef td) =>
       .newtype n (match td.alias with
        | .none _ => repr a (.none td.target) off v
        | .fixed _ sz => repr a (.fixed td.target sz) off v
        | .variable _ m => repr a (.variable td.target m) off v)
     | _ => .none)
  | _ => .none
termination_by (sizeOf x, 1)
def reprAll (a : Ast) (t : BasicType) (off : Nat) (xs : XVals) : Vals :=
  match xs with
  | .nil => .nil
  | .cons v vs => .cons (reprBasic a t off v) (reprAll a t (off + v.enc.length) vs)
termination_by (sizeOf xs, 0)
def reprField (a : Ast) (f : StructField) (off : Nat) (v : XVal) : Val :=
  if f.isOptional then
    (match v with
     | .optSome x => .some (reprBasic a f.fieldValue.unwrapArray (off + 4) x)
     | _ => .none)
  else repr a f.fieldValue off v
termination_by (sizeOf v, 4)
def reprFields (a : Ast) (fs : List StructField) (off : Nat) (xs : XVals) : Vals :=
  match fs, xs with
  | f :: fs, .cons v vs => .cons (reprField a f off v) (reprFields a fs (off + v.enc.length) vs)
  | _, _ => .nil
termination_by (sizeOf xs, 0)
end

/-! ### positions of the words a decoder must validate (for the hostile-input oracles of C05/C06) -/

def showOptNat : Option Nat → String
  | some n => toString n
  | none => "-"

def showNats (l : List Nat) : String := ",".intercalate (l.map toString)

mutual
/-- marks of `x` encoded at offset `off` (relative to the start of the encoding):
    `len@off:max` / `cnt@off:max` (opaque/string length, array count, and the declared maximum), `bool@off`, `opt@off`,
    `enum@off:v1,v2,…` (declared values), `disc@off:v1,…:default|nodefault`, `str@off:len` (payload) -/
def marks (a : Ast) (at_ : ArrayType) (off : Nat) (x : XVal) : List String :=
  match at_ with
  | .none t => marksBasic a t off x
  | .fixed t _ =>
    (match x with
     | .fixedArr xs => marksAll a t off xs
     | _ => [])
  | .variable t max =>
    let lim := max.bind (boundValue a)
    (match x with
     | .varOpaque _ => ["len@" ++ toString off ++ ":" ++ showOptNat lim]
     | .str bs => ["len@" ++ toString off ++ ":" ++ showOptNat lim, "str@" ++ toString (off + 4) ++ ":" ++ toString bs.length]
     | .varArr xs => ("cnt@" ++ toString off ++ ":" ++ showOptNat lim) :: marksAll a t (off + 4) xs
     | _ => [])
termination_by (sizeOf x, 3)
def marksBasic (a : Ast) (t : BasicType) (off : Nat) (x : XVal) : List String :=
  match x with
  | .bool _ => ["bool@" ++ toString off]
  | .str bs => ["len@" ++ toString off ++ ":-", "str@" ++ toString (off + 4) ++ ":" ++ toString bs.length]
  | .varOpaque _ => ["len@" ++ toString off ++ ":-"]
  | .u32 _ => [] | .i32 _ => [] | .u64 _ => [] | .i64 _ => [] | .f32 _ => [] | .f64 _ => []
  | x => (match t with | .ident n => marksNamed a n off x | _ => [])
termination_by (sizeOf x, 2)
def marksNamed (a : Ast) (n : String) (off : Nat) (x : XVal) : List String :=
  match x with
  | .struct fs =>
    (match bget n a.types with
     | some (.struct s) => marksFields a s.fields off fs
     | _ => [])
  | .union _ arm =>
    (match bget n a.types with
     | some (.union u) =>
       let labels := (u.cases.map (·.caseValues)).flatten ++ u.voidCases.filter (· != "default") ++
         (match u.default with | some d => d.caseValues.filter (· != "default") | none => [])
       let hasDefault := u.default.isSome || u.voidCases.contains "default"
       let kind := match discKind a u.switch.varType with
         | .bool => "bool" | .enum _ => "enum" | .u32 => "u32" | .i32 => "i32" | .unsupported => "other"
       ("disc@" ++ toString off ++ ":" ++ showNats (labels.filterMap (labelValue a)) ++ ":" ++
          (if hasDefault then "default" else "nodefault") ++ ":" ++ kind) ::
       (match x with
        | .union d _ =>
          (match selectDeclared a u d with
           | .data _ ty => marks a ty (off + 4) arm
           | _ => [])
        | _ => [])
     | _ => [])
  | .enumv _ =>
    (match bget n a.types with
     | some (.enum e) => ["enum@" ++ toString off ++ ":" ++ showNats (e.variants.filterMap (enumMemberValue a))]
     | _ => [])
  | .alias v =>
    (match bget n a.types with
     | some (.typedef td) =>
       (match td.alias with
        | .none _ => marks a (.none td.target) off v
        | .fixed _ sz => marks a (.fixed td.target sz) off v
        | .variable _ m => marks a (.variable td.target m) off v)
     | _ => [])
  | _ => []
termination_by (sizeOf x, 1)
def marksAll (a : Ast) (t : BasicType) (off : Nat) (xs : XVals) : List String :=
  match xs with
  | .nil => []
  | .cons v vs => marksBasic a t off v ++ marksAll a t (off + v.enc.length) vs
termination_by (sizeOf xs, 0)
def marksFields (a : Ast) (fs : List StructField) (off : Nat) (xs : XVals) : List String :=
  match fs, xs with
  | f :: fs, .cons v vs =>
    (if f.isOptional then
       ("opt@" ++ toString off) ::
       (match v with
        | .optSome x => marksBasic a f.fieldValue.unwrapArray (off + 4) x
        | _ => [])
     else marks a f.fieldValue off v) ++ marksFields a fs (off + v.enc.length) vs
  | _, _ => []
termination_by (sizeOf xs, 0)
end

end Fx
