/-
  Fx.Ast — the public AST types of `src/ast/*.rs`, field for field.
-/
namespace Fx

inductive BasicType where
  | u32 | u64 | i32 | i64 | f32 | f64 | string | bool | opaque
  | ident (s : String)
deriving Repr, DecidableEq, BEq, Inhabited

/-- `BasicType::as_str` -/
def BasicType.asStr : BasicType → String
  | .u32 => "u32" | .i32 => "i32" | .u64 => "u64" | .i64 => "i64"
  | .f32 => "f32" | .f64 => "f64" | .bool => "bool" | .string => "String"
  | .opaque => "T" | .ident s => s

def rustKeywords : List String :=
  ["as", "async", "await", "break", "const", "continue", "crate", "dyn", "else", "enum", "extern",
   "false", "fn", "for", "if", "impl", "in", "let", "loop", "match", "mod", "move", "mut", "pub",
   "ref", "return", "Self", "self", "static", "struct", "super", "trait", "true", "type", "union",
   "unsafe", "use", "where", "while"]

def isKeyword (s : String) : Bool := rustKeywords.contains s

/-- `BasicType::as_safe_string` (also its `Display`) -/
def BasicType.asSafeString : BasicType → String
  | .ident v =>
    let name := if v == "TRUE" then "true" else if v == "FALSE" then "false" else v
    if isKeyword name then name ++ "_v" else name
  | t => t.asStr

def BasicType.isOpaque : BasicType → Bool
  | .opaque => true
  | _ => false

/-- ASCII whitespace as removed by `str::trim` (the texts reaching it are ASCII outside comments). -/
def isWs (c : Char) : Bool := c = ' ' || c = '\t' || c = '\n' || c = '\r' || c = '\x0b' || c = '\x0c'

def trimChars (cs : List Char) : List Char :=
  ((cs.dropWhile isWs).reverse.dropWhile isWs).reverse

def trimStr (s : String) : String := String.ofList (trimChars s.toList)

/-- words of `str::split_whitespace` -/
def wordsAux : List Char → List Char → List (List Char)
  | [], cur => if cur.isEmpty then [] else [cur.reverse]
  | c :: cs, cur =>
    if isWs c then (if cur.isEmpty then wordsAux cs [] else cur.reverse :: wordsAux cs [])
    else wordsAux cs (c :: cur)

/-- `v.split_whitespace().collect::<Vec<&str>>().join(" ")` -/
def normWs (s : String) : String :=
  String.ofList (List.intercalate [' '] (wordsAux s.toList []))

/-- `impl From<&str> for BasicType` (knows the spelling `unsigned`) -/
def BasicType.ofStr (v : String) : BasicType :=
  match normWs v with
  | "unsigned int" | "uint32_t" | "u32" | "unsigned" => .u32
  | "int" | "int32_t" | "i32" => .i32
  | "unsigned hyper" | "uint64_t" | "u64" => .u64
  | "hyper" | "int64_t" | "i64" => .i64
  | "float" => .f32
  | "double" => .f64
  | "string" => .string
  | "opaque" => .opaque
  | "bool" => .bool
  | s => .ident s

/-- `impl From<String> for BasicType` (does not know `unsigned`) -/
def BasicType.ofString (v : String) : BasicType :=
  match normWs v with
  | "unsigned int" | "uint32_t" | "u32" => .u32
  | "int" | "int32_t" | "i32" => .i32
  | "unsigned hyper" | "uint64_t" | "u64" => .u64
  | "hyper" | "int64_t" | "i64" => .i64
  | "float" => .f32
  | "double" => .f64
  | "string" => .string
  | "opaque" => .opaque
  | "bool" => .bool
  | s => .ident s

inductive ArraySize where
  | known (n : Nat)
  | constant (s : String)
deriving Repr, DecidableEq, BEq

def allDigits (cs : List Char) : Bool := !cs.isEmpty && cs.all fun c => '0' ≤ c && c ≤ '9'

def digitsVal (cs : List Char) : Nat := cs.foldl (fun acc c => acc * 10 + (c.toNat - 48)) 0

/-- `str::parse::<u32>` on the texts that can reach it (digits or identifiers; an optional `+` is accepted by Rust) -/
def parseU32 (s : String) : Option Nat :=
  let cs := s.toList
  let cs := match cs with | '+' :: r => r | _ => cs
  if allDigits cs then (let n := digitsVal cs; if n < 2^32 then some n else none) else none

/-- `impl From<T: AsRef<str>> for ArraySize` -/
def ArraySize.ofStr (v : String) : ArraySize :=
  match parseU32 v with
  | some n => .known n
  | none => .constant v

inductive ArrayType where
  | none (t : BasicType)
  | fixed (t : BasicType) (s : ArraySize)
  | variable (t : BasicType) (s : Option ArraySize)
deriving Repr, DecidableEq, BEq

def ArrayType.unwrapArray : ArrayType → BasicType
  | .none t => t | .fixed t _ => t | .variable t _ => t

structure StructField where
  fieldName : String
  fieldValue : ArrayType
  isOptional : Bool
deriving Repr, DecidableEq, BEq

structure Struct where
  name : String
  fields : List StructField
deriving Repr, DecidableEq, BEq

structure UnionCase where
  caseValues : List String
  fieldName : String
  fieldValue : ArrayType
deriving Repr, DecidableEq, BEq

structure UnionSwitch where
  varName : String
  varType : BasicType
deriving Repr, DecidableEq, BEq

structure Union where
  name : String
  cases : List UnionCase
  default : Option UnionCase
  voidCases : List String
  switch : UnionSwitch
deriving Repr, DecidableEq, BEq

inductive VariantValue where
  | str (s : String)
  | numeric (i : Int)
deriving Repr, DecidableEq, BEq

def VariantValue.display : VariantValue → String
  | .str s => s
  | .numeric i => toString i

structure Variant where
  name : String
  value : VariantValue
deriving Repr, DecidableEq, BEq

structure Enum where
  name : String
  variants : List Variant
deriving Repr, DecidableEq, BEq

structure Typedef where
  target : BasicType
  alias : ArrayType
deriving Repr, DecidableEq, BEq

inductive AstType where
  | struct (s : Struct)
  | union (u : Union)
  | enum (e : Enum)
  | typedef (t : Typedef)
deriving Repr, DecidableEq, BEq

/-- `Display for AstType`: a typedef prints its *target* -/
def AstType.display : AstType → String
  | .struct s => s.name
  | .union u => u.name
  | .enum e => e.name
  | .typedef t => t.target.asStr

inductive ConstantType where
  | constValue (s : String)
  | enumValue (enumName : String) (variant : String)
deriving Repr, DecidableEq, BEq

def ConstantType.display : ConstantType → String
  | .constValue s => s
  | .enumValue e v => e ++ "::" ++ v

/-- `CompoundType::inner_types` for structs and unions -/
def Struct.innerTypes (s : Struct) : List ArrayType := s.fields.map (·.fieldValue)
def Union.innerTypes (u : Union) : List ArrayType :=
  (u.cases ++ u.default.toList).map (·.fieldValue)

def StructField.containsOpaque (f : StructField) : Bool := f.fieldValue.unwrapArray.isOpaque
def UnionCase.containsOpaque (c : UnionCase) : Bool := c.fieldValue.unwrapArray.isOpaque

/-- what `walk` leaves at the root after the constructors ran (`Node::Root` children that the indexes look at) -/
inductive Item where
  | constant (name : String) (value : String)
  | typedef (t : Typedef)
  | enum (e : Enum)
  | struct (s : Struct)
  | union (u : Union)
deriving Repr, DecidableEq, BEq

/-- The three indexes of `Ast` (BTreeMaps as key-sorted association lists, the HashSet as a list used only through membership). -/
structure Ast where
  constants : List (String × ConstantType)
  generics : List String
  types : List (String × AstType)
deriving Repr, BEq

end Fx
