/-
  Fx.OutputOk — a decidable well-formedness judgement on emitted modules that stands in
  for rustc (DESIGN §6 C07).  Its agreement with rustc is measured on every compiled batch.
-/
import Fx.Eval
import Fx.Lemmas.NoPanic
import Fx.Supported
namespace Fx

def primNames : List String := ["u32", "u64", "i32", "i64", "f32", "f64", "bool"]

/-- names a generated module may not use for its own items -/
def reservedTypeNames : List String :=
  rustKeywords ++ primNames ++ ["u8", "u16", "u128", "i8", "i16", "i128", "usize", "isize", "char", "String", "T", "Bytes", "Error",
    "Vec", "Option", "Box", "Result", "Self", "Some", "None", "Ok", "Err", "WireSize", "DeserialiserExt", "TryFrom", "Debug", "Buf"]

/-- local bindings of header.rs and of the emitted decoders: a tuple struct (typedef) or constant of the same
    name cannot be shadowed by `let`/pattern bindings (E0530) — finding K9 -/
def headerBindings : List String :=
  ["v", "inner", "n", "t", "b", "x", "l", "e", "sum", "out", "data", "limit", "pad", "padded", "max"]

def isIdent (s : String) : Bool :=
  match s.toList with
  | [] => false
  | c :: cs => (c.isAlpha || c = '_') && cs.all (fun c => c.isAlphanum || c = '_') && s != "_"

def declName : TypeDecl → String
  | .const n _ => n | .struct n _ _ => n | .union n _ _ => n | .enum n _ => n | .typedef n _ _ _ => n

def declGeneric : TypeDecl → Bool
  | .struct _ g _ => g | .union _ g _ => g | .typedef _ g _ _ => g | _ => false

def isTypeDecl : TypeDecl → Bool
  | .const _ _ => false
  | _ => true

def findDecl (m : Module) (n : String) : Option TypeDecl := m.types.find? fun d => isTypeDecl d && declName d == n

def TyExpr.usesT : TyExpr → Bool
  | .t => true | .pathT _ => true | .path _ => false | .string => false
  | .arr e _ => e.usesT | .vec e => e.usesT | .optBox e => e.usesT

/-- every named type resolves, with a parameter list iff its declaration has one -/
def TyExpr.wellFormed (m : Module) : TyExpr → Bool
  | .t => true
  | .string => true
  | .path s => primNames.contains s || (match findDecl m s with | some d => !declGeneric d | none => false)
  | .pathT s => (match findDecl m s with | some d => declGeneric d | none => false)
  | .arr e _ => e.wellFormed m
  | .vec e => e.wellFormed m
  | .optBox e => e.wellFormed m

def namedTy (m : Module) (n : String) : TyExpr :=
  match findDecl m n with
  | some d => if declGeneric d then .pathT n else .path n
  | none => .path n

def primTy : Prim → TyExpr
  | .u32 => .path "u32" | .u64 => .path "u64" | .i32 => .path "i32" | .i64 => .path "i64"
  | .f32 => .path "f32" | .f64 => .path "f64" | .bool => .path "bool"

/-- the Rust type of the value a decode expression produces (at `T := Bytes`) -/
def BasicDec.ty (m : Module) : BasicDec → TyExpr
  | .prim p => primTy p
  | .string => .string
  | .opaque => .t
  | .tryFrom n => namedTy m n

def tyEq : TyExpr → TyExpr → Bool
  | .t, .t => true
  | .string, .string => true
  | .path a, .path b => a == b
  | .pathT a, .pathT b => a == b
  | .arr a _, .arr b _ => tyEq a b           -- lengths compared separately
  | .vec a, .vec b => tyEq a b
  | .optBox a, .optBox b => tyEq a b
  | _, _ => false

def arrLen (a : Ast) : TyExpr → Option Nat
  | .arr _ s => (match resolveSize a s with | .ok n => some n | _ => none)
  | _ => none

/-- does a decode expression produce the declared type? -/
def FieldDec.fits (a : Ast) (m : Module) (fd : FieldDec) (declared : TyExpr) : Bool :=
  match fd with
  | .one b => tyEq (b.ty m) declared
  | .fixedBytes _ => tyEq .t declared
  | .fixedArr n b => (match declared with
      | .arr e _ => (n == 0 || tyEq (b.ty m) e) && arrLen a declared == some n
      | _ => false)
  | .varBytes _ => tyEq .t declared
  | .varString _ => tyEq .string declared
  | .varArr ty g _ =>
    (match declared with
     | .vec e => tyEq (if g then .pathT ty else .path ty) e && (findDecl m ty).isSome && (match findDecl m ty with | some d => declGeneric d == g | none => false)
     | _ => false)

inductive ScrutTy where
  | int (p : Prim)        -- u32 / i32 / u64 / i64
  | bool
  | enum (name : String)
  | other
deriving Repr, DecidableEq

def scrutTyOf (a : Ast) : BasicDec → ScrutTy
  | .prim .u32 => .int .u32 | .prim .i32 => .int .i32 | .prim .u64 => .int .u64 | .prim .i64 => .int .i64
  | .prim .bool => .bool
  | .tryFrom n => (match enumOf a n with | some _ => .enum n | none => .other)
  | _ => .other

def intFits : Prim → Nat → Bool
  | .u32, n => n < 2^32 | .i32, n => n < 2^31 | .u64, n => n < 2^64 | .i64, n => n < 2^63
  | _, _ => false

/-- is a verbatim pattern well-typed against the scrutinee? -/
def litOk (a : Ast) (st : ScrutTy) (text : String) : Bool :=
  match parseIntLit text with
  | some n => (match st with | .int p => intFits p n | _ => false)
  | none =>
    if text == "true" || text == "false" then st == .bool
    else if !isIdent text then false
    else match a.getConst text with
      | some (.constValue _) => st == .int .u32        -- a `pub const X: u32` used as a constant pattern
      | _ => !(isKeyword text)                          -- any other identifier is a binding

def patOk (a : Ast) (st : ScrutTy) : Pat → Bool
  | .wild => true
  | .lit t => litOk a st t
  | .guard e v castTy =>
    (enumDisc a e v).isSome &&
    (match st with
     | .int p => castTy == (match p with | .u32 => "u32" | .i32 => "i32" | .u64 => "u64" | .i64 => "i64" | _ => "")
     | .enum n => castTy == n && e == n
     | _ => false)

def variantNamesNodup (vs : List String) : Bool := (vs.map nonDigitName).eraseDups.length == vs.length

def findVariant (vs : List (String × Option TyExpr)) (v : String) : Option (Option TyExpr) :=
  (vs.find? fun x => nonDigitName x.1 == nonDigitName v).map (·.2)

/-- the part of `implOk` that is about *types*: the decoder of a declaration produces exactly the type the type emitter
    declared — parameter list, every field, every variant payload, every pattern against the scrutinee's type
    (proved for every supported specification: `Lemmas/Fits`, `C07_decoders_fit_declarations`) -/
def implFits (a : Ast) (m : Module) (i : Impl) : Bool :=
  match findDecl m i.name with
  | none => false
  | some d =>
    declGeneric d == i.generic && i.body.okFor m.plans &&
    (match i.body, d with
     | .struct fs, .struct _ _ dfs =>
       fs.length == dfs.length &&
       (fs.zip dfs).all fun (f, (dn, dt)) =>
         (match f with
          | .plain n fd => n == dn && fd.fits a m dt
          | .optional n ty => n == dn && tyEq (.optBox (namedTy m ty)) dt && (findDecl m ty).isSome)
     | .union u, .union _ _ vs =>
       let st := scrutTyOf a u.disc
       st != .other &&
       u.arms.all (fun arm => patOk a st arm.pat &&
         (match findVariant vs arm.variant, arm.payload with
          | some (some t), some fd => fd.fits a m t
          | some none, none => true
          | _, _ => false)) &&
       (match u.tail with
        | .defaultData fd => (match findVariant vs "default" with | some (some t) => fd.fits a m t | _ => false)
        | _ => true)
     | .enum arms, .enum _ vs =>
       arms.all (fun (p, mem) => (match p with | .numeric n => 0 ≤ n && n < 2^31 | .str _ => false) && (vs.any fun x => x.1 == mem))
     | .typedef fd, .typedef _ _ _ inner => fd.fits a m inner
     | _, _ => false)

/-- the part of `implOk` that is about *names*: the switch variable is bound by a `let` in the emitted decoder, next to the
    buffer `v` -/
def implHygiene (m : Module) (i : Impl) : Bool :=
  match i.body with
  | .union u =>
    u.swVar != "v" && isIdent (safeName u.swVar) &&
    -- `let <switch variable> = …`: a `let` binding cannot shadow a tuple struct (a typedef of the module) or a constant (E0530, finding K9)
    !(m.types.any fun d => match d with
        | .const n _ => n == safeName u.swVar
        | .typedef n _ _ _ => n == safeName u.swVar
        | _ => false)
  | _ => true

def implOk (a : Ast) (m : Module) (i : Impl) : Bool := implFits a m i && implHygiene m i

/-- does the module bind `d` (`d => return Err(..)`) / `c` (`c if c == ..`) in a pattern? -/
def usesD (m : Module) : Bool :=
  m.fromRefMut.any fun i => match i.body with
    | .enum _ => true
    | .union u => (match u.tail with | .errUnknown => true | _ => false)
    | .struct fs => fs.any fun f => match f with | .optional _ _ => true | _ => false
    | .typedef _ => false

def usesC (m : Module) : Bool :=
  m.fromRefMut.any fun i => match i.body with
    | .union u => u.arms.any fun arm => match arm.pat with | .guard _ _ _ => true | _ => false
    | _ => false

def bindingNamesOf (m : Module) : List String :=
  headerBindings ++ (if usesD m then ["d"] else []) ++ (if usesC m then ["c"] else [])

/-- the value of a `pub const X: u32 = v;`: an integer literal that fits, or the name of another constant of the module whose own
    value resolves (rustc rejects a cycle) -/
def constResolves (m : Module) : Nat → String → Bool
  | 0, _ => false
  | fuel + 1, v =>
    match parseIntLit v with
    | some x => x < 2^32
    | none =>
      isIdent v && !(isKeyword v) &&
      (match m.types.find? (fun d => match d with | .const n _ => n == v | _ => false) with
       | some (.const _ v') => constResolves m fuel v'
       | _ => false)

/-- the part of `declOk` that is about *types*: every type written in the declaration resolves (with a parameter list iff the
    named declaration has one), and the declaration itself carries the parameter exactly when it is used
    (proved for every supported specification: `C07_declarations_fit`) -/
def declFits (m : Module) : TypeDecl → Bool
  | .struct _ g fs => fs.all (fun f => f.2.wellFormed m) && (fs.any (·.2.usesT)) == g
  | .union _ g vs =>
    vs.all (fun v => match v.2 with | some t => t.wellFormed m | none => true) &&
    (vs.any fun v => match v.2 with | some t => t.usesT | none => false) == g
  | .typedef _ g _ inner => inner.wellFormed m && inner.usesT == g
  | _ => true

/-- the part of `declOk` that is about *names and values*: identifiers, reserved names, the bindings of finding K9, duplicate
    fields / variants / members / values, constant values that resolve and fit -/
def declHygiene (m : Module) : TypeDecl → Bool
  | .const n v => isIdent n && !(reservedTypeNames.contains n) &&
      -- a constant named like a `let` binding or like the `d` of `d => return Err(..)` does not compile (E0530 / E0004); one named `c`
      -- does: `c if c == E::V as ty` then reads `c` as a constant pattern (finding K14 — it compiles and decodes wrongly)
      !(((bindingNamesOf m).filter (· != "c")).contains n) &&
      constResolves m (m.types.length + 1) v
  | .struct n _ fs =>
    isIdent n && !(reservedTypeNames.contains n) && fs.all (fun f => isIdent (safeName f.1)) &&
    ((fs.map fun f => safeName f.1).eraseDups.length == fs.length)
  | .union n _ vs =>
    isIdent n && !(reservedTypeNames.contains n) &&
    vs.all (fun v => isIdent (nonDigitName v.1) && !(isKeyword (nonDigitName v.1))) && variantNamesNodup (vs.map (·.1))
  | .enum n vs =>
    isIdent n && !(reservedTypeNames.contains n) && !vs.isEmpty &&
    vs.all (fun v => isIdent v.1 && !(isKeyword v.1) && (match parseIntLit v.2 with | some x => x < 2^32 | none => false)) &&
    ((vs.map (·.1)).eraseDups.length == vs.length) &&
    ((vs.filterMap fun v => parseIntLit v.2).eraseDups.length == vs.length)
  | .typedef n _ _ _ => isIdent n && !(reservedTypeNames.contains n) && !((bindingNamesOf m).contains n)

def declOk (_a : Ast) (m : Module) (d : TypeDecl) : Bool := declFits m d && declHygiene m d

/-- names used in a type expression without indirection (`Vec`, `Box`): a cycle through these is an infinite type -/
def TyExpr.directRefs : TyExpr → List String
  | .path s => [s] | .pathT s => [s]
  | .arr e _ => e.directRefs
  | .vec _ => [] | .optBox _ => [] | .t => [] | .string => []

def declDirectRefs : TypeDecl → List String
  | .struct _ _ fs => (fs.map fun f => f.2.directRefs).flatten
  | .union _ _ vs => (vs.map fun v => match v.2 with | some t => t.directRefs | none => []).flatten
  | .typedef _ _ _ inner => inner.directRefs
  | _ => []

/-- can `target` be reached from `from_` through direct (unboxed) containment within `fuel` steps? -/
def reachesDirect (m : Module) : Nat → String → String → Bool
  | 0, _, _ => false
  | fuel+1, from_, target =>
    match findDecl m from_ with
    | none => false
    | some d => (declDirectRefs d).any fun r => r == target || reachesDirect m fuel r target

def noInfiniteType (m : Module) : Bool :=
  m.types.all fun d => !(isTypeDecl d) || !(reachesDirect m (m.types.length + 1) (declName d) (declName d))

/-- the judgement: every declaration is well-formed, every impl fits its declaration, all names are distinct,
    no type contains itself without indirection -/
def outputOk (a : Ast) (m : Module) : Bool :=
  m.types.all (declOk a m) &&
  m.fromRefMut.all (implOk a m) &&
  decide (m.fromBytes = m.fromRefMut) &&
  (let tyNames := (m.types.filter isTypeDecl).map declName
   let valNames := m.types.filterMap fun d => match d with
     | .const n _ => some n | .typedef n _ _ _ => some n | _ => none
   tyNames.eraseDups.length == tyNames.length && valNames.eraseDups.length == valNames.length) &&
  (m.fromRefMut.map (·.name)) == (m.sizes.map (·.name)) &&
  noInfiniteType m

/-! ### the judgement, split into its type part and its name part -/

/-- a struct / union declaration carries the byte-container parameter exactly when one of its field / payload types mentions it
    (what `C13_struct_param_iff_used` / `C13_union_param_iff_used` prove of every `Ast` the front end builds) -/
def paramsUsed (a : Ast) : Bool :=
  a.types.all fun kv =>
    match kv.2 with
    | .struct s => a.isGeneric kv.1 ==
        (s.fields.any fun f => (if f.isOptional then TyExpr.optBox (payloadTy a f.fieldValue) else payloadTy a f.fieldValue).usesT)
    | .union u => a.isGeneric kv.1 == ((unionVariants a u).any fun v => match v.2 with | some t => t.usesT | none => false)
    | _ => true

/-- the *type* part of `outputOk`: what the three emitters must agree on -/
def outputTypesOk (a : Ast) (m : Module) : Bool :=
  m.types.all (declFits m) && m.fromRefMut.all (implFits a m) && decide (m.fromBytes = m.fromRefMut) &&
  (m.fromRefMut.map (·.name)) == (m.sizes.map (·.name))

/-- the *name* part of `outputOk`: what depends on the names the specification chooses (and on recursion without indirection) -/
def outputHygiene (m : Module) : Bool :=
  m.types.all (declHygiene m) && m.fromRefMut.all (implHygiene m) &&
  (let tyNames := (m.types.filter isTypeDecl).map declName
   let valNames := m.types.filterMap fun d => match d with
     | .const n _ => some n | .typedef n _ _ _ => some n | _ => none
   tyNames.eraseDups.length == tyNames.length && valNames.eraseDups.length == valNames.length) &&
  noInfiniteType m

theorem all_and' {α} (p q : α → Bool) : ∀ (l : List α), l.all (fun x => p x && q x) = (l.all p && l.all q)
  | [] => rfl
  | x :: xs => by
    simp only [List.all_cons, all_and' p q xs]
    cases p x <;> cases q x <;> cases xs.all p <;> cases xs.all q <;> rfl

/-- `outputOk` is exactly its two parts -/
theorem outputOk_split (a : Ast) (m : Module) : outputOk a m = (outputTypesOk a m && outputHygiene m) := by
  have h1 : m.types.all (declOk a m) = (m.types.all (declFits m) && m.types.all (declHygiene m)) := all_and' _ _ _
  have h2 : m.fromRefMut.all (implOk a m) = (m.fromRefMut.all (implFits a m) && m.fromRefMut.all (implHygiene m)) := all_and' _ _ _
  simp only [outputOk, outputTypesOk, outputHygiene, h1, h2]
  cases m.types.all (declFits m) <;> cases m.types.all (declHygiene m) <;> cases m.fromRefMut.all (implFits a m) <;>
    cases m.fromRefMut.all (implHygiene m) <;> cases (decide (m.fromBytes = m.fromRefMut)) <;>
    cases ((m.fromRefMut.map (·.name)) == (m.sizes.map (·.name))) <;> cases noInfiniteType m <;> simp

end Fx
