/-
  Fx.FrontDriver — `ast …` requests: canonical dump of the model's `Ast`
  (same format as harness/front/src/main.rs).
-/
import Fx.Index
import Fx.Proto
namespace Fx

def qChar (c : Char) : String :=
  if isAsciiAlnumU c then String.singleton c
  else String.join ((String.singleton c).toUTF8.toList.map fun b => "\\x" ++ hexOfBytes [b])
where isAsciiAlnumU (c : Char) : Bool := Peg.isAsciiAlnum c || c = '_'

def q (s : String) : String := String.join (s.toList.map qChar)

def BasicType.dump : BasicType → String
  | .u32 => "u32" | .u64 => "u64" | .i32 => "i32" | .i64 => "i64" | .f32 => "f32" | .f64 => "f64"
  | .string => "string" | .bool => "bool" | .opaque => "opaque"
  | .ident s => "I\"" ++ q s ++ "\""

def ArraySize.dump : ArraySize → String
  | .known n => "K" ++ toString n
  | .constant c => "C\"" ++ q c ++ "\""

def ArrayType.dump : ArrayType → String
  | .none b => "N(" ++ b.dump ++ ")"
  | .fixed b s => "F(" ++ b.dump ++ "," ++ s.dump ++ ")"
  | .variable b s => "V(" ++ b.dump ++ "," ++ (match s with | Option.some s => s.dump | Option.none => "-") ++ ")"

def UnionCase.dump (c : UnionCase) : String :=
  "([" ++ ",".intercalate (c.caseValues.map q) ++ "];" ++ q c.fieldName ++ ";" ++ c.fieldValue.dump ++ ")"

def AstType.dump : AstType → String
  | .struct s => "S(" ++ q s.name ++ ";[" ++ ",".intercalate (s.fields.map fun f =>
      q f.fieldName ++ ":" ++ f.fieldValue.dump ++ (if f.isOptional then ":opt" else ":req")) ++ "])"
  | .union u => "U(" ++ q u.name ++ ";sw=" ++ q u.switch.varName ++ ":" ++ u.switch.varType.dump ++
      ";cases=[" ++ ",".intercalate (u.cases.map UnionCase.dump) ++ "];default=" ++
      (match u.default with | some c => c.dump | none => "-") ++
      ";void=[" ++ ",".intercalate (u.voidCases.map q) ++ "])"
  | .enum e => "E(" ++ q e.name ++ ";[" ++ ",".intercalate (e.variants.map fun v =>
      q v.name ++ "=" ++ (match v.value with | .numeric n => "N" ++ toString n | .str s => "S\"" ++ q s ++ "\"")) ++ "])"
  | .typedef t => "D(target=" ++ t.target.dump ++ ";alias=" ++ t.alias.dump ++ ")"

def sortStrings (l : List String) : List String := (l.toArray.qsort (· < ·)).toList

def Ast.dump (a : Ast) : String :=
  "C{" ++ "|".intercalate (a.constants.map fun (k, v) => q k ++ "=" ++ (match v with
      | .constValue s => "V:" ++ q s
      | .enumValue e v => "E:" ++ q e ++ "::" ++ q v)) ++
  "};G{" ++ ",".intercalate ((sortStrings a.generics).map q) ++
  "};T{" ++ "|".intercalate (a.types.map fun (k, v) => q k ++ "=" ++ v.dump) ++ "}"

def FrontRes.show : FrontRes → String
  | .ok a => "ok " ++ a.dump
  | .err => "err"
  | .panicAt f m => "panic " ++ f ++ " " ++ m
  | .outOfFuel => "out-of-fuel"

def textOfHex (h : String) : Option String :=
  match bytesOfHex h with
  | some bs => String.fromUTF8? (ByteArray.mk bs.toArray)
  | none => none

def frontRequest (f : List String) : String :=
  match f with
  | [h] => match textOfHex h with
    | some t => (Ast.new t).show
    | none => "bad-op"
  | _ => "bad-op"

end Fx
