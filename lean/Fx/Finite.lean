/-
  Fx.Finite — which decoder references can recurse without consuming input, and the decidable "finite types" condition
  (hypothesis of the termination theorem; evaluated by the driver for every specification).
-/
import Fx.Eval
namespace Fx

/-! ### direct references -/

def BasicDec.direct : BasicDec → List String
  | .tryFrom n => [n]
  | _ => []

def FieldDec.direct : FieldDec → List String
  | .one b => b.direct
  | .fixedArr _ b => b.direct
  | _ => []

def StructFieldDec.direct : StructFieldDec → List String
  | .plain _ fd => fd.direct
  | .optional _ _ => []

def Arm.direct (a : Arm) : List String :=
  match a.payload with
  | some fd => fd.direct
  | none => []

def Tail.direct : Tail → List String
  | .defaultData fd => fd.direct
  | _ => []

def ImplBody.direct : ImplBody → List String
  | .struct fs => fs.flatMap StructFieldDec.direct
  | .union u => u.disc.direct ++ u.arms.flatMap Arm.direct ++ u.tail.direct
  | .enum _ => []
  | .typedef fd => fd.direct

/-- every direct reference goes down in rank -/
def Plans.Ranked (p : Plans) (rk : String → Nat) : Prop :=
  ∀ i ∈ p.impls, ∀ m ∈ i.body.direct, rk m < rk i.name

/-! ### a computable ranking -/

def Plans.rankOf (p : Plans) : Nat → String → Nat
  | 0, _ => 0
  | fuel + 1, n =>
    match p.findImpl n with
    | none => 0
    | some i => (i.body.direct.map (p.rankOf fuel)).foldr max 0 + 1

/-- finite types: the computed ranking strictly decreases along every direct reference -/
def Plans.finite (p : Plans) : Bool :=
  let rk := p.rankOf (p.impls.length + 1)
  p.impls.all fun i => i.body.direct.all fun m => decide (rk m < rk i.name)

/-! ### decoders that surely consume input (an array element of zero encoded size has no bound on its count) -/

def BasicDec.sureWith (rec : String → Bool) : BasicDec → Bool
  | .tryFrom n => rec n
  | _ => true

def FieldDec.sureWith (rec : String → Bool) : FieldDec → Bool
  | .one b => b.sureWith rec
  | .fixedBytes n => decide (0 < n)
  | .fixedArr k b => decide (0 < k) && b.sureWith rec
  | _ => true

def StructFieldDec.sureWith (rec : String → Bool) : StructFieldDec → Bool
  | .plain _ fd => fd.sureWith rec
  | .optional _ _ => true

def ImplBody.sureWith (rec : String → Bool) : ImplBody → Bool
  | .struct fs => fs.any (·.sureWith rec)
  | .union u => u.disc.sureWith rec
  | .enum _ => true
  | .typedef fd => fd.sureWith rec

/-- a successful decode of `n` consumes at least one word (checked to depth `g`) -/
def Plans.sure (p : Plans) : Nat → String → Bool
  | 0, _ => false
  | g + 1, n =>
    match p.findImpl n with
    | none => false
    | some i => i.body.sureWith (p.sure g)

def FieldDec.elemTypes : FieldDec → List String
  | .varArr ty _ _ => [ty]
  | _ => []

def ImplBody.elemTypes : ImplBody → List String
  | .struct fs => fs.flatMap fun f => match f with | .plain _ fd => fd.elemTypes | .optional _ _ => []
  | .union u => (u.arms.flatMap fun a => match a.payload with | some fd => fd.elemTypes | none => []) ++
      (match u.tail with | .defaultData fd => fd.elemTypes | _ => [])
  | .enum _ => []
  | .typedef fd => fd.elemTypes

/-- every element type of every counted array surely consumes input -/
def Plans.elemsSure (p : Plans) : Bool :=
  p.impls.all fun i => i.body.elemTypes.all (p.sure (p.impls.length + 1))

/-! ### all references (direct ones, `Option<Box<_>>` targets, `Vec<_>` element types) -/

def FieldDec.allRefs : FieldDec → List String
  | .one b => b.direct
  | .fixedArr _ b => b.direct
  | .varArr ty _ _ => [ty]
  | _ => []

def StructFieldDec.allRefs : StructFieldDec → List String
  | .plain _ fd => fd.allRefs
  | .optional _ ty => [ty]

def Arm.allRefs (a : Arm) : List String :=
  match a.payload with
  | some fd => fd.allRefs
  | none => []

def Tail.allRefs : Tail → List String
  | .defaultData fd => fd.allRefs
  | _ => []

def ImplBody.allRefs : ImplBody → List String
  | .struct fs => fs.flatMap StructFieldDec.allRefs
  | .union u => u.disc.direct ++ u.arms.flatMap Arm.allRefs ++ u.tail.allRefs
  | .enum _ => []
  | .typedef fd => fd.allRefs

/-! ### the budget each evaluator needs, given the budget `rec` of the named decoders it calls -/

def BasicDec.need (rec : String → Nat) : BasicDec → Nat
  | .tryFrom n => rec n + 1
  | _ => 1

def FieldDec.need (rec : String → Nat) : FieldDec → Nat
  | .one b => b.need rec + 1
  | .fixedArr k b => k + b.need rec + 2
  | .varArr ty _ _ => rec ty + 1
  | _ => 1

def StructFieldDec.need (rec : String → Nat) : StructFieldDec → Nat
  | .plain _ fd => fd.need rec
  | .optional _ ty => rec ty

def fieldsNeed (rec : String → Nat) : List StructFieldDec → Nat
  | [] => 1
  | f :: fs => max (f.need rec) (fieldsNeed rec fs) + 1

def Arm.need (rec : String → Nat) (a : Arm) : Nat :=
  match a.payload with
  | some fd => fd.need rec
  | none => 0

def armsNeed (rec : String → Nat) : List Arm → Nat
  | [] => 0
  | a :: as => max (a.need rec) (armsNeed rec as)

def Tail.need (rec : String → Nat) : Tail → Nat
  | .defaultData fd => fd.need rec
  | _ => 0

def ImplBody.need (rec : String → Nat) : ImplBody → Nat
  | .struct fs => fieldsNeed rec fs + 1
  | .union u => max (u.disc.need rec) (max (armsNeed rec u.arms) (u.tail.need rec)) + 1
  | .enum _ => 1
  | .typedef fd => fd.need rec + 1

/-- the budget of the decoder of `n`, following references to depth `g` -/
def Plans.need (p : Plans) : Nat → String → Nat
  | 0, _ => 0
  | g + 1, n =>
    match p.findImpl n with
    | none => 1
    | some i => i.body.need (p.need g)

/-- a computable ranking over *all* references -/
def Plans.rankAll (p : Plans) : Nat → String → Nat
  | 0, _ => 0
  | fuel + 1, n =>
    match p.findImpl n with
    | none => 0
    | some i => (i.body.allRefs.map (p.rankAll fuel)).foldr max 0 + 1

/-- no recursive types at all: the computed ranking strictly decreases along every reference -/
def Plans.acyclic (p : Plans) : Bool :=
  let rk := p.rankAll (p.impls.length + 1)
  p.impls.all fun i => i.body.allRefs.all fun m => decide (rk m < rk i.name)

/-- the nesting budget of the decoder of `n`: a number computed from the plans alone -/
def Plans.depth (p : Plans) (n : String) : Nat :=
  p.need (p.rankAll (p.impls.length + 1) n + 1) n

end Fx
