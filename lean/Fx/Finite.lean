/-
  Fx.Finite — which decoder references can recurse without consuming input, and the decidable "finite types" condition
  (hypothesis of the termination theorem; evaluated by the driver for every specification).
-/
import Fx.Eval
namespace Fx

/-! ### direct references -/

def BasicDec.direct : BasicDec → List String
  | .tryFrom n => [n]
  | _ => []

def FieldDec.direct : FieldDec → List String
  | .one b => b.direct
  | .fixedArr _ b => b.direct
  | _ => []

def StructFieldDec.direct : StructFieldDec → List String
  | .plain _ fd => fd.direct
  | .optional _ _ => []

def Arm.direct (a : Arm) : List String :=
  match a.payload with
  | some fd => fd.direct
  | none => []

def Tail.direct : Tail → List String
  | .defaultData fd => fd.direct
  | _ => []

def ImplBody.direct : ImplBody → List String
  | .struct fs => fs.flatMap StructFieldDec.direct
  | .union u => u.disc.direct ++ u.arms.flatMap Arm.direct ++ u.tail.direct
  | .enum _ => []
  | .typedef fd => fd.direct

/-- every direct reference goes down in rank -/
def Plans.Ranked (p : Plans) (rk : String → Nat) : Prop :=
  ∀ i ∈ p.impls, ∀ m ∈ i.body.direct, rk m < rk i.name

/-! ### a computable ranking -/

def Plans.rankOf (p : Plans) : Nat → String → Nat
  | 0, _ => 0
  | fuel + 1, n =>
    match p.findImpl n with
    | none => 0
    | some i => (i.body.direct.map (p.rankOf fuel)).foldr max 0 + 1

/-- finite types: the computed ranking strictly decreases along every direct reference -/
def Plans.finite (p : Plans) : Bool :=
  let rk := p.rankOf (p.impls.length + 1)
  p.impls.all fun i => i.body.direct.all fun m => decide (rk m < rk i.name)

end Fx
