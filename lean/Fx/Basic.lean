/-
  Fx.Basic — bytes, cursors, outcomes and Rust-side values.

  Models (does not verify) the part of the `bytes` crate that `src/header.rs`
  uses: a `Bytes` handle is a window `data` that sits at absolute offset `off`
  inside the caller's input allocation.  `slice`/`clone` never copy, so every
  `Bytes` value a decoder can produce is such a window; the only copy the
  runtime makes is `read_string` (into a `String`).  The allocation log `log`
  rides along with the cursor (it is global state of the decode call).
-/
namespace Fx

abbrev Byte := UInt8

/-- Allocation requests made by the runtime during one decode call. -/
inductive Ev where
  | vec (n : Nat)      -- `Vec::with_capacity(n)`: n elements reserved
  | str (n : Nat)      -- `read_string`: copy of n payload bytes
  | box                -- `Box::new` for an optional link
deriving Repr, DecidableEq, BEq

/-- `xdr::Error` of the generated module. -/
inductive Err where
  | invalidLength
  | nonUtf8String
  | invalidBoolean
  | unknownVariant (d : Int)
  | unknownOptionVariant (d : Nat)
  | unknown (s : String)
deriving Repr, DecidableEq, BEq

/-- A `Bytes` cursor plus the allocation log of the call so far. -/
structure Cur where
  off : Nat
  data : List Byte
  log : List Ev := []
deriving Repr, DecidableEq

def Cur.remaining (c : Cur) : Nat := c.data.length

/-- `Buf::advance(n)` when `n ≤ remaining` (the panic when it is not is in `Runtime.advanceP`). -/
def Cur.advance (c : Cur) (n : Nat) : Cur :=
  { c with off := c.off + n, data := c.data.drop n }

def Cur.addLog (c : Cur) (e : Ev) : Cur := { c with log := c.log ++ [e] }

/-- Outcome of running generated code. `panic`/`abort` are the outcomes C04 forbids. -/
inductive Res (α : Type) where
  | ok (a : α) (c : Cur)
  | err (e : Err) (log : List Ev)
  | panic (site : String)
  | abort
  | outOfFuel
deriving Repr

def Res.bind {α β} (r : Res α) (f : α → Cur → Res β) : Res β :=
  match r with
  | .ok a c => f a c
  | .err e l => .err e l
  | .panic s => .panic s
  | .abort => .abort
  | .outOfFuel => .outOfFuel

@[simp] theorem Res.bind_ok {α β} (a : α) (c : Cur) (f : α → Cur → Res β) :
    (Res.ok a c).bind f = f a c := rfl
@[simp] theorem Res.bind_err {α β} (e : Err) (l) (f : α → Cur → Res β) :
    (Res.err e l : Res α).bind f = .err e l := rfl
@[simp] theorem Res.bind_panic {α β} (s) (f : α → Cur → Res β) :
    (Res.panic s : Res α).bind f = .panic s := rfl
@[simp] theorem Res.bind_abort {α β} (f : α → Cur → Res β) :
    (Res.abort : Res α).bind f = .abort := rfl
@[simp] theorem Res.bind_outOfFuel {α β} (f : α → Cur → Res β) :
    (Res.outOfFuel : Res α).bind f = .outOfFuel := rfl

def Res.map {α β} (r : Res α) (g : α → β) : Res β := r.bind fun a c => .ok (g a) c

/-- The outcomes C04 forbids. -/
def Res.isBad {α} : Res α → Bool
  | .panic _ => true
  | .abort => true
  | _ => false

def Res.isOk {α} : Res α → Bool
  | .ok _ _ => true
  | _ => false

/-! ### big-endian words -/

def padLen (l : Nat) : Nat := if l % 4 = 0 then 0 else 4 - l % 4

def be32 (n : Nat) : List Byte :=
  [UInt8.ofNat (n / 2^24 % 256), UInt8.ofNat (n / 2^16 % 256),
   UInt8.ofNat (n / 2^8 % 256), UInt8.ofNat (n % 256)]

def be64 (n : Nat) : List Byte := be32 (n / 2^32 % 2^32) ++ be32 (n % 2^32)

def zeros (k : Nat) : List Byte := List.replicate k 0

/-- two's complement, width `w` bits -/
def toSigned (w : Nat) (n : Nat) : Int := if n < 2^(w-1) then (n : Int) else (n : Int) - (2^w : Nat)
def ofSigned (w : Nat) (i : Int) : Nat := (i % ((2^w : Nat) : Int)).toNat

/-! ### Rust-side values (what a generated decoder returns) -/

mutual
inductive Val where
  | u32 (n : Nat) | u64 (n : Nat) | i32 (i : Int) | i64 (i : Int)
  | f32 (bits : Nat) | f64 (bits : Nat) | bool (b : Bool)
  | str (bs : List Byte)                      -- `String` (its UTF-8 bytes)
  | bytes (off : Nat) (bs : List Byte)        -- `Bytes`: a window of the input at absolute offset `off`
  | vec (xs : Vals)                           -- `Vec<_>`
  | arr (xs : Vals)                           -- `[_; n]`
  | none                                      -- `Option::None`
  | some (v : Val)                            -- `Some(Box::new(v))`
  | struct (name : String) (fnames : List String) (fs : Vals)
  | unit (ty : String) (variant : String)     -- payload-less enum variant of a union
  | tuple (ty : String) (variant : String) (v : Val)
  | newtype (name : String) (v : Val)
  | cenum (name : String) (member : String)   -- C-like enum
inductive Vals where
  | nil
  | cons (v : Val) (vs : Vals)
end

instance : Inhabited Val := ⟨.none⟩

def Vals.toList : Vals → List Val
  | .nil => []
  | .cons v vs => v :: vs.toList

def Vals.ofList : List Val → Vals
  | [] => .nil
  | v :: vs => .cons v (Vals.ofList vs)

def Vals.len : Vals → Nat
  | .nil => 0
  | .cons _ vs => vs.len + 1

def Vals.snoc : Vals → Val → Vals
  | .nil, x => .cons x .nil
  | .cons v vs, x => .cons v (vs.snoc x)

def Vals.append : Vals → Vals → Vals
  | .nil, ys => ys
  | .cons v vs, ys => .cons v (vs.append ys)

end Fx
