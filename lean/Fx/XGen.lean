/-
  Fx.XGen — random well-typed XDR values, generated from the reference typing
  (used by the driver to produce inputs for T2; no proof depends on it).
-/
import Fx.Xdr
namespace Fx

structure Rng where
  s : Nat
  victim : Nat := 0      -- k > 0: the k-th bounded position met gets a length of max + 1 (hostile "over the maximum, bytes present" inputs)
  hit : Bool := false
  spine : Nat := 0       -- s + 1: "spine" mode — every counted array of a named type holds exactly one element for s more levels, then none
                         -- (a path of nesting depth s through the counted arrays of a recursive type); 0: off
  left : Nat := 200      -- elements of counted arrays still allowed in this value: a type that recurses through several counted
                         -- arrays per level (`st4 { st5 xs<>; st5 ys<4>; }`, `st5 { st4 a; st4 b; st4 c; }`) would otherwise grow like 18^depth

def Rng.next (r : Rng) : Nat × Rng :=
  let s := (r.s * 6364136223846793005 + 1442695040888963407) % 2^64
  (s / 2^33, { r with s := s })

def Rng.below (r : Rng) (n : Nat) : Nat × Rng :=
  let (x, r') := r.next
  (if n = 0 then 0 else x % n, r')

def genBytes : Nat → Rng → List Byte × Rng
  | 0, r => ([], r)
  | k+1, r =>
    let (x, r1) := r.below 256
    let (rest, r2) := genBytes k r1
    (UInt8.ofNat x :: rest, r2)

/-- opaque payloads: random bytes, or (one time in three) a single byte repeated — all zeros, all ones, spaces —
    the contents real protocols are full of (anonymous ids, zero verifiers, padding-like data) -/
def fillOf (n : Nat) (b : Byte) : List Byte := List.replicate n b

def genPayload (n : Nat) (r : Rng) : List Byte × Rng :=
  match r.below 6 with
  | (0, r1) => (fillOf n 0, r1)
  | (1, r1) => (fillOf n 0xFF, r1)
  | (2, r1) => (fillOf n 0x20, r1)
  | (_, r1) => genBytes n r1

def genAscii : Nat → Rng → List Byte × Rng
  | 0, r => ([], r)
  | k+1, r =>
    let (x, r1) := r.below 26
    let (rest, r2) := genAscii k r1
    (UInt8.ofNat (97 + x) :: rest, r2)

/-- exactly `n` bytes of well-formed UTF-8 mixing characters of 1 to 4 bytes (byte length ≠ character count) -/
def genUtf8 : Nat → Nat → Rng → List Byte × Rng
  | 0, _, r => ([], r)
  | _, 0, r => ([], r)
  | fuel+1, n, r =>
    let (w0, r1) := r.below 4
    let w := min (w0 + 1) n
    let (x, r2) := r1.below 26
    let ch : List Byte :=
      -- one-byte characters: a letter, or (1 in 13) the NUL character, a space or a quote — U+0000 is a character like any other,
      -- inside a string and as its last byte (a reader that treats strings as C strings shows here)
      if w = 1 then (if x = 0 then [0] else if x = 1 then [0x20] else [UInt8.ofNat (97 + x)])
      else if w = 2 then [0xC3, UInt8.ofNat (0xA0 + x)]                 -- à … ù
      else if w = 3 then [0xE6, 0x97, UInt8.ofNat (0xA5 + x % 8)]       -- CJK
      else [0xF0, 0x9F, 0x98, UInt8.ofNat (0x80 + x)]                    -- emoji
    let (rest, r3) := genUtf8 fuel (n - w) r2
    (ch ++ rest, r3)

/-- a length for an opaque/string/array with an optional maximum: small, every residue mod 4, sometimes the maximum -/
def genLen (lim : Option Nat) (small : Nat) (r : Rng) : Nat × Rng :=
  let (c, r1) := r.below 8
  match lim with
  | some m =>
    -- a huge declared maximum (2^31, 2^32-1, …) is never reached by a generated value
    if m > 2048 then (if c = 1 then (0, r1) else let (k, r2) := r1.below (small + 1); (k, r2))
    else
    if r1.victim = 1 then (m + 1, { r1 with victim := 0, hit := true })
    else
    let r1 := if r1.victim > 1 then { r1 with victim := r1.victim - 1 } else r1
    if c = 0 then (m, r1)
    else if c = 1 then (0, r1)
    else let (k, r2) := r1.below (min m small + 1); (k, r2)
  | none =>
    if c = 1 then (0, r1) else let (k, r2) := r1.below (small + 1); (k, r2)

def interesting32 : List Nat := [0, 1, 2, 255, 256, 65535, 65536, 2^24 - 1, 2^24, 2^31 - 1, 2^31, 2^31 + 1, 2^32 - 2, 2^32 - 1,
  0x7fc00000, 0x7f800000, 0xff800000, 0x7f800001, 0x7ff00000, 0x7ff80000, 0xfff00000]   -- float and double specials (NaNs, infinities)

def genWord (r : Rng) : Nat × Rng :=
  let (c, r1) := r.below 3
  if c = 0 then let (i, r2) := r1.below interesting32.length; (interesting32.getD i 0, r2)
  else let (x, r2) := r1.next; (x % 2^32, r2)

def genWord64 (r : Rng) : Nat × Rng :=
  let (a, r1) := genWord r
  let (b, r2) := genWord r1
  (a * 2^32 + b, r2)

mutual
/-- fuel bounds the recursion; `depth` shrinks optional chains and arrays as nesting grows -/
def genArr (a : Ast) : Nat → Nat → ArrayType → Rng → XVal × Rng
  | 0, _, _, r => (.void, r)
  | fuel+1, depth, at_, r =>
    match at_ with
    | .none t => genBasic a fuel depth t r
    | .fixed t sz =>
      let n := (boundValue a sz).getD 0
      (match t with
       | .opaque => let (bs, r1) := genBytes n r; (.fixedOpaque bs, r1)
       | t => let (xs, r1) := genMany a fuel (depth + 1) t n r; (.fixedArr xs, r1))
    | .variable t max =>
      let lim := max.bind (boundValue a)
      (match t with
       | .opaque => let (n, r1) := genLen lim 17 r; let (bs, r2) := genPayload n r1; (.varOpaque bs, r2)
       | .string => let (n, r1) := genLen lim 21 r; let (bs, r2) := genUtf8 (n + 1) n r1; (.str bs, r2)
       | t =>
         if r.spine > 0 then
           let more := r.spine > 1 && (match lim with | some m => m ≥ 1 | none => true)
           let r1 := { r with spine := if more then r.spine - 1 else 1 }
           let (xs, r2) := genMany a fuel (depth + 1) t (if more then 1 else 0) r1
           (.varArr xs, r2)
         else
         let (n, r1) := genLen lim (if depth ≥ 3 then 1 else 3) r
         let fired := r1.hit && !r.hit
         let n := if depth ≥ 5 && !fired then 0 else n
         let n := match lim with | some m => if fired then n else min n m | none => n
         let n := if fired then n else min n r1.left
         let r1 := { r1 with left := r1.left - n }
         let (xs, r2) := genMany a fuel (depth + 1) t n r1
         (.varArr xs, r2))
def genBasic (a : Ast) : Nat → Nat → BasicType → Rng → XVal × Rng
  | 0, _, _, r => (.void, r)
  | fuel+1, depth, t, r =>
    match t with
    | .u32 => let (w, r1) := genWord r; (.u32 w, r1)
    | .i32 => let (w, r1) := genWord r; (.i32 (toSigned 32 w), r1)
    | .u64 => let (w, r1) := genWord64 r; (.u64 w, r1)
    | .i64 => let (w, r1) := genWord64 r; (.i64 (toSigned 64 w), r1)
    | .f32 => let (w, r1) := genWord r; (.f32 w, r1)
    | .f64 => let (w, r1) := genWord64 r; (.f64 w, r1)
    | .bool => let (w, r1) := r.below 2; (.bool (w == 1), r1)
    | .string => let (n, r1) := genLen none 21 r; let (bs, r2) := genUtf8 (n + 1) n r1; (.str bs, r2)
    | .opaque => let (n, r1) := genLen none 17 r; let (bs, r2) := genPayload n r1; (.varOpaque bs, r2)
    | .ident n => genNamed a fuel depth n r
def genNamed (a : Ast) : Nat → Nat → String → Rng → XVal × Rng
  | 0, _, _, r => (.void, r)
  | fuel+1, depth, n, r =>
    match bget n a.types with
    | some (.struct s) => let (fs, r1) := genFields a fuel depth s.fields r; (.struct fs, r1)
    | some (.enum e) =>
      let (i, r1) := r.below e.variants.length
      (match e.variants[i]? with
       | some v => (.enumv ((enumMemberValue a v).getD 0), r1)
       | none => (.void, r1))
    | some (.typedef td) =>
      let body := match td.alias with
        | .none _ => ArrayType.none td.target
        | .fixed _ sz => .fixed td.target sz
        | .variable _ m => .variable td.target m
      let (v, r1) := genArr a fuel depth body r
      (.alias v, r1)
    | some (.union u) =>
      -- candidate discriminants: every declared label, plus (with a default) a value outside the labels
      let labels := (u.cases.map (·.caseValues)).flatten ++ u.voidCases.filter (· != "default") ++
        (match u.default with | some d => d.caseValues.filter (· != "default") | none => [])
      let vals := labels.filterMap (labelValue a)
      let hasDefault := u.default.isSome || u.voidCases.contains "default"
      let extra : List Nat :=
        if hasDefault then
          (match discKind a u.switch.varType with
           | .enum e => (e.variants.filterMap (enumMemberValue a)).filter (fun v => !vals.contains v)
           | .bool => [0, 1].filter (fun v => !vals.contains v)
           | _ => [7777, 0, 2^32 - 1, 12].filter (fun v => !vals.contains v))
        else []
      let cands := vals ++ extra
      let (i, r1) := r.below cands.length
      let d := cands.getD i 0
      (match selectDeclared a u d with
       | .data _ ty => let (v, r2) := genArr a fuel (depth + 1) ty r1; (.union d v, r2)
       | .void _ => (.union d .void, r1)
       | .noArm => (.union d .void, r1))
    | none => (.void, r)
def genMany (a : Ast) : Nat → Nat → BasicType → Nat → Rng → XVals × Rng
  | 0, _, _, _, r => (.nil, r)
  | _+1, _, _, 0, r => (.nil, r)
  | fuel+1, depth, t, k+1, r =>
    let (v, r1) := genBasic a fuel depth t r
    let (vs, r2) := genMany a fuel depth t k r1
    (.cons v vs, r2)
def genFields (a : Ast) : Nat → Nat → List StructField → Rng → XVals × Rng
  | 0, _, _, r => (.nil, r)
  | _+1, _, [], r => (.nil, r)
  | fuel+1, depth, f :: fs, r =>
    let (v, r1) :=
      if f.isOptional then
        let (c, r0) := r.below (2 + depth)
        if c = 0 && depth < 40 then
          let (x, r1) := genBasic a fuel (depth + 1) f.fieldValue.unwrapArray r0
          (XVal.optSome x, r1)
        else (XVal.optNone, r0)
      else genArr a fuel depth f.fieldValue r
    let (vs, r2) := genFields a fuel depth fs r1
    (.cons v vs, r2)
end

end Fx
