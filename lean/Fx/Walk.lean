/-
  Fx.Walk — `walk` (src/ast/mod.rs) and the constructors it calls
  (`Typedef::new`, `Struct::new`, `StructField::new`, `Union::new`,
  `CaseStmt::parse`, `UnionCase::new`, `Enum::new`, `Variant::new`,
  `VariantValue::from`, `ArraySize::from`, `Node::ident_str`).
  Every `panic!/unwrap/unreachable!/index` site is an explicit `panicAt`.
-/
import Fx.Ast
import Fx.Peg
namespace Fx
open Peg

/-- outcome of the front end: a value or a panic, identified by (file, message) -/
inductive Out (α : Type) where
  | ok (a : α)
  | panicAt (file : String) (msg : String)
deriving Repr

def Out.bind {α β} (o : Out α) (f : α → Out β) : Out β :=
  match o with
  | .ok a => f a
  | .panicAt f m => .panicAt f m

@[simp] theorem Out.bind_ok {α β} (a : α) (f : α → Out β) : (Out.ok a).bind f = f a := rfl
@[simp] theorem Out.bind_panic {α β} (x y) (f : α → Out β) : (Out.panicAt x y : Out α).bind f = .panicAt x y := rfl

def Out.isOk {α} : Out α → Bool | .ok _ => true | _ => false

inductive Node where
  | type (t : BasicType)
  | option (l : List Node)
  | struct (s : Struct)
  | union (u : Union)
  | unionCase (l : List Node)
  | unionDefault (l : List Node)
  | unionVoid
  | structDataField (l : List Node)
  | unionDataField (l : List Node)
  | arrayVariable (s : String)
  | arrayFixed (s : String)
  | typedef (t : Typedef)
  | constant (l : List Node)
  | enum (e : Enum)
  | enumVariant (l : List Node)
  | root (l : List Node)
  | eof
deriving Repr, Inhabited

/-- `Node::ident_str` (`Node::Ident` is never produced by `walk`) -/
def Node.identStr : Node → Out String
  | .type v => .ok v.asStr
  | .option (n :: _) =>
    (match n with
     | .type v => .ok v.asStr
     | .option _ => .panicAt "node.rs" "not an ident"   -- not reachable: the grammar has no nested option
     | _ => .panicAt "node.rs" "not an ident")
  | .option [] => .panicAt "node.rs" "index out of bounds"
  | _ => .panicAt "node.rs" "not an ident"

/-- text of `Pairs::as_str()` of the children of an `array_*` token: the single length token, or "" -/
def innerStr (cs : List Pair) : String :=
  match cs with
  | [] => ""
  | p :: _ => String.ofList p.text   -- at most one child (array_length)

def optSize (s : String) : Option ArraySize :=
  let t := trimStr s
  if t == "" then none else some (ArraySize.ofStr t)

/-- `Typedef::new` -/
def Typedef.new (vs : List Node) : Out Typedef :=
  match vs with
  | .type target :: .type alias :: rest =>
    (match rest with
     | [] => .ok ⟨target, .none alias⟩
     | .arrayFixed s :: _ => .ok ⟨target, .fixed alias (ArraySize.ofStr s)⟩
     | .arrayVariable s :: _ =>
       -- `opaque t<>` is a plain alias (the opaque reader reads the prefix); a bound is kept
       if target.isOpaque then
         (match optSize s with
          | none => .ok ⟨target, .none alias⟩
          | some n => .ok ⟨target, .variable alias (some n)⟩)
       else .ok ⟨target, .variable alias (optSize s)⟩
     | _ :: _ => .panicAt "typedef.rs" "incorrect type in typedef")
  | _ => .panicAt "typedef.rs" "incorrect type in typedef"

/-- `StructField::new` -/
def StructField.new (v : Node) : Out StructField :=
  match v with
  | .structDataField f =>
    (match f with
     | [.type rhs, .type (.ident lhs)] => .ok ⟨lhs, .none rhs, false⟩
     | [.type rhs, .type (.ident lhs), .arrayVariable size] => .ok ⟨lhs, .variable rhs (optSize size), false⟩
     | [.type rhs, .type (.ident lhs), .arrayFixed size] => .ok ⟨lhs, .fixed rhs (ArraySize.ofStr size), false⟩
     | [.type rhs, .option opt] =>
       (match opt with
        | .type (.ident lhs) :: _ => .ok ⟨lhs, .none rhs, true⟩
        | [] => .panicAt "structure.rs" "index out of bounds"
        | _ => .panicAt "structure.rs" "unexpected struct field option layout")
     | _ => .panicAt "structure.rs" "invalid number of struct field tokens")
  | _ => .panicAt "structure.rs" "not a struct field"

def mapOut {α β} (f : α → Out β) : List α → Out (List β)
  | [] => .ok []
  | a :: as => (f a).bind fun b => (mapOut f as).bind fun bs => .ok (b :: bs)

/-- `Struct::new` -/
def Struct.new (vs : List Node) : Out Struct :=
  match vs with
  | n :: rest => n.identStr.bind fun name => (mapOut StructField.new rest).bind fun fs => .ok ⟨name, fs⟩
  | [] => .panicAt "structure.rs" "index out of bounds"

/-- `UnionCase::new` -/
def UnionCase.new (caseValues : List String) (field : List Node) : Out UnionCase :=
  match field with
  | [.type t, .type (.ident l)] => .ok ⟨caseValues, l, .none t⟩
  | _ => .panicAt "union.rs" "invalid number of union field tokens"

inductive CaseStmt where
  | fallthrough (vs : List String)
  | defined (c : UnionCase)
  | void (vs : List String)

/-- `CaseStmt::parse` -/
def CaseStmt.parse (caseValues : List String) (nodes : List Node) : Out CaseStmt :=
  match nodes with
  | .type t :: rest =>
    let cv := caseValues ++ [t.asStr]
    (match rest with
     | [] => .ok (.fallthrough cv)
     | .unionDataField ns :: _ => (UnionCase.new cv ns).bind fun c => .ok (.defined c)
     | .unionVoid :: _ => .ok (.void cv)
     | _ => .panicAt "union.rs" "unreachable")
  | .unionVoid :: _ => .ok (.void caseValues)
  | .unionDataField ns :: _ => (UnionCase.new caseValues ns).bind fun c => .ok (.defined c)
  | [] => .panicAt "union.rs" "removal index"
  | _ => .panicAt "union.rs" "unreachable"

structure UAcc where
  cases : List UnionCase := []
  voidCases : List String := []
  default : Option UnionCase := none
  pending : List String := []

/-- one iteration of the loop in `Union::new` -/
def Union.step (acc : UAcc) (v : Node) : Out UAcc :=
  match v with
  | .unionCase nodes =>
    (CaseStmt.parse acc.pending nodes).bind fun stmt =>
      match stmt with
      | .defined c => .ok { acc with cases := acc.cases ++ [c], pending := [] }
      | .fallthrough vs => .ok { acc with pending := vs }
      | .void vs => .ok { acc with voidCases := acc.voidCases ++ vs, pending := [] }
  | .unionDefault nodes =>
    (CaseStmt.parse (acc.pending ++ ["default"]) nodes).bind fun stmt =>
      match stmt with
      | .defined c => .ok { acc with default := some c, pending := [] }
      | .fallthrough vs => .ok { acc with pending := vs }
      | .void vs => .ok { acc with voidCases := acc.voidCases ++ vs, pending := [] }
  | _ => .panicAt "union.rs" "unexpected token type for union"

def Union.loop : UAcc → List Node → Out UAcc
  | acc, [] => .ok acc
  | acc, v :: vs => (Union.step acc v).bind fun acc' => Union.loop acc' vs

/-- `Union::new` -/
def Union.new (vs : List Node) : Out Union :=
  match vs with
  | n :: ty :: var :: rest =>
    n.identStr.bind fun name =>
    var.identStr.bind fun varName =>
    ty.identStr.bind fun tyStr =>
    (Union.loop {} rest).bind fun acc =>
      .ok ⟨name, acc.cases, acc.default, acc.voidCases, ⟨varName, BasicType.ofString tyStr⟩⟩
  | _ => .panicAt "union.rs" "index out of bounds"

def hexDigitVal (c : Char) : Option Nat :=
  if '0' ≤ c ∧ c ≤ '9' then some (c.toNat - 48)
  else if 'a' ≤ c ∧ c ≤ 'f' then some (c.toNat - 87)
  else if 'A' ≤ c ∧ c ≤ 'F' then some (c.toNat - 55)
  else none

def hexStrVal : List Char → Option Nat
  | cs => cs.foldl (fun acc c => match acc, hexDigitVal c with
      | some a, some d => some (a * 16 + d)
      | _, _ => none) (some 0)

/-- `str::trim_start_matches("0x")` -/
def stripAll0x : List Char → List Char
  | '0' :: 'x' :: rest => stripAll0x rest
  | cs => cs

/-- `str::parse::<i32>`: optional sign, digits, range -/
def parseI32 (s : String) : Option Int :=
  let cs := s.toList
  match cs with
  | '-' :: r => if allDigits r then (let n := digitsVal r; if n ≤ 2^31 then some (-(n : Int)) else none) else none
  | '+' :: r => if allDigits r then (let n := digitsVal r; if n < 2^31 then some n else none) else none
  | _ => if allDigits cs then (let n := digitsVal cs; if n < 2^31 then some n else none) else none

/-- `impl From<T> for VariantValue`: hex goes through `i32::from_str_radix(..).unwrap()` -/
def VariantValue.ofStr (v : String) : Out VariantValue :=
  if v.startsWith "0x" then
    let clean := stripAll0x v.toList
    let clean := match clean with | '+' :: r => r | _ => clean   -- from_str_radix accepts a sign; idents have none
    if clean.isEmpty then .panicAt "enumeration.rs" "called `Result::unwrap()` on an `Err` value"
    else match hexStrVal clean with
      | some n => if n < 2^31 then .ok (.numeric n) else .panicAt "enumeration.rs" "called `Result::unwrap()` on an `Err` value"
      | none => .panicAt "enumeration.rs" "called `Result::unwrap()` on an `Err` value"
  else match parseI32 v with
    | some i => .ok (.numeric i)
    | none => .ok (.str v)

/-- `Variant::new` -/
def Variant.new (v : Node) : Out Variant :=
  match v with
  | .enumVariant f =>
    (match f with
     | [a, b] => a.identStr.bind fun name => b.identStr.bind fun val =>
         (VariantValue.ofStr val).bind fun value => .ok ⟨name, value⟩
     | _ => .panicAt "enumeration.rs" "unexpected number of tokens in enum")
  | _ => .panicAt "enumeration.rs" "not a struct field"

/-- `Enum::new` -/
def Enum.new (vs : List Node) : Out Enum :=
  match vs with
  | n :: rest => n.identStr.bind fun name => (mapOut Variant.new rest).bind fun vars => .ok ⟨name, vars⟩
  | [] => .panicAt "enumeration.rs" "index out of bounds"

mutual
/-- `walk` -/
def walk : Pair → Out Node
  | .mk rule text cs =>
    match rule with
    | "item" => (walkAll cs).bind fun ns => .ok (.root ns)
    | "typedef" => (walkAll cs).bind fun ns => (Typedef.new ns).bind fun t => .ok (.typedef t)
    | "constant" => (walkAll cs).bind fun ns => .ok (.constant ns)
    | "ident" | "ident_const" | "ident_value" => .ok (.type (BasicType.ofStr (String.ofList text)))
    | "enum_type" => (walkAll cs).bind fun ns => (Enum.new ns).bind fun e => .ok (.enum e)
    | "enum_variant" => (walkAll cs).bind fun ns => .ok (.enumVariant ns)
    | "array_variable" => .ok (.arrayVariable (innerStr cs))
    | "array_fixed" => .ok (.arrayFixed (innerStr cs))
    | "struct_type" => (walkAll cs).bind fun ns => (Struct.new ns).bind fun s => .ok (.struct s)
    | "struct_data_field" => (walkAll cs).bind fun ns => .ok (.structDataField ns)
    | "union_data_field" => (walkAll cs).bind fun ns => .ok (.unionDataField ns)
    | "union" => (walkAll cs).bind fun ns => (Union.new ns).bind fun u => .ok (.union u)
    | "union_case" => (walkAll cs).bind fun ns => .ok (.unionCase ns)
    | "union_default" => (walkAll cs).bind fun ns => .ok (.unionDefault ns)
    | "union_void" => .ok .unionVoid
    | "option" => (walkAll cs).bind fun ns => .ok (.option ns)
    | "basic_type" => .ok (.type (BasicType.ofStr (String.ofList text)))
    | "EOI" => .ok .eof
    | _ => .panicAt "mod.rs" "unknown token type"
def walkAll : List Pair → Out (List Node)
  | [] => .ok []
  | p :: ps => (walk p).bind fun n => (walkAll ps).bind fun ns => .ok (n :: ns)
end

/-- the root children the indexes look at (`Node::Constant` resolved to its two texts) -/
def itemOf : Node → Out (Option Item)
  | .constant [a, b] => a.identStr.bind fun n => b.identStr.bind fun v => .ok (some (.constant n v))
  | .constant _ => .panicAt "constants.rs" "index out of bounds"
  | .typedef t => .ok (some (.typedef t))
  | .enum e => .ok (some (.enum e))
  | .struct s => .ok (some (.struct s))
  | .union u => .ok (some (.union u))
  | _ => .ok none

def itemsOf : List Node → Out (List Item)
  | [] => .ok []
  | n :: ns => (itemOf n).bind fun i => (itemsOf ns).bind fun is =>
      .ok (match i with | some x => x :: is | none => is)

end Fx
