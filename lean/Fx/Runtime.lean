/-
  Fx.Runtime — `src/header.rs` lines 36–265, reader by reader.

  Every `Buf` operation that can panic in the real crate (`get_*`, `slice`,
  `advance`) has its panic branch here, so "never panics" is a theorem about
  these definitions and not an assumption built into them.
  `usize` is `Nat` (assumption A-usize: 64-bit target; see DESIGN §9).
-/
import Fx.Basic
namespace Fx

/-! ### the `bytes` operations used (modelled, tied by T4) -/

/-- `Buf::advance`: panics when `n > remaining`. -/
def advanceP (n : Nat) (c : Cur) : Res Unit :=
  if c.remaining < n then .panic "advance" else .ok () (c.advance n)

/-- `Bytes::slice(..n)`: panics when `n > len`. The result is a window at the same offset. -/
def sliceP (n : Nat) (c : Cur) : Res Val :=
  if c.remaining < n then .panic "slice" else .ok (.bytes c.off (c.data.take n)) c

def word32 (a b c d : Byte) : Nat := a.toNat * 2^24 + b.toNat * 2^16 + c.toNat * 2^8 + d.toNat

/-- `Buf::get_u32`: panics when fewer than 4 bytes remain. -/
def getU32P (c : Cur) : Res Nat :=
  match c.data with
  | a :: b :: x :: d :: _ => .ok (word32 a b x d) (c.advance 4)
  | _ => .panic "get_u32"

def getU64P (c : Cur) : Res Nat :=
  match c.data with
  | a :: b :: x :: d :: e :: f :: g :: h :: _ =>
    .ok (word32 a b x d * 2^32 + word32 e f g h) (c.advance 8)
  | _ => .panic "get_u64"

/-! ### `impl DeserialiserExt for Bytes` -/

def readU32 (c : Cur) : Res Nat :=
  if c.remaining < 4 then .err .invalidLength c.log else getU32P c

def readU64 (c : Cur) : Res Nat :=
  if c.remaining < 8 then .err .invalidLength c.log else getU64P c

def readI32 (c : Cur) : Res Int := (readU32 c).map (toSigned 32)
def readI64 (c : Cur) : Res Int := (readU64 c).map (toSigned 64)
/-- floats are kept as bit patterns -/
def readF32 (c : Cur) : Res Nat := readU32 c
def readF64 (c : Cur) : Res Nat := readU64 c

def readBool (c : Cur) : Res Bool :=
  (readI32 c).bind fun i c' =>
    if i = 0 then .ok false c'
    else if i = 1 then .ok true c'
    else .err .invalidBoolean c'.log

/-- `read_bytes(n)` after repair F1: the padding must be present too. -/
def readBytes (n : Nat) (c : Cur) : Res Val :=
  if c.remaining < n + padLen n then .err .invalidLength c.log
  else (sliceP n c).bind fun data c1 =>
    (advanceP (n + padLen n) c1).bind fun _ c2 => .ok data c2

def overLimit : Option Nat → Nat → Bool
  | some l, n => decide (n > l)
  | none, _ => false

def readVariableBytes (max : Option Nat) (c : Cur) : Res Val :=
  (readU32 c).bind fun n c1 =>
    if overLimit max n then .err .invalidLength c1.log else readBytes n c1

/-- UTF-8 well-formedness (Unicode Table 3-7), what `String::from_utf8` accepts. -/
def isCont (b : Byte) : Bool := 0x80 ≤ b && b ≤ 0xBF
def inRange (lo hi b : Byte) : Bool := lo ≤ b && b ≤ hi

def utf8Valid : List Byte → Bool
  | [] => true
  | b0 :: rest =>
    if b0 < 0x80 then utf8Valid rest
    else if inRange 0xC2 0xDF b0 then
      match rest with
      | b1 :: r => isCont b1 && utf8Valid r
      | _ => false
    else if inRange 0xE0 0xEF b0 then
      match rest with
      | b1 :: b2 :: r =>
        (if b0 = 0xE0 then inRange 0xA0 0xBF b1
         else if b0 = 0xED then inRange 0x80 0x9F b1
         else isCont b1) && isCont b2 && utf8Valid r
      | _ => false
    else if inRange 0xF0 0xF4 b0 then
      match rest with
      | b1 :: b2 :: b3 :: r =>
        (if b0 = 0xF0 then inRange 0x90 0xBF b1
         else if b0 = 0xF4 then inRange 0x80 0x8F b1
         else isCont b1) && isCont b2 && isCont b3 && utf8Valid r
      | _ => false
    else false

def payloadOf : Val → List Byte
  | .bytes _ bs => bs
  | _ => []

def readString (max : Option Nat) (c : Cur) : Res Val :=
  (readVariableBytes max c).bind fun b c1 =>
    let bs := payloadOf b
    let c2 := c1.addLog (.str bs.length)          -- `.into_iter().collect::<Vec<u8>>()`
    if utf8Valid bs then .ok (.str bs) c2 else .err .nonUtf8String c2.log

/-- The element loop of `read_variable_array`: decode from a clone, check and
    step by the element's `wire_size()`, accumulate the sum. -/
def arrLoop (dec : Cur → Res Val) (ws : Val → Nat) : Nat → Cur → Nat → Vals → Res (Vals × Nat)
  | 0, c, sum, acc => .ok (acc, sum) c
  | k+1, c, sum, acc =>
    match dec c with                                   -- `T::try_from(self.clone())?`
    | .ok t c' =>
      if c.remaining < ws t then .err .invalidLength c'.log
      else arrLoop dec ws k { c.advance (ws t) with log := c'.log } (sum + ws t) (acc.snoc t)
    | .err e l => .err e l
    | .panic s => .panic s
    | .abort => .abort
    | .outOfFuel => .outOfFuel

/-- `read_variable_array::<T>(max)` after repair F2: the reservation is capped
    by the bytes present and the trailing padding is checked. -/
def readVariableArray (dec : Cur → Res Val) (ws : Val → Nat) (max : Option Nat) (c : Cur) : Res Val :=
  (readU32 c).bind fun n c1 =>
    if overLimit max n then .err .invalidLength c1.log
    else
      let c2 := c1.addLog (.vec (min n c1.remaining))  -- `Vec::with_capacity(n.min(self.remaining()))`
      (arrLoop dec ws n c2 0 .nil).bind fun (out, sum) c3 =>
        if c3.remaining < padLen sum then .err .invalidLength c3.log
        else (advanceP (padLen sum) c3).bind fun _ c4 => .ok (.vec out) c4

/-! ### blanket `WireSize` impls (on sizes already computed for the parts) -/

def wsVec (elems : List Nat) : Nat := let x := elems.sum; 4 + x + padLen x
def wsSlice (elems : List Nat) : Nat := let x := elems.sum; x + padLen x
def wsOption (inner : Option Nat) : Nat := 4 + (match inner with | some n => n | none => 0)
def wsString (len : Nat) : Nat := 4 + len + padLen len
def wsBytes (len : Nat) : Nat := len

end Fx
