/-
  Fx.RtDriver — the `rt …` requests of the line protocol: the runtime model on
  the same requests the Rust harness `harness/rt` answers with the real readers.
-/
import Fx.Runtime
import Fx.Proto
namespace Fx

/-- element decoders mirroring `harness/rt/src/main.rs` (B1, W4, VS) -/
def decB1 (c : Cur) : Res Val :=
  match c.data with
  | b :: _ => .ok (.u32 b.toNat) (c.advance 1)
  | [] => .err .invalidLength c.log
def wsB1 (_ : Val) : Nat := 1

def decW4 (c : Cur) : Res Val := (readU32 c).map .u32
def wsW4 (_ : Val) : Nat := 4

def vsLoop : Nat → Nat → Cur → Res Nat
  | 0, s, c => .ok s c
  | k+1, s, c => (readU32 c).bind fun w c' => vsLoop k (s + w) c'
def decVS (c : Cur) : Res Val :=
  (readU32 c).bind fun n c1 => (vsLoop n 0 c1).bind fun s c2 =>
    .ok (.vec (.cons (.u32 n) (.cons (.u64 s) .nil))) c2
def wsVS : Val → Nat
  | .vec (.cons (.u32 n) _) => 4 + 4 * n
  | _ => 0

def parseMax (s : String) : Option (Option Nat) :=
  if s == "-" then some none else s.toNat?.map some

def showVal (v : Val) : String := v.show

def rtSizes (kind : String) (n : Nat) : Option Nat :=
  match kind with
  | "u8" => some 1
  | "u32" | "i32" | "f32" | "bool" => some 4
  | "u64" | "i64" | "f64" => some 8
  | "bytes" => some (wsBytes n)
  | "string" => some (wsString n)
  | "string_u2" => some (wsString (2 * n))
  | "string_u3" => some (wsString (3 * n))
  | "string_u4" => some (wsString (4 * n))
  | "string_mix" => some (wsString (((List.range n).map fun i => i % 4 + 1).sum))
  | "vec_u8" => some (wsVec (List.replicate n 1))
  | "vec_u32" => some (wsVec (List.replicate n 4))
  | "vec_u64" => some (wsVec (List.replicate n 8))
  | "slice_u8" => some (wsSlice (List.replicate n 1))
  | "slice_u32" => some (wsSlice (List.replicate n 4))
  | "slice_string" => some (wsSlice ((List.range n).map wsString))
  | "slice_vec_u32" => some (wsSlice ((List.range n).map fun i => wsVec (List.replicate i 4)))
  | "vec_vec_u32" => some (wsVec ((List.range n).map fun i => wsVec (List.replicate i 4)))
  | "opt_string" => some (wsOption (some (wsString n)))
  | "box_vec_u32" => some (wsVec (List.replicate n 4))
  | "vec_string" => some (wsVec ((List.range n).map wsString))
  | "opt_none" => some (wsOption none)
  | "opt_u32" => some (wsOption (some 4))
  | "opt_box_u64" => some (wsOption (some 8))
  | "box_string" => some (wsString n)
  | _ => none

/-- split off an optional `@lead` argument and the trailing hex buffer -/
def rtCursor (args : List String) : Option (List String × Cur) :=
  match args.reverse with
  | hex :: rest =>
    match bytesOfHex hex with
    | none => none
    | some bs =>
      match rest with
      | a :: rest' =>
        if a.startsWith "@" then
          match (a.drop 1).toString.toNat? with
          | some lead => some (rest'.reverse, { off := lead, data := bs })
          | none => none
        else some (rest.reverse, { off := 0, data := bs })
      | [] => some ([], { off := 0, data := bs })
  | [] => none

def rtRequest (f : List String) : String :=
  match f with
  | "ws" :: kind :: rest =>
    let n := (rest.head?.bind String.toNat?).getD 0
    match rtSizes kind n with
    | some r => "ok " ++ toString r
    | none => "bad-op"
  | op :: args =>
    match rtCursor args with
    | none => "bad-op"
    | some (a, c) =>
      match op, a with
      | "u32", [] => (readU32 c).showWith toString
      | "u64", [] => (readU64 c).showWith toString
      | "i32", [] => (readI32 c).showWith toString
      | "i64", [] => (readI64 c).showWith toString
      | "f32", [] => (readF32 c).showWith fun b => "f32:" ++ hexFixed 8 b
      | "f64", [] => (readF64 c).showWith fun b => "f64:" ++ hexFixed 16 b
      | "bool", [] => (readBool c).showWith fun b => if b then "true" else "false"
      | "bytes", [n] =>
        match n.toNat? with
        | some n => (readBytes n c).showWith showVal
        | none => "bad-op"
      | "varbytes", [m] =>
        match parseMax m with
        | some m => (readVariableBytes m c).showWith showVal
        | none => "bad-op"
      | "string", [m] =>
        match parseMax m with
        | some m => (readString m c).showWith showVal
        | none => "bad-op"
      | "vararr", [e, m] =>
        match parseMax m with
        | some m =>
          match e with
          | "b1" => (readVariableArray decB1 wsB1 m c).showWith showVal
          | "w4" => (readVariableArray decW4 wsW4 m c).showWith showVal
          | "vs" => (readVariableArray decVS wsVS m c).showWith showVal
          | _ => "bad-op"
        | none => "bad-op"
      | _, _ => "bad-op"
  | [] => "bad-op"

end Fx
