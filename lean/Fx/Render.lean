/-
  Fx.Render — plans back to the text the emitters `write!` (compared with the
  real output token by token in tie T1; whitespace is not significant there).
-/
import Fx.Emit
namespace Fx

def Template.tryFromTy : Template → String
  | .bytes => "Bytes"
  | .refMutBytes => "&mut Bytes"

/-- `ReferenceType`'s `Display` -/
def Template.refText : Template → String
  | .bytes => "&mut v"
  | .refMutBytes => "&mut *v"

def Prim.reader : Prim → String
  | .u32 => "v.read_u32()" | .u64 => "v.read_u64()" | .i32 => "v.read_i32()" | .i64 => "v.read_i64()"
  | .f32 => "v.read_f32()" | .f64 => "v.read_f64()" | .bool => "v.read_bool()"

def BasicDec.render (tpl : Template) : BasicDec → String
  | .prim p => p.reader
  | .string => "v.read_string(None)"
  | .opaque => "v.read_variable_bytes(None)"
  | .tryFrom n => n ++ "::try_from(" ++ tpl.refText ++ ")"

def renderMax : Option Nat → String
  | some n => "Some(" ++ toString n ++ ")"
  | none => "None"

def FieldDec.render (tpl : Template) : FieldDec → String
  | .one b => b.render tpl ++ "?"
  | .fixedBytes n => "v.read_bytes(" ++ toString n ++ ")?"
  | .fixedArr n b => "[\n" ++ String.join (List.replicate n (b.render tpl ++ "?,\n")) ++ "]"
  | .varBytes m => "v.read_variable_bytes(" ++ renderMax m ++ ")?"
  | .varString m => "v.read_string(" ++ renderMax m ++ ")?"
  | .varArr ty g m => "v.read_variable_array::<" ++ ty ++ (if g then "<Bytes>" else "") ++ ">(" ++ renderMax m ++ ")?"

def StructFieldDec.render (tpl : Template) : StructFieldDec → String
  | .plain n d => safeName n ++ ": " ++ d.render tpl ++ ",\n"
  | .optional n ty =>
    safeName n ++ ": { match v.read_u32()? {\n0 => None,\n1 => Some(Box::new(" ++ ty ++ "::try_from(" ++ tpl.refText ++
      ")?)),\nd => return Err(Error::UnknownOptionVariant(d)),\n}},\n"

def Pat.render : Pat → String
  | .lit t => t
  | .guard e v ty => "c if c == " ++ e ++ "::" ++ v ++ " as " ++ ty
  | .wild => "_"

def Arm.render (tpl : Template) (a : Arm) : String :=
  match a.payload with
  | some d => a.pat.render ++ " => Self::" ++ nonDigitName a.variant ++ "(" ++ d.render tpl ++ "),\n"
  | none => a.pat.render ++ " => Self::" ++ nonDigitName a.variant ++ ",\n"

def Tail.render (tpl : Template) : Tail → String
  | .defaultData d => "_ => Self::default(" ++ d.render tpl ++ "),\n"
  | .errUnknown => "d => return Err(Error::UnknownVariant(d as i32)),\n"
  | .none => ""

def ImplBody.render (tpl : Template) (name : String) : ImplBody → String
  | .struct fs => "Ok(" ++ name ++ " {\n" ++ String.join (fs.map (·.render tpl)) ++ "})\n"
  | .union u =>
    "let " ++ safeName u.swVar ++ " = " ++ u.disc.render tpl ++ "?;\nOk(match " ++ safeName u.swVar ++ " {\n" ++
      String.join (u.arms.map (·.render tpl)) ++ u.tail.render tpl ++ "})\n"
  | .enum arms =>
    "Ok(match v.read_i32()? {\n" ++ String.join (arms.map fun (p, m) => p.display ++ " => Self::" ++ m ++ ",\n") ++
      "d => return Err(Error::UnknownVariant(d as i32)),\n})\n"
  | .typedef d => "Ok(Self(" ++ d.render tpl ++ "))\n"

def Impl.render (tpl : Template) (i : Impl) : String :=
  "impl TryFrom<" ++ tpl.tryFromTy ++ "> for " ++ i.name ++ (if i.generic then "<Bytes>" else "") ++
  " {\ntype Error = Error;\n\nfn try_from(mut v: " ++ tpl.tryFromTy ++ ") -> Result<Self, Self::Error> {\n" ++
  i.body.render tpl i.name ++ "}\n}\n"

def SizeBody.render : SizeBody → String
  | .struct fs => String.join (fs.map fun f =>
      "self." ++ safeName f.name ++ ".wire_size() +\n" ++
      (if f.pad then " pad_length(self." ++ safeName f.name ++ ".wire_size()) +\n" else "") ++
      (if f.plus4 then "4 +\n" else "")) ++ "0\n"
  | .union arms => "4 + match self {\n" ++ String.join (arms.map fun a => match a with
      | .data v pad => "Self::" ++ nonDigitName v ++ "(inner) => inner.wire_size()" ++
          (if pad then " + pad_length(inner.wire_size()),\n" else ",\n")
      | .void v => "Self::" ++ nonDigitName v ++ " => 0,\n") ++ "}\n"
  | .enum => "4\n"
  | .typedef opq plus4 => "self.0.wire_size()\n" ++
      (if opq then "+ pad_length(self.0.wire_size())" ++ (if plus4 then " + 4" else "") ++ "\n" else "")

def SizeImpl.render (s : SizeImpl) : String :=
  "impl WireSize for " ++ s.name ++ (if s.generic then "<Bytes>" else "") ++ " {\nfn wire_size(&self) -> usize {\n" ++
  s.body.render ++ "}\n}\n"

def ArraySize.display : ArraySize → String
  | .known n => toString n
  | .constant c => c ++ " as usize"

def TyExpr.render : TyExpr → String
  | .path s => s
  | .pathT s => s ++ "<T>"
  | .t => "T"
  | .string => "String"
  | .arr e s => "[" ++ e.render ++ "; " ++ s.display ++ "]"
  | .vec e => "Vec<" ++ e.render ++ ">"
  | .optBox e => "Option<Box<" ++ e.render ++ ">>"

def traitBounds : String := "<T> where T: AsRef<[u8]> + Debug"

def TypeDecl.render (derive : String) : TypeDecl → String
  | .const n v => "pub const " ++ n ++ ": u32 = " ++ v ++ ";\n"
  | .struct n g fs =>
    derive ++ "\npub struct " ++ n ++ (if g then traitBounds else "") ++ " {\n" ++
      String.join (fs.map fun (f, t) => "pub " ++ safeName f ++ ": " ++ t.render ++ ",\n") ++ "}\n"
  | .union n g vs =>
    derive ++ "\npub enum " ++ n ++ (if g then traitBounds else "") ++ " {\n" ++
      String.join (vs.map fun (v, p) => match p with
        | some t => nonDigitName v ++ "(" ++ t.render ++ "),\n"
        | none => nonDigitName v ++ ",\n") ++ "}\n"
  | .enum n vs =>
    derive ++ "\n#[repr(u32)]\npub enum " ++ n ++ " {\n" ++
      String.join (vs.map fun (v, x) => v ++ " = " ++ x ++ ",\n") ++ "}\n"
  | .typedef n g sp inner =>
    derive ++ "\npub struct " ++ n ++ (if g then "<T: AsRef<[u8]> + Debug>" else "") ++
      (if sp then " (pub " else "(pub ") ++ inner.render ++ ");\n"

/-- the text after the header (which is `/repo/src/header.rs` verbatim plus a newline) -/
def Module.render (derive : String) (m : Module) : String :=
  String.join (m.types.map (·.render derive)) ++
  String.join (m.fromBytes.map (·.render .bytes)) ++
  String.join (m.fromRefMut.map (·.render .refMutBytes)) ++
  String.join (m.sizes.map (·.render)) ++ "}\n"

def defaultDerive : String := "#[derive(Debug, PartialEq)]"

end Fx
