/-
  Fx.Emit — the three emitters (`src/impls/{types,from,wire_size}.rs`) and the
  assembly in `Generator::generate` (`src/lib.rs`), as functions into plans.
-/
import Fx.Plan
import Fx.Index
namespace Fx

/-- outcome of code generation: `Ok`, `Err(msg)` (the `?` paths), or a panic -/
inductive G (α : Type) where
  | ok (a : α)
  | err (msg : String)
  | panicAt (file msg : String)
deriving Repr

def G.bind {α β} (g : G α) (f : α → G β) : G β :=
  match g with
  | .ok a => f a
  | .err m => .err m
  | .panicAt f m => .panicAt f m

@[simp] theorem G.bind_ok {α β} (a : α) (f : α → G β) : (G.ok a).bind f = f a := rfl

def G.isOk {α} : G α → Bool | .ok _ => true | _ => false

def mapG {α β} (f : α → G β) : List α → G (List β)
  | [] => .ok []
  | a :: as => (f a).bind fun b => (mapG f as).bind fun bs => .ok (b :: bs)

inductive TypeResolve where
  | useAlias
  | useTarget
deriving Repr, DecidableEq

/-- `SafeName`'s `Display` -/
def safeName (s : String) : String :=
  if isKeyword s then s ++ "_v"
  else if s == "TRUE" then "true"            -- `to_lowercase()` of the two XDR booleans
  else if s == "FALSE" then "false"
  else s

/-- `NonDigitName`'s `Display` (`char::is_numeric` on the ASCII names that reach it) -/
def nonDigitName (s : String) : String :=
  match s.toList with
  | c :: _ => if '0' ≤ c ∧ c ≤ '9' then "v_" ++ s else s
  | [] => s

def Ast.getType (a : Ast) (n : String) : Option AstType := bget n a.types
def Ast.getConst (a : Ast) (n : String) : Option ConstantType := bget n a.constants
def Ast.isGeneric (a : Ast) (n : String) : Bool := a.generics.contains n
def Ast.typedefTarget (a : Ast) (n : String) : Option Typedef :=
  match a.getType n with
  | some (.typedef t) => some t
  | _ => none

def primOf : BasicType → Option Prim
  | .u32 => some .u32 | .u64 => some .u64 | .i32 => some .i32 | .i64 => some .i64
  | .f32 => some .f32 | .f64 => some .f64 | .bool => some .bool
  | _ => none

/-- the second level of `print_decode_basic_type` (called with `UseAlias` on a typedef's target) -/
def decodeBasicAlias (t : BasicType) : BasicDec :=
  match t with
  | .string => .string
  | .opaque => .opaque
  | .ident c => .tryFrom c
  | .u32 => .prim .u32 | .u64 => .prim .u64 | .i32 => .prim .i32 | .i64 => .prim .i64
  | .f32 => .prim .f32 | .f64 => .prim .f64 | .bool => .prim .bool

/-- `print_decode_basic_type` -/
def decodeBasic (a : Ast) (t : BasicType) (r : TypeResolve) : G BasicDec :=
  match t, r with
  | .ident c, .useTarget =>
    (match a.getType c with
     | some (.struct s) => .ok (.tryFrom s.name)
     | some (.union u) => .ok (.tryFrom u.name)
     | some (.enum e) => .ok (.tryFrom e.name)
     | some (.typedef td) => .ok (decodeBasicAlias td.target)      -- one level only
     | none => .err ("unresolvable type " ++ c))
  | t, _ => .ok (decodeBasicAlias t)

/-- resolve an `ArraySize` to a number: literals as they are; a constant through the
    constant index, its `Display` parsed with `parse::<u32>()` -/
def resolveSize (a : Ast) : ArraySize → G Nat
  | .known n => .ok n
  | .constant c =>
    match a.getConst c with
    | some v => (match parseU32 v.display with
                 | some n => .ok n
                 | none => .err "invalid digit found in string")
    | none => .err ("unknown constant " ++ c)

/-- the closure `print_fixed` -/
def printFixed (a : Ast) (t : BasicType) (n : Nat) (r : TypeResolve) : G FieldDec :=
  let field : BasicType :=
    match r with
    | .useAlias => t
    | .useTarget => (match a.typedefTarget t.asStr with | some td => td.target | none => t)
  match field with
  | .opaque => .ok (.fixedBytes n)
  | .string => .panicAt "from.rs" "unexpected fixed length string"
  | _ =>
    if n = 0 then .ok (.fixedArr 0 (.prim .u32))   -- an empty array literal: nothing is printed for the element
    else (decodeBasic a t r).bind fun b => .ok (.fixedArr n b)

/-- the closure `print_variable` -/
def printVariable (a : Ast) (t : BasicType) (size : Option Nat) (r : TypeResolve) : G FieldDec :=
  let ts0 := t.asSafeString
  let typeStr :=
    match r with
    | .useAlias => ts0
    | .useTarget => (match a.getType ts0 with | some x => x.display | none => ts0)
  let field : BasicType :=
    match r with
    | .useAlias => t
    | .useTarget => (match a.typedefTarget t.asStr with
                     | some td => if td.target.isOpaque then td.target else t
                     | none => t)
  match field with
  | .opaque => .ok (.varBytes size)
  | .string => .ok (.varString size)
  | _ => .ok (.varArr typeStr (a.isGeneric typeStr) size)

/-- `print_decode_array` -/
def decodeArray (a : Ast) (at_ : ArrayType) (r : TypeResolve) : G FieldDec :=
  match at_ with
  | .none t => (decodeBasic a t r).bind fun b => .ok (.one b)
  | .fixed t sz => (resolveSize a sz).bind fun n => printFixed a t n r
  | .variable t (some sz) => (resolveSize a sz).bind fun n => printVariable a t (some n) r
  | .variable t none => printVariable a t none r

def emitStructField (a : Ast) (f : StructField) : G StructFieldDec :=
  if f.isOptional then .ok (.optional f.fieldName f.fieldValue.unwrapArray.asSafeString)
  else (decodeArray a f.fieldValue .useAlias).bind fun d => .ok (.plain f.fieldName d)

/-- the type an enum label is cast to: the discriminant is decoded as the target of a typedef'd switch type
    (`ast.types().typedef_target(var_type.as_str()).map(|t| &t.target).unwrap_or(&var_type)`) -/
def switchCastType (a : Ast) (swTy : BasicType) : BasicType :=
  match a.typedefTarget swTy.asStr with
  | some td => td.target
  | none => swTy

/-- the matcher of a case label -/
def matcherOf (a : Ast) (swTy : BasicType) (label : String) : Pat :=
  match a.getConst label with
  | some (.constValue v) => .lit (safeName v)
  | some (.enumValue e v) => .guard e v (switchCastType a swTy).asSafeString
  | none => .lit (safeName label)

def emitCase (a : Ast) (swTy : BasicType) (c : UnionCase) : G (List Arm) :=
  (decodeArray a c.fieldValue .useAlias).bind fun d =>
    .ok (c.caseValues.map fun l => ⟨matcherOf a swTy l, l, some d⟩)

def emitVoid (a : Ast) (swTy : BasicType) (l : String) : Arm :=
  if l == "default" then ⟨.wild, l, none⟩ else ⟨matcherOf a swTy l, l, none⟩

def emitUnion (a : Ast) (u : Union) : G UnionDec :=
  (decodeBasic a u.switch.varType .useTarget).bind fun disc =>
  (mapG (emitCase a u.switch.varType) u.cases).bind fun dataArms =>
    let voidArms := u.voidCases.map (emitVoid a u.switch.varType)
    let didVoidDefault := u.voidCases.contains "default"
    (match u.default with
     | some d => (decodeArray a d.fieldValue .useAlias).bind fun dd => G.ok (Tail.defaultData dd)
     | none => G.ok (if didVoidDefault then Tail.none else Tail.errUnknown)).bind fun tail =>
    .ok ⟨u.switch.varName, disc, dataArms.flatten ++ voidArms, tail⟩

/-- the Rust name a declaration's items are printed under -/
def AstType.rustName : AstType → String
  | .struct s => s.name
  | .union u => u.name
  | .enum e => e.name
  | .typedef td => td.alias.unwrapArray.asStr

def emitImpl (a : Ast) (t : AstType) : G Impl :=
  match t with
  | .struct s => (mapG (emitStructField a) s.fields).bind fun fs => .ok ⟨s.name, a.isGeneric s.name, .struct fs⟩
  | .union u => (emitUnion a u).bind fun ud => .ok ⟨u.name, a.isGeneric u.name, .union ud⟩
  | .enum e => .ok ⟨e.name, a.isGeneric e.name, .enum (e.variants.map fun v => (v.value, v.name))⟩
  | .typedef td =>
    let name := td.alias.unwrapArray.asStr
    (decodeArray a td.alias .useTarget).bind fun d => .ok ⟨name, a.isGeneric name, .typedef d⟩

/-- `print_impl_from`: the template only changes how the impl is printed -/
def emitFrom (_tpl : Template) (a : Ast) : G (List Impl) := mapG (emitImpl a) (a.types.map (·.2))

def isVariable : ArrayType → Bool
  | .variable _ _ => true
  | _ => false

def isFixed : ArrayType → Bool
  | .fixed _ _ => true
  | _ => false

def emitSize (a : Ast) (t : AstType) : SizeImpl :=
  match t with
  | .struct s => ⟨s.name, a.isGeneric s.name,
      .struct (s.fields.map fun f => ⟨f.fieldName, f.containsOpaque, f.containsOpaque && isVariable f.fieldValue⟩)⟩
  | .union u => ⟨u.name, a.isGeneric u.name,
      .union ((u.cases.map fun c => c.caseValues.map fun l => SizeArm.data l c.containsOpaque).flatten
              ++ u.voidCases.map SizeArm.void
              ++ (match u.default with | some d => [SizeArm.data "default" d.containsOpaque] | none => []))⟩
  | .enum e => ⟨e.name, a.isGeneric e.name, .enum⟩
  | .typedef td =>
    let name := td.alias.unwrapArray.asStr
    ⟨name, a.isGeneric name, .typedef td.target.isOpaque (td.target.isOpaque && !isFixed td.alias)⟩

/-- `print_impl_wire_size` -/
def emitWireSize (a : Ast) : List SizeImpl := a.types.map fun kv => emitSize a kv.2

/-- the type of a struct field / union payload as `print_types` writes it -/
def payloadTy (a : Ast) (at_ : ArrayType) : TyExpr :=
  match at_.unwrapArray with
  | .opaque => .t
  | .string => .string
  | .ident i =>
    if a.isGeneric i then
      (match at_ with
       | .none _ => .pathT (BasicType.ident i).asSafeString
       | .fixed _ s => .arr (.pathT (BasicType.ident i).asSafeString) s
       | .variable _ _ => .vec (.pathT (BasicType.ident i).asSafeString))
    else
      (match at_ with
       | .none t => .path t.asSafeString
       | .fixed t s => .arr (.path t.asSafeString) s
       | .variable t _ => .vec (.path t.asSafeString))
  | _ =>
    (match at_ with
     | .none t => .path t.asSafeString
     | .fixed t s => .arr (.path t.asSafeString) s
     | .variable t _ => .vec (.path t.asSafeString))

/-- `matches!(&v.target, BasicType::Ident(i) if ast.generics().contains(i))`: only a named target can be generic -/
def Ast.targetGeneric (a : Ast) : BasicType → Bool
  | .ident i => a.isGeneric i
  | _ => false

/-- union payloads print a generic name as `name<T>` without the array wrapper (`write!(w, "{}<T>", i)`) -/
def armTy (a : Ast) (at_ : ArrayType) : TyExpr :=
  match at_.unwrapArray with
  | .opaque => .t
  | .string => .string
  | .ident i => if a.isGeneric i then .pathT i else payloadTy a at_
  | _ => payloadTy a at_

def emitTypeDecl (a : Ast) (t : AstType) : Option TypeDecl :=
  match t with
  | .struct s => some (.struct s.name (a.isGeneric s.name) (s.fields.map fun f =>
      (f.fieldName, if f.isOptional then .optBox (payloadTy a f.fieldValue) else payloadTy a f.fieldValue)))
  | .union u => some (.union u.name (a.isGeneric u.name)
      ((u.cases.map fun c => c.caseValues.map fun l => (l, some (armTy a c.fieldValue))).flatten
       ++ u.voidCases.map (fun l => (l, none))
       ++ (match u.default with | some d => [("default", some (armTy a d.fieldValue))] | none => [])))
  | .enum e => some (.enum e.name (e.variants.map fun v => (v.name, v.value.display)))
  | .typedef td =>
    if td.target == td.alias.unwrapArray then none
    else
      let name := td.alias.unwrapArray.asStr
      let tgen := a.targetGeneric td.target
      if td.target.isOpaque then some (.typedef name true false .t)
      else
        let wrap (e : TyExpr) : TyExpr :=
          match td.alias with
          | .none _ => e
          | .fixed _ s => .arr e s
          | .variable _ _ => .vec e
        if tgen then some (.typedef name true true (wrap (.pathT td.target.asSafeString)))
        else some (.typedef name false false (wrap (.path td.target.asSafeString)))

/-- `print_types` -/
def emitTypes (a : Ast) : List TypeDecl :=
  (a.constants.filterMap fun kv => match kv.2 with
      | .constValue s => some (TypeDecl.const kv.1 s)
      | .enumValue _ _ => none)
  ++ a.types.filterMap fun kv => emitTypeDecl a kv.2

/-- `Generator::generate` after the header: types, two `TryFrom` families, sizes -/
def generateModule (a : Ast) : G Module :=
  let types := emitTypes a
  (emitFrom .bytes a).bind fun f1 =>
  (emitFrom .refMutBytes a).bind fun f2 =>
  .ok ⟨types, f1, f2, emitWireSize a⟩

end Fx
