/-
  Fx.GenDriver — `gen …` requests: the model of `Generator::generate`.
-/
import Fx.Render
import Fx.FrontDriver
import Fx.Cli
namespace Fx

inductive GenRes where
  | ok (text : String)
  | err
  | panicAt (file msg : String)
  | outOfFuel

/-- `Generator::generate` (text after the header) -/
def generate (derive : String) (txt : String) : GenRes :=
  match Ast.new txt with
  | .err => .err
  | .outOfFuel => .outOfFuel
  | .panicAt f m => .panicAt f m
  | .ok a =>
    match generateModule a with
    | .ok m => .ok (m.render derive)
    | .err _ => .err
    | .panicAt f m => .panicAt f m

def hexOfString (s : String) : String :=
  let bs := s.toUTF8.toList
  if bs.isEmpty then "-" else hexOfBytes bs

def genRequest (f : List String) : String :=
  match f with
  | [d, h] =>
    match textOfHex h with
    | some t =>
      let derive := if d == "d" then defaultDerive else "#[derive(Debug, PartialEq, Clone)]"
      (match generate derive t with
       | .ok s => "ok " ++ hexOfString s
       | .err => "err"
       | .panicAt f m => "panic " ++ f ++ " " ++ m
       | .outOfFuel => "out-of-fuel")
    | none => "bad-op"
  | _ => "bad-op"

/-- `cli argv0-hex item…` with item = `G:<hex text>` | `E` | `U` | `P`; reply `exit=<n> stdout=<hex>` -/
def cliRequest (f : List String) : String :=
  match f with
  | argv0 :: items =>
    let outcome (s : String) : Option FileOutcome :=
      if s == "E" then some .rejected
      else if s == "U" then some .unreadable
      else if s == "P" then some .panicked
      else if s.startsWith "G:" then (textOfHex (s.drop 2).toString).map .generated
      else none
    (match textOfHex argv0, items.mapM outcome with
     | some a0, some os =>
       let (out, code) := cli a0 os
       "exit=" ++ toString code ++ " stdout=" ++ hexOfString out
     | _, _ => "bad-op")
  | [] => "bad-op"

end Fx
