/-
  Fx.Eval — big-step semantics of the emitted decoders and `wire_size` impls
  over the runtime model.  Modelled (tied by T2): Rust's evaluation order of
  struct literals and `?`, first-match `match`, integer/bool/const/guard/
  binding/wildcard patterns, casts, `Box/Some/None`, and method resolution of
  `.wire_size()` by the static type of the receiver (= the constructor of the
  value here).
-/
import Fx.Emit
import Fx.Runtime
namespace Fx

/-- what the evaluator needs from a generated module -/
structure Plans where
  impls : List Impl
  sizes : List SizeImpl
deriving Repr

def Plans.findImpl (p : Plans) (n : String) : Option Impl := p.impls.find? (·.name == n)
def Plans.findSize (p : Plans) (n : String) : Option SizeImpl := p.sizes.find? (·.name == n)

def Module.plans (m : Module) : Plans := ⟨m.fromRefMut, m.sizes⟩

/-! ### `wire_size()` of a value -/

def findSizeArm (variant : String) : List SizeArm → Option SizeArm
  | [] => none
  | a :: rest =>
    match a with
    | .data v _ => if nonDigitName v == variant then some a else findSizeArm variant rest
    | .void v => if nonDigitName v == variant then some a else findSizeArm variant rest

mutual
def wsVal (p : Plans) : Val → Nat
  | .u32 _ => 4 | .i32 _ => 4 | .f32 _ => 4 | .bool _ => 4
  | .u64 _ => 8 | .i64 _ => 8 | .f64 _ => 8
  | .str bs => wsString bs.length
  | .bytes _ bs => wsBytes bs.length
  | .vec xs => let x := wsSum p xs; 4 + x + padLen x
  | .arr xs => let x := wsSum p xs; x + padLen x
  | .none => 4
  | .some v => 4 + wsVal p v
  | .struct name _ fs =>
    (match p.findSize name with
     | some ⟨_, _, .struct sfs⟩ => wsFields p sfs fs
     | _ => 0)
  | .unit _ _ => 4
  | .tuple ty variant v =>
    (match p.findSize ty with
     | some ⟨_, _, .union arms⟩ =>
       (match findSizeArm variant arms with
        | some (.data _ pad) => 4 + (wsVal p v + (if pad then padLen (wsVal p v) else 0))
        | _ => 4)
     | _ => 4)
  | .newtype name v =>
    (match p.findSize name with
     | some ⟨_, _, .typedef opq plus4⟩ =>
       wsVal p v + (if opq then padLen (wsVal p v) + (if plus4 then 4 else 0) else 0)
     | _ => wsVal p v)
  | .cenum _ _ => 4
def wsSum (p : Plans) : Vals → Nat
  | .nil => 0
  | .cons v vs => wsVal p v + wsSum p vs
def wsFields (p : Plans) : List SizeField → Vals → Nat
  | _, .nil => 0
  | sfs, .cons v vs =>
    (match sfs with
     | f :: rest => wsVal p v + (if f.pad then padLen (wsVal p v) else 0) + (if f.plus4 then 4 else 0) + wsFields p rest vs
     | [] => wsVal p v + wsFields p [] vs)
end

/-! ### patterns -/

/-- an integer literal as the emitters can print one: decimal or `0x…` -/
def parseIntLit (s : String) : Option Nat :=
  match s.toList with
  | '0' :: 'x' :: rest => if rest.isEmpty then none else hexStrVal rest
  | cs => if allDigits cs then some (digitsVal cs) else none

/-- the number a scrutinee of an integer-like type holds, as a mathematical integer -/
def scrutInt : Val → Option Int
  | .u32 n => some n | .u64 n => some n | .i32 i => some i | .i64 i => some i
  | _ => none

def enumOf (a : Ast) (name : String) : Option Enum :=
  match a.getType name with
  | some (.enum e) => some e
  | _ => none

/-- discriminant of `E::V` as declared (`#[repr(u32)] enum E { V = n }`) -/
def enumDisc (a : Ast) (e v : String) : Option Int :=
  match enumOf a e with
  | some en =>
    (match en.variants.find? (·.name == v) with
     | some var =>
       (match var.value with
        | .numeric i => some i
        | .str s => (match a.getConst s with
                     | some (.constValue t) => (parseIntLit t).map Int.ofNat
                     | _ => none))
     | none => none)
  | none => none

/-- `d as i32` for the scrutinee kinds a union or enum decoder can have -/
def asI32 (a : Ast) : Val → Int
  | .u32 n => toSigned 32 n
  | .i32 i => i
  | .u64 n => toSigned 32 (n % 2^32)
  | .i64 i => toSigned 32 (ofSigned 64 i % 2^32)
  | .bool b => if b then 1 else 0
  | .cenum e m => (match enumDisc a e m with | some d => toSigned 32 (ofSigned 32 d) | none => 0)
  | _ => 0

/-- does a verbatim pattern match the scrutinee?  integer literal / `true` / `false` /
    a `pub const` (constant pattern) / any other identifier (a binding: matches everything) -/
def litMatches (a : Ast) (text : String) (s : Val) : Bool :=
  match parseIntLit text with
  | some n => (match scrutInt s with | some i => i == (n : Int) | none => false)
  | none =>
    if text == "true" then (match s with | .bool b => b | _ => false)
    else if text == "false" then (match s with | .bool b => !b | _ => false)
    else match a.getConst text with
      | some (.constValue t) =>
        (match parseIntLit t, scrutInt s with
         | some n, some i => i == (n : Int)
         | _, _ => false)
      | _ => true

def patMatches (a : Ast) (p : Pat) (s : Val) : Bool :=
  match p with
  | .wild => true
  | .lit t => litMatches a t s
  | .guard e v _castTy =>
    (match a.getConst "c" with
     | some (.constValue t) =>
       -- finding K14: the module declares `pub const c: u32`, so `c` in `c if c == E::V as ty` is a *constant pattern* and the `c` of
       -- the guard is that constant: the arm is taken iff the scrutinee equals the constant and the constant equals the member's value
       (match parseIntLit t, scrutInt s, enumDisc a e v with
        | some n, some i, some d => i == (n : Int) && (n : Int) == d
        | _, _, _ => false)
     | _ =>
       (match s with
        | .cenum e' m => e' == e && m == v           -- `c == E::V as E`
        | _ => (match scrutInt s, enumDisc a e v with
                | some i, some d => i == d           -- `c == E::V as <integer type>` (declared values are 0 … 2^31-1)
                | _, _ => false)))

def selectArm (a : Ast) (s : Val) : List Arm → Option Arm
  | [] => none
  | arm :: rest => if patMatches a arm.pat s then some arm else selectArm a s rest

/-- an enum decoder arm `value => Self::member`: a numeric declared value is an integer literal pattern;
    a value that names a constant (finding K4) is an identifier pattern -/
def enumArmMatches (a : Ast) (vv : VariantValue) (s : Val) : Bool :=
  match vv with
  | .numeric n => (match scrutInt s with | some i => i == n | none => false)
  | .str t => litMatches a t s

def selectEnum (a : Ast) (s : Val) : List (VariantValue × String) → Option String
  | [] => none
  | (p, m) :: rest => if enumArmMatches a p s then some m else selectEnum a s rest

def fieldNameOf : StructFieldDec → String
  | .plain n _ => safeName n
  | .optional n _ => safeName n

/-! ### decoders -/

def readPrim (p : Prim) (c : Cur) : Res Val :=
  match p with
  | .u32 => (readU32 c).map .u32
  | .u64 => (readU64 c).map .u64
  | .i32 => (readI32 c).map .i32
  | .i64 => (readI64 c).map .i64
  | .f32 => (readF32 c).map .f32
  | .f64 => (readF64 c).map .f64
  | .bool => (readBool c).map .bool

mutual
/-- `<name as TryFrom<&mut Bytes>>::try_from(v)` -/
def evalImpl (a : Ast) (p : Plans) : Nat → String → Cur → Res Val
  | 0, _, _ => .outOfFuel
  | fuel+1, name, c =>
    match p.findImpl name with
    | none => .panic "unresolved"          -- such a module does not compile (excluded by `Resolved`)
    | some i =>
      match i.body with
      | .struct fs =>
        (evalFields a p fuel fs c).bind fun vs c' => .ok (.struct name (fs.map fieldNameOf) vs) c'
      | .union u =>
        (evalBasic a p fuel u.disc c).bind fun d c1 =>
          (match selectArm a d u.arms with
           | some arm =>
             (match arm.payload with
              | some fd => (evalField a p fuel fd c1).bind fun v c2 => .ok (.tuple name (nonDigitName arm.variant) v) c2
              | none => .ok (.unit name (nonDigitName arm.variant)) c1)
           | none =>
             (match u.tail with
              | .defaultData fd => (evalField a p fuel fd c1).bind fun v c2 => .ok (.tuple name "default" v) c2
              | .errUnknown => .err (.unknownVariant (asI32 a d)) c1.log
              | .none => .panic "non-exhaustive match"))     -- cannot happen: a void default wrote `_`
      | .enum arms =>
        (readI32 c).bind fun i c1 =>
          (match selectEnum a (.i32 i) arms with
           | some m => .ok (.cenum name m) c1
           | none => .err (.unknownVariant i) c1.log)
      | .typedef fd =>
        (evalField a p fuel fd c).bind fun v c' => .ok (.newtype name v) c'

def evalBasic (a : Ast) (p : Plans) : Nat → BasicDec → Cur → Res Val
  | 0, _, _ => .outOfFuel
  | fuel+1, b, c =>
    match b with
    | .prim pr => readPrim pr c
    | .string => readString none c
    | .opaque => readVariableBytes none c
    | .tryFrom n => evalImpl a p fuel n c

def evalField (a : Ast) (p : Plans) : Nat → FieldDec → Cur → Res Val
  | 0, _, _ => .outOfFuel
  | fuel+1, fd, c =>
    match fd with
    | .one b => evalBasic a p fuel b c
    | .fixedBytes n => readBytes n c
    | .fixedArr n b => (evalRepeat a p fuel n b c).bind fun vs c' => .ok (.arr vs) c'
    | .varBytes m => readVariableBytes m c
    | .varString m => readString m c
    | .varArr ty _ m => readVariableArray (evalImpl a p fuel ty) (wsVal p) m c

def evalRepeat (a : Ast) (p : Plans) : Nat → Nat → BasicDec → Cur → Res Vals
  | 0, _, _, _ => .outOfFuel
  | _+1, 0, _, c => .ok .nil c
  | fuel+1, k+1, b, c =>
    (evalBasic a p fuel b c).bind fun v c1 =>
      (evalRepeat a p fuel k b c1).bind fun vs c2 => .ok (.cons v vs) c2

def evalFields (a : Ast) (p : Plans) : Nat → List StructFieldDec → Cur → Res Vals
  | 0, _, _ => .outOfFuel
  | _+1, [], c => .ok .nil c
  | fuel+1, f :: fs, c =>
    (match f with
     | .plain _ fd => evalField a p fuel fd c
     | .optional _ ty =>
       (readU32 c).bind fun m c1 =>
         if m = 0 then .ok .none c1
         else if m = 1 then (evalImpl a p fuel ty c1).bind fun v c2 => .ok (.some v) (c2.addLog .box)
         else .err (.unknownOptionVariant m) c1.log).bind fun v c' =>
      (evalFields a p fuel fs c').bind fun vs c'' => .ok (.cons v vs) c''
end

/-- fuel that suffices for an input of `n` bytes (recursion depth is bounded by elements + nesting) -/
def evalFuel (n : Nat) : Nat := 64 * n + 4096

/-- `TryFrom<&mut Bytes>`: the caller's buffer is the cursor that comes back -/
def decodeRefMut (a : Ast) (p : Plans) (name : String) (c : Cur) : Res Val :=
  evalImpl a p (evalFuel c.remaining) name c

/-- `TryFrom<Bytes>`: the same code run on an owned handle -/
def decodeByValue (a : Ast) (p : Plans) (name : String) (c : Cur) : Res Val :=
  evalImpl a p (evalFuel c.remaining) name c

end Fx
