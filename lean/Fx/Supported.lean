/-
  Fx.Supported — the supported subset of DESIGN §3.3 as a decidable predicate on the `Ast`
  (read off the specification, no emitter involved).  It is the hypothesis of the
  specification-level theorems; the driver evaluates it for every generated specification.
-/
import Fx.Xdr
import Fx.Emit
namespace Fx

def declared (a : Ast) (n : String) : Bool := (bget n a.types).isSome

def basicDeclared (a : Ast) : BasicType → Bool
  | .ident n => declared a n
  | _ => true

/-- a bound is a literal or a decimal constant -/
def boundOk (a : Ast) : ArraySize → Bool
  | .known _ => true
  | .constant c =>
    (match bget c a.constants with
     | some (.constValue t) => (parseU32 t).isSome
     | _ => false)

def optBoundOk (a : Ast) : Option ArraySize → Bool
  | none => true
  | some s => boundOk a s

/-- a non-optional declarator of a struct field -/
def declaratorOk (a : Ast) : ArrayType → Bool
  | .none .opaque => false                      -- bracket-less `opaque x;` (finding K1)
  | .none t => basicDeclared a t
  | .fixed .string _ => false                   -- fixed-length string (panics: K6.e)
  | .fixed t sz => basicDeclared a t && boundOk a sz
  | .variable .opaque m => optBoundOk a m
  | .variable .string m => optBoundOk a m
  | .variable (.ident n) m => declared a n && optBoundOk a m
  | .variable _ _ => false                      -- counted arrays of primitives (orphan rule, README)

def fieldOk (a : Ast) (f : StructField) : Bool :=
  f.fieldName != "TRUE" && f.fieldName != "FALSE" &&
  if f.isOptional then
    (match f.fieldValue with
     | .none (.ident n) => declared a n
     | _ => false)
  else declaratorOk a f.fieldValue

/-- a union arm: `type name;` with a type other than `opaque` (finding K1) -/
def armTypeOk (a : Ast) : ArrayType → Bool
  | .none .opaque => false
  | .none t => basicDeclared a t
  | _ => false

def labelKindOk (a : Ast) (k : DiscKind) (l : String) : Bool :=
  l != "default" &&
  (match k with
   | .bool => l == "TRUE" || l == "FALSE"
   | .enum e => e.variants.any (·.name == l)
   | .u32 => (labelValue a l).isSome && l != "TRUE" && l != "FALSE" && safeName l == l
   | .i32 => (match labelValue a l with | some v => v < 2^31 | none => false) && l != "TRUE" && l != "FALSE" && safeName l == l
   | .unsupported => false)

def allLabels (u : Union) : List String :=
  (u.cases.map (·.caseValues)).flatten ++ u.voidCases.filter (· != "default") ++
    (match u.default with | some d => d.caseValues.filter (· != "default") | none => [])

def distinctNats (l : List Nat) : Bool := l.eraseDups.length == l.length

def unionOk (a : Ast) (u : Union) : Bool :=
  let k := discKind a u.switch.varType
  (match k with | .unsupported => false | _ => true) &&
  u.cases.all (fun c => armTypeOk a c.fieldValue && !c.caseValues.isEmpty) &&
  (match u.default with
   | some d => armTypeOk a d.fieldValue && !(u.voidCases.contains "default") && d.caseValues.contains "default"
   | none => true) &&
  (allLabels u).all (labelKindOk a k) &&
  distinctNats ((allLabels u).filterMap (labelValue a)) &&
  -- a void default, if any, is the last void label (later labels would be unreachable)
  (match u.voidCases.reverse with
   | [] => true
   | _ :: rest => !(rest.contains "default"))

def variantNat (v : Variant) : Option Nat :=
  match v.value with | .numeric i => some i.toNat | .str _ => none

def enumOk (e : Enum) : Bool :=
  !e.variants.isEmpty && decide ((e.variants.map (·.name)).Nodup) &&
  e.variants.all (fun v => match v.value with | .numeric i => 0 ≤ i && i < 2^31 | .str _ => false) &&
  decide ((e.variants.map variantNat).Nodup)

def typedefOk (a : Ast) (td : Typedef) : Bool :=
  (match td.alias.unwrapArray with | .ident n => n != td.target.asStr | _ => false) &&
  (match td.target, td.alias with
   | .opaque, .none _ => true
   | .opaque, .fixed _ sz => boundOk a sz
   | .opaque, .variable _ (some sz) => boundOk a sz
   | .opaque, .variable _ none => false          -- `Typedef::new` never produces it
   | .string, _ => false
   | .ident n, .none _ => declared a n
   | .ident n, .fixed _ sz => declared a n && boundOk a sz
   | .ident n, .variable _ m => declared a n && optBoundOk a m
   | _, .none _ => true                          -- a primitive
   | _, _ => false)

def typeOk (a : Ast) : AstType → Bool
  | .struct s => !s.fields.isEmpty && s.fields.all (fieldOk a)
  | .union u => unionOk a u
  | .enum e => enumOk e
  | .typedef td => typedefOk a td

def keysSorted : List (String × AstType) → Bool
  | [] => true
  | [_] => true
  | a :: b :: rest => decide (a.1 < b.1) && keysSorted (b :: rest)

/-- the type index is what `TypeIndex::new` builds: keyed by the declarations' own names (none of which needs escaping), strictly sorted -/
def nameSafe (n : String) : Bool := (BasicType.ident n).asSafeString == n

def keysOk (a : Ast) : Bool := a.types.all (fun kv => kv.1 == kv.2.rustName && nameSafe kv.1) && keysSorted a.types

/-- no sign in front of a constant's value (the grammar cannot produce one; Rust's `parse::<u32>` would accept `+5`) -/
def plusFree (t : String) : Bool :=
  match t.toList with
  | '+' :: _ => false
  | _ => true

/-- constant and enum-member names are identifiers proper: not numerals (a label `5` must mean five) and not TRUE/FALSE -/
def constNamesOk (a : Ast) : Bool :=
  a.constants.all fun kv => (parseDecOrHex kv.1).isNone && kv.1 != "TRUE" && kv.1 != "FALSE" &&
    (match kv.2 with | .constValue t => safeName t == t && plusFree t | _ => true)

/-- every enum member is in the constant index under its own name, pointing at its enum (what `ConstantIndex::new` builds) -/
def enumConstsOk (a : Ast) : Bool :=
  a.types.all fun kv => match kv.2 with
    | .enum e => e.variants.all fun v => decide (bget v.name a.constants = some (.enumValue kv.1 v.name))
    | _ => true

/-- every enum entry of the constant index names a member of a declared enum -/
def constsWellFormed (a : Ast) : Bool :=
  a.constants.all fun kv => match kv.2 with
    | .constValue _ => true
    | .enumValue e v => v == kv.1 &&
        (match bget e a.types with
         | some (.enum en) => en.variants.any (·.name == v)
         | _ => false)


/-! ### side conditions of `C07_decoders_fit_declarations` that `Supported` leaves to rustc (all decidable; the driver evaluates them) -/

/-- the parameter lists of typedefs and enums as the generic index assigns them (what `C13_typedef_param_consistent` proves of
    every `Ast` the front end builds; an enum reaches no opaque data) -/
def paramsOk (a : Ast) : Bool :=
  a.types.all fun kv =>
    match kv.2 with
    | .typedef t => a.isGeneric kv.1 == (t.target.isOpaque || a.targetGeneric t.target)
    | .enum _ => !(a.isGeneric kv.1)
    | _ => true

def isEnumConst (a : Ast) (l : String) : Bool :=
  match a.getConst l with
  | some (.enumValue _ _) => true
  | _ => false

/-- what `Supported` leaves to rustc about the labels of integer-switched unions: the value fits the discriminant's type, and an
    enum member is cast to the primitive the discriminant is decoded as (`E::V as u32`; after repair e0a4211 also when the
    switch type is a typedef of it — before, the cast named the typedef and did not compile: the hypothesis this proof
    forced was the defect) -/
def labelsTypedU (a : Ast) (u : Union) : Bool :=
  match discKind a u.switch.varType with
  | .u32 => (allLabels u).all fun l =>
      (match labelValue a l with | some v => decide (v < 2^32) | none => false) && (!isEnumConst a l || (switchCastType a u.switch.varType).asSafeString == "u32")
  | .i32 => (allLabels u).all fun l => (!isEnumConst a l || (switchCastType a u.switch.varType).asSafeString == "i32")
  | _ => true

def labelsTyped (a : Ast) : Bool :=
  a.types.all fun kv =>
    match kv.2 with
    | .union u => labelsTypedU a u
    | _ => true

/-- the variants `print_types` declares for a union: one per label, in the order data labels, void labels, default -/
def unionVariants (a : Ast) (u : Union) : List (String × Option TyExpr) :=
  (u.cases.map fun c => c.caseValues.map fun l => (l, some (armTy a c.fieldValue))).flatten
    ++ u.voidCases.map (fun l => (l, none))
    ++ (match u.default with | some d => [("default", some (armTy a d.fieldValue))] | none => [])

/-- no two labels of one union give the same variant name (`1` and `v_1` would): part of what `Supported` leaves to rustc -/
def variantsDistinctU (a : Ast) (u : Union) : Bool := decide (((unionVariants a u).map fun x => nonDigitName x.1).Nodup)

def variantsDistinct (a : Ast) : Bool :=
  a.types.all fun kv =>
    match kv.2 with
    | .union u => variantsDistinctU a u
    | _ => true

/-- no constant is named `c`: the emitted union decoders bind the discriminant as `c` in `c if c == E::V as ty`, and a `pub const c`
    turns that binding into a constant pattern (finding K14: it compiles, and decodes wrongly) -/
def noGuardConst (a : Ast) : Bool := (bget "c" a.constants).isNone

/-- the supported subset -/
def Supported (a : Ast) : Bool :=
  keysOk a && a.types.all (fun kv => typeOk a kv.2) && constNamesOk a && enumConstsOk a && constsWellFormed a && noGuardConst a

theorem Supported.facts {a : Ast} (h : Supported a = true) :
    keysOk a = true ∧ a.types.all (fun kv => typeOk a kv.2) = true ∧ constNamesOk a = true ∧ enumConstsOk a = true ∧
      constsWellFormed a = true := by
  simp only [Supported, Bool.and_eq_true] at h
  exact ⟨h.1.1.1.1.1, h.1.1.1.1.2, h.1.1.1.2, h.1.1.2, h.1.2⟩

theorem Supported.noC {a : Ast} (h : Supported a = true) : bget "c" a.constants = none := by
  simp only [Supported, Bool.and_eq_true, noGuardConst, Option.isNone_iff_eq_none] at h
  exact h.2

end Fx
