/-
  Fx.Lemmas.ParseUnion — unions: arms with bodies, `void`, fall-through labels and `default`, under any layout.
-/
import Fx.Lemmas.ParseDecl
namespace Fx.Parse
open Fx.Peg

def kwVoid : List Char := ['v', 'o', 'i', 'd']
def kwCase : List Char := ['c', 'a', 's', 'e']
def kwDefault : List Char := ['d', 'e', 'f', 'a', 'u', 'l', 't']
def kwUnion : List Char := ['u', 'n', 'i', 'o', 'n']
def kwSwitch : List Char := ['s', 'w', 'i', 't', 'c', 'h']

def eTy : Expr := .alt (.ref "ident") (.ref "basic_type")
def eName : Expr := .alt (.ref "option") (.ref "ident")
def eArrSemi : Expr := .seq (.opt (.ref "array")) (.str [';'])
def eBody : Expr := .alt (.ref "union_data_field") (.ref "union_void")
def eArm : Expr := .alt (.ref "union_case") (.ref "union_default")

theorem find_uv : X.find "union_void" = some ⟨"union_void", .normal, .seq (.str kwVoid) (.str [';'])⟩ := rfl
theorem find_ucv : X.find "union_case_value" = some ⟨"union_case_value", .silent, .alt (.ref "ident_value") (.ref "ident_const")⟩ := rfl
theorem find_uc : X.find "union_case" = some ⟨"union_case", .normal,
    .seq (.str kwCase) (.seq (.ref "union_case_value") (.seq (.str [':']) (.opt eBody)))⟩ := rfl
theorem find_ud : X.find "union_default" = some ⟨"union_default", .normal,
    .seq (.str kwDefault) (.seq (.str [':']) eBody)⟩ := rfl
theorem find_union : X.find "union" = some ⟨"union", .normal,
    .seq (.str kwUnion) (.seq (.ref "ident") (.seq (.str kwSwitch) (.seq (.str ['(']) (.seq eTy (.seq (.ref "ident")
      (.seq (.str [')']) (.seq (.str ['{']) (.seq (.star eArm) (.seq (.str ['}']) (.str [';']))))))))))⟩ := rfl
theorem find_df' : X.find "data_field" = some ⟨"data_field", .silent, .seq eTy (.seq eName eArrSemi)⟩ := rfl

/-! ### where a declarator is *not* found (needed after a fall-through label and in front of `void`) -/

/-- `name` layout symbol: the name is read as a type, and no declarator name follows -/
theorem df_fail_name_sym {n : List Char} (hn : validIdent n = true) {L : Layout} (hL : L.ok = true) {c : Char}
    (hc : isIdentChar c = false) (hstar : c ≠ '*') (hws : isWsChar c = false) (hsl : c ≠ '/') (r : List Char) (p : Nat) :
    EFail X false (.ref "data_field") ⟨p, n ++ (L.text ++ (c :: r))⟩ := by
  refine EFail.ref (RFail.silent find_df' rfl rfl ?_)
  have A := (Acc.alt1 (b := .ref "basic_type") (Acc.ident hn)) p (L.text ++ (c :: r)) (afterName hL hc r)
  have S := skOk_layout L (p + n.length) (c :: r) hL (noLayout_starts hws hsl rfl)
  refine EFail.seq2 A S (EFail.seq1 (EFail.alt ?_ ?_))
  · exact (Rej.normal find_option rfl rfl (Rej.seq1 Rej.str_head)) _ _ (by simpa using hstar)
  · exact Rej.ident _ _ (noIdent_char hc)

/-- `name` layout `name` layout `:` — a type and a name, but no `;` -/
theorem df_fail_two_names {n1 n2 : List Char} (h1 : validIdent n1 = true) (h2 : validIdent n2 = true) {L1 L2 : Layout}
    (hL1 : L1.ok = true) (hne : L1.text ≠ []) (hL2 : L2.ok = true) (r : List Char) (p : Nat) :
    EFail X false (.ref "data_field") ⟨p, n1 ++ (L1.text ++ (n2 ++ (L2.text ++ (':' :: r))))⟩ := by
  refine EFail.ref (RFail.silent find_df' rfl rfl ?_)
  have A := (Acc.alt1 (b := .ref "basic_type") (Acc.ident h1)) p (L1.text ++ (n2 ++ (L2.text ++ (':' :: r))))
    (noIdent_layout_ne hL1 hne _)
  have S := skOk_layout L1 (p + n1.length) (n2 ++ (L2.text ++ (':' :: r))) hL1 (tokStart_ident h2).noLayout
  refine EFail.seq2 A S ?_
  have hhead : (n2 ++ (L2.text ++ (':' :: r))).head? ≠ some '*' := by
    obtain ⟨hne2, hall, _⟩ := validIdent_iff h2
    cases n2 with
    | nil => exact absurd rfl hne2
    | cons c cs =>
      have hc := allIdent_mem hall c (by simp)
      simp only [List.cons_append, List.head?_cons, ne_eq, Option.some.injEq]
      intro e; subst e; exact absurd hc (by decide)
  have B := (Acc.alt2 (C' := fun x => x.head? ≠ some '*') (Rej.normal find_option rfl rfl (Rej.seq1 Rej.str_head)) (Acc.ident h2)
    (fun x _ => by
      obtain ⟨hne2, hall, _⟩ := validIdent_iff h2
      cases n2 with
      | nil => exact absurd rfl hne2
      | cons c cs =>
        have hc := allIdent_mem hall c (by simp)
        simp only [List.cons_append, List.head?_cons, ne_eq, Option.some.injEq]
        intro e; subst e; exact absurd hc (by decide))) (p + n1.length + L1.text.length) (L2.text ++ (':' :: r))
    (afterName hL2 (by decide) r)
  have S2 := skOk_layout L2 (p + n1.length + L1.text.length + n2.length) (':' :: r) hL2 (noLayout_starts (by decide) (by decide) rfl)
  refine EFail.seq2 B S2 ?_
  have O : EOk X false (.opt (.ref "array")) ⟨p + n1.length + L1.text.length + n2.length + L2.text.length, ':' :: r⟩
      ⟨p + n1.length + L1.text.length + n2.length + L2.text.length, ':' :: r⟩ [] :=
    EOk.opt_none ((Rej.arr (c := ':') (by decide) (by decide)) _ _ rfl)
  exact EFail.seq2 O (skOk_none _ _ (noLayout_starts (by decide) (by decide) rfl)) (EFail.str (by simp [matchStr]))

/-! ### arm bodies -/

inductive Body where
  | void (l : Layout)
  | field (f : Field)
deriving Repr

def Body.text : Body → List Char
  | .void l => kwVoid ++ (l.text ++ [';'])
  | .field f => f.text

def Body.ok : Body → Bool
  | .void l => l.ok
  | .field f => f.ok

def Body.tokens : Body → List Pair
  | .void l => [Pair.mk "union_void" (Body.void l).text []]
  | .field f => [Pair.mk "union_data_field" f.text f.tokens]

theorem validIdent_void : validIdent kwVoid = true := by decide
theorem validIdent_default : validIdent kwDefault = true := by decide
theorem validIdent_case : validIdent kwCase = true := by decide

theorem Acc.bodyOk (b : Body) (h : b.ok = true) : Acc eBody b.text b.tokens (fun _ => True) := by
  cases b with
  | field f => exact Acc.alt1 (Acc.normal find_udf rfl rfl (Acc.field f h))
  | void l =>
    have hv : Acc (.ref "union_void") (kwVoid ++ (l.text ++ [';'])) [Pair.mk "union_void" (kwVoid ++ (l.text ++ [';'])) ([] ++ [])]
        (fun _ => True) :=
      Acc.normal find_uv rfl rfl (Acc.seq l (Acc.str kwVoid) h (Acc.str [';']) (fun _ _ => trivial)
        (fun _ _ => (tokStart_cons (by decide) (by decide)).noLayout))
    refine (Acc.alt2 (C' := fun x => ∃ r, x = kwVoid ++ (l.text ++ (';' :: r))) ?_ hv
      (fun r _ => ⟨r, by simp [List.append_assoc]⟩)).castT rfl (by simp [Body.tokens, Body.text])
    rintro p x ⟨r, rfl⟩
    exact EFail.ref (RFail.normal find_udf rfl rfl
      (df_fail_name_sym validIdent_void h (by decide) (by decide) (by decide) (by decide) r p))

/-! ### what may follow a fall-through label: the next arm, or the closing brace -/

inductive FtNext : List Char → Prop
  | close (r : List Char) : FtNext ('}' :: r)
  | dflt (la : Layout) (hla : la.ok = true) (r : List Char) : FtNext (kwDefault ++ (la.text ++ (':' :: r)))
  | case (la : Layout) (lab : Lit) (lb : Layout) (hla : la.ok = true) (hlab : lab.ok = true) (hlb : lb.ok = true) (r : List Char) :
      FtNext (kwCase ++ (la.text ++ (lab.text ++ (lb.text ++ (':' :: r)))))

theorem FtNext.noLayout {x : List Char} (h : FtNext x) : NoLayoutStart x := by
  cases h with
  | close r => simpa using (tokStart_cons (c := '}') (cs := r) (by decide) (by decide)).noLayout (r := [])
  | dflt la hla r => exact (tokStart_cons (c := 'd') (by decide) (by decide)).noLayout
  | case la lab lb _ _ _ r => exact (tokStart_cons (c := 'c') (by decide) (by decide)).noLayout

theorem validIdent_lit {l : Lit} (h : l.ok = true) : validIdent l.text = true := by
  cases l with
  | name n => simp only [Lit.ok, Bool.and_eq_true] at h; exact h.1
  | num d =>
    simp only [Lit.ok, Bool.and_eq_true, Bool.not_eq_true', List.isEmpty_eq_false_iff] at h
    obtain ⟨hne, hd⟩ := h
    cases d with
    | nil => exact absurd rfl hne
    | cons c cs =>
      have hc : isAsciiDigit c = true := by simp [allDigit] at hd; exact hd.1
      have hall : allIdent (c :: cs) = true := by
        simp only [allIdent, List.all_eq_true]
        intro x hx
        have : isAsciiDigit x = true := by simp [allDigit] at hd; rcases List.mem_cons.mp hx with rfl | hx'; exact hd.1; exact hd.2 x hx'
        exact digit_ident this
      simp only [validIdent, Lit.text, List.isEmpty_cons, Bool.not_false, Bool.true_and, hall, Bool.and_eq_true, Bool.not_eq_true',
        true_and]
      -- none of the built-in words starts with a digit
      cases hcon : typeWords.contains (c :: cs) with
      | false => rfl
      | true =>
        have hm := List.contains_iff_mem.mp hcon
        simp only [typeWords, List.mem_cons, List.cons.injEq, List.not_mem_nil, or_false] at hm
        rcases hm with h | h | h | h | h | h | h <;> (rw [h.1] at hc; exact absurd hc (by decide))

/-- `case` immediately followed by the label is one identifier -/
theorem validIdent_case_app {n : List Char} (h : validIdent n = true) : validIdent (kwCase ++ n) = true := by
  obtain ⟨_, hall, _⟩ := validIdent_iff h
  have hall' : allIdent (kwCase ++ n) = true := by
    simp only [allIdent, List.all_append, Bool.and_eq_true]
    exact ⟨by decide, hall⟩
  simp only [validIdent, hall', Bool.and_true, Bool.and_eq_true, Bool.not_eq_true']
  refine ⟨by simp [kwCase], ?_⟩
  cases hcon : typeWords.contains (kwCase ++ n) with
  | false => rfl
  | true =>
    have hm := List.contains_iff_mem.mp hcon
    simp [typeWords, kwCase] at hm

theorem Rej.bodyFt : Rej eBody FtNext := by
  intro p x hx
  refine EFail.alt (EFail.ref (RFail.normal find_udf rfl rfl ?_)) (EFail.ref (RFail.normal find_uv rfl rfl (EFail.seq1 (EFail.str ?_))))
  · cases hx with
    | close r => exact Rej.dataField p _ (noIdent_char (by decide))
    | dflt la hla r => exact df_fail_name_sym validIdent_default hla (by decide) (by decide) (by decide) (by decide) r p
    | case la lab lb hla hlab hlb r =>
      by_cases he : la.text = []
      · have := df_fail_name_sym (validIdent_case_app (validIdent_lit hlab)) hlb (c := ':') (by decide) (by decide) (by decide) (by decide) r p
        simpa [he, List.append_assoc] using this
      · exact df_fail_two_names validIdent_case (validIdent_lit hlab) hla he hlb r p
  · cases hx with
    | close r => simp [matchStr, kwVoid]
    | dflt la hla r => simp [matchStr, kwVoid, kwDefault]
    | case la lab lb _ _ _ r => simp [matchStr, kwVoid, kwCase]

/-! ### arms -/

inductive Arm where
  | case (la : Layout) (lab : Lit) (lb : Layout) (lc : Layout) (body : Option Body)
  | dflt (la : Layout) (lb : Layout) (body : Body)
deriving Repr

def optBodyText : Option Body → List Char
  | none => []
  | some b => b.text

def optBodyToks : Option Body → List Pair
  | none => []
  | some b => b.tokens

def Arm.text : Arm → List Char
  | .case la lab lb lc body => kwCase ++ (la.text ++ (lab.text ++ (lb.text ++ ([':'] ++ (lc.text ++ optBodyText body)))))
  | .dflt la lb body => kwDefault ++ (la.text ++ ([':'] ++ (lb.text ++ body.text)))

def Arm.ok : Arm → Bool
  | .case la lab lb lc body => la.ok && lab.ok && lb.ok && lc.ok && (match body with | none => true | some b => b.ok)
  | .dflt la lb body => la.ok && lb.ok && body.ok

def Arm.tokens : Arm → List Pair
  | .case la lab lb lc body => [Pair.mk "union_case" (Arm.case la lab lb lc body).text (lab.tokens ++ optBodyToks body)]
  | .dflt la lb body => [Pair.mk "union_default" (Arm.dflt la lb body).text body.tokens]

/-- a label without a body falls through: the next arm (or the brace) must follow directly, the layout after `:` is its own -/
def Arm.isFt : Arm → Bool
  | .case _ _ _ _ none => true
  | _ => false

/-- what an arm needs of its continuation -/
def Arm.After (a : Arm) (r : List Char) : Prop := if a.isFt then FtNext r else True

theorem tokStart_body {b : Body} (h : b.ok = true) : TokStart b.text := by
  cases b with
  | void l => exact tokStart_cons (c := 'v') (by decide) (by decide)
  | field f => exact tokStart_field h

theorem Acc.armOk (a : Arm) (h : a.ok = true) : Acc eArm a.text a.tokens a.After := by
  cases a with
  | case la lab lb lc body =>
    simp only [Arm.ok, Bool.and_eq_true] at h
    obtain ⟨⟨⟨⟨hla, hlab⟩, hlb⟩, hlc⟩, hb⟩ := h
    refine Acc.alt1 ?_
    have aOpt : Acc (.opt eBody) (optBodyText body) (optBodyToks body) (Arm.case la lab lb lc body).After := by
      cases body with
      | none => exact (Acc.opt_none Rej.bodyFt).mono (fun r hr => by simpa [Arm.After, Arm.isFt] using hr)
      | some b => exact (Acc.opt_some (Acc.bodyOk b hb)).mono (fun _ _ => trivial)
    have a3 := Acc.seq lc (Acc.str [':']) hlc aOpt (fun _ _ => trivial) (fun r hr => by
      cases body with
      | none => simpa [optBodyText] using FtNext.noLayout (by simpa [Arm.After, Arm.isFt] using hr)
      | some b => exact (tokStart_body hb).noLayout)
    have a2 := Acc.seq lb (Acc.silent find_ucv rfl rfl (Acc.lit lab hlab)) hlb a3
      (fun r _ => by simpa using afterName hlb (c := ':') (by decide) _)
      (fun _ _ => (tokStart_cons (by decide) (by decide)).noLayout)
    have a1 := Acc.seq la (Acc.str kwCase) hla a2 (fun _ _ => trivial) (fun _ _ => ((tokStart_lit hlab).app).noLayout)
    exact (Acc.normal find_uc rfl rfl a1).castT rfl (by simp [Arm.tokens, Arm.text])
  | dflt la lb body =>
    simp only [Arm.ok, Bool.and_eq_true] at h
    obtain ⟨⟨hla, hlb⟩, hb⟩ := h
    have a2 := Acc.seq lb (Acc.str [':']) hlb (Acc.bodyOk body hb) (fun _ _ => trivial) (fun _ _ => (tokStart_body hb).noLayout)
    have a1 := Acc.seq la (Acc.str kwDefault) hla a2 (fun _ _ => trivial) (fun _ _ => (tokStart_cons (by decide) (by decide)).noLayout)
    have hd := (Acc.normal find_ud rfl rfl a1).castT rfl (by simp [Arm.tokens, Arm.text] : _ = (Arm.dflt la lb body).tokens)
    refine (Acc.alt2 (C' := Starts 'd') (Rej.normal find_uc rfl rfl (Rej.seq1 (Rej.str_head.mono (fun r hr => by
      simp only [Starts] at hr; rw [hr]; decide)))) hd (fun r _ => by simp [Arm.text, kwDefault, Starts])).mono (fun _ _ => trivial)

theorem Rej.arm : Rej eArm (Starts '}') := by
  refine Rej.alt (Rej.normal find_uc rfl rfl (Rej.seq1 (Rej.str_head.mono (fun r hr => by simp only [Starts] at hr; rw [hr]; decide))))
    (Rej.normal find_ud rfl rfl (Rej.seq1 (Rej.str_head.mono (fun r hr => by simp only [Starts] at hr; rw [hr]; decide))))

def armElem (al : Arm × Layout) : Elem := ⟨al.1.text, al.1.tokens, al.2⟩

/-- an arm list is well formed: every arm is, and nothing separates a fall-through label from what it falls into (the layout
    after its `:` is part of the arm) -/
def armsOk (arms : List (Arm × Layout)) : Bool :=
  arms.all fun al => al.1.ok && al.2.ok && (!al.1.isFt || al.2.text.isEmpty)

theorem arm_ftNext (a : Arm) (h : a.ok = true) (y : List Char) : FtNext (a.text ++ y) := by
  cases a with
  | case la lab lb lc body =>
    simp only [Arm.ok, Bool.and_eq_true] at h
    have := FtNext.case la lab lb h.1.1.1.1 h.1.1.1.2 h.1.1.2 (lc.text ++ (optBodyText body ++ y))
    simpa [Arm.text, List.append_assoc] using this
  | dflt la lb body =>
    simp only [Arm.ok, Bool.and_eq_true] at h
    have := FtNext.dflt la h.1.1 (lb.text ++ (body.text ++ y))
    simpa [Arm.text, List.append_assoc] using this

theorem arms_elemsOk (r : List Char) (hr : Starts '}' r) : ∀ (arms : List (Arm × Layout)), armsOk arms = true →
    elemsOk eArm r (arms.map armElem) ∧ FtNext (nextOf (arms.map armElem) r) := by
  intro arms
  induction arms with
  | nil =>
    intro _
    refine ⟨trivial, ?_⟩
    cases r with
    | nil => simp [Starts] at hr
    | cons c cs =>
      have : c = '}' := by simpa [Starts] using hr
      subst this; exact FtNext.close cs
  | cons al arms ih =>
    intro h
    simp only [armsOk, List.all_cons, Bool.and_eq_true] at h
    obtain ⟨⟨⟨haok, hlok⟩, hft⟩, hrest⟩ := h
    obtain ⟨hrestOk, hnext⟩ := ih (by simpa [armsOk] using hrest)
    have hts := (tokStart_cons (c := 'c') (cs := []) (by decide) (by decide))
    have hstart : TokStart al.1.text := by
      cases al.1 with
      | case la lab lb lc body => exact tokStart_cons (c := 'c') (by decide) (by decide)
      | dflt la lb body => exact tokStart_cons (c := 'd') (by decide) (by decide)
    refine ⟨⟨?_, hlok, hstart.noLayout, ?_, hrestOk⟩, arm_ftNext al.1 haok _⟩
    · obtain ⟨c, cs, e, _, _⟩ := hstart
      simp [armElem, e]
    · intro p
      refine Acc.armOk al.1 haok p _ ?_
      simp only [Arm.After]
      split
      · rename_i hisft
        have hempty : al.2.text = [] := by
          simp only [hisft, Bool.not_true, Bool.false_or, List.isEmpty_iff] at hft
          exact hft
        simp only [armElem]
        rw [tailText_next, hempty]
        simpa using hnext
      · trivial

/-! ### unions -/

structure UnionD where
  l1 : Layout
  name : List Char
  l2 : Layout
  l3 : Layout           -- after `switch`
  l4 : Layout           -- after `(`
  ty : TyRef
  l5 : Layout
  var : List Char
  l6 : Layout
  l7 : Layout           -- after `)`
  l8 : Layout           -- after `{`
  arms : List (Arm × Layout)
  l9 : Layout           -- after `}`
deriving Repr

def UnionD.text (d : UnionD) : List Char :=
  kwUnion ++ (d.l1.text ++ (d.name ++ (d.l2.text ++ (kwSwitch ++ (d.l3.text ++ (['('] ++ (d.l4.text ++ (d.ty.text ++ (d.l5.text ++
    (d.var ++ (d.l6.text ++ ([')'] ++ (d.l7.text ++ (['{'] ++ (d.l8.text ++
      (elemsText (d.arms.map armElem) ++ (['}'] ++ (d.l9.text ++ [';']))))))))))))))))))

def UnionD.sepOk (d : UnionD) : Bool :=
  match d.ty with
  | .named _ => !d.l5.text.isEmpty
  | .prim _ _ => d.l5.lead.isEmpty

def UnionD.ok (d : UnionD) : Bool :=
  d.l1.ok && validIdent d.name && d.l2.ok && d.l3.ok && d.l4.ok && d.ty.ok && d.l5.ok && validIdent d.var && d.l6.ok && d.l7.ok &&
  d.l8.ok && armsOk d.arms && d.l9.ok && d.sepOk && !d.l2.text.isEmpty   -- `switch` must not continue the name

def UnionD.tokens (d : UnionD) : List Pair :=
  [Pair.mk "union" d.text (Pair.mk "ident" d.name [] :: (d.ty.tokens ++ (Pair.mk "ident" d.var [] :: elemToks (d.arms.map armElem))))]

theorem elemsText_start_arm (arms : List (Arm × Layout)) (Y : List Char) :
    NoLayoutStart (elemsText (arms.map armElem) ++ ('}' :: Y)) := by
  cases arms with
  | nil => simpa [elemsText] using (tokStart_cons (c := '}') (cs := Y) (by decide) (by decide)).noLayout (r := [])
  | cons al als =>
    cases hal : al.1 with
    | case la lab lb lc body =>
      simpa [elemsText, armElem, hal, Arm.text, kwCase] using (tokStart_cons (c := 'c') (by decide) (by decide)).noLayout (r := [])
    | dflt la lb body =>
      simpa [elemsText, armElem, hal, Arm.text, kwDefault] using (tokStart_cons (c := 'd') (by decide) (by decide)).noLayout (r := [])

theorem Acc.armsClose (arms : List (Arm × Layout)) (l9 : Layout) (ha : armsOk arms = true) (h9 : l9.ok = true) :
    Acc (.seq (.star eArm) (.seq (.str ['}']) (.str [';'])))
      (elemsText (arms.map armElem) ++ (['}'] ++ (l9.text ++ [';'])))
      (elemToks (arms.map armElem) ++ ([] ++ [])) (fun _ => True) := by
  have aClose : Acc (.seq (.str ['}']) (.str [';'])) (['}'] ++ (l9.text ++ [';'])) ([] ++ []) (fun _ => True) :=
    Acc.seq l9 (Acc.str ['}']) h9 (Acc.str [';']) (fun _ _ => trivial)
      (fun _ _ => (tokStart_cons (by decide) (by decide)).noLayout)
  cases hm : arms.map armElem with
  | nil =>
    have := Acc.seq0 (Acc.star_nil _ (Starts '}') Rej.arm) aClose (fun _ _ => rfl)
      (fun _ _ => (tokStart_cons (by decide) (by decide)).noLayout)
    exact this.castT (by simp [elemsText]) (by simp [elemToks])
  | cons el els =>
    have hok : ∀ r, Starts '}' r → elemsOk eArm r (el :: els) := fun r hr => by
      rw [← hm]; exact (arms_elemsOk r hr arms ha).1
    have hstar := Acc.star_els _ (Starts '}') (fun r hr => noLayout_starts (by decide) (by decide) hr) Rej.arm el els hok
    have hLast : (lastLayout (el :: els)).ok = true := by
      refine lastLayout_ok _ (fun x hx => ?_)
      rw [← hm] at hx
      obtain ⟨al, hmem, rfl⟩ := List.mem_map.mp hx
      have := (List.all_eq_true.mp ha) al hmem
      simp only [Bool.and_eq_true] at this
      exact this.1.2
    have := Acc.seq (lastLayout (el :: els)) hstar hLast aClose
      (fun r _ => ⟨_, by simp [Starts], rfl⟩) (fun _ _ => (tokStart_cons (by decide) (by decide)).noLayout)
    exact this.castT (by simp [starText_last]) rfl

theorem Acc.unionD (d : UnionD) (h : d.ok = true) : Acc (.ref "union") d.text d.tokens (fun _ => True) := by
  simp only [UnionD.ok, Bool.and_eq_true] at h
  obtain ⟨⟨⟨⟨⟨⟨⟨⟨⟨⟨⟨⟨⟨⟨h1, hn⟩, h2⟩, h3⟩, h4⟩, hty⟩, h5⟩, hv⟩, h6⟩, h7⟩, h8⟩, harms⟩, h9⟩, hsep⟩, h2ne⟩ := h
  have aArms := Acc.armsClose d.arms d.l9 harms h9
  have a8 := Acc.seq d.l8 (Acc.str ['{']) h8 aArms (fun _ _ => trivial)
    (fun r _ => by simpa [List.append_assoc] using elemsText_start_arm d.arms (d.l9.text ++ (';' :: r)))
  have a7 := Acc.seq d.l7 (Acc.str [')']) h7 a8 (fun _ _ => trivial) (fun _ _ => (tokStart_cons (by decide) (by decide)).noLayout)
  have a6 := Acc.seq d.l6 (Acc.ident hv) h6 a7 (fun r _ => by simpa using afterName h6 (c := ')') (by decide) _)
    (fun _ _ => (tokStart_cons (by decide) (by decide)).noLayout)
  have a5 := Acc.seq d.l5 (Acc.tyref d.ty hty) h5 a6 (fun r _ => by
      cases hty' : d.ty with
      | named n =>
        simp only [TyRef.After]
        have : d.l5.text ≠ [] := by
          simp only [UnionD.sepOk, hty', Bool.not_eq_true', List.isEmpty_eq_false_iff] at hsep
          exact hsep
        exact noIdent_layout_ne h5 this _
      | prim pr tr =>
        simp only [TyRef.After]
        have : d.l5.lead = [] := by
          simp only [UnionD.sepOk, hty', List.isEmpty_iff] at hsep
          exact hsep
        exact noWs_layout this (by simpa [List.append_assoc] using noWs_ident hv (r := _)))
    (fun _ _ => ((tokStart_ident hv).app).noLayout)
  have a4 := Acc.seq d.l4 (Acc.str ['(']) h4 a5 (fun _ _ => trivial) (fun _ _ => ((tokStart_tyref hty).app).noLayout)
  have a3 := Acc.seq d.l3 (Acc.str kwSwitch) h3 a4 (fun _ _ => trivial) (fun _ _ => (tokStart_cons (by decide) (by decide)).noLayout)
  have a2 := Acc.seq d.l2 (Acc.ident hn) h2 a3 (fun r _ => ?_) (fun _ _ => (tokStart_cons (by decide) (by decide)).noLayout)
  · have a1 := Acc.seq d.l1 (Acc.str kwUnion) h1 a2 (fun _ _ => trivial) (fun _ _ => ((tokStart_ident hn).app).noLayout)
    exact (Acc.normal find_union rfl rfl a1).castT rfl (by simp [UnionD.tokens, UnionD.text])
  · -- after the union's name: `switch` must not continue it, so a layout is required
    have : d.l2.text ≠ [] := by simpa using h2ne
    exact noIdent_layout_ne h2 this _

end Fx.Parse
