/-
  Fx.Lemmas.ParseField — concrete syntax (with the layout at every gap) of type references, array suffixes and
  declarators, and the proof that the grammar regenerated from `src/xdr.pest` accepts their text with the expected tokens.
-/
import Fx.Lemmas.ParseAcc
namespace Fx.Parse
open Fx.Peg

/-! ### layouts and first characters -/

theorem segsText_head : ∀ (segs : List (Cmt × List Char)), segs ≠ [] → ∃ cs, segsText segs = '/' :: cs := by
  intro segs hne
  cases segs with
  | nil => exact absurd rfl hne
  | cons cw rest =>
    obtain ⟨c, w⟩ := cw
    cases c <;> simp [segsText, Cmt.text]

/-- a layout is empty, or starts with white space or with `/` -/
theorem Layout.text_head (L : Layout) (hL : L.ok = true) :
    L.text = [] ∨ ∃ c cs, L.text = c :: cs ∧ (isWsChar c = true ∨ c = '/') := by
  simp only [Layout.ok, Bool.and_eq_true] at hL
  obtain ⟨lead, segs⟩ := L
  cases lead with
  | nil =>
    cases segs with
    | nil => exact .inl rfl
    | cons cw rest =>
      obtain ⟨cs, h⟩ := segsText_head (cw :: rest) (by simp)
      exact .inr ⟨'/', cs, by simp [Layout.text, h], .inr rfl⟩
  | cons c cs =>
    exact .inr ⟨c, cs ++ segsText segs, by simp [Layout.text], .inl (allWs_mem hL.1 c (by simp))⟩

/-- the text starts with the character `c` -/
def Starts (c : Char) (r : List Char) : Prop := r.head? = some c

theorem Starts.cons {c : Char} {cs : List Char} : Starts c (c :: cs) := rfl

/-- after any layout, a symbol: the whole does not continue an identifier -/
theorem noIdent_layout {L : Layout} (hL : L.ok = true) {r : List Char} (hr : NoIdentStart r) : NoIdentStart (L.text ++ r) := by
  rcases L.text_head hL with h | ⟨c, cs, h, hc⟩
  · rw [h]; exact hr
  · rw [h]
    rcases hc with hc | rfl
    · exact noIdent_of_ws hc
    · exact noIdent_char (by decide)

/-- after a non-empty layout, anything -/
theorem noIdent_layout_ne {L : Layout} (hL : L.ok = true) (hne : L.text ≠ []) (r : List Char) : NoIdentStart (L.text ++ r) := by
  rcases L.text_head hL with h | ⟨c, cs, h, hc⟩
  · exact absurd h hne
  · rw [h]
    rcases hc with hc | rfl
    · exact noIdent_of_ws hc
    · exact noIdent_char (by decide)

theorem noIdent_starts {c : Char} {r : List Char} (hc : isIdentChar c = false) (h : Starts c r) : NoIdentStart r := by
  intro d hd
  have : d = c := by simpa [Starts, hd] using h
  subst this; exact hc

theorem noLayout_starts {c : Char} {r : List Char} (h1 : isWsChar c = false) (h2 : c ≠ '/') (h : Starts c r) : NoLayoutStart r := by
  intro d hd
  have : d = c := by simpa [Starts, hd] using h
  subst this; exact ⟨h1, h2⟩

theorem noWs_starts {c : Char} {r : List Char} (h1 : isWsChar c = false) (h : Starts c r) : NoWsStart r := by
  intro d hd
  have : d = c := by simpa [Starts, hd] using h
  subst this; exact h1

/-- a layout whose white-space lead is empty does not start with white space (it starts with a comment or is empty) -/
theorem noWs_layout {L : Layout} (hlead : L.lead = []) {r : List Char} (hr : NoWsStart r) : NoWsStart (L.text ++ r) := by
  obtain ⟨lead, segs⟩ := L
  simp only at hlead
  subst hlead
  cases segs with
  | nil => simpa [Layout.text, segsText] using hr
  | cons cw rest =>
    obtain ⟨cs, h⟩ := segsText_head (cw :: rest) (by simp)
    simp only [Layout.text, List.nil_append, h, List.cons_append]
    intro d hd; simp at hd; subst hd; decide

theorem noWs_ident {n r : List Char} (h : validIdent n = true) : NoWsStart (n ++ r) := by
  obtain ⟨c, cs, rfl, h1, _⟩ := tokStart_ident h
  intro d hd; simp at hd; subst hd; exact h1

/-! ### the built-in type spellings -/

inductive Prim where
  | int | hyper
  | uint (w : List Char)       -- `unsigned`, white space, `int`
  | uhyper (w : List Char)
  | float | double | string | opaque
deriving Repr

def Prim.words : Prim → List Char
  | .int => ['i', 'n', 't']
  | .hyper => ['h', 'y', 'p', 'e', 'r']
  | .uint w => ['u', 'n', 's', 'i', 'g', 'n', 'e', 'd'] ++ (w ++ ['i', 'n', 't'])
  | .uhyper w => ['u', 'n', 's', 'i', 'g', 'n', 'e', 'd'] ++ (w ++ ['h', 'y', 'p', 'e', 'r'])
  | .float => ['f', 'l', 'o', 'a', 't']
  | .double => ['d', 'o', 'u', 'b', 'l', 'e']
  | .string => ['s', 't', 'r', 'i', 'n', 'g']
  | .opaque => ['o', 'p', 'a', 'q', 'u', 'e']

def Prim.ok : Prim → Bool
  | .uint w => !w.isEmpty && allWs w
  | .uhyper w => !w.isEmpty && allWs w
  | _ => true

def wsRun (w : List Char) : Bool := !w.isEmpty && allWs w

theorem wsRun_iff {w : List Char} (h : wsRun w = true) : w ≠ [] ∧ ∀ c ∈ w, isWsChar c = true := by
  simp only [wsRun, Bool.and_eq_true, Bool.not_eq_true', List.isEmpty_eq_false_iff] at h
  exact ⟨h.1, allWs_mem h.2⟩

theorem bt_body_ok (pr : Prim) (t : List Char) (hp : pr.ok = true) (ht : wsRun t = true) (p : Nat) (r : List Char) (hr : NoWsStart r) :
    ∃ body, X.find "basic_type" = some ⟨"basic_type", .atomic, body⟩ ∧
      EOk X true body ⟨p, (pr.words ++ t) ++ r⟩ ⟨p + (pr.words ++ t).length, r⟩ [] := by
  refine ⟨_, find_bt, ?_⟩
  obtain ⟨htne, htw⟩ := wsRun_iff ht
  have W : ∀ q, EOk X true (.plus (.ref "WHITESPACE")) ⟨q, t ++ r⟩ ⟨q + t.length, r⟩ [] := fun q => wsPlus htne htw hr
  cases pr with
  | int =>
    refine EOk.alt1 ?_
    have h1 : EOk X true (.opt (.seq (.str ['u', 'n', 's', 'i', 'g', 'n', 'e', 'd']) (.plus (.ref "WHITESPACE"))))
        ⟨p, 'i' :: 'n' :: 't' :: (t ++ r)⟩ ⟨p, 'i' :: 'n' :: 't' :: (t ++ r)⟩ [] :=
      EOk.opt_none (EFail.seq1 (EFail.str (by simp [matchStr])))
    have h2 := EOk.seqA (EOk.alt1 (b := .str ['h', 'y', 'p', 'e', 'r']) (EOk.str (matchStr_self ['i', 'n', 't'] (t ++ r) p))) (W _)
    refine EOk.cast (EOk.seqA h1 (by simpa using h2)) ?_ rfl
    simp [Prim.words]; omega
  | hyper =>
    refine EOk.alt1 ?_
    have h1 : EOk X true (.opt (.seq (.str ['u', 'n', 's', 'i', 'g', 'n', 'e', 'd']) (.plus (.ref "WHITESPACE"))))
        ⟨p, 'h' :: 'y' :: 'p' :: 'e' :: 'r' :: (t ++ r)⟩ ⟨p, 'h' :: 'y' :: 'p' :: 'e' :: 'r' :: (t ++ r)⟩ [] :=
      EOk.opt_none (EFail.seq1 (EFail.str (by simp [matchStr])))
    have h2 := EOk.seqA (EOk.alt2 (a := .str ['i', 'n', 't']) (EFail.str (by simp [matchStr]))
      (EOk.str (matchStr_self ['h', 'y', 'p', 'e', 'r'] (t ++ r) p))) (W _)
    refine EOk.cast (EOk.seqA h1 (by simpa using h2)) ?_ rfl
    simp [Prim.words]; omega
  | uint w =>
    refine EOk.alt1 ?_
    obtain ⟨hwne, hww⟩ := wsRun_iff (w := w) (by simpa [Prim.ok, wsRun] using hp)
    have hU := EOk.seqA (EOk.str (matchStr_self ['u', 'n', 's', 'i', 'g', 'n', 'e', 'd'] (w ++ (['i', 'n', 't'] ++ (t ++ r))) p))
      (wsPlus (p := p + 8) hwne hww (r := ['i', 'n', 't'] ++ (t ++ r)) (fun d hd => by simp at hd; subst hd; decide))
    have h2 := EOk.seqA (EOk.alt1 (b := .str ['h', 'y', 'p', 'e', 'r'])
      (EOk.str (matchStr_self ['i', 'n', 't'] (t ++ r) (p + 8 + w.length)))) (W _)
    have := EOk.seqA (EOk.opt_some hU) h2
    refine EOk.cast (by simpa [Prim.words, List.append_assoc] using this) ?_ (by simp)
    simp [Prim.words]; omega
  | uhyper w =>
    refine EOk.alt1 ?_
    obtain ⟨hwne, hww⟩ := wsRun_iff (w := w) (by simpa [Prim.ok, wsRun] using hp)
    have hU := EOk.seqA (EOk.str (matchStr_self ['u', 'n', 's', 'i', 'g', 'n', 'e', 'd'] (w ++ (['h', 'y', 'p', 'e', 'r'] ++ (t ++ r))) p))
      (wsPlus (p := p + 8) hwne hww (r := ['h', 'y', 'p', 'e', 'r'] ++ (t ++ r)) (fun d hd => by simp at hd; subst hd; decide))
    have h2 := EOk.seqA (EOk.alt2 (a := .str ['i', 'n', 't']) (EFail.str (by simp [matchStr]))
      (EOk.str (matchStr_self ['h', 'y', 'p', 'e', 'r'] (t ++ r) (p + 8 + w.length)))) (W _)
    have := EOk.seqA (EOk.opt_some hU) h2
    refine EOk.cast (by simpa [Prim.words, List.append_assoc] using this) ?_ (by simp)
    simp [Prim.words]; omega
  | float =>
    have hf : EFail X true (.seq (.opt (.seq (.str ['u', 'n', 's', 'i', 'g', 'n', 'e', 'd']) (.plus (.ref "WHITESPACE"))))
        (.seq (.alt (.str ['i', 'n', 't']) (.str ['h', 'y', 'p', 'e', 'r'])) (.plus (.ref "WHITESPACE"))))
        ⟨p, 'f' :: 'l' :: 'o' :: 'a' :: 't' :: (t ++ r)⟩ :=
      EFail.seq2A (EOk.opt_none (EFail.seq1 (EFail.str (by simp [matchStr]))))
        (EFail.seq1 (EFail.alt (EFail.str (by simp [matchStr])) (EFail.str (by simp [matchStr]))))
    have h2 := EOk.seqA (EOk.alt1 (b := .alt (.str ['d', 'o', 'u', 'b', 'l', 'e']) (.alt (.str ['s', 't', 'r', 'i', 'n', 'g']) (.str ['o', 'p', 'a', 'q', 'u', 'e'])))
      (EOk.str (matchStr_self ['f', 'l', 'o', 'a', 't'] (t ++ r) p))) (W _)
    refine EOk.cast (EOk.alt2 (by simpa [Prim.words] using hf) (by simpa [Prim.words] using h2)) ?_ rfl
    simp [Prim.words]; omega
  | double =>
    have hf : EFail X true (.seq (.opt (.seq (.str ['u', 'n', 's', 'i', 'g', 'n', 'e', 'd']) (.plus (.ref "WHITESPACE"))))
        (.seq (.alt (.str ['i', 'n', 't']) (.str ['h', 'y', 'p', 'e', 'r'])) (.plus (.ref "WHITESPACE"))))
        ⟨p, 'd' :: 'o' :: 'u' :: 'b' :: 'l' :: 'e' :: (t ++ r)⟩ :=
      EFail.seq2A (EOk.opt_none (EFail.seq1 (EFail.str (by simp [matchStr]))))
        (EFail.seq1 (EFail.alt (EFail.str (by simp [matchStr])) (EFail.str (by simp [matchStr]))))
    have h2 := EOk.seqA (EOk.alt2 (a := .str ['f', 'l', 'o', 'a', 't']) (EFail.str (by simp [matchStr]))
      (EOk.alt1 (b := .alt (.str ['s', 't', 'r', 'i', 'n', 'g']) (.str ['o', 'p', 'a', 'q', 'u', 'e']))
        (EOk.str (matchStr_self ['d', 'o', 'u', 'b', 'l', 'e'] (t ++ r) p)))) (W _)
    refine EOk.cast (EOk.alt2 (by simpa [Prim.words] using hf) (by simpa [Prim.words] using h2)) ?_ rfl
    simp [Prim.words]; omega
  | string =>
    have hf : EFail X true (.seq (.opt (.seq (.str ['u', 'n', 's', 'i', 'g', 'n', 'e', 'd']) (.plus (.ref "WHITESPACE"))))
        (.seq (.alt (.str ['i', 'n', 't']) (.str ['h', 'y', 'p', 'e', 'r'])) (.plus (.ref "WHITESPACE"))))
        ⟨p, 's' :: 't' :: 'r' :: 'i' :: 'n' :: 'g' :: (t ++ r)⟩ :=
      EFail.seq2A (EOk.opt_none (EFail.seq1 (EFail.str (by simp [matchStr]))))
        (EFail.seq1 (EFail.alt (EFail.str (by simp [matchStr])) (EFail.str (by simp [matchStr]))))
    have h2 := EOk.seqA (EOk.alt2 (a := .str ['f', 'l', 'o', 'a', 't']) (EFail.str (by simp [matchStr]))
      (EOk.alt2 (a := .str ['d', 'o', 'u', 'b', 'l', 'e']) (EFail.str (by simp [matchStr]))
        (EOk.alt1 (b := .str ['o', 'p', 'a', 'q', 'u', 'e']) (EOk.str (matchStr_self ['s', 't', 'r', 'i', 'n', 'g'] (t ++ r) p))))) (W _)
    refine EOk.cast (EOk.alt2 (by simpa [Prim.words] using hf) (by simpa [Prim.words] using h2)) ?_ rfl
    simp [Prim.words]; omega
  | «opaque» =>
    have hf : EFail X true (.seq (.opt (.seq (.str ['u', 'n', 's', 'i', 'g', 'n', 'e', 'd']) (.plus (.ref "WHITESPACE"))))
        (.seq (.alt (.str ['i', 'n', 't']) (.str ['h', 'y', 'p', 'e', 'r'])) (.plus (.ref "WHITESPACE"))))
        ⟨p, 'o' :: 'p' :: 'a' :: 'q' :: 'u' :: 'e' :: (t ++ r)⟩ :=
      EFail.seq2A (EOk.opt_none (EFail.seq1 (EFail.str (by simp [matchStr]))))
        (EFail.seq1 (EFail.alt (EFail.str (by simp [matchStr])) (EFail.str (by simp [matchStr]))))
    have h2 := EOk.seqA (EOk.alt2 (a := .str ['f', 'l', 'o', 'a', 't']) (EFail.str (by simp [matchStr]))
      (EOk.alt2 (a := .str ['d', 'o', 'u', 'b', 'l', 'e']) (EFail.str (by simp [matchStr]))
        (EOk.alt2 (a := .str ['s', 't', 'r', 'i', 'n', 'g']) (EFail.str (by simp [matchStr]))
          (EOk.str (matchStr_self ['o', 'p', 'a', 'q', 'u', 'e'] (t ++ r) p))))) (W _)
    refine EOk.cast (EOk.alt2 (by simpa [Prim.words] using hf) (by simpa [Prim.words] using h2)) ?_ rfl
    simp [Prim.words]; omega

/-! ### type references: a name or a built-in spelling -/

inductive TyRef where
  | named (n : List Char)
  | prim (pr : Prim) (trail : List Char)   -- the white space after the word belongs to the `basic_type` token
deriving Repr

def TyRef.text : TyRef → List Char
  | .named n => n
  | .prim pr t => pr.words ++ t

def TyRef.ok : TyRef → Bool
  | .named n => validIdent n
  | .prim pr t => pr.ok && wsRun t

def TyRef.tokens : TyRef → List Pair
  | .named n => [Pair.mk "ident" n []]
  | .prim pr t => [Pair.mk "basic_type" (pr.words ++ t) []]

/-- what may follow: a name must not be continued; the white space after a built-in word is all inside the token -/
def TyRef.After : TyRef → List Char → Prop
  | .named _, r => NoIdentStart r
  | .prim _ _, r => NoWsStart r

theorem Acc.tyref (t : TyRef) (h : t.ok = true) : Acc (.alt (.ref "ident") (.ref "basic_type")) t.text t.tokens t.After := by
  cases t with
  | named n => exact Acc.alt1 (Acc.ident h)
  | prim pr tr =>
    simp only [TyRef.ok, Bool.and_eq_true] at h
    intro p r hr
    obtain ⟨body, hf, hb⟩ := bt_body_ok pr tr h.1 h.2 p r hr
    -- `ident` starts with `!basic_type`, and `basic_type` matches here
    have hbA : ROk X true "basic_type" ⟨p, (pr.words ++ tr) ++ r⟩ ⟨p + (pr.words ++ tr).length, r⟩ [] := ROk.atomicA hf rfl rfl hb
    have hid : RFail X false "ident" ⟨p, (pr.words ++ tr) ++ r⟩ :=
      RFail.atomic find_ident rfl rfl (EFail.seq1 (EFail.not (EOk.ref hbA)))
    have hbT := ROk.atomic hf rfl rfl hb
    rw [consumed_app] at hbT
    exact EOk.alt2 (EFail.ref hid) (EOk.ref hbT)

theorem Acc.castT {e : Expr} {T T' : List Char} {TS TS' : List Pair} {C : List Char → Prop} (h : Acc e T TS C) (h1 : T = T')
    (h2 : TS = TS') : Acc e T' TS' C := by subst h1; subst h2; exact h

theorem tokStart_lit {l : Lit} (h : l.ok = true) : TokStart l.text := by
  cases l with
  | num d =>
    simp only [Lit.ok, Bool.and_eq_true, Bool.not_eq_true', List.isEmpty_eq_false_iff] at h
    cases d with
    | nil => exact absurd rfl h.1
    | cons c cs =>
      have hc : isAsciiDigit c = true := by have := h.2; simp [allDigit] at this; exact this.1
      have hi := digit_ident hc
      exact ⟨c, cs, rfl, ident_not_ws hi, fun e => by subst e; exact absurd hi (by decide)⟩
  | name n =>
    simp only [Lit.ok, Bool.and_eq_true] at h
    exact tokStart_ident h.1

theorem tokStart_tyref {t : TyRef} (h : t.ok = true) : TokStart t.text := by
  cases t with
  | named n => exact tokStart_ident h
  | prim pr tr =>
    cases pr <;> simp only [TyRef.text, Prim.words, List.cons_append, List.nil_append] <;> exact ⟨_, _, rfl, by decide, by decide⟩

/-! ### array suffixes -/

inductive Arr where
  | var (l1 : Layout) (len : Option (Lit × Layout))     -- `<` l1 [len l2] `>`
  | fixed (l1 : Layout) (len : Lit) (l2 : Layout)       -- `[` l1 len l2 `]`
deriving Repr

def Arr.text : Arr → List Char
  | .var l1 none => ['<'] ++ (l1.text ++ ['>'])
  | .var l1 (some (n, l2)) => ['<'] ++ (l1.text ++ (n.text ++ (l2.text ++ ['>'])))
  | .fixed l1 n l2 => ['['] ++ (l1.text ++ (n.text ++ (l2.text ++ [']'])))

def Arr.ok : Arr → Bool
  | .var l1 none => l1.ok
  | .var l1 (some (n, l2)) => l1.ok && n.ok && l2.ok
  | .fixed l1 n l2 => l1.ok && n.ok && l2.ok

def Arr.tokens : Arr → List Pair
  | .var l1 none => [Pair.mk "array_variable" (Arr.var l1 none).text []]
  | .var l1 (some (n, l2)) => [Pair.mk "array_variable" (Arr.var l1 (some (n, l2))).text n.tokens]
  | .fixed l1 n l2 => [Pair.mk "array_fixed" (Arr.fixed l1 n l2).text n.tokens]

theorem find_av : X.find "array_variable" =
    some ⟨"array_variable", .normal, .seq (.str ['<']) (.seq (.opt (.ref "array_length")) (.str ['>']))⟩ := rfl
theorem find_af : X.find "array_fixed" =
    some ⟨"array_fixed", .normal, .seq (.str ['[']) (.seq (.ref "array_length") (.str [']']))⟩ := rfl
theorem find_al : X.find "array_length" = some ⟨"array_length", .silent, .alt (.ref "ident_value") (.ref "ident_const")⟩ := rfl
theorem find_array : X.find "array" = some ⟨"array", .silent, .alt (.ref "array_variable") (.ref "array_fixed")⟩ := rfl

theorem Rej.lit : Rej (.alt (.ref "ident_value") (.ref "ident_const")) NoIdentStart :=
  Rej.alt (fun _ _ hr => EFail.ref (value_fail hr.digit)) (Rej.normal find_ic rfl rfl Rej.ident)

theorem Acc.arr (a : Arr) (h : a.ok = true) : Acc (.ref "array") a.text a.tokens (fun _ => True) := by
  cases a with
  | var l1 len =>
    cases len with
    | none =>
      refine Acc.silent find_array rfl rfl (Acc.alt1 ?_)
      have inner : Acc (.seq (.opt (.ref "array_length")) (.str ['>'])) ([] ++ ['>']) ([] ++ []) (fun _ => True) :=
        Acc.seq0 (C1 := Starts '>') (Acc.opt_none (Rej.silent find_al rfl rfl (Rej.lit.mono (fun r hr => noIdent_starts (by decide) hr))))
          (Acc.str ['>']) (fun _ _ => rfl) (fun _ _ => noLayout_starts (c := '>') (by decide) (by decide) rfl)
      have := Acc.normal find_av rfl rfl (Acc.seq l1 (Acc.str ['<']) h inner (fun _ _ => trivial)
        (fun _ _ => noLayout_starts (c := '>') (by decide) (by decide) rfl))
      exact this.castT (by simp [Arr.text]) (by simp [Arr.tokens, Arr.text])
    | some nl =>
      obtain ⟨n, l2⟩ := nl
      simp only [Arr.ok, Bool.and_eq_true] at h
      refine Acc.silent find_array rfl rfl (Acc.alt1 ?_)
      have inner : Acc (.seq (.opt (.ref "array_length")) (.str ['>'])) (n.text ++ (l2.text ++ ['>'])) (n.tokens ++ []) (fun _ => True) :=
        Acc.seq l2 (Acc.opt_some (Acc.silent find_al rfl rfl (Acc.lit n h.1.2))) h.2 (Acc.str ['>'])
          (fun r _ => noIdent_layout h.2 (noIdent_char (c := '>') (by decide)))
          (fun _ _ => noLayout_starts (c := '>') (by decide) (by decide) rfl)
      have := Acc.normal find_av rfl rfl (Acc.seq l1 (Acc.str ['<']) h.1.1 inner (fun _ _ => trivial)
        (fun r _ => by simpa [List.append_assoc] using (tokStart_lit h.1.2).noLayout (r := l2.text ++ ('>' :: r))))
      exact this.castT (by simp [Arr.text]) (by simp [Arr.tokens, Arr.text])
  | fixed l1 n l2 =>
    simp only [Arr.ok, Bool.and_eq_true] at h
    refine Acc.silent find_array rfl rfl (Acc.alt2 (C' := Starts '[')
      (Rej.normal find_av rfl rfl (Rej.seq1 (Rej.str_head.mono (fun r hr => by simp [Starts] at hr; simp [hr])))) ?_
      (fun r _ => by simp [Arr.text, Starts]))
    have inner : Acc (.seq (.ref "array_length") (.str [']'])) (n.text ++ (l2.text ++ [']'])) (n.tokens ++ []) (fun _ => True) :=
      Acc.seq l2 (Acc.silent find_al rfl rfl (Acc.lit n h.1.2)) h.2 (Acc.str [']'])
        (fun r _ => noIdent_layout h.2 (noIdent_char (c := ']') (by decide)))
        (fun _ _ => noLayout_starts (c := ']') (by decide) (by decide) rfl)
    have := Acc.normal find_af rfl rfl (Acc.seq l1 (Acc.str ['[']) h.1.1 inner (fun _ _ => trivial)
      (fun r _ => by simpa [List.append_assoc] using (tokStart_lit h.1.2).noLayout (r := l2.text ++ (']' :: r))))
    exact this.castT (by simp [Arr.text]) (by simp [Arr.tokens, Arr.text])

theorem Rej.arr {c : Char} (h1 : c ≠ '<') (h2 : c ≠ '[') : Rej (.ref "array") (Starts c) := by
  refine Rej.silent find_array rfl rfl (Rej.alt ?_ ?_)
  · exact Rej.normal find_av rfl rfl (Rej.seq1 (Rej.str_head.mono (fun r hr => by
      simp only [Starts] at hr; rw [hr]; simpa using h1)))
  · exact Rej.normal find_af rfl rfl (Rej.seq1 (Rej.str_head.mono (fun r hr => by
      simp only [Starts] at hr; rw [hr]; simpa using h2)))

/-! ### declarators: `type [*]name [array] ;` -/

structure Field where
  ty : TyRef
  l1 : Layout
  star : Option Layout          -- `*` and the layout after it
  name : List Char
  l2 : Layout
  arr : Option (Arr × Layout)
deriving Repr

def Field.nameText (f : Field) : List Char :=
  match f.star with
  | none => f.name
  | some ls => ['*'] ++ (ls.text ++ f.name)

def arrSemi : Option (Arr × Layout) → List Char
  | none => [';']
  | some (a, l3) => a.text ++ (l3.text ++ [';'])

def Field.text (f : Field) : List Char := f.ty.text ++ (f.l1.text ++ (f.nameText ++ (f.l2.text ++ arrSemi f.arr)))

def Field.sepOk (f : Field) : Bool :=
  match f.ty, f.star with
  | .named _, none => !f.l1.text.isEmpty      -- two names need something between them
  | .named _, some _ => true
  | .prim _ _, _ => f.l1.lead.isEmpty         -- the white space after a built-in word is inside its token

def Field.ok (f : Field) : Bool :=
  f.ty.ok && f.l1.ok && (match f.star with | none => true | some ls => ls.ok) && validIdent f.name && f.l2.ok &&
  (match f.arr with | none => true | some (a, l3) => a.ok && l3.ok) && f.sepOk

def Field.nameToks (f : Field) : List Pair :=
  match f.star with
  | none => [Pair.mk "ident" f.name []]
  | some ls => [Pair.mk "option" (['*'] ++ (ls.text ++ f.name)) [Pair.mk "ident" f.name []]]

def arrToks : Option (Arr × Layout) → List Pair
  | none => []
  | some (a, _) => a.tokens

def Field.tokens (f : Field) : List Pair := f.ty.tokens ++ (f.nameToks ++ arrToks f.arr)

theorem find_option : X.find "option" = some ⟨"option", .normal, .seq (.str ['*']) (.ref "ident")⟩ := rfl
theorem find_df : X.find "data_field" = some ⟨"data_field", .silent,
    .seq (.alt (.ref "ident") (.ref "basic_type")) (.seq (.alt (.ref "option") (.ref "ident")) (.seq (.opt (.ref "array")) (.str [';'])))⟩ := rfl

theorem arrSemi_start (a : Option (Arr × Layout)) (r : List Char) :
    ∃ c cs, arrSemi a ++ r = c :: cs ∧ isIdentChar c = false ∧ isWsChar c = false ∧ c ≠ '/' := by
  cases a with
  | none => exact ⟨';', r, rfl, by decide, by decide, by decide⟩
  | some al =>
    obtain ⟨a, l3⟩ := al
    cases a with
    | var l1 len => cases len with
      | none => exact ⟨'<', _, by simp [arrSemi, Arr.text]; rfl, by decide, by decide, by decide⟩
      | some nl => exact ⟨'<', _, by simp [arrSemi, Arr.text]; rfl, by decide, by decide, by decide⟩
    | fixed l1 n l2 => exact ⟨'[', _, by simp [arrSemi, Arr.text]; rfl, by decide, by decide, by decide⟩

theorem Acc.arrSemiOk (a : Option (Arr × Layout)) (h : (match a with | none => true | some (a, l3) => a.ok && l3.ok) = true) :
    Acc (.seq (.opt (.ref "array")) (.str [';'])) (arrSemi a) (arrToks a) (fun _ => True) := by
  cases a with
  | none =>
    have := Acc.seq0 (C1 := Starts ';') (Acc.opt_none (Rej.arr (c := ';') (by decide) (by decide))) (Acc.str [';'])
      (fun _ _ => rfl) (fun _ _ => noLayout_starts (c := ';') (by decide) (by decide) rfl)
    exact this.castT (by simp [arrSemi]) (by simp [arrToks])
  | some al =>
    obtain ⟨a, l3⟩ := al
    simp only [Bool.and_eq_true] at h
    have := Acc.seq l3 (Acc.opt_some (Acc.arr a h.1)) h.2 (Acc.str [';']) (fun _ _ => trivial)
      (fun _ _ => noLayout_starts (c := ';') (by decide) (by decide) rfl)
    exact this.castT (by simp [arrSemi]) (by simp [arrToks])

theorem Acc.nameTok (f : Field) (hn : validIdent f.name = true) (hs : (match f.star with | none => true | some ls => ls.ok) = true) :
    Acc (.alt (.ref "option") (.ref "ident")) f.nameText f.nameToks NoIdentStart := by
  cases hst : f.star with
  | none =>
    simp only [Field.nameText, Field.nameToks, hst]
    refine Acc.alt2 (C' := fun r => r.head? ≠ some '*') (Rej.normal find_option rfl rfl (Rej.seq1 Rej.str_head)) (Acc.ident hn) ?_
    intro r _
    obtain ⟨hne, hall, _⟩ := validIdent_iff hn
    cases hname : f.name with
    | nil => exact absurd hname hne
    | cons c cs =>
      have hc := allIdent_mem hall c (by simp [hname])
      simp only [List.cons_append, List.head?_cons, ne_eq, Option.some.injEq]
      intro e; subst e; exact absurd hc (by decide)
  | some ls =>
    simp only [Field.nameText, Field.nameToks, hst]
    rw [hst] at hs
    refine Acc.alt1 (Acc.normal find_option rfl rfl ?_)
    have := Acc.seq ls (Acc.str ['*']) hs (Acc.ident hn) (fun _ _ => trivial) (fun r _ => (tokStart_ident hn).noLayout)
    exact this.castT rfl (by simp)

/-- type, name (read by `eName`), optional array suffix, `;` -/
theorem field_core (f : Field) (h : f.ok = true) (eName : Expr) (hB : Acc eName f.nameText f.nameToks NoIdentStart) :
    Acc (.seq (.alt (.ref "ident") (.ref "basic_type")) (.seq eName (.seq (.opt (.ref "array")) (.str [';']))))
      f.text f.tokens (fun _ => True) := by
  simp only [Field.ok, Bool.and_eq_true] at h
  obtain ⟨⟨⟨⟨⟨⟨hty, hl1⟩, hstar⟩, hname⟩, hl2⟩, harr⟩, hsep⟩ := h
  have hC := Acc.arrSemiOk f.arr harr
  have hBC : Acc (.seq eName (.seq (.opt (.ref "array")) (.str [';'])))
      (f.nameText ++ (f.l2.text ++ arrSemi f.arr)) (f.nameToks ++ arrToks f.arr) (fun _ => True) := by
    refine Acc.seq f.l2 hB hl2 hC ?_ ?_
    · intro r _
      obtain ⟨c, cs, e, hc, _, _⟩ := arrSemi_start f.arr r
      exact noIdent_layout hl2 (by rw [e]; exact noIdent_char hc)
    · intro r _
      obtain ⟨c, cs, e, _, h1, h2⟩ := arrSemi_start f.arr r
      rw [e]; exact noLayout_starts h1 h2 rfl
  have hnameStart : ∀ r, ∃ c cs, f.nameText ++ r = c :: cs ∧ isWsChar c = false ∧ c ≠ '/' ∧ (f.star = none → isIdentChar c = true)
      ∧ (f.star ≠ none → isIdentChar c = false) := by
    intro r
    cases hst : f.star with
    | none =>
      obtain ⟨hne, hall, _⟩ := validIdent_iff hname
      cases hn : f.name with
      | nil => exact absurd hn hne
      | cons c cs =>
        have hc := allIdent_mem hall c (by simp [hn])
        exact ⟨c, cs ++ r, by simp [Field.nameText, hst, hn], ident_not_ws hc, fun e => by subst e; exact absurd hc (by decide),
          fun _ => hc, fun h => absurd rfl h⟩
    | some ls =>
      exact ⟨'*', _, by simp [Field.nameText, hst]; rfl, by decide, by decide, fun h => by simp at h, fun _ => by decide⟩
  refine Acc.seq f.l1 (Acc.tyref f.ty hty) hl1 hBC ?_ ?_
  · intro r _
    obtain ⟨c, cs, e, hws, _, hid, hnid⟩ := hnameStart (f.l2.text ++ arrSemi f.arr ++ r)
    have e' : (f.nameText ++ (f.l2.text ++ arrSemi f.arr)) ++ r = c :: cs := by simpa [List.append_assoc] using e
    cases hty' : f.ty with
    | named n =>
      simp only [TyRef.After]
      cases hst : f.star with
      | none =>
        have : f.l1.text ≠ [] := by
          simp only [Field.sepOk, hty', hst, Bool.not_eq_true', List.isEmpty_eq_false_iff] at hsep
          exact hsep
        exact noIdent_layout_ne hl1 this _
      | some ls =>
        rw [e']
        exact noIdent_layout hl1 (noIdent_char (hnid (by simp [hst])))
    | prim pr tr =>
      simp only [TyRef.After]
      have : f.l1.lead = [] := by
        simp only [Field.sepOk, hty', List.isEmpty_iff] at hsep
        exact hsep
      rw [e']
      exact noWs_layout this (fun d hd => by simp at hd; subst hd; exact hws)
  · intro r _
    obtain ⟨c, cs, e, hws, hsl, _, _⟩ := hnameStart (f.l2.text ++ arrSemi f.arr ++ r)
    have e' : (f.nameText ++ (f.l2.text ++ arrSemi f.arr)) ++ r = c :: cs := by simpa [List.append_assoc] using e
    rw [e']; exact noLayout_starts hws hsl rfl

/-- **a declarator is accepted, whatever follows** -/
theorem Acc.field (f : Field) (h : f.ok = true) : Acc (.ref "data_field") f.text f.tokens (fun _ => True) := by
  have h' := h
  simp only [Field.ok, Bool.and_eq_true] at h'
  exact Acc.silent find_df rfl rfl (field_core f h _ (Acc.nameTok f h'.1.1.1.2 h'.1.1.1.1.2))

end Fx.Parse
