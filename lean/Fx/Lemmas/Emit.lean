/-
  Fx.Lemmas.Emit — structural facts about the emitters.
-/
import Fx.Emit
import Fx.Eval
namespace Fx

theorem G.bind_eq_ok {α β} {g : G α} {f : α → G β} {b : β} (h : g.bind f = .ok b) :
    ∃ a, g = .ok a ∧ f a = .ok b := by
  cases g with
  | ok a => exact ⟨a, rfl, h⟩
  | err m => cases h
  | panicAt f m => cases h

theorem mapG_ok_map {α β γ} {f : α → G β} {g : β → γ} {h : α → γ}
    (hf : ∀ x y, f x = .ok y → g y = h x) :
    ∀ (l : List α) (r : List β), mapG f l = .ok r → r.map g = l.map h := by
  intro l
  induction l with
  | nil => intro r hr; simp only [mapG] at hr; cases hr; rfl
  | cons x xs ih =>
    intro r hr
    simp only [mapG] at hr
    obtain ⟨b, hb, hr⟩ := G.bind_eq_ok hr
    obtain ⟨bs, hbs, hr⟩ := G.bind_eq_ok hr
    cases hr
    simp [hf x b hb, ih bs hbs]

theorem emitImpl_name {a : Ast} {t : AstType} {i : Impl} (h : emitImpl a t = .ok i) : i.name = t.rustName := by
  cases t with
  | struct s =>
    simp only [emitImpl] at h
    obtain ⟨fs, _, h⟩ := G.bind_eq_ok h
    cases h; rfl
  | union u =>
    simp only [emitImpl] at h
    obtain ⟨ud, _, h⟩ := G.bind_eq_ok h
    cases h; rfl
  | enum e => simp only [emitImpl] at h; cases h; rfl
  | typedef td =>
    simp only [emitImpl] at h
    obtain ⟨d, _, h⟩ := G.bind_eq_ok h
    cases h; rfl

theorem emitImpl_generic {a : Ast} {t : AstType} {i : Impl} (h : emitImpl a t = .ok i) :
    i.generic = a.isGeneric t.rustName := by
  cases t with
  | struct s =>
    simp only [emitImpl] at h
    obtain ⟨fs, _, h⟩ := G.bind_eq_ok h
    cases h; rfl
  | union u =>
    simp only [emitImpl] at h
    obtain ⟨ud, _, h⟩ := G.bind_eq_ok h
    cases h; rfl
  | enum e => simp only [emitImpl] at h; cases h; rfl
  | typedef td =>
    simp only [emitImpl] at h
    obtain ⟨d, _, h⟩ := G.bind_eq_ok h
    cases h; rfl

theorem emitSize_name (a : Ast) (t : AstType) : (emitSize a t).name = t.rustName := by
  cases t <;> rfl

theorem emitSize_generic (a : Ast) (t : AstType) : (emitSize a t).generic = a.isGeneric t.rustName := by
  cases t <;> rfl

theorem generateModule_ok {a : Ast} {m : Module} (h : generateModule a = .ok m) :
    m.types = emitTypes a ∧ emitFrom .bytes a = .ok m.fromBytes ∧ emitFrom .refMutBytes a = .ok m.fromRefMut ∧
    m.sizes = emitWireSize a := by
  simp only [generateModule] at h
  obtain ⟨f1, h1, h⟩ := G.bind_eq_ok h
  obtain ⟨f2, h2, h⟩ := G.bind_eq_ok h
  cases h
  exact ⟨rfl, h1, h2, rfl⟩

end Fx
