/-
  Fx.Lemmas.ParseDecl — constants, typedefs, enums and structs: concrete syntax with a layout at every gap, and the proof
  that the grammar accepts the text with the expected tokens.
-/
import Fx.Lemmas.ParseField
namespace Fx.Parse
open Fx.Peg

theorem TokStart.app {T U : List Char} (h : TokStart T) : TokStart (T ++ U) := by
  obtain ⟨c, cs, rfl, h1, h2⟩ := h
  exact ⟨c, cs ++ U, rfl, h1, h2⟩

theorem tokStart_cons {c : Char} {cs : List Char} (h1 : isWsChar c = false) (h2 : c ≠ '/') : TokStart (c :: cs) :=
  ⟨c, cs, rfl, h1, h2⟩

/-- after a name: any layout, then a symbol -/
theorem afterName {L : Layout} (hL : L.ok = true) {c : Char} (hc : isIdentChar c = false) (cs : List Char) :
    NoIdentStart (L.text ++ (c :: cs)) := noIdent_layout hL (noIdent_char hc)

theorem Acc.plus {e : Expr} {T : List Char} {TS : List Pair} {C : List Char → Prop} (h : Acc (.seq e (.star e)) T TS C) :
    Acc (.plus e) T TS C := fun p r hr => EOk.plus (h p r hr)

theorem Rej.basic : Rej (.ref "basic_type") NoIdentStart := by
  intro p r hr
  have := basic_type_fail (a := false) (n := []) (p := p) rfl hr (by decide)
  exact EFail.ref (by simpa using this)

theorem Rej.tyref : Rej (.alt (.ref "ident") (.ref "basic_type")) NoIdentStart := Rej.alt Rej.ident Rej.basic

/-! ### repetition: from per-element acceptance to `elemsOk` -/

def nextOf : List Elem → List Char → List Char
  | [], r => r
  | el :: els, r => el.T ++ tailText el.L els r

theorem tailText_next (L0 : Layout) (els : List Elem) (r : List Char) : tailText L0 els r = L0.text ++ nextOf els r := by
  cases els <;> rfl

theorem elemsOk_of (e : Expr) (CE Nx : List Char → Prop) (r : List Char) (hr : Nx r) (hNx : ∀ x, Nx x → NoLayoutStart x)
    (hCE : ∀ (L : Layout) x, L.ok = true → Nx x → CE (L.text ++ x)) :
    ∀ els : List Elem, (∀ el ∈ els, el.T ≠ [] ∧ el.L.ok = true ∧ Acc e el.T el.TS CE ∧ ∀ y, Nx (el.T ++ y)) →
      elemsOk e r els ∧ Nx (nextOf els r) := by
  intro els
  induction els with
  | nil => intro _; exact ⟨trivial, hr⟩
  | cons el els ih =>
    intro h
    obtain ⟨hne, hL, hacc, hnx⟩ := h el (by simp)
    obtain ⟨hrest, hnext⟩ := ih (fun x hx => h x (by simp [hx]))
    refine ⟨⟨hne, hL, hNx _ (hnx _), ?_, hrest⟩, hnx _⟩
    intro p
    rw [tailText_next]
    exact hacc p _ (hCE el.L _ hL hnext)

theorem Acc.star_els (e : Expr) (Cend : List Char → Prop) (hCend : ∀ r, Cend r → NoLayoutStart r) (hrej : Rej e Cend)
    (el : Elem) (els : List Elem) (hok : ∀ r, Cend r → elemsOk e r (el :: els)) :
    Acc (.star e) (starText (el :: els)) (elemToks (el :: els))
      (fun r' => ∃ r, Cend r ∧ r' = (lastLayout (el :: els)).text ++ r) := by
  rintro p r' ⟨r, hr, rfl⟩
  exact star_elems e r (hCend r hr) (fun q => hrej q r hr) el els (hok r hr) p

theorem Acc.star_nil (e : Expr) (Cend : List Char → Prop) (hrej : Rej e Cend) : Acc (.star e) [] [] Cend :=
  fun p r hr => by simpa using star_none e r (fun q => hrej q r hr) p

/-- the elements with the layout after each -/
def elemsText : List Elem → List Char
  | [] => []
  | el :: els => el.T ++ (el.L.text ++ elemsText els)

theorem starText_last : ∀ (els : List Elem) (el : Elem) (Y : List Char),
    starText (el :: els) ++ ((lastLayout (el :: els)).text ++ Y) = elemsText (el :: els) ++ Y := by
  intro els
  induction els with
  | nil => intro el Y; simp [starText, lastLayout, elemsText]
  | cons el' els ih =>
    intro el Y
    have := ih el' Y
    simp only [starText, lastLayout, elemsText, List.append_assoc] at this ⊢
    rw [this]

theorem lastLayout_ok : ∀ (els : List Elem), (∀ el ∈ els, el.L.ok = true) → (lastLayout els).ok = true := by
  intro els
  induction els with
  | nil => intro _; rfl
  | cons el els ih =>
    intro h
    cases els with
    | nil => exact h el (by simp)
    | cons el' els' => exact ih (fun x hx => h x (by simp [hx]))

/-! ### constants: `const` name `=` value `;` -/

structure ConstD where
  l1 : Layout
  name : List Char
  l2 : Layout
  l3 : Layout
  val : List Char
  l4 : Layout
deriving Repr

def kwConst : List Char := ['c', 'o', 'n', 's', 't']

def ConstD.text (d : ConstD) : List Char :=
  kwConst ++ (d.l1.text ++ (d.name ++ (d.l2.text ++ (['='] ++ (d.l3.text ++ (d.val ++ (d.l4.text ++ [';'])))))))

def ConstD.ok (d : ConstD) : Bool := d.l1.ok && validIdent d.name && d.l2.ok && d.l3.ok && validIdent d.val && d.l4.ok

def ConstD.tokens (d : ConstD) : List Pair :=
  [Pair.mk "constant" d.text [Pair.mk "ident" d.name [], Pair.mk "ident" d.val []]]

theorem find_constant : X.find "constant" = some ⟨"constant", .normal,
    .seq (.str kwConst) (.seq (.ref "ident") (.seq (.str ['=']) (.seq (.ref "ident") (.str [';']))))⟩ := rfl

theorem Acc.constD (d : ConstD) (h : d.ok = true) : Acc (.ref "constant") d.text d.tokens (fun _ => True) := by
  simp only [ConstD.ok, Bool.and_eq_true] at h
  obtain ⟨⟨⟨⟨⟨h1, hn⟩, h2⟩, h3⟩, hv⟩, h4⟩ := h
  have a4 := Acc.seq d.l4 (Acc.ident hv) h4 (Acc.str [';']) (fun r _ => afterName h4 (by decide) r)
    (fun _ _ => (tokStart_cons (by decide) (by decide)).noLayout)
  have a3 := Acc.seq d.l3 (Acc.str ['=']) h3 a4 (fun _ _ => trivial) (fun _ _ => ((tokStart_ident hv).app).noLayout)
  have a2 := Acc.seq d.l2 (Acc.ident hn) h2 a3 (fun r _ => by simpa using afterName h2 (c := '=') (by decide) _)
    (fun _ _ => (tokStart_cons (by decide) (by decide)).noLayout)
  have a1 := Acc.seq d.l1 (Acc.str kwConst) h1 a2 (fun _ _ => trivial) (fun _ _ => ((tokStart_ident hn).app).noLayout)
  exact (Acc.normal find_constant rfl rfl a1).castT rfl (by simp [ConstD.tokens, ConstD.text])

/-! ### typedefs: `typedef` type name [array] `;` -/

structure TypedefD where
  l0 : Layout
  f : Field          -- without `*`
deriving Repr

def kwTypedef : List Char := ['t', 'y', 'p', 'e', 'd', 'e', 'f']

def TypedefD.text (d : TypedefD) : List Char := kwTypedef ++ (d.l0.text ++ d.f.text)
def TypedefD.ok (d : TypedefD) : Bool := d.l0.ok && d.f.ok && d.f.star.isNone
def TypedefD.tokens (d : TypedefD) : List Pair := [Pair.mk "typedef" d.text d.f.tokens]

theorem find_typedef : X.find "typedef" = some ⟨"typedef", .normal,
    .seq (.str kwTypedef) (.seq (.alt (.ref "ident") (.ref "basic_type")) (.seq (.ref "ident") (.seq (.opt (.ref "array")) (.str [';']))))⟩ := rfl

theorem Acc.typedefD (d : TypedefD) (h : d.ok = true) : Acc (.ref "typedef") d.text d.tokens (fun _ => True) := by
  simp only [TypedefD.ok, Bool.and_eq_true, Option.isNone_iff_eq_none] at h
  obtain ⟨⟨h0, hf⟩, hst⟩ := h
  have hf' := hf
  simp only [Field.ok, Bool.and_eq_true] at hf'
  have hname : Acc (.ref "ident") d.f.nameText d.f.nameToks NoIdentStart := by
    simp only [Field.nameText, Field.nameToks, hst]
    exact Acc.ident hf'.1.1.1.2
  have core := field_core d.f hf (.ref "ident") hname
  have := Acc.seq d.l0 (Acc.str kwTypedef) h0 core (fun _ _ => trivial)
    (fun r _ => by simpa [Field.text, List.append_assoc] using (tokStart_tyref hf'.1.1.1.1.1.1).noLayout (r := _))
  exact (Acc.normal find_typedef rfl rfl this).castT rfl (by simp [TypedefD.tokens, TypedefD.text])

/-! ### enums: `enum` name `{` variant (`,` variant)* `}` `;` -/

structure VariantD where
  name : List Char
  l1 : Layout
  l2 : Layout
  val : List Char
deriving Repr

def VariantD.text (v : VariantD) : List Char := v.name ++ (v.l1.text ++ (['='] ++ (v.l2.text ++ v.val)))
def VariantD.ok (v : VariantD) : Bool := validIdent v.name && v.l1.ok && v.l2.ok && validIdent v.val
def VariantD.tokens (v : VariantD) : List Pair :=
  [Pair.mk "enum_variant" v.text [Pair.mk "ident" v.name [], Pair.mk "ident" v.val []]]

theorem find_ev : X.find "enum_variant" = some ⟨"enum_variant", .normal,
    .seq (.ref "ident") (.seq (.str ['=']) (.ref "ident"))⟩ := rfl

theorem Acc.variantD (v : VariantD) (h : v.ok = true) : Acc (.ref "enum_variant") v.text v.tokens NoIdentStart := by
  simp only [VariantD.ok, Bool.and_eq_true] at h
  obtain ⟨⟨⟨hn, h1⟩, h2⟩, hv⟩ := h
  have a2 := Acc.seq v.l2 (Acc.str ['=']) h2 (Acc.ident hv) (fun _ _ => trivial) (fun _ _ => (tokStart_ident hv).noLayout)
  have a1 := Acc.seq v.l1 (Acc.ident hn) h1 a2 (fun r _ => by simpa using afterName h1 (c := '=') (by decide) _)
    (fun _ _ => (tokStart_cons (by decide) (by decide)).noLayout)
  exact (Acc.normal find_ev rfl rfl a1).castT rfl (by simp [VariantD.tokens, VariantD.text])

theorem Rej.variant : Rej (.ref "enum_variant") NoIdentStart := Rej.normal find_ev rfl rfl (Rej.seq1 Rej.ident)

structure EnumD where
  l1 : Layout
  name : List Char
  l2 : Layout
  l3 : Layout
  first : VariantD
  lf : Layout
  more : List (Layout × VariantD × Layout)     -- `,` la variant lb
  l4 : Layout
deriving Repr

def kwEnum : List Char := ['e', 'n', 'u', 'm']

def moreElem (m : Layout × VariantD × Layout) : Elem := ⟨[','] ++ (m.1.text ++ m.2.1.text), m.2.1.tokens, m.2.2⟩

def EnumD.body (d : EnumD) : List Char :=
  d.first.text ++ (d.lf.text ++ (elemsText (d.more.map moreElem) ++ (['}'] ++ (d.l4.text ++ [';']))))

def EnumD.text (d : EnumD) : List Char :=
  kwEnum ++ (d.l1.text ++ (d.name ++ (d.l2.text ++ (['{'] ++ (d.l3.text ++ d.body)))))

def EnumD.ok (d : EnumD) : Bool :=
  d.l1.ok && validIdent d.name && d.l2.ok && d.l3.ok && d.first.ok && d.lf.ok &&
  d.more.all (fun m => m.1.ok && m.2.1.ok && m.2.2.ok) && d.l4.ok

def EnumD.tokens (d : EnumD) : List Pair :=
  [Pair.mk "enum_type" d.text (Pair.mk "ident" d.name [] :: (d.first.tokens ++ elemToks (d.more.map moreElem)))]

theorem find_enum : X.find "enum_type" = some ⟨"enum_type", .normal,
    .seq (.str kwEnum) (.seq (.ref "ident") (.seq (.str ['{']) (.seq (.plus (.ref "enum_variant"))
      (.seq (.star (.seq (.str [',']) (.ref "enum_variant"))) (.seq (.str ['}']) (.str [';']))))))⟩ := rfl

/-- what follows a variant: `,` or `}` -/
def AfterVariant (r : List Char) : Prop := Starts ',' r ∨ Starts '}' r

theorem AfterVariant.noIdent {r : List Char} (h : AfterVariant r) : NoIdentStart r := by
  rcases h with h | h
  · exact noIdent_starts (by decide) h
  · exact noIdent_starts (by decide) h

theorem AfterVariant.noLayout {r : List Char} (h : AfterVariant r) : NoLayoutStart r := by
  rcases h with h | h
  · exact noLayout_starts (by decide) (by decide) h
  · exact noLayout_starts (by decide) (by decide) h

theorem Acc.moreEl (m : Layout × VariantD × Layout) (h : (m.1.ok && m.2.1.ok && m.2.2.ok) = true) :
    Acc (.seq (.str [',']) (.ref "enum_variant")) (moreElem m).T (moreElem m).TS NoIdentStart := by
  simp only [Bool.and_eq_true] at h
  have hv := h.1.2
  have hv' := hv
  simp only [VariantD.ok, Bool.and_eq_true] at hv'
  have := Acc.seq m.1 (Acc.str [',']) h.1.1 (Acc.variantD m.2.1 hv) (fun _ _ => trivial)
    (fun r _ => by simpa [VariantD.text, List.append_assoc] using (tokStart_ident hv'.1.1.1).noLayout (r := _))
  exact this.castT rfl (by simp [moreElem])

theorem Acc.enumD (d : EnumD) (h : d.ok = true) : Acc (.ref "enum_type") d.text d.tokens (fun _ => True) := by
  simp only [EnumD.ok, Bool.and_eq_true, List.all_eq_true] at h
  obtain ⟨⟨⟨⟨⟨⟨⟨h1, hn⟩, h2⟩, h3⟩, hfirst⟩, hlf⟩, hmore⟩, h4⟩ := h
  have hfirst' := hfirst
  simp only [VariantD.ok, Bool.and_eq_true] at hfirst'
  -- `}` l4 `;`
  have aClose : Acc (.seq (.str ['}']) (.str [';'])) (['}'] ++ (d.l4.text ++ [';'])) ([] ++ []) (fun _ => True) :=
    Acc.seq d.l4 (Acc.str ['}']) h4 (Acc.str [';']) (fun _ _ => trivial)
      (fun _ _ => (tokStart_cons (by decide) (by decide)).noLayout)
  -- first variant, then `enum_variant*` finds no further variant
  have aPlus : Acc (.plus (.ref "enum_variant")) (d.first.text ++ (d.lf.text ++ [])) (d.first.tokens ++ []) AfterVariant :=
    Acc.plus (Acc.seq d.lf (Acc.variantD d.first hfirst) hlf
      (Acc.star_nil _ AfterVariant (Rej.variant.mono (fun _ h => h.noIdent)))
      (fun r hr => by simpa using noIdent_layout hlf hr.noIdent) (fun r hr => by simpa using hr.noLayout))
  -- the `, variant` repetitions
  have hrejMore : Rej (.seq (.str [',']) (.ref "enum_variant")) (Starts '}') :=
    Rej.seq1 (Rej.str_head.mono (fun r hr => by simp only [Starts] at hr; rw [hr]; decide))
  have aTail : Acc (.seq (.star (.seq (.str [',']) (.ref "enum_variant"))) (.seq (.str ['}']) (.str [';'])))
      (elemsText (d.more.map moreElem) ++ (['}'] ++ (d.l4.text ++ [';']))) (elemToks (d.more.map moreElem) ++ ([] ++ []))
      (fun _ => True) := by
    cases hm : d.more.map moreElem with
    | nil =>
      have := Acc.seq0 (Acc.star_nil _ (Starts '}') hrejMore) aClose (fun _ _ => rfl)
        (fun _ _ => (tokStart_cons (by decide) (by decide)).noLayout)
      exact this.castT (by simp [elemsText]) (by simp [elemToks])
    | cons el els =>
      have hall : ∀ x ∈ el :: els, x.T ≠ [] ∧ x.L.ok = true ∧
          Acc (.seq (.str [',']) (.ref "enum_variant")) x.T x.TS NoIdentStart ∧ ∀ y, AfterVariant (x.T ++ y) := by
        intro x hx
        rw [← hm] at hx
        obtain ⟨m, hmem, rfl⟩ := List.mem_map.mp hx
        have hmok : (m.1.ok && m.2.1.ok && m.2.2.ok) = true := by simpa using hmore m hmem
        have hmok' := hmok
        simp only [Bool.and_eq_true] at hmok'
        exact ⟨by simp [moreElem], hmok'.2, Acc.moreEl m hmok, fun y => .inl (by simp [moreElem, Starts])⟩
      have hok : ∀ r, Starts '}' r → elemsOk (.seq (.str [',']) (.ref "enum_variant")) r (el :: els) := fun r hr =>
        (elemsOk_of _ NoIdentStart AfterVariant r (.inr hr) (fun _ h => h.noLayout)
          (fun L x hL hx => noIdent_layout hL hx.noIdent) (el :: els) hall).1
      have hstar := Acc.star_els _ (Starts '}') (fun r hr => noLayout_starts (by decide) (by decide) hr) hrejMore el els hok
      have hLast : (lastLayout (el :: els)).ok = true := lastLayout_ok _ (fun x hx => (hall x hx).2.1)
      have := Acc.seq (lastLayout (el :: els)) hstar hLast aClose
        (fun r _ => ⟨_, by simp [Starts], rfl⟩) (fun _ _ => (tokStart_cons (by decide) (by decide)).noLayout)
      exact this.castT (by simp [starText_last, List.append_assoc]) rfl
  have aBody : Acc (.seq (.plus (.ref "enum_variant")) (.seq (.star (.seq (.str [',']) (.ref "enum_variant"))) (.seq (.str ['}']) (.str [';']))))
      d.body (d.first.tokens ++ elemToks (d.more.map moreElem)) (fun _ => True) := by
    have := Acc.seq0 aPlus aTail ?_ ?_
    · exact this.castT (by simp [EnumD.body, List.append_assoc]) (by simp)
    · intro r _
      cases hm : d.more.map moreElem with
      | nil => exact .inr (by simp [elemsText, Starts])
      | cons el els =>
        rw [← hm]
        cases hmore' : d.more with
        | nil => simp [hmore'] at hm
        | cons m ms => exact .inl (by simp [elemsText, moreElem, Starts])
    · intro r _
      cases hm : d.more with
      | nil => simpa [elemsText] using (tokStart_cons (c := '}') (by decide) (by decide)).noLayout
      | cons m ms => simpa [elemsText, moreElem] using (tokStart_cons (c := ',') (by decide) (by decide)).noLayout
  have a3 := Acc.seq d.l3 (Acc.str ['{']) h3 aBody (fun _ _ => trivial)
    (fun r _ => by simpa [EnumD.body, VariantD.text, List.append_assoc] using (tokStart_ident hfirst'.1.1.1).noLayout (r := _))
  have a2 := Acc.seq d.l2 (Acc.ident hn) h2 a3 (fun r _ => by simpa using afterName h2 (c := '{') (by decide) _)
    (fun _ _ => (tokStart_cons (by decide) (by decide)).noLayout)
  have a1 := Acc.seq d.l1 (Acc.str kwEnum) h1 a2 (fun _ _ => trivial) (fun _ _ => ((tokStart_ident hn).app).noLayout)
  exact (Acc.normal find_enum rfl rfl a1).castT rfl (by simp [EnumD.tokens, EnumD.text])

/-! ### structs: `struct` name `{` declarator* `}` `;` -/

structure StructD where
  l1 : Layout
  name : List Char
  l2 : Layout
  l3 : Layout
  fields : List (Field × Layout)
  l4 : Layout
deriving Repr

def kwStruct : List Char := ['s', 't', 'r', 'u', 'c', 't']

def fieldElem (rule : String) (fl : Field × Layout) : Elem := ⟨fl.1.text, [Pair.mk rule fl.1.text fl.1.tokens], fl.2⟩

def StructD.text (d : StructD) : List Char :=
  kwStruct ++ (d.l1.text ++ (d.name ++ (d.l2.text ++ (['{'] ++ (d.l3.text ++
    (elemsText (d.fields.map (fieldElem "struct_data_field")) ++ (['}'] ++ (d.l4.text ++ [';']))))))))

def StructD.ok (d : StructD) : Bool :=
  d.l1.ok && validIdent d.name && d.l2.ok && d.l3.ok && d.fields.all (fun fl => fl.1.ok && fl.2.ok) && d.l4.ok

def StructD.tokens (d : StructD) : List Pair :=
  [Pair.mk "struct_type" d.text (Pair.mk "ident" d.name [] :: elemToks (d.fields.map (fieldElem "struct_data_field")))]

theorem find_struct : X.find "struct_type" = some ⟨"struct_type", .normal,
    .seq (.str kwStruct) (.seq (.ref "ident") (.seq (.str ['{']) (.seq (.star (.ref "struct_data_field")) (.seq (.str ['}']) (.str [';'])))))⟩ := rfl
theorem find_sdf : X.find "struct_data_field" = some ⟨"struct_data_field", .normal, .ref "data_field"⟩ := rfl
theorem find_udf : X.find "union_data_field" = some ⟨"union_data_field", .normal, .ref "data_field"⟩ := rfl

theorem Rej.dataField : Rej (.ref "data_field") NoIdentStart := Rej.silent find_df rfl rfl (Rej.seq1 Rej.tyref)

theorem tokStart_field {f : Field} (h : f.ok = true) : TokStart f.text := by
  simp only [Field.ok, Bool.and_eq_true] at h
  exact (tokStart_tyref h.1.1.1.1.1.1).app

/-- a list of declarators inside braces, read by the rule `rule` (`struct_data_field`), up to the closing brace -/
theorem Acc.fieldsClose (d : List (Field × Layout)) (l4 : Layout) (hd : ∀ fl ∈ d, (fl.1.ok && fl.2.ok) = true) (h4 : l4.ok = true) :
    Acc (.seq (.star (.ref "struct_data_field")) (.seq (.str ['}']) (.str [';'])))
      (elemsText (d.map (fieldElem "struct_data_field")) ++ (['}'] ++ (l4.text ++ [';'])))
      (elemToks (d.map (fieldElem "struct_data_field")) ++ ([] ++ [])) (fun _ => True) := by
  have aClose : Acc (.seq (.str ['}']) (.str [';'])) (['}'] ++ (l4.text ++ [';'])) ([] ++ []) (fun _ => True) :=
    Acc.seq l4 (Acc.str ['}']) h4 (Acc.str [';']) (fun _ _ => trivial)
      (fun _ _ => (tokStart_cons (by decide) (by decide)).noLayout)
  have hrej : Rej (.ref "struct_data_field") (Starts '}') :=
    Rej.normal find_sdf rfl rfl (Rej.dataField.mono (fun r hr => noIdent_starts (by decide) hr))
  cases hm : d.map (fieldElem "struct_data_field") with
  | nil =>
    have := Acc.seq0 (Acc.star_nil _ (Starts '}') hrej) aClose (fun _ _ => rfl)
      (fun _ _ => (tokStart_cons (by decide) (by decide)).noLayout)
    exact this.castT (by simp [elemsText]) (by simp [elemToks])
  | cons el els =>
    have hall : ∀ x ∈ el :: els, x.T ≠ [] ∧ x.L.ok = true ∧
        Acc (.ref "struct_data_field") x.T x.TS (fun _ => True) ∧ ∀ y, NoLayoutStart (x.T ++ y) := by
      intro x hx
      rw [← hm] at hx
      obtain ⟨fl, hmem, rfl⟩ := List.mem_map.mp hx
      have hok := hd fl hmem
      simp only [Bool.and_eq_true] at hok
      obtain ⟨c, cs, e, _, _⟩ := tokStart_field hok.1
      refine ⟨by simp [fieldElem, e], hok.2, ?_, fun y => (tokStart_field hok.1).noLayout⟩
      exact Acc.normal find_sdf rfl rfl (Acc.field fl.1 hok.1)
    have hok : ∀ r, Starts '}' r → elemsOk (.ref "struct_data_field") r (el :: els) := fun r hr =>
      (elemsOk_of _ (fun _ => True) NoLayoutStart r (noLayout_starts (by decide) (by decide) hr) (fun _ h => h)
        (fun _ _ _ _ => trivial) (el :: els) hall).1
    have hstar := Acc.star_els _ (Starts '}') (fun r hr => noLayout_starts (by decide) (by decide) hr) hrej el els hok
    have hLast : (lastLayout (el :: els)).ok = true := lastLayout_ok _ (fun x hx => (hall x hx).2.1)
    have := Acc.seq (lastLayout (el :: els)) hstar hLast aClose
      (fun r _ => ⟨_, by simp [Starts], rfl⟩) (fun _ _ => (tokStart_cons (by decide) (by decide)).noLayout)
    exact this.castT (by simp [starText_last, List.append_assoc]) rfl

theorem elemsText_start_field (d : List (Field × Layout)) (hd : ∀ fl ∈ d, (fl.1.ok && fl.2.ok) = true) (Y : List Char) (c : Char)
    (hc1 : isWsChar c = false) (hc2 : c ≠ '/') :
    NoLayoutStart (elemsText (d.map (fieldElem "struct_data_field")) ++ (c :: Y)) := by
  cases d with
  | nil => simpa [elemsText] using (tokStart_cons (cs := Y) hc1 hc2).noLayout (r := [])
  | cons fl fls =>
    have hok := hd fl (by simp)
    simp only [Bool.and_eq_true] at hok
    simpa [elemsText, fieldElem, List.append_assoc] using (tokStart_field hok.1).noLayout (r := _)

theorem Acc.structD (d : StructD) (h : d.ok = true) : Acc (.ref "struct_type") d.text d.tokens (fun _ => True) := by
  simp only [StructD.ok, Bool.and_eq_true, List.all_eq_true] at h
  obtain ⟨⟨⟨⟨⟨h1, hn⟩, h2⟩, h3⟩, hf0⟩, h4⟩ := h
  have hf : ∀ fl ∈ d.fields, (fl.1.ok && fl.2.ok) = true := fun fl hfl => by simpa using hf0 fl hfl
  have aBody := Acc.fieldsClose d.fields d.l4 hf h4
  have a3 := Acc.seq d.l3 (Acc.str ['{']) h3 aBody (fun _ _ => trivial)
    (fun r _ => by simpa [List.append_assoc] using elemsText_start_field d.fields hf (d.l4.text ++ (';' :: r)) '}' (by decide) (by decide))
  have a2 := Acc.seq d.l2 (Acc.ident hn) h2 a3 (fun r _ => by simpa using afterName h2 (c := '{') (by decide) _)
    (fun _ _ => (tokStart_cons (by decide) (by decide)).noLayout)
  have a1 := Acc.seq d.l1 (Acc.str kwStruct) h1 a2 (fun _ _ => trivial) (fun _ _ => ((tokStart_ident hn).app).noLayout)
  exact (Acc.normal find_struct rfl rfl a1).castT rfl (by simp [StructD.tokens, StructD.text])

end Fx.Parse
