/-
  Fx.Lemmas.Sound — the converse of the round trip: whatever a generated decoder ACCEPTS is the documented value of a
  well-typed XDR value, and it consumed exactly the length of that value's encoding.

  Hence nothing outside the declared types is ever accepted: no length above a declared maximum, no undeclared enum value
  or union discriminant, no boolean other than 0/1, no optional marker other than 0/1, no ill-formed UTF-8, no array
  shorter than its count.  (Padding bytes are skipped, not inspected: the theorem is about the value and the length.)
-/
import Fx.Lemmas.Roundtrip
import Fx.Lemmas.Selects
namespace Fx

/-! ### what a successful reader returned -/

theorem toSigned32_range (n : Nat) (h : n < 2^32) : -(2^31 : Int) ≤ toSigned 32 n ∧ toSigned 32 n < 2^31 := by
  unfold toSigned
  split <;> constructor <;> omega

theorem toSigned64_range (n : Nat) (h : n < 2^64) : -(2^63 : Int) ≤ toSigned 64 n ∧ toSigned 64 n < 2^63 := by
  unfold toSigned
  split <;> constructor <;> omega

theorem readU64_lt {c : Cur} {n : Nat} {c' : Cur} (h : readU64 c = .ok n c') : n < 2^64 := by
  unfold readU64 at h
  split at h
  · cases h
  · unfold getU64P at h
    split at h
    · rename_i a b x d e f g i rest _
      cases h
      have h1 := word32_lt a b x d
      have h2 := word32_lt e f g i
      omega
    · cases h

theorem be64_len (n : Nat) : (be64 n).length = 8 := rfl

/-- a primitive (neither `string`, `opaque` nor a name) -/
theorem prim_sound (a : Ast) (t : BasicType) (pr : Prim) (hp : decodeBasicAlias t = .prim pr) (c : Cur) (v : Val) (c' : Cur)
    (h : readPrim pr c = .ok v c') :
    ∃ x, hasTypeBasic a t x = true ∧ v = reprBasic a t c.off x ∧ c'.off = c.off + x.enc.length := by
  cases t with
  | u32 =>
    simp only [decodeBasicAlias, BasicDec.prim.injEq] at hp; subst hp; simp only [readPrim] at h
    obtain ⟨n, h1, rfl⟩ := Res.map_eq_ok h
    obtain ⟨e, _, hn, _⟩ := readU32_ok h1
    exact ⟨.u32 n, by simp [hasTypeBasic, hn], by simp [reprBasic], by subst e; simp [XVal.enc]⟩
  | i32 =>
    simp only [decodeBasicAlias, BasicDec.prim.injEq] at hp; subst hp; simp only [readPrim] at h
    obtain ⟨i, h1, rfl⟩ := Res.map_eq_ok h
    obtain ⟨n, h2, rfl⟩ := Res.map_eq_ok h1
    obtain ⟨e, _, hn, _⟩ := readU32_ok h2
    have := toSigned32_range n hn
    exact ⟨.i32 (toSigned 32 n), by simp only [hasTypeBasic, Bool.and_eq_true, decide_eq_true_eq]; exact this, by simp [reprBasic],
      by subst e; simp [XVal.enc]⟩
  | u64 =>
    simp only [decodeBasicAlias, BasicDec.prim.injEq] at hp; subst hp; simp only [readPrim] at h
    obtain ⟨n, h1, rfl⟩ := Res.map_eq_ok h
    obtain ⟨e, _⟩ := readU64_ok h1
    exact ⟨.u64 n, by simp only [hasTypeBasic, decide_eq_true_eq]; exact readU64_lt h1, by simp [reprBasic], by subst e; simp [XVal.enc]⟩
  | i64 =>
    simp only [decodeBasicAlias, BasicDec.prim.injEq] at hp; subst hp; simp only [readPrim] at h
    obtain ⟨i, h1, rfl⟩ := Res.map_eq_ok h
    obtain ⟨n, h2, rfl⟩ := Res.map_eq_ok h1
    obtain ⟨e, _⟩ := readU64_ok h2
    have := toSigned64_range n (readU64_lt h2)
    exact ⟨.i64 (toSigned 64 n), by simp only [hasTypeBasic, Bool.and_eq_true, decide_eq_true_eq]; exact this, by simp [reprBasic],
      by subst e; simp [XVal.enc]⟩
  | f32 =>
    simp only [decodeBasicAlias, BasicDec.prim.injEq] at hp; subst hp; simp only [readPrim] at h
    obtain ⟨n, h1, rfl⟩ := Res.map_eq_ok h
    obtain ⟨e, _, hn, _⟩ := readU32_ok h1
    exact ⟨.f32 n, by simp [hasTypeBasic, hn], by simp [reprBasic], by subst e; simp [XVal.enc]⟩
  | f64 =>
    simp only [decodeBasicAlias, BasicDec.prim.injEq] at hp; subst hp; simp only [readPrim] at h
    obtain ⟨n, h1, rfl⟩ := Res.map_eq_ok h
    obtain ⟨e, _⟩ := readU64_ok h1
    exact ⟨.f64 n, by simp only [hasTypeBasic, decide_eq_true_eq]; exact readU64_lt h1, by simp [reprBasic], by subst e; simp [XVal.enc]⟩
  | bool =>
    simp only [decodeBasicAlias, BasicDec.prim.injEq] at hp; subst hp; simp only [readPrim] at h
    obtain ⟨b, h1, rfl⟩ := Res.map_eq_ok h
    unfold readBool at h1
    obtain ⟨i, c1, h2, h3⟩ := Res.bind_eq_ok h1
    obtain ⟨n, h4, _⟩ := Res.map_eq_ok h2
    obtain ⟨e, _, _, _⟩ := readU32_ok h4
    have hc : c'.off = c.off + 4 := by
      split at h3
      · cases h3; subst e; rfl
      · split at h3
        · cases h3; subst e; rfl
        · cases h3
    exact ⟨.bool b, by simp [hasTypeBasic], by simp [reprBasic], by simp [XVal.enc, hc]⟩
  | string => simp [decodeBasicAlias] at hp
  | «opaque» => simp [decodeBasicAlias] at hp
  | ident n => simp [decodeBasicAlias] at hp

/-- a successful `read_variable_bytes(max)`: a length word within the limit, then that many bytes and their padding -/
theorem readVariableBytes_sound {m : Option Nat} {c : Cur} {v : Val} {c' : Cur} (h : readVariableBytes m c = .ok v c') :
    ∃ bs : List Byte, v = .bytes (c.off + 4) bs ∧ bs.length < 2^32 ∧ overLimit m bs.length = false ∧
      c'.off = c.off + (4 + bs.length + padLen bs.length) ∧ c'.log = c.log := by
  unfold readVariableBytes at h
  obtain ⟨n, c1, h1, h2⟩ := Res.bind_eq_ok h
  obtain ⟨e, l4, hn, _⟩ := readU32_ok h1
  split at h2
  · cases h2
  · rename_i hov
    obtain ⟨hl, hv, hc⟩ := readBytes_ok h2
    subst e
    have hlen : (List.take n (c.advance 4).data).length = n := by
      simp only [Cur.remaining] at hl
      simp only [List.length_take]
      omega
    refine ⟨(c.advance 4).data.take n, by rw [hv]; rfl, by rw [hlen]; exact hn, by rw [hlen]; simpa using hov, ?_, ?_⟩
    · rw [hc, hlen]; simp [Cur.advance]; omega
    · rw [hc]; rfl

theorem readString_sound {m : Option Nat} {c : Cur} {v : Val} {c' : Cur} (h : readString m c = .ok v c') :
    ∃ bs : List Byte, v = .str bs ∧ bs.length < 2^32 ∧ overLimit m bs.length = false ∧ utf8Valid bs = true ∧
      c'.off = c.off + (4 + bs.length + padLen bs.length) := by
  unfold readString at h
  obtain ⟨b, c1, h1, h2⟩ := Res.bind_eq_ok h
  obtain ⟨bs, hb, hl, hov, hoff, _⟩ := readVariableBytes_sound h1
  subst hb
  simp only [payloadOf] at h2
  by_cases hu : utf8Valid bs = true
  · simp only [hu, if_true] at h2
    cases h2
    exact ⟨bs, rfl, hl, hov, hu, by simpa [Cur.addLog] using hoff⟩
  · simp only [hu, Bool.false_eq_true, if_false] at h2
    cases h2

theorem within_of {lim : Option Nat} {k : Nat} (h1 : k < 2^32) (h2 : overLimit lim k = false) : withinLimit lim k = true := by
  cases lim with
  | none => simp [withinLimit, h1]
  | some m =>
    simp only [overLimit, decide_eq_false_iff_not, Nat.not_lt] at h2
    simp [withinLimit, h1, h2]

/-- the basic types that are not names -/
theorem sd_basic_leaf (a : Ast) (P : Plans) (t : BasicType) (ht : ∀ n, t ≠ .ident n) (fuel : Nat) (c : Cur) (v : Val) (c' : Cur)
    (h : evalBasic a P (fuel + 1) (decodeBasicAlias t) c = .ok v c') :
    ∃ x, hasTypeBasic a t x = true ∧ v = reprBasic a t c.off x ∧ c'.off = c.off + x.enc.length := by
  cases hd : decodeBasicAlias t with
  | prim pr =>
    rw [hd] at h
    simp only [evalBasic] at h
    exact prim_sound a t pr hd c v c' h
  | string =>
    rw [hd] at h
    simp only [evalBasic] at h
    have ht' : t = .string := by cases t <;> simp [decodeBasicAlias] at hd <;> rfl
    subst ht'
    obtain ⟨bs, rfl, hl, _, hu, hoff⟩ := readString_sound h
    exact ⟨.str bs, by simp [hasTypeBasic, hl, hu], by simp [reprBasic], by simp [XVal.enc, hoff]; omega⟩
  | «opaque» =>
    rw [hd] at h
    simp only [evalBasic] at h
    have ht' : t = .opaque := by cases t <;> simp [decodeBasicAlias] at hd <;> rfl
    subst ht'
    obtain ⟨bs, rfl, hl, _, hoff, _⟩ := readVariableBytes_sound h
    exact ⟨.varOpaque bs, by simp [hasTypeBasic, hl], by simp [reprBasic], by simp [XVal.enc, hoff]; omega⟩
  | tryFrom n =>
    have : t = .ident n := by cases t <;> simp [decodeBasicAlias] at hd; subst hd; rfl
    exact absurd this (ht n)

/-! ### bounds: what the emitter resolves is what the specification declares -/

theorem dec_chars : ∀ (cs : List Char) (n : Nat),
    (let cs' := (match cs with | '+' :: r => r | _ => cs)
     if allDigits cs' then (let m := digitsVal cs'; if m < 2^32 then some m else none) else none) = some n →
    (match cs with | '+' :: _ => false | _ => true) = true →
    (match cs with
     | '0' :: 'x' :: rest => if rest.isEmpty then none else hexStrVal rest
     | cs => if allDigits cs then some (digitsVal cs) else none) = some n := by
  intro cs n h1 hpl
  match cs, h1, hpl with
  | [], h1, _ => simp [allDigits] at h1
  | '+' :: r, _, hpl => simp at hpl
  | '0' :: 'x' :: rest, h1, _ => simp [allDigits] at h1
  | c :: r, h1, hpl =>
    by_cases hplus : c = '+'
    · subst hplus; simp at hpl
    · have e1 : (match c :: r with | '+' :: r' => r' | _ => c :: r) = c :: r := by
        split
        · rename_i r' heq; cases heq; exact absurd rfl hplus
        · rfl
      simp only [e1] at h1
      by_cases hd : allDigits (c :: r) = true
      · simp only [hd, if_true] at h1
        split at h1
        · cases h1
          split
          · rename_i rest heq
            cases heq
            simp [allDigits] at hd
          · simp [hd]
        · cases h1
      · simp [hd] at h1

theorem parseU32_dec (t : String) (n : Nat) (hp : parseU32 t = some n) (hpl : plusFree t = true) : parseDecOrHex t = some n :=
  dec_chars t.toList n hp hpl

/-- the bounds of a declarator are decimal constants or literals (what `declaratorOk` / `typedefOk` demand) -/
def sizesOk (a : Ast) : ArrayType → Bool
  | .none _ => true
  | .fixed _ sz => boundOk a sz
  | .variable _ none => true
  | .variable _ (some sz) => boundOk a sz

theorem sizesOk_of_declaratorOk {a : Ast} {at_ : ArrayType} (h : declaratorOk a at_ = true) : sizesOk a at_ = true := by
  rcases at_ with t | ⟨t, sz⟩ | ⟨t, m⟩
  · rfl
  · cases t <;> simp_all [declaratorOk, sizesOk]
  · cases m <;> cases t <;> simp_all [declaratorOk, sizesOk, optBoundOk]

theorem sizesOk_wrapAlias {a : Ast} {td : Typedef} (h : typedefOk a td = true) : sizesOk a (wrapAlias td) = true := by
  obtain ⟨target, alias⟩ := td
  simp only [typedefOk, Bool.and_eq_true] at h
  have h2 := h.2
  rcases alias with t | ⟨t, sz⟩ | ⟨t, m⟩ <;> cases target <;> (try cases m) <;> simp_all [wrapAlias, sizesOk, optBoundOk]

theorem resolve_bound {a : Ast} (hpf : ∀ k t, bget k a.constants = some (.constValue t) → plusFree t = true)
    {sz : ArraySize} {n : Nat} (hok : boundOk a sz = true) (h : resolveSize a sz = .ok n) : boundValue a sz = some n := by
  cases sz with
  | known k => simp [resolveSize] at h; simp [boundValue, h]
  | constant cn =>
    simp only [boundOk] at hok
    simp only [resolveSize, Ast.getConst] at h
    simp only [boundValue]
    cases hc : bget cn a.constants with
    | none => simp [hc] at hok
    | some ct =>
      cases ct with
      | enumValue e vv => simp [hc] at hok
      | constValue tx =>
        simp only [hc, ConstantType.display] at h ⊢
        cases hp : parseU32 tx with
        | none => simp [hp] at h
        | some n' =>
          simp only [hp] at h
          cases h
          exact parseU32_dec tx _ hp (hpf cn tx hc)

/-- what the soundness induction needs to know about the specification -/
structure SD (a : Ast) (P : Plans) : Prop extends RT a P where
  plusFree : ∀ k t, bget k a.constants = some (.constValue t) → Fx.plusFree t = true

/-! ### the induction on fuel -/

def NamedSD (a : Ast) (P : Plans) (fuel : Nat) : Prop :=
  ∀ n c v c', declared a n = true → evalImpl a P fuel n c = .ok v c' →
    ∃ x, hasTypeNamed a n x = true ∧ v = reprNamed a n c.off x ∧ c'.off = c.off + x.enc.length

def BasicSD (a : Ast) (P : Plans) (fuel : Nat) : Prop :=
  ∀ t c v c', basicDeclared a t = true → evalBasic a P fuel (decodeBasicAlias t) c = .ok v c' →
    ∃ x, hasTypeBasic a t x = true ∧ v = reprBasic a t c.off x ∧ c'.off = c.off + x.enc.length

def ArrSD (a : Ast) (P : Plans) (fuel : Nat) : Prop :=
  ∀ at_ fd c v c', elemOk a at_ = true → sizesOk a at_ = true → decodeArray a at_ .useAlias = .ok fd → evalField a P fuel fd c = .ok v c' →
    ∃ x, hasType a at_ x = true ∧ v = repr a at_ c.off x ∧ c'.off = c.off + x.enc.length

def RepeatSD (a : Ast) (P : Plans) (fuel : Nat) : Prop :=
  ∀ t k c vs c', basicDeclared a t = true → evalRepeat a P fuel k (decodeBasicAlias t) c = .ok vs c' →
    ∃ xs, xs.len = k ∧ allHaveType a t xs = true ∧ vs = reprAll a t c.off xs ∧ c'.off = c.off + xs.enc.length

def FieldsSD (a : Ast) (P : Plans) (fuel : Nat) : Prop :=
  ∀ fields fds c vs c', fields.all (fieldOk a) = true → mapG (emitStructField a) fields = .ok fds →
    evalFields a P fuel fds c = .ok vs c' →
    ∃ xs, fieldsHaveType a fields xs = true ∧ vs = reprFields a fields c.off xs ∧ c'.off = c.off + xs.enc.length

theorem sd_step_basic {a : Ast} {P : Plans} {f : Nat} (ihN : NamedSD a P f) : BasicSD a P (f + 1) := by
  intro t c v c' hd h
  by_cases hid : ∃ n, t = .ident n
  · obtain ⟨n, rfl⟩ := hid
    simp only [decodeBasicAlias, evalBasic] at h
    obtain ⟨x, hx, hv, hoff⟩ := ihN n c v c' (by simpa [basicDeclared] using hd) h
    exact ⟨x, by simpa [hasTypeBasic] using hx, by rw [reprBasic_ident_eq hx]; exact hv, hoff⟩
  · exact sd_basic_leaf a P t (fun n e => hid ⟨n, e⟩) f c v c' h

theorem sd_step_repeat {a : Ast} {P : Plans} {f : Nat} (ihB : BasicSD a P f) (ihR : RepeatSD a P f) : RepeatSD a P (f + 1) := by
  intro t k c vs c' hd h
  cases k with
  | zero =>
    simp only [evalRepeat] at h
    cases h
    exact ⟨.nil, rfl, by simp [allHaveType], by simp [reprAll], by simp [XVals.enc]⟩
  | succ k =>
    simp only [evalRepeat] at h
    obtain ⟨v, c1, h1, h2⟩ := Res.bind_eq_ok h
    obtain ⟨vs2, c2, h3, h4⟩ := Res.bind_eq_ok h2
    cases h4
    obtain ⟨x, hx, hv, ho1⟩ := ihB t c v c1 hd h1
    obtain ⟨xs, hlen, hall, hvs, ho2⟩ := ihR t k c1 vs2 c' hd h3
    refine ⟨.cons x xs, by simp [XVals.len, hlen], by simp [allHaveType, hx, hall], ?_, ?_⟩
    · rw [reprAll, hv, hvs, ho1]
    · simp only [XVals.enc, List.length_append]; omega

/-- the element loop of a counted array -/
theorem sd_loop (a : Ast) (P : Plans) (hse : P.SizeExact' = true) (f : Nat) (n : String)
    (hel : ∀ c v c', evalImpl a P f n c = .ok v c' →
      ∃ x, hasTypeNamed a n x = true ∧ v = reprNamed a n c.off x ∧ c'.off = c.off + x.enc.length) :
    ∀ (k : Nat) (c : Cur) (sum : Nat) (acc : Vals) (r : Vals × Nat) (c3 : Cur),
      arrLoop (evalImpl a P f n) (wsVal P) k c sum acc = .ok r c3 →
      ∃ xs, xs.len = k ∧ allHaveType a (.ident n) xs = true ∧ r.1 = acc.append (reprAll a (.ident n) c.off xs) ∧
        c3.off = c.off + xs.enc.length ∧ r.2 = sum + xs.enc.length := by
  intro k
  induction k with
  | zero =>
    intro c sum acc r c3 h
    simp only [arrLoop] at h
    cases h
    exact ⟨.nil, rfl, by simp [allHaveType], by simp [reprAll, Vals.append_nil], by simp [XVals.enc], by simp [XVals.enc]⟩
  | succ k ih =>
    intro c sum acc r c3 h
    simp only [arrLoop] at h
    split at h
    · rename_i t ct hdec
      split at h
      · cases h
      · obtain ⟨x, hx, hv, hoff⟩ := hel c t ct hdec
        have hcons := (eval_consumed a P hse f).1 n _ _ _ hdec
        have hws : wsVal P t = x.enc.length := by
          have := hcons.2.1
          omega
        obtain ⟨xs, hlen, hall, hr1, ho, hr2⟩ := ih _ _ _ _ _ h
        simp only [Cur.advance_off] at hr1 ho
        refine ⟨.cons x xs, by simp [XVals.len, hlen], by simp [allHaveType, hasTypeBasic, hx, hall], ?_, ?_, ?_⟩
        · rw [hv] at hws
          rw [hr1, reprAll, reprBasic_ident_eq hx, Vals.snoc_append, hv, hws]
        · simp only [XVals.enc, List.length_append]; rw [ho]; omega
        · simp only [XVals.enc, List.length_append]; rw [hr2]; omega
    · cases h
    · cases h
    · cases h
    · cases h

theorem sd_step_fields {a : Ast} {P : Plans} {f : Nat} (R : SD a P) (ihN : NamedSD a P f) (ihA : ArrSD a P f) (ihF : FieldsSD a P f) :
    FieldsSD a P (f + 1) := by
  intro fields fds c vs c' hok he h
  cases fields with
  | nil =>
    simp only [mapG] at he; cases he
    simp only [evalFields] at h; cases h
    exact ⟨.nil, by simp [fieldsHaveType], by simp [reprFields], by simp [XVals.enc]⟩
  | cons fld rest =>
    simp only [List.all_cons, Bool.and_eq_true] at hok
    simp only [mapG] at he
    obtain ⟨sfd, hsfd, he⟩ := G.bind_eq_ok he
    obtain ⟨sfds, hsfds, he⟩ := G.bind_eq_ok he
    cases he
    have hfo := hok.1
    simp only [fieldOk, Bool.and_eq_true] at hfo
    simp only [emitStructField] at hsfd
    simp only [evalFields] at h
    obtain ⟨v, c1, h1, h2⟩ := Res.bind_eq_ok h
    obtain ⟨vs2, c2, h3, h4⟩ := Res.bind_eq_ok h2
    cases h4
    -- the first field
    have hfirst : ∃ x, fieldHasType a fld x = true ∧ v = reprField a fld c.off x ∧ c1.off = c.off + x.enc.length := by
      by_cases hopt : fld.isOptional = true
      · simp only [hopt, if_true] at hsfd hfo
        cases hsfd
        split at hfo
        · rename_i n hfv
          have hsafe := R.toRT.plans.declared_safe n hfo.2
          simp only [hfv, ArrayType.unwrapArray, hsafe] at h1
          obtain ⟨m, cm, h5, h6⟩ := Res.bind_eq_ok h1
          obtain ⟨e, _, _, _⟩ := readU32_ok h5
          by_cases hm0 : m = 0
          · simp only [hm0, if_true] at h6
            cases h6
            refine ⟨.optNone, by rw [fieldHasType.eq_def]; simp [hopt], by rw [reprField.eq_def]; simp [hopt], by subst e; simp [XVal.enc]⟩
          · by_cases hm1 : m = 1
            · simp only [hm1, if_true] at h6
              simp only [show (1 : Nat) ≠ 0 from by decide, if_false] at h6
              obtain ⟨v3, c3, h7, h8⟩ := Res.bind_eq_ok h6
              cases h8
              obtain ⟨x, hx, hv, hoff⟩ := ihN n cm v3 c3 hfo.2 h7
              refine ⟨.optSome x, ?_, ?_, ?_⟩
              · rw [fieldHasType.eq_def]; simp [hopt, hfv, ArrayType.unwrapArray, hasTypeBasic, hx]
              · rw [reprField.eq_def]
                simp only [hopt, if_true, hfv, ArrayType.unwrapArray, reprBasic_ident_eq hx]
                subst e; rw [hv]; rfl
              · subst e
                simp only [Cur.addLog, XVal.enc, List.length_append, be32_length]
                simp only [Cur.advance_off] at hoff
                omega
            · simp only [hm0, hm1, if_false] at h6
              cases h6
        · simp at hfo
      · simp only [hopt, Bool.false_eq_true, if_false] at hsfd hfo
        obtain ⟨fd, hfd, hsfd⟩ := G.bind_eq_ok hsfd
        cases hsfd
        obtain ⟨x, hx, hv, hoff⟩ := ihA fld.fieldValue fd c v c1 (elemOk_of_declaratorOk hfo.2) (sizesOk_of_declaratorOk hfo.2) hfd h1
        exact ⟨x, by rw [fieldHasType.eq_def]; simp [hopt, hx], by rw [reprField.eq_def]; simp [hopt, hv], hoff⟩
    obtain ⟨x, hx, hv, ho1⟩ := hfirst
    obtain ⟨xs, hxs, hvs, ho2⟩ := ihF rest sfds c1 vs2 c' hok.2 hsfds h3
    refine ⟨.cons x xs, by simp [fieldsHaveType, hx, hxs], ?_, ?_⟩
    · rw [reprFields, hv, hvs, ho1]
    · simp only [XVals.enc, List.length_append]; omega

theorem sd_step_arr {a : Ast} {P : Plans} {f : Nat} (R : SD a P) (ihN : NamedSD a P f) (ihB : BasicSD a P f) (ihR : RepeatSD a P f) :
    ArrSD a P (f + 1) := by
  intro at_ fd c v c' hok hsz he h
  rcases at_ with t | ⟨t, sz⟩ | ⟨t, m⟩
  · -- a plain declarator
    simp only [decodeArray, decodeBasic_alias, G.bind_ok] at he
    cases he
    simp only [evalField] at h
    obtain ⟨x, hx, hv, hoff⟩ := ihB t c v c' (by simpa [elemOk] using hok) h
    exact ⟨x, by rw [hasType.eq_def]; exact hx, by rw [repr.eq_def]; exact hv, hoff⟩
  · -- a fixed-length declarator
    simp only [decodeArray] at he
    obtain ⟨n, hn, he⟩ := G.bind_eq_ok he
    have hbv : boundValue a sz = some n := resolve_bound R.plusFree (by simpa [sizesOk] using hsz) hn
    by_cases hop : t.isOpaque = true
    · -- fixed opaque
      have : t = .opaque := by cases t <;> simp [BasicType.isOpaque] at hop <;> rfl
      subst this
      simp only [printFixed] at he
      cases he
      simp only [evalField] at h
      obtain ⟨hl, hv, hc⟩ := readBytes_ok h
      have hlen : (List.take n c.data).length = n := by
        simp only [Cur.remaining] at hl; simp only [List.length_take]; omega
      refine ⟨.fixedOpaque (c.data.take n), ?_, ?_, ?_⟩
      · rw [hasType.eq_def]; simp only [hbv]; rw [fixedHasType.eq_def]; simp [hlen]
      · rw [repr.eq_def]; exact hv
      · rw [hc]; simp [XVal.enc, hlen]
    · -- fixed array
      have ht2 : t ≠ .string := by intro e; subst e; simp [elemOk] at hok
      have hd : basicDeclared a t = true := by cases t <;> simp_all [elemOk]
      have hpf : fd = (if n = 0 then .fixedArr 0 (.prim .u32) else .fixedArr n (decodeBasicAlias t)) := by
        simp only [printFixed] at he
        by_cases hn0 : n = 0
        · cases t <;> simp_all [BasicType.isOpaque]
        · cases t <;> simp_all [BasicType.isOpaque, decodeBasic_alias]
      subst hpf
      have hfin : ∀ xs : XVals, xs.len = n → allHaveType a t xs = true → hasType a (.fixed t sz) (.fixedArr xs) = true := by
        intro xs hlen hall
        rw [hasType.eq_def]; simp only [hbv]; rw [fixedHasType.eq_def]
        cases t <;> simp_all [BasicType.isOpaque]
      by_cases hn0 : n = 0
      · simp only [hn0, if_true, evalField] at h
        cases f with
        | zero => simp [evalRepeat] at h
        | succ f' =>
          simp only [evalRepeat, Res.bind_ok] at h
          cases h
          exact ⟨.fixedArr .nil, hfin .nil (by simp [XVals.len, hn0]) (by simp [allHaveType]), by rw [repr.eq_def]; simp [reprAll],
            by simp [XVal.enc, XVals.enc]⟩
      · simp only [hn0, if_false, evalField] at h
        obtain ⟨vs, c1, h1, h2⟩ := Res.bind_eq_ok h
        cases h2
        obtain ⟨xs, hlen, hall, hvs, hoff⟩ := ihR t n c vs c' hd h1
        exact ⟨.fixedArr xs, hfin xs hlen hall, by rw [repr.eq_def]; simp [hvs], by simp [XVal.enc, hoff]⟩
  · -- a counted declarator
    simp only [decodeArray] at he
    have hsize : ∃ size, printVariable a t size .useAlias = .ok fd ∧ limitOf a m = some size := by
      cases m with
      | none => exact ⟨none, he, rfl⟩
      | some sz =>
        obtain ⟨n', hn', he⟩ := G.bind_eq_ok he
        have := resolve_bound R.plusFree (by simpa [sizesOk] using hsz) hn'
        exact ⟨some n', he, by simp [limitOf, this]⟩
    obtain ⟨lim, hpv, hlim⟩ := hsize
    by_cases hstr : t = .string
    · subst hstr
      simp only [printVariable] at hpv
      cases hpv
      simp only [evalField] at h
      obtain ⟨bs, rfl, hl, hov, hu, hoff⟩ := readString_sound h
      refine ⟨.str bs, ?_, by rw [repr.eq_def], by simp [XVal.enc, hoff]; omega⟩
      rw [hasType.eq_def]; simp only [hlim]; rw [varHasType.eq_def]; simp [within_of hl hov, hu]
    · by_cases hop : t = .opaque
      · subst hop
        simp only [printVariable] at hpv
        cases hpv
        simp only [evalField] at h
        obtain ⟨bs, rfl, hl, hov, hoff, _⟩ := readVariableBytes_sound h
        refine ⟨.varOpaque bs, ?_, by rw [repr.eq_def], by simp [XVal.enc, hoff]; omega⟩
        rw [hasType.eq_def]; simp only [hlim]; rw [varHasType.eq_def]; simp [within_of hl hov]
      · -- counted array of a declared type
        obtain ⟨nm, rfl⟩ : ∃ nm, t = .ident nm := by cases t <;> simp_all [elemOk]
        have hdecl : declared a nm = true := by simpa [elemOk] using hok
        simp only [printVariable, R.toRT.plans.declared_safe nm hdecl] at hpv
        cases hpv
        simp only [evalField] at h
        unfold readVariableArray at h
        obtain ⟨k, c1, h1, h2⟩ := Res.bind_eq_ok h
        obtain ⟨e, _, hk, _⟩ := readU32_ok h1
        split at h2
        · cases h2
        · rename_i hov
          obtain ⟨⟨out, sum⟩, c3, h3, h4⟩ := Res.bind_eq_ok h2
          obtain ⟨xs, hlen, hall, hout, ho3, hsum⟩ := sd_loop a P R.toRT.sizeExact f nm (fun c0 v0 c0' h0 => ihN nm c0 v0 c0' hdecl h0) k _ 0 .nil _ c3 h3
          simp only at hout hsum h4
          have hp0 : padLen sum = 0 := by
            rw [hsum]; exact padLen_of_mod _ (by simpa using XVals.enc_len_mod4 xs)
          split at h4
          · cases h4
          · obtain ⟨u, c4, h5, h6⟩ := Res.bind_eq_ok h4
            cases h6
            simp only [advanceP, hp0] at h5
            split at h5
            · cases h5
            · cases h5
              refine ⟨.varArr xs, ?_, ?_, ?_⟩
              · rw [hasType.eq_def]; simp only [hlim]; rw [varHasType.eq_def]
                simp [hlen, within_of hk (by simpa using hov), hall]
              · rw [repr.eq_def]
                simp only [hout, Vals.nil_append]
                subst e
                rfl
              · subst e
                simp only [Cur.advance_zero, XVal.enc, List.length_append, be32_length, hlen]
                simp only [Cur.addLog, Cur.advance_off] at ho3
                omega

/-! ### enums, discriminants -/

theorem selectEnum_neg {a : Ast} : ∀ (vs : List Variant),
    vs.all (fun v => match v.value with | .numeric i => 0 ≤ i && i < 2^31 | .str _ => false) = true →
    ∀ (i : Int), i < 0 → selectEnum a (.i32 i) (vs.map fun x => (x.value, x.name)) = none := by
  intro vs
  induction vs with
  | nil => intro _ i _; rfl
  | cons v rest ih =>
    intro hnum i hi
    simp only [List.all_cons, Bool.and_eq_true] at hnum
    simp only [List.map_cons, selectEnum]
    cases hv : v.value with
    | str s => simp [hv] at hnum
    | numeric k =>
      have hk := hnum.1
      simp only [hv, Bool.and_eq_true, decide_eq_true_eq] at hk
      have hne : (i == k) = false := by simp; omega
      simp only [enumArmMatches, scrutInt, hne, Bool.false_eq_true, if_false]
      exact ih hnum.2 i hi

/-- an enum decoder accepts exactly the declared values -/
theorem enum_sound {a : Ast} {P : Plans} (R : RT a P) (nm : String) (e : Enum) (hb : bget nm a.types = some (.enum e))
    (k : Nat) (c : Cur) (v : Val) (c' : Cur) (h : evalImpl a P (k + 1) nm c = .ok v c') :
    ∃ w m, enumHasValue a e w = true ∧ enumMemberName a e w = some m ∧ v = .cenum nm m ∧ c'.off = c.off + 4 := by
  obtain ⟨i, hfi, hemit⟩ := R.find nm _ hb
  obtain ⟨hty, hname⟩ := R.tyOk nm _ hb
  simp only [typeOk] at hty
  simp only [emitImpl] at hemit
  cases hemit
  have hnum := hty
  simp only [enumOk, Bool.and_eq_true] at hnum
  simp only [evalImpl, hfi] at h
  obtain ⟨i, c1, h1, h2⟩ := Res.bind_eq_ok h
  obtain ⟨w, h3, rfl⟩ := Res.map_eq_ok h1
  obtain ⟨e1, _, hw, _⟩ := readU32_ok h3
  by_cases hlt : w < 2^31
  · have hts : toSigned 32 w = (w : Int) := by simp [toSigned, hlt]
    rw [hts, enum_select (a := a) e.variants hnum.1.2 w] at h2
    cases hfd : e.variants.find? (fun v => enumMemberValue a v == some w) with
    | none => simp [hfd] at h2
    | some var =>
      simp only [hfd, Option.map_some] at h2
      cases h2
      refine ⟨w, var.name, ?_, by simp [enumMemberName, hfd], rfl, by subst e1; rfl⟩
      simp only [enumHasValue, List.any_eq_true]
      exact ⟨var, List.mem_of_find?_eq_some hfd, by have := List.find?_some hfd; simpa using this⟩
  · have hneg : toSigned 32 w < 0 := by simp only [toSigned]; split <;> omega
    rw [selectEnum_neg e.variants hnum.1.2 _ hneg] at h2
    cases h2

theorem sizesOk_of_armTypeOk {a : Ast} {at_ : ArrayType} (h : armTypeOk a at_ = true) : sizesOk a at_ = true := by
  rcases at_ with t | ⟨t, sz⟩ | ⟨t, m⟩
  · rfl
  · simp [armTypeOk] at h
  · simp [armTypeOk] at h

theorem findDataCase_ty {a : Ast} {d : Nat} : ∀ (cs : List UnionCase) (l : String) (ty : ArrayType),
    findDataCase a d cs = some (l, ty) → ∃ c ∈ cs, c.fieldValue = ty := by
  intro cs
  induction cs with
  | nil => intro l ty h; simp [findDataCase] at h
  | cons c rest ih =>
    intro l ty h
    simp only [findDataCase] at h
    split at h
    · cases h; exact ⟨c, List.mem_cons_self, rfl⟩
    · obtain ⟨c', hc', e⟩ := ih l ty h
      exact ⟨c', List.mem_cons_of_mem _ hc', e⟩

theorem selectDeclared_armOk {a : Ast} {u : Union} (hu : unionOk a u = true) {d : Nat} {l : String} {ty : ArrayType}
    (h : selectDeclared a u d = .data l ty) : armTypeOk a ty = true := by
  simp only [unionOk, Bool.and_eq_true] at hu
  obtain ⟨⟨⟨⟨⟨_, hcases⟩, hdef⟩, _⟩, _⟩, _⟩ := hu
  simp only [selectDeclared] at h
  cases hfd : findDataCase a d u.cases with
  | some lt =>
    obtain ⟨l', ty'⟩ := lt
    simp only [hfd] at h
    cases h
    obtain ⟨c, hc, e⟩ := findDataCase_ty u.cases _ _ hfd
    have := (List.all_eq_true.mp hcases) c hc
    simp only [Bool.and_eq_true] at this
    rw [← e]; exact this.1
  | none =>
    simp only [hfd] at h
    split at h
    · cases h
    · cases hdf : u.default with
      | some dc =>
        simp only [hdf] at h hdef
        cases h
        simp only [Bool.and_eq_true] at hdef
        exact hdef.1.1
      | none =>
        simp only [hdf] at h
        split at h <;> cases h

/-- a successful discriminant decode read a word the switch type admits, and its value is the scrutinee of that word -/
theorem disc_sound {a : Ast} {P : Plans} (R : RT a P) (u : Union)
    (hk : (match discKind a u.switch.varType with | .unsupported => false | _ => true) = true)
    (disc : BasicDec) (he : decodeBasic a u.switch.varType .useTarget = .ok disc)
    (fuel : Nat) (c : Cur) (v : Val) (c1 : Cur) (h : evalBasic a P fuel disc c = .ok v c1) :
    ∃ d, discOk a (discKind a u.switch.varType) d = true ∧ v = scrutOf a u d ∧ c1.off = c.off + 4 := by
  cases fuel with
  | zero => simp [evalBasic] at h
  | succ f =>
  simp only [scrutOf]
  cases hvt : u.switch.varType
  case u32 =>
    simp only [hvt, decodeBasic, decodeBasicAlias] at he; cases he
    simp only [evalBasic, readPrim] at h
    obtain ⟨n, h1, rfl⟩ := Res.map_eq_ok h
    obtain ⟨e, _, hn, _⟩ := readU32_ok h1
    exact ⟨n, by simp [discKind, discOk, hn], by simp [discKind], by subst e; rfl⟩
  case i32 =>
    simp only [hvt, decodeBasic, decodeBasicAlias] at he; cases he
    simp only [evalBasic, readPrim] at h
    obtain ⟨i, h1, rfl⟩ := Res.map_eq_ok h
    obtain ⟨n, h2, rfl⟩ := Res.map_eq_ok h1
    obtain ⟨e, _, hn, _⟩ := readU32_ok h2
    exact ⟨n, by simp [discKind, discOk, hn], by simp [discKind], by subst e; rfl⟩
  case bool =>
    simp only [hvt, decodeBasic, decodeBasicAlias] at he; cases he
    simp only [evalBasic, readPrim] at h
    obtain ⟨b, h1, rfl⟩ := Res.map_eq_ok h
    unfold readBool at h1
    obtain ⟨i, c2, h2, h3⟩ := Res.bind_eq_ok h1
    obtain ⟨n, h4, _⟩ := Res.map_eq_ok h2
    obtain ⟨e, _, _, _⟩ := readU32_ok h4
    have hc : c1.off = c.off + 4 ∧ True := by
      split at h3
      · cases h3; subst e; exact ⟨rfl, trivial⟩
      · split at h3
        · cases h3; subst e; exact ⟨rfl, trivial⟩
        · cases h3
    refine ⟨if b then 1 else 0, by cases b <;> simp [discKind, discOk], ?_, hc.1⟩
    cases b <;> simp [discKind]
  case ident nm =>
    simp only [hvt, discKind] at hk ⊢
    simp only [hvt, decodeBasic, Ast.getType] at he
    cases hg' : bget nm a.types with
    | none => simp [hg'] at hk
    | some ty =>
      cases ty with
      | struct _ => simp [hg'] at hk
      | union _ => simp [hg'] at hk
      | enum e =>
        simp only [hg'] at he ⊢
        cases he
        have hname : e.name = nm := by
          have := (R.tyOk nm _ hg').2
          simpa [AstType.rustName] using this
        rw [hname] at h
        simp only [evalBasic] at h
        cases f with
        | zero => simp [evalImpl] at h
        | succ f' =>
          obtain ⟨w, m, hv, hm, rfl, hoff⟩ := enum_sound R nm e hg' f' c v c1 h
          exact ⟨w, by simpa [discOk] using hv, by simp [hm, hname], hoff⟩
      | typedef td =>
        simp only [hg'] at hk he ⊢
        cases he
        obtain ⟨target, alias⟩ := td
        rcases alias with t2 | ⟨t2, sz⟩ | ⟨t2, m2⟩ <;> cases target <;> simp at hk
        · simp only [decodeBasicAlias, evalBasic, readPrim] at h
          obtain ⟨n, h1, rfl⟩ := Res.map_eq_ok h
          obtain ⟨e, _, hn, _⟩ := readU32_ok h1
          exact ⟨n, by simp [discOk, hn], rfl, by subst e; rfl⟩
        · simp only [decodeBasicAlias, evalBasic, readPrim] at h
          obtain ⟨i, h1, rfl⟩ := Res.map_eq_ok h
          obtain ⟨n, h2, rfl⟩ := Res.map_eq_ok h1
          obtain ⟨e, _, hn, _⟩ := readU32_ok h2
          exact ⟨n, by simp [discOk, hn], rfl, by subst e; rfl⟩
  all_goals simp [hvt, discKind] at hk

theorem hasType_of_wrapAlias {a : Ast} {td : Typedef} {v : XVal} (h : hasType a (wrapAlias td) v = true) :
    (match td.alias with
     | .none _ => hasType a (.none td.target) v
     | .fixed _ sz => hasType a (.fixed td.target sz) v
     | .variable _ m => hasType a (.variable td.target m) v) = true := by
  obtain ⟨target, alias⟩ := td
  rcases alias with t | ⟨t, sz⟩ | ⟨t, m⟩ <;> exact h

theorem sd_step_named {a : Ast} {P : Plans} {f : Nat} (R : SD a P) (ihA : ArrSD a P f) (ihF : FieldsSD a P f) : NamedSD a P (f + 1) := by
  intro n c v c' hdecl h
  simp only [declared, Option.isSome_iff_exists] at hdecl
  obtain ⟨ty, hb⟩ := hdecl
  obtain ⟨i, hfi, hemit⟩ := R.toRT.find n _ hb
  obtain ⟨hty, hname⟩ := R.toRT.tyOk n _ hb
  cases ty with
  | struct sdef =>
    simp only [typeOk, Bool.and_eq_true] at hty
    simp only [emitImpl] at hemit
    obtain ⟨fds, hfds, hemit⟩ := G.bind_eq_ok hemit
    cases hemit
    simp only [evalImpl, hfi] at h
    obtain ⟨vs, c1, h1, h2⟩ := Res.bind_eq_ok h
    cases h2
    obtain ⟨xs, hxs, hvs, hoff⟩ := ihF sdef.fields fds c vs c' hty.2 hfds h1
    refine ⟨.struct xs, ?_, ?_, by simpa [XVal.enc] using hoff⟩
    · rw [hasTypeNamed.eq_def]; simp [hb, hxs]
    · rw [reprNamed.eq_def]; simp only [hb]
      rw [emit_field_names sdef.fields fds hty.2 hfds, hvs]
  | union u =>
    simp only [typeOk] at hty
    simp only [emitImpl] at hemit
    obtain ⟨ud, hud, hemit⟩ := G.bind_eq_ok hemit
    cases hemit
    have hk : (match discKind a u.switch.varType with | .unsupported => false | _ => true) = true := by
      have := hty; simp only [unionOk, Bool.and_eq_true] at this; exact this.1.1.1.1.1
    have hdisc_emit : decodeBasic a u.switch.varType .useTarget = .ok ud.disc := by
      simp only [emitUnion] at hud
      obtain ⟨disc, hd, hud⟩ := G.bind_eq_ok hud
      obtain ⟨dataArms, _, hud⟩ := G.bind_eq_ok hud
      obtain ⟨tail, _, hud⟩ := G.bind_eq_ok hud
      cases hud; exact hd
    simp only [evalImpl, hfi] at h
    obtain ⟨dv, c1, h1, h2⟩ := Res.bind_eq_ok h
    obtain ⟨w, hw, hdv, ho1⟩ := disc_sound R.toRT u hk ud.disc hdisc_emit f c dv c1 h1
    subst hdv
    have hsel := (R.toRT.selects n u _ ud hb hfi rfl w hw).2
    cases hsd : selectDeclared a u w with
    | data lab ty =>
      simp only [hsd] at hsel
      have harmok := selectDeclared_armOk hty hsd
      by_cases hlab : lab = "default"
      · simp only [hlab, if_true] at hsel
        obtain ⟨hnone, fd, htail, hfd, hel⟩ := hsel
        simp only [hnone, htail] at h2
        obtain ⟨pv, c2, h3, h4⟩ := Res.bind_eq_ok h2
        cases h4
        obtain ⟨px, hpx, hpv, ho2⟩ := ihA ty fd c1 pv c' hel (sizesOk_of_armTypeOk harmok) hfd h3
        refine ⟨.union w px, ?_, ?_, ?_⟩
        · rw [hasTypeNamed.eq_def]; simp [hb, hw, hsd, hpx]
        · rw [reprNamed.eq_def]; simp only [hb, hsd, hlab]
          rw [hpv, ho1]; simp [docVariantName]
        · simp only [XVal.enc, List.length_append, be32_length]; omega
      · simp only [hlab, if_false] at hsel
        obtain ⟨arm', fd, hsome, hvar, hpay, hfd, hel⟩ := hsel
        simp only [hsome, hpay] at h2
        obtain ⟨pv, c2, h3, h4⟩ := Res.bind_eq_ok h2
        cases h4
        obtain ⟨px, hpx, hpv, ho2⟩ := ihA ty fd c1 pv c' hel (sizesOk_of_armTypeOk harmok) hfd h3
        refine ⟨.union w px, ?_, ?_, ?_⟩
        · rw [hasTypeNamed.eq_def]; simp [hb, hw, hsd, hpx]
        · rw [reprNamed.eq_def]; simp only [hb, hsd]
          rw [hpv, ho1, hvar, nonDigitName_eq_doc]
        · simp only [XVal.enc, List.length_append, be32_length]; omega
    | void lab =>
      simp only [hsd] at hsel
      obtain ⟨arm', hsome, hvar, hpay⟩ := hsel
      simp only [hsome, hpay] at h2
      cases h2
      refine ⟨.union w .void, ?_, ?_, ?_⟩
      · rw [hasTypeNamed.eq_def]; simp [hb, hw, hsd]
      · rw [reprNamed.eq_def]; simp only [hb, hsd]
        rw [hvar, nonDigitName_eq_doc]
      · simp only [XVal.enc, List.length_append, be32_length, List.length_nil]; omega
    | noArm =>
      simp only [hsd] at hsel
      simp only [hsel.1, hsel.2] at h2
      cases h2
  | enum e =>
    obtain ⟨w, m, hv, hm, rfl, hoff⟩ := enum_sound R.toRT n e hb f c v c' h
    refine ⟨.enumv w, ?_, ?_, by simpa [XVal.enc] using hoff⟩
    · rw [hasTypeNamed.eq_def]; simp [hb, hv]
    · rw [reprNamed.eq_def]; simp [hb, hm]
  | typedef td =>
    simp only [typeOk] at hty
    simp only [emitImpl] at hemit
    obtain ⟨fd, hfd, hemit⟩ := G.bind_eq_ok hemit
    cases hemit
    have hself : a.getType td.alias.unwrapArray.asStr = some (.typedef td) := by
      simp only [AstType.rustName] at hname
      rw [hname]; exact hb
    rw [typedef_decode_eq R.toRT.plans td hty hself] at hfd
    simp only [evalImpl, hfi] at h
    obtain ⟨pv, c1, h1, h2⟩ := Res.bind_eq_ok h
    cases h2
    obtain ⟨px, hpx, hpv, hoff⟩ := ihA (wrapAlias td) fd c pv c' (elemOk_wrapAlias hty) (sizesOk_wrapAlias hty) hfd h1
    refine ⟨.alias px, ?_, ?_, by simpa [XVal.enc] using hoff⟩
    · rw [hasTypeNamed.eq_def]; simp only [hb]; exact hasType_of_wrapAlias hpx
    · rw [reprNamed.eq_def]; simp only [hb]
      rw [hpv]
      obtain ⟨target, alias⟩ := td
      rcases alias with t | ⟨t, sz⟩ | ⟨t, m⟩ <;> rfl

theorem sd_all {a : Ast} {P : Plans} (R : SD a P) : ∀ (fuel : Nat),
    NamedSD a P fuel ∧ BasicSD a P fuel ∧ ArrSD a P fuel ∧ RepeatSD a P fuel ∧ FieldsSD a P fuel
  | 0 => ⟨fun _ _ _ _ _ h => by simp [evalImpl] at h, fun _ _ _ _ _ h => by simp [evalBasic] at h,
          fun _ _ _ _ _ _ _ _ h => by simp [evalField] at h, fun _ _ _ _ _ _ h => by simp [evalRepeat] at h,
          fun _ _ _ _ _ _ _ h => by simp [evalFields] at h⟩
  | f + 1 =>
    have ih := sd_all R f
    ⟨sd_step_named R ih.2.2.1 ih.2.2.2.2, sd_step_basic ih.1, sd_step_arr R ih.1 ih.2.1 ih.2.2.2.1,
     sd_step_repeat ih.2.1 ih.2.2.2.1, sd_step_fields R ih.1 ih.2.2.1 ih.2.2.2.2⟩

theorem sd_of_supported {a : Ast} {m : Module} (hs : Supported a = true) (hg : generateModule a = .ok m) : SD a m.plans := by
  refine ⟨rt_of_supported hs hg (match_selects_of_supported hs hg), ?_⟩
  intro k t hb
  obtain ⟨_, _, hcn, _, _⟩ := Supported.facts hs
  have := (List.all_eq_true.mp hcn) (k, .constValue t) (bget_mem hb)
  simp only [Bool.and_eq_true] at this
  exact this.2.2

/-- **decode soundness**: for every supported specification, every declared type and EVERY byte string: if the generated
    decoder returns `Ok(v)`, then `v` is the documented Rust value of a well-typed XDR value `x` of that type, and the decoder
    consumed exactly as many bytes as the encoding of `x` has. -/
theorem decode_sound {a : Ast} {m : Module} (hs : Supported a = true) (hg : generateModule a = .ok m)
    (n : String) (hn : declared a n = true) (fuel : Nat) (c : Cur) (v : Val) (c' : Cur)
    (h : evalImpl a m.plans fuel n c = .ok v c') :
    ∃ x, hasTypeNamed a n x = true ∧ v = reprNamed a n c.off x ∧ c'.off = c.off + x.enc.length :=
  (sd_all (sd_of_supported hs hg) fuel).1 n c v c' hn h

end Fx
