/-
  Fx.Lemmas.Total — the TOTAL memory a decode requests.

  Every allocation event is paid for by input bytes, but nested decoders can each charge the same bytes once per nesting
  level: the total is at most (nesting depth) × (bytes consumed) on success and (nesting depth) × (bytes present) on
  failure.  The depth is what the recursion budget of the model measures.  For types that are recursive through a counted
  array the depth grows with the input and the total is quadratic (finding K11); otherwise it is linear.
-/
import Fx.Eval
import Fx.Finite
import Fx.Lemmas.Runtime
import Fx.Lemmas.Advance
import Fx.Lemmas.LogBound
import Fx.Lemmas.Consumed
import Fx.Lemmas.Terminates
namespace Fx

/-! ### array elements consume input -/

theorem word_le_of_pos {n : Nat} (h : 0 < n) : 4 ≤ n + padLen n := by
  have := padLen_mod n
  omega

section sure
variable (a : Ast) (p : Plans) (rec : String → Bool)
variable (hrec : ∀ m, rec m = true → ∀ f c v c', evalImpl a p f m c = .ok v c' → c'.remaining + 4 ≤ c.remaining)
include hrec

omit hrec in
theorem readU32_consumes' {c : Cur} {n : Nat} {c' : Cur} (h : readU32 c = .ok n c') : c'.remaining + 4 ≤ c.remaining := by
  obtain ⟨e, l, _, _⟩ := readU32_ok h
  subst e; simp [Cur.remaining] at *; omega

omit hrec in
theorem readU64_consumes' {c : Cur} {n : Nat} {c' : Cur} (h : readU64 c = .ok n c') : c'.remaining + 4 ≤ c.remaining := by
  obtain ⟨e, l⟩ := readU64_ok h
  subst e; simp [Cur.remaining] at *; omega

omit hrec in
theorem readPrim_consumes {pr : Prim} {c : Cur} {v : Val} {c' : Cur} (h : readPrim pr c = .ok v c') : c'.remaining + 4 ≤ c.remaining := by
  cases pr <;> simp only [readPrim] at h <;> obtain ⟨x, h1, _⟩ := Res.map_eq_ok h
  · exact readU32_consumes' h1
  · exact readU64_consumes' h1
  · obtain ⟨y, h2, _⟩ := Res.map_eq_ok h1; exact readU32_consumes' h2
  · obtain ⟨y, h2, _⟩ := Res.map_eq_ok h1; exact readU64_consumes' h2
  · exact readU32_consumes' h1
  · exact readU64_consumes' h1
  · unfold readBool at h1
    obtain ⟨i, c1, h2, h3⟩ := Res.bind_eq_ok h1
    obtain ⟨y, h4, _⟩ := Res.map_eq_ok h2
    have := readU32_consumes' h4
    split at h3
    · cases h3; exact this
    · split at h3
      · cases h3; exact this
      · cases h3

omit hrec in
theorem readVariableBytes_consumes {m : Option Nat} {c : Cur} {v : Val} {c' : Cur} (h : readVariableBytes m c = .ok v c') :
    c'.remaining + 4 ≤ c.remaining := by
  unfold readVariableBytes at h
  obtain ⟨n, c1, h1, h2⟩ := Res.bind_eq_ok h
  have := readU32_consumes' h1
  split at h2
  · cases h2
  · have := (readBytes_adv h2).remaining_le; omega

omit hrec in
theorem readString_consumes {m : Option Nat} {c : Cur} {v : Val} {c' : Cur} (h : readString m c = .ok v c') :
    c'.remaining + 4 ≤ c.remaining := by
  unfold readString at h
  obtain ⟨b, c1, h1, h2⟩ := Res.bind_eq_ok h
  have := readVariableBytes_consumes h1
  simp only at h2
  split at h2
  · cases h2; simpa [Cur.addLog, Cur.remaining] using this
  · cases h2

theorem basic_consumes {b : BasicDec} (hb : b.sureWith rec = true) {f : Nat} {c : Cur} {v : Val} {c' : Cur}
    (h : evalBasic a p f b c = .ok v c') : c'.remaining + 4 ≤ c.remaining := by
  cases f with
  | zero => simp [evalBasic] at h
  | succ f' =>
    cases b with
    | prim pr => simp only [evalBasic] at h; exact readPrim_consumes h
    | string => simp only [evalBasic] at h; exact readString_consumes h
    | «opaque» => simp only [evalBasic] at h; exact readVariableBytes_consumes h
    | tryFrom n => simp only [evalBasic] at h; exact hrec n hb f' c v c' h

theorem field_consumes {fd : FieldDec} (hfd : fd.sureWith rec = true) {f : Nat} {c : Cur} {v : Val} {c' : Cur}
    (h : evalField a p f fd c = .ok v c') : c'.remaining + 4 ≤ c.remaining := by
  cases f with
  | zero => simp [evalField] at h
  | succ f' =>
    cases fd with
    | one b => simp only [evalField] at h; exact basic_consumes a p rec hrec hfd h
    | fixedBytes n =>
      simp only [evalField] at h
      simp only [FieldDec.sureWith, decide_eq_true_eq] at hfd
      obtain ⟨l, _, e⟩ := readBytes_ok h
      subst e
      have := word_le_of_pos hfd
      simp [Cur.remaining] at *; omega
    | fixedArr k b =>
      simp only [evalField] at h
      simp only [FieldDec.sureWith, Bool.and_eq_true, decide_eq_true_eq] at hfd
      obtain ⟨vs, c1, h1, h2⟩ := Res.bind_eq_ok h
      cases h2
      cases f' with
      | zero => simp [evalRepeat] at h1
      | succ f'' =>
        cases k with
        | zero => omega
        | succ k' =>
          simp only [evalRepeat] at h1
          obtain ⟨v1, c2, h3, h4⟩ := Res.bind_eq_ok h1
          obtain ⟨vs2, c3, h5, h6⟩ := Res.bind_eq_ok h4
          cases h6
          have s1 := basic_consumes a p rec hrec hfd.2 h3
          have s2 := ((eval_adv a p f'').2.2.2.1 k' b c2 vs2 c' h5).remaining_le
          omega
    | varBytes m => simp only [evalField] at h; exact readVariableBytes_consumes h
    | varString m => simp only [evalField] at h; exact readString_consumes h
    | varArr ty g m =>
      simp only [evalField] at h
      have := (readVariableArray_adv h)
      unfold readVariableArray at h
      obtain ⟨n, c1, h1, h2⟩ := Res.bind_eq_ok h
      have s1 := readU32_consumes' h1
      split at h2
      · cases h2
      · obtain ⟨⟨out, sum⟩, c3, h3, h4⟩ := Res.bind_eq_ok h2
        have s2 := (arrLoop_adv _ _ _ _ _ _ _ _ h3).remaining_le
        simp only at h4
        split at h4
        · cases h4
        · obtain ⟨u, c4, h5, h6⟩ := Res.bind_eq_ok h4
          cases h6
          simp only [advanceP] at h5
          split at h5
          · cases h5
          · cases h5
            simp [Cur.addLog, Cur.remaining] at *
            omega

theorem fields_consume : ∀ (fs : List StructFieldDec), fs.any (·.sureWith rec) = true →
    ∀ {f : Nat} {c : Cur} {vs : Vals} {c' : Cur}, evalFields a p f fs c = .ok vs c' → c'.remaining + 4 ≤ c.remaining := by
  intro fs
  induction fs with
  | nil => intro h; simp at h
  | cons fld rest ih =>
    intro hany f c vs c' h
    cases f with
    | zero => simp [evalFields] at h
    | succ f' =>
      simp only [evalFields] at h
      obtain ⟨v, c1, h1, h2⟩ := Res.bind_eq_ok h
      obtain ⟨vs2, c2, h3, h4⟩ := Res.bind_eq_ok h2
      cases h4
      have srest := ((eval_adv a p f').2.2.2.2 rest c1 vs2 c' h3).remaining_le
      -- the first field advances
      have sfirst : c1.remaining ≤ c.remaining := by
        cases fld with
        | plain nm fd => exact ((eval_adv a p f').2.2.1 fd c v c1 h1).remaining_le
        | optional nm ty =>
          simp only at h1
          obtain ⟨m, cm, h5, h6⟩ := Res.bind_eq_ok h1
          have a1 := (readU32_adv h5).remaining_le
          split at h6
          · cases h6; exact a1
          · split at h6
            · obtain ⟨v3, c3, h7, h8⟩ := Res.bind_eq_ok h6
              cases h8
              have a2 := ((eval_adv a p f').1 ty cm v3 c3 h7).remaining_le
              simp only [Cur.addLog, Cur.remaining] at *
              omega
            · cases h6
      simp only [List.any_cons, Bool.or_eq_true] at hany
      rcases hany with hfst | hrest
      · have : c1.remaining + 4 ≤ c.remaining := by
          cases fld with
          | plain nm fd => exact field_consumes a p rec hrec (by simpa [StructFieldDec.sureWith] using hfst) h1
          | optional nm ty =>
            simp only at h1
            obtain ⟨m, cm, h5, h6⟩ := Res.bind_eq_ok h1
            have a1 := readU32_consumes' h5
            split at h6
            · cases h6; exact a1
            · split at h6
              · obtain ⟨v3, c3, h7, h8⟩ := Res.bind_eq_ok h6
                cases h8
                have a2 := ((eval_adv a p f').1 ty cm v3 c3 h7).remaining_le
                simp only [Cur.addLog, Cur.remaining] at *
                omega
              · cases h6
        omega
      · have := ih hrest h3
        omega

theorem body_consumes {n : String} {i : Impl} (hfi : p.findImpl n = some i) (hb : i.body.sureWith rec = true)
    {f : Nat} {c : Cur} {v : Val} {c' : Cur} (h : evalImpl a p f n c = .ok v c') : c'.remaining + 4 ≤ c.remaining := by
  cases f with
  | zero => simp [evalImpl] at h
  | succ f' =>
    simp only [evalImpl, hfi] at h
    cases hbody : i.body with
    | struct fs =>
      simp only [hbody] at h hb
      obtain ⟨vs, c1, h1, h2⟩ := Res.bind_eq_ok h
      cases h2
      exact fields_consume a p rec hrec fs hb h1
    | union u =>
      simp only [hbody] at h hb
      obtain ⟨d, c1, h1, h2⟩ := Res.bind_eq_ok h
      have s1 := basic_consumes a p rec hrec hb h1
      split at h2
      · split at h2
        · obtain ⟨v2, c2, h3, h4⟩ := Res.bind_eq_ok h2
          cases h4
          have := ((eval_adv a p f').2.2.1 _ _ _ _ h3).remaining_le; omega
        · cases h2; exact s1
      · split at h2
        · obtain ⟨v2, c2, h3, h4⟩ := Res.bind_eq_ok h2
          cases h4
          have := ((eval_adv a p f').2.2.1 _ _ _ _ h3).remaining_le; omega
        · cases h2
        · cases h2
    | enum arms =>
      simp only [hbody] at h
      obtain ⟨x, c1, h1, h2⟩ := Res.bind_eq_ok h
      obtain ⟨y, h3, _⟩ := Res.map_eq_ok h1
      have := readU32_consumes' h3
      split at h2
      · cases h2; exact this
      · cases h2
    | typedef fd =>
      simp only [hbody] at h hb
      obtain ⟨v2, c1, h1, h2⟩ := Res.bind_eq_ok h
      cases h2
      exact field_consumes a p rec hrec hb h1

end sure

/-- a decoder the check `Plans.sure` accepts consumes at least one word whenever it succeeds -/
theorem sure_consumes (a : Ast) (p : Plans) : ∀ (g : Nat) (n : String), p.sure g n = true →
    ∀ f c v c', evalImpl a p f n c = .ok v c' → c'.remaining + 4 ≤ c.remaining := by
  intro g
  induction g with
  | zero => intro n h; simp [Plans.sure] at h
  | succ g ih =>
    intro n h f c v c' hev
    simp only [Plans.sure] at h
    cases hfi : p.findImpl n with
    | none => simp [hfi] at h
    | some i =>
      simp only [hfi] at h
      exact body_consumes a p (p.sure g) ih hfi h hev

/-! ### the total -/

def wt (l : List Ev) : Nat := (l.map Ev.weight).sum

@[simp] theorem wt_nil : wt [] = 0 := rfl
@[simp] theorem wt_append (a b : List Ev) : wt (a ++ b) = wt a + wt b := by simp [wt]
@[simp] theorem wt_singleton (e : Ev) : wt [e] = e.weight := by simp [wt]

/-- the new events of outcome `r` (from cursor `c`) weigh at most `B` per byte consumed on success, `B` per byte present on error -/
def TotB {α} (B : Nat) (c : Cur) (r : Res α) : Prop :=
  match r with
  | .ok _ c' => c'.remaining ≤ c.remaining ∧ ∃ new, c'.log = c.log ++ new ∧ wt new ≤ B * (c.remaining - c'.remaining)
  | .err _ l => ∃ new, l = c.log ++ new ∧ wt new ≤ B * c.remaining
  | _ => True

/-- no events at all -/
def Quiet {α} (c : Cur) (r : Res α) : Prop :=
  match r with
  | .ok _ c' => c'.remaining ≤ c.remaining ∧ c'.log = c.log
  | .err _ l => l = c.log
  | _ => True

theorem Quiet.totB {α} {c : Cur} {r : Res α} (h : Quiet c r) (B : Nat) : TotB B c r := by
  cases r with
  | ok v c' => exact ⟨h.1, [], by simp [h.2], by simp⟩
  | err e l => exact ⟨[], by simp [Quiet] at h; simp [h], by simp⟩
  | panic s => trivial
  | abort => trivial
  | outOfFuel => trivial

theorem TotB.mono {α} {B B' : Nat} {c : Cur} {r : Res α} (h : TotB B c r) (hB : B ≤ B') : TotB B' c r := by
  cases r with
  | ok v c' =>
    obtain ⟨h1, new, h2, h3⟩ := h
    exact ⟨h1, new, h2, Nat.le_trans h3 (Nat.mul_le_mul_right _ hB)⟩
  | err e l =>
    obtain ⟨new, h2, h3⟩ := h
    exact ⟨new, h2, Nat.le_trans h3 (Nat.mul_le_mul_right _ hB)⟩
  | panic s => trivial
  | abort => trivial
  | outOfFuel => trivial

theorem mul_sub_add (B r r1 r2 : Nat) (h1 : r1 ≤ r) (h2 : r2 ≤ r1) : B * (r - r1) + B * (r1 - r2) = B * (r - r2) := by
  rw [← Nat.mul_add]; congr 1; omega

theorem TotB.bind {α β} {B : Nat} {c : Cur} {r : Res α} {k : α → Cur → Res β} (h1 : TotB B c r)
    (h2 : ∀ v c1, r = .ok v c1 → TotB B c1 (k v c1)) : TotB B c (r.bind k) := by
  cases r with
  | ok v c1 =>
    obtain ⟨hr1, n1, hl1, hw1⟩ := h1
    have hk := h2 v c1 rfl
    simp only [Res.bind_ok]
    cases hkr : k v c1 with
    | ok w c2 =>
      rw [hkr] at hk
      obtain ⟨hr2, n2, hl2, hw2⟩ := hk
      refine ⟨by omega, n1 ++ n2, by rw [hl2, hl1, List.append_assoc], ?_⟩
      rw [wt_append, ← mul_sub_add B c.remaining c1.remaining c2.remaining hr1 hr2]
      omega
    | err e l =>
      rw [hkr] at hk
      obtain ⟨n2, hl2, hw2⟩ := hk
      refine ⟨n1 ++ n2, by rw [hl2, hl1, List.append_assoc], ?_⟩
      rw [wt_append]
      have : B * (c.remaining - c1.remaining) + B * c1.remaining = B * c.remaining := by
        rw [← Nat.mul_add]; congr 1; omega
      omega
    | panic s => trivial
    | abort => trivial
    | outOfFuel => trivial
  | err e l => exact h1
  | panic s => trivial
  | abort => trivial
  | outOfFuel => trivial

theorem TotB.pure {α} (B : Nat) (c : Cur) (v : α) : TotB B c (Res.ok v c) :=
  ⟨Nat.le_refl _, [], by simp, by simp⟩

theorem Quiet.bind {α β} {c : Cur} {r : Res α} {k : α → Cur → Res β} (h1 : Quiet c r)
    (h2 : ∀ v c1, r = .ok v c1 → Quiet c1 (k v c1)) : Quiet c (r.bind k) := by
  cases r with
  | ok v c1 =>
    have hk := h2 v c1 rfl
    simp only [Res.bind_ok]
    cases hkr : k v c1 with
    | ok w c2 => rw [hkr] at hk; exact ⟨Nat.le_trans hk.1 h1.1, by rw [hk.2, h1.2]⟩
    | err e l => rw [hkr] at hk; simp only [Quiet] at hk h1 ⊢; rw [hk, h1.2]
    | panic s => trivial
    | abort => trivial
    | outOfFuel => trivial
  | err e l => exact h1
  | panic s => trivial
  | abort => trivial
  | outOfFuel => trivial

theorem Quiet.map {α β} {c : Cur} {r : Res α} (g : α → β) (h : Quiet c r) : Quiet c (r.map g) :=
  Quiet.bind h (fun v c1 _ => ⟨Nat.le_refl _, rfl⟩)

theorem readU32_quiet (c : Cur) : Quiet c (readU32 c) := by
  cases hr : readU32 c with
  | ok n c' =>
    obtain ⟨e, _, _, _⟩ := readU32_ok hr
    subst e; exact ⟨by simp [Cur.remaining], rfl⟩
  | err e l =>
    unfold readU32 at hr
    split at hr
    · cases hr; rfl
    · unfold getU32P at hr; split at hr <;> cases hr
  | panic s => trivial
  | abort => trivial
  | outOfFuel => trivial

theorem readU64_quiet (c : Cur) : Quiet c (readU64 c) := by
  cases hr : readU64 c with
  | ok n c' =>
    obtain ⟨e, _⟩ := readU64_ok hr
    subst e; exact ⟨by simp [Cur.remaining], rfl⟩
  | err e l =>
    unfold readU64 at hr
    split at hr
    · cases hr; rfl
    · unfold getU64P at hr; split at hr <;> cases hr
  | panic s => trivial
  | abort => trivial
  | outOfFuel => trivial

theorem readI32_quiet (c : Cur) : Quiet c (readI32 c) := Quiet.map _ (readU32_quiet c)
theorem readI64_quiet (c : Cur) : Quiet c (readI64 c) := Quiet.map _ (readU64_quiet c)

theorem readBool_quiet (c : Cur) : Quiet c (readBool c) := by
  refine Quiet.bind (readI32_quiet c) (fun i c1 _ => ?_)
  split
  · exact ⟨Nat.le_refl _, rfl⟩
  · split
    · exact ⟨Nat.le_refl _, rfl⟩
    · rfl

theorem readBytes_quiet (n : Nat) (c : Cur) : Quiet c (readBytes n c) := by
  by_cases h : c.remaining < n + padLen n
  · rw [readBytes_short n c h]; rfl
  · rw [readBytes_enough n c (by omega)]; exact ⟨by simp [Cur.remaining], rfl⟩

theorem readVariableBytes_quiet (m : Option Nat) (c : Cur) : Quiet c (readVariableBytes m c) := by
  refine Quiet.bind (readU32_quiet c) (fun n c1 _ => ?_)
  split
  · rfl
  · exact readBytes_quiet n c1

theorem readPrim_quiet (pr : Prim) (c : Cur) : Quiet c (readPrim pr c) := by
  cases pr <;> simp only [readPrim]
  · exact Quiet.map _ (readU32_quiet c)
  · exact Quiet.map _ (readU64_quiet c)
  · exact Quiet.map _ (readI32_quiet c)
  · exact Quiet.map _ (readI64_quiet c)
  · exact Quiet.map _ (readU32_quiet c)
  · exact Quiet.map _ (readU64_quiet c)
  · exact Quiet.map _ (readBool_quiet c)

/-- a string copies its payload once: one event, paid by the bytes of the string -/
theorem readString_totB (m : Option Nat) (c : Cur) : TotB 1 c (readString m c) := by
  unfold readString
  cases hr : readVariableBytes m c with
  | ok b c1 =>
    have hq := readVariableBytes_quiet m c
    rw [hr] at hq
    obtain ⟨hrem, hlog⟩ := hq
    have hcons := readVariableBytes_consumes hr
    -- the payload fits in what was consumed
    have hlen : (payloadOf b).length + 4 ≤ c.remaining - c1.remaining + 4 ∧ (payloadOf b).length ≤ c.remaining - c1.remaining := by
      unfold readVariableBytes at hr
      obtain ⟨n, c0, h1, h2⟩ := Res.bind_eq_ok hr
      split at h2
      · cases h2
      · obtain ⟨e, l4, _, _⟩ := readU32_ok h1
        obtain ⟨hl, hv, hc⟩ := readBytes_ok h2
        subst e; subst hv; subst hc
        simp only [payloadOf, List.length_take, Cur.advance_data, List.length_drop, Cur.remaining] at *
        omega
    simp only [Res.bind_ok]
    split
    · refine ⟨by simpa [Cur.addLog, Cur.remaining] using hrem, [.str (payloadOf b).length], by simp [Cur.addLog, hlog], ?_⟩
      simp only [wt_singleton, Ev.weight, Cur.addLog, Cur.remaining] at *
      omega
    · refine ⟨[.str (payloadOf b).length], by simp [Cur.addLog, hlog], ?_⟩
      simp only [wt_singleton, Ev.weight, Cur.remaining] at *
      omega
  | err e l =>
    have hq := readVariableBytes_quiet m c
    rw [hr] at hq
    exact Quiet.totB (r := (Res.err e l : Res Val)) hq 1
  | panic s => trivial
  | abort => trivial
  | outOfFuel => trivial

/-- the element loop -/
theorem arrLoop_totB (dec : Cur → Res Val) (ws : Val → Nat) (B : Nat)
    (hT : ∀ c, TotB B c (dec c))
    (hx : ∀ c t ct, dec c = .ok t ct → ws t ≤ c.remaining ∧ ct.remaining = c.remaining - ws t ∧ 4 ≤ ws t) :
    ∀ (k : Nat) (c : Cur) (sum : Nat) (acc : Vals),
      match arrLoop dec ws k c sum acc with
      | .ok _ c3 => c3.remaining ≤ c.remaining ∧ 4 * k ≤ c.remaining - c3.remaining ∧
          ∃ new, c3.log = c.log ++ new ∧ wt new ≤ B * (c.remaining - c3.remaining)
      | .err _ l => ∃ new, l = c.log ++ new ∧ wt new ≤ B * c.remaining
      | _ => True := by
  intro k
  induction k with
  | zero => intro c sum acc; simp only [arrLoop]; exact ⟨Nat.le_refl _, by omega, [], by simp, by simp⟩
  | succ k ih =>
    intro c sum acc
    simp only [arrLoop]
    have hdc := hT c
    cases hdec : dec c with
    | ok t ct =>
      rw [hdec] at hdc
      obtain ⟨hr1, n1, hl1, hw1⟩ := hdc
      obtain ⟨hle, hrem, h4⟩ := hx c t ct hdec
      simp only
      have hnot : ¬ c.remaining < ws t := by omega
      simp only [hnot, if_false]
      have hnext := ih { c.advance (ws t) with log := ct.log } (sum + ws t) (acc.snoc t)
      have hrn : ({ c.advance (ws t) with log := ct.log } : Cur).remaining = ct.remaining := by
        simp [Cur.remaining, Cur.advance] at *; omega
      cases hres : arrLoop dec ws k { c.advance (ws t) with log := ct.log } (sum + ws t) (acc.snoc t) with
      | ok r c3 =>
        rw [hres] at hnext
        obtain ⟨hr3, hk, n2, hl2, hw2⟩ := hnext
        rw [hrn] at hr3 hk hw2
        refine ⟨by omega, by omega, n1 ++ n2, by simp only at hl2; rw [hl2, hl1, List.append_assoc], ?_⟩
        rw [wt_append, ← mul_sub_add B c.remaining ct.remaining c3.remaining hr1 hr3]
        omega
      | err e l =>
        rw [hres] at hnext
        obtain ⟨n2, hl2, hw2⟩ := hnext
        rw [hrn] at hw2
        refine ⟨n1 ++ n2, by simp only at hl2; rw [hl2, hl1, List.append_assoc], ?_⟩
        rw [wt_append]
        have : B * (c.remaining - ct.remaining) + B * ct.remaining = B * c.remaining := by
          rw [← Nat.mul_add]; congr 1; omega
        omega
      | panic s => trivial
      | abort => trivial
      | outOfFuel => trivial
    | err e l => rw [hdec] at hdc; exact hdc
    | panic s => trivial
    | abort => trivial
    | outOfFuel => trivial

/-- `read_variable_array`: the reservation is paid by the elements it is for (success) or by the bytes present (failure) -/
theorem readVariableArray_totB (dec : Cur → Res Val) (ws : Val → Nat) (m : Option Nat) (B : Nat)
    (hT : ∀ c, TotB B c (dec c))
    (hx : ∀ c t ct, dec c = .ok t ct → ws t ≤ c.remaining ∧ ct.remaining = c.remaining - ws t ∧ 4 ≤ ws t) (c : Cur) :
    TotB (B + 1) c (readVariableArray dec ws m c) := by
  unfold readVariableArray
  refine TotB.bind ((readU32_quiet c).totB _) (fun n c1 h1 => ?_)
  split
  · exact Quiet.totB (r := (Res.err .invalidLength c1.log : Res Val)) rfl _
  · dsimp only
    have hloop := arrLoop_totB dec ws B hT hx n (c1.addLog (.vec (min n c1.remaining))) 0 .nil
    have hrem : (c1.addLog (.vec (min n c1.remaining))).remaining = c1.remaining := rfl
    have hlog : (c1.addLog (.vec (min n c1.remaining))).log = c1.log ++ [.vec (min n c1.remaining)] := rfl
    cases hl2 : arrLoop dec ws n (c1.addLog (.vec (min n c1.remaining))) 0 .nil with
    | ok r c3 =>
      rw [hl2] at hloop
      obtain ⟨hr3, hk, n2, hlg, hw2⟩ := hloop
      rw [hrem] at hr3 hk hw2
      rw [hlog] at hlg
      obtain ⟨out, sum⟩ := r
      simp only [Res.bind_ok]
      have hres : min n c1.remaining ≤ c1.remaining - c3.remaining := by
        have := Nat.min_le_left n c1.remaining; omega
      by_cases hp : c3.remaining < padLen sum
      · -- the trailing padding is missing
        simp only [hp, if_true, TotB]
        refine ⟨[.vec (min n c1.remaining)] ++ n2, by rw [hlg, List.append_assoc], ?_⟩
        rw [wt_append, wt_singleton]
        simp only [Ev.weight]
        have h5 : B * (c1.remaining - c3.remaining) ≤ B * c1.remaining := Nat.mul_le_mul_left _ (Nat.sub_le _ _)
        have h6 : (B + 1) * c1.remaining = B * c1.remaining + c1.remaining := by rw [Nat.add_mul]; omega
        omega
      · simp only [hp, if_false, advanceP, Res.bind_ok, TotB]
        have h7 : (c3.advance (padLen sum)).remaining ≤ c3.remaining := by simp [Cur.remaining, Cur.advance]
        refine ⟨by omega, [.vec (min n c1.remaining)] ++ n2, by simp [Cur.advance, hlg], ?_⟩
        rw [wt_append, wt_singleton]
        simp only [Ev.weight]
        have h5 : B * (c1.remaining - c3.remaining) ≤ B * (c1.remaining - (c3.advance (padLen sum)).remaining) :=
          Nat.mul_le_mul_left _ (by omega)
        have h6 : (B + 1) * (c1.remaining - (c3.advance (padLen sum)).remaining) =
            B * (c1.remaining - (c3.advance (padLen sum)).remaining) + (c1.remaining - (c3.advance (padLen sum)).remaining) := by
          rw [Nat.add_mul]; omega
        omega
    | err e l =>
      rw [hl2] at hloop
      obtain ⟨n2, hlg, hw2⟩ := hloop
      rw [hrem] at hw2
      rw [hlog] at hlg
      simp only [Res.bind_err, TotB]
      refine ⟨[.vec (min n c1.remaining)] ++ n2, by rw [hlg, List.append_assoc], ?_⟩
      rw [wt_append, wt_singleton]
      simp only [Ev.weight]
      have := Nat.min_le_right n c1.remaining
      have h6 : (B + 1) * c1.remaining = B * c1.remaining + c1.remaining := by rw [Nat.add_mul]; omega
      omega
    | panic s => simp [TotB, Res.bind]
    | abort => simp [TotB, Res.bind]
    | outOfFuel => simp [TotB, Res.bind]

/-- an optional field: marker, then (if 1) the boxed value — the `Box` is paid by the four bytes of the marker -/
theorem optional_totB (a : Ast) (p : Plans) (f : Nat) (ty : String) (c : Cur)
    (hI : ∀ c, TotB f c (evalImpl a p f ty c)) :
    TotB (f + 1) c ((readU32 c).bind fun m c1 =>
      if m = 0 then Res.ok Val.none c1
      else if m = 1 then (evalImpl a p f ty c1).bind fun v c2 => Res.ok (Val.some v) (c2.addLog .box)
      else Res.err (.unknownOptionVariant m) c1.log) := by
  cases hr : readU32 c with
  | ok m c1 =>
    have hq := readU32_quiet c
    rw [hr] at hq
    obtain ⟨_, hlog⟩ := hq
    have h4 := readU32_consumes' hr
    simp only [Res.bind_ok]
    by_cases h0 : m = 0
    · simp only [h0, if_true, TotB]
      exact ⟨by omega, [], by simp [hlog], by simp⟩
    · by_cases h1 : m = 1
      · simp only [h1, if_true]
        have hi := hI c1
        cases hev : evalImpl a p f ty c1 with
        | ok v c2 =>
          rw [hev] at hi
          obtain ⟨hr2, new, hl2, hw⟩ := hi
          simp only [Res.bind_ok, TotB]
          refine ⟨by simp [Cur.addLog, Cur.remaining] at *; omega, new ++ [.box], by simp [Cur.addLog, hl2, hlog], ?_⟩
          rw [wt_append, wt_singleton]
          simp only [Ev.weight]
          have hrem : (c2.addLog .box).remaining = c2.remaining := rfl
          rw [hrem]
          have hmono : (f + 1) * ((c1.remaining - c2.remaining) + 4) ≤ (f + 1) * (c.remaining - c2.remaining) :=
            Nat.mul_le_mul_left _ (by omega)
          have hexp : (f + 1) * ((c1.remaining - c2.remaining) + 4) =
              f * (c1.remaining - c2.remaining) + ((c1.remaining - c2.remaining) + 4 * f + 4) := by
            rw [Nat.add_mul, Nat.mul_add, Nat.mul_add]; omega
          omega
        | err e l =>
          rw [hev] at hi
          obtain ⟨new, hl2, hw⟩ := hi
          simp only [Res.bind_err, TotB]
          refine ⟨new, by rw [hl2, hlog], ?_⟩
          have : f * c1.remaining ≤ (f + 1) * c.remaining :=
            Nat.mul_le_mul (by omega) (by omega)
          omega
        | panic s => simp [TotB, Res.bind]
        | abort => simp [TotB, Res.bind]
        | outOfFuel => simp [TotB, Res.bind]
      · simp only [h0, h1, if_false, TotB]
        exact ⟨[], by simp [hlog], by simp⟩
  | err e l =>
    have hq := readU32_quiet c
    rw [hr] at hq
    simp only [Res.bind_err]
    exact Quiet.totB (r := (Res.err e l : Res Val)) hq _
  | panic s => simp [TotB, Res.bind]
  | abort => simp [TotB, Res.bind]
  | outOfFuel => simp [TotB, Res.bind]

def FieldDec.elemsOk (p : Plans) (fd : FieldDec) : Prop := ∀ ty ∈ fd.elemTypes, p.sure (p.impls.length + 1) ty = true

def StructFieldDec.elemsOk (p : Plans) : StructFieldDec → Prop
  | .plain _ fd => fd.elemsOk p
  | .optional _ _ => True

/-- **the total**: with exact size impls and array elements that consume input, the events of every evaluator at recursion
    budget `f` weigh at most `f` per byte consumed (success) or per byte present (failure) -/
theorem eval_total (a : Ast) (p : Plans) (hp : p.SizeExact' = true) (hs : p.elemsSure = true) (f : Nat) :
    (∀ n c, TotB f c (evalImpl a p f n c)) ∧
    (∀ b c, TotB f c (evalBasic a p f b c)) ∧
    (∀ fd c, fd.elemsOk p → TotB f c (evalField a p f fd c)) ∧
    (∀ k b c, TotB f c (evalRepeat a p f k b c)) ∧
    (∀ fs c, (∀ fld ∈ fs, fld.elemsOk p) → TotB f c (evalFields a p f fs c)) := by
  induction f with
  | zero =>
    refine ⟨?_, ?_, ?_, ?_, ?_⟩ <;> intros <;> simp [evalImpl, evalBasic, evalField, evalRepeat, evalFields, TotB]
  | succ f ih =>
    obtain ⟨ihI, ihB, ihF, ihR, ihFs⟩ := ih
    have up : ∀ {α} {c : Cur} {r : Res α}, TotB f c r → TotB (f + 1) c r := fun h => h.mono (Nat.le_succ _)
    have hcons := (eval_consumed a p hp f).1
    refine ⟨?_, ?_, ?_, ?_, ?_⟩
    · intro n c
      simp only [evalImpl]
      cases hfi : p.findImpl n with
      | none => simp [TotB]
      | some i =>
        have hmem : i ∈ p.impls := List.mem_of_find?_eq_some (by simpa [Plans.findImpl] using hfi)
        have helems : ∀ ty ∈ i.body.elemTypes, p.sure (p.impls.length + 1) ty = true := by
          simp only [Plans.elemsSure, List.all_eq_true] at hs
          exact hs i hmem
        simp only
        cases hb : i.body with
        | struct fs =>
          simp only
          refine TotB.bind (up (ihFs fs c ?_)) (fun vs c1 _ => TotB.pure _ _ _)
          intro fld hfld
          cases fld with
          | plain nm fd =>
            intro ty hty
            exact helems ty (by rw [hb]; simp only [ImplBody.elemTypes, List.mem_flatMap]; exact ⟨_, hfld, hty⟩)
          | optional nm ty => trivial
        | union u =>
          simp only
          refine TotB.bind (up (ihB u.disc c)) (fun d c1 _ => ?_)
          cases hsel : selectArm a d u.arms with
          | some arm =>
            simp only
            cases hpl : arm.payload with
            | some fd =>
              simp only
              refine TotB.bind (up (ihF fd c1 ?_)) (fun v c2 _ => TotB.pure _ _ _)
              intro ty hty
              have harm : arm ∈ u.arms := selectArm_mem a d u.arms arm hsel
              refine helems ty ?_
              rw [hb]; simp only [ImplBody.elemTypes, List.mem_append, List.mem_flatMap]
              exact Or.inl ⟨arm, harm, by simp [hpl, hty]⟩
            | none => simp only; exact TotB.pure _ _ _
          | none =>
            simp only
            cases ht : u.tail with
            | defaultData fd =>
              simp only
              refine TotB.bind (up (ihF fd c1 ?_)) (fun v c2 _ => TotB.pure _ _ _)
              intro ty hty
              refine helems ty ?_
              rw [hb]; simp only [ImplBody.elemTypes, List.mem_append]
              exact Or.inr (by simp [ht, hty])
            | errUnknown => simp only [TotB]; exact ⟨[], by simp, by simp⟩
            | none => simp [TotB]
        | enum arms =>
          simp only
          refine Quiet.totB (Quiet.bind (readI32_quiet c) (fun x c1 _ => ?_)) _
          split
          · exact ⟨Nat.le_refl _, rfl⟩
          · rfl
        | typedef fd =>
          simp only
          refine TotB.bind (up (ihF fd c ?_)) (fun v c1 _ => TotB.pure _ _ _)
          intro ty hty
          exact helems ty (by rw [hb]; exact hty)
    · intro b c
      cases b with
      | prim pr => simp only [evalBasic]; exact (readPrim_quiet pr c).totB _
      | string => simp only [evalBasic]; exact (readString_totB none c).mono (by omega)
      | «opaque» => simp only [evalBasic]; exact (readVariableBytes_quiet none c).totB _
      | tryFrom n => simp only [evalBasic]; exact up (ihI n c)
    · intro fd c hfd
      cases fd with
      | one b => simp only [evalField]; exact up (ihB b c)
      | fixedBytes n => simp only [evalField]; exact (readBytes_quiet n c).totB _
      | fixedArr k b =>
        simp only [evalField]
        exact TotB.bind (up (ihR k b c)) (fun vs c1 _ => TotB.pure _ _ _)
      | varBytes m => simp only [evalField]; exact (readVariableBytes_quiet m c).totB _
      | varString m => simp only [evalField]; exact (readString_totB m c).mono (by omega)
      | varArr ty g m =>
        simp only [evalField]
        have hsure : p.sure (p.impls.length + 1) ty = true := hfd ty (by simp [FieldDec.elemTypes])
        refine readVariableArray_totB (evalImpl a p f ty) (wsVal p) m f (ihI ty) ?_ c
        intro c0 t ct hdec
        obtain ⟨hle, hoff, hdata, _⟩ := hcons ty c0 t ct hdec
        have h4 := sure_consumes a p _ ty hsure f c0 t ct hdec
        have hrem : ct.remaining = c0.remaining - wsVal p t := by simp [Cur.remaining, hdata]
        exact ⟨hle, hrem, by omega⟩
    · intro k b c
      cases k with
      | zero => simp only [evalRepeat]; exact TotB.pure _ _ _
      | succ k =>
        simp only [evalRepeat]
        exact TotB.bind (up (ihB b c)) (fun v c1 _ => TotB.bind (up (ihR k b c1)) (fun vs c2 _ => TotB.pure _ _ _))
    · intro fs c hfs
      cases fs with
      | nil => simp only [evalFields]; exact TotB.pure _ _ _
      | cons fld rest =>
        simp only [evalFields]
        have hrest : ∀ x ∈ rest, x.elemsOk p := fun x hx => hfs x (List.mem_cons_of_mem _ hx)
        refine TotB.bind ?_ (fun v c1 _ => TotB.bind (up (ihFs rest c1 hrest)) (fun vs c2 _ => TotB.pure _ _ _))
        cases fld with
        | plain nm fd => exact up (ihF fd c (hfs _ List.mem_cons_self))
        | optional nm ty => exact optional_totB a p f ty c (ihI ty)

end Fx
