/-
  Fx.Lemmas.Limits — what a declared maximum does, for all inputs.

  `Plans.eraseMax` is the same module with every `Some(max)` argument of `read_variable_bytes`, `read_string` and
  `read_variable_array` replaced by `None`.  `limits_only_reject`: on EVERY input, at every budget, the decoder with the
  maxima either behaves exactly like the one without them (same value, same cursor, same error, same allocation log), or
  it returns `Err(Error::InvalidLength)`.  A declared maximum has no other effect: it cannot change a value, move the cursor,
  or produce another error kind.  Together with `decode_sound` (whatever is accepted lies within the declared maxima)
  this gives the error kind of C05 at specification level: an input that the unbounded decoder accepts but that is not the
  encoding of a value within the declared maxima is rejected, and the rejection is `InvalidLength`.
-/
import Fx.Eval
import Fx.Lemmas.Runtime
namespace Fx

/-! ### erasing the maxima -/

def FieldDec.eraseMax : FieldDec → FieldDec
  | .varBytes _ => .varBytes none
  | .varString _ => .varString none
  | .varArr ty g _ => .varArr ty g none
  | fd => fd

def StructFieldDec.eraseMax : StructFieldDec → StructFieldDec
  | .plain n fd => .plain n fd.eraseMax
  | f => f

def Arm.eraseMax (a : Arm) : Arm := { a with payload := a.payload.map FieldDec.eraseMax }

def Tail.eraseMax : Tail → Tail
  | .defaultData fd => .defaultData fd.eraseMax
  | t => t

def ImplBody.eraseMax : ImplBody → ImplBody
  | .struct fs => .struct (fs.map StructFieldDec.eraseMax)
  | .union u => .union { u with arms := u.arms.map Arm.eraseMax, tail := u.tail.eraseMax }
  | .enum arms => .enum arms
  | .typedef fd => .typedef fd.eraseMax

def Impl.eraseMax (i : Impl) : Impl := { i with body := i.body.eraseMax }

/-- the same decoders with every declared maximum removed (the size impls are untouched) -/
def Plans.eraseMax (p : Plans) : Plans := ⟨p.impls.map Impl.eraseMax, p.sizes⟩

theorem find_map_eraseMax (n : String) : ∀ (is : List Impl),
    (is.map Impl.eraseMax).find? (·.name == n) = (is.find? (·.name == n)).map Impl.eraseMax
  | [] => rfl
  | i :: rest => by
    simp only [List.map_cons, List.find?_cons]
    have : (Impl.eraseMax i).name = i.name := rfl
    rw [this]
    cases i.name == n with
    | true => rfl
    | false => exact find_map_eraseMax n rest

theorem Plans.findImpl_eraseMax (p : Plans) (n : String) : p.eraseMax.findImpl n = (p.findImpl n).map Impl.eraseMax :=
  find_map_eraseMax n p.impls

/-! ### sizes do not see the decoders -/

mutual
theorem wsVal_sizes (p q : Plans) (h : q.sizes = p.sizes) : ∀ (v : Val), wsVal q v = wsVal p v
  | .bytes off bs => by simp [wsVal]
  | .vec xs => by simp only [wsVal, wsSum_sizes p q h xs]
  | .arr xs => by simp only [wsVal, wsSum_sizes p q h xs]
  | .some v => by simp only [wsVal, wsVal_sizes p q h v]
  | .struct n fn fs => by
    simp only [wsVal, Plans.findSize, h]
    cases hfs : p.sizes.find? (·.name == n) with
    | none => rfl
    | some si =>
      obtain ⟨a, b, body⟩ := si
      cases body with
      | struct sfs => simp only [wsFields_sizes p q h fs sfs]
      | union _ => rfl
      | enum => rfl
      | typedef _ _ => rfl
  | .tuple t x v => by simp only [wsVal, Plans.findSize, h, wsVal_sizes p q h v]
  | .newtype n v => by simp only [wsVal, Plans.findSize, h, wsVal_sizes p q h v]
  | .u32 _ => rfl | .u64 _ => rfl | .i32 _ => rfl | .i64 _ => rfl
  | .f32 _ => rfl | .f64 _ => rfl | .bool _ => rfl | .str _ => rfl
  | .none => rfl | .unit _ _ => rfl | .cenum _ _ => rfl
theorem wsSum_sizes (p q : Plans) (h : q.sizes = p.sizes) : ∀ (vs : Vals), wsSum q vs = wsSum p vs
  | .nil => rfl
  | .cons v vs => by simp only [wsSum, wsVal_sizes p q h v, wsSum_sizes p q h vs]
theorem wsFields_sizes (p q : Plans) (h : q.sizes = p.sizes) : ∀ (vs : Vals) (sfs : List SizeField), wsFields q sfs vs = wsFields p sfs vs
  | .nil, sfs => by cases sfs <;> simp [wsFields]
  | .cons v vs, [] => by simp only [wsFields, wsVal_sizes p q h v, wsFields_sizes p q h vs []]
  | .cons v vs, f :: rest => by simp only [wsFields, wsVal_sizes p q h v, wsFields_sizes p q h vs rest]
end

theorem wsVal_eraseMax (p : Plans) : wsVal p.eraseMax = wsVal p := funext (wsVal_sizes p p.eraseMax rfl)

/-! ### the relation: identical, or `InvalidLength` -/

/-- `r` (with maxima) against `r'` (without): the same outcome in every respect, or `Err(InvalidLength)` -/
def LimRel {α} (r r' : Res α) : Prop := r = r' ∨ ∃ l, r = .err .invalidLength l

theorem LimRel.refl {α} (r : Res α) : LimRel r r := Or.inl rfl

theorem LimRel.bind {α β} {r r' : Res α} {k k' : α → Cur → Res β} (h : LimRel r r') (hk : ∀ v c, LimRel (k v c) (k' v c)) :
    LimRel (r.bind k) (r'.bind k') := by
  rcases h with rfl | ⟨l, rfl⟩
  · cases r with
    | ok v c => exact hk v c
    | err e l => exact Or.inl rfl
    | panic s => exact Or.inl rfl
    | abort => exact Or.inl rfl
    | outOfFuel => exact Or.inl rfl
  · exact Or.inr ⟨l, rfl⟩

theorem readVariableBytes_lim (m : Option Nat) (c : Cur) : LimRel (readVariableBytes m c) (readVariableBytes none c) := by
  unfold readVariableBytes
  refine LimRel.bind (LimRel.refl _) (fun n c1 => ?_)
  cases h : overLimit m n with
  | true => exact Or.inr ⟨c1.log, by simp⟩
  | false => simp only [overLimit]; exact Or.inl (by simp)

theorem readString_lim (m : Option Nat) (c : Cur) : LimRel (readString m c) (readString none c) := by
  unfold readString
  exact LimRel.bind (readVariableBytes_lim m c) (fun _ _ => LimRel.refl _)

theorem arrLoop_lim (dec dec' : Cur → Res Val) (ws : Val → Nat) (hd : ∀ c, LimRel (dec c) (dec' c)) :
    ∀ (k : Nat) (c : Cur) (sum : Nat) (acc : Vals), LimRel (arrLoop dec ws k c sum acc) (arrLoop dec' ws k c sum acc) := by
  intro k
  induction k with
  | zero => intro c sum acc; exact LimRel.refl _
  | succ k ih =>
    intro c sum acc
    simp only [arrLoop]
    rcases hd c with heq | ⟨l, hl⟩
    · rw [heq]
      cases dec' c with
      | ok t c' =>
        simp only
        split
        · exact LimRel.refl _
        · exact ih _ _ _
      | err e l => exact LimRel.refl _
      | panic s => exact LimRel.refl _
      | abort => exact LimRel.refl _
      | outOfFuel => exact LimRel.refl _
    · rw [hl]
      exact Or.inr ⟨l, rfl⟩

theorem readVariableArray_lim (dec dec' : Cur → Res Val) (ws : Val → Nat) (hd : ∀ c, LimRel (dec c) (dec' c)) (m : Option Nat) (c : Cur) :
    LimRel (readVariableArray dec ws m c) (readVariableArray dec' ws none c) := by
  unfold readVariableArray
  refine LimRel.bind (LimRel.refl _) (fun n c1 => ?_)
  cases h : overLimit m n with
  | true => exact Or.inr ⟨c1.log, by simp⟩
  | false =>
    simp only [overLimit, Bool.false_eq_true, if_false]
    exact LimRel.bind (arrLoop_lim dec dec' ws hd n _ 0 .nil) (fun _ _ => LimRel.refl _)

theorem selectArm_eraseMax (a : Ast) (d : Val) : ∀ (arms : List Arm),
    selectArm a d (arms.map Arm.eraseMax) = (selectArm a d arms).map Arm.eraseMax
  | [] => rfl
  | arm :: rest => by
    simp only [List.map_cons, selectArm]
    have : (Arm.eraseMax arm).pat = arm.pat := rfl
    rw [this]
    split
    · rfl
    · exact selectArm_eraseMax a d rest

theorem fieldNameOf_eraseMax (f : StructFieldDec) : fieldNameOf f.eraseMax = fieldNameOf f := by
  cases f <;> rfl

/-! ### the simulation -/

theorem eval_lim (a : Ast) (p : Plans) (fuel : Nat) :
    (∀ name c, LimRel (evalImpl a p fuel name c) (evalImpl a p.eraseMax fuel name c)) ∧
    (∀ b c, LimRel (evalBasic a p fuel b c) (evalBasic a p.eraseMax fuel b c)) ∧
    (∀ fd c, LimRel (evalField a p fuel fd c) (evalField a p.eraseMax fuel fd.eraseMax c)) ∧
    (∀ k b c, LimRel (evalRepeat a p fuel k b c) (evalRepeat a p.eraseMax fuel k b c)) ∧
    (∀ fs c, LimRel (evalFields a p fuel fs c) (evalFields a p.eraseMax fuel (fs.map StructFieldDec.eraseMax) c)) := by
  induction fuel with
  | zero =>
    refine ⟨?_, ?_, ?_, ?_, ?_⟩ <;> intros <;> simp only [evalImpl, evalBasic, evalField, evalRepeat, evalFields] <;> exact LimRel.refl _
  | succ f ih =>
    obtain ⟨ihI, ihB, ihF, ihR, ihS⟩ := ih
    refine ⟨?_, ?_, ?_, ?_, ?_⟩
    · intro name c
      simp only [evalImpl, Plans.findImpl_eraseMax]
      cases hfi : p.findImpl name with
      | none => exact LimRel.refl _
      | some i =>
        simp only [Option.map_some, Impl.eraseMax]
        cases hb : i.body with
        | struct fs =>
          simp only [ImplBody.eraseMax]
          refine LimRel.bind (ihS fs c) (fun vs c' => ?_)
          have : (fs.map StructFieldDec.eraseMax).map fieldNameOf = fs.map fieldNameOf := by
            simp only [List.map_map]
            exact List.map_congr_left (fun x _ => fieldNameOf_eraseMax x)
          rw [this]
          exact LimRel.refl _
        | union u =>
          simp only [ImplBody.eraseMax]
          refine LimRel.bind (ihB u.disc c) (fun d c1 => ?_)
          rw [selectArm_eraseMax]
          cases hsel : selectArm a d u.arms with
          | some arm =>
            simp only [Option.map_some, Arm.eraseMax]
            cases hpl : arm.payload with
            | none => exact LimRel.refl _
            | some fd =>
              simp only [Option.map_some]
              exact LimRel.bind (ihF fd c1) (fun _ _ => LimRel.refl _)
          | none =>
            simp only [Option.map_none]
            cases htl : u.tail with
            | defaultData fd =>
              simp only [Tail.eraseMax]
              exact LimRel.bind (ihF fd c1) (fun _ _ => LimRel.refl _)
            | errUnknown => exact LimRel.refl _
            | none => exact LimRel.refl _
        | enum arms => exact LimRel.refl _
        | typedef fd =>
          simp only [ImplBody.eraseMax]
          exact LimRel.bind (ihF fd c) (fun _ _ => LimRel.refl _)
    · intro b c
      cases b with
      | prim pr => exact LimRel.refl _
      | string => exact LimRel.refl _
      | «opaque» => exact LimRel.refl _
      | tryFrom n => simp only [evalBasic]; exact ihI n c
    · intro fd c
      cases fd with
      | one b => simp only [evalField, FieldDec.eraseMax]; exact ihB b c
      | fixedBytes n => exact LimRel.refl _
      | fixedArr n b =>
        simp only [evalField, FieldDec.eraseMax]
        exact LimRel.bind (ihR n b c) (fun _ _ => LimRel.refl _)
      | varBytes m => simp only [evalField, FieldDec.eraseMax]; exact readVariableBytes_lim m c
      | varString m => simp only [evalField, FieldDec.eraseMax]; exact readString_lim m c
      | varArr ty g m =>
        simp only [evalField, FieldDec.eraseMax, wsVal_eraseMax]
        exact readVariableArray_lim _ _ _ (ihI ty) m c
    · intro k b c
      cases k with
      | zero => exact LimRel.refl _
      | succ k =>
        simp only [evalRepeat]
        refine LimRel.bind (ihB b c) (fun v c1 => ?_)
        exact LimRel.bind (ihR k b c1) (fun _ _ => LimRel.refl _)
    · intro fs c
      cases fs with
      | nil => exact LimRel.refl _
      | cons fld rest =>
        simp only [List.map_cons, evalFields]
        refine LimRel.bind ?_ (fun v c' => LimRel.bind (ihS rest c') (fun _ _ => LimRel.refl _))
        cases fld with
        | plain nm fd => simp only [StructFieldDec.eraseMax]; exact ihF fd c
        | optional nm ty =>
          simp only [StructFieldDec.eraseMax]
          refine LimRel.bind (LimRel.refl _) (fun mk c1 => ?_)
          split
          · exact LimRel.refl _
          · split
            · exact LimRel.bind (ihI ty c1) (fun _ _ => LimRel.refl _)
            · exact LimRel.refl _

/-- **a declared maximum can only reject, and only with `InvalidLength`** -/
theorem limits_only_reject (a : Ast) (p : Plans) (fuel : Nat) (name : String) (c : Cur) :
    evalImpl a p fuel name c = evalImpl a p.eraseMax fuel name c ∨ ∃ l, evalImpl a p fuel name c = .err .invalidLength l :=
  (eval_lim a p fuel).1 name c

end Fx
