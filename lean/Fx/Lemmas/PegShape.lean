/-
  Fx.Lemmas.PegShape — the token trees the parser produces conform to the grammar.

  `Shape g atomic e ts`: the token list `ts` is one the expression `e` can produce — the tokens of a sequence are the
  tokens of its parts in order, a normal rule contributes one token whose children come from its body, an atomic rule a
  token without children, silent rules and terminals nothing of their own, and inside atomic context nothing at all.
-/
import Fx.Peg
namespace Fx.Peg

inductive Shape (g : Grammar) : Bool → Expr → List Pair → Prop
  | str (a t) : Shape g a (.str t) []
  | any (a) : Shape g a .any []
  | soi (a) : Shape g a .soi []
  | digit (a) : Shape g a .digit []
  | alnum (a) : Shape g a .alnum []
  | newline (a) : Shape g a .newline []
  | eoiAtomic : Shape g true .eoi []
  | eoi : Shape g false .eoi [Pair.mk "EOI" [] []]
  | not (a e) : Shape g a (.not e) []
  | optNone (a e) : Shape g a (.opt e) []
  | optSome {a e ts} : Shape g a e ts → Shape g a (.opt e) ts
  | altL {a e1 e2 ts} : Shape g a e1 ts → Shape g a (.alt e1 e2) ts
  | altR {a e1 e2 ts} : Shape g a e2 ts → Shape g a (.alt e1 e2) ts
  | seq {a e1 e2 t1 t2} : Shape g a e1 t1 → Shape g a e2 t2 → Shape g a (.seq e1 e2) (t1 ++ t2)
  | starNil (a e) : Shape g a (.star e) []
  | starCons {a e t1 t2} : Shape g a e t1 → Shape g a (.star e) t2 → Shape g a (.star e) (t1 ++ t2)
  | plus {a e ts} : Shape g a (.seq e (.star e)) ts → Shape g a (.plus e) ts
  | refSkip {a n} : (n == "WHITESPACE" || n == "COMMENT") = true → Shape g a (.ref n) []
  | refSilent {a n r ts} : g.find n = some r → (n == "WHITESPACE" || n == "COMMENT") = false → r.ty = .silent →
      Shape g a r.body ts → Shape g a (.ref n) ts
  | refInAtomic {n} : Shape g true (.ref n) []
  | refNormal {n r txt ts} : g.find n = some r → (n == "WHITESPACE" || n == "COMMENT") = false → r.ty = .normal →
      Shape g false r.body ts → Shape g false (.ref n) [Pair.mk n txt ts]
  | refAtomic {n r txt} : g.find n = some r → (n == "WHITESPACE" || n == "COMMENT") = false → r.ty = .atomic →
      Shape g false (.ref n) [Pair.mk n txt []]

/-- what a result says about its tokens -/
def PRShape (g : Grammar) (atomic : Bool) (e : Expr) : PR → Prop
  | .ok _ ts => Shape g atomic e ts
  | _ => True

def PRNoTok : PR → Prop
  | .ok _ ts => ts = []
  | _ => True

/-- in atomic context nothing produces tokens -/
theorem atomic_no_tokens (g : Grammar) (fuel : Nat) :
    (∀ e s, PRNoTok (eval g fuel true e s)) ∧
    (∀ e s acc, acc = [] → PRNoTok (repeatMore g fuel true e s acc)) ∧
    (∀ n s, PRNoTok (evalRule g fuel true n s)) := by
  induction fuel with
  | zero => refine ⟨?_, ?_, ?_⟩ <;> intros <;> simp [eval, repeatMore, evalRule, PRNoTok]
  | succ f ih =>
    obtain ⟨ihE, ihR, ihU⟩ := ih
    refine ⟨?_, ?_, ?_⟩
    · intro e s
      cases e with
      | str t => simp only [eval]; cases matchStr t s <;> simp [ofOpt, PRNoTok]
      | any => simp only [eval]; split <;> simp [PRNoTok]
      | soi => simp only [eval]; split <;> simp [PRNoTok]
      | eoi => simp only [eval]; split <;> simp [PRNoTok]
      | digit => simp only [eval]; split <;> (try split) <;> simp [PRNoTok]
      | alnum => simp only [eval]; split <;> (try split) <;> simp [PRNoTok]
      | newline =>
        simp only [eval]
        cases matchStr ['\n'] s <;> simp only
        · cases matchStr ['\r', '\n'] s <;> simp only
          · cases matchStr ['\r'] s <;> simp [ofOpt, PRNoTok]
          · simp [PRNoTok]
        · simp [PRNoTok]
      | ref n => simp only [eval]; exact ihU n s
      | seq a b =>
        simp only [eval, if_true]
        have h1 := ihE a s
        cases hr : eval g f true a s with
        | ok s1 t1 =>
          rw [hr] at h1
          simp only [PRNoTok] at h1
          subst h1
          simp only
          have h2 := ihE b s1
          cases hb : eval g f true b s1 with
          | ok s2 t2 => rw [hb] at h2; simp only [PRNoTok] at h2 ⊢; simp [h2]
          | fail => trivial
          | outOfFuel => trivial
        | fail => trivial
        | outOfFuel => trivial
      | alt a b =>
        simp only [eval]
        have h1 := ihE a s
        cases hr : eval g f true a s with
        | ok s1 t1 => rw [hr] at h1; exact h1
        | fail => exact ihE b s
        | outOfFuel => trivial
      | opt e =>
        simp only [eval]
        have h1 := ihE e s
        cases hr : eval g f true e s with
        | ok s1 t1 => rw [hr] at h1; exact h1
        | fail => simp [PRNoTok]
        | outOfFuel => trivial
      | not e =>
        simp only [eval]
        cases eval g f true e s <;> simp [PRNoTok]
      | star e =>
        simp only [eval]
        have h1 := ihE e s
        cases hr : eval g f true e s with
        | ok s1 t1 =>
          rw [hr] at h1
          simp only [PRNoTok] at h1
          exact ihR e s1 t1 h1
        | fail => simp [PRNoTok]
        | outOfFuel => trivial
      | plus e => simp only [eval]; exact ihE (.seq e (.star e)) s
    · intro e s acc hacc
      subst hacc
      simp only [repeatMore, if_true]
      have h3 := ihE e s
      cases he : eval g f true e s with
      | ok s2 t2 =>
        rw [he] at h3
        simp only [PRNoTok] at h3
        subst h3
        simp only
        split
        · simp [PRNoTok]
        · exact ihR e s2 _ (by simp)
      | fail => simp [PRNoTok]
      | outOfFuel => trivial
    · intro n s
      simp only [evalRule]
      cases hfd : g.find n with
      | none => trivial
      | some r =>
        simp only
        split
        · cases hr : eval g f true r.body s <;> simp [PRNoTok]
        · cases r.ty with
          | silent => exact ihE r.body s
          | normal => simp only; cases hr : eval g f true r.body s <;> simp [PRNoTok]
          | atomic => simp only; cases hr : eval g f true r.body s <;> simp [PRNoTok]

theorem skip_no_tokens (g : Grammar) (fuel : Nat) : (∀ s, PRNoTok (skipWs g fuel s)) ∧ (∀ s, PRNoTok (skip g fuel s)) := by
  induction fuel with
  | zero => refine ⟨?_, ?_⟩ <;> intros <;> simp [skipWs, skip, PRNoTok]
  | succ f ih =>
    obtain ⟨ihW, ihS⟩ := ih
    refine ⟨?_, ?_⟩
    · intro s
      simp only [skipWs]
      cases hr : evalRule g f true "WHITESPACE" s with
      | ok s' x => simp only; split <;> first | exact ihW s' | simp [PRNoTok]
      | fail => simp [PRNoTok]
      | outOfFuel => trivial
    · intro s
      simp only [skip]
      have h1 := ihW s
      cases hr : skipWs g f s with
      | ok s1 x =>
        simp only
        cases hc : evalRule g f true "COMMENT" s1 with
        | ok s2 y => simp only; split <;> first | exact ihS s2 | (have := h1; rw [hr] at this; simpa [PRNoTok] using this)
        | fail => simp [PRNoTok]
        | outOfFuel => trivial
      | fail => trivial
      | outOfFuel => trivial

theorem shape_of_noTok_atomic {g : Grammar} : ∀ (e : Expr), Shape g true e [] := by
  intro e
  induction e with
  | str t => exact .str _ _
  | any => exact .any _
  | soi => exact .soi _
  | eoi => exact .eoiAtomic
  | digit => exact .digit _
  | alnum => exact .alnum _
  | newline => exact .newline _
  | ref n => exact .refInAtomic
  | seq a b iha ihb => exact .seq (t1 := []) (t2 := []) iha ihb
  | alt a b iha _ => exact .altL iha
  | star e _ => exact .starNil _ _
  | plus e ih => exact .plus (.seq (t1 := []) (t2 := []) ih (.starNil _ _))
  | opt e _ => exact .optNone _ _
  | not e _ => exact .not _ _

theorem star_snoc_gen {g : Grammar} {a : Bool} {e : Expr} : ∀ {se : Expr} {acc : List Pair}, Shape g a se acc → se = .star e →
    ∀ t, Shape g a e t → Shape g a (.star e) (acc ++ t) := by
  intro se acc h
  induction h with
  | starNil a e0 => intro he t ht; cases he; simpa using Shape.starCons ht (.starNil _ _)
  | starCons h1 h2 _ ih2 =>
    intro he t ht
    cases he
    rw [List.append_assoc]
    exact .starCons h1 (ih2 rfl t ht)
  | _ => intro he; cases he

/-- **the tokens conform to the grammar** (non-atomic context; in atomic context there are none) -/
theorem shape (g : Grammar) (fuel : Nat) :
    (∀ e s, PRShape g false e (eval g fuel false e s)) ∧
    (∀ e s acc, Shape g false (.star e) acc →
      (match repeatMore g fuel false e s acc with | .ok _ ts => Shape g false (.star e) ts | _ => True)) ∧
    (∀ n s, PRShape g false (.ref n) (evalRule g fuel false n s)) := by
  induction fuel with
  | zero => refine ⟨?_, ?_, ?_⟩ <;> intros <;> simp [eval, repeatMore, evalRule, PRShape]
  | succ f ih =>
    obtain ⟨ihE, ihR, ihU⟩ := ih
    have skipNil : ∀ s s' x, skip g f s = .ok s' x → x = [] := by
      intro s s' x h
      have := (skip_no_tokens g f).2 s
      rw [h] at this; exact this
    have star_snoc : ∀ (e : Expr) (acc t : List Pair), Shape g false (.star e) acc → Shape g false e t →
        Shape g false (.star e) (acc ++ t) := fun e acc t hacc ht => star_snoc_gen hacc rfl t ht
    refine ⟨?_, ?_, ?_⟩
    · intro e s
      cases e with
      | str t => simp only [eval]; cases matchStr t s <;> simp [ofOpt, PRShape, Shape.str]
      | any => simp only [eval]; split <;> simp [PRShape, Shape.any]
      | soi => simp only [eval]; split <;> simp [PRShape, Shape.soi]
      | eoi => simp only [eval]; split <;> simp [PRShape, Shape.eoi]
      | digit => simp only [eval]; split <;> (try split) <;> simp [PRShape, Shape.digit]
      | alnum => simp only [eval]; split <;> (try split) <;> simp [PRShape, Shape.alnum]
      | newline =>
        simp only [eval]
        cases matchStr ['\n'] s <;> simp only
        · cases matchStr ['\r', '\n'] s <;> simp only
          · cases matchStr ['\r'] s <;> simp [ofOpt, PRShape, Shape.newline]
          · simp [PRShape, Shape.newline]
        · simp [PRShape, Shape.newline]
      | ref n => simp only [eval]; exact ihU n s
      | seq a b =>
        simp only [eval, Bool.false_eq_true, if_false]
        have h1 := ihE a s
        cases hr : eval g f false a s with
        | ok s1 t1 =>
          rw [hr] at h1
          simp only
          cases hs : skip g f s1 with
          | ok s1' x =>
            simp only
            have h2 := ihE b s1'
            cases hb : eval g f false b s1' with
            | ok s2 t2 => rw [hb] at h2; exact Shape.seq h1 h2
            | fail => trivial
            | outOfFuel => trivial
          | fail => trivial
          | outOfFuel => trivial
        | fail => trivial
        | outOfFuel => trivial
      | alt a b =>
        simp only [eval]
        have h1 := ihE a s
        cases hr : eval g f false a s with
        | ok s1 t1 => rw [hr] at h1; exact Shape.altL h1
        | fail =>
          have h2 := ihE b s
          cases hb : eval g f false b s with
          | ok s2 t2 => rw [hb] at h2; exact Shape.altR h2
          | fail => trivial
          | outOfFuel => trivial
        | outOfFuel => trivial
      | opt e =>
        simp only [eval]
        have h1 := ihE e s
        cases hr : eval g f false e s with
        | ok s1 t1 => rw [hr] at h1; exact Shape.optSome h1
        | fail => exact Shape.optNone _ _
        | outOfFuel => trivial
      | not e =>
        simp only [eval]
        cases eval g f false e s <;> simp [PRShape, Shape.not]
      | star e =>
        simp only [eval]
        have h1 := ihE e s
        cases hr : eval g f false e s with
        | ok s1 t1 =>
          rw [hr] at h1
          have := ihR e s1 t1 (by simpa using Shape.starCons h1 (.starNil _ _))
          simp only
          cases hm : repeatMore g f false e s1 t1 with
          | ok s2 t2 => rw [hm] at this; exact this
          | fail => trivial
          | outOfFuel => trivial
        | fail => exact Shape.starNil _ _
        | outOfFuel => trivial
      | plus e =>
        simp only [eval]
        have h1 := ihE (.seq e (.star e)) s
        cases hr : eval g f false (.seq e (.star e)) s with
        | ok s1 t1 => rw [hr] at h1; exact Shape.plus h1
        | fail => trivial
        | outOfFuel => trivial
    · intro e s acc hacc
      simp only [repeatMore, Bool.false_eq_true, if_false]
      cases hs : skip g f s with
      | ok s' x =>
        simp only
        have h3 := ihE e s'
        cases he : eval g f false e s' with
        | ok s2 t2 =>
          rw [he] at h3
          simp only
          by_cases hp : s2.pos = s.pos
          · simp only [hp, if_true]; exact hacc
          · simp only [hp, if_false]
            exact ihR e s2 (acc ++ t2) (star_snoc e acc t2 hacc h3)
        | fail => exact hacc
        | outOfFuel => trivial
      | fail => exact hacc
      | outOfFuel => trivial
    · intro n s
      simp only [evalRule]
      cases hfd : g.find n with
      | none => trivial
      | some r =>
        simp only
        by_cases hws : (n == "WHITESPACE" || n == "COMMENT") = true
        · simp only [hws, if_true]
          cases hr : eval g f true r.body s with
          | ok s' x => exact Shape.refSkip hws
          | fail => trivial
          | outOfFuel => trivial
        · have hws' : (n == "WHITESPACE" || n == "COMMENT") = false := by simpa using hws
          simp only [hws', Bool.false_eq_true, if_false]
          cases hty : r.ty with
          | silent =>
            simp only
            have h1 := ihE r.body s
            cases hr : eval g f false r.body s with
            | ok s' ts => rw [hr] at h1; exact Shape.refSilent hfd hws' hty h1
            | fail => trivial
            | outOfFuel => trivial
          | normal =>
            simp only
            have h1 := ihE r.body s
            cases hr : eval g f false r.body s with
            | ok s' ts => rw [hr] at h1; exact Shape.refNormal hfd hws' hty h1
            | fail => trivial
            | outOfFuel => trivial
          | atomic =>
            simp only
            cases hr : eval g f true r.body s with
            | ok s' ts => exact Shape.refAtomic hfd hws' hty
            | fail => trivial
            | outOfFuel => trivial

end Fx.Peg
