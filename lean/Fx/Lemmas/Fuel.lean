/-
  Fx.Lemmas.Fuel — fuel is only a recursion-depth budget: once an evaluator returns anything other than
  `outOfFuel`, every larger budget returns the same thing.
-/
import Fx.Eval
import Fx.Lemmas.Runtime
import Fx.Lemmas.Advance
namespace Fx

/-- `f'` agrees with `f` wherever `f` has an answer -/
def Ext {α} (f f' : Cur → Res α) : Prop := ∀ c, f c ≠ .outOfFuel → f' c = f c

theorem Ext.refl {α} (f : Cur → Res α) : Ext f f := fun _ _ => rfl

theorem Ext.congr {α} {f f' g g' : Cur → Res α} (h : ∀ c, f c = g c) (h' : ∀ c, f' c = g' c) (hg : Ext g g') : Ext f f' := by
  intro c hc
  rw [h, h']
  exact hg c (by rw [← h]; exact hc)

theorem Ext.bind {α β} {f f' : Cur → Res α} {g g' : α → Cur → Res β} (hf : Ext f f') (hg : ∀ v, Ext (g v) (g' v)) :
    Ext (fun c => (f c).bind g) (fun c => (f' c).bind g') := by
  intro c hc
  simp only at hc ⊢
  have hfc : f c ≠ .outOfFuel := by
    intro e; rw [e] at hc; exact hc rfl
  rw [hf c hfc]
  cases hr : f c with
  | ok v c1 =>
    rw [hr] at hc
    simp only [Res.bind_ok] at hc ⊢
    exact hg v c1 hc
  | err e l => rfl
  | panic s => rfl
  | abort => rfl
  | outOfFuel => rfl

theorem Ext.vacuous {α} {f f' : Cur → Res α} (h : ∀ c, f c = .outOfFuel) : Ext f f' :=
  fun c hc => absurd (h c) hc

theorem arrLoop_ext (dec dec' : Cur → Res Val) (ws : Val → Nat) (hd : Ext dec dec') :
    ∀ (k sum : Nat) (acc : Vals), Ext (fun c => arrLoop dec ws k c sum acc) (fun c => arrLoop dec' ws k c sum acc) := by
  intro k
  induction k with
  | zero => intro sum acc c _; simp [arrLoop]
  | succ k ih =>
    intro sum acc c hc
    simp only [arrLoop] at hc ⊢
    have hdc : dec c ≠ .outOfFuel := by
      intro e; rw [e] at hc; exact hc rfl
    rw [hd c hdc]
    cases hr : dec c with
    | ok t ct =>
      rw [hr] at hc
      simp only at hc ⊢
      split
      · rfl
      · rename_i hlt
        simp only [hlt, if_false] at hc
        exact ih _ _ _ hc
    | err e l => rfl
    | panic s => rfl
    | abort => rfl
    | outOfFuel => rfl

theorem readVariableArray_ext (dec dec' : Cur → Res Val) (ws : Val → Nat) (m : Option Nat) (hd : Ext dec dec') :
    Ext (readVariableArray dec ws m) (readVariableArray dec' ws m) := by
  refine Ext.bind (Ext.refl _) (fun n => ?_)
  cases h : overLimit m n
  · simp only [Bool.false_eq_true, if_false]
    refine Ext.bind (f := fun c1 => arrLoop dec ws n (c1.addLog (Ev.vec (min n c1.remaining))) 0 .nil)
      (f' := fun c1 => arrLoop dec' ws n (c1.addLog (Ev.vec (min n c1.remaining))) 0 .nil) ?_ (fun os => Ext.refl _)
    intro c hc
    exact arrLoop_ext dec dec' ws hd n 0 .nil _ hc
  · exact Ext.refl _

/-- one more unit of fuel never changes an answer -/
theorem eval_fuel_succ (a : Ast) (p : Plans) (f : Nat) :
    (∀ n, Ext (evalImpl a p f n) (evalImpl a p (f + 1) n)) ∧
    (∀ b, Ext (evalBasic a p f b) (evalBasic a p (f + 1) b)) ∧
    (∀ fd, Ext (evalField a p f fd) (evalField a p (f + 1) fd)) ∧
    (∀ k b, Ext (evalRepeat a p f k b) (evalRepeat a p (f + 1) k b)) ∧
    (∀ fs, Ext (evalFields a p f fs) (evalFields a p (f + 1) fs)) := by
  induction f with
  | zero =>
    refine ⟨?_, ?_, ?_, ?_, ?_⟩ <;> intros <;> refine Ext.vacuous (fun c => ?_) <;>
      simp [evalImpl, evalBasic, evalField, evalRepeat, evalFields]
  | succ f ih =>
    obtain ⟨ihI, ihB, ihF, ihR, ihFs⟩ := ih
    refine ⟨?_, ?_, ?_, ?_, ?_⟩
    · intro n
      cases hfi : p.findImpl n with
      | none =>
        exact Ext.congr (g := fun _ => .panic "unresolved") (g' := fun _ => .panic "unresolved")
          (fun c => by simp [evalImpl, hfi]) (fun c => by simp [evalImpl, hfi]) (Ext.refl _)
      | some i =>
        cases hb : i.body with
        | struct fs =>
          let B := fun (fl : Nat) (c : Cur) => (evalFields a p fl fs c).bind fun vs c' => Res.ok (Val.struct n (fs.map fieldNameOf) vs) c'
          exact Ext.congr (g := B f) (g' := B (f + 1)) (fun c => by simp [B, evalImpl, hfi, hb]) (fun c => by simp [B, evalImpl, hfi, hb])
            (Ext.bind (ihFs fs) (fun vs => Ext.refl _))
        | union u =>
          let K := fun (fl : Nat) (d : Val) (c1 : Cur) =>
            (match selectArm a d u.arms with
             | some arm =>
               (match arm.payload with
                | some fd => (evalField a p fl fd c1).bind fun v c2 => Res.ok (Val.tuple n (nonDigitName arm.variant) v) c2
                | none => Res.ok (Val.unit n (nonDigitName arm.variant)) c1)
             | none =>
               (match u.tail with
                | .defaultData fd => (evalField a p fl fd c1).bind fun v c2 => Res.ok (Val.tuple n "default" v) c2
                | .errUnknown => Res.err (.unknownVariant (asI32 a d)) c1.log
                | .none => Res.panic "non-exhaustive match"))
          refine Ext.congr (g := fun c => (evalBasic a p f u.disc c).bind (K f)) (g' := fun c => (evalBasic a p (f + 1) u.disc c).bind (K (f + 1)))
            (fun c => by simp only [evalImpl, hfi, hb]; rfl) (fun c => by simp only [evalImpl, hfi, hb]; rfl)
            (Ext.bind (ihB u.disc) (fun d => ?_))
          simp only [K]
          cases hsel : selectArm a d u.arms with
          | some arm =>
            dsimp only
            cases hpl : arm.payload with
            | some fd => dsimp only; exact Ext.bind (ihF fd) (fun v => Ext.refl _)
            | none => dsimp only; exact Ext.refl _
          | none =>
            dsimp only
            cases ht : u.tail with
            | defaultData fd => dsimp only; exact Ext.bind (ihF fd) (fun v => Ext.refl _)
            | errUnknown => exact Ext.refl _
            | none => exact Ext.refl _
        | enum arms =>
          let E := fun (c : Cur) => (readI32 c).bind fun i c1 =>
              (match selectEnum a (.i32 i) arms with
               | some m => Res.ok (Val.cenum n m) c1
               | none => Res.err (.unknownVariant i) c1.log)
          exact Ext.congr (g := E) (g' := E) (fun c => by simp only [evalImpl, hfi, hb]; rfl) (fun c => by simp only [evalImpl, hfi, hb]; rfl)
            (Ext.refl _)
        | typedef fd =>
          let B := fun (fl : Nat) (c : Cur) => (evalField a p fl fd c).bind fun v c' => Res.ok (Val.newtype n v) c'
          exact Ext.congr (g := B f) (g' := B (f + 1)) (fun c => by simp [B, evalImpl, hfi, hb]) (fun c => by simp [B, evalImpl, hfi, hb])
            (Ext.bind (ihF fd) (fun v => Ext.refl _))
    · intro b
      match b with
      | .prim pr => exact Ext.congr (g := readPrim pr) (g' := readPrim pr) (fun c => by simp [evalBasic]) (fun c => by simp [evalBasic]) (Ext.refl _)
      | .string => exact Ext.congr (g := readString none) (g' := readString none) (fun c => by simp [evalBasic]) (fun c => by simp [evalBasic]) (Ext.refl _)
      | .opaque => exact Ext.congr (g := readVariableBytes none) (g' := readVariableBytes none) (fun c => by simp [evalBasic]) (fun c => by simp [evalBasic]) (Ext.refl _)
      | .tryFrom n => exact Ext.congr (fun c => by simp [evalBasic]) (fun c => by simp [evalBasic]) (ihI n)
    · intro fd
      cases fd with
      | one b => exact Ext.congr (fun c => by simp [evalField]) (fun c => by simp [evalField]) (ihB b)
      | fixedBytes n => exact Ext.congr (g := readBytes n) (g' := readBytes n) (fun c => by simp [evalField]) (fun c => by simp [evalField]) (Ext.refl _)
      | fixedArr n b =>
        let B := fun (fl : Nat) (c : Cur) => (evalRepeat a p fl n b c).bind fun vs c' => Res.ok (Val.arr vs) c'
        exact Ext.congr (g := B f) (g' := B (f + 1)) (fun c => by simp [B, evalField]) (fun c => by simp [B, evalField])
          (Ext.bind (ihR n b) (fun vs => Ext.refl _))
      | varBytes m => exact Ext.congr (g := readVariableBytes m) (g' := readVariableBytes m) (fun c => by simp [evalField]) (fun c => by simp [evalField]) (Ext.refl _)
      | varString m => exact Ext.congr (g := readString m) (g' := readString m) (fun c => by simp [evalField]) (fun c => by simp [evalField]) (Ext.refl _)
      | varArr ty g m =>
        exact Ext.congr (fun c => by simp [evalField]) (fun c => by simp [evalField])
          (readVariableArray_ext (evalImpl a p f ty) (evalImpl a p (f + 1) ty) (wsVal p) m (ihI ty))
    · intro k b
      cases k with
      | zero => exact Ext.congr (g := fun c => Res.ok Vals.nil c) (g' := fun c => Res.ok Vals.nil c) (fun c => by simp [evalRepeat]) (fun c => by simp [evalRepeat]) (Ext.refl _)
      | succ k =>
        let B := fun (fl : Nat) (c : Cur) => (evalBasic a p fl b c).bind fun v c1 =>
            (evalRepeat a p fl k b c1).bind fun vs c2 => Res.ok (Vals.cons v vs) c2
        exact Ext.congr (g := B f) (g' := B (f + 1)) (fun c => by simp [B, evalRepeat]) (fun c => by simp [B, evalRepeat])
          (Ext.bind (ihB b) (fun v => Ext.bind (ihR k b) (fun vs => Ext.refl _)))
    · intro fs
      cases fs with
      | nil => exact Ext.congr (g := fun c => Res.ok Vals.nil c) (g' := fun c => Res.ok Vals.nil c) (fun c => by simp [evalFields]) (fun c => by simp [evalFields]) (Ext.refl _)
      | cons fld rest =>
        cases fld with
        | plain nm fd =>
          let B := fun (fl : Nat) (c : Cur) => (evalField a p fl fd c).bind fun v c' =>
              (evalFields a p fl rest c').bind fun vs c'' => Res.ok (Vals.cons v vs) c''
          exact Ext.congr (g := B f) (g' := B (f + 1)) (fun c => by simp [B, evalFields]) (fun c => by simp [B, evalFields])
            (Ext.bind (ihF fd) (fun v => Ext.bind (ihFs rest) (fun vs => Ext.refl _)))
        | optional nm ty =>
          let O := fun (fl : Nat) (m : Nat) (c1 : Cur) =>
              if m = 0 then Res.ok Val.none c1
              else if m = 1 then (evalImpl a p fl ty c1).bind fun v c2 => Res.ok (Val.some v) (c2.addLog .box)
              else Res.err (.unknownOptionVariant m) c1.log
          let B := fun (fl : Nat) (c : Cur) => ((readU32 c).bind (O fl)).bind fun v c' =>
              (evalFields a p fl rest c').bind fun vs c'' => Res.ok (Vals.cons v vs) c''
          refine Ext.congr (g := B f) (g' := B (f + 1)) (fun c => by simp [B, O, evalFields]) (fun c => by simp [B, O, evalFields])
            (Ext.bind (Ext.bind (Ext.refl _) (fun m => ?_)) (fun v => Ext.bind (ihFs rest) (fun vs => Ext.refl _)))
          simp only [O]
          by_cases h0 : m = 0
          · simp only [h0, if_true]; exact Ext.refl _
          · by_cases h1 : m = 1
            · simp only [h1, if_true]
              exact Ext.bind (ihI ty) (fun v => Ext.refl _)
            · simp only [h0, h1, if_false]; exact Ext.refl _

/-- any larger budget -/
theorem evalImpl_fuel_mono (a : Ast) (p : Plans) (n : String) (c : Cur) (f g : Nat) (hfg : f ≤ g)
    (h : evalImpl a p f n c ≠ .outOfFuel) : evalImpl a p g n c = evalImpl a p f n c := by
  induction g with
  | zero =>
    have : f = 0 := by omega
    subst this; rfl
  | succ g ih =>
    by_cases hfg' : f ≤ g
    · have e := ih hfg'
      rw [← e]
      exact (eval_fuel_succ a p g).1 n c (by rw [e]; exact h)
    · have : f = g + 1 := by omega
      subst this; rfl

end Fx
