/-
  Fx.Lemmas.Runtime — helper lemmas about the runtime model (property theorems
  live in Fx/Props).
-/
import Fx.Runtime
namespace Fx

theorem padLen_lt (n : Nat) : padLen n < 4 := by unfold padLen; split <;> omega
theorem padLen_mod (n : Nat) : (n + padLen n) % 4 = 0 := by unfold padLen; split <;> omega
theorem padLen_min (n k : Nat) (h : (n + k) % 4 = 0) : padLen n ≤ k := by
  unfold padLen; split <;> omega
theorem padLen_of_mod (n : Nat) (h : n % 4 = 0) : padLen n = 0 := by simp [padLen, h]

@[simp] theorem be32_length (n : Nat) : (be32 n).length = 4 := rfl
@[simp] theorem be64_length (n : Nat) : (be64 n).length = 8 := rfl
@[simp] theorem zeros_length (k : Nat) : (zeros k).length = k := by simp [zeros]

theorem word32_be32 (n : Nat) (h : n < 2^32) :
    word32 (UInt8.ofNat (n / 2^24 % 256)) (UInt8.ofNat (n / 2^16 % 256))
      (UInt8.ofNat (n / 2^8 % 256)) (UInt8.ofNat (n % 256)) = n := by
  simp only [word32, UInt8.toNat_ofNat']
  omega

theorem word32_lt (a b c d : Byte) : word32 a b c d < 2^32 := by
  have := a.toNat_lt; have := b.toNat_lt; have := c.toNat_lt; have := d.toNat_lt
  simp only [word32]; omega

@[simp] theorem Cur.remaining_mk (o d l) : (Cur.mk o d l).remaining = d.length := rfl
@[simp] theorem Cur.advance_off (c : Cur) (n) : (c.advance n).off = c.off + n := rfl
@[simp] theorem Cur.advance_data (c : Cur) (n) : (c.advance n).data = c.data.drop n := rfl
@[simp] theorem Cur.advance_log (c : Cur) (n) : (c.advance n).log = c.log := rfl
@[simp] theorem Cur.advance_remaining (c : Cur) (n) : (c.advance n).remaining = c.remaining - n := by
  simp [Cur.remaining]
@[simp] theorem Cur.advance_zero (c : Cur) : c.advance 0 = c := by
  cases c; simp [Cur.advance]
theorem Cur.advance_advance (c : Cur) (a b) : (c.advance a).advance b = c.advance (a + b) := by
  cases c; simp [Cur.advance, List.drop_drop, Nat.add_assoc]

/-! ### readU32 -/

theorem readU32_short (c : Cur) (h : c.remaining < 4) : readU32 c = .err .invalidLength c.log := by
  simp [readU32, h]

theorem readU32_cons (o : Nat) (a b x d : Byte) (s : List Byte) (l) :
    readU32 ⟨o, a :: b :: x :: d :: s, l⟩ = .ok (word32 a b x d) ⟨o + 4, s, l⟩ := by
  simp [readU32, getU32P, Cur.advance]

theorem readU32_be32 (n : Nat) (h : n < 2^32) (o : Nat) (s : List Byte) (l) :
    readU32 ⟨o, be32 n ++ s, l⟩ = .ok n ⟨o + 4, s, l⟩ := by
  simp only [be32, List.cons_append, List.nil_append, readU32_cons, word32_be32 n h]

/-- inversion: a successful `readU32` consumed exactly four bytes -/
theorem readU32_ok {c : Cur} {n : Nat} {c' : Cur} (h : readU32 c = .ok n c') :
    c' = c.advance 4 ∧ 4 ≤ c.remaining ∧ n < 2^32 ∧ c.data.take 4 = be32 n := by
  unfold readU32 at h
  split at h
  · cases h
  · unfold getU32P at h
    split at h
    · rename_i a b x d rest heq
      cases h
      refine ⟨rfl, ?_, word32_lt _ _ _ _, ?_⟩
      · simp [Cur.remaining, heq]
      · simp only [heq, List.take_succ_cons, List.take_zero, be32]
        have := a.toNat_lt; have := b.toNat_lt; have := x.toNat_lt; have := d.toNat_lt
        have e1 : word32 a b x d / 2^24 % 256 = a.toNat := by simp only [word32]; omega
        have e2 : word32 a b x d / 2^16 % 256 = b.toNat := by simp only [word32]; omega
        have e3 : word32 a b x d / 2^8 % 256 = x.toNat := by simp only [word32]; omega
        have e4 : word32 a b x d % 256 = d.toNat := by simp only [word32]; omega
        simp [e1, e2, e3, e4]
    · cases h

theorem readU32_ne_bad (c : Cur) : (readU32 c).isBad = false := by
  unfold readU32
  split
  · rfl
  · rename_i h
    unfold getU32P
    split
    · rfl
    · rename_i hne
      exfalso
      match hd : c.data with
      | [] => simp [Cur.remaining, hd] at h
      | [_] => simp [Cur.remaining, hd] at h
      | [_, _] => simp [Cur.remaining, hd] at h
      | [_, _, _] => simp [Cur.remaining, hd] at h
      | a :: b :: x :: d :: r => exact hne a b x d r hd

/-! ### readU64 -/

theorem readU64_short (c : Cur) (h : c.remaining < 8) : readU64 c = .err .invalidLength c.log := by
  simp [readU64, h]

theorem readU64_be64 (n : Nat) (h : n < 2^64) (o : Nat) (s : List Byte) (l) :
    readU64 ⟨o, be64 n ++ s, l⟩ = .ok n ⟨o + 8, s, l⟩ := by
  have h1 : n / 2^32 % 2^32 < 2^32 := Nat.mod_lt _ (by decide)
  have h2 : n % 2^32 < 2^32 := Nat.mod_lt _ (by decide)
  simp only [be64, be32, List.cons_append, List.nil_append, readU64, getU64P, Cur.remaining,
    List.length_cons, Cur.advance]
  simp only [word32_be32 _ h1, word32_be32 _ h2]
  have : n / 2^32 % 2^32 * 2^32 + n % 2^32 = n := by omega
  simp [this]

theorem readU64_ne_bad (c : Cur) : (readU64 c).isBad = false := by
  unfold readU64
  split
  · rfl
  · rename_i h
    unfold getU64P
    split
    · rfl
    · rename_i hne
      exfalso
      match hd : c.data with
      | [] => simp [Cur.remaining, hd] at h
      | [_] => simp [Cur.remaining, hd] at h
      | [_, _] => simp [Cur.remaining, hd] at h
      | [_, _, _] => simp [Cur.remaining, hd] at h
      | [_, _, _, _] => simp [Cur.remaining, hd] at h
      | [_, _, _, _, _] => simp [Cur.remaining, hd] at h
      | [_, _, _, _, _, _] => simp [Cur.remaining, hd] at h
      | [_, _, _, _, _, _, _] => simp [Cur.remaining, hd] at h
      | a :: b :: x :: d :: e :: f :: g :: i :: r => exact hne a b x d e f g i r hd

/-! ### readBytes / readVariableBytes -/

theorem readBytes_short (n : Nat) (c : Cur) (h : c.remaining < n + padLen n) :
    readBytes n c = .err .invalidLength c.log := by
  simp [readBytes, h]

theorem readBytes_enough (n : Nat) (c : Cur) (h : n + padLen n ≤ c.remaining) :
    readBytes n c = .ok (.bytes c.off (c.data.take n)) (c.advance (n + padLen n)) := by
  have h1 : ¬ c.remaining < n + padLen n := by omega
  have h2 : ¬ c.remaining < n := by omega
  simp [readBytes, h1, sliceP, h2, advanceP]

theorem readBytes_ne_bad (n : Nat) (c : Cur) : (readBytes n c).isBad = false := by
  by_cases h : c.remaining < n + padLen n
  · rw [readBytes_short n c h]; rfl
  · rw [readBytes_enough n c (by omega)]; rfl

theorem readBytes_enc (b s : List Byte) (o : Nat) (l) :
    readBytes b.length ⟨o, b ++ zeros (padLen b.length) ++ s, l⟩ = .ok (.bytes o b) ⟨o + (b.length + padLen b.length), s, l⟩ := by
  rw [readBytes_enough _ _ (by simp)]
  simp [Cur.advance, List.append_assoc]
end Fx
