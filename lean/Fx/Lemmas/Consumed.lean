/-
  Fx.Lemmas.Consumed — a successful decode consumes exactly `wire_size()` of what it returns,
  for ALL byte strings, whenever the emitted size impls match the emitted decoders (`Plans.SizeExact`).
-/
import Fx.Lemmas.Advance
namespace Fx

/-- bytes consumed by a `BasicDec` that returned `v` -/
def basicConsumed (p : Plans) : BasicDec → Val → Nat
  | .opaque, v => 4 + wsVal p v + padLen (wsVal p v)
  | _, v => wsVal p v

/-- bytes consumed by a `FieldDec` that returned `v` -/
def fieldConsumed (p : Plans) : FieldDec → Val → Nat
  | .one b, v => basicConsumed p b v
  | .fixedBytes _, v => wsVal p v + padLen (wsVal p v)
  | .varBytes _, v => 4 + wsVal p v + padLen (wsVal p v)
  | _, v => wsVal p v

def isOpaqueDec : BasicDec → Bool
  | .opaque => true
  | _ => false

/-- a repeated element must be word-aligned for `[T; n]::wire_size` (= Σ + pad Σ) to be exact -/
def fieldShapeOk : FieldDec → Bool
  | .fixedArr _ b => !isOpaqueDec b && (match b with | .string => false | _ => true)
  | _ => true

def sizeFieldMatches : StructFieldDec → SizeField → Bool
  | .plain _ fd, sf =>
    fieldShapeOk fd &&
    (match fd with
     | .varBytes _ => sf.pad && sf.plus4
     | .fixedBytes _ => sf.pad && !sf.plus4
     | .one .opaque => false                       -- bracket-less `opaque x;`: the size impl omits the prefix (finding K1)
     | _ => !sf.pad && !sf.plus4)
  | .optional _ _, sf => !sf.pad && !sf.plus4

def sizeFieldsMatch : List StructFieldDec → List SizeField → Bool
  | [], [] => true
  | f :: fs, s :: ss => sizeFieldMatches f s && sizeFieldsMatch fs ss
  | _, _ => false

def armSizeOk (sarms : List SizeArm) (variant : String) (payload : Option FieldDec) : Bool :=
  match payload with
  | none => true
  | some fd =>
    fieldShapeOk fd &&
    (match fd with
     | .one .opaque => false                       -- an `opaque` arm: finding K1
     | .one _ => (match findSizeArm (nonDigitName variant) sarms with | some (.data _ false) => true | _ => false)
     | _ => false)

def implSizeExact (p : Plans) (i : Impl) : Bool :=
  match p.findSize i.name with
  | none => false
  | some s =>
    (match i.body, s.body with
     | .struct fs, .struct sfs => sizeFieldsMatch fs sfs
     | .union u, .union sarms =>
       u.arms.all (fun arm => armSizeOk sarms arm.variant arm.payload) &&
       (match u.tail with
        | .defaultData fd => armSizeOk sarms "default" (some fd)
        | _ => true)
     | .enum _, .enum => true
     | .typedef fd, .typedef opq plus4 =>
       fieldShapeOk fd &&
       (match fd with
        | .varBytes _ => opq && plus4
        | .one .opaque => opq && plus4
        | .fixedBytes _ => opq && !plus4
        | _ => !opq)
     | _, _ => false)

/-- every emitted size impl describes exactly what its decoder consumes (decidable; false exactly at the K1 sites) -/
def Plans.SizeExact (p : Plans) : Bool := p.impls.all (implSizeExact p)

theorem Plans.findImpl_sizeExact {p : Plans} (hp : p.SizeExact = true) {n : String} {i : Impl} (h : p.findImpl n = some i) :
    implSizeExact p i = true ∧ i.name = n := by
  have hm : i ∈ p.impls := List.mem_of_find?_eq_some h
  refine ⟨(List.all_eq_true.mp hp) i hm, ?_⟩
  have := List.find?_some h
  simpa using this

/-- "advanced by exactly k bytes, k a whole number of words" -/
def AdvBy (c c' : Cur) (k : Nat) : Prop :=
  k ≤ c.remaining ∧ c'.off = c.off + k ∧ c'.data = c.data.drop k ∧ k % 4 = 0

theorem AdvBy.trans {a b c : Cur} {k1 k2 : Nat} (h1 : AdvBy a b k1) (h2 : AdvBy b c k2) : AdvBy a c (k1 + k2) := by
  obtain ⟨l1, o1, d1, m1⟩ := h1
  obtain ⟨l2, o2, d2, m2⟩ := h2
  refine ⟨?_, by omega, by rw [d2, d1, List.drop_drop], by omega⟩
  simp only [Cur.remaining] at *
  rw [d1] at l2
  simp at l2
  omega

theorem AdvBy.refl (c : Cur) : AdvBy c c 0 := ⟨Nat.zero_le _, by simp, by simp, rfl⟩

theorem AdvBy.addLog {a b : Cur} {k} (h : AdvBy a b k) (e : Ev) : AdvBy a (b.addLog e) k := h

theorem AdvBy.of_eq {a b : Cur} {k k'} (h : AdvBy a b k) (e : k = k') : AdvBy a b k' := e ▸ h

theorem readU32_advBy {c n c'} (h : readU32 c = .ok n c') : AdvBy c c' 4 := by
  obtain ⟨e, l, _, _⟩ := readU32_ok h
  subst e; exact ⟨l, rfl, rfl, rfl⟩

theorem readU64_advBy {c n c'} (h : readU64 c = .ok n c') : AdvBy c c' 8 := by
  obtain ⟨e, l⟩ := readU64_ok h
  subst e; exact ⟨l, rfl, rfl, rfl⟩

theorem readPrim_advBy (p : Plans) {pr c v c'} (h : readPrim pr c = .ok v c') : AdvBy c c' (wsVal p v) := by
  cases pr <;> simp only [readPrim] at h <;> obtain ⟨a, h1, h2⟩ := Res.map_eq_ok h <;> subst h2
  · simpa [wsVal] using readU32_advBy h1
  · simpa [wsVal] using readU64_advBy h1
  · obtain ⟨b, h3, _⟩ := Res.map_eq_ok h1; simpa [wsVal] using readU32_advBy h3
  · obtain ⟨b, h3, _⟩ := Res.map_eq_ok h1; simpa [wsVal] using readU64_advBy h3
  · simpa [wsVal] using readU32_advBy h1
  · simpa [wsVal] using readU64_advBy h1
  · unfold readBool at h1
    obtain ⟨i, c1, h3, h4⟩ := Res.bind_eq_ok h1
    obtain ⟨b, h5, _⟩ := Res.map_eq_ok h3
    have := readU32_advBy h5
    split at h4
    · cases h4; simpa [wsVal] using this
    · split at h4
      · cases h4; simpa [wsVal] using this
      · cases h4

theorem readBytes_advBy (p : Plans) {n c v c'} (h : readBytes n c = .ok v c') :
    AdvBy c c' (wsVal p v + padLen (wsVal p v)) ∧ wsVal p v = n := by
  obtain ⟨hl, hv, hc⟩ := readBytes_ok h
  subst hv; subst hc
  have hlen : (c.data.take n).length = n := by
    simp only [List.length_take]; simp only [Cur.remaining] at hl; omega
  simp only [wsVal, wsBytes, hlen]
  exact ⟨⟨hl, rfl, rfl, padLen_mod n⟩, trivial⟩

theorem readVariableBytes_advBy (p : Plans) {m c v c'} (h : readVariableBytes m c = .ok v c') :
    AdvBy c c' (4 + wsVal p v + padLen (wsVal p v)) := by
  unfold readVariableBytes at h
  obtain ⟨n, c1, h1, h2⟩ := Res.bind_eq_ok h
  split at h2
  · cases h2
  · have a1 := readU32_advBy h1
    obtain ⟨a2, _⟩ := readBytes_advBy p h2
    exact (a1.trans a2).of_eq (by omega)

theorem readString_advBy (p : Plans) {m c v c'} (h : readString m c = .ok v c') : AdvBy c c' (wsVal p v) := by
  unfold readString at h
  obtain ⟨b, c1, h1, h2⟩ := Res.bind_eq_ok h
  simp only at h2
  have a1 := readVariableBytes_advBy p h1
  -- the payload of the opaque that was read is the string's bytes
  unfold readVariableBytes at h1
  obtain ⟨n, c0, h3, h4⟩ := Res.bind_eq_ok h1
  split at h4
  · cases h4
  · obtain ⟨_, hv, _⟩ := readBytes_ok h4
    subst hv
    split at h2
    · cases h2
      simp only [payloadOf, wsVal, wsString, wsBytes] at *
      exact (a1.addLog _).of_eq (by omega)
    · cases h2

theorem wsSum_snoc (p : Plans) : ∀ (acc : Vals) (t : Val), wsSum p (acc.snoc t) = wsSum p acc + wsVal p t
  | .nil, t => by simp [Vals.snoc, wsSum]
  | .cons x xs, t => by simp only [Vals.snoc, wsSum, wsSum_snoc p xs t]; omega

/-- the element loop steps by `ws` of each element: if that is what each element decode consumed, the loop consumed the sum -/
theorem arrLoop_advBy (p : Plans) (dec : Cur → Res Val)
    (hd : ∀ c v c', dec c = .ok v c' → AdvBy c c' (wsVal p v)) :
    ∀ (k : Nat) (c : Cur) (sum : Nat) (acc : Vals) (out : Vals) (sum' : Nat) (c' : Cur),
      arrLoop dec (wsVal p) k c sum acc = .ok (out, sum') c' →
      sum % 4 = 0 → sum = wsSum p acc →
      AdvBy c c' (sum' - sum) ∧ sum ≤ sum' ∧ sum' = wsSum p out ∧ sum' % 4 = 0 := by
  intro k
  induction k with
  | zero =>
    intro c sum acc out sum' c' h hm hs
    simp only [arrLoop] at h; cases h
    exact ⟨by simpa using AdvBy.refl c, Nat.le_refl _, hs, hm⟩
  | succ k ih =>
    intro c sum acc out sum' c' h hm hs
    simp only [arrLoop] at h
    split at h
    · rename_i t ct hdec
      split at h
      · cases h
      · rename_i hlt
        obtain ⟨_, _, _, tm⟩ := hd _ _ _ hdec
        have hsnoc : wsSum p (acc.snoc t) = wsSum p acc + wsVal p t := wsSum_snoc p acc t
        obtain ⟨a2, le2, e2, m2⟩ := ih _ _ _ _ _ _ h (by omega) (by rw [hsnoc, hs])
        have a1 : AdvBy c { c.advance (wsVal p t) with log := ct.log } (wsVal p t) := ⟨by omega, rfl, rfl, tm⟩
        exact ⟨(a1.trans a2).of_eq (by omega), by omega, e2, m2⟩
    · cases h
    · cases h
    · cases h
    · cases h

theorem readVariableArray_advBy (p : Plans) {dec m c v c'}
    (hd : ∀ c v c', dec c = .ok v c' → AdvBy c c' (wsVal p v))
    (h : readVariableArray dec (wsVal p) m c = .ok v c') : AdvBy c c' (wsVal p v) := by
  unfold readVariableArray at h
  obtain ⟨n, c1, h1, h2⟩ := Res.bind_eq_ok h
  split at h2
  · cases h2
  · obtain ⟨⟨out, sum⟩, c3, h3, h4⟩ := Res.bind_eq_ok h2
    simp only at h4
    split at h4
    · cases h4
    · rename_i hlt
      obtain ⟨u, c4, h5, h6⟩ := Res.bind_eq_ok h4
      cases h6
      simp only [advanceP] at h5
      split at h5
      · cases h5
      · cases h5
        have a1 := readU32_advBy h1
        obtain ⟨a3, _, e3, m3⟩ := arrLoop_advBy p dec hd n _ 0 .nil out sum c3 h3 rfl (by simp [wsSum])
        have hp0 : padLen sum = 0 := padLen_of_mod sum m3
        simp only [wsVal, ← e3, hp0, Cur.advance_zero]
        have a2 : AdvBy c1 (c1.addLog (.vec (min n c1.remaining))) 0 := AdvBy.refl c1
        exact (a1.trans (a2.trans a3)).of_eq (by omega)


theorem selectArm_mem' {a : Ast} {s : Val} {arms : List Arm} {arm : Arm} (h : selectArm a s arms = some arm) :
    arm ∈ arms := by
  induction arms with
  | nil => simp [selectArm] at h
  | cons x rest ih =>
    simp only [selectArm] at h
    split at h
    · cases h; exact List.mem_cons_self
    · exact List.mem_cons_of_mem _ (ih h)

/-- the discriminant of a union occupies one word: a 32-bit primitive or a declared enum -/
def discIsWord (p : Plans) : BasicDec → Bool
  | .prim .u32 => true | .prim .i32 => true | .prim .bool => true | .prim .f32 => true
  | .tryFrom n => (match p.findImpl n with | some ⟨_, _, .enum _⟩ => true | _ => false)
  | _ => false

/-- `SizeExact` plus: union discriminants are one word (the size impl says `4 + …`) -/
def Plans.SizeExact' (p : Plans) : Bool :=
  p.SizeExact && p.impls.all fun i => match i.body with | .union u => discIsWord p u.disc | _ => true

theorem evalImpl_enum_shape {a p f n c v c'} {i : Impl} {arms} (hi : p.findImpl n = some i) (hb : i.body = .enum arms)
    (h : evalImpl a p (f + 1) n c = .ok v c') : ∃ m, v = .cenum n m := by
  simp only [evalImpl, hi, hb] at h
  obtain ⟨x, c1, _, h2⟩ := Res.bind_eq_ok h
  split at h2
  · cases h2; exact ⟨_, rfl⟩
  · cases h2

theorem sizeFieldMatches_plain {fd : FieldDec} {nm : String} {sf : SizeField} (h : sizeFieldMatches (.plain nm fd) sf = true)
    (p : Plans) (v : Val) :
    fieldShapeOk fd = true ∧
    fieldConsumed p fd v = wsVal p v + (if sf.pad then padLen (wsVal p v) else 0) + (if sf.plus4 then 4 else 0) := by
  simp only [sizeFieldMatches, Bool.and_eq_true] at h
  refine ⟨h.1, ?_⟩
  have h2 := h.2
  cases fd with
  | one b =>
    match b, h2 with
    | .prim _, h2 => simp at h2; simp [fieldConsumed, basicConsumed, h2.1, h2.2]
    | .string, h2 => simp at h2; simp [fieldConsumed, basicConsumed, h2.1, h2.2]
    | .tryFrom _, h2 => simp at h2; simp [fieldConsumed, basicConsumed, h2.1, h2.2]
    | .opaque, h2 => simp at h2
  | fixedBytes n => simp at h2; simp [fieldConsumed, h2.1, h2.2]
  | fixedArr n b => simp at h2; simp [fieldConsumed, h2.1, h2.2]
  | varBytes m => simp at h2; simp [fieldConsumed, h2.1, h2.2]; omega
  | varString m => simp at h2; simp [fieldConsumed, h2.1, h2.2]
  | varArr ty g m => simp at h2; simp [fieldConsumed, h2.1, h2.2]

theorem eval_consumed (a : Ast) (p : Plans) (hp : p.SizeExact' = true) (fuel : Nat) :
    (∀ n c v c', evalImpl a p fuel n c = .ok v c' → AdvBy c c' (wsVal p v)) ∧
    (∀ b c v c', evalBasic a p fuel b c = .ok v c' → AdvBy c c' (basicConsumed p b v)) ∧
    (∀ fd c v c', fieldShapeOk fd = true → evalField a p fuel fd c = .ok v c' → AdvBy c c' (fieldConsumed p fd v)) ∧
    (∀ k b c vs c', isOpaqueDec b = false → evalRepeat a p fuel k b c = .ok vs c' → AdvBy c c' (wsSum p vs)) ∧
    (∀ fs sfs c vs c', sizeFieldsMatch fs sfs = true → evalFields a p fuel fs c = .ok vs c' → AdvBy c c' (wsFields p sfs vs)) := by
  have hp1 : p.SizeExact = true := by simp only [Plans.SizeExact', Bool.and_eq_true] at hp; exact hp.1
  have hp2 : ∀ i ∈ p.impls, (match i.body with | .union u => discIsWord p u.disc | _ => true) = true := by
    simp only [Plans.SizeExact', Bool.and_eq_true] at hp
    exact fun i hi => (List.all_eq_true.mp hp.2) i hi
  induction fuel with
  | zero => refine ⟨?_, ?_, ?_, ?_, ?_⟩ <;> intros <;> simp [evalImpl, evalBasic, evalField, evalRepeat, evalFields] at *
  | succ f ih =>
    obtain ⟨ihI, ihB, ihF, ihR, ihFs⟩ := ih
    refine ⟨?_, ?_, ?_, ?_, ?_⟩
    · intro n c v c' h
      cases hfi : p.findImpl n with
      | none => simp [evalImpl, hfi] at h
      | some i =>
        obtain ⟨hse, hname⟩ := Plans.findImpl_sizeExact hp1 hfi
        have hmem : i ∈ p.impls := List.mem_of_find?_eq_some hfi
        subst hname
        simp only [evalImpl, hfi] at h
        simp only [implSizeExact] at hse
        cases hfs : p.findSize i.name with
        | none => simp [hfs] at hse
        | some s =>
          simp only [hfs] at hse
          cases hb : i.body with
          | struct fs =>
            simp only [hb] at h hse
            cases hsb : s.body with
            | struct sfs =>
              simp only [hsb] at hse
              obtain ⟨vs, c1, h1, h2⟩ := Res.bind_eq_ok h
              cases h2
              have := ihFs fs sfs c vs c' hse h1
              have hs : s = ⟨s.name, s.generic, .struct sfs⟩ := by cases s; simp_all
              simp only [wsVal, hfs]
              rw [hs]
              exact this
            | union _ => simp [hsb] at hse
            | enum => simp [hsb] at hse
            | typedef _ _ => simp [hsb] at hse
          | union u =>
            simp only [hb] at h hse
            have hdisc := hp2 i hmem
            simp only [hb] at hdisc
            cases hsb : s.body with
            | union sarms =>
              simp only [hsb, Bool.and_eq_true] at hse
              obtain ⟨harms, htail⟩ := hse
              have hs : s = ⟨s.name, s.generic, .union sarms⟩ := by cases s; simp_all
              obtain ⟨d, c1, h1, h2⟩ := Res.bind_eq_ok h
              -- the discriminant occupies one word
              have hd4 : AdvBy c c1 4 := by
                have hB := ihB _ _ _ _ h1
                match hud : u.disc, hdisc, hB, h1 with
                | .prim .u32, _, hB, h1 =>
                  cases f with
                  | zero => simp [hud, evalBasic] at h1
                  | succ f' =>
                    simp only [hud, evalBasic, readPrim] at h1
                    obtain ⟨x, hx, hx2⟩ := Res.map_eq_ok h1
                    exact readU32_advBy hx
                | .prim .i32, _, hB, h1 =>
                  cases f with
                  | zero => simp [hud, evalBasic] at h1
                  | succ f' =>
                    simp only [hud, evalBasic, readPrim] at h1
                    obtain ⟨x, hx, hx2⟩ := Res.map_eq_ok h1
                    obtain ⟨y, hy, _⟩ := Res.map_eq_ok hx
                    exact readU32_advBy hy
                | .prim .f32, _, hB, h1 =>
                  cases f with
                  | zero => simp [hud, evalBasic] at h1
                  | succ f' =>
                    simp only [hud, evalBasic, readPrim] at h1
                    obtain ⟨x, hx, hx2⟩ := Res.map_eq_ok h1
                    exact readU32_advBy hx
                | .prim .bool, _, hB, h1 =>
                  cases f with
                  | zero => simp [hud, evalBasic] at h1
                  | succ f' =>
                    simp only [hud, evalBasic] at h1
                    have := readPrim_advBy p h1
                    obtain ⟨x, hx, hx2⟩ := Res.map_eq_ok h1
                    subst hx2
                    simpa [wsVal] using this
                | .tryFrom en, hdisc, hB, h1 =>
                  simp only [discIsWord] at hdisc
                  cases hfe : p.findImpl en with
                  | none => simp [hfe] at hdisc
                  | some ei =>
                    cases f with
                    | zero => simp [hud, evalBasic] at h1
                    | succ f' =>
                      simp only [hud, evalBasic] at h1
                      have hbody : ∃ arms, ei.body = .enum arms := by
                        simp only [hfe] at hdisc
                        cases ei with
                        | mk nm g body =>
                          cases body <;> simp at hdisc
                          exact ⟨_, rfl⟩
                      obtain ⟨earms, hbe⟩ := hbody
                      cases f' with
                      | zero => simp [evalImpl] at h1
                      | succ f'' =>
                        obtain ⟨m, hm⟩ := evalImpl_enum_shape hfe hbe h1
                        have := ihB (.tryFrom en) c d c1 (by simp only [evalBasic]; exact h1)
                        simpa [basicConsumed, hm, wsVal] using this
                | .prim .u64, hdisc, _, _ => simp [discIsWord] at hdisc
                | .prim .i64, hdisc, _, _ => simp [discIsWord] at hdisc
                | .prim .f64, hdisc, _, _ => simp [discIsWord] at hdisc
                | .string, hdisc, _, _ => simp [discIsWord] at hdisc
                | .opaque, hdisc, _, _ => simp [discIsWord] at hdisc
              -- the arm
              have armCase : ∀ (variant : String) (fd : FieldDec) (v2 : Val) (c2 : Cur),
                  armSizeOk sarms variant (some fd) = true → evalField a p f fd c1 = .ok v2 c2 →
                  AdvBy c c2 (wsVal p (.tuple i.name (nonDigitName variant) v2)) := by
                intro variant fd v2 c2 hok hev
                simp only [armSizeOk, Bool.and_eq_true] at hok
                obtain ⟨hshape, hrest⟩ := hok
                have hF := ihF fd c1 v2 c2 hshape hev
                cases fd with
                | one b =>
                  match b, hrest, hF with
                  | .opaque, hrest, _ => simp at hrest
                  | .prim pr, hrest, hF =>
                    simp only at hrest
                    split at hrest
                    · rename_i heq
                      simp only [wsVal, hfs]
                      rw [hs]
                      simp only [heq]
                      exact (hd4.trans hF).of_eq (by simp [fieldConsumed, basicConsumed])
                    · cases hrest
                  | .string, hrest, hF =>
                    simp only at hrest
                    split at hrest
                    · rename_i heq
                      simp only [wsVal, hfs]
                      rw [hs]
                      simp only [heq]
                      exact (hd4.trans hF).of_eq (by simp [fieldConsumed, basicConsumed])
                    · cases hrest
                  | .tryFrom tn, hrest, hF =>
                    simp only at hrest
                    split at hrest
                    · rename_i heq
                      simp only [wsVal, hfs]
                      rw [hs]
                      simp only [heq]
                      exact (hd4.trans hF).of_eq (by simp [fieldConsumed, basicConsumed])
                    · cases hrest
                | fixedBytes _ => simp at hrest
                | fixedArr _ _ => simp at hrest
                | varBytes _ => simp at hrest
                | varString _ => simp at hrest
                | varArr _ _ _ => simp at hrest
              split at h2
              · rename_i arm harm
                have hmemA := selectArm_mem' harm
                have hok := (List.all_eq_true.mp harms) arm hmemA
                split at h2
                · rename_i fd hpay
                  obtain ⟨v2, c2, h3, h4⟩ := Res.bind_eq_ok h2
                  cases h4
                  rw [hpay] at hok
                  exact armCase arm.variant fd v2 c' hok h3
                · cases h2
                  simpa [wsVal] using hd4
              · split at h2
                · rename_i fd htl
                  obtain ⟨v2, c2, h3, h4⟩ := Res.bind_eq_ok h2
                  cases h4
                  rw [htl] at htail
                  have := armCase "default" fd v2 c' htail h3
                  simpa [nonDigitName] using this
                · cases h2
                · cases h2
            | struct _ => simp [hsb] at hse
            | enum => simp [hsb] at hse
            | typedef _ _ => simp [hsb] at hse
          | enum arms =>
            simp only [hb] at h
            obtain ⟨x, c1, h1, h2⟩ := Res.bind_eq_ok h
            obtain ⟨y, hy, _⟩ := Res.map_eq_ok h1
            split at h2
            · cases h2; simpa [wsVal] using readU32_advBy hy
            · cases h2
          | typedef fd =>
            simp only [hb] at h hse
            cases hsb : s.body with
            | typedef opq plus4 =>
              simp only [hsb, Bool.and_eq_true] at hse
              obtain ⟨hshape, hrest⟩ := hse
              have hs : s = ⟨s.name, s.generic, .typedef opq plus4⟩ := by cases s; simp_all
              obtain ⟨v2, c1, h1, h2⟩ := Res.bind_eq_ok h
              cases h2
              have hF := ihF fd c v2 c' hshape h1
              simp only [wsVal, hfs]
              rw [hs]
              simp only
              cases fd with
              | one b =>
                match b, hrest, hF with
                | .opaque, hrest, hF =>
                  simp at hrest; simp only [hrest.1, hrest.2, if_true]
                  exact hF.of_eq (by simp [fieldConsumed, basicConsumed]; omega)
                | .prim _, hrest, hF => simp at hrest; simp only [hrest]; exact hF.of_eq (by simp [fieldConsumed, basicConsumed])
                | .string, hrest, hF => simp at hrest; simp only [hrest]; exact hF.of_eq (by simp [fieldConsumed, basicConsumed])
                | .tryFrom _, hrest, hF => simp at hrest; simp only [hrest]; exact hF.of_eq (by simp [fieldConsumed, basicConsumed])
              | fixedBytes _ => simp at hrest; simp only [hrest.1, hrest.2, if_true]; exact hF.of_eq (by simp [fieldConsumed])
              | fixedArr _ _ => simp at hrest; simp only [hrest]; exact hF.of_eq (by simp [fieldConsumed])
              | varBytes _ => simp at hrest; simp only [hrest.1, hrest.2, if_true]; exact hF.of_eq (by simp [fieldConsumed]; omega)
              | varString _ => simp at hrest; simp only [hrest]; exact hF.of_eq (by simp [fieldConsumed])
              | varArr _ _ _ => simp at hrest; simp only [hrest]; exact hF.of_eq (by simp [fieldConsumed])
            | struct _ => simp [hsb] at hse
            | union _ => simp [hsb] at hse
            | enum => simp [hsb] at hse
    · intro b c v c' h
      match b, h with
      | .prim pr, h => simp only [evalBasic] at h; exact readPrim_advBy p h
      | .string, h => simp only [evalBasic] at h; exact readString_advBy p h
      | .opaque, h => simp only [evalBasic] at h; exact readVariableBytes_advBy p h
      | .tryFrom n, h => simp only [evalBasic] at h; exact ihI _ _ _ _ h
    · intro fd c v c' hshape h
      cases fd with
      | one b => simp only [evalField] at h; exact ihB _ _ _ _ h
      | fixedBytes n => simp only [evalField] at h; exact (readBytes_advBy p h).1
      | fixedArr n b =>
        simp only [evalField] at h
        obtain ⟨vs, c1, h1, h2⟩ := Res.bind_eq_ok h
        cases h2
        simp only [fieldShapeOk, Bool.and_eq_true, Bool.not_eq_true'] at hshape
        have := ihR n b c vs c' hshape.1 h1
        have hm := this.2.2.2
        simp only [fieldConsumed, wsVal, padLen_of_mod _ hm, Nat.add_zero]
        exact this
      | varBytes m => simp only [evalField] at h; exact readVariableBytes_advBy p h
      | varString m => simp only [evalField] at h; exact readString_advBy p h
      | varArr ty g m =>
        simp only [evalField] at h
        exact readVariableArray_advBy p (fun c v c' hh => ihI ty c v c' hh) h
    · intro k b c vs c' hb h
      cases k with
      | zero => simp only [evalRepeat] at h; cases h; simpa [wsSum] using AdvBy.refl c
      | succ k =>
        simp only [evalRepeat] at h
        obtain ⟨v, c1, h1, h2⟩ := Res.bind_eq_ok h
        obtain ⟨vs2, c2, h3, h4⟩ := Res.bind_eq_ok h2
        cases h4
        have a1 := ihB _ _ _ _ h1
        have hbc : basicConsumed p b v = wsVal p v := by
          match b, hb with
          | .prim _, _ => rfl
          | .string, _ => rfl
          | .tryFrom _, _ => rfl
          | .opaque, hb => simp [isOpaqueDec] at hb
        rw [hbc] at a1
        simpa [wsSum] using a1.trans (ihR _ _ _ _ _ hb h3)
    · intro fs sfs c vs c' hm h
      cases fs with
      | nil =>
        simp only [evalFields] at h; cases h
        simpa [wsFields] using AdvBy.refl c
      | cons fld rest =>
        cases sfs with
        | nil => simp [sizeFieldsMatch] at hm
        | cons sf srest =>
          simp only [sizeFieldsMatch, Bool.and_eq_true] at hm
          simp only [evalFields] at h
          obtain ⟨v, c1, h1, h2⟩ := Res.bind_eq_ok h
          obtain ⟨vs2, c2, h3, h4⟩ := Res.bind_eq_ok h2
          cases h4
          have arest := ihFs rest srest c1 vs2 c' hm.2 h3
          simp only [wsFields]
          cases fld with
          | plain nm fd =>
            obtain ⟨hshape, hcons⟩ := sizeFieldMatches_plain hm.1 p v
            have a1 := ihF fd c v c1 hshape h1
            rw [hcons] at a1
            exact a1.trans arest
          | optional nm ty =>
            simp only [sizeFieldMatches, Bool.and_eq_true, Bool.not_eq_true'] at hm
            simp only at h1
            obtain ⟨m, cm, h5, h6⟩ := Res.bind_eq_ok h1
            have am := readU32_advBy h5
            simp only [hm.1.1, hm.1.2, Bool.false_eq_true, if_false, Nat.add_zero]
            split at h6
            · cases h6
              exact (am.trans arest).of_eq (by simp [wsVal])
            · split at h6
              · obtain ⟨v3, c3, h7, h8⟩ := Res.bind_eq_ok h6
                cases h8
                have ai := ihI _ _ _ _ h7
                exact ((am.trans (ai.addLog _)).trans arest).of_eq (by simp [wsVal])
              · cases h6

end Fx
