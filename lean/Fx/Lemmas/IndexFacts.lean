/-
  Fx.Lemmas.IndexFacts — what the three indexes of every `Ast` the front end builds look like.

  `Supported` (the hypothesis of the specification-level theorems) has two kinds of conjuncts: conditions on the *content* of the
  specification (which constructs it uses) and conditions on the *shape of the indexes* (`keysOk`: the type index is keyed by the
  declarations' own names and strictly sorted; `enumConstsOk`: every enum member is in the constant index under its own name,
  pointing at its enum; `constsWellFormed`: every enum entry of the constant index names a member of a declared enum).  The
  second kind is not a condition on the specification at all: this file proves it of `Ast.ofItems items` for every item list
  whose type names are declared once — `TypeIndex::new` and `ConstantIndex::new` (sorted insertion, overwrite / panic on
  duplicates) build exactly that.
-/
import Fx.Index
import Fx.Supported
namespace Fx

/-! ### sorted insertion -/

theorem str_tri (a b : String) : a < b ∨ a = b ∨ b < a := by
  by_cases h : a < b
  · exact Or.inl h
  · have h1 := String.not_lt.mp h
    by_cases h2 : b < a
    · exact Or.inr (Or.inr h2)
    · have h3 := String.not_lt.mp h2
      exact Or.inr (Or.inl (String.le_antisymm h3 h1))

/-- strictly increasing keys -/
def SortedK {α} (m : List (String × α)) : Prop := m.Pairwise (fun x y => x.1 < y.1)

theorem mem_bins' {α} (k : String) (v : α) : ∀ (m : List (String × α)) (x : String × α), x ∈ bins k v m → x = (k, v) ∨ x ∈ m := by
  intro m
  induction m with
  | nil => intro x h; simp only [bins, List.mem_singleton] at h; exact Or.inl h
  | cons y ys ih =>
    intro x h
    obtain ⟨k', v'⟩ := y
    simp only [bins] at h
    split at h
    · rcases List.mem_cons.mp h with h | h
      · exact Or.inl h
      · exact Or.inr h
    · split at h
      · rcases List.mem_cons.mp h with h | h
        · exact Or.inl h
        · exact Or.inr (List.mem_cons_of_mem _ h)
      · rcases List.mem_cons.mp h with h | h
        · exact Or.inr (h ▸ List.mem_cons_self)
        · rcases ih x h with h | h
          · exact Or.inl h
          · exact Or.inr (List.mem_cons_of_mem _ h)

theorem sorted_bins {α} (k : String) (v : α) : ∀ (m : List (String × α)), SortedK m → SortedK (bins k v m) := by
  intro m
  induction m with
  | nil => intro _; simp [bins, SortedK]
  | cons y ys ih =>
    intro hs
    obtain ⟨k', v'⟩ := y
    have hs' := List.pairwise_cons.mp hs
    simp only [bins]
    split
    · rename_i hlt
      refine List.pairwise_cons.mpr ⟨?_, hs⟩
      intro x hx
      rcases List.mem_cons.mp hx with rfl | hx
      · exact hlt
      · exact String.lt_trans hlt (hs'.1 x hx)
    · split
      · rename_i heq
        subst heq
        exact List.pairwise_cons.mpr ⟨hs'.1, hs'.2⟩
      · rename_i hnlt hne
        have hgt : k' < k := by
          rcases str_tri k k' with h | h | h
          · exact absurd h hnlt
          · exact absurd h hne
          · exact h
        refine List.pairwise_cons.mpr ⟨?_, ih hs'.2⟩
        intro x hx
        rcases mem_bins' k v ys x hx with rfl | hx
        · exact hgt
        · exact hs'.1 x hx

theorem sorted_foldl_bins {α} : ∀ (es m : List (String × α)), SortedK m → SortedK (es.foldl (fun m kv => bins kv.1 kv.2 m) m) := by
  intro es
  induction es with
  | nil => intro m h; exact h
  | cons e rest ih => intro m h; exact ih _ (sorted_bins e.1 e.2 m h)

theorem mem_foldl_bins' {α} : ∀ (es m : List (String × α)) (x : String × α),
    x ∈ es.foldl (fun m kv => bins kv.1 kv.2 m) m → x ∈ es ∨ x ∈ m := by
  intro es
  induction es with
  | nil => intro m x h; exact Or.inr h
  | cons e rest ih =>
    intro m x h
    simp only [List.foldl_cons] at h
    rcases ih _ x h with h | h
    · exact Or.inl (List.mem_cons_of_mem _ h)
    · rcases mem_bins' e.1 e.2 m x h with h | h
      · exact Or.inl (h ▸ List.mem_cons_self)
      · exact Or.inr h

theorem keysSorted_of_sortedK : ∀ (m : List (String × AstType)), SortedK m → keysSorted m = true := by
  intro m
  induction m with
  | nil => intro _; rfl
  | cons a rest ih =>
    intro h
    cases rest with
    | nil => rfl
    | cons b rest' =>
      have h' := List.pairwise_cons.mp h
      simp only [keysSorted, Bool.and_eq_true, decide_eq_true_eq]
      exact ⟨h'.1 b List.mem_cons_self, ih h'.2⟩

/-- in a strictly sorted association list, membership is lookup -/
theorem bget_of_mem_sortedK {α} : ∀ (m : List (String × α)), SortedK m → ∀ (k : String) (v : α), (k, v) ∈ m → bget k m = some v := by
  intro m
  induction m with
  | nil => intro _ k v h; cases h
  | cons y ys ih =>
    intro hs k v h
    obtain ⟨k', v'⟩ := y
    have hs' := List.pairwise_cons.mp hs
    simp only [bget]
    rcases List.mem_cons.mp h with h | h
    · cases h; simp
    · have hlt : k' < k := hs'.1 (k, v) h
      have hne : k ≠ k' := fun e => by subst e; exact String.lt_irrefl _ hlt
      simp only [hne, if_false]
      exact ih hs'.2 k v h

/-! ### the type index -/

theorem typeEntry_key {item : Item} {k : String} {v : AstType} (h : typeEntry item = some (k, v)) : k = v.rustName := by
  cases item <;> simp only [typeEntry] at h <;> (try cases h) <;> rfl

theorem typeIndex_sorted (items : List Item) : SortedK (TypeIndex.new items) :=
  sorted_foldl_bins _ [] List.Pairwise.nil

theorem typeIndex_mem (items : List Item) (kv : String × AstType) (h : kv ∈ TypeIndex.new items) :
    ∃ item ∈ items, typeEntry item = some kv := by
  rcases mem_foldl_bins' _ _ kv h with h | h
  · exact List.mem_filterMap.mp h
  · cases h

/-- when the type names are declared once, every declaration is in the index under its name -/
theorem typeIndex_complete (items : List Item) (hd : (items.filterMap typeEntry).Pairwise (fun x y => x.1 ≠ y.1))
    (kv : String × AstType) (h : kv ∈ items.filterMap typeEntry) : bget kv.1 (TypeIndex.new items) = some kv.2 := by
  have key : ∀ (es m : List (String × AstType)), es.Pairwise (fun x y => x.1 ≠ y.1) → SortedK m →
      (kv ∈ es ∨ (kv ∈ m ∧ ∀ e ∈ es, e.1 ≠ kv.1)) → kv ∈ es.foldl (fun m e => bins e.1 e.2 m) m := by
    intro es
    induction es with
    | nil => intro m _ _ h; rcases h with h | h; · cases h
             · exact h.1
    | cons e rest ih =>
      intro m hp hs h
      have hp' := List.pairwise_cons.mp hp
      simp only [List.foldl_cons]
      refine ih _ hp'.2 (sorted_bins e.1 e.2 m hs) ?_
      rcases h with h | h
      · rcases List.mem_cons.mp h with h | h
        · subst h
          -- the inserted pair is in the result, and no later entry has its key
          have ins : ∀ (m : List (String × AstType)), (kv.1, kv.2) ∈ bins kv.1 kv.2 m := by
            intro m
            induction m with
            | nil => simp [bins]
            | cons y ys ihm =>
              obtain ⟨k', v'⟩ := y
              simp only [bins]
              split
              · exact List.mem_cons_self
              · split
                · exact List.mem_cons_self
                · exact List.mem_cons_of_mem _ ihm
          exact Or.inr ⟨ins m, fun x hx => (hp'.1 x hx).symm⟩
        · exact Or.inl h
      · refine Or.inr ⟨?_, fun x hx => h.2 x (List.mem_cons_of_mem _ hx)⟩
        -- inserting a different key keeps `kv`
        have hne : e.1 ≠ kv.1 := h.2 e List.mem_cons_self
        have : ∀ (m : List (String × AstType)), kv ∈ m → kv ∈ bins e.1 e.2 m := by
          intro m
          induction m with
          | nil => intro h; cases h
          | cons y ys ihm =>
            intro hin
            obtain ⟨k', v'⟩ := y
            simp only [bins]
            split
            · exact List.mem_cons_of_mem _ hin
            · split
              · rename_i heq
                rcases List.mem_cons.mp hin with hin | hin
                · exfalso; apply hne; rw [heq, hin]
                · exact List.mem_cons_of_mem _ hin
              · rcases List.mem_cons.mp hin with hin | hin
                · exact hin ▸ List.mem_cons_self
                · exact List.mem_cons_of_mem _ (ihm hin)
        exact this m h.1
  have hmem := key _ [] hd List.Pairwise.nil (Or.inl h)
  exact bget_of_mem_sortedK _ (typeIndex_sorted items) kv.1 kv.2 hmem

/-! ### the constant index -/

/-- a successful `ConstantIndex::new` holds exactly the entries it was given, each under its key -/
theorem constInsertAll_spec : ∀ (es m cs : List (String × ConstantType)), SortedK m → constInsertAll es m = .ok cs →
    SortedK cs ∧ (∀ x, x ∈ cs ↔ (x ∈ es ∨ x ∈ m)) := by
  intro es
  induction es with
  | nil =>
    intro m cs hs h
    simp only [constInsertAll] at h; cases h
    exact ⟨hs, fun x => by simp⟩
  | cons e rest ih =>
    intro m cs hs h
    obtain ⟨k, v⟩ := e
    simp only [constInsertAll] at h
    split at h
    · cases h
    · rename_i hfresh
      obtain ⟨hs', hmem⟩ := ih (bins k v m) cs (sorted_bins k v m hs) h
      refine ⟨hs', fun x => ?_⟩
      rw [hmem x]
      constructor
      · rintro (h1 | h1)
        · exact Or.inl (List.mem_cons_of_mem _ h1)
        · rcases mem_bins' k v m x h1 with h1 | h1
          · exact Or.inl (h1 ▸ List.mem_cons_self)
          · exact Or.inr h1
      · rintro (h1 | h1)
        · rcases List.mem_cons.mp h1 with h1 | h1
          · right
            subst h1
            -- the fresh key is inserted
            have : ∀ (m : List (String × ConstantType)), (k, v) ∈ bins k v m := by
              intro m
              induction m with
              | nil => simp [bins]
              | cons y ys ihm =>
                obtain ⟨k', v'⟩ := y
                simp only [bins]
                split
                · exact List.mem_cons_self
                · split
                  · exact List.mem_cons_self
                  · exact List.mem_cons_of_mem _ ihm
            exact this m
          · exact Or.inl h1
        · right
          -- `k` is not a key of `m` (it was fresh), so nothing of `m` is overwritten
          have hk : ∀ y ∈ m, y.1 ≠ k := by
            intro y hy e
            have hg := bget_of_mem_sortedK m hs y.1 y.2 hy
            rw [e] at hg
            exact hfresh (by simp [bhas, hg])
          have : ∀ (m : List (String × ConstantType)), (∀ y ∈ m, y.1 ≠ k) → x ∈ m → x ∈ bins k v m := by
            intro m
            induction m with
            | nil => intro _ h; cases h
            | cons y ys ihm =>
              intro hk hin
              obtain ⟨k', v'⟩ := y
              simp only [bins]
              split
              · exact List.mem_cons_of_mem _ hin
              · split
                · rename_i heq
                  exact absurd heq.symm (hk (k', v') List.mem_cons_self)
                · rcases List.mem_cons.mp hin with hin | hin
                  · exact hin ▸ List.mem_cons_self
                  · exact List.mem_cons_of_mem _ (ihm (fun y hy => hk y (List.mem_cons_of_mem _ hy)) hin)
          exact this m hk h1

theorem constIndex_spec (items : List Item) (cs : List (String × ConstantType)) (h : ConstantIndex.new items = .ok cs) :
    SortedK cs ∧ ∀ x, x ∈ cs ↔ x ∈ constEntries items := by
  obtain ⟨hs, hm⟩ := constInsertAll_spec (constEntries items) [] cs List.Pairwise.nil h
  exact ⟨hs, fun x => by rw [hm x]; simp⟩

theorem constEntries_enum_mem : ∀ (items : List Item) (e : Enum), Item.enum e ∈ items → ∀ v ∈ e.variants,
    (v.name, ConstantType.enumValue e.name v.name) ∈ constEntries items := by
  intro items
  induction items with
  | nil => intro e h; cases h
  | cons it rest ih =>
    intro e h v hv
    rcases List.mem_cons.mp h with h | h
    · subst h
      simp only [constEntries, List.mem_append, List.mem_map]
      exact Or.inl ⟨v, hv, rfl⟩
    · have := ih e h v hv
      cases it <;> simp only [constEntries, List.mem_cons, List.mem_append] <;> first | exact Or.inr this | exact this

theorem constEntries_enum_inv : ∀ (items : List Item) (k e v : String), (k, ConstantType.enumValue e v) ∈ constEntries items →
    v = k ∧ ∃ en, Item.enum en ∈ items ∧ en.name = e ∧ ∃ var ∈ en.variants, var.name = k := by
  intro items
  induction items with
  | nil => intro k e v h; simp [constEntries] at h
  | cons it rest ih =>
    intro k e v h
    have lift : (v = k ∧ ∃ en, Item.enum en ∈ rest ∧ en.name = e ∧ ∃ var ∈ en.variants, var.name = k) →
        v = k ∧ ∃ en, Item.enum en ∈ it :: rest ∧ en.name = e ∧ ∃ var ∈ en.variants, var.name = k := by
      rintro ⟨h1, en, h2, h3⟩
      exact ⟨h1, en, List.mem_cons_of_mem _ h2, h3⟩
    cases it with
    | constant n val =>
      simp only [constEntries, List.mem_cons] at h
      rcases h with h | h
      · cases h
      · exact lift (ih k e v h)
    | enum en =>
      simp only [constEntries, List.mem_append, List.mem_map] at h
      rcases h with ⟨var, hvar, heq⟩ | h
      · cases heq
        exact ⟨rfl, en, List.mem_cons_self, rfl, var, hvar, rfl⟩
      · exact lift (ih k e v h)
    | typedef t => simp only [constEntries] at h; exact lift (ih k e v h)
    | struct s => simp only [constEntries] at h; exact lift (ih k e v h)
    | union u => simp only [constEntries] at h; exact lift (ih k e v h)

/-! ### the index conjuncts of `Supported`, for every front-end `Ast` -/

/-- **the index-shape conjuncts of `Supported` hold for every `Ast` the front end builds** (type names declared once): the type
    index is keyed by the declarations' own names and strictly sorted; every enum member is in the constant index under its own
    name, pointing at its enum; every enum entry of the constant index names a member of a declared enum -/
theorem index_facts_of_front_end (items : List Item) (a : Ast) (ha : Ast.ofItems items = .ok a)
    (hd : (items.filterMap typeEntry).Pairwise (fun x y => x.1 ≠ y.1)) :
    (∀ kv ∈ a.types, kv.1 = kv.2.rustName) ∧ keysSorted a.types = true ∧ enumConstsOk a = true ∧ constsWellFormed a = true := by
  unfold Ast.ofItems at ha
  cases hc : ConstantIndex.new items with
  | panicAt f m => simp [hc] at ha
  | ok cs =>
    simp only [hc, Out.bind_ok] at ha
    cases ha
    obtain ⟨hcs, hcm⟩ := constIndex_spec items cs hc
    refine ⟨?_, keysSorted_of_sortedK _ (typeIndex_sorted items), ?_, ?_⟩
    · intro kv hkv
      obtain ⟨item, _, hentry⟩ := typeIndex_mem items kv hkv
      exact typeEntry_key (k := kv.1) (v := kv.2) hentry
    · simp only [enumConstsOk, List.all_eq_true]
      intro kv hkv
      obtain ⟨item, hitem, hentry⟩ := typeIndex_mem items kv hkv
      cases item with
      | enum e =>
        simp only [typeEntry] at hentry; cases hentry
        simp only [List.all_eq_true, decide_eq_true_eq]
        intro v hv
        exact bget_of_mem_sortedK cs hcs _ _ ((hcm _).mpr (constEntries_enum_mem items e hitem v hv))
      | constant n v => simp [typeEntry] at hentry
      | typedef t => simp only [typeEntry] at hentry; cases hentry; rfl
      | struct s => simp only [typeEntry] at hentry; cases hentry; rfl
      | union u => simp only [typeEntry] at hentry; cases hentry; rfl
    · simp only [constsWellFormed, List.all_eq_true]
      intro kv hkv
      obtain ⟨k, c⟩ := kv
      cases c with
      | constValue t => rfl
      | enumValue e v =>
        obtain ⟨hvk, en, hen, hname, var, hvar, hvn⟩ := constEntries_enum_inv items k e v ((hcm _).mp hkv)
        have hidx : bget e (TypeIndex.new items) = some (.enum en) := by
          have := typeIndex_complete items hd (en.name, .enum en) (List.mem_filterMap.mpr ⟨_, hen, rfl⟩)
          simpa [hname] using this
        simp only [hvk, beq_self_eq_true, Bool.true_and, hidx, List.any_eq_true, beq_iff_eq]
        exact ⟨var, hvar, hvn⟩

end Fx
