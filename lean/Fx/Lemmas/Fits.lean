/-
  Fx.Lemmas.Fits — the three emitters agree: for every supported specification the decoder emitted for a declaration
  produces exactly the type the type emitter declared for it (`implFits`, the type part of the judgement `outputOk` that
  stands in for rustc): same parameter list, every struct field of its declared type in order, every union arm's payload of
  its variant's type and its pattern well-typed against the discriminant, every enum arm a declared member, the newtype's
  inner type.  "Golden strings per emitter cannot reveal that two of them disagree" — this is that agreement, for all
  supported specifications.
-/
import Fx.OutputOk
import Fx.Supported
import Fx.Lemmas.EmitPlans
import Fx.Lemmas.Selects
namespace Fx

/-! ### looking a declaration up in the emitted module -/

theorem emitTypeDecl_name {a : Ast} {ty : AstType} {d : TypeDecl} (h : emitTypeDecl a ty = some d) :
    declName d = ty.rustName ∧ isTypeDecl d = true := by
  cases ty with
  | struct s => simp only [emitTypeDecl] at h; cases h; exact ⟨rfl, rfl⟩
  | union u => simp only [emitTypeDecl] at h; cases h; exact ⟨rfl, rfl⟩
  | enum e => simp only [emitTypeDecl] at h; cases h; exact ⟨rfl, rfl⟩
  | typedef td =>
    simp only [emitTypeDecl] at h
    split at h
    · cases h
    · split at h
      · cases h; exact ⟨rfl, rfl⟩
      · split at h <;> (cases h; exact ⟨rfl, rfl⟩)

theorem find_skip_prefix {α} (f : α → Option TypeDecl) (p : TypeDecl → Bool) (hf : ∀ x d, f x = some d → p d = false) :
    ∀ (cs : List α) (rest : List TypeDecl), (cs.filterMap f ++ rest).find? p = rest.find? p := by
  intro cs
  induction cs with
  | nil => intro rest; rfl
  | cons x xs ih =>
    intro rest
    simp only [List.filterMap_cons]
    cases hx : f x with
    | none => exact ih rest
    | some d => simp only [List.cons_append, List.find?_cons, hf x d hx]; exact ih rest

theorem find_decl_of_types (a : Ast) (n : String) : ∀ (types : List (String × AstType)),
    (∀ kv ∈ types, kv.1 = kv.2.rustName) →
    ∀ (ty : AstType) (d : TypeDecl), bget n types = some ty → emitTypeDecl a ty = some d →
      (types.filterMap fun kv => emitTypeDecl a kv.2).find? (fun d => isTypeDecl d && declName d == n) = some d := by
  intro types
  induction types with
  | nil => intro _ ty d h; simp [bget] at h
  | cons x xs ih =>
    intro hk ty d hg hd
    obtain ⟨k, v⟩ := x
    have hkv : k = v.rustName := hk (k, v) List.mem_cons_self
    simp only [bget] at hg
    split at hg
    · rename_i e
      cases hg
      obtain ⟨hn, ht⟩ := emitTypeDecl_name hd
      simp only [List.filterMap_cons, hd, List.find?_cons, ht, hn, ← hkv, e, beq_self_eq_true, Bool.and_self]
    · rename_i hne
      have hrec := ih (fun kv hkv => hk kv (List.mem_cons_of_mem _ hkv)) ty d hg hd
      simp only [List.filterMap_cons]
      cases hv : emitTypeDecl a v with
      | none => simpa using hrec
      | some dv =>
        obtain ⟨hn, _⟩ := emitTypeDecl_name hv
        have : (declName dv == n) = false := by
          rw [hn, ← hkv]; simp; exact fun e => hne e.symm
        simp only [List.find?_cons, this, Bool.and_false]
        exact hrec

theorem findDecl_of_types {a : Ast} {m : Module} (hm : m.types = emitTypes a) (hk : ∀ kv ∈ a.types, kv.1 = kv.2.rustName)
    {n : String} {ty : AstType} {d : TypeDecl} (hb : bget n a.types = some ty) (hd : emitTypeDecl a ty = some d) :
    findDecl m n = some d := by
  simp only [findDecl, hm, emitTypes]
  rw [find_skip_prefix]
  · exact find_decl_of_types a n a.types hk ty d hb hd
  · intro kv d hd'
    obtain ⟨k, v⟩ := kv
    cases v with
    | constValue s => simp only at hd'; cases hd'; rfl
    | enumValue e mm => simp only at hd'; cases hd'

/-- what the rest of the proof needs to know about the module `m` emitted for `a` -/
structure FitsCtx (a : Ast) (m : Module) : Prop where
  types_eq : m.types = emitTypes a
  keys : ∀ kv ∈ a.types, kv.1 = kv.2.rustName
  safe : ∀ n, declared a n = true → (BasicType.ident n).asSafeString = n
  /-- a declared name has a declaration in the module, with a parameter list iff it is in the generic index -/
  decl : ∀ n, declared a n = true → ∃ d, findDecl m n = some d ∧ declGeneric d = a.isGeneric n

theorem namedTy_declared {a : Ast} {m : Module} (C : FitsCtx a m) {n : String} (h : declared a n = true) :
    namedTy m n = if a.isGeneric n then .pathT n else .path n := by
  obtain ⟨d, hd, hg⟩ := C.decl n h
  simp only [namedTy, hd, hg]

theorem tyEq_refl : ∀ (t : TyExpr), tyEq t t = true
  | .t => rfl
  | .string => rfl
  | .path a => by simp [tyEq]
  | .pathT a => by simp [tyEq]
  | .arr e _ => by simp only [tyEq]; exact tyEq_refl e
  | .vec e => by simp only [tyEq]; exact tyEq_refl e
  | .optBox e => by simp only [tyEq]; exact tyEq_refl e

/-- the element type `print_types` writes for a named or primitive base type -/
def elemTy (a : Ast) (t : BasicType) : TyExpr :=
  match t with
  | .ident i => if a.isGeneric i then .pathT (BasicType.ident i).asSafeString else .path (BasicType.ident i).asSafeString
  | t => .path t.asSafeString

theorem basic_fits {a : Ast} {m : Module} (C : FitsCtx a m) (t : BasicType) (hd : basicDeclared a t = true)
    (ho : t ≠ .opaque) (hs : t ≠ .string) : (decodeBasicAlias t).ty m = elemTy a t := by
  cases t with
  | «opaque» => exact absurd rfl ho
  | string => exact absurd rfl hs
  | ident c =>
    simp only [basicDeclared] at hd
    simp only [decodeBasicAlias, BasicDec.ty, namedTy_declared C hd, elemTy, C.safe c hd]
  | u32 => rfl | u64 => rfl | i32 => rfl | i64 => rfl | f32 => rfl | f64 => rfl | bool => rfl

theorem payloadTy_none (a : Ast) (t : BasicType) (ho : t ≠ .opaque) (hs : t ≠ .string) : payloadTy a (.none t) = elemTy a t := by
  cases t with
  | «opaque» => exact absurd rfl ho
  | string => exact absurd rfl hs
  | ident c => simp only [payloadTy, ArrayType.unwrapArray, elemTy]
  | u32 => rfl | u64 => rfl | i32 => rfl | i64 => rfl | f32 => rfl | f64 => rfl | bool => rfl

theorem payloadTy_fixed (a : Ast) (t : BasicType) (sz : ArraySize) (ho : t ≠ .opaque) (hs : t ≠ .string) :
    payloadTy a (.fixed t sz) = .arr (elemTy a t) sz := by
  cases t with
  | «opaque» => exact absurd rfl ho
  | string => exact absurd rfl hs
  | ident c => simp only [payloadTy, ArrayType.unwrapArray, elemTy]; split <;> rfl
  | u32 => rfl | u64 => rfl | i32 => rfl | i64 => rfl | f32 => rfl | f64 => rfl | bool => rfl

theorem payloadTy_variable_ident (a : Ast) (c : String) (mx : Option ArraySize) :
    payloadTy a (.variable (.ident c) mx) = .vec (elemTy a (.ident c)) := by
  simp only [payloadTy, ArrayType.unwrapArray, elemTy]; split <;> rfl

/-- **a struct field or union payload**: the decode expression of a supported declarator has the type `print_types` declares -/
theorem decodeArray_alias_fits {a : Ast} {m : Module} (C : FitsCtx a m) (at_ : ArrayType) (h : declaratorOk a at_ = true)
    (fd : FieldDec) (he : decodeArray a at_ .useAlias = .ok fd) : fd.fits a m (payloadTy a at_) = true := by
  match at_, h, he with
  | .none t, h, he =>
    simp only [decodeArray, decodeBasic, G.bind_ok] at he
    have he' : fd = .one (decodeBasicAlias t) := by cases t <;> (cases he; rfl)
    subst he'
    cases t with
    | «opaque» => simp [declaratorOk] at h
    | string => simp [FieldDec.fits, decodeBasicAlias, BasicDec.ty, payloadTy, ArrayType.unwrapArray, tyEq]
    | ident c =>
      simp only [declaratorOk] at h
      simp only [FieldDec.fits, payloadTy_none a (.ident c) (by simp) (by simp), basic_fits C (.ident c) h (by simp) (by simp), tyEq_refl]
    | u32 => rfl | u64 => rfl | i32 => rfl | i64 => rfl | f32 => rfl | f64 => rfl | bool => rfl
  | .fixed t sz, h, he =>
    simp only [decodeArray] at he
    obtain ⟨n, hn, he⟩ := G.bind_eq_ok he
    have hgen : ∀ t', t' ≠ .opaque → t' ≠ .string → basicDeclared a t' = true →
        printFixed a t' n .useAlias = .ok fd → fd.fits a m (.arr (elemTy a t') sz) = true := by
      intro t' ho hs hd hp
      have hl : arrLen a (.arr (elemTy a t') sz) = some n := by simp only [arrLen, hn]
      have hpf : printFixed a t' n .useAlias =
          if n = 0 then .ok (.fixedArr 0 (.prim .u32)) else .ok (.fixedArr n (decodeBasicAlias t')) := by
        cases t' <;> first | exact absurd rfl ho | exact absurd rfl hs | (simp only [printFixed, decodeBasic, G.bind_ok])
      rw [hpf] at hp
      split at hp
      · rename_i h0; subst h0; cases hp; simp only [FieldDec.fits, hl]; simp
      · cases hp; simp only [FieldDec.fits, hl, basic_fits C t' hd ho hs, tyEq_refl]; simp
    cases t with
    | «opaque» =>
      simp only [printFixed] at he; cases he
      simp [FieldDec.fits, payloadTy, ArrayType.unwrapArray, tyEq]
    | string => simp [declaratorOk] at h
    | ident c =>
      simp only [declaratorOk, Bool.and_eq_true] at h
      rw [payloadTy_fixed a (.ident c) sz (by simp) (by simp)]
      exact hgen (.ident c) (by simp) (by simp) h.1 he
    | u32 => rw [payloadTy_fixed a _ sz (by simp) (by simp)]; exact hgen _ (by simp) (by simp) rfl he
    | u64 => rw [payloadTy_fixed a _ sz (by simp) (by simp)]; exact hgen _ (by simp) (by simp) rfl he
    | i32 => rw [payloadTy_fixed a _ sz (by simp) (by simp)]; exact hgen _ (by simp) (by simp) rfl he
    | i64 => rw [payloadTy_fixed a _ sz (by simp) (by simp)]; exact hgen _ (by simp) (by simp) rfl he
    | f32 => rw [payloadTy_fixed a _ sz (by simp) (by simp)]; exact hgen _ (by simp) (by simp) rfl he
    | f64 => rw [payloadTy_fixed a _ sz (by simp) (by simp)]; exact hgen _ (by simp) (by simp) rfl he
    | bool => rw [payloadTy_fixed a _ sz (by simp) (by simp)]; exact hgen _ (by simp) (by simp) rfl he
  | .variable t mx, h, he =>
    have hpv : ∀ size, printVariable a t size .useAlias = .ok fd → fd.fits a m (payloadTy a (.variable t mx)) = true := by
      intro size hpv
      cases t with
      | «opaque» => simp only [printVariable] at hpv; cases hpv; simp [FieldDec.fits, payloadTy, ArrayType.unwrapArray, tyEq]
      | string => simp only [printVariable] at hpv; cases hpv; simp [FieldDec.fits, payloadTy, ArrayType.unwrapArray, tyEq]
      | ident c =>
        simp only [declaratorOk, Bool.and_eq_true] at h
        simp only [printVariable, C.safe c h.1] at hpv; cases hpv
        obtain ⟨d, hd, hg⟩ := C.decl c h.1
        rw [payloadTy_variable_ident]
        simp only [FieldDec.fits, elemTy, C.safe c h.1, hd, hg]
        cases a.isGeneric c <;> simp [tyEq]
      | u32 | u64 | i32 | i64 | f32 | f64 | bool => simp [declaratorOk] at h
    cases mx with
    | none => simp only [decodeArray] at he; exact hpv none he
    | some sz =>
      simp only [decodeArray] at he
      obtain ⟨n, hn, he⟩ := G.bind_eq_ok he
      exact hpv (some n) he

/-! ### structs -/

/-- the field type `print_types` declares -/
def fieldDeclTy (a : Ast) (f : StructField) : TyExpr :=
  if f.isOptional then .optBox (payloadTy a f.fieldValue) else payloadTy a f.fieldValue

def structFieldFits (a : Ast) (m : Module) (f : StructFieldDec) (dn : String) (dt : TyExpr) : Bool :=
  match f with
  | .plain n fd => n == dn && fd.fits a m dt
  | .optional n ty => n == dn && tyEq (.optBox (namedTy m ty)) dt && (findDecl m ty).isSome

theorem emitStructField_fits {a : Ast} {m : Module} (C : FitsCtx a m) (f : StructField) (hf : fieldOk a f = true)
    (sfd : StructFieldDec) (he : emitStructField a f = .ok sfd) :
    structFieldFits a m sfd f.fieldName (fieldDeclTy a f) = true := by
  simp only [fieldOk, Bool.and_eq_true] at hf
  replace hf := hf.2
  simp only [emitStructField] at he
  by_cases hopt : f.isOptional = true
  · simp only [hopt, if_true] at hf he
    cases he
    split at hf
    · rename_i n hfv
      obtain ⟨d, hd, hg⟩ := C.decl n hf
      simp only [structFieldFits, fieldDeclTy, hopt, if_true, hfv, ArrayType.unwrapArray, C.safe n hf, namedTy_declared C hf,
        payloadTy_none a (.ident n) (by simp) (by simp), elemTy, hd]
      cases a.isGeneric n <;> simp [tyEq]
    · cases hf
  · simp only [hopt, if_false, Bool.false_eq_true] at hf he
    obtain ⟨fd, hfd, he⟩ := G.bind_eq_ok he
    cases he
    simp only [structFieldFits, fieldDeclTy, hopt, Bool.false_eq_true, if_false, beq_self_eq_true, Bool.true_and]
    exact decodeArray_alias_fits C f.fieldValue hf fd hfd

theorem emitStructFields_fit {a : Ast} {m : Module} (C : FitsCtx a m) :
    ∀ (fields : List StructField) (fs : List StructFieldDec), fields.all (fieldOk a) = true →
      mapG (emitStructField a) fields = .ok fs →
      fs.length = fields.length ∧
      ((fs.zip (fields.map fun f => (f.fieldName, fieldDeclTy a f))).all fun (f, (dn, dt)) => structFieldFits a m f dn dt) = true := by
  intro fields
  induction fields with
  | nil => intro fs _ he; simp only [mapG] at he; cases he; simp
  | cons f rest ih =>
    intro fs hall he
    simp only [List.all_cons, Bool.and_eq_true] at hall
    simp only [mapG] at he
    obtain ⟨b, hb, he⟩ := G.bind_eq_ok he
    obtain ⟨bs, hbs, he⟩ := G.bind_eq_ok he
    cases he
    obtain ⟨hl, hz⟩ := ih bs hall.2 hbs
    refine ⟨by simp [hl], ?_⟩
    simp only [List.map_cons, List.zip_cons_cons, List.all_cons, emitStructField_fits C f hall.1 b hb, Bool.true_and]
    exact hz

/-! ### typedefs -/

/-- the inner type `print_types` declares for the newtype of a supported typedef -/
def typedefInner (a : Ast) (td : Typedef) : TyExpr :=
  if td.target.isOpaque then .t
  else
    let e : TyExpr := if a.targetGeneric td.target then .pathT td.target.asSafeString else .path td.target.asSafeString
    match td.alias with
    | .none _ => e
    | .fixed _ s => .arr e s
    | .variable _ _ => .vec e

theorem targetTy_eq_elemTy (a : Ast) (t : BasicType) :
    (if a.targetGeneric t then TyExpr.pathT t.asSafeString else TyExpr.path t.asSafeString) = elemTy a t := by
  cases t <;> first | rfl | simp [Ast.targetGeneric, elemTy]

theorem emitTypedef_fits {a : Ast} {m : Module} (C : FitsCtx a m) (td : Typedef) (htd : typedefOk a td = true)
    (hself : a.getType td.alias.unwrapArray.asStr = some (.typedef td))
    (fd : FieldDec) (he : decodeArray a td.alias .useTarget = .ok fd) : fd.fits a m (typedefInner a td) = true := by
  obtain ⟨al, hal⟩ := typedefOk_alias_ident htd
  obtain ⟨target, alias⟩ := td
  simp only at hal hself he ⊢
  simp only [typedefOk, Bool.and_eq_true] at htd
  have hrest := htd.2
  simp only [typedefInner, targetTy_eq_elemTy]
  rcases alias with t | ⟨t, sz⟩ | ⟨t, mx⟩
  · -- plain alias
    simp only [ArrayType.unwrapArray] at hal
    subst hal
    simp only [ArrayType.unwrapArray, BasicType.asStr] at hself
    simp only [decodeArray, decodeBasic, hself, G.bind_ok] at he
    cases he
    cases target with
    | «opaque» => simp [FieldDec.fits, decodeBasicAlias, BasicDec.ty, BasicType.isOpaque, tyEq]
    | string => simp at hrest
    | ident tn =>
      simp only at hrest
      simp only [FieldDec.fits, BasicType.isOpaque, Bool.false_eq_true, if_false,
        basic_fits C (.ident tn) hrest (by simp) (by simp), tyEq_refl]
    | u32 | u64 | i32 | i64 | f32 | f64 | bool => rfl
  · -- alias[sz]
    simp only [ArrayType.unwrapArray] at hal
    subst hal
    simp only [ArrayType.unwrapArray, BasicType.asStr] at hself
    simp only [decodeArray] at he
    obtain ⟨n, hn, he⟩ := G.bind_eq_ok he
    simp only [printFixed, Ast.typedefTarget, BasicType.asStr, hself] at he
    cases target with
    | «opaque» => simp only at he; cases he; simp [FieldDec.fits, BasicType.isOpaque, tyEq]
    | string => simp at hrest
    | ident tn =>
      simp only [Bool.and_eq_true] at hrest
      have hl : arrLen a (.arr (elemTy a (.ident tn)) sz) = some n := by simp only [arrLen, hn]
      simp only [BasicType.isOpaque, Bool.false_eq_true, if_false]
      simp only at he
      split at he
      · rename_i h0; subst h0; cases he; simp only [FieldDec.fits, hl]; simp
      · simp only [decodeBasic, hself, G.bind_ok] at he
        cases he
        simp only [FieldDec.fits, hl, basic_fits C (.ident tn) hrest.1 (by simp) (by simp), tyEq_refl]; simp
    | u32 | u64 | i32 | i64 | f32 | f64 | bool => simp at hrest
  · -- alias<mx>
    simp only [ArrayType.unwrapArray] at hal
    subst hal
    simp only [ArrayType.unwrapArray, BasicType.asStr] at hself
    have hdal : declared a al = true := by simp only [declared]; simp only [Ast.getType] at hself; simp [hself]
    have hsafe : (BasicType.ident al).asSafeString = al := C.safe al hdal
    have hpv : ∀ size, printVariable a (.ident al) size .useTarget = .ok fd →
        fd.fits a m (if target.isOpaque then TyExpr.t else .vec (elemTy a target)) = true := by
      intro size hpv
      simp only [printVariable, hsafe, Ast.typedefTarget, BasicType.asStr, hself, AstType.display] at hpv
      cases target with
      | «opaque» => simp [BasicType.isOpaque] at hpv; cases hpv; simp [FieldDec.fits, BasicType.isOpaque, tyEq]
      | string => cases mx <;> simp at hrest
      | ident tn =>
        have hdt : declared a tn = true := by cases mx <;> simp [Bool.and_eq_true] at hrest <;> first | exact hrest | exact hrest.1
        simp [BasicType.isOpaque] at hpv; cases hpv
        obtain ⟨d, hd, hg⟩ := C.decl tn hdt
        simp only [FieldDec.fits, BasicType.isOpaque, Bool.false_eq_true, if_false, elemTy, C.safe tn hdt, hd, hg]
        cases a.isGeneric tn <;> simp [tyEq]
      | u32 | u64 | i32 | i64 | f32 | f64 | bool => cases mx <;> simp at hrest
    cases mx with
    | none => simp only [decodeArray] at he; exact hpv none he
    | some sz =>
      simp only [decodeArray] at he
      obtain ⟨n, hn, he⟩ := G.bind_eq_ok he
      exact hpv (some n) he

/-! ### unions: patterns against the discriminant's type -/

theorem enumDisc_member {a : Ast} (F : SFacts a) {e' v' : String} (hc : bget v' a.constants = some (.enumValue e' v')) :
    (enumDisc a e' v').isSome = true := by
  obtain ⟨_, en, hen, var, hvar, hvarn⟩ := F.constsWF v' e' v' hc
  have hok := F.tyOk e' _ hen
  simp only [typeOk, enumOk, Bool.and_eq_true] at hok
  cases hf : en.variants.find? (·.name == v') with
  | none =>
    have := List.find?_eq_none.mp hf var hvar
    simp [hvarn] at this
  | some w =>
    have hw : w ∈ en.variants := List.mem_of_find?_eq_some hf
    have hwn := (List.all_eq_true.mp hok.1.2) w hw
    cases hwv : w.value with
    | str s => simp [hwv] at hwn
    | numeric i => simp [enumDisc, enumOf, Ast.getType, hen, hf, hwv]

theorem label_patOk_int {a : Ast} (F : SFacts a) (swTy : BasicType) (p : Prim) (cast : String)
    (hcast : (match p with | .u32 => "u32" | .i32 => "i32" | .u64 => "u64" | .i64 => "i64" | _ => "") = cast)
    (l : String) (v : Nat) (hv : labelValue a l = some v) (hfit : intFits p v = true)
    (h1 : l ≠ "TRUE") (h2 : l ≠ "FALSE") (hsn : safeName l = l)
    (hen : isEnumConst a l = true → (switchCastType a swTy).asSafeString = cast) :
    patOk a (.int p) (matcherOf a swTy l) = true := by
  simp only [matcherOf, Ast.getConst]
  cases hc : bget l a.constants with
  | none =>
    cases hp : parseDecOrHex l with
    | none =>
      rw [labelValue_const h1 h2 hp] at hv
      simp [constLabelValue, hc] at hv
    | some n =>
      rw [labelValue_num h1 h2 hp] at hv
      cases hv
      simp only [hsn, patOk, litOk, parseIntLit_eq, hp, hfit]
  | some c =>
    obtain ⟨hnum, _, _, hsafe⟩ := F.constNames l c hc
    rw [labelValue_const h1 h2 hnum] at hv
    cases c with
    | constValue t =>
      simp only [constLabelValue, hc] at hv
      simp only [hsafe t rfl, patOk, litOk, parseIntLit_eq, hv, hfit]
    | enumValue e' v' =>
      obtain ⟨hvk, _⟩ := F.constsWF l e' v' hc
      subst hvk
      have hcast' := hen (by simp [isEnumConst, Ast.getConst, hc])
      subst hcast
      simp only [patOk, enumDisc_member F hc, Bool.true_and, hcast']
      cases p <;> rfl

theorem label_patOk_bool {a : Ast} (F : SFacts a) (swTy : BasicType) (l : String) (hl : l = "TRUE" ∨ l = "FALSE") :
    patOk a .bool (matcherOf a swTy l) = true := by
  rcases hl with rfl | rfl
  · have hc : bget "TRUE" a.constants = none := F.noBoolConst.1
    have hs : safeName "TRUE" = "true" := by decide
    have hp : parseIntLit "true" = none := by decide
    simp [matcherOf, Ast.getConst, hc, hs, patOk, litOk, hp]
  · have hc : bget "FALSE" a.constants = none := F.noBoolConst.2
    have hs : safeName "FALSE" = "false" := by decide
    have hp : parseIntLit "false" = none := by decide
    simp [matcherOf, Ast.getConst, hc, hs, patOk, litOk, hp]

theorem label_patOk_enum {a : Ast} (F : SFacts a) (nm : String) (e : Enum) (hb : bget nm a.types = some (.enum e))
    (hsafe : (BasicType.ident nm).asSafeString = nm) (l : String) (hl : e.variants.any (·.name == l) = true) :
    patOk a (.enum nm) (matcherOf a (.ident nm) l) = true := by
  obtain ⟨w0, hw0, hw0n⟩ := List.any_eq_true.mp hl
  have hw0n' : w0.name = l := by simpa using hw0n
  have hc : bget l a.constants = some (.enumValue nm l) := by
    have := F.enumConsts nm e hb w0 hw0
    rw [hw0n'] at this; exact this
  have hcast : switchCastType a (.ident nm) = .ident nm := by
    simp [switchCastType, Ast.typedefTarget, Ast.getType, BasicType.asStr, hb]
  simp only [matcherOf, Ast.getConst, hc, patOk, enumDisc_member F hc, hcast, hsafe, beq_self_eq_true, Bool.and_self]

/-- the discriminant's type, and every label's pattern against it -/
theorem union_patterns {a : Ast} {m : Module} (C : FitsCtx a m) (F : SFacts a) (u : Union) (hu : unionOk a u = true)
    (hlt : labelsTypedU a u = true) (disc : BasicDec) (hd : decodeBasic a u.switch.varType .useTarget = .ok disc) :
    scrutTyOf a disc ≠ .other ∧ ∀ l ∈ allLabels u, patOk a (scrutTyOf a disc) (matcherOf a u.switch.varType l) = true := by
  simp only [unionOk, Bool.and_eq_true] at hu
  obtain ⟨⟨⟨⟨⟨hk, _⟩, _⟩, hlabels⟩, _⟩, _⟩ := hu
  have hlab : ∀ l ∈ allLabels u, labelKindOk a (discKind a u.switch.varType) l = true := List.all_eq_true.mp hlabels
  -- the two integer kinds, once the discriminant decoder and the switch type's cast spelling are known
  have hint : ∀ (p : Prim) (cast : String), (p = .u32 ∧ cast = "u32") ∨ (p = .i32 ∧ cast = "i32") →
      (∀ l ∈ allLabels u, ∃ v, labelValue a l = some v ∧ intFits p v = true ∧ l ≠ "TRUE" ∧ l ≠ "FALSE" ∧ safeName l = l ∧
        (isEnumConst a l = true → (switchCastType a u.switch.varType).asSafeString = cast)) →
      ∀ l ∈ allLabels u, patOk a (.int p) (matcherOf a u.switch.varType l) = true := by
    intro p cast hp hall l hl
    obtain ⟨v, hv, hfit, h1, h2, hsn, hen⟩ := hall l hl
    refine label_patOk_int F u.switch.varType p cast ?_ l v hv hfit h1 h2 hsn hen
    rcases hp with ⟨rfl, rfl⟩ | ⟨rfl, rfl⟩ <;> rfl
  -- facts per label for the u32 and i32 kinds
  have hu32 : discKind a u.switch.varType = .u32 → ∀ l ∈ allLabels u, ∃ v, labelValue a l = some v ∧ intFits .u32 v = true ∧
      l ≠ "TRUE" ∧ l ≠ "FALSE" ∧ safeName l = l ∧ (isEnumConst a l = true → (switchCastType a u.switch.varType).asSafeString = "u32") := by
    intro hkind l hl
    have h1 := hlab l hl
    simp only [hkind, labelKindOk, Bool.and_eq_true, bne_iff_ne, ne_eq, beq_iff_eq] at h1
    simp only [labelsTypedU, hkind, List.all_eq_true, Bool.and_eq_true, Bool.or_eq_true, Bool.not_eq_true', beq_iff_eq] at hlt
    have h2 := hlt l hl
    cases hv : labelValue a l with
    | none => simp [hv] at h2
    | some v =>
      simp only [hv, decide_eq_true_eq] at h2
      refine ⟨v, rfl, by simp [intFits, h2.1], h1.2.1.1.2, h1.2.1.2, h1.2.2, ?_⟩
      intro he
      rcases h2.2 with h | h
      · rw [h] at he; cases he
      · exact h
  have hi32 : discKind a u.switch.varType = .i32 → ∀ l ∈ allLabels u, ∃ v, labelValue a l = some v ∧ intFits .i32 v = true ∧
      l ≠ "TRUE" ∧ l ≠ "FALSE" ∧ safeName l = l ∧ (isEnumConst a l = true → (switchCastType a u.switch.varType).asSafeString = "i32") := by
    intro hkind l hl
    have h1 := hlab l hl
    simp only [hkind, labelKindOk, Bool.and_eq_true, bne_iff_ne, ne_eq, beq_iff_eq] at h1
    simp only [labelsTypedU, hkind, List.all_eq_true, Bool.or_eq_true, Bool.not_eq_true', beq_iff_eq] at hlt
    have h2 := hlt l hl
    cases hv : labelValue a l with
    | none => simp [hv] at h1
    | some v =>
      simp only [hv, decide_eq_true_eq] at h1
      refine ⟨v, rfl, by simp [intFits, h1.2.1.1.1], h1.2.1.1.2, h1.2.1.2, h1.2.2, ?_⟩
      intro he
      rcases h2 with h | h
      · rw [h] at he; cases he
      · exact h
  match hsw : u.switch.varType, hd with
  | .u32, hd =>
    simp only [decodeBasic, decodeBasicAlias] at hd; cases hd
    have hkind : discKind a u.switch.varType = .u32 := by rw [hsw]; rfl
    refine ⟨by simp [scrutTyOf], ?_⟩
    rw [← hsw]
    exact hint .u32 "u32" (Or.inl ⟨rfl, rfl⟩) (fun l hl => by
      obtain ⟨v, a1, a2, a3, a4, a5, a6⟩ := hu32 hkind l hl
      exact ⟨v, a1, a2, a3, a4, a5, a6⟩)
  | .i32, hd =>
    simp only [decodeBasic, decodeBasicAlias] at hd; cases hd
    have hkind : discKind a u.switch.varType = .i32 := by rw [hsw]; rfl
    refine ⟨by simp [scrutTyOf], ?_⟩
    rw [← hsw]
    exact hint .i32 "i32" (Or.inr ⟨rfl, rfl⟩) (fun l hl => by
      obtain ⟨v, a1, a2, a3, a4, a5, a6⟩ := hi32 hkind l hl
      exact ⟨v, a1, a2, a3, a4, a5, a6⟩)
  | .bool, hd =>
    simp only [decodeBasic, decodeBasicAlias] at hd; cases hd
    have hkind : discKind a u.switch.varType = .bool := by rw [hsw]; rfl
    refine ⟨by simp [scrutTyOf], fun l hl => ?_⟩
    have h1 := hlab l hl
    simp only [hkind, labelKindOk, Bool.and_eq_true, Bool.or_eq_true, beq_iff_eq] at h1
    rw [← hsw]
    exact label_patOk_bool F _ l h1.2
  | .u64, _ => simp [hsw, discKind] at hk
  | .i64, _ => simp [hsw, discKind] at hk
  | .f32, _ => simp [hsw, discKind] at hk
  | .f64, _ => simp [hsw, discKind] at hk
  | .string, _ => simp [hsw, discKind] at hk
  | .opaque, _ => simp [hsw, discKind] at hk
  | .ident n, hd =>
    simp only [hsw, discKind] at hk
    simp only [decodeBasic, Ast.getType] at hd
    cases hg : bget n a.types with
    | none => simp [hg] at hk
    | some ty =>
      cases ty with
      | struct s => simp [hg] at hk
      | union u' => simp [hg] at hk
      | enum e =>
        simp only [hg] at hd
        cases hd
        have hname : e.name = n := by
          have := F.keys (n, .enum e) (bget_mem hg)
          simpa [AstType.rustName] using this.symm
        have hkind : discKind a u.switch.varType = .enum e := by rw [hsw]; simp [discKind, hg]
        have hst : scrutTyOf a (.tryFrom e.name) = .enum n := by simp [scrutTyOf, enumOf, Ast.getType, hname, hg]
        rw [hst]
        refine ⟨by simp, fun l hl => ?_⟩
        have h1 := hlab l hl
        simp only [hkind, labelKindOk, Bool.and_eq_true] at h1
        have hsafe : (BasicType.ident n).asSafeString = n := C.safe n (by simp [declared, hg])
        exact label_patOk_enum F n e hg hsafe l h1.2
      | typedef td =>
        simp only [hg] at hk hd
        cases hd
        obtain ⟨target, alias⟩ := td
        rcases alias with t2 | ⟨t2, sz⟩ | ⟨t2, mx⟩ <;> cases target <;> simp at hk
        · -- typedef unsigned int n;
          have hkind : discKind a u.switch.varType = .u32 := by rw [hsw]; simp [discKind, hg]
          refine ⟨by simp [decodeBasicAlias, scrutTyOf], ?_⟩
          simp only [decodeBasicAlias, scrutTyOf]
          rw [← hsw]
          exact hint .u32 "u32" (Or.inl ⟨rfl, rfl⟩) (fun l hl => by
            obtain ⟨v, a1, a2, a3, a4, a5, a6⟩ := hu32 hkind l hl
            exact ⟨v, a1, a2, a3, a4, a5, a6⟩)
        · -- typedef int n;
          have hkind : discKind a u.switch.varType = .i32 := by rw [hsw]; simp [discKind, hg]
          refine ⟨by simp [decodeBasicAlias, scrutTyOf], ?_⟩
          simp only [decodeBasicAlias, scrutTyOf]
          rw [← hsw]
          exact hint .i32 "i32" (Or.inr ⟨rfl, rfl⟩) (fun l hl => by
            obtain ⟨v, a1, a2, a3, a4, a5, a6⟩ := hi32 hkind l hl
            exact ⟨v, a1, a2, a3, a4, a5, a6⟩)

/-! ### unions: variants -/

theorem findVariant_of_mem : ∀ (vs : List (String × Option TyExpr)), (vs.map fun x => nonDigitName x.1).Nodup →
    ∀ (l : String) (x : Option TyExpr), (l, x) ∈ vs → findVariant vs l = some x := by
  intro vs
  induction vs with
  | nil => intro _ l x h; cases h
  | cons y ys ih =>
    intro hnd l x h
    simp only [List.map_cons, List.nodup_cons] at hnd
    simp only [findVariant, List.find?_cons]
    rcases List.mem_cons.mp h with rfl | h
    · simp
    · have hne : (nonDigitName y.1 == nonDigitName l) = false := by
        simp only [beq_eq_false_iff_ne, ne_eq]
        intro e
        exact hnd.1 (List.mem_map.mpr ⟨(l, x), h, e.symm⟩)
      simp only [hne]
      exact ih hnd.2 l x h

theorem armTy_none {a : Ast} {m : Module} (C : FitsCtx a m) (t : BasicType) (hd : basicDeclared a t = true) :
    armTy a (.none t) = payloadTy a (.none t) := by
  cases t with
  | ident c =>
    simp only [basicDeclared] at hd
    simp only [armTy, ArrayType.unwrapArray, payloadTy, C.safe c hd]
    split <;> rfl
  | «opaque» => rfl
  | string => rfl
  | u32 => rfl | u64 => rfl | i32 => rfl | i64 => rfl | f32 => rfl | f64 => rfl | bool => rfl

/-- a union arm's payload decoder has the type of its variant -/
theorem arm_payload_fits {a : Ast} {m : Module} (C : FitsCtx a m) (fv : ArrayType) (hf : armTypeOk a fv = true)
    (fd : FieldDec) (he : decodeArray a fv .useAlias = .ok fd) : fd.fits a m (armTy a fv) = true := by
  rcases fv with t | ⟨t, sz⟩ | ⟨t, mx⟩
  · have hdecl : declaratorOk a (.none t) = true ∧ basicDeclared a t = true := by
      cases t <;> simp only [armTypeOk, declaratorOk, basicDeclared] at hf ⊢ <;> first | exact ⟨hf, hf⟩ | exact ⟨rfl, rfl⟩ | cases hf
    rw [armTy_none C t hdecl.2]
    exact decodeArray_alias_fits C (.none t) hdecl.1 fd he
  · simp [armTypeOk] at hf
  · simp [armTypeOk] at hf

/-- what `implFits` asks of one arm -/
def armFits (a : Ast) (m : Module) (st : ScrutTy) (vs : List (String × Option TyExpr)) (arm : Arm) : Bool :=
  patOk a st arm.pat &&
    (match findVariant vs arm.variant, arm.payload with
     | some (some t), some fd => fd.fits a m t
     | some none, none => true
     | _, _ => false)

theorem emitUnion_fits {a : Ast} {m : Module} (C : FitsCtx a m) (F : SFacts a) (u : Union) (hu : unionOk a u = true)
    (hlt : labelsTypedU a u = true) (hvd : variantsDistinctU a u = true) (ud : UnionDec) (he : emitUnion a u = .ok ud) :
    scrutTyOf a ud.disc ≠ .other ∧
    ud.arms.all (armFits a m (scrutTyOf a ud.disc) (unionVariants a u)) = true ∧
    (match ud.tail with
     | .defaultData fd => (match findVariant (unionVariants a u) "default" with | some (some t) => fd.fits a m t | _ => false)
     | _ => true) = true := by
  have hnd : ((unionVariants a u).map fun x => nonDigitName x.1).Nodup := by simpa [variantsDistinctU] using hvd
  have hu' := hu
  simp only [unionOk, Bool.and_eq_true] at hu'
  obtain ⟨⟨⟨⟨⟨_, hcases⟩, hdef⟩, _⟩, _⟩, _⟩ := hu'
  simp only [emitUnion] at he
  obtain ⟨disc, hdisc, he⟩ := G.bind_eq_ok he
  obtain ⟨dataArms, hdata, he⟩ := G.bind_eq_ok he
  obtain ⟨tail, htail, he⟩ := G.bind_eq_ok he
  cases he
  obtain ⟨hst, hpat⟩ := union_patterns C F u hu hlt disc hdisc
  refine ⟨hst, ?_, ?_⟩
  · simp only [List.all_append, Bool.and_eq_true]
    constructor
    · -- data arms
      have : ∀ (cs : List UnionCase) (arms : List (List Arm)), (∀ c ∈ cs, c ∈ u.cases) →
          mapG (emitCase a u.switch.varType) cs = .ok arms →
          arms.flatten.all (armFits a m (scrutTyOf a disc) (unionVariants a u)) = true := by
        intro cs
        induction cs with
        | nil => intro arms _ h; simp only [mapG] at h; cases h; rfl
        | cons c rest ih =>
          intro arms hsub h
          simp only [mapG] at h
          obtain ⟨ac, hac, h⟩ := G.bind_eq_ok h
          obtain ⟨ar, har, h⟩ := G.bind_eq_ok h
          cases h
          have hc : c ∈ u.cases := hsub c List.mem_cons_self
          have hcok := (List.all_eq_true.mp hcases) c hc
          simp only [Bool.and_eq_true] at hcok
          simp only [emitCase] at hac
          obtain ⟨d, hd, hac⟩ := G.bind_eq_ok hac
          cases hac
          simp only [List.flatten_cons, List.all_append, Bool.and_eq_true]
          refine ⟨?_, ih ar (fun x hx => hsub x (List.mem_cons_of_mem _ hx)) har⟩
          simp only [List.all_map, List.all_eq_true]
          intro l hl
          have hmem : (l, some (armTy a c.fieldValue)) ∈ unionVariants a u := by
            simp only [unionVariants, List.mem_append, List.mem_flatten, List.mem_map]
            exact Or.inl (Or.inl ⟨_, ⟨c, hc, rfl⟩, List.mem_map.mpr ⟨l, hl, rfl⟩⟩)
          simp only [Function.comp, armFits, hpat l (allLabels_mem_case hc hl), findVariant_of_mem _ hnd l _ hmem, Bool.true_and]
          exact arm_payload_fits C c.fieldValue hcok.1 d hd
      exact this u.cases dataArms (fun c hc => hc) hdata
    · -- void arms
      simp only [List.all_map, List.all_eq_true]
      intro l hl
      have hmem : (l, (none : Option TyExpr)) ∈ unionVariants a u := by
        simp only [unionVariants, List.mem_append, List.mem_map]
        exact Or.inl (Or.inr ⟨l, hl, rfl⟩)
      simp only [Function.comp, emitVoid]
      split
      · simp only [armFits, patOk, findVariant_of_mem _ hnd l _ hmem, Bool.true_and]
      · rename_i hne
        have hne' : l ≠ "default" := by simpa using hne
        simp only [armFits, hpat l (allLabels_mem_void hl hne'), findVariant_of_mem _ hnd l _ hmem, Bool.true_and]
  · cases hd : u.default with
    | none =>
      simp only [hd] at htail
      cases htail
      cases u.voidCases.contains "default" <;> rfl
    | some d =>
      simp only [hd] at htail hdef
      obtain ⟨dd, hdd, htail⟩ := G.bind_eq_ok htail
      cases htail
      simp only [Bool.and_eq_true] at hdef
      have hmem : ("default", some (armTy a d.fieldValue)) ∈ unionVariants a u := by
        simp [unionVariants, hd]
      simp only [findVariant_of_mem _ hnd "default" _ hmem]
      exact arm_payload_fits C d.fieldValue hdef.1.1 dd hdd

/-! ### assembly -/

theorem emitTypeDecl_typedef {a : Ast} {td : Typedef} (h : typedefOk a td = true) :
    ∃ sp, emitTypeDecl a (.typedef td) =
      some (.typedef td.alias.unwrapArray.asStr (td.target.isOpaque || a.targetGeneric td.target) sp (typedefInner a td)) := by
  obtain ⟨al, hal⟩ := typedefOk_alias_ident h
  simp only [typedefOk, Bool.and_eq_true, hal] at h
  have hne : (td.target == td.alias.unwrapArray) = false := by
    rw [hal]
    cases ht : td.target with
    | ident n =>
      have : al ≠ n := by simpa [ht, BasicType.asStr] using h.1
      have hb : (BasicType.ident n == BasicType.ident al) = (n == al) := rfl
      rw [hb]
      simpa using fun e => this e.symm
    | _ => rfl
  by_cases ho : td.target.isOpaque = true
  · exact ⟨false, by simp [emitTypeDecl, hne, typedefInner, ho]⟩
  · by_cases hg : a.targetGeneric td.target = true
    · exact ⟨true, by simp [emitTypeDecl, hne, typedefInner, ho, hg]; cases td.alias <;> rfl⟩
    · exact ⟨false, by simp [emitTypeDecl, hne, typedefInner, ho, hg]; cases td.alias <;> rfl⟩

theorem fitsCtx_of_supported {a : Ast} {m : Module} (hs : Supported a = true) (hp : paramsOk a = true)
    (hg : generateModule a = .ok m) : FitsCtx a m := by
  obtain ⟨hkeys, htypes, _, _, _⟩ := Supported.facts hs
  obtain ⟨hkn, hsafe, _⟩ := keysOk_facts hkeys
  obtain ⟨hty, _, _, _⟩ := generateModule_ok hg
  refine ⟨hty, hkn, ?_, ?_⟩
  · intro n hd
    simp only [declared] at hd
    cases hb : bget n a.types with
    | none => simp [hb] at hd
    | some ty => exact hsafe (n, ty) (bget_mem hb)
  · intro n hd
    simp only [declared] at hd
    cases hb : bget n a.types with
    | none => simp [hb] at hd
    | some ty =>
      have hmem := bget_mem hb
      have hname : n = ty.rustName := hkn (n, ty) hmem
      have hok : typeOk a ty = true := (List.all_eq_true.mp htypes) (n, ty) hmem
      have hpar := (List.all_eq_true.mp hp) (n, ty) hmem
      cases ty with
      | struct s =>
        refine ⟨_, findDecl_of_types hty hkn hb rfl, ?_⟩
        simp only [declGeneric, hname, AstType.rustName]
      | union u =>
        refine ⟨_, findDecl_of_types hty hkn hb rfl, ?_⟩
        simp only [declGeneric, hname, AstType.rustName]
      | enum e =>
        refine ⟨_, findDecl_of_types hty hkn hb rfl, ?_⟩
        simp only at hpar
        simp only [declGeneric]
        simpa using hpar.symm
      | typedef td =>
        simp only [typeOk] at hok
        obtain ⟨sp, hdcl⟩ := emitTypeDecl_typedef (a := a) hok
        refine ⟨_, findDecl_of_types hty hkn hb hdcl, ?_⟩
        simp only at hpar
        simp only [declGeneric]
        exact (by simpa using hpar : a.isGeneric n = (td.target.isOpaque || a.targetGeneric td.target)).symm

/-- **the three emitters agree.**  For every supported specification whose parameter lists are the generic index's
    (`paramsOk`), whose integer labels fit the discriminant (`labelsTyped`) and whose labels give distinct variant names
    (`variantsDistinct`): every decoder the decoder emitter writes fits the declaration the type emitter writes for the same
    name — `implFits`, the type part of the judgement that stands in for rustc. -/
theorem decoders_fit {a : Ast} {m : Module} (hs : Supported a = true) (hp : paramsOk a = true) (hl : labelsTyped a = true)
    (hv : variantsDistinct a = true) (hg : generateModule a = .ok m) : m.fromRefMut.all (implFits a m) = true := by
  have C := fitsCtx_of_supported hs hp hg
  have F := sfacts_of_supported hs
  obtain ⟨hkeys, htypes, _, _, _⟩ := Supported.facts hs
  obtain ⟨hkn, _, hsorted⟩ := keysOk_facts hkeys
  obtain ⟨hty, _, h2, _⟩ := generateModule_ok hg
  have hplans := (supported_plans hs hg).1
  rw [List.all_eq_true]
  intro i hi
  obtain ⟨ty, htyin, he⟩ := mapG_mem _ _ h2 i hi
  obtain ⟨kv, hkv, rfl⟩ := List.mem_map.mp htyin
  obtain ⟨k, ty⟩ := kv
  have hb : bget k a.types = some ty := bget_of_mem_sorted hsorted hkv
  have hk : k = ty.rustName := hkn (k, ty) hkv
  have hok : typeOk a ty = true := (List.all_eq_true.mp htypes) (k, ty) hkv
  have hname : i.name = k := by rw [emitImpl_name he, hk]
  have hbody : i.body.okFor m.plans = true := (List.all_eq_true.mp hplans) i hi
  have hgen : i.generic = a.isGeneric k := by rw [emitImpl_generic he, hk]
  obtain ⟨d0, hd0, hg0⟩ := C.decl k (by simp [declared, hb])
  simp only [implFits, hname]
  cases ty with
  | struct s =>
    have hd : findDecl m k = some (.struct s.name (a.isGeneric s.name) (s.fields.map fun f => (f.fieldName, fieldDeclTy a f))) :=
      findDecl_of_types hty hkn hb rfl
    simp only [emitImpl] at he
    obtain ⟨fs, hfs, he⟩ := G.bind_eq_ok he
    cases he
    simp only [typeOk, Bool.and_eq_true] at hok
    obtain ⟨hlen, hz⟩ := emitStructFields_fit C s.fields fs hok.2 hfs
    simp only [hd, declGeneric, beq_self_eq_true, Bool.true_and, hbody, List.length_map, hlen]
    exact hz
  | union u =>
    have hd : findDecl m k = some (.union u.name (a.isGeneric u.name) (unionVariants a u)) := findDecl_of_types hty hkn hb rfl
    simp only [emitImpl] at he
    obtain ⟨ud, hud, he⟩ := G.bind_eq_ok he
    cases he
    simp only [typeOk] at hok
    have hlu : labelsTypedU a u = true := by
      have := (List.all_eq_true.mp hl) (k, .union u) hkv
      simpa using this
    have hvu : variantsDistinctU a u = true := by
      have := (List.all_eq_true.mp hv) (k, .union u) hkv
      simpa using this
    obtain ⟨hst, harms, htail⟩ := emitUnion_fits C F u hok hlu hvu ud hud
    simp only [hd, declGeneric, beq_self_eq_true, Bool.true_and, hbody, bne_iff_ne, ne_eq, hst, not_false_eq_true, decide_true]
    simp only [Bool.and_eq_true]
    exact ⟨⟨by simpa using hst, harms⟩, htail⟩
  | enum e =>
    have hd : findDecl m k = some (.enum e.name (e.variants.map fun v => (v.name, v.value.display))) := findDecl_of_types hty hkn hb rfl
    simp only [emitImpl] at he
    cases he
    simp only [typeOk, enumOk, Bool.and_eq_true] at hok
    simp only [hd, declGeneric, hbody, Bool.and_true]
    rw [hd] at hd0; cases hd0
    simp only [declGeneric] at hg0
    have hge : a.isGeneric e.name = false := by rw [hg0, hk]; rfl
    simp only [hge, beq_self_eq_true, Bool.true_and, List.all_map, List.all_eq_true, Function.comp]
    intro v hvm
    have hnum := (List.all_eq_true.mp hok.1.2) v hvm
    simp only [Function.comp, Bool.and_eq_true]
    constructor
    · cases hval : v.value with
      | numeric n => simpa [hval] using hnum
      | str t => simp [hval] at hnum
    · simp only [List.any_map, List.any_eq_true]
      exact ⟨v, hvm, by simp⟩
  | typedef td =>
    simp only [typeOk] at hok
    obtain ⟨sp, hdcl⟩ := emitTypeDecl_typedef (a := a) hok
    have hd := findDecl_of_types hty hkn hb hdcl
    simp only [emitImpl] at he
    obtain ⟨fd, hfd, he⟩ := G.bind_eq_ok he
    cases he
    have hself : a.getType td.alias.unwrapArray.asStr = some (.typedef td) := by
      simp only [Ast.getType]
      have : td.alias.unwrapArray.asStr = k := by rw [hk]; rfl
      rw [this]; exact hb
    rw [hd] at hd0; cases hd0
    simp only [declGeneric] at hg0
    simp only [hd, declGeneric, hbody, Bool.and_true, hg0]
    have : a.isGeneric k = a.isGeneric td.alias.unwrapArray.asStr := by rw [hk]; rfl
    simp only [this, beq_self_eq_true, Bool.true_and]
    exact emitTypedef_fits C td hok hself fd hfd

/-! ### every type expression of every emitted declaration resolves -/

theorem elemTy_wellFormed {a : Ast} {m : Module} (C : FitsCtx a m) (t : BasicType) (hd : basicDeclared a t = true)
    (ho : t ≠ .opaque) (hs : t ≠ .string) : (elemTy a t).wellFormed m = true := by
  cases t with
  | «opaque» => exact absurd rfl ho
  | string => exact absurd rfl hs
  | ident c =>
    simp only [basicDeclared] at hd
    obtain ⟨d, hdd, hg⟩ := C.decl c hd
    simp only [elemTy, C.safe c hd]
    cases hgen : a.isGeneric c <;> simp [TyExpr.wellFormed, hdd, hg, hgen]
  | u32 | u64 | i32 | i64 | f32 | f64 | bool => simp [elemTy, TyExpr.wellFormed, primNames, BasicType.asSafeString, BasicType.asStr]

theorem payloadTy_wellFormed {a : Ast} {m : Module} (C : FitsCtx a m) (at_ : ArrayType) (h : declaratorOk a at_ = true) :
    (payloadTy a at_).wellFormed m = true := by
  match at_, h with
  | .none t, h =>
    cases t with
    | «opaque» => simp [declaratorOk] at h
    | string => rfl
    | ident c =>
      simp only [declaratorOk] at h
      rw [payloadTy_none a (.ident c) (by simp) (by simp)]
      exact elemTy_wellFormed C (.ident c) h (by simp) (by simp)
    | u32 | u64 | i32 | i64 | f32 | f64 | bool => simp [payloadTy, ArrayType.unwrapArray, TyExpr.wellFormed, primNames, BasicType.asSafeString, BasicType.asStr]
  | .fixed t sz, h =>
    cases t with
    | «opaque» => rfl
    | string => simp [declaratorOk] at h
    | ident c =>
      simp only [declaratorOk, Bool.and_eq_true] at h
      rw [payloadTy_fixed a (.ident c) sz (by simp) (by simp)]
      simp only [TyExpr.wellFormed]
      exact elemTy_wellFormed C (.ident c) h.1 (by simp) (by simp)
    | u32 | u64 | i32 | i64 | f32 | f64 | bool =>
      rw [payloadTy_fixed a _ sz (by simp) (by simp)]
      simp only [TyExpr.wellFormed]
      exact elemTy_wellFormed C _ rfl (by simp) (by simp)
  | .variable t mx, h =>
    cases t with
    | «opaque» => rfl
    | string => rfl
    | ident c =>
      simp only [declaratorOk, Bool.and_eq_true] at h
      rw [payloadTy_variable_ident]
      simp only [TyExpr.wellFormed]
      exact elemTy_wellFormed C (.ident c) h.1 (by simp) (by simp)
    | u32 | u64 | i32 | i64 | f32 | f64 | bool => simp [declaratorOk] at h

/-- what `declOk` asks of the *types* written in one declaration: every named type resolves to a declaration of the module, with
    a parameter list exactly when that declaration has one -/
def declTypesResolve (m : Module) : TypeDecl → Bool
  | .struct _ _ fs => fs.all fun f => f.2.wellFormed m
  | .union _ _ vs => vs.all fun v => match v.2 with | some t => t.wellFormed m | none => true
  | .typedef _ _ _ inner => inner.wellFormed m
  | _ => true

theorem decls_resolve {a : Ast} {m : Module} (hs : Supported a = true) (hp : paramsOk a = true) (hg : generateModule a = .ok m) :
    m.types.all (declTypesResolve m) = true := by
  have C := fitsCtx_of_supported hs hp hg
  obtain ⟨_, htypes, _, _, _⟩ := Supported.facts hs
  rw [C.types_eq, List.all_eq_true]
  intro d hd
  simp only [emitTypes, List.mem_append, List.mem_filterMap] at hd
  rcases hd with ⟨kv, _, hkv⟩ | ⟨kv, hkvm, hkv⟩
  · obtain ⟨k, c⟩ := kv
    cases c <;> simp only at hkv <;> cases hkv
    rfl
  · have hok : typeOk a kv.2 = true := (List.all_eq_true.mp htypes) kv hkvm
    obtain ⟨k, ty⟩ := kv
    cases ty with
    | struct s =>
      simp only [emitTypeDecl] at hkv; cases hkv
      simp only [typeOk, Bool.and_eq_true] at hok
      simp only [declTypesResolve, List.all_map, List.all_eq_true, Function.comp]
      intro f hf
      have hfo := (List.all_eq_true.mp hok.2) f hf
      simp only [fieldOk, Bool.and_eq_true] at hfo
      by_cases hopt : f.isOptional = true
      · simp only [hopt, if_true] at hfo ⊢
        have h2 := hfo.2
        split at h2
        · rename_i n hfv
          rw [hfv, payloadTy_none a (.ident n) (by simp) (by simp)]
          simp only [TyExpr.wellFormed]
          exact elemTy_wellFormed C (.ident n) h2 (by simp) (by simp)
        · cases h2
      · simp only [hopt, Bool.false_eq_true, if_false] at hfo ⊢
        exact payloadTy_wellFormed C f.fieldValue hfo.2
    | union u =>
      simp only [emitTypeDecl] at hkv; cases hkv
      simp only [typeOk, unionOk, Bool.and_eq_true] at hok
      obtain ⟨⟨⟨⟨⟨_, hcases⟩, hdef⟩, _⟩, _⟩, _⟩ := hok
      have harm : ∀ fv, armTypeOk a fv = true → (armTy a fv).wellFormed m = true := by
        intro fv hfv
        rcases fv with t | ⟨t, sz⟩ | ⟨t, mx⟩
        · have hdecl : declaratorOk a (.none t) = true ∧ basicDeclared a t = true := by
            cases t <;> simp only [armTypeOk, declaratorOk, basicDeclared] at hfv ⊢ <;> first | exact ⟨hfv, hfv⟩ | exact ⟨rfl, rfl⟩ | cases hfv
          rw [armTy_none C t hdecl.2]
          exact payloadTy_wellFormed C (.none t) hdecl.1
        · simp [armTypeOk] at hfv
        · simp [armTypeOk] at hfv
      simp only [declTypesResolve, List.all_append, Bool.and_eq_true, List.all_eq_true]
      refine ⟨⟨?_, ?_⟩, ?_⟩
      · intro v hv
        obtain ⟨l, hl, hvl⟩ := List.mem_flatten.mp hv
        obtain ⟨c, hc, rfl⟩ := List.mem_map.mp hl
        obtain ⟨lab, _, rfl⟩ := List.mem_map.mp hvl
        have := (List.all_eq_true.mp hcases) c hc
        simp only [Bool.and_eq_true] at this
        exact harm _ this.1
      · intro v hv
        obtain ⟨lab, _, rfl⟩ := List.mem_map.mp hv
        rfl
      · intro v hv
        cases hdd : u.default with
        | none => simp [hdd] at hv
        | some d =>
          simp only [hdd, List.mem_singleton] at hv hdef
          subst hv
          simp only [Bool.and_eq_true] at hdef
          exact harm _ hdef.1.1
    | enum e => simp only [emitTypeDecl] at hkv; cases hkv; rfl
    | typedef td =>
      simp only [typeOk] at hok
      obtain ⟨sp, hdcl⟩ := emitTypeDecl_typedef (a := a) hok
      rw [hdcl] at hkv; cases hkv
      simp only [declTypesResolve, typedefInner, targetTy_eq_elemTy]
      obtain ⟨target, alias⟩ := td
      simp only [typedefOk, Bool.and_eq_true] at hok
      have hrest := hok.2
      cases target with
      | «opaque» => simp [BasicType.isOpaque, TyExpr.wellFormed]
      | string => cases alias <;> simp at hrest
      | ident tn =>
        simp only [BasicType.isOpaque, Bool.false_eq_true, if_false]
        have hdt : declared a tn = true := by
          rcases alias with t | ⟨t, sz⟩ | ⟨t, mx⟩
          · simpa using hrest
          · simp only [Bool.and_eq_true] at hrest; exact hrest.1
          · cases mx <;> simp [Bool.and_eq_true] at hrest <;> first | exact hrest | exact hrest.1
        have hw := elemTy_wellFormed C (.ident tn) hdt (by simp) (by simp)
        cases alias <;> simpa [TyExpr.wellFormed] using hw
      | u32 | u64 | i32 | i64 | f32 | f64 | bool =>
        rcases alias with t | ⟨t, sz⟩ | ⟨t, mx⟩
        · simp [BasicType.isOpaque, elemTy, TyExpr.wellFormed, primNames, BasicType.asSafeString, BasicType.asStr]
        · simp at hrest
        · cases mx <;> simp at hrest

/-! ### declarations: resolve, and carry the parameter iff used -/

theorem declarations_fit {a : Ast} {m : Module} (hs : Supported a = true) (hp : paramsOk a = true) (hu : paramsUsed a = true)
    (hg : generateModule a = .ok m) : m.types.all (declFits m) = true := by
  have C := fitsCtx_of_supported hs hp hg
  have hres := decls_resolve hs hp hg
  obtain ⟨_, htypes, _, _, _⟩ := Supported.facts hs
  rw [List.all_eq_true] at hres ⊢
  intro d hd
  have hr := hres d hd
  rw [C.types_eq] at hd
  simp only [emitTypes, List.mem_append, List.mem_filterMap] at hd
  rcases hd with ⟨kv, _, hkv⟩ | ⟨kv, hkvm, hkv⟩
  · obtain ⟨k, c⟩ := kv
    cases c <;> simp only at hkv <;> cases hkv
    rfl
  · have hok : typeOk a kv.2 = true := (List.all_eq_true.mp htypes) kv hkvm
    have hused := (List.all_eq_true.mp hu) kv hkvm
    have hkey : kv.1 = kv.2.rustName := C.keys kv hkvm
    obtain ⟨k, ty⟩ := kv
    cases ty with
    | struct s =>
      simp only [emitTypeDecl] at hkv; cases hkv
      simp only [declTypesResolve] at hr
      simp only [AstType.rustName] at hkey
      simp only [beq_iff_eq] at hused
      simp only [declFits, Bool.and_eq_true, beq_iff_eq]
      refine ⟨hr, ?_⟩
      rw [List.any_map, ← hkey]
      exact hused.symm
    | union u =>
      simp only [emitTypeDecl] at hkv; cases hkv
      have hr' : (unionVariants a u).all (fun v => match v.2 with | some t => t.wellFormed m | none => true) = true := hr
      simp only [AstType.rustName] at hkey
      simp only [beq_iff_eq] at hused
      show declFits m (.union u.name (a.isGeneric u.name) (unionVariants a u)) = true
      simp only [declFits, Bool.and_eq_true, beq_iff_eq]
      refine ⟨hr', ?_⟩
      rw [← hkey]
      exact hused.symm
    | enum e => simp only [emitTypeDecl] at hkv; cases hkv; rfl
    | typedef td =>
      simp only [typeOk] at hok
      obtain ⟨sp, hdcl⟩ := emitTypeDecl_typedef (a := a) hok
      rw [hdcl] at hkv; cases hkv
      simp only [declTypesResolve] at hr
      simp only [declFits, Bool.and_eq_true, beq_iff_eq]
      refine ⟨hr, ?_⟩
      simp only [typedefInner]
      cases ho : td.target.isOpaque <;> cases hgn : a.targetGeneric td.target <;> cases td.alias <;> simp [TyExpr.usesT]

end Fx
