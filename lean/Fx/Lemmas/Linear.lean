/-
  Fx.Lemmas.Linear — an explicit recursion budget for every specification with finite types, computed from the plans and the
  length of the buffer.

  `C04_terminates` shows that *some* budget exists for each buffer length.  Here the budget is a function: `p.budget k`
  answers for every buffer shorter than `4 (k + 1)` bytes.  A reference behind `Option<Box<_>>` or `Vec<_>` is only followed after
  a 4-byte marker or count has been consumed, so it is charged the budget of a buffer 4 bytes shorter (`far`); references that
  consume nothing first (`direct`) go down in rank and are charged within the same level (`localNeed`).  The recursion depth
  of the generated decoders is therefore bounded by a function of the input length that the driver can evaluate — on the
  campaign's recursive types it grows by a constant per 4 bytes (examples in Props/C04).
-/
import Fx.Lemmas.Depth
import Fx.Lemmas.Advance
namespace Fx

/-! ### budgets: direct references at `recD`, everything behind a marker or a count at the flat budget `far` -/

def FieldDec.need2 (recD : String → Nat) (far : Nat) : FieldDec → Nat
  | .one b => b.need recD + 1
  | .fixedArr k b => k + b.need recD + 2
  | .varArr _ _ _ => far + 1
  | _ => 1

def StructFieldDec.need2 (recD : String → Nat) (far : Nat) : StructFieldDec → Nat
  | .plain _ fd => fd.need2 recD far
  | .optional _ _ => far

def fieldsNeed2 (recD : String → Nat) (far : Nat) : List StructFieldDec → Nat
  | [] => 1
  | f :: fs => max (f.need2 recD far) (fieldsNeed2 recD far fs) + 1

def Arm.need2 (recD : String → Nat) (far : Nat) (a : Arm) : Nat :=
  match a.payload with
  | some fd => fd.need2 recD far
  | none => 0

def armsNeed2 (recD : String → Nat) (far : Nat) : List Arm → Nat
  | [] => 0
  | a :: as => max (a.need2 recD far) (armsNeed2 recD far as)

def Tail.need2 (recD : String → Nat) (far : Nat) : Tail → Nat
  | .defaultData fd => fd.need2 recD far
  | _ => 0

def ImplBody.need2 (recD : String → Nat) (far : Nat) : ImplBody → Nat
  | .struct fs => fieldsNeed2 recD far fs + 1
  | .union u => max (u.disc.need recD) (max (armsNeed2 recD far u.arms) (u.tail.need2 recD far)) + 1
  | .enum _ => 1
  | .typedef fd => fd.need2 recD far + 1

/-- the budget of the decoder of `n` on one level, following direct references to depth `g` -/
def Plans.localNeed (p : Plans) (far : Nat) : Nat → String → Nat
  | 0, _ => 0
  | g + 1, n =>
    match p.findImpl n with
    | none => 1
    | some i => i.body.need2 (p.localNeed far g) far

/-- the largest level budget over the declared decoders (at least 1: an undeclared name answers at once) -/
def Plans.maxLocal (p : Plans) (far : Nat) : Nat :=
  (p.impls.map fun i => p.localNeed far (p.rankOf (p.impls.length + 1) i.name + 1) i.name).foldr max 1

/-- **the recursion budget for buffers shorter than `4 (k + 1)` bytes** -/
def Plans.budget (p : Plans) : Nat → Nat
  | 0 => p.maxLocal 0
  | k + 1 => p.maxLocal (p.budget k)

/-! ### one level -/

section level
variable (a : Ast) (p : Plans) (recD : String → Nat) (R far : Nat)
variable (Hfar : ∀ m c, c.remaining + 4 ≤ R → ∀ f, far ≤ f → evalImpl a p f m c ≠ .outOfFuel)

/-- the directly referenced decoders in `S` answer from their budget on, on every buffer of at most `R` bytes -/
def RecOkR (S : List String) : Prop := ∀ m ∈ S, ∀ f, recD m ≤ f → ∀ c, c.remaining ≤ R → evalImpl a p f m c ≠ .outOfFuel

omit Hfar in
theorem basic_need2 (b : BasicDec) (h : RecOkR a p recD R b.direct) (f : Nat) (hf : b.need recD ≤ f) (c : Cur) (hc : c.remaining ≤ R) :
    evalBasic a p f b c ≠ .outOfFuel := by
  cases f with
  | zero => cases b <;> simp [BasicDec.need] at hf
  | succ f' =>
    cases b with
    | prim pr => simp only [evalBasic]; exact readPrim_noof pr c
    | string => simp only [evalBasic]; exact readString_noof none c
    | «opaque» => simp only [evalBasic]; exact readVariableBytes_noof none c
    | tryFrom n =>
      simp only [evalBasic]
      exact h n (by simp [BasicDec.direct]) f' (by simp [BasicDec.need] at hf; omega) c hc

omit Hfar in
theorem repeat_need2 (b : BasicDec) (h : RecOkR a p recD R b.direct) :
    ∀ (k f : Nat), k + b.need recD + 1 ≤ f → ∀ c, c.remaining ≤ R → evalRepeat a p f k b c ≠ .outOfFuel := by
  intro k
  induction k with
  | zero =>
    intro f hf c _
    cases f with
    | zero => omega
    | succ f' => simp [evalRepeat]
  | succ k ih =>
    intro f hf c hc
    cases f with
    | zero => omega
    | succ f' =>
      simp only [evalRepeat]
      refine bind_noof (basic_need2 a p recD R b h f' (by omega) c hc) (fun v c1 h1 => ?_)
      have ad := (eval_adv a p f').2.1 b c v c1 h1
      refine bind_noof (ih f' (by omega) c1 (Nat.le_trans ad.remaining_le hc)) (fun vs c2 _ => ?_)
      intro h; cases h

include Hfar in
theorem field_need2 (fd : FieldDec) (h : RecOkR a p recD R fd.direct) (f : Nat) (hf : fd.need2 recD far ≤ f) (c : Cur)
    (hc : c.remaining ≤ R) : evalField a p f fd c ≠ .outOfFuel := by
  cases f with
  | zero => cases fd <;> simp [FieldDec.need2] at hf
  | succ f' =>
    cases fd with
    | one b =>
      simp only [evalField]
      exact basic_need2 a p recD R b h f' (by simp [FieldDec.need2] at hf; omega) c hc
    | fixedBytes n => simp only [evalField]; exact readBytes_noof n c
    | fixedArr k b =>
      simp only [evalField]
      refine bind_noof (repeat_need2 a p recD R b h k f' (by simp [FieldDec.need2] at hf; omega) c hc) (fun vs c1 _ => ?_)
      intro h; cases h
    | varBytes m => simp only [evalField]; exact readVariableBytes_noof m c
    | varString m => simp only [evalField]; exact readString_noof m c
    | varArr ty g m =>
      simp only [evalField]
      exact readVariableArray_noof _ _ m R
        (fun c' hc' => Hfar ty c' hc' f' (by simp [FieldDec.need2] at hf; omega)) c hc

include Hfar in
theorem fields_need2 : ∀ (fs : List StructFieldDec), RecOkR a p recD R (fs.flatMap StructFieldDec.direct) →
    ∀ f, fieldsNeed2 recD far fs ≤ f → ∀ c, c.remaining ≤ R → evalFields a p f fs c ≠ .outOfFuel := by
  intro fs
  induction fs with
  | nil =>
    intro _ f hf c _
    cases f with
    | zero => simp [fieldsNeed2] at hf
    | succ f' => simp [evalFields]
  | cons fld rest ih =>
    intro h f hf c hc
    have hrest : RecOkR a p recD R (rest.flatMap StructFieldDec.direct) :=
      fun m hm => h m (by simp only [List.flatMap_cons, List.mem_append]; exact Or.inr hm)
    have hfld : RecOkR a p recD R fld.direct :=
      fun m hm => h m (by simp only [List.flatMap_cons, List.mem_append]; exact Or.inl hm)
    cases f with
    | zero => simp [fieldsNeed2] at hf
    | succ f' =>
      simp only [fieldsNeed2] at hf
      simp only [evalFields]
      -- the head field answers, and leaves a cursor that is not longer
      have hhead : ∀ r, r = (match fld with
          | .plain _ fd => evalField a p f' fd c
          | .optional _ ty =>
            (readU32 c).bind fun m c1 =>
              if m = 0 then Res.ok Val.none c1
              else if m = 1 then (evalImpl a p f' ty c1).bind fun v c2 => Res.ok (Val.some v) (c2.addLog .box)
              else Res.err (.unknownOptionVariant m) c1.log) →
          r ≠ .outOfFuel ∧ ∀ v c1, r = .ok v c1 → c1.remaining ≤ c.remaining := by
        intro r hr
        subst hr
        cases fld with
        | plain nm fd =>
          simp only
          refine ⟨field_need2 a p recD R far Hfar fd (by simpa [StructFieldDec.direct] using hfld) f'
            (by simp only [StructFieldDec.need2] at hf; omega) c hc, fun v c1 h1 => ?_⟩
          exact ((eval_adv a p f').2.2.1 fd c v c1 h1).remaining_le
        | optional nm ty =>
          simp only
          constructor
          · refine bind_noof (readU32_noof c) (fun m c1 h1 => ?_)
            obtain ⟨e, l4, _, _⟩ := readU32_ok h1
            split
            · intro h; cases h
            · split
              · refine bind_noof (Hfar ty c1 (by subst e; simp [Cur.remaining] at *; omega) f'
                  (by simp only [StructFieldDec.need2] at hf; omega)) (fun v c2 _ => ?_)
                intro h; cases h
              · intro h; cases h
          · intro v c1 h1
            obtain ⟨m, cm, h5, h6⟩ := Res.bind_eq_ok h1
            have a1 := (readU32_adv h5).remaining_le
            split at h6
            · cases h6; exact a1
            · split at h6
              · obtain ⟨v3, c3, h7, h8⟩ := Res.bind_eq_ok h6
                cases h8
                have a2 := ((eval_adv a p f').1 ty cm v3 c3 h7).remaining_le
                simp only [Cur.addLog, Cur.remaining] at *
                omega
              · cases h6
      obtain ⟨hno, hle⟩ := hhead _ rfl
      refine bind_noof hno (fun v c1 h1 => ?_)
      refine bind_noof (ih hrest f' (by omega) c1 (Nat.le_trans (hle v c1 h1) hc)) (fun vs c2 _ => ?_)
      intro h; cases h

omit Hfar in
theorem arm_need2_le : ∀ (arms : List Arm) (arm : Arm), arm ∈ arms → arm.need2 recD far ≤ armsNeed2 recD far arms := by
  intro arms
  induction arms with
  | nil => intro arm h; cases h
  | cons x xs ih =>
    intro arm h
    simp only [armsNeed2]
    rcases List.mem_cons.mp h with rfl | h
    · exact Nat.le_max_left _ _
    · exact Nat.le_trans (ih arm h) (Nat.le_max_right _ _)

include Hfar in
theorem impl_need2 (n : String) (i : Impl) (hfi : p.findImpl n = some i) (h : RecOkR a p recD R i.body.direct)
    (f : Nat) (hf : i.body.need2 recD far ≤ f) (c : Cur) (hc : c.remaining ≤ R) : evalImpl a p f n c ≠ .outOfFuel := by
  cases f with
  | zero => cases hb : i.body <;> simp [hb, ImplBody.need2] at hf
  | succ f' =>
    simp only [evalImpl, hfi]
    cases hb : i.body with
    | struct fs =>
      simp only
      rw [hb] at h hf
      refine bind_noof (fields_need2 a p recD R far Hfar fs h f' (by simp only [ImplBody.need2] at hf; omega) c hc) (fun vs c1 _ => ?_)
      intro h; cases h
    | union u =>
      simp only
      rw [hb] at h hf
      simp only [ImplBody.need2] at hf
      simp only [ImplBody.direct] at h
      have hdisc : RecOkR a p recD R u.disc.direct := fun m hm => h m (by simp only [List.mem_append]; exact Or.inl (Or.inl hm))
      refine bind_noof (basic_need2 a p recD R u.disc hdisc f' (by omega) c hc) (fun d c1 h1 => ?_)
      have hc1 : c1.remaining ≤ R := Nat.le_trans ((eval_adv a p f').2.1 u.disc c d c1 h1).remaining_le hc
      cases hsel : selectArm a d u.arms with
      | some arm =>
        simp only
        have hmem := selectArm_mem a d u.arms arm hsel
        cases hpl : arm.payload with
        | none => simp only; intro h; cases h
        | some fd =>
          simp only
          have hrefs : RecOkR a p recD R fd.direct := fun m hm => h m (by
            simp only [List.mem_append, List.mem_flatMap]
            exact Or.inl (Or.inr ⟨arm, hmem, by simp [Arm.direct, hpl, hm]⟩))
          have hle := arm_need2_le recD far u.arms arm hmem
          simp only [Arm.need2, hpl] at hle
          refine bind_noof (field_need2 a p recD R far Hfar fd hrefs f' (by omega) c1 hc1) (fun v c2 _ => ?_)
          intro h; cases h
      | none =>
        simp only
        cases htl : u.tail with
        | defaultData fd =>
          simp only
          have hrefs : RecOkR a p recD R fd.direct := fun m hm => h m (by
            simp only [List.mem_append]
            exact Or.inr (by simp [Tail.direct, htl, hm]))
          have : fd.need2 recD far ≤ f' := by simp only [htl, Tail.need2] at hf; omega
          refine bind_noof (field_need2 a p recD R far Hfar fd hrefs f' this c1 hc1) (fun v c2 _ => ?_)
          intro h; cases h
        | errUnknown => simp only; intro h; cases h
        | none => simp only; intro h; cases h
    | enum arms =>
      simp only
      refine bind_noof (readI32_noof c) (fun iv c1 _ => ?_)
      split <;> (intro h; cases h)
    | typedef fd =>
      simp only
      rw [hb] at h hf
      refine bind_noof (field_need2 a p recD R far Hfar fd h f' (by simp only [ImplBody.need2] at hf; omega) c hc) (fun v c1 _ => ?_)
      intro h; cases h

end level

/-- one level: with every marker-guarded reference answering at `far` on buffers 4 bytes shorter, the decoder of `n` answers at
    `p.localNeed far g n` on every buffer of at most `R` bytes (direct references go down in rank) -/
theorem local_sound (a : Ast) (p : Plans) (rk : String → Nat) (hr : p.Ranked rk) (R far : Nat)
    (Hfar : ∀ m c, c.remaining + 4 ≤ R → ∀ f, far ≤ f → evalImpl a p f m c ≠ .outOfFuel) :
    ∀ (g : Nat) (n : String), rk n < g → ∀ f, p.localNeed far g n ≤ f → ∀ c, c.remaining ≤ R → evalImpl a p f n c ≠ .outOfFuel := by
  intro g
  induction g with
  | zero => intro n h; omega
  | succ g ih =>
    intro n hn f hf c hc
    simp only [Plans.localNeed] at hf
    cases hfi : p.findImpl n with
    | none =>
      rw [hfi] at hf
      cases f with
      | zero => simp at hf
      | succ f' => simp [evalImpl, hfi]
    | some i =>
      rw [hfi] at hf
      obtain ⟨hmem, hname⟩ := findImpl_some hfi
      refine impl_need2 a p (p.localNeed far g) R far Hfar n i hfi (fun m hm f' hf' c' hc' => ?_) f hf c hc
      have hlt : rk m < rk n := hname ▸ hr i hmem m hm
      exact ih m (Nat.lt_of_lt_of_le hlt (Nat.le_of_lt_succ hn)) f' hf' c' hc'

theorem le_foldr_max (l : List Nat) (b x : Nat) (h : x ∈ l) : x ≤ l.foldr max b := by
  induction l with
  | nil => cases h
  | cons y ys ih =>
    simp only [List.foldr_cons]
    rcases List.mem_cons.mp h with rfl | h
    · exact Nat.le_max_left _ _
    · exact Nat.le_trans (ih h) (Nat.le_max_right _ _)

theorem base_le_foldr_max (l : List Nat) (b : Nat) : b ≤ l.foldr max b := by
  induction l with
  | nil => exact Nat.le_refl _
  | cons y ys ih => exact Nat.le_trans ih (Nat.le_max_right _ _)

/-- **an explicit, input-linear recursion budget**: for finite types, every decoder answers at `p.budget k` on every buffer
    shorter than `4 (k + 1)` bytes -/
theorem budget_suffices (a : Ast) (p : Plans) (hfin : p.finite = true) :
    ∀ (k : Nat) (n : String) (c : Cur), c.remaining < 4 * (k + 1) → ∀ f, p.budget k ≤ f → evalImpl a p f n c ≠ .outOfFuel := by
  have hr := p.finite_ranked hfin
  -- one level, given the budget of the buffers 4 bytes shorter
  have level : ∀ (R far : Nat), (∀ m c, c.remaining + 4 ≤ R → ∀ f, far ≤ f → evalImpl a p f m c ≠ .outOfFuel) →
      ∀ n c, c.remaining ≤ R → ∀ f, p.maxLocal far ≤ f → evalImpl a p f n c ≠ .outOfFuel := by
    intro R far Hfar n c hc f hf
    cases hfi : p.findImpl n with
    | none =>
      have h1 : 1 ≤ f := Nat.le_trans (base_le_foldr_max _ 1) hf
      cases f with
      | zero => omega
      | succ f' => simp [evalImpl, hfi]
    | some i =>
      obtain ⟨hmem, hname⟩ := findImpl_some hfi
      have hle : p.localNeed far (p.rankOf (p.impls.length + 1) n + 1) n ≤ p.maxLocal far := by
        apply le_foldr_max
        exact List.mem_map.mpr ⟨i, hmem, by rw [hname]⟩
      exact local_sound a p _ hr R far Hfar _ n (Nat.lt_succ_self _) f (Nat.le_trans hle hf) c hc
  intro k
  induction k with
  | zero =>
    intro n c hc f hf
    exact level 3 0 (fun m c' hc' => by omega) n c (by omega) f hf
  | succ k ih =>
    intro n c hc f hf
    refine level (4 * (k + 1) + 3) (p.budget k) (fun m c' hc' f' hf' => ?_) n c (by omega) f hf
    exact ih m c' (by omega) f' hf'

/-! ### the budget grows by at most a constant per 4 bytes -/

section lipschitz
variable (recD recD' : String → Nat) (far far' d : Nat)
variable (hrec : ∀ m, recD' m ≤ recD m + d) (hfar : far' ≤ far + d)

include hrec in
theorem basic_need_shift (b : BasicDec) : b.need recD' ≤ b.need recD + d := by
  cases b <;> simp only [BasicDec.need] <;> first | omega | (have := hrec ‹String›; omega)

include hrec hfar in
theorem field_need2_shift (fd : FieldDec) : fd.need2 recD' far' ≤ fd.need2 recD far + d := by
  cases fd with
  | one b => simp only [FieldDec.need2]; have := basic_need_shift recD recD' d hrec b; omega
  | fixedArr k b => simp only [FieldDec.need2]; have := basic_need_shift recD recD' d hrec b; omega
  | varArr ty g m => simp only [FieldDec.need2]; omega
  | fixedBytes n => simp only [FieldDec.need2]; omega
  | varBytes m => simp only [FieldDec.need2]; omega
  | varString m => simp only [FieldDec.need2]; omega

include hrec hfar in
theorem fields_need2_shift : ∀ (fs : List StructFieldDec), fieldsNeed2 recD' far' fs ≤ fieldsNeed2 recD far fs + d
  | [] => by simp only [fieldsNeed2]; omega
  | f :: fs => by
    simp only [fieldsNeed2]
    have h1 : f.need2 recD' far' ≤ f.need2 recD far + d := by
      cases f with
      | plain nm fd => simp only [StructFieldDec.need2]; exact field_need2_shift recD recD' far far' d hrec hfar fd
      | optional nm ty => simp only [StructFieldDec.need2]; exact hfar
    have h2 := fields_need2_shift fs
    omega

include hrec hfar in
theorem arms_need2_shift : ∀ (arms : List Arm), armsNeed2 recD' far' arms ≤ armsNeed2 recD far arms + d
  | [] => by simp only [armsNeed2]; omega
  | x :: xs => by
    simp only [armsNeed2]
    have h1 : x.need2 recD' far' ≤ x.need2 recD far + d := by
      simp only [Arm.need2]
      cases x.payload with
      | none => simp
      | some fd => exact field_need2_shift recD recD' far far' d hrec hfar fd
    have h2 := arms_need2_shift xs
    omega

include hrec hfar in
theorem body_need2_shift (b : ImplBody) : b.need2 recD' far' ≤ b.need2 recD far + d := by
  cases b with
  | struct fs => simp only [ImplBody.need2]; have := fields_need2_shift recD recD' far far' d hrec hfar fs; omega
  | union u =>
    simp only [ImplBody.need2]
    have h1 := basic_need_shift recD recD' d hrec u.disc
    have h2 := arms_need2_shift recD recD' far far' d hrec hfar u.arms
    have h3 : u.tail.need2 recD' far' ≤ u.tail.need2 recD far + d := by
      cases u.tail with
      | defaultData fd => simp only [Tail.need2]; exact field_need2_shift recD recD' far far' d hrec hfar fd
      | errUnknown => simp only [Tail.need2]; omega
      | none => simp only [Tail.need2]; omega
    omega
  | enum arms => simp only [ImplBody.need2]; omega
  | typedef fd => simp only [ImplBody.need2]; have := field_need2_shift recD recD' far far' d hrec hfar fd; omega

end lipschitz

theorem localNeed_shift (p : Plans) (far d : Nat) : ∀ (g : Nat) (n : String), p.localNeed (far + d) g n ≤ p.localNeed far g n + d := by
  intro g
  induction g with
  | zero => intro n; simp only [Plans.localNeed]; omega
  | succ g ih =>
    intro n
    simp only [Plans.localNeed]
    cases p.findImpl n with
    | none => simp only; omega
    | some i => exact body_need2_shift _ _ far (far + d) d ih (Nat.le_refl _) i.body

theorem foldr_max_shift (f g : String → Nat) (d : Nat) (h : ∀ x, f x ≤ g x + d) :
    ∀ (l : List String), (l.map f).foldr max 1 ≤ (l.map g).foldr max 1 + d
  | [] => by simp only [List.map_nil, List.foldr_nil]; omega
  | x :: xs => by
    simp only [List.map_cons, List.foldr_cons]
    have h1 := h x
    have h2 := foldr_max_shift f g d h xs
    omega

theorem maxLocal_shift (p : Plans) (far d : Nat) : p.maxLocal (far + d) ≤ p.maxLocal far + d := by
  simp only [Plans.maxLocal]
  have := foldr_max_shift
    (fun n => p.localNeed (far + d) (p.rankOf (p.impls.length + 1) n + 1) n)
    (fun n => p.localNeed far (p.rankOf (p.impls.length + 1) n + 1) n) d
    (fun n => localNeed_shift p far d _ n) (p.impls.map (·.name))
  simpa [List.map_map, Function.comp_def] using this

/-- **the budget is linear in the buffer length**: at most `p.maxLocal 0` per 4 bytes -/
theorem budget_linear (p : Plans) : ∀ (k : Nat), p.budget k ≤ (k + 1) * p.maxLocal 0
  | 0 => by simp [Plans.budget]
  | k + 1 => by
    simp only [Plans.budget]
    have h1 : p.maxLocal (p.budget k) ≤ p.maxLocal 0 + p.budget k := by
      have := maxLocal_shift p 0 (p.budget k)
      simpa using this
    have h2 := budget_linear p k
    have : (k + 1 + 1) * p.maxLocal 0 = (k + 1) * p.maxLocal 0 + p.maxLocal 0 := by
      rw [Nat.add_mul, Nat.one_mul]
    omega

end Fx
