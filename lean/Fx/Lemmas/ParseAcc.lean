/-
  Fx.Lemmas.ParseAcc — text-level rules: "this expression accepts exactly this text, whatever follows", sequencing through
  a layout, and repetition over a list of elements separated by layouts.
-/
import Fx.Lemmas.ParseLeaf
namespace Fx.Parse
open Fx.Peg

/-- `e` (in a non-atomic rule) accepts exactly the text `T` in front of every continuation satisfying `C`, with tokens `TS` -/
def Acc (e : Expr) (T : List Char) (TS : List Pair) (C : List Char → Prop) : Prop :=
  ∀ p r, C r → EOk X false e ⟨p, T ++ r⟩ ⟨p + T.length, r⟩ TS

/-- `e` rejects every text satisfying `C` -/
def Rej (e : Expr) (C : List Char → Prop) : Prop := ∀ p r, C r → EFail X false e ⟨p, r⟩

theorem Acc.mono {e : Expr} {T : List Char} {TS : List Pair} {C C' : List Char → Prop} (h : Acc e T TS C) (hc : ∀ r, C' r → C r) :
    Acc e T TS C' := fun p r hr => h p r (hc r hr)

theorem Rej.mono {e : Expr} {C C' : List Char → Prop} (h : Rej e C) (hc : ∀ r, C' r → C r) : Rej e C' :=
  fun p r hr => h p r (hc r hr)

theorem EOk.cast {a : Bool} {e : Expr} {s s' s'' : St} {ts ts' : List Pair} (h : EOk X a e s s' ts) (h1 : s' = s'') (h2 : ts = ts') :
    EOk X a e s s'' ts' := by subst h1; subst h2; exact h

/-- the first character of a token is not layout -/
def TokStart (T : List Char) : Prop := ∃ c cs, T = c :: cs ∧ isWsChar c = false ∧ c ≠ '/'

theorem TokStart.noLayout {T r : List Char} (h : TokStart T) : NoLayoutStart (T ++ r) := by
  obtain ⟨c, cs, rfl, h1, h2⟩ := h
  intro d hd; simp at hd; subst hd; exact ⟨h1, h2⟩

theorem tokStart_ident {n : List Char} (h : validIdent n = true) : TokStart n := by
  obtain ⟨hne, hn, _⟩ := validIdent_iff h
  cases n with
  | nil => exact absurd rfl hne
  | cons c cs =>
    have hc := allIdent_mem hn c (by simp)
    refine ⟨c, cs, rfl, ident_not_ws hc, ?_⟩
    intro e; subst e; exact absurd hc (by decide)

/-! ### literals -/

theorem matchStr_self : ∀ (k r : List Char) (p : Nat), matchStr k ⟨p, k ++ r⟩ = some ⟨p + k.length, r⟩ := by
  intro k
  induction k with
  | nil => intro r p; simp [matchStr]
  | cons c cs ih =>
    intro r p
    simp only [List.cons_append, matchStr, if_true, ih, List.length_cons]
    congr 2; omega

theorem Acc.str (k : List Char) : Acc (.str k) k [] (fun _ => True) :=
  fun p r _ => EOk.str (matchStr_self k r p)

theorem Rej.str_head {c : Char} {k : List Char} : Rej (.str (c :: k)) (fun r => r.head? ≠ some c) := by
  intro p r hr
  refine EFail.str ?_
  cases r with
  | nil => simp [matchStr]
  | cons d ds =>
    have : ¬ (c = d) := fun e => hr (by simp [e])
    simp [matchStr, this]

/-! ### sequencing through a layout -/

theorem Acc.seq {a b : Expr} {T1 T2 : List Char} {TS1 TS2 : List Pair} {C1 C2 : List Char → Prop} (L : Layout)
    (ha : Acc a T1 TS1 C1) (hL : L.ok = true) (hb : Acc b T2 TS2 C2)
    (h1 : ∀ r, C2 r → C1 (L.text ++ (T2 ++ r))) (h2 : ∀ r, C2 r → NoLayoutStart (T2 ++ r)) :
    Acc (.seq a b) (T1 ++ (L.text ++ T2)) (TS1 ++ TS2) C2 := by
  intro p r hr
  have A := ha p (L.text ++ (T2 ++ r)) (h1 r hr)
  have S := skOk_layout L (p + T1.length) (T2 ++ r) hL (h2 r hr)
  have B := hb (p + T1.length + L.text.length) r hr
  have := EOk.seq A S B
  refine EOk.cast (by simpa [List.append_assoc] using this) ?_ rfl
  simp [List.length_append]; omega

/-- sequencing with nothing in between (the second part may be empty: an option or repetition that matches nothing) -/
theorem Acc.seq0 {a b : Expr} {T1 T2 : List Char} {TS1 TS2 : List Pair} {C1 C2 : List Char → Prop}
    (ha : Acc a T1 TS1 C1) (hb : Acc b T2 TS2 C2)
    (h1 : ∀ r, C2 r → C1 (T2 ++ r)) (h2 : ∀ r, C2 r → NoLayoutStart (T2 ++ r)) :
    Acc (.seq a b) (T1 ++ T2) (TS1 ++ TS2) C2 := by
  have := Acc.seq (a := a) (b := b) ⟨[], []⟩ ha rfl hb (by simpa [Layout.text, segsText] using h1) h2
  simpa [Layout.text, segsText] using this

/-! ### choice and option -/

theorem Acc.alt1 {a b : Expr} {T : List Char} {TS : List Pair} {C : List Char → Prop} (h : Acc a T TS C) : Acc (.alt a b) T TS C :=
  fun p r hr => EOk.alt1 (h p r hr)

theorem Acc.alt2 {a b : Expr} {T : List Char} {TS : List Pair} {C C' : List Char → Prop} (ha : Rej a C') (h : Acc b T TS C)
    (hc : ∀ r, C r → C' (T ++ r)) : Acc (.alt a b) T TS C :=
  fun p r hr => EOk.alt2 (ha p (T ++ r) (hc r hr)) (h p r hr)

theorem Rej.alt {a b : Expr} {C : List Char → Prop} (ha : Rej a C) (hb : Rej b C) : Rej (.alt a b) C :=
  fun p r hr => EFail.alt (ha p r hr) (hb p r hr)

theorem Rej.seq1 {a b : Expr} {C : List Char → Prop} (ha : Rej a C) : Rej (.seq a b) C :=
  fun p r hr => EFail.seq1 (ha p r hr)

theorem Acc.opt_some {e : Expr} {T : List Char} {TS : List Pair} {C : List Char → Prop} (h : Acc e T TS C) : Acc (.opt e) T TS C :=
  fun p r hr => EOk.opt_some (h p r hr)

theorem Acc.opt_none {e : Expr} {C : List Char → Prop} (h : Rej e C) : Acc (.opt e) [] [] C :=
  fun p r hr => by simpa using EOk.opt_none (h p r hr)

/-! ### rules -/

theorem Acc.normal {n : String} {rl : Rule} {T : List Char} {TS : List Pair} {C : List Char → Prop} (hf : X.find n = some rl)
    (hn : (n == "WHITESPACE" || n == "COMMENT") = false) (ht : rl.ty = .normal) (h : Acc rl.body T TS C) :
    Acc (.ref n) T [Pair.mk n T TS] C := by
  intro p r hr
  have := ROk.normal hf hn ht (h p r hr)
  rw [consumed_app] at this
  exact EOk.ref this

theorem Acc.silent {n : String} {rl : Rule} {T : List Char} {TS : List Pair} {C : List Char → Prop} (hf : X.find n = some rl)
    (hn : (n == "WHITESPACE" || n == "COMMENT") = false) (ht : rl.ty = .silent) (h : Acc rl.body T TS C) :
    Acc (.ref n) T TS C :=
  fun p r hr => EOk.ref (ROk.silent hf hn ht (h p r hr))

theorem Rej.normal {n : String} {rl : Rule} {C : List Char → Prop} (hf : X.find n = some rl)
    (hn : (n == "WHITESPACE" || n == "COMMENT") = false) (ht : rl.ty = .normal) (h : Rej rl.body C) : Rej (.ref n) C :=
  fun p r hr => EFail.ref (RFail.normal hf hn ht (h p r hr))

theorem Rej.silent {n : String} {rl : Rule} {C : List Char → Prop} (hf : X.find n = some rl)
    (hn : (n == "WHITESPACE" || n == "COMMENT") = false) (ht : rl.ty = .silent) (h : Rej rl.body C) : Rej (.ref n) C :=
  fun p r hr => EFail.ref (RFail.silent hf hn ht (h p r hr))

theorem Acc.ident {n : List Char} (h : validIdent n = true) : Acc (.ref "ident") n [Pair.mk "ident" n []] NoIdentStart :=
  fun _ _ hr => EOk.ref (ident_ok h hr)

theorem Rej.ident : Rej (.ref "ident") NoIdentStart := fun _ _ hr => EFail.ref (ident_fail hr)

theorem Acc.lit (l : Lit) (h : l.ok = true) : Acc (.alt (.ref "ident_value") (.ref "ident_const")) l.text l.tokens NoIdentStart :=
  fun _ _ hr => lit_ok l h hr

/-! ### repetition over a list of elements, each followed by a layout -/

structure Elem where
  T : List Char
  TS : List Pair
  L : Layout

/-- the text from the layout after one element to the end: the remaining elements and the continuation `r` -/
def tailText (L0 : Layout) : List Elem → List Char → List Char
  | [], r => L0.text ++ r
  | el :: els, r => L0.text ++ (el.T ++ tailText el.L els r)

/-- what is left when the repetition stops: the layout after the last element (it is not consumed), then `r` -/
def endRest (L0 : Layout) : List Elem → List Char → List Char
  | [], r => L0.text ++ r
  | el :: els, r => endRest el.L els r

def consumedLen (L0 : Layout) : List Elem → Nat
  | [] => 0
  | el :: els => L0.text.length + el.T.length + consumedLen el.L els

def elemToks (els : List Elem) : List Pair := (els.map (·.TS)).flatten

/-- every element is accepted in front of what actually follows it -/
def elemsOk (e : Expr) (r : List Char) : List Elem → Prop
  | [] => True
  | el :: els => el.T ≠ [] ∧ el.L.ok = true ∧ NoLayoutStart (el.T ++ tailText el.L els r) ∧
      (∀ p, EOk X false e ⟨p, el.T ++ tailText el.L els r⟩ ⟨p + el.T.length, tailText el.L els r⟩ el.TS) ∧ elemsOk e r els

theorem rep_elems (e : Expr) (r : List Char) (hr : NoLayoutStart r) (hrej : ∀ p, EFail X false e ⟨p, r⟩) :
    ∀ (els : List Elem) (L0 : Layout) (p : Nat) (acc : List Pair), L0.ok = true → elemsOk e r els →
      RepOk X false e ⟨p, tailText L0 els r⟩ acc ⟨p + consumedLen L0 els, endRest L0 els r⟩ (acc ++ elemToks els) := by
  intro els
  induction els with
  | nil =>
    intro L0 p acc hL _
    simp only [tailText, endRest, consumedLen, elemToks, List.map_nil, List.flatten_nil, List.append_nil, Nat.add_zero]
    exact RepOk.stop (skOk_layout L0 p r hL hr) (hrej _)
  | cons el els ih =>
    intro L0 p acc hL hok
    obtain ⟨hne, hLe, hnl, hacc, hrest⟩ := hok
    have S := skOk_layout L0 p (el.T ++ tailText el.L els r) hL hnl
    have E := hacc (p + L0.text.length)
    have R := ih el.L (p + L0.text.length + el.T.length) (acc ++ el.TS) hLe hrest
    have hpos : (⟨p + L0.text.length + el.T.length, tailText el.L els r⟩ : St).pos ≠ (⟨p, tailText L0 (el :: els) r⟩ : St).pos := by
      have : 0 < el.T.length := List.length_pos_iff.mpr hne
      simp only; omega
    have := RepOk.step (s := ⟨p, tailText L0 (el :: els) r⟩) S E hpos R
    simp only [endRest, consumedLen, elemToks, List.map_cons, List.flatten_cons]
    simp only [elemToks, List.append_assoc] at this
    have e1 : p + (L0.text.length + el.T.length + consumedLen el.L els) = p + L0.text.length + el.T.length + consumedLen el.L els := by omega
    rw [e1]
    exact this

/-- the text a non-empty repetition consumes: from the first element to the last, without the layout after the last -/
def starText : List Elem → List Char
  | [] => []
  | [el] => el.T
  | el :: el' :: els => el.T ++ (el.L.text ++ starText (el' :: els))

/-- the layout after the last element (empty when there is no element) -/
def lastLayout : List Elem → Layout
  | [] => ⟨[], []⟩
  | [el] => el.L
  | _ :: el' :: els => lastLayout (el' :: els)

theorem tailText_eq : ∀ (els : List Elem) (el : Elem) (r : List Char),
    el.T ++ tailText el.L els r = starText (el :: els) ++ ((lastLayout (el :: els)).text ++ r) := by
  intro els
  induction els with
  | nil => intro el r; simp [tailText, starText, lastLayout]
  | cons el' els ih => intro el r; simp [tailText, starText, lastLayout, ih el' r, List.append_assoc]

theorem endRest_eq : ∀ (els : List Elem) (el : Elem) (r : List Char),
    endRest el.L els r = (lastLayout (el :: els)).text ++ r := by
  intro els
  induction els with
  | nil => intro el r; simp [endRest, lastLayout]
  | cons el' els ih => intro el r; simp [endRest, lastLayout, ih el' r]

theorem consumedLen_eq : ∀ (els : List Elem) (el : Elem),
    el.T.length + consumedLen el.L els = (starText (el :: els)).length := by
  intro els
  induction els with
  | nil => intro el; simp [consumedLen, starText]
  | cons el' els ih =>
    intro el
    have := ih el'
    simp only [consumedLen, starText, List.length_append]
    omega

/-- **`e*` over a non-empty list of elements**: it consumes the elements and the layouts between them, stops in front of
    the layout that follows the last one, and yields the elements' tokens in order -/
theorem star_elems (e : Expr) (r : List Char) (hr : NoLayoutStart r) (hrej : ∀ p, EFail X false e ⟨p, r⟩)
    (el : Elem) (els : List Elem) (hok : elemsOk e r (el :: els)) (p : Nat) :
    EOk X false (.star e) ⟨p, starText (el :: els) ++ ((lastLayout (el :: els)).text ++ r)⟩
      ⟨p + (starText (el :: els)).length, (lastLayout (el :: els)).text ++ r⟩ (elemToks (el :: els)) := by
  obtain ⟨_, hLe, _, hacc, hrest⟩ := hok
  have E := hacc p
  have R := rep_elems e r hr hrej els el.L (p + el.T.length) el.TS hLe hrest
  have := EOk.star_cons E R
  rw [tailText_eq] at this
  rw [endRest_eq] at this
  refine EOk.cast this ?_ (by simp [elemToks])
  have := consumedLen_eq els el
  congr 1; omega

/-- `e*` over no element -/
theorem star_none (e : Expr) (r : List Char) (hrej : ∀ p, EFail X false e ⟨p, r⟩) (p : Nat) :
    EOk X false (.star e) ⟨p, r⟩ ⟨p, r⟩ [] := EOk.star_nil (hrej p)

end Fx.Parse
