/-
  Fx.Lemmas.ParseLayout — what the implicit skip of the grammar regenerated from `src/xdr.pest` consumes:
  any run of blanks, tabs and line ends, followed by any number of comments each followed by such a run.
-/
import Fx.Lemmas.PegRel
import Fx.Grammar
namespace Fx.Parse
open Fx.Peg

abbrev X : Peg.Grammar := Grammar.xdr

def isWsChar (c : Char) : Bool := c == ' ' || c == '\t' || c == '\n' || c == '\r'
def isIdentChar (c : Char) : Bool := isAsciiAlnum c || c == '_'

theorem ws_cases {c : Char} (h : isWsChar c = true) : c = ' ' ∨ c = '\t' ∨ c = '\n' ∨ c = '\r' := by
  simpa [isWsChar, or_assoc] using h

theorem ws_not_ident {c : Char} (h : isWsChar c = true) : isIdentChar c = false := by
  rcases ws_cases h with rfl | rfl | rfl | rfl <;> decide

theorem ident_not_ws {c : Char} (h : isIdentChar c = true) : isWsChar c = false := by
  cases hw : isWsChar c with
  | false => rfl
  | true => rw [ws_not_ident hw] at h; exact absurd h (by simp)

/-- the text does not start with a blank, tab or line end -/
def NoWsStart (r : List Char) : Prop := ∀ c, r.head? = some c → isWsChar c = false
/-- the text does not start with layout: neither white space nor `/` -/
def NoLayoutStart (r : List Char) : Prop := ∀ c, r.head? = some c → isWsChar c = false ∧ c ≠ '/'
/-- the text does not continue an identifier -/
def NoIdentStart (r : List Char) : Prop := ∀ c, r.head? = some c → isIdentChar c = false

theorem NoLayoutStart.ws {r : List Char} (h : NoLayoutStart r) : NoWsStart r := fun c hc => (h c hc).1

theorem consumed_app (p : Nat) (t r : List Char) : consumed ⟨p, t ++ r⟩ ⟨p + t.length, r⟩ = t := by
  simp [consumed]

theorem consumed_app' (p q : Nat) (t r : List Char) (hq : q = p + t.length) : consumed ⟨p, t ++ r⟩ ⟨q, r⟩ = t := by
  subst hq; exact consumed_app p t r

/-! ### WHITESPACE -/

theorem find_ws : X.find "WHITESPACE" = some ⟨"WHITESPACE", .silent, (.alt (.str [' ']) (.alt (.str ['\t']) .newline))⟩ := rfl

theorem ws_fail {a : Bool} {p : Nat} {r : List Char} (h : NoWsStart r) : RFail X a "WHITESPACE" ⟨p, r⟩ := by
  refine RFail.layout find_ws rfl ?_
  cases r with
  | nil =>
    exact EFail.alt (EFail.str (by simp [matchStr])) (EFail.alt (EFail.str (by simp [matchStr])) EFail.newline_nil)
  | cons c cs =>
    have hc := h c rfl
    have h1 : ¬ (' ' = c) := fun e => by subst e; simp [isWsChar] at hc
    have h2 : ¬ ('\t' = c) := fun e => by subst e; simp [isWsChar] at hc
    have h3 : c ≠ '\n' := fun e => by subst e; simp [isWsChar] at hc
    have h4 : c ≠ '\r' := fun e => by subst e; simp [isWsChar] at hc
    exact EFail.alt (EFail.str (by simp [matchStr, h1])) (EFail.alt (EFail.str (by simp [matchStr, h2])) (EFail.newline h3 h4))

/-- one step of `WHITESPACE` on a white-space character: one character, or two for `\r\n` -/
theorem ws_step {a : Bool} {p : Nat} {c : Char} {cs : List Char} (h : isWsChar c = true) :
    (ROk X a "WHITESPACE" ⟨p, c :: cs⟩ ⟨p + 1, cs⟩ []) ∨
    (∃ cs', c = '\r' ∧ cs = '\n' :: cs' ∧ ROk X a "WHITESPACE" ⟨p, c :: cs⟩ ⟨p + 1 + 1, cs'⟩ []) := by
  rcases ws_cases h with rfl | rfl | rfl | rfl
  · exact .inl (ROk.layout find_ws rfl (EOk.alt1 (EOk.str (by simp [matchStr]))))
  · exact .inl (ROk.layout find_ws rfl (EOk.alt2 (EFail.str (by simp [matchStr])) (EOk.alt1 (EOk.str (by simp [matchStr])))))
  · exact .inl (ROk.layout find_ws rfl (EOk.alt2 (EFail.str (by simp [matchStr]))
      (EOk.alt2 (EFail.str (by simp [matchStr])) EOk.newline_n)))
  · by_cases hn : cs.head? = some '\n'
    · cases cs with
      | nil => simp at hn
      | cons d ds =>
        simp only [List.head?_cons, Option.some.injEq] at hn
        subst hn
        exact .inr ⟨ds, rfl, rfl, ROk.layout find_ws rfl (EOk.alt2 (EFail.str (by simp [matchStr]))
          (EOk.alt2 (EFail.str (by simp [matchStr])) EOk.newline_rn))⟩
    · exact .inl (ROk.layout find_ws rfl (EOk.alt2 (EFail.str (by simp [matchStr]))
        (EOk.alt2 (EFail.str (by simp [matchStr])) (EOk.newline_r hn))))

/-- `WHITESPACE*` (the first half of the implicit skip) consumes a run of white space that is followed by something else -/
theorem wsOk_run : ∀ (n : Nat) (w r : List Char) (p : Nat), w.length ≤ n → (∀ c ∈ w, isWsChar c = true) → NoWsStart r →
    WsOk X ⟨p, w ++ r⟩ ⟨p + w.length, r⟩ := by
  intro n
  induction n with
  | zero =>
    intro w r p hl _ hr
    have : w = [] := List.eq_nil_of_length_eq_zero (by omega)
    subst this
    simpa using WsOk.stop (ws_fail hr)
  | succ n ih =>
    intro w r p hl hw hr
    cases w with
    | nil => simpa using WsOk.stop (ws_fail hr)
    | cons c cs =>
      have hc := hw c (by simp)
      rcases ws_step (a := true) (p := p) (cs := cs ++ r) hc with h1 | ⟨cs', _, hcs, h2⟩
      · have ih' := ih cs r (p + 1) (by simpa using hl) (fun d hd => hw d (by simp [hd])) hr
        have e : p + (c :: cs).length = p + 1 + cs.length := by simp; omega
        rw [e]
        exact WsOk.step h1 (by simp) ih'
      · cases cs with
        | nil =>
          -- the `\n` is the first character of `r`: impossible, `r` does not start with white space
          simp only [List.nil_append] at hcs
          exact absurd (hr '\n' (by simp [hcs])) (by decide)
        | cons d ds =>
          simp only [List.cons_append, List.cons.injEq] at hcs
          obtain ⟨hd, hcs⟩ := hcs
          subst hd
          have ih' := ih ds r (p + 1 + 1) (by simp at hl; omega) (fun x hx => hw x (by simp [hx])) hr
          have e : p + (c :: '\n' :: ds).length = p + 1 + 1 + ds.length := by simp; omega
          rw [e]
          subst hcs
          exact WsOk.step (s1 := ⟨p + 1 + 1, ds ++ r⟩) (ts := []) h2 (by simp; omega) ih'

theorem wsOk {w r : List Char} {p : Nat} (hw : ∀ c ∈ w, isWsChar c = true) (hr : NoWsStart r) :
    WsOk X ⟨p, w ++ r⟩ ⟨p + w.length, r⟩ := wsOk_run w.length w r p (Nat.le_refl _) hw hr

/-- `WHITESPACE+` inside an atomic rule (`basic_type`) -/
theorem wsPlus_run : ∀ (n : Nat) (w r : List Char) (p : Nat) (acc : List Pair), w.length ≤ n → (∀ c ∈ w, isWsChar c = true) →
    NoWsStart r → RepOk X true (.ref "WHITESPACE") ⟨p, w ++ r⟩ acc ⟨p + w.length, r⟩ acc := by
  intro n
  induction n with
  | zero =>
    intro w r p acc hl _ hr
    have : w = [] := List.eq_nil_of_length_eq_zero (by omega)
    subst this
    simpa using RepOk.stopA (EFail.ref (ws_fail hr))
  | succ n ih =>
    intro w r p acc hl hw hr
    cases w with
    | nil => simpa using RepOk.stopA (EFail.ref (ws_fail hr))
    | cons c cs =>
      have hc := hw c (by simp)
      rcases ws_step (a := true) (p := p) (cs := cs ++ r) hc with h1 | ⟨cs', _, hcs, h2⟩
      · have ih' := ih cs r (p + 1) acc (by simpa using hl) (fun d hd => hw d (by simp [hd])) hr
        have e : p + (c :: cs).length = p + 1 + cs.length := by simp; omega
        rw [e]
        refine RepOk.stepA (EOk.ref h1) (by simp) ?_
        simpa using ih'
      · cases cs with
        | nil =>
          simp only [List.nil_append] at hcs
          exact absurd (hr '\n' (by simp [hcs])) (by decide)
        | cons d ds =>
          simp only [List.cons_append, List.cons.injEq] at hcs
          obtain ⟨hd, hcs⟩ := hcs
          subst hd
          have ih' := ih ds r (p + 1 + 1) acc (by simp at hl; omega) (fun x hx => hw x (by simp [hx])) hr
          have e : p + (c :: '\n' :: ds).length = p + 1 + 1 + ds.length := by simp; omega
          rw [e]
          subst hcs
          exact RepOk.stepA (s2 := ⟨p + 1 + 1, ds ++ r⟩) (t2 := []) (EOk.ref h2) (by simp; omega) (by simpa using ih')

/-- `WHITESPACE*` inside an atomic rule -/
theorem wsStar {w r : List Char} {p : Nat} (hw : ∀ c ∈ w, isWsChar c = true) (hr : NoWsStart r) :
    EOk X true (.star (.ref "WHITESPACE")) ⟨p, w ++ r⟩ ⟨p + w.length, r⟩ [] := by
  cases w with
  | nil => simpa using EOk.star_nil (EFail.ref (ws_fail (a := true) (p := p) hr))
  | cons c cs =>
    have hc := hw c (by simp)
    rcases ws_step (a := true) (p := p) (cs := cs ++ r) hc with h1 | ⟨cs', _, hcs, h2⟩
    · have hrest := wsPlus_run cs.length cs r (p + 1) [] (Nat.le_refl _) (fun d hd => hw d (by simp [hd])) hr
      have e : p + (c :: cs).length = p + 1 + cs.length := by simp; omega
      rw [e]
      exact EOk.star_cons (EOk.ref h1) hrest
    · cases cs with
      | nil =>
        simp only [List.nil_append] at hcs
        exact absurd (hr '\n' (by simp [hcs])) (by decide)
      | cons d ds =>
        simp only [List.cons_append, List.cons.injEq] at hcs
        obtain ⟨hd, hcs⟩ := hcs
        subst hd
        have hrest := wsPlus_run ds.length ds r (p + 1 + 1) [] (Nat.le_refl _) (fun x hx => hw x (by simp [hx])) hr
        have e : p + (c :: '\n' :: ds).length = p + 1 + 1 + ds.length := by simp; omega
        rw [e]
        subst hcs
        exact EOk.star_cons (s1 := ⟨p + 1 + 1, ds ++ r⟩) (t1 := []) (EOk.ref h2) hrest

/-- `WHITESPACE+` in atomic context over a non-empty run -/
theorem wsPlus {w r : List Char} {p : Nat} (hne : w ≠ []) (hw : ∀ c ∈ w, isWsChar c = true) (hr : NoWsStart r) :
    EOk X true (.plus (.ref "WHITESPACE")) ⟨p, w ++ r⟩ ⟨p + w.length, r⟩ [] := by
  cases w with
  | nil => exact absurd rfl hne
  | cons c cs =>
    have hc := hw c (by simp)
    refine EOk.plus ?_
    rcases ws_step (a := true) (p := p) (cs := cs ++ r) hc with h1 | ⟨cs', _, hcs, h2⟩
    · have hrest := wsStar (p := p + 1) (fun d hd => hw d (by simp [hd])) hr (w := cs)
      have e : p + (c :: cs).length = p + 1 + cs.length := by simp; omega
      rw [e]
      simpa using EOk.seqA (EOk.ref h1) hrest
    · cases cs with
      | nil =>
        simp only [List.nil_append] at hcs
        exact absurd (hr '\n' (by simp [hcs])) (by decide)
      | cons d ds =>
        simp only [List.cons_append, List.cons.injEq] at hcs
        obtain ⟨hd, hcs⟩ := hcs
        subst hd
        have hrest := wsStar (p := p + 1 + 1) (fun x hx => hw x (by simp [hx])) hr (w := ds)
        have e : p + (c :: '\n' :: ds).length = p + 1 + 1 + ds.length := by simp; omega
        rw [e]
        subst hcs
        simpa using EOk.seqA (EOk.ref h2) hrest

/-! ### COMMENT -/

/-- a block-comment body: no `*/` inside (a trailing `*` is fine: `/* a **/`) -/
def longBody : List Char → Bool
  | [] => true
  | c :: cs => !(c == '*' && cs.head? == some '/') && longBody cs

def shortBody (b : List Char) : Bool := b.all fun c => c != '\n' && c != '\r'

def eLong : Expr := .seq (.not (.str ['*', '/'])) .any
def eShort : Expr := .seq (.not .newline) .any

theorem long_step {p : Nat} {c : Char} {cs : List Char} (h : ¬ (c = '*' ∧ cs.head? = some '/')) :
    EOk X true eLong ⟨p, c :: cs⟩ ⟨p + 1, cs⟩ [] := by
  have hm : matchStr ['*', '/'] ⟨p, c :: cs⟩ = none := by
    by_cases hc : '*' = c
    · subst hc
      cases cs with
      | nil => simp [matchStr]
      | cons d ds =>
        have : ¬ ('/' = d) := fun e => h ⟨rfl, by simp [← e]⟩
        simp [matchStr, this]
    · simp [matchStr, hc]
  simpa [eLong] using EOk.seqA (g := X) (EOk.not (EFail.str hm)) EOk.any

theorem long_stop {p : Nat} {r : List Char} : EFail X true eLong ⟨p, '*' :: '/' :: r⟩ :=
  EFail.seq1 (EFail.not (EOk.str (s' := ⟨p + 1 + 1, r⟩) (by simp [matchStr])))

theorem long_rep : ∀ (body : List Char) (p : Nat) (r : List Char) (acc : List Pair), longBody body = true →
    RepOk X true eLong ⟨p, body ++ '*' :: '/' :: r⟩ acc ⟨p + body.length, '*' :: '/' :: r⟩ acc := by
  intro body
  induction body with
  | nil => intro p r acc _; simpa using RepOk.stopA long_stop
  | cons c cs ih =>
    intro p r acc hb
    simp only [longBody, Bool.and_eq_true, Bool.not_eq_true', Bool.and_eq_false_iff] at hb
    have hstep : ¬ (c = '*' ∧ (cs ++ '*' :: '/' :: r).head? = some '/') := by
      rintro ⟨h1, h2⟩
      cases cs with
      | nil => simp at h2
      | cons d ds =>
        simp only [List.cons_append, List.head?_cons, Option.some.injEq] at h2
        rcases hb.1 with h | h
        · simp [h1] at h
        · simp [h2] at h
    have e : p + (c :: cs).length = p + 1 + cs.length := by simp; omega
    rw [e]
    exact RepOk.stepA (t2 := []) (long_step hstep) (by simp) (by simpa using ih (p + 1) r acc hb.2)

theorem long_inner {body : List Char} {p : Nat} {r : List Char} (hb : longBody body = true) :
    EOk X true (.star eLong) ⟨p, body ++ '*' :: '/' :: r⟩ ⟨p + body.length, '*' :: '/' :: r⟩ [] := by
  cases body with
  | nil => simpa using EOk.star_nil (long_stop (p := p) (r := r))
  | cons c cs =>
    have h := long_rep (c :: cs) p r [] hb
    simp only [longBody, Bool.and_eq_true, Bool.not_eq_true', Bool.and_eq_false_iff] at hb
    have hstep : ¬ (c = '*' ∧ (cs ++ '*' :: '/' :: r).head? = some '/') := by
      rintro ⟨h1, h2⟩
      cases cs with
      | nil => simp at h2
      | cons d ds =>
        simp only [List.cons_append, List.head?_cons, Option.some.injEq] at h2
        rcases hb.1 with h | h
        · simp [h1] at h
        · simp [h2] at h
    have e : p + (c :: cs).length = p + 1 + cs.length := by simp; omega
    rw [e]
    exact EOk.star_cons (long_step hstep) (long_rep cs (p + 1) r [] hb.2)

theorem find_cli : X.find "comment_long_inner" = some ⟨"comment_long_inner", .normal, .star eLong⟩ := rfl
theorem find_cl : X.find "comment_long" =
    some ⟨"comment_long", .normal, .seq (.str ['/', '*']) (.seq (.ref "comment_long_inner") (.str ['*', '/']))⟩ := rfl
theorem find_csi : X.find "comment_short_inner" = some ⟨"comment_short_inner", .atomic, .star eShort⟩ := rfl
theorem find_cs : X.find "comment_short" =
    some ⟨"comment_short", .normal, .seq (.str ['/', '/']) (.ref "comment_short_inner")⟩ := rfl
theorem find_comment : X.find "COMMENT" = some ⟨"COMMENT", .silent, .alt (.ref "comment_long") (.ref "comment_short")⟩ := rfl

theorem comment_long_ok {body : List Char} {p : Nat} {r : List Char} (hb : longBody body = true) :
    ROk X true "comment_long" ⟨p, '/' :: '*' :: (body ++ '*' :: '/' :: r)⟩ ⟨p + 1 + 1 + body.length + 1 + 1, r⟩ [] := by
  refine ROk.normalA (ts := [] ++ ([] ++ [])) find_cl rfl rfl ?_
  refine EOk.seqA (s1 := ⟨p + 1 + 1, body ++ '*' :: '/' :: r⟩) (EOk.str (by simp [matchStr])) ?_
  refine EOk.seqA (s1 := ⟨p + 1 + 1 + body.length, '*' :: '/' :: r⟩) (EOk.ref (ROk.normalA find_cli rfl rfl (long_inner hb))) ?_
  exact EOk.str (by simp [matchStr])

/-- where a line comment ends: at a line end, or at the end of the text -/
def ShortEnd (r : List Char) : Prop := r = [] ∨ ∃ c cs, r = c :: cs ∧ (c = '\n' ∨ c = '\r')

theorem short_step {p : Nat} {c : Char} {cs : List Char} (h1 : c ≠ '\n') (h2 : c ≠ '\r') :
    EOk X true eShort ⟨p, c :: cs⟩ ⟨p + 1, cs⟩ [] := by
  simpa [eShort] using EOk.seqA (g := X) (EOk.not (EFail.newline h1 h2)) (EOk.any (c := c) (cs := cs))

theorem short_stop {p : Nat} {r : List Char} (h : ShortEnd r) : EFail X true eShort ⟨p, r⟩ := by
  rcases h with rfl | ⟨c, cs, rfl, hc⟩
  · exact EFail.seq2A (EOk.not EFail.newline_nil) EFail.any_nil
  · rcases hc with rfl | rfl
    · exact EFail.seq1 (EFail.not EOk.newline_n)
    · by_cases hn : cs.head? = some '\n'
      · cases cs with
        | nil => simp at hn
        | cons d ds =>
          simp only [List.head?_cons, Option.some.injEq] at hn
          subst hn
          exact EFail.seq1 (EFail.not EOk.newline_rn)
      · exact EFail.seq1 (EFail.not (EOk.newline_r hn))

theorem short_rep : ∀ (body : List Char) (p : Nat) (r : List Char) (acc : List Pair), shortBody body = true → ShortEnd r →
    RepOk X true eShort ⟨p, body ++ r⟩ acc ⟨p + body.length, r⟩ acc := by
  intro body
  induction body with
  | nil => intro p r acc _ hr; simpa using RepOk.stopA (short_stop hr)
  | cons c cs ih =>
    intro p r acc hb hr
    simp only [shortBody, List.all_cons, Bool.and_eq_true, bne_iff_ne, ne_eq] at hb
    have e : p + (c :: cs).length = p + 1 + cs.length := by simp; omega
    rw [e]
    exact RepOk.stepA (t2 := []) (short_step hb.1.1 hb.1.2) (by simp)
      (by simpa using ih (p + 1) r acc (by simpa [shortBody] using hb.2) hr)

theorem short_inner {body : List Char} {p : Nat} {r : List Char} (hb : shortBody body = true) (hr : ShortEnd r) :
    EOk X true (.star eShort) ⟨p, body ++ r⟩ ⟨p + body.length, r⟩ [] := by
  cases body with
  | nil => simpa using EOk.star_nil (short_stop (p := p) hr)
  | cons c cs =>
    simp only [shortBody, List.all_cons, Bool.and_eq_true, bne_iff_ne, ne_eq] at hb
    have e : p + (c :: cs).length = p + 1 + cs.length := by simp; omega
    rw [e]
    exact EOk.star_cons (short_step hb.1.1 hb.1.2) (short_rep cs (p + 1) r [] (by simpa [shortBody] using hb.2) hr)

theorem comment_short_ok {body : List Char} {p : Nat} {r : List Char} (hb : shortBody body = true) (hr : ShortEnd r) :
    ROk X true "comment_short" ⟨p, '/' :: '/' :: (body ++ r)⟩ ⟨p + 1 + 1 + body.length, r⟩ [] := by
  refine ROk.normalA (ts := [] ++ []) find_cs rfl rfl ?_
  refine EOk.seqA (s1 := ⟨p + 1 + 1, body ++ r⟩) (EOk.str (by simp [matchStr])) ?_
  exact EOk.ref (ROk.atomicA find_csi rfl rfl (short_inner hb hr))

/-- a comment -/
inductive Cmt where
  | long (body : List Char)
  | short (body : List Char)
deriving Repr

def Cmt.text : Cmt → List Char
  | .long b => '/' :: '*' :: (b ++ ['*', '/'])
  | .short b => '/' :: '/' :: b

def Cmt.ok : Cmt → Bool
  | .long b => longBody b
  | .short b => shortBody b

def Cmt.isShort : Cmt → Bool
  | .short _ => true
  | _ => false

theorem comment_ok {a : Bool} (c : Cmt) {p : Nat} {r : List Char} (hc : c.ok = true) (hr : c.isShort = true → ShortEnd r) :
    ROk X a "COMMENT" ⟨p, c.text ++ r⟩ ⟨p + c.text.length, r⟩ [] := by
  cases c with
  | long b =>
    refine ROk.layout (ts := []) find_comment rfl (EOk.alt1 (EOk.ref ?_))
    have h := comment_long_ok (p := p) (r := r) hc
    have e : p + (Cmt.long b).text.length = p + 1 + 1 + b.length + 1 + 1 := by simp [Cmt.text]; omega
    rw [e]
    simpa [Cmt.text] using h
  | short b =>
    refine ROk.layout (ts := []) find_comment rfl (EOk.alt2 (EFail.ref ?_) (EOk.ref ?_))
    · exact RFail.normal find_cl rfl rfl (EFail.seq1 (EFail.str (by simp [Cmt.text, matchStr])))
    · have h := comment_short_ok (p := p) (r := r) hc (hr rfl)
      have e : p + (Cmt.short b).text.length = p + 1 + 1 + b.length := by simp [Cmt.text]; omega
      rw [e]
      simpa [Cmt.text] using h

theorem comment_fail {a : Bool} {p : Nat} {r : List Char} (h : NoLayoutStart r) : RFail X a "COMMENT" ⟨p, r⟩ := by
  refine RFail.layout find_comment rfl (EFail.alt (EFail.ref ?_) (EFail.ref ?_))
  · refine RFail.normal find_cl rfl rfl (EFail.seq1 (EFail.str ?_))
    cases r with
    | nil => simp [matchStr]
    | cons c cs =>
      have : ¬ ('/' = c) := fun e => (h c rfl).2 e.symm
      simp [matchStr, this]
  · refine RFail.normal find_cs rfl rfl (EFail.seq1 (EFail.str ?_))
    cases r with
    | nil => simp [matchStr]
    | cons c cs =>
      have : ¬ ('/' = c) := fun e => (h c rfl).2 e.symm
      simp [matchStr, this]

/-! ### layout: white space, then comments each followed by white space -/

structure Layout where
  lead : List Char
  segs : List (Cmt × List Char)
deriving Repr

def segsText : List (Cmt × List Char) → List Char
  | [] => []
  | (c, w) :: rest => c.text ++ w ++ segsText rest

def Layout.text (l : Layout) : List Char := l.lead ++ segsText l.segs

def allWs (w : List Char) : Bool := w.all isWsChar

def nlStart (w : List Char) : Bool :=
  match w with
  | c :: _ => c == '\n' || c == '\r'
  | [] => false

/-- every comment is well formed and separated: a line comment is followed by a line end -/
def segsOk : List (Cmt × List Char) → Bool
  | [] => true
  | (c, w) :: rest => c.ok && allWs w && (!c.isShort || nlStart w) && segsOk rest

def Layout.ok (l : Layout) : Bool := allWs l.lead && segsOk l.segs

theorem allWs_mem {w : List Char} (h : allWs w = true) : ∀ c ∈ w, isWsChar c = true := by
  simpa [allWs] using h

theorem segsText_noWs (segs : List (Cmt × List Char)) (r : List Char) (hr : NoLayoutStart r) : NoWsStart (segsText segs ++ r) := by
  cases segs with
  | nil => simpa [segsText] using hr.ws
  | cons cw rest =>
    obtain ⟨c, w⟩ := cw
    intro d hd
    cases c <;> simp [segsText, Cmt.text] at hd <;> subst hd <;> decide

theorem skOk_segs : ∀ (segs : List (Cmt × List Char)) (lead : List Char) (p : Nat) (r : List Char),
    allWs lead = true → segsOk segs = true → NoLayoutStart r →
    SkOk X ⟨p, lead ++ segsText segs ++ r⟩ ⟨p + (lead ++ segsText segs).length, r⟩ := by
  intro segs
  induction segs with
  | nil =>
    intro lead p r hl _ hr
    simp only [segsText, List.append_nil]
    exact SkOk.stop (wsOk (allWs_mem hl) hr.ws) (comment_fail hr)
  | cons cw rest ih =>
    intro lead p r hl hs hr
    obtain ⟨c, w⟩ := cw
    simp only [segsOk, Bool.and_eq_true, Bool.or_eq_true, Bool.not_eq_true'] at hs
    obtain ⟨⟨⟨hc, hw⟩, hsh⟩, hrest⟩ := hs
    have hws : WsOk X ⟨p, lead ++ (segsText ((c, w) :: rest) ++ r)⟩ ⟨p + lead.length, segsText ((c, w) :: rest) ++ r⟩ :=
      wsOk (allWs_mem hl) (segsText_noWs _ r hr)
    have hcm : ROk X true "COMMENT" ⟨p + lead.length, c.text ++ (w ++ segsText rest ++ r)⟩
        ⟨p + lead.length + c.text.length, w ++ segsText rest ++ r⟩ [] := by
      refine comment_ok c hc (fun hshort => ?_)
      rcases hsh with h | h
      · rw [hshort] at h; exact absurd h (by simp)
      · cases w with
        | nil => simp [nlStart] at h
        | cons d ds =>
          simp only [nlStart, Bool.or_eq_true, beq_iff_eq] at h
          exact .inr ⟨d, ds ++ segsText rest ++ r, by simp, h⟩
    have hrec := ih w (p + lead.length + c.text.length) r hw hrest hr
    have e : p + (lead ++ segsText ((c, w) :: rest)).length = p + lead.length + c.text.length + (w ++ segsText rest).length := by
      simp [segsText]; omega
    rw [e]
    have hpos : (⟨p + lead.length + c.text.length, w ++ segsText rest ++ r⟩ : St).pos ≠ (⟨p + lead.length, segsText ((c, w) :: rest) ++ r⟩ : St).pos := by
      cases c <;> simp [Cmt.text]
    refine SkOk.step (ts := []) (s1 := ⟨p + lead.length, segsText ((c, w) :: rest) ++ r⟩) ?_ ?_ hpos hrec
    · simpa [List.append_assoc] using hws
    · simpa [segsText, List.append_assoc] using hcm

/-- **the implicit skip consumes exactly the layout**, whatever it is made of -/
theorem skOk_layout (l : Layout) (p : Nat) (r : List Char) (hl : l.ok = true) (hr : NoLayoutStart r) :
    SkOk X ⟨p, l.text ++ r⟩ ⟨p + l.text.length, r⟩ := by
  simp only [Layout.ok, Bool.and_eq_true] at hl
  exact skOk_segs l.segs l.lead p r hl.1 hl.2 hr

/-- no layout at all: the skip stays where it is -/
theorem skOk_none (p : Nat) (r : List Char) (hr : NoLayoutStart r) : SkOk X ⟨p, r⟩ ⟨p, r⟩ := by
  simpa [Layout.text, segsText] using skOk_layout ⟨[], []⟩ p r rfl hr

end Fx.Parse
