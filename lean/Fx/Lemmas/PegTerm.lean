/-
  Fx.Lemmas.PegTerm — the parser terminates.

  The interpreter of `Fx.Peg` takes a recursion budget.  For a grammar whose rules can be ranked so that every rule only
  refers to rules of lower rank (no recursion among rules — `src/xdr.pest` is such a grammar, checked by `decide` on the
  grammar translated from it on every run), every input has a budget from which on the answer is never `outOfFuel`:
  rule references go down in rank, and the repetitions (`e*`, `e+`, the implicit skip) stop as soon as an iteration makes
  no progress, so they run at most once per remaining character.
-/
import Fx.Peg
namespace Fx.Peg

/-! ### progress: positions only move forward, and `pos + |rest|` is the length of the whole input -/

def Adv (s s' : St) : Prop := s'.pos + s'.rest.length = s.pos + s.rest.length ∧ s.pos ≤ s'.pos

theorem Adv.refl (s : St) : Adv s s := ⟨rfl, Nat.le_refl _⟩
theorem Adv.trans {a b c : St} (h1 : Adv a b) (h2 : Adv b c) : Adv a c := ⟨by rw [h2.1, h1.1], Nat.le_trans h1.2 h2.2⟩
theorem Adv.rest_le {a b : St} (h : Adv a b) : b.rest.length ≤ a.rest.length := by
  obtain ⟨h1, h2⟩ := h; omega
/-- no progress in position means no progress at all; progress means strictly fewer characters left -/
theorem Adv.lt_of_ne {a b : St} (h : Adv a b) (hne : b.pos ≠ a.pos) : b.rest.length < a.rest.length := by
  obtain ⟨h1, h2⟩ := h; omega

theorem matchStr_adv : ∀ (t : List Char) (s s' : St), matchStr t s = some s' → Adv s s' := by
  intro t
  induction t with
  | nil => intro s s' h; simp only [matchStr] at h; cases h; exact Adv.refl s
  | cons c cs ih =>
    intro s s' h
    obtain ⟨p, rest⟩ := s
    cases rest with
    | nil => simp [matchStr] at h
    | cons d ds =>
      simp only [matchStr] at h
      split at h
      · have := ih ⟨p + 1, ds⟩ s' h
        obtain ⟨h1, h2⟩ := this
        exact ⟨by simp at h1 ⊢; omega, by simp at h2 ⊢; omega⟩
      · cases h

/-- what a result says about progress -/
def PRAdv (s : St) : PR → Prop
  | .ok s' _ => Adv s s'
  | _ => True

theorem ofOpt_adv (s : St) (o : Option St) (h : ∀ s', o = some s' → Adv s s') : PRAdv s (ofOpt o) := by
  cases o with
  | none => trivial
  | some s' => exact h s' rfl

theorem progress (g : Grammar) (fuel : Nat) :
    (∀ atomic e s, PRAdv s (eval g fuel atomic e s)) ∧
    (∀ atomic e s acc, PRAdv s (repeatMore g fuel atomic e s acc)) ∧
    (∀ atomic n s, PRAdv s (evalRule g fuel atomic n s)) ∧
    (∀ s, PRAdv s (skipWs g fuel s)) ∧
    (∀ s, PRAdv s (skip g fuel s)) := by
  induction fuel with
  | zero => refine ⟨?_, ?_, ?_, ?_, ?_⟩ <;> intros <;> simp [eval, repeatMore, evalRule, skipWs, skip, PRAdv]
  | succ f ih =>
    obtain ⟨ihE, ihR, ihU, ihW, ihS⟩ := ih
    have skipOr : ∀ (atomic : Bool) (s : St), PRAdv s (if atomic then PR.ok s [] else skip g f s) := by
      intro atomic s
      cases atomic
      · simpa using ihS s
      · simp [PRAdv, Adv.refl]
    refine ⟨?_, ?_, ?_, ?_, ?_⟩
    · intro atomic e s
      cases e with
      | str t => simp only [eval]; exact ofOpt_adv s _ (fun s' h => matchStr_adv t s s' h)
      | any =>
        simp only [eval]
        obtain ⟨p, rest⟩ := s
        cases rest with
        | nil => trivial
        | cons d ds => exact ⟨by simp; omega, by simp⟩
      | soi => simp only [eval]; split <;> simp [PRAdv, Adv.refl]
      | eoi => simp only [eval]; split <;> (try split) <;> simp [PRAdv, Adv.refl]
      | digit =>
        simp only [eval]
        obtain ⟨p, rest⟩ := s
        cases rest with
        | nil => trivial
        | cons d ds => simp only; split <;> first | trivial | exact ⟨by simp; omega, by simp⟩
      | alnum =>
        simp only [eval]
        obtain ⟨p, rest⟩ := s
        cases rest with
        | nil => trivial
        | cons d ds => simp only; split <;> first | trivial | exact ⟨by simp; omega, by simp⟩
      | newline =>
        simp only [eval]
        cases h1 : matchStr ['\n'] s with
        | some s' => exact matchStr_adv _ _ _ h1
        | none =>
          simp only
          cases h2 : matchStr ['\r', '\n'] s with
          | some s' => exact matchStr_adv _ _ _ h2
          | none => simp only; exact ofOpt_adv s _ (fun s' h => matchStr_adv _ s s' h)
      | ref n => simp only [eval]; exact ihU atomic n s
      | seq a b =>
        simp only [eval]
        have h1 := ihE atomic a s
        cases hr : eval g f atomic a s with
        | ok s1 t1 =>
          rw [hr] at h1
          simp only
          have h2 := skipOr atomic s1
          cases hs : (if atomic then PR.ok s1 [] else skip g f s1) with
          | ok s1' x =>
            rw [hs] at h2
            simp only
            have h3 := ihE atomic b s1'
            cases hb : eval g f atomic b s1' with
            | ok s2 t2 => rw [hb] at h3; exact (Adv.trans h1 (Adv.trans h2 h3))
            | fail => trivial
            | outOfFuel => trivial
          | fail => trivial
          | outOfFuel => trivial
        | fail => trivial
        | outOfFuel => trivial
      | alt a b =>
        simp only [eval]
        have h1 := ihE atomic a s
        cases hr : eval g f atomic a s with
        | ok s1 t1 => rw [hr] at h1; exact h1
        | fail => exact ihE atomic b s
        | outOfFuel => trivial
      | opt e =>
        simp only [eval]
        have h1 := ihE atomic e s
        cases hr : eval g f atomic e s with
        | ok s1 t1 => rw [hr] at h1; exact h1
        | fail => exact Adv.refl s
        | outOfFuel => trivial
      | not e =>
        simp only [eval]
        cases hr : eval g f atomic e s with
        | ok s1 t1 => trivial
        | fail => exact Adv.refl s
        | outOfFuel => trivial
      | star e =>
        simp only [eval]
        have h1 := ihE atomic e s
        cases hr : eval g f atomic e s with
        | ok s1 t1 =>
          rw [hr] at h1
          have h2 := ihR atomic e s1 t1
          simp only
          cases hm : repeatMore g f atomic e s1 t1 with
          | ok s2 t2 => rw [hm] at h2; exact Adv.trans h1 h2
          | fail => trivial
          | outOfFuel => trivial
        | fail => exact Adv.refl s
        | outOfFuel => trivial
      | plus e => simp only [eval]; exact ihE atomic (.seq e (.star e)) s
    · intro atomic e s acc
      simp only [repeatMore]
      have h2 := skipOr atomic s
      cases hs : (if atomic then PR.ok s [] else skip g f s) with
      | ok s' x =>
        rw [hs] at h2
        simp only
        have h3 := ihE atomic e s'
        cases he : eval g f atomic e s' with
        | ok s2 t2 =>
          rw [he] at h3
          simp only
          split
          · exact Adv.refl s
          · have h4 := ihR atomic e s2 (acc ++ t2)
            cases hm : repeatMore g f atomic e s2 (acc ++ t2) with
            | ok s3 t3 => rw [hm] at h4; exact Adv.trans h2 (Adv.trans h3 h4)
            | fail => trivial
            | outOfFuel => trivial
        | fail => exact Adv.refl s
        | outOfFuel => trivial
      | fail => exact Adv.refl s
      | outOfFuel => trivial
    · intro atomic n s
      simp only [evalRule]
      cases hfd : g.find n with
      | none => trivial
      | some r =>
        simp only
        split
        · have h1 := ihE true r.body s
          cases hr : eval g f true r.body s with
          | ok s' x => rw [hr] at h1; exact h1
          | fail => trivial
          | outOfFuel => trivial
        · cases r.ty with
          | silent => exact ihE atomic r.body s
          | normal =>
            simp only
            have h1 := ihE atomic r.body s
            cases hr : eval g f atomic r.body s with
            | ok s' x => rw [hr] at h1; simp only; split <;> exact h1
            | fail => trivial
            | outOfFuel => trivial
          | atomic =>
            simp only
            have h1 := ihE true r.body s
            cases hr : eval g f true r.body s with
            | ok s' x => rw [hr] at h1; simp only; split <;> exact h1
            | fail => trivial
            | outOfFuel => trivial
    · intro s
      simp only [skipWs]
      have h1 := ihU true "WHITESPACE" s
      cases hr : evalRule g f true "WHITESPACE" s with
      | ok s' x =>
        rw [hr] at h1
        simp only
        split
        · exact Adv.refl s
        · have h2 := ihW s'
          cases hw : skipWs g f s' with
          | ok s2 y => rw [hw] at h2; exact Adv.trans h1 h2
          | fail => trivial
          | outOfFuel => trivial
      | fail => exact Adv.refl s
      | outOfFuel => trivial
    · intro s
      simp only [skip]
      have h1 := ihW s
      cases hr : skipWs g f s with
      | ok s1 x =>
        rw [hr] at h1
        simp only
        have h2 := ihU true "COMMENT" s1
        cases hc : evalRule g f true "COMMENT" s1 with
        | ok s2 y =>
          rw [hc] at h2
          simp only
          split
          · exact h1
          · have h3 := ihS s2
            cases hk : skip g f s2 with
            | ok s3 z => rw [hk] at h3; exact Adv.trans h1 (Adv.trans h2 h3)
            | fail => trivial
            | outOfFuel => trivial
        | fail => exact h1
        | outOfFuel => trivial
      | fail => trivial
      | outOfFuel => trivial

/-! ### termination -/

def Expr.refs : Expr → List String
  | .ref n => [n]
  | .seq a b => a.refs ++ b.refs
  | .alt a b => a.refs ++ b.refs
  | .star e => e.refs
  | .plus e => e.refs
  | .opt e => e.refs
  | .not e => e.refs
  | _ => []

/-- rules only refer to rules of lower rank: no recursion among the rules -/
def Ranked (g : Grammar) (rk : String → Nat) : Prop := ∀ r ∈ g, ∀ n ∈ r.body.refs, rk n < rk r.name

/-- the implicit skip answers on every state with at most `N` characters left, from budget `Fs` on -/
def SkipOK (g : Grammar) (N Fs : Nat) : Prop := ∀ s : St, s.rest.length ≤ N → ∀ f, Fs ≤ f → skip g f s ≠ .outOfFuel

/-- an expression answers in both modes (in non-atomic mode given that the skip does) -/
def ExprTot (g : Grammar) (N Fs F : Nat) (e : Expr) : Prop :=
  ∀ (atomic : Bool), (atomic = false → SkipOK g N Fs) → ∀ s : St, s.rest.length ≤ N → ∀ f, F ≤ f → eval g f atomic e s ≠ .outOfFuel

def RuleTot (g : Grammar) (N Fs F : Nat) (n : String) : Prop :=
  ∀ (atomic : Bool), (atomic = false → SkipOK g N Fs) → ∀ s : St, s.rest.length ≤ N → ∀ f, F ≤ f → evalRule g f atomic n s ≠ .outOfFuel

theorem ExprTot.mono {g N Fs F F' e} (h : ExprTot g N Fs F e) (hF : F ≤ F') : ExprTot g N Fs F' e :=
  fun atomic hs s hl f hf => h atomic hs s hl f (by omega)

theorem RuleTot.mono {g N Fs F F' n} (h : RuleTot g N Fs F n) (hF : F ≤ F') : RuleTot g N Fs F' n :=
  fun atomic hs s hl f hf => h atomic hs s hl f (by omega)

theorem skipOr_noof (g : Grammar) (N Fs : Nat) (atomic : Bool) (hs : atomic = false → SkipOK g N Fs) (s : St) (hl : s.rest.length ≤ N)
    (f : Nat) (hf : Fs ≤ f) : (if atomic then PR.ok s [] else skip g f s) ≠ .outOfFuel := by
  cases atomic
  · simpa using hs rfl s hl f hf
  · simp

theorem skipOr_adv (g : Grammar) (f : Nat) (atomic : Bool) (s s' : St) (x : List Pair)
    (h : (if atomic then PR.ok s [] else skip g f s) = .ok s' x) : Adv s s' := by
  cases atomic
  · simp only [Bool.false_eq_true, if_false] at h
    have := (progress g f).2.2.2.2 s
    rw [h] at this; exact this
  · simp only [if_true] at h; cases h; exact Adv.refl s

/-- the repetition loop: at most one iteration per remaining character -/
theorem repeatMore_tot (g : Grammar) (N Fs Fe : Nat) (e : Expr) (he : ExprTot g N Fs Fe e) (atomic : Bool)
    (hs : atomic = false → SkipOK g N Fs) :
    ∀ (k : Nat) (s : St) (acc : List Pair), s.rest.length ≤ k → k ≤ N → ∀ f, max Fe Fs + k + 1 ≤ f →
      repeatMore g f atomic e s acc ≠ .outOfFuel := by
  intro k
  induction k with
  | zero =>
    intro s acc hk hN f hf
    cases f with
    | zero => omega
    | succ f' =>
      simp only [repeatMore]
      have h1 := skipOr_noof g N Fs atomic hs s (by omega) f' (by omega)
      cases hsk : (if atomic then PR.ok s [] else skip g f' s) with
      | outOfFuel => exact absurd hsk h1
      | fail => simp
      | ok s' x =>
        have a1 := skipOr_adv g f' atomic s s' x hsk
        simp only
        have h2 := he atomic hs s' (by have := a1.rest_le; omega) f' (by omega)
        cases hev : eval g f' atomic e s' with
        | outOfFuel => exact absurd hev h2
        | fail => simp
        | ok s2 t2 =>
          simp only
          have a2 : Adv s' s2 := by have := (progress g f').1 atomic e s'; rw [hev] at this; exact this
          have a3 := Adv.trans a1 a2
          split
          · simp
          · rename_i hne
            have := a3.lt_of_ne hne
            omega
  | succ k ih =>
    intro s acc hk hN f hf
    cases f with
    | zero => omega
    | succ f' =>
      simp only [repeatMore]
      have h1 := skipOr_noof g N Fs atomic hs s (by omega) f' (by omega)
      cases hsk : (if atomic then PR.ok s [] else skip g f' s) with
      | outOfFuel => exact absurd hsk h1
      | fail => simp
      | ok s' x =>
        have a1 := skipOr_adv g f' atomic s s' x hsk
        simp only
        have h2 := he atomic hs s' (by have := a1.rest_le; omega) f' (by omega)
        cases hev : eval g f' atomic e s' with
        | outOfFuel => exact absurd hev h2
        | fail => simp
        | ok s2 t2 =>
          simp only
          have a2 : Adv s' s2 := by have := (progress g f').1 atomic e s'; rw [hev] at this; exact this
          have a3 := Adv.trans a1 a2
          split
          · simp
          · rename_i hne
            have hlt := a3.lt_of_ne hne
            exact ih s2 (acc ++ t2) (by omega) (by omega) f' (by omega)

section level
variable (g : Grammar) (rk : String → Nat) (N Fs G r : Nat)
variable (Hd : ∀ n, rk n < r → RuleTot g N Fs G n)
include Hd

/-- every expression whose references rank below `r` answers -/
theorem expr_tot : ∀ (e : Expr), (∀ n ∈ e.refs, rk n < r) → ∃ F, ExprTot g N Fs F e := by
  intro e
  induction e with
  | str t => intro _; exact ⟨1, fun atomic hs s hl f hf => by cases f with | zero => omega | succ f' => simp only [eval]; cases matchStr t s <;> simp [ofOpt]⟩
  | any => intro _; exact ⟨1, fun atomic hs s hl f hf => by cases f with | zero => omega | succ f' => simp only [eval]; split <;> simp⟩
  | soi => intro _; exact ⟨1, fun atomic hs s hl f hf => by cases f with | zero => omega | succ f' => simp only [eval]; split <;> simp⟩
  | eoi => intro _; exact ⟨1, fun atomic hs s hl f hf => by cases f with | zero => omega | succ f' => simp only [eval]; split <;> (try split) <;> simp⟩
  | digit => intro _; exact ⟨1, fun atomic hs s hl f hf => by cases f with | zero => omega | succ f' => simp only [eval]; split <;> (try split) <;> simp⟩
  | alnum => intro _; exact ⟨1, fun atomic hs s hl f hf => by cases f with | zero => omega | succ f' => simp only [eval]; split <;> (try split) <;> simp⟩
  | newline =>
    intro _
    refine ⟨1, fun atomic hs s hl f hf => ?_⟩
    cases f with
    | zero => omega
    | succ f' =>
      simp only [eval]
      cases matchStr ['\n'] s <;> simp only
      · cases matchStr ['\r', '\n'] s <;> simp only
        · cases matchStr ['\r'] s <;> simp [ofOpt]
        · simp
      · simp
  | ref n =>
    intro hr
    refine ⟨G + 1, fun atomic hs s hl f hf => ?_⟩
    cases f with
    | zero => omega
    | succ f' =>
      simp only [eval]
      exact Hd n (hr n (by simp [Expr.refs])) atomic hs s hl f' (by omega)
  | seq a b iha ihb =>
    intro hr
    obtain ⟨Fa, ha⟩ := iha (fun n hn => hr n (by simp [Expr.refs, hn]))
    obtain ⟨Fb, hb⟩ := ihb (fun n hn => hr n (by simp [Expr.refs, hn]))
    refine ⟨max (max Fa Fb) Fs + 1, fun atomic hs s hl f hf => ?_⟩
    cases f with
    | zero => omega
    | succ f' =>
      simp only [eval]
      have h1 := ha atomic hs s hl f' (by omega)
      cases hra : eval g f' atomic a s with
      | outOfFuel => exact absurd hra h1
      | fail => simp
      | ok s1 t1 =>
        simp only
        have a1 : Adv s s1 := by have := (progress g f').1 atomic a s; rw [hra] at this; exact this
        have hl1 : s1.rest.length ≤ N := by have := a1.rest_le; omega
        have h2 := skipOr_noof g N Fs atomic hs s1 hl1 f' (by omega)
        cases hsk : (if atomic then PR.ok s1 [] else skip g f' s1) with
        | outOfFuel => exact absurd hsk h2
        | fail => simp
        | ok s1' x =>
          simp only
          have a2 := skipOr_adv g f' atomic s1 s1' x hsk
          have h3 := hb atomic hs s1' (by have := a2.rest_le; omega) f' (by omega)
          cases hrb : eval g f' atomic b s1' with
          | outOfFuel => exact absurd hrb h3
          | fail => simp
          | ok s2 t2 => simp
  | alt a b iha ihb =>
    intro hr
    obtain ⟨Fa, ha⟩ := iha (fun n hn => hr n (by simp [Expr.refs, hn]))
    obtain ⟨Fb, hb⟩ := ihb (fun n hn => hr n (by simp [Expr.refs, hn]))
    refine ⟨max Fa Fb + 1, fun atomic hs s hl f hf => ?_⟩
    cases f with
    | zero => omega
    | succ f' =>
      simp only [eval]
      have h1 := ha atomic hs s hl f' (by omega)
      cases hra : eval g f' atomic a s with
      | outOfFuel => exact absurd hra h1
      | fail => exact hb atomic hs s hl f' (by omega)
      | ok s1 t1 => simp
  | opt e ih =>
    intro hr
    obtain ⟨Fe, he⟩ := ih (fun n hn => hr n (by simpa [Expr.refs] using hn))
    refine ⟨Fe + 1, fun atomic hs s hl f hf => ?_⟩
    cases f with
    | zero => omega
    | succ f' =>
      simp only [eval]
      have h1 := he atomic hs s hl f' (by omega)
      cases hre : eval g f' atomic e s with
      | outOfFuel => exact absurd hre h1
      | fail => simp
      | ok s1 t1 => simp
  | not e ih =>
    intro hr
    obtain ⟨Fe, he⟩ := ih (fun n hn => hr n (by simpa [Expr.refs] using hn))
    refine ⟨Fe + 1, fun atomic hs s hl f hf => ?_⟩
    cases f with
    | zero => omega
    | succ f' =>
      simp only [eval]
      have h1 := he atomic hs s hl f' (by omega)
      cases hre : eval g f' atomic e s with
      | outOfFuel => exact absurd hre h1
      | fail => simp
      | ok s1 t1 => simp
  | star e ih =>
    intro hr
    obtain ⟨Fe, he⟩ := ih (fun n hn => hr n (by simpa [Expr.refs] using hn))
    refine ⟨max Fe Fs + N + 2, fun atomic hs s hl f hf => ?_⟩
    cases f with
    | zero => omega
    | succ f' =>
      simp only [eval]
      have h1 := he atomic hs s hl f' (by omega)
      cases hre : eval g f' atomic e s with
      | outOfFuel => exact absurd hre h1
      | fail => simp
      | ok s1 t1 =>
        simp only
        have a1 : Adv s s1 := by have := (progress g f').1 atomic e s; rw [hre] at this; exact this
        have hl1 : s1.rest.length ≤ N := by have := a1.rest_le; omega
        exact repeatMore_tot g N Fs Fe e he atomic hs N s1 t1 hl1 (Nat.le_refl _) f' (by omega)
  | plus e ih =>
    intro hr
    obtain ⟨Fe, he⟩ := ih (fun n hn => hr n (by simpa [Expr.refs] using hn))
    -- `e+` is `e ~ e*`
    refine ⟨max Fe Fs + N + 4, fun atomic hs s hl f hf => ?_⟩
    cases f with
    | zero => omega
    | succ f1 =>
      simp only [eval]
      cases f1 with
      | zero => omega
      | succ f2 =>
        simp only [eval]
        have h1 := he atomic hs s hl f2 (by omega)
        cases hra : eval g f2 atomic e s with
        | outOfFuel => exact absurd hra h1
        | fail => simp
        | ok s1 t1 =>
          simp only
          have a1 : Adv s s1 := by have := (progress g f2).1 atomic e s; rw [hra] at this; exact this
          have hl1 : s1.rest.length ≤ N := by have := a1.rest_le; omega
          have h2 := skipOr_noof g N Fs atomic hs s1 hl1 f2 (by omega)
          cases hsk : (if atomic then PR.ok s1 [] else skip g f2 s1) with
          | outOfFuel => exact absurd hsk h2
          | fail => simp
          | ok s1' x =>
            simp only
            have a2 := skipOr_adv g f2 atomic s1 s1' x hsk
            have hl2 : s1'.rest.length ≤ N := by have := a2.rest_le; omega
            -- the star
            have hstar : eval g f2 atomic (.star e) s1' ≠ .outOfFuel := by
              cases f2 with
              | zero => omega
              | succ f3 =>
                simp only [eval]
                have h3 := he atomic hs s1' hl2 f3 (by omega)
                cases hre : eval g f3 atomic e s1' with
                | outOfFuel => exact absurd hre h3
                | fail => simp
                | ok s3 t3 =>
                  simp only
                  have a3 : Adv s1' s3 := by have := (progress g f3).1 atomic e s1'; rw [hre] at this; exact this
                  exact repeatMore_tot g N Fs Fe e he atomic hs N s3 t3 (by have := a3.rest_le; omega) (Nat.le_refl _) f3 (by omega)
            cases hrb : eval g f2 atomic (.star e) s1' with
            | outOfFuel => exact absurd hrb hstar
            | fail => simp
            | ok s2 t2 => simp

/-- a rule whose body refers only to ranks below `r` answers -/
theorem rule_tot (n : String) (hn : ∀ rl, g.find n = some rl → ∀ m ∈ rl.body.refs, rk m < r) : ∃ F, RuleTot g N Fs F n := by
  cases hfd : g.find n with
  | none =>
    refine ⟨1, fun atomic hs s hl f hf => ?_⟩
    cases f with
    | zero => omega
    | succ f' => simp [evalRule, hfd]
  | some rl =>
    obtain ⟨F, hF⟩ := expr_tot g rk N Fs G r Hd rl.body (hn rl hfd)
    refine ⟨F + 1, fun atomic hs s hl f hf => ?_⟩
    cases f with
    | zero => omega
    | succ f' =>
      simp only [evalRule, hfd]
      split
      · have h1 := hF true (fun h => by cases h) s hl f' (by omega)
        cases hr : eval g f' true rl.body s with
        | outOfFuel => exact absurd hr h1
        | fail => simp
        | ok s' x => simp
      · cases rl.ty with
        | silent => exact hF atomic hs s hl f' (by omega)
        | normal =>
          simp only
          have h1 := hF atomic hs s hl f' (by omega)
          cases hr : eval g f' atomic rl.body s with
          | outOfFuel => exact absurd hr h1
          | fail => simp
          | ok s' x => simp only; split <;> simp
        | atomic =>
          simp only
          have h1 := hF true (fun h => by cases h) s hl f' (by omega)
          cases hr : eval g f' true rl.body s with
          | outOfFuel => exact absurd hr h1
          | fail => simp
          | ok s' x => simp only; split <;> simp

end level

theorem exists_uniform {α} (P : α → Nat → Prop) (hmono : ∀ x F F', P x F → F ≤ F' → P x F') :
    ∀ (l : List α), (∀ x ∈ l, ∃ F, P x F) → ∃ F, ∀ x ∈ l, P x F := by
  intro l
  induction l with
  | nil => intro _; exact ⟨0, fun _ h => by cases h⟩
  | cons x xs ih =>
    intro h
    obtain ⟨F1, h1⟩ := ih (fun y hy => h y (List.mem_cons_of_mem _ hy))
    obtain ⟨F0, h0⟩ := h x List.mem_cons_self
    refine ⟨max F0 F1, fun y hy => ?_⟩
    rcases List.mem_cons.mp hy with rfl | hy'
    · exact hmono _ _ _ h0 (Nat.le_max_left _ _)
    · exact hmono _ _ _ (h1 y hy') (Nat.le_max_right _ _)

theorem find_some {g : Grammar} {n : String} {rl : Rule} (h : g.find n = some rl) : rl ∈ g ∧ rl.name = n := by
  simp only [Grammar.find] at h
  exact ⟨List.mem_of_find?_eq_some h, by simpa using List.find?_some h⟩

/-- all rules below rank `r` answer -/
theorem rank_level (g : Grammar) (rk : String → Nat) (hr : Ranked g rk) (N Fs : Nat) :
    ∀ r, ∃ F, ∀ n, rk n < r → RuleTot g N Fs F n := by
  intro r
  induction r with
  | zero => exact ⟨0, fun n h => by omega⟩
  | succ r ih =>
    obtain ⟨Fr, hFr⟩ := ih
    have hone : ∀ rl ∈ g, ∃ F, (rk rl.name < r + 1 → RuleTot g N Fs F rl.name) := by
      intro rl hrl
      by_cases hrk : rk rl.name < r + 1
      · obtain ⟨F, hF⟩ := rule_tot g rk N Fs Fr r hFr rl.name (fun rl' hfd m hm => by
          obtain ⟨hmem, hname⟩ := find_some hfd
          have := hr rl' hmem m hm
          rw [hname] at this
          omega)
        exact ⟨F, fun _ => hF⟩
      · exact ⟨0, fun h => absurd h hrk⟩
    obtain ⟨Fu, hFu⟩ := exists_uniform (fun (rl : Rule) F => rk rl.name < r + 1 → RuleTot g N Fs F rl.name)
      (fun rl F F' h hF hrk => (h hrk).mono hF) g hone
    refine ⟨max 1 Fu, fun n hn => ?_⟩
    cases hfd : g.find n with
    | none =>
      intro atomic hs s hl f hf
      cases f with
      | zero => omega
      | succ f' => simp [evalRule, hfd]
    | some rl =>
      obtain ⟨hmem, hname⟩ := find_some hfd
      have := hFu rl hmem (by rw [hname]; exact hn)
      rw [hname] at this
      exact this.mono (by omega)

def rankBound (g : Grammar) (rk : String → Nat) : Nat := (g.map (fun r => rk r.name)).foldr max 0 + 1

theorem lt_rankBound (g : Grammar) (rk : String → Nat) {rl : Rule} (h : rl ∈ g) : rk rl.name < rankBound g rk := by
  unfold rankBound
  have : ∀ (l : List Rule), rl ∈ l → rk rl.name ≤ (l.map (fun r => rk r.name)).foldr max 0 := by
    intro l
    induction l with
    | nil => intro h; cases h
    | cons x xs ih =>
      intro h
      simp only [List.map_cons, List.foldr_cons]
      rcases List.mem_cons.mp h with rfl | h'
      · exact Nat.le_max_left _ _
      · exact Nat.le_trans (ih h') (Nat.le_max_right _ _)
  have := this g h
  omega

/-- every rule answers (given the skip, in non-atomic mode) -/
theorem all_rules_tot (g : Grammar) (rk : String → Nat) (hr : Ranked g rk) (N Fs : Nat) : ∃ F, ∀ n, RuleTot g N Fs F n := by
  obtain ⟨F, hF⟩ := rank_level g rk hr N Fs (rankBound g rk)
  refine ⟨max 1 F, fun n => ?_⟩
  cases hfd : g.find n with
  | none =>
    intro atomic hs s hl f hf
    cases f with
    | zero => omega
    | succ f' => simp [evalRule, hfd]
  | some rl =>
    obtain ⟨hmem, hname⟩ := find_some hfd
    have := lt_rankBound g rk hmem
    rw [hname] at this
    exact (hF n this).mono (by omega)

/-- `WHITESPACE*`: at most one iteration per remaining character -/
theorem skipWs_tot (g : Grammar) (N Fw : Nat)
    (hw : ∀ s : St, s.rest.length ≤ N → ∀ f, Fw ≤ f → evalRule g f true "WHITESPACE" s ≠ .outOfFuel) :
    ∀ (k : Nat) (s : St), s.rest.length ≤ k → k ≤ N → ∀ f, Fw + k + 1 ≤ f → skipWs g f s ≠ .outOfFuel := by
  intro k
  induction k with
  | zero =>
    intro s hk hN f hf
    cases f with
    | zero => omega
    | succ f' =>
      simp only [skipWs]
      have h1 := hw s (by omega) f' (by omega)
      cases hr : evalRule g f' true "WHITESPACE" s with
      | outOfFuel => exact absurd hr h1
      | fail => simp
      | ok s' x =>
        simp only
        have a1 : Adv s s' := by have := (progress g f').2.2.1 true "WHITESPACE" s; rw [hr] at this; exact this
        split
        · simp
        · rename_i hne; have := a1.lt_of_ne hne; omega
  | succ k ih =>
    intro s hk hN f hf
    cases f with
    | zero => omega
    | succ f' =>
      simp only [skipWs]
      have h1 := hw s (by omega) f' (by omega)
      cases hr : evalRule g f' true "WHITESPACE" s with
      | outOfFuel => exact absurd hr h1
      | fail => simp
      | ok s' x =>
        simp only
        have a1 : Adv s s' := by have := (progress g f').2.2.1 true "WHITESPACE" s; rw [hr] at this; exact this
        split
        · simp
        · rename_i hne
          have := a1.lt_of_ne hne
          exact ih s' (by omega) (by omega) f' (by omega)

theorem skip_tot (g : Grammar) (N Fw : Nat)
    (hw : ∀ s : St, s.rest.length ≤ N → ∀ f, Fw ≤ f → evalRule g f true "WHITESPACE" s ≠ .outOfFuel)
    (hc : ∀ s : St, s.rest.length ≤ N → ∀ f, Fw ≤ f → evalRule g f true "COMMENT" s ≠ .outOfFuel) :
    ∀ (k : Nat) (s : St), s.rest.length ≤ k → k ≤ N → ∀ f, Fw + N + k + 2 ≤ f → skip g f s ≠ .outOfFuel := by
  intro k
  induction k with
  | zero =>
    intro s hk hN f hf
    cases f with
    | zero => omega
    | succ f' =>
      simp only [skip]
      have h1 := skipWs_tot g N Fw hw N s (by omega) (Nat.le_refl _) f' (by omega)
      cases hr : skipWs g f' s with
      | outOfFuel => exact absurd hr h1
      | fail => simp
      | ok s1 x =>
        simp only
        have a1 : Adv s s1 := by have := (progress g f').2.2.2.1 s; rw [hr] at this; exact this
        have h2 := hc s1 (by have := a1.rest_le; omega) f' (by omega)
        cases hcm : evalRule g f' true "COMMENT" s1 with
        | outOfFuel => exact absurd hcm h2
        | fail => simp
        | ok s2 y =>
          simp only
          have a2 : Adv s1 s2 := by have := (progress g f').2.2.1 true "COMMENT" s1; rw [hcm] at this; exact this
          split
          · simp
          · rename_i hne; have := a2.lt_of_ne hne; have := a1.rest_le; omega
  | succ k ih =>
    intro s hk hN f hf
    cases f with
    | zero => omega
    | succ f' =>
      simp only [skip]
      have h1 := skipWs_tot g N Fw hw N s (by omega) (Nat.le_refl _) f' (by omega)
      cases hr : skipWs g f' s with
      | outOfFuel => exact absurd hr h1
      | fail => simp
      | ok s1 x =>
        simp only
        have a1 : Adv s s1 := by have := (progress g f').2.2.2.1 s; rw [hr] at this; exact this
        have h2 := hc s1 (by have := a1.rest_le; omega) f' (by omega)
        cases hcm : evalRule g f' true "COMMENT" s1 with
        | outOfFuel => exact absurd hcm h2
        | fail => simp
        | ok s2 y =>
          simp only
          have a2 : Adv s1 s2 := by have := (progress g f').2.2.1 true "COMMENT" s1; rw [hcm] at this; exact this
          split
          · simp
          · rename_i hne
            have := a2.lt_of_ne hne
            have := a1.rest_le
            exact ih s2 (by omega) (by omega) f' (by omega)

/-- **the parser terminates**: for a grammar without recursion among its rules, every start rule and every bound on the input
    length there is a budget from which on the parse of any input of at most that length is never `outOfFuel` -/
theorem parse_terminates (g : Grammar) (rk : String → Nat) (hr : Ranked g rk) (N : Nat) :
    ∃ F, ∀ (start : String) (s : St), s.rest.length ≤ N → ∀ f, F ≤ f → evalRule g f false start s ≠ .outOfFuel := by
  -- the skip first: its two rules run atomically, where the skip itself is not used
  obtain ⟨Fa, hFa⟩ := all_rules_tot g rk hr N 0
  have hw : ∀ s : St, s.rest.length ≤ N → ∀ f, Fa ≤ f → evalRule g f true "WHITESPACE" s ≠ .outOfFuel :=
    fun s hl f hf => hFa "WHITESPACE" true (fun h => by cases h) s hl f hf
  have hc : ∀ s : St, s.rest.length ≤ N → ∀ f, Fa ≤ f → evalRule g f true "COMMENT" s ≠ .outOfFuel :=
    fun s hl f hf => hFa "COMMENT" true (fun h => by cases h) s hl f hf
  have hskip : SkipOK g N (Fa + N + N + 2) := fun s hl f hf => skip_tot g N Fa hw hc N s hl (Nat.le_refl _) f hf
  obtain ⟨F, hF⟩ := all_rules_tot g rk hr N (Fa + N + N + 2)
  exact ⟨F, fun start s hl f hf => hF start false (fun _ => hskip) s hl f hf⟩

/-! ### a computable ranking -/

def rankOf (g : Grammar) : Nat → String → Nat
  | 0, _ => 0
  | fuel + 1, n =>
    match g.find n with
    | none => 0
    | some r => (r.body.refs.map (rankOf g fuel)).foldr max 0 + 1

/-- no recursion among the rules: the computed ranking strictly decreases along every reference -/
def dag (g : Grammar) : Bool :=
  g.all fun r => r.body.refs.all fun n => decide (rankOf g (g.length + 1) n < rankOf g (g.length + 1) r.name)

theorem dag_ranked (g : Grammar) (h : dag g = true) : Ranked g (rankOf g (g.length + 1)) := by
  intro r hr n hn
  simp only [dag, List.all_eq_true, decide_eq_true_eq] at h
  exact h r hr n hn

end Fx.Peg
