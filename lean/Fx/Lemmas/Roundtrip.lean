/-
  Fx.Lemmas.Roundtrip — decoding the RFC 4506 encoding of a well-typed value of a supported
  specification returns the documented Rust value (C01), with the cursor advanced by the
  encoded length and every suffix untouched.
-/
import Fx.Lemmas.EmitPlans
import Fx.Lemmas.Enc
namespace Fx

/-- "succeeds with this value, leaving this cursor position" (the allocation log is left free) -/
def DecOk {α} (r : Res α) (v : α) (off : Nat) (data : List Byte) : Prop := ∃ l', r = .ok v ⟨off, data, l'⟩

theorem DecOk.bind {α β} {r : Res α} {f : α → Cur → Res β} {v : α} {off data} {w : β} {off' data'}
    (h1 : DecOk r v off data) (h2 : ∀ l, DecOk (f v ⟨off, data, l⟩) w off' data') : DecOk (r.bind f) w off' data' := by
  obtain ⟨l1, e1⟩ := h1
  rw [e1]
  exact h2 l1

theorem DecOk.map {α β} {r : Res α} {g : α → β} {v : α} {off data} (h : DecOk r v off data) : DecOk (r.map g) (g v) off data := by
  obtain ⟨l1, e1⟩ := h
  exact ⟨l1, by rw [e1]; rfl⟩

/-! ### fuel measure on reference values -/

mutual
def XVal.fsize : XVal → Nat
  | .varArr xs => xs.fsize + 4
  | .fixedArr xs => xs.fsize + 4
  | .optSome v => v.fsize + 4
  | .struct fs => fs.fsize + 4
  | .union _ arm => arm.fsize + 6
  | .alias v => v.fsize + 4
  | _ => 3
def XVals.fsize : XVals → Nat
  | .nil => 1
  | .cons v vs => v.fsize + vs.fsize + 3
end

/-! ### two's complement -/

theorem toSigned_ofSigned_32 (i : Int) (h1 : -(2^31 : Int) ≤ i) (h2 : i < 2^31) : toSigned 32 (ofSigned 32 i) = i := by
  simp only [toSigned, ofSigned]
  have : ((2^32 : Nat) : Int) = 4294967296 := by decide
  simp only [this]
  split <;> omega

theorem toSigned_ofSigned_64 (i : Int) (h1 : -(2^63 : Int) ≤ i) (h2 : i < 2^63) : toSigned 64 (ofSigned 64 i) = i := by
  simp only [toSigned, ofSigned]
  have : ((2^64 : Nat) : Int) = 18446744073709551616 := by decide
  simp only [this]
  split <;> omega

theorem ofSigned_32_lt (i : Int) : ofSigned 32 i < 2^32 := by
  simp only [ofSigned]
  have : ((2^32 : Nat) : Int) = 4294967296 := by decide
  simp only [this]; omega

theorem ofSigned_64_lt (i : Int) : ofSigned 64 i < 2^64 := by
  simp only [ofSigned]
  have : ((2^64 : Nat) : Int) = 18446744073709551616 := by decide
  simp only [this]; omega

/-! ### leaves -/

theorem readBool_enc (b : Bool) (o : Nat) (s : List Byte) (l) :
    readBool ⟨o, be32 (if b then 1 else 0) ++ s, l⟩ = .ok b ⟨o + 4, s, l⟩ := by
  cases b
  · simp [readBool, readI32, Res.map, readU32_be32 0 (by decide), toSigned]
  · simp [readBool, readI32, Res.map, readU32_be32 1 (by decide), toSigned]

theorem readString_enc (bs s : List Byte) (hl : bs.length < 2^32) (hu : utf8Valid bs = true) (max : Option Nat)
    (hm : overLimit max bs.length = false) (o : Nat) (l) :
    DecOk (readString max ⟨o, be32 bs.length ++ bs ++ zeros (padLen bs.length) ++ s, l⟩) (.str bs)
      (o + (4 + bs.length + padLen bs.length)) s := by
  refine ⟨l ++ [.str bs.length], ?_⟩
  simp only [readString, readVariableBytes, List.append_assoc, readU32_be32 _ hl, Res.bind_ok, hm, Bool.false_eq_true, if_false]
  have := readBytes_enc bs s (o + 4) l
  rw [List.append_assoc] at this
  rw [this]
  simp only [Res.bind_ok, payloadOf, hu, if_true, Cur.addLog]
  congr 2
  omega

theorem readVariableBytes_enc (bs s : List Byte) (hl : bs.length < 2^32) (max : Option Nat)
    (hm : overLimit max bs.length = false) (o : Nat) (l) :
    DecOk (readVariableBytes max ⟨o, be32 bs.length ++ bs ++ zeros (padLen bs.length) ++ s, l⟩) (.bytes (o + 4) bs)
      (o + (4 + bs.length + padLen bs.length)) s := by
  refine ⟨l, ?_⟩
  simp only [readVariableBytes, List.append_assoc, readU32_be32 _ hl, Res.bind_ok, hm, Bool.false_eq_true, if_false]
  have := readBytes_enc bs s (o + 4) l
  rw [List.append_assoc] at this
  rw [this]
  congr 2
  omega

/-- a value of a primitive, `string` or `opaque` type: its reader inverts the encoding -/
theorem rt_basic_leaf (a : Ast) (P : Plans) (t : BasicType) (x : XVal) (ht : ∀ n, t ≠ .ident n)
    (h : hasTypeBasic a t x = true) (fuel : Nat) (off : Nat) (s : List Byte) (l) :
    DecOk (evalBasic a P (fuel + 1) (decodeBasicAlias t) ⟨off, x.enc ++ s, l⟩) (reprBasic a t off x) (off + x.enc.length) s := by
  cases t <;> cases x <;> simp [hasTypeBasic] at h <;> (try (exact absurd rfl (ht _)))
  · -- u32
    exact ⟨l, by simp [decodeBasicAlias, evalBasic, readPrim, Res.map, XVal.enc, readU32_be32 _ h, reprBasic]⟩
  · -- u64
    exact ⟨l, by simp [decodeBasicAlias, evalBasic, readPrim, Res.map, XVal.enc, readU64_be64 _ h, reprBasic]⟩
  · -- i32
    exact ⟨l, by simp [decodeBasicAlias, evalBasic, readPrim, readI32, Res.map, XVal.enc, readU32_be32 _ (ofSigned_32_lt _), reprBasic,
      toSigned_ofSigned_32 _ h.1 h.2]⟩
  · -- i64
    exact ⟨l, by simp [decodeBasicAlias, evalBasic, readPrim, readI64, Res.map, XVal.enc, readU64_be64 _ (ofSigned_64_lt _), reprBasic,
      toSigned_ofSigned_64 _ h.1 h.2]⟩
  · -- f32
    exact ⟨l, by simp [decodeBasicAlias, evalBasic, readPrim, readF32, Res.map, XVal.enc, readU32_be32 _ h, reprBasic]⟩
  · -- f64
    exact ⟨l, by simp [decodeBasicAlias, evalBasic, readPrim, readF64, Res.map, XVal.enc, readU64_be64 _ h, reprBasic]⟩
  · -- string
    rename_i bs
    have := readString_enc bs s h.1 h.2 none rfl off l
    simpa [decodeBasicAlias, evalBasic, XVal.enc, reprBasic, List.append_assoc, Nat.add_assoc] using this
  · -- bool
    rename_i b
    exact ⟨l, by simp [decodeBasicAlias, evalBasic, readPrim, Res.map, XVal.enc, readBool_enc, reprBasic]⟩
  · -- opaque
    rename_i bs
    have := readVariableBytes_enc bs s h none rfl off l
    simpa [decodeBasicAlias, evalBasic, XVal.enc, reprBasic, List.append_assoc, Nat.add_assoc] using this

/-! ### names, bounds, enums -/

theorem safeName_eq_doc (n : String) (h1 : n ≠ "TRUE") (h2 : n ≠ "FALSE") : safeName n = docFieldName n := by
  simp only [safeName, docFieldName]
  split
  · rfl
  · simp [h1, h2]

theorem parse_agree_chars : ∀ (cs : List Char) (k n : Nat),
    (let cs' := (match cs with | '+' :: r => r | _ => cs)
     if allDigits cs' then (let m := digitsVal cs'; if m < 2^32 then some m else none) else none) = some k →
    (match cs with
     | '0' :: 'x' :: rest => if rest.isEmpty then none else hexStrVal rest
     | cs => if allDigits cs then some (digitsVal cs) else none) = some n → n = k := by
  intro cs k n h1 h2
  match cs, h1, h2 with
  | [], h1, _ => simp [allDigits] at h1
  | '+' :: r, _, h2 => simp [allDigits] at h2
  | '0' :: 'x' :: rest, h1, _ => simp [allDigits] at h1
  | c :: r, h1, h2 =>
    -- neither a sign nor a hex prefix: both read the same decimal digits
    by_cases hplus : c = '+'
    · subst hplus; simp [allDigits] at h2
    · have e1 : (match c :: r with | '+' :: r' => r' | _ => c :: r) = c :: r := by
        split
        · rename_i r' heq; cases heq; exact absurd rfl hplus
        · rfl
      simp only [e1] at h1
      by_cases hd : allDigits (c :: r) = true
      · simp only [hd, if_true] at h1
        split at h1
        · cases h1
          split at h2
          · rename_i rest heq
            cases heq
            simp [allDigits] at hd
          · simp only [hd, if_true] at h2
            cases h2; rfl
        · cases h1
      · simp [hd] at h1

/-- the bound the emitter passes (`resolveSize`) is the bound the specification declares (`boundValue`) -/
theorem bound_agree {a : Ast} {sz : ArraySize} {n n' : Nat} (h1 : boundValue a sz = some n) (h2 : resolveSize a sz = .ok n') : n = n' := by
  cases sz with
  | known k => simp [boundValue] at h1; simp [resolveSize] at h2; omega
  | constant c =>
    simp only [boundValue] at h1
    simp only [resolveSize, Ast.getConst] at h2
    cases hc : bget c a.constants with
    | none => simp [hc] at h1
    | some ct =>
      cases ct with
      | enumValue e v => simp [hc] at h1
      | constValue t =>
        simp only [hc, ConstantType.display] at h1 h2
        cases hp : parseU32 t with
        | none => simp [hp] at h2
        | some k =>
          simp only [hp] at h2
          injection h2 with h2
          subst h2
          exact parse_agree_chars t.toList k n hp h1

theorem enum_select {a : Ast} (vs : List Variant)
    (hnum : vs.all (fun v => match v.value with | .numeric i => 0 ≤ i && i < 2^31 | .str _ => false) = true) (d : Nat) :
    selectEnum a (.i32 (d : Int)) (vs.map fun x => (x.value, x.name)) =
      (vs.find? fun v => enumMemberValue a v == some d).map (·.name) := by
  induction vs with
  | nil => rfl
  | cons v rest ih =>
    simp only [List.all_cons, Bool.and_eq_true] at hnum
    rw [List.find?_cons]
    simp only [List.map_cons, selectEnum]
    cases hv : v.value with
    | str s => simp [hv] at hnum
    | numeric i =>
      simp only [hv, Bool.and_eq_true, decide_eq_true_eq] at hnum
      have hi0 : 0 ≤ i := hnum.1.1
      have hnot : ¬ i < 0 := by omega
      have hmv : enumMemberValue a v = some i.toNat := by simp [enumMemberValue, hv, hnot]
      simp only [enumArmMatches, scrutInt, hmv]
      by_cases he : (d : Int) = i
      · have : i.toNat = d := by omega
        simp [he, this]
      · have : ¬ i.toNat = d := by omega
        have hb : (some i.toNat == some d) = false := by simp [this]
        have hb2 : ((d : Int) == i) = false := by simp [he]
        simp only [hb, hb2, Bool.false_eq_true, if_false]
        exact ih hnum.2

theorem enum_value_lt {a : Ast} (e : Enum) (he : enumOk e = true) (d : Nat) (h : enumHasValue a e d = true) : d < 2^31 := by
  simp only [enumOk, Bool.and_eq_true] at he
  simp only [enumHasValue, List.any_eq_true] at h
  obtain ⟨v, hv, hm⟩ := h
  have := (List.all_eq_true.mp he.1.2) v hv
  cases hval : v.value with
  | str s => simp [hval] at this
  | numeric i =>
    simp only [hval, Bool.and_eq_true, decide_eq_true_eq] at this
    simp only [enumMemberValue, hval] at hm
    have hnot : ¬ i < 0 := by omega
    simp only [hnot, if_false, beq_iff_eq, Option.some.injEq] at hm
    omega

/-! ### typedefs decode like the declarator they abbreviate -/

/-- the declarator a typedef stands for: the alias' array kind applied to the target type -/
def wrapAlias (td : Typedef) : ArrayType :=
  match td.alias with
  | .none _ => .none td.target
  | .fixed _ sz => .fixed td.target sz
  | .variable _ m => .variable td.target m

/-- what `rt_arr` needs to know about a declarator: its element type is declared, and its shape is one the emitters handle -/
def elemOk (a : Ast) : ArrayType → Bool
  | .none t => basicDeclared a t
  | .fixed .string _ => false
  | .fixed t _ => basicDeclared a t
  | .variable .opaque _ => true
  | .variable .string _ => true
  | .variable (.ident n) _ => declared a n
  | .variable _ _ => false

theorem elemOk_of_declaratorOk {a : Ast} {at_ : ArrayType} (h : declaratorOk a at_ = true) : elemOk a at_ = true := by
  rcases at_ with t | ⟨t, sz⟩ | ⟨t, m⟩
  · cases t <;> simp_all [declaratorOk, elemOk, basicDeclared]
  · cases t <;> simp_all [declaratorOk, elemOk, basicDeclared]
  · cases t <;> simp_all [declaratorOk, elemOk, basicDeclared]

theorem elemOk_of_armTypeOk {a : Ast} {at_ : ArrayType} (h : armTypeOk a at_ = true) : elemOk a at_ = true := by
  rcases at_ with t | ⟨t, sz⟩ | ⟨t, m⟩
  · cases t <;> simp_all [armTypeOk, elemOk, basicDeclared]
  · simp [armTypeOk] at h
  · simp [armTypeOk] at h

theorem elemOk_wrapAlias {a : Ast} {td : Typedef} (h : typedefOk a td = true) : elemOk a (wrapAlias td) = true := by
  obtain ⟨target, alias⟩ := td
  simp only [typedefOk, Bool.and_eq_true] at h
  have h2 := h.2
  rcases alias with t | ⟨t, sz⟩ | ⟨t, m⟩ <;> cases target <;> simp_all [wrapAlias, elemOk, basicDeclared]
  all_goals (cases m <;> simp_all [optBoundOk])

theorem typedef_decode_eq {a : Ast} {P : Plans} (hP : PlansFor a P) (td : Typedef) (htd : typedefOk a td = true)
    (hself : a.getType td.alias.unwrapArray.asStr = some (.typedef td)) :
    decodeArray a td.alias .useTarget = decodeArray a (wrapAlias td) .useAlias := by
  obtain ⟨al, hal⟩ := typedefOk_alias_ident htd
  obtain ⟨target, alias⟩ := td
  simp only at hal hself ⊢
  simp only [typedefOk, Bool.and_eq_true] at htd
  have hrest := htd.2
  rcases alias with t | ⟨t, sz⟩ | ⟨t, m⟩
  · simp only [ArrayType.unwrapArray] at hal
    subst hal
    simp only [ArrayType.unwrapArray, BasicType.asStr] at hself
    simp only [wrapAlias, decodeArray, decodeBasic, hself]
    try (cases target <;> rfl)
  · simp only [ArrayType.unwrapArray] at hal
    subst hal
    simp only [ArrayType.unwrapArray, BasicType.asStr] at hself
    simp only [wrapAlias, decodeArray]
    congr 1
    funext n
    simp only [printFixed, Ast.typedefTarget, BasicType.asStr, hself]
    cases target <;> simp [decodeBasic, hself] at hrest ⊢
  · simp only [ArrayType.unwrapArray] at hal
    subst hal
    simp only [ArrayType.unwrapArray, BasicType.asStr] at hself
    have hsafe : (BasicType.ident al).asSafeString = al :=
      hP.declared_safe al (by simp only [declared]; simp only [Ast.getType] at hself; simp [hself])
    have key : ∀ size, printVariable a (.ident al) size .useTarget = printVariable a target size .useAlias := by
      intro size
      simp only [printVariable, hsafe, Ast.typedefTarget, BasicType.asStr, hself, AstType.display]
      cases target <;> (try (cases m <;> simp at hrest)) <;> simp [BasicType.isOpaque, BasicType.asStr, BasicType.asSafeString]
      all_goals (
        first
          | (have := hP.declared_safe _ hrest; simp [BasicType.asSafeString] at this; simp [this])
          | (have := hP.declared_safe _ hrest.1; simp [BasicType.asSafeString] at this; simp [this]))
    cases m with
    | none => simp only [wrapAlias, decodeArray]; exact key none
    | some sz =>
      simp only [wrapAlias, decodeArray]
      congr 1
      funext n
      exact key (some n)

/-! ### the interface to the union lemma (C06_match_selects) -/

/-- the value the discriminant decoder of `u` yields for the word `d` -/
def scrutOf (a : Ast) (u : Union) (d : Nat) : Val :=
  match discKind a u.switch.varType with
  | .u32 => .u32 d
  | .i32 => .i32 (toSigned 32 d)
  | .bool => .bool (d == 1)
  | .enum e => (match enumMemberName a e d with | some m => .cenum e.name m | none => .none)
  | .unsupported => .none

/-- For every union, the emitted discriminant decoder reads the word and the emitted arm list selects the arm the
    specification assigns to it (first data labels, then void labels, then the default). -/
def MatchSelects (a : Ast) (P : Plans) : Prop :=
  ∀ (n : String) (u : Union) (i : Impl) (ud : UnionDec),
    bget n a.types = some (.union u) → P.findImpl n = some i → i.body = .union ud →
    ∀ (d : Nat), discOk a (discKind a u.switch.varType) d = true →
      (∀ fuel off s l, DecOk (evalBasic a P (fuel + 2) ud.disc ⟨off, be32 d ++ s, l⟩) (scrutOf a u d) (off + 4) s) ∧
      (match selectDeclared a u d with
       | .data lab ty =>
         if lab = "default" then
           selectArm a (scrutOf a u d) ud.arms = none ∧ ∃ fd, ud.tail = .defaultData fd ∧ decodeArray a ty .useAlias = .ok fd ∧ elemOk a ty = true
         else ∃ arm fd, selectArm a (scrutOf a u d) ud.arms = some arm ∧ arm.variant = lab ∧ arm.payload = some fd ∧
           decodeArray a ty .useAlias = .ok fd ∧ elemOk a ty = true
       | .void lab => ∃ arm, selectArm a (scrutOf a u d) ud.arms = some arm ∧ arm.variant = lab ∧ arm.payload = none
       | .noArm => selectArm a (scrutOf a u d) ud.arms = none ∧ ud.tail = .errUnknown)

/-- what the round-trip induction knows about the specification and its plans -/
structure RT (a : Ast) (P : Plans) : Prop where
  plans : PlansFor a P
  find : ∀ n ty, bget n a.types = some ty → ∃ i, P.findImpl n = some i ∧ emitImpl a ty = .ok i
  tyOk : ∀ n ty, bget n a.types = some ty → typeOk a ty = true ∧ ty.rustName = n
  sizeExact : P.SizeExact' = true
  selects : MatchSelects a P

theorem Vals.snoc_append : ∀ (acc : Vals) (t : Val) (r : Vals), (acc.snoc t).append r = acc.append (.cons t r)
  | .nil, t, r => rfl
  | .cons x xs, t, r => by simp only [Vals.snoc, Vals.append, Vals.snoc_append xs t r]

theorem Vals.append_nil : ∀ (acc : Vals), acc.append .nil = acc
  | .nil => rfl
  | .cons x xs => by simp only [Vals.append, Vals.append_nil xs]

theorem Vals.nil_append (r : Vals) : Vals.nil.append r = r := rfl

/-- the element loop of a counted array on the encodings of well-typed elements, given the round trip of one element -/
theorem rt_loop (a : Ast) (P : Plans) (hse : P.SizeExact' = true) (f : Nat) (n : String)
    (hel : ∀ x, hasTypeNamed a n x = true → x.fsize < f → ∀ off s l,
      DecOk (evalImpl a P f n ⟨off, x.enc ++ s, l⟩) (reprNamed a n off x) (off + x.enc.length) s) :
    ∀ (xs : XVals), allHaveType a (.ident n) xs = true → xs.fsize < f →
      ∀ (off : Nat) (s : List Byte) (l) (sum : Nat) (acc : Vals),
        ∃ l', arrLoop (evalImpl a P f n) (wsVal P) xs.len ⟨off, xs.enc ++ s, l⟩ sum acc =
          .ok (acc.append (reprAll a (.ident n) off xs), sum + xs.enc.length) ⟨off + xs.enc.length, s, l'⟩
  | .nil, _, _, off, s, l, sum, acc => by
    refine ⟨l, ?_⟩
    simp [XVals.len, arrLoop, XVals.enc, reprAll, Vals.append_nil]
  | .cons x xs, h, hf, off, s, l, sum, acc => by
    rw [allHaveType] at h
    simp only [Bool.and_eq_true] at h
    rw [hasTypeBasic] at h
    simp only [XVals.fsize] at hf
    obtain ⟨l1, e1⟩ := hel x h.1 (by omega) off (xs.enc ++ s) l
    simp only [XVals.len, XVals.enc, List.append_assoc, arrLoop, e1]
    -- the element's wire_size is the length of its encoding (the decoder consumed exactly that)
    have hcons := (eval_consumed a P hse f).1 n _ _ _ e1
    have hws : wsVal P (reprNamed a n off x) = x.enc.length := by
      have := hcons.2.1
      simp only at this
      omega
    have hrem : ¬ (Cur.mk off (x.enc ++ (xs.enc ++ s)) l).remaining < wsVal P (reprNamed a n off x) := by
      rw [hws]; simp [Cur.remaining]
    simp only [hrem, if_false]
    obtain ⟨l2, e2⟩ := rt_loop a P hse f n hel xs h.2 (by omega) (off + x.enc.length) s l1
      (sum + wsVal P (reprNamed a n off x)) (acc.snoc (reprNamed a n off x))
    refine ⟨l2, ?_⟩
    have hcur : ({ (Cur.mk off (x.enc ++ (xs.enc ++ s)) l).advance (wsVal P (reprNamed a n off x)) with log := l1 } : Cur) =
        ⟨off + x.enc.length, xs.enc ++ s, l1⟩ := by
      simp [Cur.advance, hws]
    rw [hcur, e2]
    -- the value: `reprBasic` of an identifier-typed element is `reprNamed`
    have hv : reprBasic a (.ident n) off x = reprNamed a n off x := by
      have h1 := h.1
      cases x <;> first | (simp [hasTypeNamed] at h1; done) | (simp [reprBasic])
    rw [reprAll, hv, Vals.snoc_append, hws, List.length_append]
    have e3 : sum + x.enc.length + xs.enc.length = sum + (x.enc.length + xs.enc.length) := by omega
    have e4 : off + x.enc.length + xs.enc.length = off + (x.enc.length + xs.enc.length) := by omega
    rw [e3, e4]

/-! ### the induction on fuel -/

def NamedRT (a : Ast) (P : Plans) (fuel : Nat) : Prop :=
  ∀ n x, hasTypeNamed a n x = true → x.fsize < fuel → ∀ off s l,
    DecOk (evalImpl a P fuel n ⟨off, x.enc ++ s, l⟩) (reprNamed a n off x) (off + x.enc.length) s

def BasicRT (a : Ast) (P : Plans) (fuel : Nat) : Prop :=
  ∀ t x, hasTypeBasic a t x = true → basicDeclared a t = true → x.fsize + 1 < fuel → ∀ off s l,
    DecOk (evalBasic a P fuel (decodeBasicAlias t) ⟨off, x.enc ++ s, l⟩) (reprBasic a t off x) (off + x.enc.length) s

def ArrRT (a : Ast) (P : Plans) (fuel : Nat) : Prop :=
  ∀ at_ x fd, hasType a at_ x = true → elemOk a at_ = true → decodeArray a at_ .useAlias = .ok fd → x.fsize + 2 < fuel → ∀ off s l,
    DecOk (evalField a P fuel fd ⟨off, x.enc ++ s, l⟩) (repr a at_ off x) (off + x.enc.length) s

def RepeatRT (a : Ast) (P : Plans) (fuel : Nat) : Prop :=
  ∀ t xs, allHaveType a t xs = true → basicDeclared a t = true → xs.fsize + 1 < fuel → ∀ off s l,
    DecOk (evalRepeat a P fuel xs.len (decodeBasicAlias t) ⟨off, xs.enc ++ s, l⟩) (reprAll a t off xs) (off + xs.enc.length) s

def FieldsRT (a : Ast) (P : Plans) (fuel : Nat) : Prop :=
  ∀ fields xs fds, fieldsHaveType a fields xs = true → fields.all (fieldOk a) = true →
    mapG (emitStructField a) fields = .ok fds → xs.fsize + 1 < fuel → ∀ off s l,
    DecOk (evalFields a P fuel fds ⟨off, xs.enc ++ s, l⟩) (reprFields a fields off xs) (off + xs.enc.length) s

theorem step_basic {a : Ast} {P : Plans} {f : Nat} (ihN : NamedRT a P f) : BasicRT a P (f + 1) := by
  intro t x h hd hf off s l
  by_cases hid : ∃ n, t = .ident n
  · obtain ⟨n, rfl⟩ := hid
    have hn : hasTypeNamed a n x = true := by simpa [hasTypeBasic] using h
    have hv : reprBasic a (.ident n) off x = reprNamed a n off x := by
      cases x <;> first | (simp [hasTypeNamed] at hn; done) | (simp [reprBasic])
    simp only [decodeBasicAlias, evalBasic, hv]
    exact ihN n x hn (by omega) off s l
  · exact rt_basic_leaf a P t x (fun n e => hid ⟨n, e⟩) h f off s l

theorem step_repeat {a : Ast} {P : Plans} {f : Nat} (ihB : BasicRT a P f) (ihR : RepeatRT a P f) : RepeatRT a P (f + 1) := by
  intro t xs h hd hf off s l
  cases xs with
  | nil => exact ⟨l, by simp [XVals.len, evalRepeat, XVals.enc, reprAll]⟩
  | cons x rest =>
    simp only [allHaveType, Bool.and_eq_true] at h
    simp only [XVals.fsize] at hf
    simp only [XVals.len, evalRepeat, XVals.enc, List.append_assoc]
    apply DecOk.bind (ihB t x h.1 hd (by omega) off (rest.enc ++ s) l)
    intro l1
    apply DecOk.bind (ihR t rest h.2 hd (by omega) (off + x.enc.length) s l1)
    intro l2
    refine ⟨l2, ?_⟩
    simp only [reprAll, List.length_append, Nat.add_assoc]

theorem reprBasic_ident_eq {a : Ast} {n : String} {x : XVal} (hn : hasTypeNamed a n x = true) (off : Nat) :
    reprBasic a (.ident n) off x = reprNamed a n off x := by
  cases x <;> first | (simp [hasTypeNamed] at hn; done) | (simp [reprBasic])

theorem step_fields {a : Ast} {P : Plans} {f : Nat} (R : RT a P) (ihN : NamedRT a P f) (ihA : ArrRT a P f) (ihF : FieldsRT a P f) :
    FieldsRT a P (f + 1) := by
  intro fields xs fds h hok he hf off s l
  cases fields with
  | nil =>
    cases xs with
    | nil =>
      simp only [mapG] at he; cases he
      exact ⟨l, by simp [evalFields, XVals.enc, reprFields]⟩
    | cons v vs => simp [fieldsHaveType] at h
  | cons fld rest =>
    cases xs with
    | nil => simp [fieldsHaveType] at h
    | cons v vs =>
      simp only [fieldsHaveType, Bool.and_eq_true] at h
      simp only [List.all_cons, Bool.and_eq_true] at hok
      simp only [mapG] at he
      obtain ⟨sfd, hsfd, he⟩ := G.bind_eq_ok he
      obtain ⟨sfds, hsfds, he⟩ := G.bind_eq_ok he
      cases he
      simp only [XVals.fsize] at hf
      have hfo := hok.1
      simp only [fieldOk, Bool.and_eq_true] at hfo
      simp only [emitStructField] at hsfd
      simp only [evalFields, XVals.enc, List.append_assoc]
      have hft := h.1
      rw [fieldHasType.eq_def] at hft
      -- the first field
      have hfirst : ∀ l0, DecOk
          ((match sfd with
            | .plain _ fd => evalField a P f fd ⟨off, v.enc ++ (vs.enc ++ s), l0⟩
            | .optional _ ty =>
              (readU32 ⟨off, v.enc ++ (vs.enc ++ s), l0⟩).bind fun m c1 =>
                if m = 0 then .ok .none c1
                else if m = 1 then (evalImpl a P f ty c1).bind fun v c2 => .ok (.some v) (c2.addLog .box)
                else .err (.unknownOptionVariant m) c1.log))
          (reprField a fld off v) (off + v.enc.length) (vs.enc ++ s) := by
        intro l0
        rw [reprField.eq_def]
        by_cases hopt : fld.isOptional = true
        · simp only [hopt, if_true] at hsfd hfo hft ⊢
          cases hsfd
          split at hfo
          · rename_i n hfv
            have hsafe := R.plans.declared_safe n hfo.2
            simp only [hfv, ArrayType.unwrapArray, hsafe] at hft ⊢
            cases v with
            | optNone =>
              have h0 : (0 : Nat) < 2^32 := by decide
              refine ⟨l0, ?_⟩
              simp only [XVal.enc, readU32_be32 0 h0, Res.bind_ok, if_true, be32_length]
            | optSome x' =>
              have hx : hasTypeNamed a n x' = true := by simpa [hasTypeBasic] using hft
              simp only [XVal.fsize] at hf
              simp only [XVal.enc, List.append_assoc, readU32_be32 1 (by decide), Res.bind_ok]
              simp only [show (1 : Nat) ≠ 0 from by decide, if_false, if_true]
              obtain ⟨l1, e1⟩ := ihN n x' hx (by omega) (off + 4) (vs.enc ++ s) l0
              rw [e1]
              refine ⟨l1 ++ [.box], ?_⟩
              simp only [Res.bind_ok, Cur.addLog, reprBasic_ident_eq hx, List.length_append, be32_length]
              congr 2
              omega
            | _ => simp at hft
          · simp at hfo
        · simp only [hopt, Bool.false_eq_true, if_false] at hsfd hfo hft ⊢
          obtain ⟨fd, hfd, hsfd⟩ := G.bind_eq_ok hsfd
          cases hsfd
          exact ihA fld.fieldValue v fd hft (elemOk_of_declaratorOk hfo.2) hfd (by omega) off (vs.enc ++ s) l0
      apply DecOk.bind (hfirst l)
      intro l1
      apply DecOk.bind (ihF rest vs sfds h.2 hok.2 hsfds (by omega) (off + v.enc.length) s l1)
      intro l2
      refine ⟨l2, ?_⟩
      simp only [reprFields, List.length_append, Nat.add_assoc]

theorem decodeBasic_alias (a : Ast) (t : BasicType) : decodeBasic a t .useAlias = .ok (decodeBasicAlias t) := by
  cases t <;> rfl

theorem overLimit_of_within {lim : Option Nat} {k : Nat} (h : withinLimit lim k = true) : overLimit lim k = false := by
  cases lim with
  | none => rfl
  | some m =>
    simp only [withinLimit, Bool.and_eq_true, decide_eq_true_eq] at h
    simp [overLimit]; omega

theorem within_lt {lim : Option Nat} {k : Nat} (h : withinLimit lim k = true) : k < 2^32 := by
  simp only [withinLimit, Bool.and_eq_true, decide_eq_true_eq] at h
  exact h.1

/-- a fixed array of a non-opaque, non-string element type -/
theorem step_arr_fixedArr {a : Ast} {P : Plans} {f : Nat} (ihB : BasicRT a P f) (ihR : RepeatRT a P f)
    (t : BasicType) (ht1 : t.isOpaque = false) (ht2 : t ≠ .string) (xs : XVals) (n : Nat) (hlen : xs.len = n)
    (hall : allHaveType a t xs = true) (hd : basicDeclared a t = true) (fd : FieldDec)
    (he : printFixed a t n .useAlias = .ok fd) (hf : xs.fsize + 4 + 2 < f + 1) (off : Nat) (s : List Byte) (l) :
    DecOk (evalField a P (f + 1) fd ⟨off, xs.enc ++ s, l⟩) (.arr (reprAll a t off xs)) (off + xs.enc.length) s := by
  have hf1 : 1 ≤ xs.fsize := by cases xs <;> simp [XVals.fsize]
  obtain ⟨f', rfl⟩ : ∃ f', f = f' + 1 := ⟨f - 1, by omega⟩
  have hpf : fd = (if n = 0 then .fixedArr 0 (.prim .u32) else .fixedArr n (decodeBasicAlias t)) := by
    simp only [printFixed] at he
    by_cases hn0 : n = 0
    · cases t <;> simp_all [BasicType.isOpaque]
    · cases t <;> simp_all [BasicType.isOpaque, decodeBasic_alias]
  subst hpf
  by_cases hn0 : n = 0
  · subst hn0
    cases xs with
    | nil => exact ⟨l, by simp [evalField, evalRepeat, XVals.enc, reprAll]⟩
    | cons v vs => simp [XVals.len] at hlen
  · simp only [hn0, if_false, evalField]
    subst hlen
    apply DecOk.bind (ihR t xs hall hd (by omega) off s l)
    intro l1
    exact ⟨l1, rfl⟩

theorem limit_agree' {a : Ast} {m : Option ArraySize} {lim : Option Nat} {size : Option Nat}
    (h1 : limitOf a m = some lim)
    (h2 : (match m with | none => G.ok none | some sz => (resolveSize a sz).bind fun n => G.ok (some n)) = .ok size) :
    lim = size := by
  cases m with
  | none => simp [limitOf] at h1 h2; cases h1; cases h2; rfl
  | some sz =>
    simp only [limitOf] at h1
    simp only at h2
    obtain ⟨n', hn', h2⟩ := G.bind_eq_ok h2
    cases h2
    cases hb : boundValue a sz with
    | none => simp [hb] at h1
    | some n =>
      simp only [hb, Option.map_some, Option.some.injEq] at h1
      subst h1
      rw [bound_agree hb hn']

theorem step_arr {a : Ast} {P : Plans} {f : Nat} (R : RT a P) (ihN : NamedRT a P f) (ihB : BasicRT a P f) (ihR : RepeatRT a P f) :
    ArrRT a P (f + 1) := by
  intro at_ x fd h hok he hf off s l
  have hf3 : 3 ≤ x.fsize := by cases x <;> simp [XVal.fsize]
  rcases at_ with t | ⟨t, sz⟩ | ⟨t, m⟩
  · -- a plain declarator
    simp only [decodeArray, decodeBasic_alias, G.bind_ok] at he
    cases he
    rw [hasType.eq_def] at h
    rw [repr.eq_def]
    simp only [evalField]
    exact ihB t x h (by simpa [elemOk] using hok) (by omega) off s l
  · -- a fixed-length declarator
    rw [hasType.eq_def] at h
    simp only at h
    cases hb : boundValue a sz with
    | none => simp [hb] at h
    | some n =>
      simp only [hb] at h
      simp only [decodeArray] at he
      obtain ⟨n', hn', he⟩ := G.bind_eq_ok he
      have hnn : n = n' := bound_agree hb hn'
      subst hnn
      rw [repr.eq_def]
      rw [fixedHasType.eq_def] at h
      cases x <;> (try (cases t <;> simp at h <;> done))
      · -- fixed opaque
        rename_i bs
        cases t <;> simp at h
        simp only [printFixed] at he
        cases he
        subst h
        simp only [evalField, XVal.enc]
        exact ⟨l, by rw [readBytes_enc]; simp⟩
      · -- fixed array
        rename_i xs
        have ht1 : t.isOpaque = false := by cases t <;> simp_all [BasicType.isOpaque]
        have ht2 : t ≠ .string := by intro e; subst e; simp [elemOk] at hok
        have hd : basicDeclared a t = true := by cases t <;> simp_all [elemOk]
        have hx : xs.len = n ∧ allHaveType a t xs = true := by cases t <;> simp_all
        simp only [XVal.enc, XVal.fsize] at hf ⊢
        exact step_arr_fixedArr ihB ihR t ht1 ht2 xs n hx.1 hx.2 hd fd he (by omega) off s l
  · -- a counted declarator
    rw [hasType.eq_def] at h
    simp only at h
    simp only [decodeArray] at he
    have hsize : ∃ size, printVariable a t size .useAlias = .ok fd ∧
        (match m with | none => G.ok none | some sz => (resolveSize a sz).bind fun n => G.ok (some n)) = .ok size := by
      cases m with
      | none => exact ⟨none, he, rfl⟩
      | some sz =>
        obtain ⟨n', hn', he⟩ := G.bind_eq_ok he
        exact ⟨some n', he, by simp [hn']⟩
    obtain ⟨size, hpv, hsz⟩ := hsize
    cases hlim : limitOf a m with
    | none => simp [hlim] at h
    | some lim =>
      simp only [hlim] at h
      have hls : lim = size := limit_agree' hlim hsz
      subst hls
      rw [repr.eq_def]
      rw [varHasType.eq_def] at h
      cases x <;> (try (cases t <;> simp at h <;> done))
      · -- string
        rename_i bs
        cases t <;> simp at h
        simp only [printVariable] at hpv
        cases hpv
        have := readString_enc bs s (within_lt h.1) h.2 lim (overLimit_of_within h.1) off l
        simpa [evalField, XVal.enc, List.append_assoc, Nat.add_assoc] using this
      · -- opaque
        rename_i bs
        cases t <;> simp at h
        simp only [printVariable] at hpv
        cases hpv
        have := readVariableBytes_enc bs s (within_lt h) lim (overLimit_of_within h) off l
        simpa [evalField, XVal.enc, List.append_assoc, Nat.add_assoc] using this
      · -- counted array of a declared type
        rename_i xs
        obtain ⟨nm, rfl⟩ : ∃ nm, t = .ident nm := by cases t <;> simp_all [elemOk]
        have hdecl : declared a nm = true := by simpa [elemOk] using hok
        have hx : withinLimit lim xs.len = true ∧ allHaveType a (.ident nm) xs = true := by simpa using h
        simp only [printVariable, R.plans.declared_safe nm hdecl] at hpv
        cases hpv
        simp only [XVal.fsize] at hf
        simp only [evalField, XVal.enc, List.append_assoc, readVariableArray, readU32_be32 _ (within_lt hx.1), Res.bind_ok,
          overLimit_of_within hx.1, Bool.false_eq_true, if_false]
        obtain ⟨l2, e2⟩ := rt_loop a P R.sizeExact f nm (ihN nm) xs hx.2 (by omega) (off + 4) s
          (l ++ [.vec (min xs.len (xs.enc ++ s).length)]) 0 .nil
        have hcur : (Cur.mk (off + 4) (xs.enc ++ s) l).addLog (.vec (min xs.len (Cur.mk (off + 4) (xs.enc ++ s) l).remaining)) =
            ⟨off + 4, xs.enc ++ s, l ++ [.vec (min xs.len (xs.enc ++ s).length)]⟩ := rfl
        rw [hcur, e2]
        have hp0 : padLen (0 + xs.enc.length) = 0 := padLen_of_mod _ (by simpa using XVals.enc_len_mod4 xs)
        refine ⟨l2, ?_⟩
        simp only [Res.bind_ok, hp0, Nat.not_lt_zero, if_false, advanceP, Cur.advance_zero, Vals.nil_append, List.length_append,
          be32_length]
        congr 2
        omega

theorem emit_field_names {a : Ast} : ∀ (fields : List StructField) (fds : List StructFieldDec),
    fields.all (fieldOk a) = true → mapG (emitStructField a) fields = .ok fds →
    fds.map fieldNameOf = fields.map (fun f => docFieldName f.fieldName) := by
  intro fields
  induction fields with
  | nil => intro fds _ he; simp only [mapG] at he; cases he; rfl
  | cons fld rest ih =>
    intro fds hok he
    simp only [List.all_cons, Bool.and_eq_true] at hok
    simp only [mapG] at he
    obtain ⟨b, hb, he⟩ := G.bind_eq_ok he
    obtain ⟨bs, hbs, he⟩ := G.bind_eq_ok he
    cases he
    have hfo := hok.1
    simp only [fieldOk, Bool.and_eq_true, bne_iff_ne, ne_eq] at hfo
    have hn : fieldNameOf b = docFieldName fld.fieldName := by
      simp only [emitStructField] at hb
      split at hb
      · cases hb; simp only [fieldNameOf]; exact safeName_eq_doc _ hfo.1.1 hfo.1.2
      · obtain ⟨d, _, hb⟩ := G.bind_eq_ok hb
        cases hb; simp only [fieldNameOf]; exact safeName_eq_doc _ hfo.1.1 hfo.1.2
    simp [hn, ih bs hok.2 hbs]

theorem nonDigitName_eq_doc (l : String) : nonDigitName l = docVariantName l := rfl

theorem hasType_wrapAlias {a : Ast} {td : Typedef} {v : XVal}
    (h : (match td.alias with
          | .none _ => hasType a (.none td.target) v
          | .fixed _ sz => hasType a (.fixed td.target sz) v
          | .variable _ m => hasType a (.variable td.target m) v) = true) : hasType a (wrapAlias td) v = true := by
  obtain ⟨target, alias⟩ := td
  rcases alias with t | ⟨t, sz⟩ | ⟨t, m⟩ <;> exact h

theorem step_named {a : Ast} {P : Plans} {f : Nat} (R : RT a P) (ihA : ArrRT a P f) (ihF : FieldsRT a P f) : NamedRT a P (f + 1) := by
  intro n x h hf off s l
  rw [hasTypeNamed.eq_def] at h
  rw [reprNamed.eq_def]
  cases x <;> (try (simp at h; done))
  · -- struct
    rename_i fs
    simp only at h ⊢
    cases hb : bget n a.types with
    | none => simp [hb] at h
    | some ty =>
      cases ty with
      | struct sdef =>
        simp only [hb] at h ⊢
        obtain ⟨i, hfi, hemit⟩ := R.find n _ hb
        obtain ⟨hty, hname⟩ := R.tyOk n _ hb
        simp only [typeOk, Bool.and_eq_true] at hty
        simp only [emitImpl] at hemit
        obtain ⟨fds, hfds, hemit⟩ := G.bind_eq_ok hemit
        cases hemit
        simp only [XVal.fsize] at hf
        simp only [evalImpl, hfi, XVal.enc]
        apply DecOk.bind (ihF sdef.fields fs fds h hty.2 hfds (by omega) off s l)
        intro l1
        exact ⟨l1, by rw [emit_field_names sdef.fields fds hty.2 hfds]⟩
      | union _ => simp [hb] at h
      | enum _ => simp [hb] at h
      | typedef _ => simp [hb] at h
  · -- union
    rename_i d arm
    simp only at h ⊢
    cases hb : bget n a.types with
    | none => simp [hb] at h
    | some ty =>
      cases ty with
      | union u =>
        simp only [hb, Bool.and_eq_true] at h ⊢
        obtain ⟨hdisc, harm⟩ := h
        obtain ⟨i, hfi, hemit⟩ := R.find n _ hb
        simp only [emitImpl] at hemit
        obtain ⟨ud, hud, hemit⟩ := G.bind_eq_ok hemit
        cases hemit
        obtain ⟨hdec, hsel⟩ := R.selects n u _ ud hb hfi rfl d hdisc
        simp only [XVal.fsize] at hf
        have hf3 : 3 ≤ arm.fsize := by cases arm <;> simp [XVal.fsize]
        obtain ⟨f', rfl⟩ : ∃ f', f = f' + 2 := ⟨f - 2, by omega⟩
        simp only [evalImpl, hfi, XVal.enc, List.append_assoc]
        apply DecOk.bind (hdec f' off (arm.enc ++ s) l)
        intro l1
        simp only
        cases hsd : selectDeclared a u d with
        | data lab ty =>
          simp only [hsd] at hsel harm ⊢
          by_cases hlab : lab = "default"
          · simp only [hlab, if_true] at hsel
            obtain ⟨hnone, fd, htail, hfd, hel⟩ := hsel
            simp only [hnone, htail]
            apply DecOk.bind (ihA ty arm fd harm hel hfd (by omega) (off + 4) s l1)
            intro l2
            exact ⟨l2, by simp [hlab, docVariantName, Nat.add_assoc]⟩
          · simp only [hlab, if_false] at hsel
            obtain ⟨arm', fd, hsome, hvar, hpay, hfd, hel⟩ := hsel
            simp only [hsome, hpay]
            apply DecOk.bind (ihA ty arm fd harm hel hfd (by omega) (off + 4) s l1)
            intro l2
            exact ⟨l2, by simp [hvar, nonDigitName_eq_doc, Nat.add_assoc]⟩
        | void lab =>
          simp only [hsd] at hsel harm ⊢
          obtain ⟨arm', hsome, hvar, hpay⟩ := hsel
          cases arm <;> simp at harm
          simp only [hsome, hpay, XVal.enc, List.nil_append]
          exact ⟨l1, by simp [hvar, nonDigitName_eq_doc]⟩
        | noArm => simp [hsd] at harm
      | struct _ => simp [hb] at h
      | enum _ => simp [hb] at h
      | typedef _ => simp [hb] at h
  · -- enum
    rename_i v
    simp only at h ⊢
    cases hb : bget n a.types with
    | none => simp [hb] at h
    | some ty =>
      cases ty with
      | enum e =>
        simp only [hb] at h ⊢
        obtain ⟨i, hfi, hemit⟩ := R.find n _ hb
        obtain ⟨hty, hname⟩ := R.tyOk n _ hb
        simp only [typeOk] at hty
        simp only [emitImpl] at hemit
        cases hemit
        have hlt : v < 2^31 := enum_value_lt e hty v h
        have hts : toSigned 32 v = (v : Int) := by simp [toSigned, hlt]
        have hnum := hty
        simp only [enumOk, Bool.and_eq_true] at hnum
        have hsel := enum_select (a := a) e.variants hnum.1.2 v
        simp only [evalImpl, hfi, XVal.enc, readI32, Res.map, readU32_be32 v (by omega), Res.bind_ok, hts, hsel]
        simp only [enumMemberName]
        have hex : ∃ var, e.variants.find? (fun x => enumMemberValue a x == some v) = some var := by
          simp only [enumHasValue, List.any_eq_true] at h
          obtain ⟨var, hvar, hval⟩ := h
          cases hf' : e.variants.find? (fun x => enumMemberValue a x == some v) with
          | some w => exact ⟨w, rfl⟩
          | none =>
            have := List.find?_eq_none.mp hf' var hvar
            simp [hval] at this
        obtain ⟨var, hvar⟩ := hex
        simp only [hvar, Option.map_some]
        exact ⟨l, rfl⟩
      | struct _ => simp [hb] at h
      | union _ => simp [hb] at h
      | typedef _ => simp [hb] at h
  · -- typedef
    rename_i v
    simp only at h ⊢
    cases hb : bget n a.types with
    | none => simp [hb] at h
    | some ty =>
      cases ty with
      | typedef td =>
        simp only [hb] at h ⊢
        obtain ⟨i, hfi, hemit⟩ := R.find n _ hb
        obtain ⟨hty, hname⟩ := R.tyOk n _ hb
        simp only [typeOk] at hty
        simp only [emitImpl] at hemit
        obtain ⟨fd, hfd, hemit⟩ := G.bind_eq_ok hemit
        cases hemit
        have hself : a.getType td.alias.unwrapArray.asStr = some (.typedef td) := by
          simp only [AstType.rustName] at hname
          rw [hname]; exact hb
        rw [typedef_decode_eq R.plans td hty hself] at hfd
        have hw := hasType_wrapAlias h
        simp only [XVal.fsize] at hf
        simp only [evalImpl, hfi, XVal.enc]
        apply DecOk.bind (ihA (wrapAlias td) v fd hw (elemOk_wrapAlias hty) hfd (by omega) off s l)
        intro l1
        refine ⟨l1, ?_⟩
        obtain ⟨target, alias⟩ := td
        rcases alias with t | ⟨t, sz⟩ | ⟨t, m⟩ <;> rfl
      | struct _ => simp [hb] at h
      | union _ => simp [hb] at h
      | enum _ => simp [hb] at h

theorem rt_all {a : Ast} {P : Plans} (R : RT a P) : ∀ (fuel : Nat),
    NamedRT a P fuel ∧ BasicRT a P fuel ∧ ArrRT a P fuel ∧ RepeatRT a P fuel ∧ FieldsRT a P fuel
  | 0 => ⟨fun _ _ _ hf => absurd hf (Nat.not_lt_zero _), fun _ _ _ _ hf => absurd hf (Nat.not_lt_zero _),
          fun _ _ _ _ _ _ hf => absurd hf (Nat.not_lt_zero _), fun _ _ _ _ hf => absurd hf (Nat.not_lt_zero _),
          fun _ _ _ _ _ _ hf => absurd hf (Nat.not_lt_zero _)⟩
  | f + 1 =>
    have ih := rt_all R f
    ⟨step_named R ih.2.2.1 ih.2.2.2.2, step_basic ih.1, step_arr R ih.1 ih.2.1 ih.2.2.2.1,
     step_repeat ih.2.1 ih.2.2.2.1, step_fields R ih.1 ih.2.2.1 ih.2.2.2.2⟩

theorem rt_of_supported {a : Ast} {m : Module} (hs : Supported a = true) (hg : generateModule a = .ok m)
    (hms : MatchSelects a m.plans) : RT a m.plans := by
  have hP := plansFor_of_supported hs hg
  have hsp := supported_plans hs hg
  obtain ⟨hkeys, htypes, _, _, _⟩ := Supported.facts hs
  obtain ⟨hkn, _, _⟩ := keysOk_facts hkeys
  obtain ⟨_, _, h2, _⟩ := generateModule_ok hg
  refine ⟨hP, ?_, ?_, hsp.2, hms⟩
  · intro n ty hb
    obtain ⟨i, hi, he⟩ := find_impl_of_types a a.types m.fromRefMut h2 hkn n ty hb
    exact ⟨i, by simp only [Module.plans, Plans.findImpl]; exact hi, he⟩
  · intro n ty hb
    have hm := bget_mem hb
    exact ⟨(List.all_eq_true.mp htypes) (n, ty) hm, (hkn (n, ty) hm).symm⟩

/-- **C01**: for every supported specification, every declared type `n`, every well-typed value `x` of it, every
    suffix, offset and sufficient fuel: the generated decoder, run on the RFC 4506 encoding of `x`, returns the
    documented Rust value of `x` and leaves the cursor right after the encoding, the suffix untouched. -/
theorem roundtrip {a : Ast} {m : Module} (hs : Supported a = true) (hg : generateModule a = .ok m)
    (hms : MatchSelects a m.plans) (n : String) (x : XVal) (h : hasTypeNamed a n x = true)
    (fuel : Nat) (hf : x.fsize < fuel) (off : Nat) (s : List Byte) (l : List Ev) :
    ∃ l', evalImpl a m.plans fuel n ⟨off, x.enc ++ s, l⟩ = .ok (reprNamed a n off x) ⟨off + x.enc.length, s, l'⟩ :=
  (rt_all (rt_of_supported hs hg hms) fuel).1 n x h hf off s l

end Fx
