/-
  Fx.Lemmas.ParseSim — `walk` reads a token tree only through its rule names, its shape, the texts of the identifier and
  number leaves, and the built-in type a `basic_type` text spells: the texts of composite tokens (which contain the layout)
  and the amount of white space inside a `basic_type` token are never looked at.
-/
import Fx.Walk
import Fx.Lemmas.ParseSpec
namespace Fx.Parse
open Fx.Peg

/-! ### `BasicType::from` on a built-in spelling with any white space -/

theorem wsChar_isWs {c : Char} (h : isWsChar c = true) : Fx.isWs c = true := by
  rcases ws_cases h with rfl | rfl | rfl | rfl <;> decide

theorem wordsAux_word : ∀ (k rest cur : List Char), (∀ c ∈ k, Fx.isWs c = false) →
    wordsAux (k ++ rest) cur = wordsAux rest (k.reverse ++ cur) := by
  intro k
  induction k with
  | nil => intro rest cur _; simp
  | cons c k ih =>
    intro rest cur h
    have hc := h c (by simp)
    simp only [List.cons_append, wordsAux, hc, Bool.false_eq_true, if_false]
    rw [ih rest (c :: cur) (fun d hd => h d (by simp [hd]))]
    simp

theorem wordsAux_ws : ∀ (w rest : List Char), (∀ c ∈ w, Fx.isWs c = true) → wordsAux (w ++ rest) [] = wordsAux rest [] := by
  intro w
  induction w with
  | nil => intro rest _; simp
  | cons c w ih =>
    intro rest h
    have hc := h c (by simp)
    simp only [List.cons_append, wordsAux, hc, if_true, List.isEmpty_nil]
    exact ih rest (fun d hd => h d (by simp [hd]))

theorem wordsAux_ws_cur (w rest cur : List Char) (hw : ∀ c ∈ w, Fx.isWs c = true) (hne : w ≠ []) (hcur : cur ≠ []) :
    wordsAux (w ++ rest) cur = cur.reverse :: wordsAux rest [] := by
  cases w with
  | nil => exact absurd rfl hne
  | cons c w =>
    have hc := hw c (by simp)
    have : cur.isEmpty = false := by cases cur with | nil => exact absurd rfl hcur | cons _ _ => rfl
    simp only [List.cons_append, wordsAux, hc, if_true, this, Bool.false_eq_true, if_false]
    rw [wordsAux_ws w rest (fun d hd => hw d (by simp [hd]))]

/-- one word followed by white space -/
theorem words_one (k t : List Char) (hk : ∀ c ∈ k, Fx.isWs c = false) (hkne : k ≠ []) (ht : ∀ c ∈ t, Fx.isWs c = true) (htne : t ≠ []) :
    wordsAux (k ++ t) [] = [k] := by
  have := wordsAux_word k (t ++ []) [] hk
  simp only [List.append_nil] at this
  rw [this, ← List.append_nil t, wordsAux_ws_cur t [] k.reverse ht htne (by simpa using hkne)]
  simp [wordsAux]

/-- two words separated and followed by white space -/
theorem words_two (k1 w k2 t : List Char) (hk1 : ∀ c ∈ k1, Fx.isWs c = false) (h1ne : k1 ≠ []) (hw : ∀ c ∈ w, Fx.isWs c = true)
    (hwne : w ≠ []) (hk2 : ∀ c ∈ k2, Fx.isWs c = false) (h2ne : k2 ≠ []) (ht : ∀ c ∈ t, Fx.isWs c = true) (htne : t ≠ []) :
    wordsAux (k1 ++ (w ++ (k2 ++ t))) [] = [k1, k2] := by
  rw [wordsAux_word k1 _ [] hk1, wordsAux_ws_cur w (k2 ++ t) _ hw hwne (by simpa using h1ne), words_one k2 t hk2 h2ne ht htne]
  simp

/-- the canonical spelling `BasicType::from` matches against -/
def Prim.canon : Prim → List Char
  | .int => ['i', 'n', 't']
  | .hyper => ['h', 'y', 'p', 'e', 'r']
  | .uint _ => ['u', 'n', 's', 'i', 'g', 'n', 'e', 'd', ' ', 'i', 'n', 't']
  | .uhyper _ => ['u', 'n', 's', 'i', 'g', 'n', 'e', 'd', ' ', 'h', 'y', 'p', 'e', 'r']
  | .float => ['f', 'l', 'o', 'a', 't']
  | .double => ['d', 'o', 'u', 'b', 'l', 'e']
  | .string => ['s', 't', 'r', 'i', 'n', 'g']
  | .opaque => ['o', 'p', 'a', 'q', 'u', 'e']

theorem normWs_prim (pr : Prim) (t : List Char) (hp : pr.ok = true) (ht : wsRun t = true) :
    normWs (String.ofList (pr.words ++ t)) = String.ofList pr.canon := by
  obtain ⟨htne, htw⟩ := wsRun_iff ht
  have htw' : ∀ c ∈ t, Fx.isWs c = true := fun c hc => wsChar_isWs (htw c hc)
  simp only [normWs, String.toList_ofList]
  cases pr with
  | int => rw [show Prim.words .int = ['i', 'n', 't'] from rfl, words_one _ t (by decide) (by decide) htw' htne]; rfl
  | hyper => rw [show Prim.words .hyper = ['h', 'y', 'p', 'e', 'r'] from rfl, words_one _ t (by decide) (by decide) htw' htne]; rfl
  | float => rw [show Prim.words .float = ['f', 'l', 'o', 'a', 't'] from rfl, words_one _ t (by decide) (by decide) htw' htne]; rfl
  | double => rw [show Prim.words .double = ['d', 'o', 'u', 'b', 'l', 'e'] from rfl, words_one _ t (by decide) (by decide) htw' htne]; rfl
  | string => rw [show Prim.words .string = ['s', 't', 'r', 'i', 'n', 'g'] from rfl, words_one _ t (by decide) (by decide) htw' htne]; rfl
  | «opaque» => rw [show Prim.words .opaque = ['o', 'p', 'a', 'q', 'u', 'e'] from rfl, words_one _ t (by decide) (by decide) htw' htne]; rfl
  | uint w =>
    obtain ⟨hwne, hww⟩ := wsRun_iff (w := w) (by simpa [Prim.ok, wsRun] using hp)
    have hww' : ∀ c ∈ w, Fx.isWs c = true := fun c hc => wsChar_isWs (hww c hc)
    have : (Prim.uint w).words ++ t = ['u', 'n', 's', 'i', 'g', 'n', 'e', 'd'] ++ (w ++ (['i', 'n', 't'] ++ t)) := by
      simp [Prim.words, List.append_assoc]
    rw [this, words_two _ w _ t (by decide) (by decide) hww' hwne (by decide) (by decide) htw' htne]; rfl
  | uhyper w =>
    obtain ⟨hwne, hww⟩ := wsRun_iff (w := w) (by simpa [Prim.ok, wsRun] using hp)
    have hww' : ∀ c ∈ w, Fx.isWs c = true := fun c hc => wsChar_isWs (hww c hc)
    have : (Prim.uhyper w).words ++ t = ['u', 'n', 's', 'i', 'g', 'n', 'e', 'd'] ++ (w ++ (['h', 'y', 'p', 'e', 'r'] ++ t)) := by
      simp [Prim.words, List.append_assoc]
    rw [this, words_two _ w _ t (by decide) (by decide) hww' hwne (by decide) (by decide) htw' htne]; rfl

theorem ofStr_congr {a b : String} (h : normWs a = normWs b) : BasicType.ofStr a = BasicType.ofStr b := by
  simp only [BasicType.ofStr, h]

/-- the built-in type a spelling denotes does not depend on the white space in or after it -/
theorem ofStr_prim (pr : Prim) (t t' : List Char) (w' : Prim) (hp : pr.ok = true) (ht : wsRun t = true)
    (hp' : w'.ok = true) (ht' : wsRun t' = true) (hc : pr.canon = w'.canon) :
    BasicType.ofStr (String.ofList (pr.words ++ t)) = BasicType.ofStr (String.ofList (w'.words ++ t')) :=
  ofStr_congr (by rw [normWs_prim pr t hp ht, normWs_prim w' t' hp' ht', hc])

/-! ### token trees that `walk` cannot tell apart -/

/-- what `walk` looks at beyond rule name and children -/
def leafCond (r : String) (t t' : List Char) (cs cs' : List Pair) : Bool :=
  if r == "ident" || r == "ident_const" || r == "ident_value" then t == t'
  else if r == "basic_type" then decide (BasicType.ofStr (String.ofList t) = BasicType.ofStr (String.ofList t'))
  else if r == "array_variable" || r == "array_fixed" then innerStr cs == innerStr cs'
  else true

mutual
def sim : Pair → Pair → Bool
  | .mk r t cs, .mk r' t' cs' => r == r' && leafCond r t t' cs cs' && simL cs cs'
def simL : List Pair → List Pair → Bool
  | [], [] => true
  | p :: ps, q :: qs => sim p q && simL ps qs
  | _, _ => false
end

mutual
theorem walk_sim : ∀ (p q : Pair), sim p q = true → walk p = walk q
  | .mk r t cs, .mk r' t' cs', h => by
    simp only [sim, Bool.and_eq_true, beq_iff_eq] at h
    obtain ⟨⟨hr, hleaf⟩, hcs⟩ := h
    subst hr
    have hall := walkAll_sim cs cs' hcs
    unfold walk
    split <;> first
      | rfl
      | (simp only [hall])
      | (simp only [leafCond, beq_self_eq_true, Bool.true_or, Bool.or_true, if_true, beq_iff_eq] at hleaf; simp only [hleaf])
      | (simp [leafCond] at hleaf; simp only [hleaf])
theorem walkAll_sim : ∀ (ps qs : List Pair), simL ps qs = true → walkAll ps = walkAll qs
  | [], [], _ => rfl
  | p :: ps, q :: qs, h => by
    simp only [simL, Bool.and_eq_true] at h
    simp only [walkAll, walk_sim p q h.1, walkAll_sim ps qs h.2]
  | [], _ :: _, h => by simp [simL] at h
  | _ :: _, [], h => by simp [simL] at h
end

theorem simL_append : ∀ (a a' b b' : List Pair), simL a a' = true → simL b b' = true → simL (a ++ b) (a' ++ b') = true := by
  intro a
  induction a with
  | nil =>
    intro a' b b' ha hb
    cases a' with
    | nil => simpa using hb
    | cons _ _ => simp [simL] at ha
  | cons p ps ih =>
    intro a' b b' ha hb
    cases a' with
    | nil => simp [simL] at ha
    | cons q qs =>
      simp only [simL, Bool.and_eq_true] at ha
      simp only [List.cons_append, simL, Bool.and_eq_true]
      exact ⟨ha.1, ih qs b b' ha.2 hb⟩

theorem simL_single {p q : Pair} (h : sim p q = true) : simL [p] [q] = true := by simp [simL, h]

theorem simL_elemToks {α : Type} (l : List α) (f g : α → Elem) (h : ∀ x ∈ l, simL (f x).TS (g x).TS = true) :
    simL (elemToks (l.map f)) (elemToks (l.map g)) = true := by
  induction l with
  | nil => simp [elemToks, simL]
  | cons x xs ih =>
    simp only [List.map_cons, elemToks, List.flatten_cons]
    exact simL_append _ _ _ _ (h x (by simp)) (by simpa [elemToks] using ih (fun y hy => h y (by simp [hy])))

end Fx.Parse
