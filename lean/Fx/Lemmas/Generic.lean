/-
  Fx.Lemmas.Generic — the pass-until-stable loop of `GenericIndex::new` computes
  exactly the names from which an `opaque` is reachable.
-/
import Fx.Index
namespace Fx

/-- opaque-reachability over what `recurse` looks at -/
inductive Reach (items : List GItem) : String → Prop
  | own {it} : it ∈ items → it.own = true → Reach items it.name
  | ref {it r} : it ∈ items → r ∈ it.refs → Reach items r → Reach items it.name

def GSound (items : List GItem) (idx : List String) : Prop := ∀ n ∈ idx, Reach items n

theorem gstep_sound {items idx it} (hm : it ∈ items) (h : GSound items idx) : GSound items (gstep idx it) := by
  unfold gstep
  split
  · exact h
  · split
    · rename_i hh
      intro n hn
      simp only [List.mem_cons] at hn
      rcases hn with rfl | hn
      · unfold GItem.hit at hh
        simp only [Bool.or_eq_true, List.any_eq_true, List.contains_iff_mem] at hh
        rcases hh with ho | ⟨r, hr, hri⟩
        · exact Reach.own hm ho
        · exact Reach.ref hm hr (h r hri)
      · exact h n hn
    · exact h

theorem gfoldl_sound {items : List GItem} (sub : List GItem) (hsub : ∀ it ∈ sub, it ∈ items) (idx : List String)
    (h : GSound items idx) : GSound items (sub.foldl gstep idx) := by
  induction sub generalizing idx with
  | nil => exact h
  | cons it rest ih =>
    simp only [List.foldl_cons]
    exact ih (fun x hx => hsub x (List.mem_cons_of_mem _ hx)) _ (gstep_sound (hsub it List.mem_cons_self) h)

theorem gpass_sound {items idx} (h : GSound items idx) : GSound items (gpass items idx) :=
  gfoldl_sound items (fun _ h => h) idx h

theorem gloop_sound {items} (fuel : Nat) (idx) (h : GSound items idx) : GSound items (gloop fuel items idx) := by
  induction fuel generalizing idx with
  | zero => exact h
  | succ f ih =>
    simp only [gloop]
    split
    · exact gpass_sound h
    · exact ih _ (gpass_sound h)

theorem genericIndexOf_sound (items) : ∀ n ∈ genericIndexOf items, Reach items n :=
  gloop_sound _ _ (by intro n hn; cases hn)

theorem gstep_suffix (idx it) : ∃ pre, gstep idx it = pre ++ idx ∧ pre.length ≤ 1 := by
  unfold gstep
  split
  · exact ⟨[], rfl, by simp⟩
  · split
    · exact ⟨[it.name], rfl, by simp⟩
    · exact ⟨[], rfl, by simp⟩

theorem gstep_length_ge (idx it) : idx.length ≤ (gstep idx it).length := by
  obtain ⟨pre, h, _⟩ := gstep_suffix idx it; rw [h]; simp

theorem gfoldl_length_ge (sub : List GItem) (idx) : idx.length ≤ (sub.foldl gstep idx).length := by
  induction sub generalizing idx with
  | nil => simp
  | cons it rest ih => simp only [List.foldl_cons]; exact Nat.le_trans (gstep_length_ge idx it) (ih _)

theorem gstep_eq_of_length {idx it} (h : (gstep idx it).length = idx.length) : gstep idx it = idx := by
  obtain ⟨pre, hp, _⟩ := gstep_suffix idx it
  rw [hp] at h ⊢
  have : pre = [] := by simpa using h
  simp [this]

theorem gfoldl_fix {sub : List GItem} {idx} (h : (sub.foldl gstep idx).length = idx.length) :
    ∀ it ∈ sub, gstep idx it = idx := by
  induction sub generalizing idx with
  | nil => intro it hit; cases hit
  | cons a rest ih =>
    simp only [List.foldl_cons] at h
    have h1 : (gstep idx a).length = idx.length := by
      have := gfoldl_length_ge rest (gstep idx a)
      have := gstep_length_ge idx a
      omega
    have h2 := gstep_eq_of_length h1
    rw [h2] at h
    intro it hit
    simp only [List.mem_cons] at hit
    rcases hit with rfl | hit
    · exact h2
    · exact ih h it hit

def GClosed (items : List GItem) (idx : List String) : Prop :=
  ∀ it ∈ items, it.hit idx = true → it.name ∈ idx

theorem closed_of_gpass_fix {items idx} (h : (gpass items idx).length = idx.length) : GClosed items idx := by
  intro it hm hh
  have := gfoldl_fix h it hm
  unfold gstep at this
  split at this
  · rename_i hc; simpa using hc
  · have := congrArg List.length this
    simp at this

theorem mem_of_reach {items idx} (hc : GClosed items idx) {n} (hr : Reach items n) : n ∈ idx := by
  induction hr with
  | own hm ho => exact hc _ hm (by simp [GItem.hit, ho])
  | ref hm hr _ ih =>
    apply hc _ hm
    simp only [GItem.hit, Bool.or_eq_true, List.any_eq_true, List.contains_iff_mem]
    exact Or.inr ⟨_, hr, ih⟩

def gnames (items : List GItem) : List String := items.map (·.name)

theorem gstep_names {items idx it} (hm : it ∈ items) (h : ∀ n ∈ idx, n ∈ gnames items) :
    ∀ n ∈ gstep idx it, n ∈ gnames items := by
  unfold gstep; split
  · exact h
  · split
    · intro n hn; simp only [List.mem_cons] at hn
      rcases hn with rfl | hn
      · exact List.mem_map_of_mem hm
      · exact h n hn
    · exact h

theorem gstep_nodup {idx it} (h : idx.Nodup) : (gstep idx it).Nodup := by
  unfold gstep; split
  · exact h
  · rename_i hc
    split
    · exact List.nodup_cons.mpr ⟨by simpa using hc, h⟩
    · exact h

theorem gfoldl_inv {items : List GItem} (sub : List GItem) (hsub : ∀ it ∈ sub, it ∈ items) (idx)
    (h1 : ∀ n ∈ idx, n ∈ gnames items) (h2 : idx.Nodup) :
    (∀ n ∈ sub.foldl gstep idx, n ∈ gnames items) ∧ (sub.foldl gstep idx).Nodup := by
  induction sub generalizing idx with
  | nil => exact ⟨h1, h2⟩
  | cons a rest ih =>
    simp only [List.foldl_cons]
    exact ih (fun x hx => hsub x (List.mem_cons_of_mem _ hx)) _
      (gstep_names (hsub a List.mem_cons_self) h1) (gstep_nodup h2)

theorem nodup_sub_length {l m : List String} (hl : l.Nodup) (h : ∀ n ∈ l, n ∈ m) : l.length ≤ m.length := by
  induction l generalizing m with
  | nil => simp
  | cons a l ih =>
    have ha : a ∈ m := h a List.mem_cons_self
    have hnd := List.nodup_cons.mp hl
    have hsub : ∀ n ∈ l, n ∈ m.erase a := by
      intro n hn
      have hne : n ≠ a := by intro e; subst e; exact hnd.1 hn
      exact (List.mem_erase_of_ne hne).mpr (h n (List.mem_cons_of_mem _ hn))
    have := ih hnd.2 hsub
    have hl := List.length_erase_of_mem ha
    have : 0 < m.length := List.length_pos_of_mem ha
    simp only [List.length_cons]
    omega

theorem gpass_eq_of_fix {items idx} (heq : (gpass items idx).length = idx.length) : gpass items idx = idx := by
  have hfix := gfoldl_fix (sub := items) (idx := idx) heq
  clear heq
  unfold gpass
  generalize items = sub at hfix
  induction sub with
  | nil => rfl
  | cons a rest ih2 =>
    simp only [List.foldl_cons]
    rw [hfix a List.mem_cons_self]
    exact ih2 (fun it hit => hfix it (List.mem_cons_of_mem _ hit))

/-- the loop stops at a closed set within `items.length + 1` passes -/
theorem gloop_closed {items} (fuel : Nat) (idx)
    (h1 : ∀ n ∈ idx, n ∈ gnames items) (h2 : idx.Nodup)
    (hf : items.length < idx.length + fuel) : GClosed items (gloop fuel items idx) := by
  induction fuel generalizing idx with
  | zero =>
    have := nodup_sub_length h2 h1
    simp [gnames] at this
    omega
  | succ f ih =>
    simp only [gloop]
    have hinv := gfoldl_inv (items := items) items (fun _ h => h) idx h1 h2
    split
    · rename_i heq
      have hc := closed_of_gpass_fix heq
      rw [gpass_eq_of_fix heq]; exact hc
    · rename_i hne
      have hge := gfoldl_length_ge items idx
      exact ih _ hinv.1 hinv.2 (by unfold gpass at *; omega)

/-- more fuel than `items.length + 1` changes nothing: the loop has already stopped -/
theorem gloop_stable {items} (fuel : Nat) (idx) (hc : (gpass items idx).length = idx.length) :
    gloop (fuel + 1) items idx = idx := by
  simp only [gloop, hc, if_true]
  exact gpass_eq_of_fix hc

theorem genericIndexOf_complete (items) {n} (h : Reach items n) : n ∈ genericIndexOf items :=
  mem_of_reach (gloop_closed _ _ (by intro n hn; cases hn) List.nodup_nil (by simp)) h

theorem genericIndexOf_closed (items) : GClosed items (genericIndexOf items) :=
  gloop_closed _ _ (by intro n hn; cases hn) List.nodup_nil (by simp)

end Fx
