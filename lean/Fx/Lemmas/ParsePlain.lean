/-
  Fx.Lemmas.ParsePlain — which declarations keep the constructors of `src/ast` away from their panics (findings K6.a/b/c/f):
  a decidable predicate on the concrete syntax, and the proof that it suffices.
-/
import Fx.Lemmas.ParseAst
namespace Fx.Parse
open Fx.Peg

/-- the name is not a spelling `BasicType::from` turns into a built-in type (`bool`, `uint32_t`, `u32`, …) -/
def nameIsIdent (n : List Char) : Bool :=
  match nameTy n with
  | .ident _ => true
  | _ => false

theorem nameIsIdent_iff {n : List Char} (h : nameIsIdent n = true) : ∃ s, nameTy n = .ident s := by
  simp only [nameIsIdent] at h
  cases hn : nameTy n <;> simp [hn] at h
  exact ⟨_, rfl⟩

/-- a struct field `StructField::new` accepts: an ordinary name, and not both `*` and an array suffix (K6.b, K6.f) -/
def Field.plainStruct (f : Field) : Bool := nameIsIdent f.name && !(f.star.isSome && f.arr.isSome)

/-- a union arm `UnionCase::new` accepts: `type name;` with an ordinary name (K6.a) -/
def Field.plainArm (f : Field) : Bool := nameIsIdent f.name && f.star.isNone && f.arr.isNone

/-- an enum member value `VariantValue::from` accepts: not a hex literal, or one below 2^31 (K6.c) -/
def VariantD.plain (v : VariantD) : Bool := (VariantValue.ofStr (nameTy v.val).asStr).isOk

def Body.plain : Body → Bool
  | .void _ => true
  | .field f => f.plainArm

def Arm.plain : Arm → Bool
  | .case _ _ _ _ none => true
  | .case _ _ _ _ (some b) => b.plain
  | .dflt _ _ b => b.plain

def Decl.plain : Decl → Bool
  | .const _ => true
  | .typedef _ => true
  | .enum d => d.first.plain && d.more.all (fun m => m.2.1.plain)
  | .struct d => d.fields.all (fun fl => fl.1.plainStruct)
  | .union d => d.arms.all (fun al => al.1.plain)

/-- **no declaration uses one of the constructs recorded as K6.a, K6.b, K6.c, K6.f** -/
def Spec.plain (s : Spec) : Bool := s.decls.all (fun dl => dl.1.plain)

theorem mapOut_isOk {α β} (f : α → Out β) (l : List α) (h : ∀ x ∈ l, (f x).isOk = true) : (mapOut f l).isOk = true := by
  induction l with
  | nil => rfl
  | cons x xs ih =>
    have hx := h x (by simp)
    have hxs := ih (fun y hy => h y (by simp [hy]))
    simp only [mapOut]
    cases hfx : f x with
    | panicAt a b => rw [hfx] at hx; cases hx
    | ok b =>
      cases hm : mapOut f xs with
      | panicAt a b => rw [hm] at hxs; cases hxs
      | ok bs => rfl

theorem isOk_iff {α} {o : Out α} (h : o.isOk = true) : ∃ a, o = .ok a := by
  cases o with
  | ok a => exact ⟨a, rfl⟩
  | panicAt f m => cases h

theorem arr_node_cases (a : Arr) : (∃ s, a.node = .arrayVariable s) ∨ (∃ s, a.node = .arrayFixed s) := by
  cases a with
  | var l1 len => cases len with
    | none => exact .inl ⟨_, rfl⟩
    | some nl' => obtain ⟨n, l2⟩ := nl'; exact .inl ⟨_, rfl⟩
  | fixed l1 n l2 => exact .inr ⟨_, rfl⟩

theorem tyref_node (t : TyRef) : ∃ b, t.node = .type b := by cases t <;> exact ⟨_, rfl⟩

theorem structField_ok (f : Field) (h : f.plainStruct = true) : (StructField.new (.structDataField f.nodes)).isOk = true := by
  simp only [Field.plainStruct, Bool.and_eq_true, Bool.not_eq_true', Bool.and_eq_false_iff] at h
  obtain ⟨s, hs⟩ := nameIsIdent_iff h.1
  obtain ⟨b, hb⟩ := tyref_node f.ty
  simp only [Field.nodes, Field.nameNode, hb]
  cases hst : f.star with
  | none =>
    cases harr : f.arr with
    | none => simp [arrNodes, StructField.new, hs, Out.isOk]
    | some al =>
      rcases arr_node_cases al.1 with ⟨x, hx⟩ | ⟨x, hx⟩ <;> simp [arrNodes, StructField.new, hs, hx, Out.isOk]
  | some ls =>
    cases harr : f.arr with
    | none => simp [arrNodes, StructField.new, hs, Out.isOk]
    | some al => rcases h.2 with h' | h' <;> simp [hst, harr] at h'

theorem unionCase_ok (cv : List String) (f : Field) (h : f.plainArm = true) : (UnionCase.new cv f.nodes).isOk = true := by
  simp only [Field.plainArm, Bool.and_eq_true, Option.isNone_iff_eq_none] at h
  obtain ⟨s, hs⟩ := nameIsIdent_iff h.1.1
  obtain ⟨b, hb⟩ := tyref_node f.ty
  simp [Field.nodes, Field.nameNode, hb, h.1.2, h.2, arrNodes, hs, UnionCase.new, Out.isOk]

theorem typedef_ok (f : Field) (hst : f.star = none) : (Typedef.new f.nodes).isOk = true := by
  obtain ⟨b, hb⟩ := tyref_node f.ty
  simp only [Field.nodes, Field.nameNode, hb, hst]
  cases harr : f.arr with
  | none => simp [arrNodes, Typedef.new, Out.isOk]
  | some al =>
    rcases arr_node_cases al.1 with ⟨x, hx⟩ | ⟨x, hx⟩
    · simp only [arrNodes, hx, Typedef.new]
      split
      · split <;> rfl
      · rfl
    · simp [arrNodes, hx, Typedef.new, Out.isOk]

theorem variant_ok (v : VariantD) (h : v.plain = true) : (Variant.new v.node).isOk = true := by
  simp only [VariantD.plain] at h
  obtain ⟨x, hx⟩ := isOk_iff h
  simp [VariantD.node, Variant.new, Node.identStr, hx, Out.isOk]

theorem caseStmt_body_ok (cv : List String) (b : Body) (h : b.plain = true) (rest : List Node) :
    (CaseStmt.parse cv (b.node :: rest)).isOk = true := by
  cases b with
  | void l => simp [Body.node, CaseStmt.parse, Out.isOk]
  | field f =>
    obtain ⟨c, hc⟩ := isOk_iff (unionCase_ok cv f h)
    simp [Body.node, CaseStmt.parse, hc, Out.isOk]

theorem step_ok (acc : UAcc) (a : Arm) (h : a.plain = true) : (Union.step acc a.node).isOk = true := by
  cases a with
  | case la lab lb lc body =>
    cases body with
    | none => simp [Arm.node, Lit.node, Union.step, CaseStmt.parse, Out.isOk]
    | some b =>
      simp only [Arm.node, Lit.node, Union.step, CaseStmt.parse]
      cases b with
      | void l => simp [Body.node, Out.isOk]
      | field f =>
        obtain ⟨c, hc⟩ := isOk_iff (unionCase_ok (acc.pending ++ [(nameTy lab.text).asStr]) f h)
        simp [Body.node, hc, Out.isOk]
  | dflt la lb body =>
    obtain ⟨st, hst⟩ := isOk_iff (caseStmt_body_ok (acc.pending ++ ["default"]) body h [])
    simp only [Arm.node, Union.step, hst, Out.bind_ok]
    cases st <;> rfl

theorem loop_ok : ∀ (arms : List (Arm × Layout)) (acc : UAcc), (∀ al ∈ arms, al.1.plain = true) →
    (Union.loop acc (arms.map (fun al => al.1.node))).isOk = true := by
  intro arms
  induction arms with
  | nil => intro acc _; rfl
  | cons al als ih =>
    intro acc h
    obtain ⟨acc', hacc⟩ := isOk_iff (step_ok acc al.1 (h al (by simp)))
    simp only [List.map_cons, Union.loop, hacc, Out.bind_ok]
    exact ih acc' (fun x hx => h x (by simp [hx]))

/-- a node `itemOf` turns into an item (or skips) without panicking -/
def ItemNode (n : Node) : Prop := (itemOf n).isOk = true

theorem decl_node_ok (d : Decl) (hok : d.ok = true) (h : d.plain = true) : ∃ n, d.node = .ok n ∧ ItemNode n := by
  cases d with
  | const d => exact ⟨_, rfl, by simp [ItemNode, itemOf, Node.identStr, Out.isOk]⟩
  | typedef d =>
    simp only [Decl.ok, TypedefD.ok, Bool.and_eq_true, Option.isNone_iff_eq_none] at hok
    obtain ⟨t, ht⟩ := isOk_iff (typedef_ok d.f hok.2)
    exact ⟨.typedef t, by simp [Decl.node, TypedefD.node, ht], by simp [ItemNode, itemOf, Out.isOk]⟩
  | enum d =>
    simp only [Decl.plain, Bool.and_eq_true, List.all_eq_true] at h
    have hm : (mapOut Variant.new (d.first.node :: d.more.map (fun m => m.2.1.node))).isOk = true := by
      refine mapOut_isOk _ _ (fun x hx => ?_)
      rcases List.mem_cons.mp hx with rfl | hx
      · exact variant_ok d.first h.1
      · obtain ⟨m, hm, rfl⟩ := List.mem_map.mp hx
        exact variant_ok m.2.1 (h.2 m hm)
    obtain ⟨vs, hvs⟩ := isOk_iff hm
    exact ⟨.enum ⟨(nameTy d.name).asStr, vs⟩, by simp [Decl.node, EnumD.node, Enum.new, Node.identStr, hvs],
      by simp [ItemNode, itemOf, Out.isOk]⟩
  | struct d =>
    simp only [Decl.plain, List.all_eq_true] at h
    have hm : (mapOut StructField.new (d.fields.map (fun fl => Node.structDataField fl.1.nodes))).isOk = true := by
      refine mapOut_isOk _ _ (fun x hx => ?_)
      obtain ⟨fl, hfl, rfl⟩ := List.mem_map.mp hx
      exact structField_ok fl.1 (h fl hfl)
    obtain ⟨fs, hfs⟩ := isOk_iff hm
    exact ⟨.struct ⟨(nameTy d.name).asStr, fs⟩, by simp [Decl.node, StructD.node, Struct.new, Node.identStr, hfs],
      by simp [ItemNode, itemOf, Out.isOk]⟩
  | union d =>
    simp only [Decl.plain, List.all_eq_true] at h
    obtain ⟨acc, hacc⟩ := isOk_iff (loop_ok d.arms {} h)
    obtain ⟨b, hb⟩ := tyref_node d.ty
    exact ⟨_, by simp [Decl.node, UnionD.node, Union.new, Node.identStr, hb, hacc]; rfl, by simp [ItemNode, itemOf, Out.isOk]⟩

theorem itemsOf_ok : ∀ (ns : List Node), (∀ n ∈ ns, ItemNode n) → (itemsOf ns).isOk = true := by
  intro ns
  induction ns with
  | nil => intro _; rfl
  | cons n ns ih =>
    intro h
    obtain ⟨i, hi⟩ := isOk_iff (h n (by simp))
    obtain ⟨is, his⟩ := isOk_iff (ih (fun x hx => h x (by simp [hx])))
    simp only [itemsOf, hi, his, Out.bind_ok]
    rfl

theorem constInsertAll_cases : ∀ (es m : List (String × ConstantType)),
    (∃ r, constInsertAll es m = .ok r) ∨ constInsertAll es m = .panicAt "constants.rs" "duplicate case keys" := by
  intro es
  induction es with
  | nil => intro m; exact .inl ⟨m, rfl⟩
  | cons e es ih =>
    intro m
    obtain ⟨k, v⟩ := e
    simp only [constInsertAll]
    split
    · exact .inr rfl
    · exact ih _

/-- **plain declarations reach no constructor panic**: the front end answers `Ok`, or stops at the duplicate-name check of
    `ConstantIndex::new` (finding K6.d) -/
theorem plain_front (s : Spec) (hok : s.ok = true) (hp : s.plain = true) :
    (∃ a, Ast.ofPairs [s.root] = .ok a) ∨ Ast.ofPairs [s.root] = .panicAt "constants.rs" "duplicate case keys" := by
  simp only [Spec.plain, List.all_eq_true] at hp
  have hok' := hok
  simp only [Spec.ok, Bool.and_eq_true, List.all_eq_true] at hok'
  have hnodes : ∀ (l : List (Decl × Layout)), (∀ dl ∈ l, dl.1.ok = true ∧ dl.1.plain = true) →
      ∃ ns, mapOut (fun dl : Decl × Layout => dl.1.node) l = .ok ns ∧ ∀ n ∈ ns, ItemNode n := by
    intro l
    induction l with
    | nil => intro _; exact ⟨[], rfl, fun _ h => by simp at h⟩
    | cons dl dls ih =>
      intro h
      obtain ⟨n, hn, hin⟩ := decl_node_ok dl.1 (h dl (by simp)).1 (h dl (by simp)).2
      obtain ⟨ns, hns, hall⟩ := ih (fun x hx => h x (by simp [hx]))
      refine ⟨n :: ns, by simp [mapOut, hn, hns], ?_⟩
      intro x hx
      rcases List.mem_cons.mp hx with rfl | hx
      · exact hin
      · exact hall x hx
  obtain ⟨ns, hns, hall⟩ := hnodes s.decls (fun dl hdl => ⟨(hok'.2 dl hdl).1, hp dl hdl⟩)
  have hitems : (itemsOf (ns ++ [.eof])).isOk = true := by
    refine itemsOf_ok _ (fun n hn => ?_)
    rcases List.mem_append.mp hn with h | h
    · exact hall n h
    · simp at h; subst h; simp [ItemNode, itemOf, Out.isOk]
  obtain ⟨items, hit⟩ := isOk_iff hitems
  simp only [Ast.ofPairs, walk_root s hok, hns, Out.bind_ok, hit, Ast.ofItems, ConstantIndex.new]
  rcases constInsertAll_cases (constEntries items) [] with ⟨r, hr⟩ | hr
  · exact .inl ⟨_, by rw [hr]; rfl⟩
  · exact .inr (by rw [hr]; rfl)

end Fx.Parse
