/-
  Fx.Lemmas.Terminates — the decoders terminate.

  The evaluators take a recursion budget; "terminates" means: for every buffer there is a budget from which on the answer is
  never `outOfFuel` (and by `Fx.Lemmas.Fuel` it is then the same answer for every larger budget).

  What can recurse without consuming input is a reference to another decoder that is not behind `Option<Box<_>>` or `Vec<_>`
  (those two read a 4-byte marker / count first).  A specification whose types can be ranked so that every such direct
  reference goes to a lower rank is exactly one whose Rust types have finite size; rustc rejects the others.
-/
import Fx.Eval
import Fx.Lemmas.Runtime
import Fx.Lemmas.Advance
import Fx.Finite
namespace Fx

/-! ### the readers always answer -/

theorem bind_noof {α β} {r : Res α} {k : α → Cur → Res β} (h1 : r ≠ .outOfFuel)
    (h2 : ∀ v c, r = .ok v c → k v c ≠ .outOfFuel) : r.bind k ≠ .outOfFuel := by
  cases r with
  | ok v c => exact h2 v c rfl
  | err e l => intro h; cases h
  | panic s => intro h; cases h
  | abort => intro h; cases h
  | outOfFuel => exact absurd rfl h1

theorem map_noof {α β} {r : Res α} {g : α → β} (h1 : r ≠ .outOfFuel) : r.map g ≠ .outOfFuel :=
  bind_noof h1 (fun _ _ _ h => by cases h)

theorem readU32_noof (c : Cur) : readU32 c ≠ .outOfFuel := by
  unfold readU32 getU32P
  split
  · intro h; cases h
  · split <;> (intro h; cases h)

theorem readU64_noof (c : Cur) : readU64 c ≠ .outOfFuel := by
  unfold readU64 getU64P
  split
  · intro h; cases h
  · split <;> (intro h; cases h)

theorem readI32_noof (c : Cur) : readI32 c ≠ .outOfFuel := map_noof (readU32_noof c)
theorem readI64_noof (c : Cur) : readI64 c ≠ .outOfFuel := map_noof (readU64_noof c)

theorem readBool_noof (c : Cur) : readBool c ≠ .outOfFuel := by
  refine bind_noof (readI32_noof c) (fun i c1 _ => ?_)
  split
  · intro h; cases h
  · split <;> (intro h; cases h)

theorem readBytes_noof (n : Nat) (c : Cur) : readBytes n c ≠ .outOfFuel := by
  by_cases h : c.remaining < n + padLen n
  · rw [readBytes_short n c h]; intro h; cases h
  · rw [readBytes_enough n c (by omega)]; intro h; cases h

theorem readVariableBytes_noof (m : Option Nat) (c : Cur) : readVariableBytes m c ≠ .outOfFuel := by
  refine bind_noof (readU32_noof c) (fun n c1 _ => ?_)
  split
  · intro h; cases h
  · exact readBytes_noof n c1

theorem readString_noof (m : Option Nat) (c : Cur) : readString m c ≠ .outOfFuel := by
  refine bind_noof (readVariableBytes_noof m c) (fun b c1 _ => ?_)
  simp only
  split <;> (intro h; cases h)

theorem readPrim_noof (pr : Prim) (c : Cur) : readPrim pr c ≠ .outOfFuel := by
  cases pr <;> simp only [readPrim]
  · exact map_noof (readU32_noof c)
  · exact map_noof (readU64_noof c)
  · exact map_noof (readI32_noof c)
  · exact map_noof (readI64_noof c)
  · exact map_noof (readU32_noof c)
  · exact map_noof (readU64_noof c)
  · exact map_noof (readBool_noof c)

theorem arrLoop_noof (dec : Cur → Res Val) (ws : Val → Nat) (M : Nat)
    (hd : ∀ c, c.remaining ≤ M → dec c ≠ .outOfFuel) :
    ∀ (k : Nat) (c : Cur) (sum : Nat) (acc : Vals), c.remaining ≤ M → arrLoop dec ws k c sum acc ≠ .outOfFuel := by
  intro k
  induction k with
  | zero => intro c sum acc _ h; simp [arrLoop] at h
  | succ k ih =>
    intro c sum acc hc
    simp only [arrLoop]
    cases hr : dec c with
    | ok t ct =>
      simp only
      split
      · intro h; cases h
      · exact ih _ _ _ (by simp [Cur.remaining] at hc ⊢; omega)
    | err e l => intro h; cases h
    | panic s => intro h; cases h
    | abort => intro h; cases h
    | outOfFuel => exact absurd hr (hd c hc)

theorem readVariableArray_noof (dec : Cur → Res Val) (ws : Val → Nat) (m : Option Nat) (N : Nat)
    (hd : ∀ c, c.remaining + 4 ≤ N → dec c ≠ .outOfFuel) (c : Cur) (hc : c.remaining ≤ N) :
    readVariableArray dec ws m c ≠ .outOfFuel := by
  refine bind_noof (readU32_noof c) (fun n c1 h1 => ?_)
  obtain ⟨e, l4, _, _⟩ := readU32_ok h1
  split
  · intro h; cases h
  · refine bind_noof ?_ (fun os c3 _ => ?_)
    · refine arrLoop_noof dec ws (c.remaining - 4) (fun c' hc' => hd c' (by omega)) n _ 0 .nil ?_
      subst e
      simp [Cur.addLog, Cur.remaining] at *
    · simp only
      split
      · intro h; cases h
      · simp only [advanceP]
        split <;> (intro h; cases h)

/-! ### one level of the induction -/

/-- `ev` answers on every buffer of at most `N` bytes, from budget `F` on -/
def Tot {α} (N F : Nat) (ev : Nat → Cur → Res α) : Prop :=
  ∀ c, c.remaining ≤ N → ∀ f, F ≤ f → ev f c ≠ .outOfFuel

theorem Tot.mono {α} {N F F' : Nat} {ev : Nat → Cur → Res α} (h : Tot N F ev) (hF : F ≤ F') : Tot N F' ev :=
  fun c hc f hf => h c hc f (by omega)

theorem arms_uniform (P : FieldDec → Nat → Prop) (hmono : ∀ fd F F', P fd F → F ≤ F' → P fd F') :
    ∀ (arms : List Arm), (∀ arm ∈ arms, ∀ fd, arm.payload = some fd → ∃ F, P fd F) →
      ∃ F, ∀ arm ∈ arms, ∀ fd, arm.payload = some fd → P fd F := by
  intro arms
  induction arms with
  | nil => intro _; exact ⟨0, fun _ h => by cases h⟩
  | cons x xs ih =>
    intro harms
    obtain ⟨F1, h1⟩ := ih (fun arm harm => harms arm (List.mem_cons_of_mem _ harm))
    cases hx : x.payload with
    | none =>
      refine ⟨F1, fun arm harm fd hpl => ?_⟩
      rcases List.mem_cons.mp harm with rfl | h
      · rw [hx] at hpl; cases hpl
      · exact h1 arm h fd hpl
    | some fd0 =>
      obtain ⟨F0, h0⟩ := harms x List.mem_cons_self fd0 hx
      refine ⟨max F0 F1, fun arm harm fd hpl => ?_⟩
      rcases List.mem_cons.mp harm with rfl | h
      · rw [hx] at hpl; cases hpl
        exact hmono _ _ _ h0 (Nat.le_max_left _ _)
      · exact hmono _ _ _ (h1 arm h fd hpl) (Nat.le_max_right _ _)

theorem selectArm_mem (a : Ast) (d : Val) : ∀ (arms : List Arm) (arm : Arm), selectArm a d arms = some arm → arm ∈ arms := by
  intro arms
  induction arms with
  | nil => intro arm h; simp [selectArm] at h
  | cons x xs ih =>
    intro arm h
    simp only [selectArm] at h
    split at h
    · cases h; exact List.mem_cons_self
    · exact List.mem_cons_of_mem _ (ih arm h)

section level
variable (a : Ast) (p : Plans) (rk : String → Nat) (N G r : Nat)
variable (Hd : ∀ m, rk m < r → Tot N G (fun f => evalImpl a p f m))
variable (Hg : ∀ m c, c.remaining + 4 ≤ N → ∀ f, G ≤ f → evalImpl a p f m c ≠ .outOfFuel)
include Hd Hg

theorem basic_tot (b : BasicDec) (hb : ∀ m ∈ b.direct, rk m < r) : Tot N (G + 1) (fun f => evalBasic a p f b) := by
  intro c hc f hf
  cases f with
  | zero => omega
  | succ f' =>
    cases b with
    | prim pr => simp only [evalBasic]; exact readPrim_noof pr c
    | string => simp only [evalBasic]; exact readString_noof none c
    | «opaque» => simp only [evalBasic]; exact readVariableBytes_noof none c
    | tryFrom n =>
      simp only [evalBasic]
      exact Hd n (hb n (by simp [BasicDec.direct])) c hc f' (by omega)

theorem repeat_tot (b : BasicDec) (hb : ∀ m ∈ b.direct, rk m < r) :
    ∀ k, Tot N (G + 1 + k + 1) (fun f => evalRepeat a p f k b) := by
  intro k
  induction k with
  | zero =>
    intro c hc f hf
    cases f with
    | zero => omega
    | succ f' => simp [evalRepeat]
  | succ k ih =>
    intro c hc f hf
    cases f with
    | zero => omega
    | succ f' =>
      simp only [evalRepeat]
      refine bind_noof (basic_tot a p rk N G r Hd Hg b hb c hc f' (by omega)) (fun v c1 h1 => ?_)
      have ad := (eval_adv a p f').2.1 b c v c1 h1
      refine bind_noof (ih c1 (Nat.le_trans ad.remaining_le hc) f' (by omega)) (fun vs c2 _ => ?_)
      intro h; cases h

theorem field_tot (fd : FieldDec) (hfd : ∀ m ∈ fd.direct, rk m < r) : ∃ F, Tot N F (fun f => evalField a p f fd) := by
  cases fd with
  | one b =>
    refine ⟨G + 2, fun c hc f hf => ?_⟩
    cases f with
    | zero => omega
    | succ f' =>
      simp only [evalField]
      exact basic_tot a p rk N G r Hd Hg b hfd c hc f' (by omega)
  | fixedBytes n =>
    refine ⟨1, fun c hc f hf => ?_⟩
    cases f with
    | zero => omega
    | succ f' => simp only [evalField]; exact readBytes_noof n c
  | fixedArr k b =>
    refine ⟨G + 1 + k + 2, fun c hc f hf => ?_⟩
    cases f with
    | zero => omega
    | succ f' =>
      simp only [evalField]
      refine bind_noof (repeat_tot a p rk N G r Hd Hg b hfd k c hc f' (by omega)) (fun vs c1 _ => ?_)
      intro h; cases h
  | varBytes m =>
    refine ⟨1, fun c hc f hf => ?_⟩
    cases f with
    | zero => omega
    | succ f' => simp only [evalField]; exact readVariableBytes_noof m c
  | varString m =>
    refine ⟨1, fun c hc f hf => ?_⟩
    cases f with
    | zero => omega
    | succ f' => simp only [evalField]; exact readString_noof m c
  | varArr ty g m =>
    refine ⟨G + 1, fun c hc f hf => ?_⟩
    cases f with
    | zero => omega
    | succ f' =>
      simp only [evalField]
      exact readVariableArray_noof _ _ m N (fun c' hc' => Hg ty c' hc' f' (by omega)) c hc

theorem fields_tot : ∀ (fs : List StructFieldDec), (∀ fld ∈ fs, ∀ m ∈ fld.direct, rk m < r) →
    ∃ F, Tot N F (fun f => evalFields a p f fs) := by
  intro fs
  induction fs with
  | nil =>
    intro _
    refine ⟨1, fun c hc f hf => ?_⟩
    cases f with
    | zero => omega
    | succ f' => simp [evalFields]
  | cons fld rest ih =>
    intro hfs
    obtain ⟨Fr, hr⟩ := ih (fun x hx => hfs x (List.mem_cons_of_mem _ hx))
    cases fld with
    | plain nm fd =>
      obtain ⟨Ff, hf1⟩ := field_tot a p rk N G r Hd Hg fd (by simpa [StructFieldDec.direct] using hfs (.plain nm fd) List.mem_cons_self)
      refine ⟨max Ff Fr + 1, fun c hc f hf => ?_⟩
      cases f with
      | zero => omega
      | succ f' =>
        simp only [evalFields]
        refine bind_noof (hf1 c hc f' (by omega)) (fun v c1 h1 => ?_)
        have ad := (eval_adv a p f').2.2.1 fd c v c1 h1
        refine bind_noof (hr c1 (Nat.le_trans ad.remaining_le hc) f' (by omega)) (fun vs c2 _ => ?_)
        intro h; cases h
    | optional nm ty =>
      refine ⟨max G Fr + 1, fun c hc f hf => ?_⟩
      cases f with
      | zero => omega
      | succ f' =>
        simp only [evalFields]
        have hopt : ((readU32 c).bind fun m c1 =>
            if m = 0 then Res.ok Val.none c1
            else if m = 1 then (evalImpl a p f' ty c1).bind fun v c2 => Res.ok (Val.some v) (c2.addLog .box)
            else Res.err (.unknownOptionVariant m) c1.log) ≠ .outOfFuel := by
          refine bind_noof (readU32_noof c) (fun m c1 h1 => ?_)
          obtain ⟨e, l4, _, _⟩ := readU32_ok h1
          split
          · intro h; cases h
          · split
            · refine bind_noof (Hg ty c1 (by subst e; simp [Cur.remaining] at *; omega) f' (by omega)) (fun v c2 _ => ?_)
              intro h; cases h
            · intro h; cases h
        refine bind_noof hopt (fun v c1 h1 => ?_)
        have hle : c1.remaining ≤ c.remaining := by
          obtain ⟨m, cm, h5, h6⟩ := Res.bind_eq_ok h1
          have a1 := (readU32_adv h5).remaining_le
          split at h6
          · cases h6; exact a1
          · split at h6
            · obtain ⟨v3, c3, h7, h8⟩ := Res.bind_eq_ok h6
              cases h8
              have a2 := ((eval_adv a p f').1 ty cm v3 c3 h7).remaining_le
              simp only [Cur.addLog, Cur.remaining] at *
              omega
            · cases h6
        refine bind_noof (hr c1 (Nat.le_trans hle hc) f' (by omega)) (fun vs c2 _ => ?_)
        intro h; cases h

/-- a declaration whose direct references all rank below `r` answers at this level -/
theorem impl_tot (n : String) (hn : ∀ i, p.findImpl n = some i → ∀ m ∈ i.body.direct, rk m < r) :
    ∃ F, Tot N F (fun f => evalImpl a p f n) := by
  cases hfi : p.findImpl n with
  | none =>
    refine ⟨1, fun c hc f hf => ?_⟩
    cases f with
    | zero => omega
    | succ f' => simp [evalImpl, hfi]
  | some i =>
    have hdir := hn i hfi
    cases hb : i.body with
    | struct fs =>
      obtain ⟨F, hF⟩ := fields_tot a p rk N G r Hd Hg fs (fun fld hfld m hm => hdir m (by
        rw [hb]; simp only [ImplBody.direct, List.mem_flatMap]; exact ⟨fld, hfld, hm⟩))
      refine ⟨F + 1, fun c hc f hf => ?_⟩
      cases f with
      | zero => omega
      | succ f' =>
        simp only [evalImpl, hfi, hb]
        refine bind_noof (hF c hc f' (by omega)) (fun vs c1 _ => ?_)
        intro h; cases h
    | union u =>
      have hdisc : ∀ m ∈ u.disc.direct, rk m < r := fun m hm => hdir m (by
        rw [hb]; simp only [ImplBody.direct, List.mem_append]; exact Or.inl (Or.inl hm))
      have harms : ∀ arm ∈ u.arms, ∀ fd, arm.payload = some fd → ∃ F, Tot N F (fun f => evalField a p f fd) := by
        intro arm harm fd hpl
        refine field_tot a p rk N G r Hd Hg fd (fun m hm => hdir m ?_)
        rw [hb]; simp only [ImplBody.direct, List.mem_append, List.mem_flatMap]
        exact Or.inl (Or.inr ⟨arm, harm, by simp [Arm.direct, hpl, hm]⟩)
      have harmsU := arms_uniform (fun fd F => Tot N F (fun f => evalField a p f fd)) (fun fd F F' h hF => h.mono hF) u.arms harms
      obtain ⟨Fa, hFa⟩ := harmsU
      have htail : ∃ F, ∀ fd, u.tail = .defaultData fd → Tot N F (fun f => evalField a p f fd) := by
        cases ht : u.tail with
        | defaultData fd =>
          obtain ⟨F, hF⟩ := field_tot a p rk N G r Hd Hg fd (fun m hm => hdir m (by
            rw [hb]; simp only [ImplBody.direct, List.mem_append]; exact Or.inr (by simp [Tail.direct, ht, hm])))
          exact ⟨F, fun fd' h => by cases h; exact hF⟩
        | errUnknown => exact ⟨0, fun fd h => by cases h⟩
        | none => exact ⟨0, fun fd h => by cases h⟩
      obtain ⟨Ft, hFt⟩ := htail
      refine ⟨max (G + 1) (max Fa Ft) + 1, fun c hc f hf => ?_⟩
      cases f with
      | zero => omega
      | succ f' =>
        simp only [evalImpl, hfi, hb]
        refine bind_noof (basic_tot a p rk N G r Hd Hg u.disc hdisc c hc f' (by omega)) (fun d c1 h1 => ?_)
        have hc1 : c1.remaining ≤ N := Nat.le_trans ((eval_adv a p f').2.1 u.disc c d c1 h1).remaining_le hc
        cases hsel : selectArm a d u.arms with
        | some arm =>
          have harm : arm ∈ u.arms := selectArm_mem a d u.arms arm hsel
          simp only
          cases hpl : arm.payload with
          | some fd =>
            simp only
            refine bind_noof (hFa arm harm fd hpl c1 hc1 f' (by omega)) (fun v c2 _ => ?_)
            intro h; cases h
          | none => intro h; cases h
        | none =>
          simp only
          cases ht : u.tail with
          | defaultData fd =>
            simp only
            refine bind_noof (hFt fd ht c1 hc1 f' (by omega)) (fun v c2 _ => ?_)
            intro h; cases h
          | errUnknown => intro h; cases h
          | none => intro h; cases h
    | enum arms =>
      refine ⟨1, fun c hc f hf => ?_⟩
      cases f with
      | zero => omega
      | succ f' =>
        simp only [evalImpl, hfi, hb]
        refine bind_noof (readI32_noof c) (fun i c1 _ => ?_)
        split <;> (intro h; cases h)
    | typedef fd =>
      obtain ⟨F, hF⟩ := field_tot a p rk N G r Hd Hg fd (fun m hm => hdir m (by rw [hb]; exact hm))
      refine ⟨F + 1, fun c hc f hf => ?_⟩
      cases f with
      | zero => omega
      | succ f' =>
        simp only [evalImpl, hfi, hb]
        refine bind_noof (hF c hc f' (by omega)) (fun v c1 _ => ?_)
        intro h; cases h

end level

/-! ### assembling the levels -/

theorem exists_uniform_list {α} (P : α → Nat → Prop) (hmono : ∀ x F F', P x F → F ≤ F' → P x F') :
    ∀ (l : List α), (∀ x ∈ l, ∃ F, P x F) → ∃ F, ∀ x ∈ l, P x F := by
  intro l
  induction l with
  | nil => intro _; exact ⟨0, fun _ h => by cases h⟩
  | cons x xs ih =>
    intro h
    obtain ⟨F1, h1⟩ := ih (fun y hy => h y (List.mem_cons_of_mem _ hy))
    obtain ⟨F0, h0⟩ := h x List.mem_cons_self
    refine ⟨max F0 F1, fun y hy => ?_⟩
    rcases List.mem_cons.mp hy with rfl | hy'
    · exact hmono _ _ _ h0 (Nat.le_max_left _ _)
    · exact hmono _ _ _ (h1 y hy') (Nat.le_max_right _ _)

theorem findImpl_some {p : Plans} {n : String} {i : Impl} (h : p.findImpl n = some i) : i ∈ p.impls ∧ i.name = n := by
  simp only [Plans.findImpl] at h
  exact ⟨List.mem_of_find?_eq_some h, by simpa using List.find?_some h⟩

/-- all names below rank `r` answer on buffers of at most `N` bytes, given that guarded references (`N - 4` bytes) do -/
theorem rank_level (a : Ast) (p : Plans) (rk : String → Nat) (hr : p.Ranked rk) (N G : Nat)
    (Hg : ∀ m c, c.remaining + 4 ≤ N → ∀ f, G ≤ f → evalImpl a p f m c ≠ .outOfFuel) :
    ∀ r, ∃ F, G ≤ F ∧ ∀ n, rk n < r → Tot N F (fun f => evalImpl a p f n) := by
  intro r
  induction r with
  | zero => exact ⟨G, Nat.le_refl _, fun n h => by omega⟩
  | succ r ih =>
    obtain ⟨Fr, hG, hFr⟩ := ih
    have Hg' : ∀ m c, c.remaining + 4 ≤ N → ∀ f, Fr ≤ f → evalImpl a p f m c ≠ .outOfFuel :=
      fun m c hc f hf => Hg m c hc f (by omega)
    have hone : ∀ i ∈ p.impls, ∃ F, (rk i.name < r + 1 → Tot N F (fun f => evalImpl a p f i.name)) := by
      intro i hi
      by_cases hrk : rk i.name < r + 1
      · obtain ⟨F, hF⟩ := impl_tot a p rk N Fr r hFr Hg' i.name (fun i' hfi m hm => by
          obtain ⟨hmem, hname⟩ := findImpl_some hfi
          have := hr i' hmem m hm
          rw [hname] at this
          omega)
        exact ⟨F, fun _ => hF⟩
      · exact ⟨0, fun h => absurd h hrk⟩
    obtain ⟨Fu, hFu⟩ := exists_uniform_list (fun (i : Impl) F => rk i.name < r + 1 → Tot N F (fun f => evalImpl a p f i.name))
      (fun i F F' h hF hrk => (h hrk).mono hF) p.impls hone
    refine ⟨max Fr (max 1 Fu), by omega, fun n hn => ?_⟩
    cases hfi : p.findImpl n with
    | none =>
      intro c hc f hf
      cases f with
      | zero => omega
      | succ f' => simp [evalImpl, hfi]
    | some i =>
      obtain ⟨hmem, hname⟩ := findImpl_some hfi
      have := hFu i hmem (by rw [hname]; exact hn)
      rw [hname] at this
      exact this.mono (by omega)

def rankBound (p : Plans) (rk : String → Nat) : Nat := (p.impls.map (fun i => rk i.name)).foldr max 0 + 1

theorem lt_rankBound (p : Plans) (rk : String → Nat) {i : Impl} (hi : i ∈ p.impls) : rk i.name < rankBound p rk := by
  unfold rankBound
  have : ∀ (l : List Impl), i ∈ l → rk i.name ≤ (l.map (fun i => rk i.name)).foldr max 0 := by
    intro l
    induction l with
    | nil => intro h; cases h
    | cons x xs ih =>
      intro h
      simp only [List.map_cons, List.foldr_cons]
      rcases List.mem_cons.mp h with rfl | h'
      · exact Nat.le_max_left _ _
      · exact Nat.le_trans (ih h') (Nat.le_max_right _ _)
  have := this p.impls hi
  omega

/-- **termination**: for every bound `N` on the buffer there is one budget from which every decoder answers on every buffer
    of at most `N` bytes -/
theorem eval_terminates (a : Ast) (p : Plans) (rk : String → Nat) (hr : p.Ranked rk) :
    ∀ N, ∃ F, ∀ n, Tot N F (fun f => evalImpl a p f n) := by
  intro N
  induction N using Nat.strongRecOn with
  | _ N ih =>
    have hG : ∃ G, ∀ m c, c.remaining + 4 ≤ N → ∀ f, G ≤ f → evalImpl a p f m c ≠ .outOfFuel := by
      by_cases h4 : 4 ≤ N
      · obtain ⟨F', hF'⟩ := ih (N - 4) (by omega)
        exact ⟨F', fun m c hc f hf => hF' m c (by omega) f hf⟩
      · exact ⟨0, fun m c hc => by omega⟩
    obtain ⟨G, Hg⟩ := hG
    obtain ⟨F, _, hF⟩ := rank_level a p rk hr N G Hg (rankBound p rk)
    refine ⟨max 1 F, fun n => ?_⟩
    cases hfi : p.findImpl n with
    | none =>
      intro c hc f hf
      cases f with
      | zero => omega
      | succ f' => simp [evalImpl, hfi]
    | some i =>
      obtain ⟨hmem, hname⟩ := findImpl_some hfi
      have := lt_rankBound p rk hmem
      rw [hname] at this
      exact (hF n this).mono (by omega)

/-! ### a computable ranking (evaluated by the driver for every specification) -/

theorem Plans.finite_ranked (p : Plans) (h : p.finite = true) : p.Ranked (p.rankOf (p.impls.length + 1)) := by
  intro i hi m hm
  simp only [Plans.finite, List.all_eq_true, decide_eq_true_eq] at h
  exact h i hi m hm

end Fx
