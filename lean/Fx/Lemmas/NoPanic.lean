/-
  Fx.Lemmas.NoPanic — no reader and no emitted decoder reaches a panic or abort outcome.
-/
import Fx.Eval
import Fx.Lemmas.Runtime
namespace Fx

theorem Res.bind_isBad {α β} {r : Res α} {f : α → Cur → Res β}
    (h1 : r.isBad = false) (h2 : ∀ a c, r = .ok a c → (f a c).isBad = false) : (r.bind f).isBad = false := by
  cases r with
  | ok a c => exact h2 a c rfl
  | err e l => rfl
  | panic s => cases h1
  | abort => cases h1
  | outOfFuel => rfl

theorem Res.map_isBad {α β} {r : Res α} {g : α → β} (h : r.isBad = false) : (r.map g).isBad = false :=
  Res.bind_isBad h (fun _ _ _ => rfl)

theorem readI32_ne_bad (c : Cur) : (readI32 c).isBad = false := Res.map_isBad (readU32_ne_bad c)
theorem readI64_ne_bad (c : Cur) : (readI64 c).isBad = false := Res.map_isBad (readU64_ne_bad c)

theorem readBool_ne_bad (c : Cur) : (readBool c).isBad = false := by
  unfold readBool
  apply Res.bind_isBad (readI32_ne_bad c)
  intro i c' _
  split
  · rfl
  · split <;> rfl

theorem readVariableBytes_ne_bad (m : Option Nat) (c : Cur) : (readVariableBytes m c).isBad = false := by
  unfold readVariableBytes
  apply Res.bind_isBad (readU32_ne_bad c)
  intro n c1 _
  split
  · rfl
  · exact readBytes_ne_bad n c1

theorem readString_ne_bad (m : Option Nat) (c : Cur) : (readString m c).isBad = false := by
  unfold readString
  apply Res.bind_isBad (readVariableBytes_ne_bad m c)
  intro b c1 _
  simp only
  split <;> rfl

theorem readPrim_ne_bad (p : Prim) (c : Cur) : (readPrim p c).isBad = false := by
  cases p <;> simp only [readPrim]
  · exact Res.map_isBad (readU32_ne_bad c)
  · exact Res.map_isBad (readU64_ne_bad c)
  · exact Res.map_isBad (readI32_ne_bad c)
  · exact Res.map_isBad (readI64_ne_bad c)
  · exact Res.map_isBad (readU32_ne_bad c)
  · exact Res.map_isBad (readU64_ne_bad c)
  · exact Res.map_isBad (readBool_ne_bad c)

theorem arrLoop_ne_bad (dec : Cur → Res Val) (ws : Val → Nat) (hd : ∀ c, (dec c).isBad = false) :
    ∀ (k : Nat) (c : Cur) (sum : Nat) (acc : Vals), (arrLoop dec ws k c sum acc).isBad = false := by
  intro k
  induction k with
  | zero => intro c sum acc; rfl
  | succ k ih =>
    intro c sum acc
    simp only [arrLoop]
    have := hd c
    split
    · split
      · rfl
      · exact ih _ _ _
    · rfl
    · rename_i s heq; rw [heq] at this; cases this
    · rename_i heq; rw [heq] at this; cases this
    · rfl

/-- `arrLoop` keeps `remaining` consistent: on success the cursor only moved forward -/
theorem readVariableArray_ne_bad (dec : Cur → Res Val) (ws : Val → Nat) (hd : ∀ c, (dec c).isBad = false)
    (m : Option Nat) (c : Cur) : (readVariableArray dec ws m c).isBad = false := by
  unfold readVariableArray
  apply Res.bind_isBad (readU32_ne_bad c)
  intro n c1 _
  split
  · rfl
  · apply Res.bind_isBad (arrLoop_ne_bad dec ws hd _ _ _ _)
    intro ⟨out, sum⟩ c3 _
    simp only
    split
    · rfl
    · rename_i hlt
      simp only [advanceP]
      have : ¬ c3.remaining < padLen sum := hlt
      simp [this]
      rfl

/-! ### well-formedness of plans that the evaluator relies on (decidable; proved of the emitters' output) -/

def BasicDec.resolved (p : Plans) : BasicDec → Bool
  | .tryFrom n => (p.findImpl n).isSome
  | _ => true

def FieldDec.resolved (p : Plans) : FieldDec → Bool
  | .one b => b.resolved p
  | .fixedArr _ b => b.resolved p
  | .varArr ty _ _ => (p.findImpl ty).isSome
  | _ => true

def StructFieldDec.resolved (p : Plans) : StructFieldDec → Bool
  | .plain _ d => d.resolved p
  | .optional _ ty => (p.findImpl ty).isSome

def Arm.resolved (p : Plans) (a : Arm) : Bool :=
  match a.payload with
  | some d => d.resolved p
  | none => true

def hasWild (arms : List Arm) : Bool := arms.any fun a => decide (a.pat = .wild)

def ImplBody.okFor (p : Plans) : ImplBody → Bool
  | .struct fs => fs.all (·.resolved p)
  | .union u =>
    u.disc.resolved p && u.arms.all (·.resolved p) &&
      (match u.tail with
       | .defaultData d => d.resolved p
       | .errUnknown => true
       | .none => hasWild u.arms)
  | .enum _ => true
  | .typedef d => d.resolved p

/-- every name a decoder calls has a decoder, and a union without a tail arm has a `_` arm -/
def Plans.Ok (p : Plans) : Bool := p.impls.all fun i => i.body.okFor p

theorem selectArm_of_wild (a : Ast) (s : Val) (arms : List Arm) (h : hasWild arms = true) :
    (selectArm a s arms).isSome = true := by
  induction arms with
  | nil => simp [hasWild] at h
  | cons arm rest ih =>
    simp only [selectArm]
    split
    · rfl
    · rename_i hn
      simp only [hasWild, List.any_cons, Bool.or_eq_true] at h
      rcases h with h | h
      · exfalso
        apply hn
        have : arm.pat = .wild := by simpa using h
        simp [patMatches, this]
      · exact ih h

theorem selectArm_mem {a : Ast} {s : Val} {arms : List Arm} {arm : Arm} (h : selectArm a s arms = some arm) :
    arm ∈ arms := by
  induction arms with
  | nil => simp [selectArm] at h
  | cons x rest ih =>
    simp only [selectArm] at h
    split at h
    · cases h; exact List.mem_cons_self
    · exact List.mem_cons_of_mem _ (ih h)

theorem Plans.findImpl_ok {p : Plans} (hp : p.Ok = true) {n : String} {i : Impl} (h : p.findImpl n = some i) :
    i.body.okFor p = true := by
  have hm : i ∈ p.impls := List.mem_of_find?_eq_some h
  exact (List.all_eq_true.mp hp) i hm

/-- the five mutual evaluators never reach `panic`/`abort`, for every fuel, name, plan fragment and cursor -/
theorem eval_ne_bad (a : Ast) (p : Plans) (hp : p.Ok = true) (fuel : Nat) :
    (∀ n c, (p.findImpl n).isSome = true → (evalImpl a p fuel n c).isBad = false) ∧
    (∀ b c, b.resolved p = true → (evalBasic a p fuel b c).isBad = false) ∧
    (∀ fd c, fd.resolved p = true → (evalField a p fuel fd c).isBad = false) ∧
    (∀ k b c, b.resolved p = true → (evalRepeat a p fuel k b c).isBad = false) ∧
    (∀ fs c, fs.all (·.resolved p) = true → (evalFields a p fuel fs c).isBad = false) := by
  induction fuel with
  | zero => refine ⟨?_, ?_, ?_, ?_, ?_⟩ <;> intros <;> simp [evalImpl, evalBasic, evalField, evalRepeat, evalFields, Res.isBad]
  | succ f ih =>
    obtain ⟨ihI, ihB, ihF, ihR, ihFs⟩ := ih
    refine ⟨?_, ?_, ?_, ?_, ?_⟩
    · intro n c hn
      simp only [evalImpl]
      split
      · rename_i hnone; rw [hnone] at hn; cases hn
      · rename_i i hi
        have hok := Plans.findImpl_ok hp hi
        split
        · rename_i fs hb
          rw [hb] at hok
          exact Res.bind_isBad (ihFs fs c hok) (fun _ _ _ => rfl)
        · rename_i u hb
          rw [hb] at hok
          simp only [ImplBody.okFor, Bool.and_eq_true] at hok
          obtain ⟨⟨hdisc, harms⟩, htail⟩ := hok
          apply Res.bind_isBad (ihB u.disc c hdisc)
          intro d c1 _
          split
          · rename_i arm harm
            have hmem := selectArm_mem harm
            have hres := (List.all_eq_true.mp harms) arm hmem
            split
            · rename_i fd hfd
              simp only [Arm.resolved, hfd] at hres
              exact Res.bind_isBad (ihF fd c1 hres) (fun _ _ _ => rfl)
            · rfl
          · rename_i hnone
            split
            · rename_i fd htl
              rw [htl] at htail
              exact Res.bind_isBad (ihF fd c1 htail) (fun _ _ _ => rfl)
            · rfl
            · rename_i htl
              rw [htl] at htail
              have := selectArm_of_wild a d u.arms htail
              rw [hnone] at this; cases this
        · apply Res.bind_isBad (readI32_ne_bad c)
          intro i c1 _
          split <;> rfl
        · rename_i fd hb
          rw [hb] at hok
          exact Res.bind_isBad (ihF fd c hok) (fun _ _ _ => rfl)
    · intro b c hb
      match b, hb with
      | .prim pr, _ => simp only [evalBasic]; exact readPrim_ne_bad pr c
      | .string, _ => simp only [evalBasic]; exact readString_ne_bad none c
      | .opaque, _ => simp only [evalBasic]; exact readVariableBytes_ne_bad none c
      | .tryFrom n, hb => simp only [evalBasic]; exact ihI n c hb
    · intro fd c hfd
      cases fd with
      | one b => simp only [evalField]; exact ihB b c hfd
      | fixedBytes n => simp only [evalField]; exact readBytes_ne_bad n c
      | fixedArr n b => simp only [evalField]; exact Res.bind_isBad (ihR n b c hfd) (fun _ _ _ => rfl)
      | varBytes m => simp only [evalField]; exact readVariableBytes_ne_bad m c
      | varString m => simp only [evalField]; exact readString_ne_bad m c
      | varArr ty g m =>
        simp only [evalField]
        exact readVariableArray_ne_bad _ _ (fun c' => ihI ty c' hfd) m c
    · intro k b c hb
      cases k with
      | zero => simp [evalRepeat, Res.isBad]
      | succ k =>
        simp only [evalRepeat]
        apply Res.bind_isBad (ihB b c hb)
        intro v c1 _
        exact Res.bind_isBad (ihR k b c1 hb) (fun _ _ _ => rfl)
    · intro fs c hfs
      cases fs with
      | nil => simp [evalFields, Res.isBad]
      | cons fld rest =>
        simp only [List.all_cons, Bool.and_eq_true] at hfs
        simp only [evalFields]
        apply Res.bind_isBad
        · cases fld with
          | plain nm fd => exact ihF fd c hfs.1
          | optional nm ty =>
            simp only
            apply Res.bind_isBad (readU32_ne_bad c)
            intro m c1 _
            split
            · rfl
            · split
              · exact Res.bind_isBad (ihI ty c1 hfs.1) (fun _ _ _ => rfl)
              · rfl
        · intro v c' _
          exact Res.bind_isBad (ihFs rest c' hfs.2) (fun _ _ _ => rfl)

end Fx
