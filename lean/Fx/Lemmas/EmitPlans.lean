/-
  Fx.Lemmas.EmitPlans — from the specification to the plans: for every `Supported` Ast the
  emitted plans are well-formed (`Plans.Ok`) and their size impls match their decoders
  (`Plans.SizeExact'`).
-/
import Fx.Supported
import Fx.Lemmas.Emit
import Fx.Lemmas.NoPanic
import Fx.Lemmas.Consumed
namespace Fx

/-! ### lists and lookups -/

theorem mapG_mem {α β} {f : α → G β} : ∀ (l : List α) (r : List β), mapG f l = .ok r →
    ∀ y ∈ r, ∃ x ∈ l, f x = .ok y := by
  intro l
  induction l with
  | nil => intro r hr y hy; simp only [mapG] at hr; cases hr; cases hy
  | cons x xs ih =>
    intro r hr y hy
    simp only [mapG] at hr
    obtain ⟨b, hb, hr⟩ := G.bind_eq_ok hr
    obtain ⟨bs, hbs, hr⟩ := G.bind_eq_ok hr
    cases hr
    rcases List.mem_cons.mp hy with h | h
    · subst h; exact ⟨x, List.mem_cons_self, hb⟩
    · obtain ⟨x', hx', hf⟩ := ih bs hbs y h
      exact ⟨x', List.mem_cons_of_mem _ hx', hf⟩

theorem keysSorted_tail {x : String × AstType} {l : List (String × AstType)} (h : keysSorted (x :: l) = true) :
    keysSorted l = true := by
  cases l with
  | nil => rfl
  | cons y ys => simp only [keysSorted, Bool.and_eq_true] at h; exact h.2

theorem keysSorted_head_lt {x : String × AstType} {l : List (String × AstType)} (h : keysSorted (x :: l) = true) :
    ∀ y ∈ l, x.1 < y.1 := by
  induction l generalizing x with
  | nil => intro y hy; cases hy
  | cons z zs ih =>
    intro y hy
    simp only [keysSorted, Bool.and_eq_true, decide_eq_true_eq] at h
    rcases List.mem_cons.mp hy with e | hm
    · subst e; exact h.1
    · exact String.lt_trans h.1 (ih h.2 y hm)

/-- in a strictly sorted index every entry is the one its key retrieves -/
theorem bget_of_mem_sorted {l : List (String × AstType)} (hs : keysSorted l = true) {kv : String × AstType} (hm : kv ∈ l) :
    bget kv.1 l = some kv.2 := by
  induction l with
  | nil => cases hm
  | cons x xs ih =>
    obtain ⟨k', v'⟩ := x
    rcases List.mem_cons.mp hm with e | hm'
    · subst e; simp [bget]
    · have hlt := keysSorted_head_lt hs kv hm'
      have hne : kv.1 ≠ k' := by
        intro e; simp only at hlt; rw [e] at hlt; exact String.lt_irrefl _ hlt
      simp only [bget, hne, if_false]
      exact ih (keysSorted_tail hs) hm'

theorem bget_mem {α} {l : List (String × α)} {k : String} {v : α} (h : bget k l = some v) : (k, v) ∈ l := by
  induction l with
  | nil => simp [bget] at h
  | cons x xs ih =>
    obtain ⟨k', v'⟩ := x
    simp only [bget] at h
    split at h
    · rename_i e; cases h; subst e; exact List.mem_cons_self
    · exact List.mem_cons_of_mem _ (ih h)

/-- the decoder of a declared type is the one emitted for its declaration -/
theorem find_impl_of_types (a : Ast) :
    ∀ (types : List (String × AstType)) (impls : List Impl),
      mapG (emitImpl a) (types.map (·.2)) = .ok impls →
      (∀ kv ∈ types, kv.1 = kv.2.rustName) →
      ∀ (n : String) (ty : AstType), bget n types = some ty →
        ∃ i, impls.find? (·.name == n) = some i ∧ emitImpl a ty = .ok i := by
  intro types
  induction types with
  | nil => intro impls _ _ n ty h; simp [bget] at h
  | cons x xs ih =>
    intro impls hm hk n ty hg
    obtain ⟨k, v⟩ := x
    simp only [List.map_cons, mapG] at hm
    obtain ⟨b, hb, hm⟩ := G.bind_eq_ok hm
    obtain ⟨bs, hbs, hm⟩ := G.bind_eq_ok hm
    cases hm
    have hkv : k = v.rustName := hk (k, v) List.mem_cons_self
    have hbn : b.name = k := by rw [emitImpl_name hb, hkv]
    simp only [bget] at hg
    split at hg
    · rename_i e
      cases hg
      refine ⟨b, ?_, hb⟩
      simp [List.find?, hbn, e]
    · rename_i hne
      obtain ⟨i, hi, he⟩ := ih bs hbs (fun kv hkv => hk kv (List.mem_cons_of_mem _ hkv)) n ty hg
      refine ⟨i, ?_, he⟩
      have : (b.name == n) = false := by
        rw [hbn]; simp; exact fun e => hne e.symm
      simp [List.find?, this, hi]

theorem find_size_of_types (a : Ast) :
    ∀ (types : List (String × AstType)),
      (∀ kv ∈ types, kv.1 = kv.2.rustName) →
      ∀ (n : String) (ty : AstType), bget n types = some ty →
        (types.map fun kv => emitSize a kv.2).find? (·.name == n) = some (emitSize a ty) := by
  intro types
  induction types with
  | nil => intro _ n ty h; simp [bget] at h
  | cons x xs ih =>
    intro hk n ty hg
    obtain ⟨k, v⟩ := x
    have hkv : k = v.rustName := hk (k, v) List.mem_cons_self
    simp only [bget] at hg
    split at hg
    · rename_i e
      cases hg
      simp [List.find?, emitSize_name, ← hkv, e]
    · rename_i hne
      have := ih (fun kv hkv => hk kv (List.mem_cons_of_mem _ hkv)) n ty hg
      have hf : ((emitSize a v).name == n) = false := by
        rw [emitSize_name, ← hkv]; simp; exact fun e => hne e.symm
      simp [List.find?, hf, this]


/-- what the per-declaration lemmas need to know about the plans `P` emitted for `a` -/
structure PlansFor (a : Ast) (P : Plans) : Prop where
  declared_has_impl : ∀ n, declared a n = true → (P.findImpl n).isSome = true
  declared_safe : ∀ n, declared a n = true → (BasicType.ident n).asSafeString = n
  enum_impl : ∀ n e, bget n a.types = some (.enum e) → e.name = n ∧ ∃ i arms, P.findImpl n = some i ∧ i.body = .enum arms

theorem resolveSize_ok_of_boundOk {a : Ast} {sz : ArraySize} (h : boundOk a sz = true) : ∃ n, resolveSize a sz = .ok n := by
  cases sz with
  | known n => exact ⟨n, rfl⟩
  | constant c =>
    simp only [boundOk] at h
    simp only [resolveSize, Ast.getConst]
    split at h
    · rename_i t ht
      rw [ht]
      simp only [ConstantType.display]
      cases hp : parseU32 t with
      | none => simp [hp] at h
      | some n => exact ⟨n, rfl⟩
    · cases h

/-- a supported, non-optional struct field: its decoder refers only to declared decoders, has an exact shape, and the
    `pad`/`+4` terms of the size emitter are the ones that decoder needs -/
theorem decodeArray_alias_ok {a : Ast} {P : Plans} (hP : PlansFor a P) (at_ : ArrayType) (h : declaratorOk a at_ = true)
    (nm : String) (fd : FieldDec) (he : decodeArray a at_ .useAlias = .ok fd) :
    fd.resolved P = true ∧
    sizeFieldMatches (.plain nm fd) ⟨nm, at_.unwrapArray.isOpaque, at_.unwrapArray.isOpaque && isVariable at_⟩ = true := by
  match at_, h, he with
  | .none t, h, he =>
    simp only [decodeArray, decodeBasic] at he
    cases t <;> simp only [declaratorOk, basicDeclared] at h <;> try (cases h)
    all_goals (
      simp only [decodeBasicAlias, G.bind_ok] at he
      cases he
      simp [FieldDec.resolved, BasicDec.resolved, sizeFieldMatches, fieldShapeOk, ArrayType.unwrapArray, BasicType.isOpaque, isVariable])
    rename_i n
    exact hP.declared_has_impl n h
  | .fixed t sz, h, he =>
    simp only [decodeArray] at he
    obtain ⟨n, hn, he⟩ := G.bind_eq_ok he
    have hdecl : basicDeclared a t = true := by
      cases t <;> simp only [declaratorOk, basicDeclared, Bool.and_eq_true] at h ⊢ <;> first | rfl | exact h.1 | cases h
    cases t <;> simp only [declaratorOk, basicDeclared, Bool.and_eq_true] at h <;> try (cases h)
    all_goals (
      simp only [printFixed] at he
      first
        | (cases he
           simp [FieldDec.resolved, BasicDec.resolved, sizeFieldMatches, fieldShapeOk, ArrayType.unwrapArray, BasicType.isOpaque, isVariable, isOpaqueDec]; done)
        | (split at he
           · cases he
             simp [FieldDec.resolved, BasicDec.resolved, sizeFieldMatches, fieldShapeOk, ArrayType.unwrapArray, BasicType.isOpaque, isVariable, isOpaqueDec]
           · simp only [decodeBasic, decodeBasicAlias, G.bind_ok] at he
             cases he
             simp [FieldDec.resolved, BasicDec.resolved, sizeFieldMatches, fieldShapeOk, ArrayType.unwrapArray, BasicType.isOpaque, isVariable, isOpaqueDec]
             try (exact hP.declared_has_impl _ (by simpa [basicDeclared] using hdecl))))
  | .variable t m, h, he =>
    have hpv : ∀ size, printVariable a t size .useAlias = .ok fd →
        fd.resolved P = true ∧
        sizeFieldMatches (.plain nm fd) ⟨nm, t.isOpaque, t.isOpaque && true⟩ = true := by
      intro size hpv
      cases t <;> simp only [declaratorOk, Bool.and_eq_true] at h <;> (first | (cases h; done) | skip)
      · simp only [printVariable] at hpv; cases hpv
        simp [FieldDec.resolved, sizeFieldMatches, fieldShapeOk, BasicType.isOpaque]
      · simp only [printVariable] at hpv; cases hpv
        simp [FieldDec.resolved, sizeFieldMatches, fieldShapeOk, BasicType.isOpaque]
      · rename_i n
        simp only [printVariable] at hpv; cases hpv
        simp only [FieldDec.resolved, hP.declared_safe n h.1, sizeFieldMatches, fieldShapeOk, BasicType.isOpaque]
        simp
        exact hP.declared_has_impl n h.1
    simp only [ArrayType.unwrapArray, isVariable]
    cases m with
    | none => simp only [decodeArray] at he; exact hpv none he
    | some sz =>
      simp only [decodeArray] at he
      obtain ⟨n, hn, he⟩ := G.bind_eq_ok he
      exact hpv (some n) he

def sizeFieldOf (f : StructField) : SizeField := ⟨f.fieldName, f.containsOpaque, f.containsOpaque && isVariable f.fieldValue⟩

theorem emitStructField_ok {a : Ast} {P : Plans} (hP : PlansFor a P) (f : StructField) (hf : fieldOk a f = true)
    (sfd : StructFieldDec) (he : emitStructField a f = .ok sfd) :
    sfd.resolved P = true ∧ sizeFieldMatches sfd (sizeFieldOf f) = true := by
  simp only [fieldOk, Bool.and_eq_true] at hf
  replace hf := hf.2
  simp only [emitStructField] at he
  by_cases hopt : f.isOptional = true
  · simp only [hopt, if_true] at hf he
    cases he
    split at hf
    · rename_i n hfv
      simp only [StructFieldDec.resolved, hfv, ArrayType.unwrapArray, hP.declared_safe n hf, sizeFieldMatches, sizeFieldOf,
        StructField.containsOpaque, BasicType.isOpaque]
      exact ⟨hP.declared_has_impl n hf, by simp⟩
    · cases hf
  · simp only [hopt, if_false, Bool.false_eq_true] at hf he
    obtain ⟨fd, hfd, he⟩ := G.bind_eq_ok he
    cases he
    have := decodeArray_alias_ok hP f.fieldValue hf f.fieldName fd hfd
    exact ⟨this.1, this.2⟩

theorem emitStructFields_ok {a : Ast} {P : Plans} (hP : PlansFor a P) :
    ∀ (fields : List StructField) (fs : List StructFieldDec), fields.all (fieldOk a) = true →
      mapG (emitStructField a) fields = .ok fs →
      fs.all (·.resolved P) = true ∧ sizeFieldsMatch fs (fields.map sizeFieldOf) = true := by
  intro fields
  induction fields with
  | nil => intro fs _ he; simp only [mapG] at he; cases he; simp [sizeFieldsMatch]
  | cons f rest ih =>
    intro fs hall he
    simp only [List.all_cons, Bool.and_eq_true] at hall
    simp only [mapG] at he
    obtain ⟨b, hb, he⟩ := G.bind_eq_ok he
    obtain ⟨bs, hbs, he⟩ := G.bind_eq_ok he
    cases he
    obtain ⟨r1, m1⟩ := emitStructField_ok hP f hall.1 b hb
    obtain ⟨r2, m2⟩ := ih bs hall.2 hbs
    simp [List.all_cons, r1, r2, sizeFieldsMatch, m1, m2]

/-- the typedef branch of `implSizeExact`, as a predicate on the decode expression and the two size flags -/
def typedefSizeMatches (fd : FieldDec) (opq plus4 : Bool) : Bool :=
  fieldShapeOk fd &&
  (match fd with
   | .varBytes _ => opq && plus4
   | .one .opaque => opq && plus4
   | .fixedBytes _ => opq && !plus4
   | _ => !opq)

theorem typedefOk_alias_ident {a : Ast} {td : Typedef} (h : typedefOk a td = true) : ∃ al, td.alias.unwrapArray = .ident al := by
  simp only [typedefOk, Bool.and_eq_true] at h
  cases hu : td.alias.unwrapArray <;> simp [hu] at h
  exact ⟨_, rfl⟩

theorem emitTypedef_ok {a : Ast} {P : Plans} (hP : PlansFor a P) (td : Typedef) (htd : typedefOk a td = true)
    (hself : a.getType td.alias.unwrapArray.asStr = some (.typedef td))
    (fd : FieldDec) (he : decodeArray a td.alias .useTarget = .ok fd) :
    fd.resolved P = true ∧ typedefSizeMatches fd td.target.isOpaque (td.target.isOpaque && !isFixed td.alias) = true := by
  obtain ⟨al, hal⟩ := typedefOk_alias_ident htd
  obtain ⟨target, alias⟩ := td
  simp only at hal hself he ⊢
  simp only [typedefOk, Bool.and_eq_true] at htd
  have hrest := htd.2
  rcases alias with t | ⟨t, sz⟩ | ⟨t, m⟩
  · -- plain alias
    simp only [ArrayType.unwrapArray] at hal
    subst hal
    simp only [ArrayType.unwrapArray, BasicType.asStr] at hself
    simp only [decodeArray, decodeBasic, hself, G.bind_ok] at he
    cases he
    cases target <;>
      simp [decodeBasicAlias, FieldDec.resolved, BasicDec.resolved, typedefSizeMatches, fieldShapeOk, isFixed, BasicType.isOpaque] at hrest ⊢
    rename_i n
    exact hP.declared_has_impl n hrest
  · -- alias[sz]
    simp only [ArrayType.unwrapArray] at hal
    subst hal
    simp only [ArrayType.unwrapArray, BasicType.asStr] at hself
    simp only [decodeArray] at he
    obtain ⟨n, hn, he⟩ := G.bind_eq_ok he
    simp only [printFixed, Ast.typedefTarget, BasicType.asStr, hself] at he
    cases target <;> simp [BasicType.isOpaque] at hrest he ⊢
    · cases he
      simp [FieldDec.resolved, typedefSizeMatches, fieldShapeOk, isFixed]
    · rename_i tn
      split at he
      · cases he
        simp [FieldDec.resolved, BasicDec.resolved, typedefSizeMatches, fieldShapeOk, isFixed, isOpaqueDec]
      · simp only [decodeBasic, hself, decodeBasicAlias, G.bind_ok] at he
        cases he
        simp [FieldDec.resolved, BasicDec.resolved, typedefSizeMatches, fieldShapeOk, isFixed, isOpaqueDec]
        exact hP.declared_has_impl tn hrest.1
  · -- alias<m>
    simp only [ArrayType.unwrapArray] at hal
    subst hal
    simp only [ArrayType.unwrapArray, BasicType.asStr] at hself
    have hsafe : (BasicType.ident al).asSafeString = al :=
      hP.declared_safe al (by simp only [declared]; simp only [Ast.getType] at hself; simp [hself])
    have hpv : ∀ size, printVariable a (.ident al) size .useTarget = .ok fd →
        fd.resolved P = true ∧ typedefSizeMatches fd target.isOpaque (target.isOpaque && !isFixed (.variable (.ident al) m)) = true := by
      intro size hpv
      simp only [printVariable, hsafe, Ast.typedefTarget, BasicType.asStr, hself, AstType.display] at hpv
      cases target <;> (try (cases m <;> simp at hrest)) <;> simp [BasicType.isOpaque] at hpv
      all_goals (
        cases hpv
        simp only [FieldDec.resolved, typedefSizeMatches, fieldShapeOk, isFixed, BasicType.asStr, BasicType.isOpaque]
        simp)
      all_goals (
        first
          | exact hP.declared_has_impl _ hrest
          | exact hP.declared_has_impl _ hrest.1)
    cases m with
    | none => simp only [decodeArray] at he; exact hpv none he
    | some sz =>
      simp only [decodeArray] at he
      obtain ⟨n, hn, he⟩ := G.bind_eq_ok he
      exact hpv (some n) he

/-! ### unions -/

theorem nonDigitName_eq_default {l : String} (h : nonDigitName l = "default") : l = "default" := by
  unfold nonDigitName at h
  split at h
  · split at h
    · -- "v_" ++ l = "default" is impossible: the first characters differ
      exfalso
      have := congrArg String.toList h
      simp [String.toList_append] at this
    · exact h
  · exact h

/-- all arms are data arms without padding -/
def allDataNoPad : List SizeArm → Bool
  | [] => true
  | .data _ false :: rest => allDataNoPad rest
  | _ => false

def sizeArmLabel : SizeArm → String
  | .data v _ => v
  | .void v => v

theorem findSizeArm_in_data (v : String) : ∀ (dataPart rest : List SizeArm), allDataNoPad dataPart = true →
    (∃ arm ∈ dataPart, nonDigitName (sizeArmLabel arm) = v) →
    ∃ l, findSizeArm v (dataPart ++ rest) = some (.data l false) := by
  intro dataPart
  induction dataPart with
  | nil => intro rest _ h; obtain ⟨arm, hm, _⟩ := h; cases hm
  | cons x xs ih =>
    intro rest hall hex
    match x, hall with
    | .data l false, hall =>
      simp only [allDataNoPad] at hall
      simp only [List.cons_append, findSizeArm]
      by_cases hm : (nonDigitName l == v) = true
      · simp only [hm, if_true]; exact ⟨l, rfl⟩
      · simp only [hm, Bool.false_eq_true, if_false]
        apply ih rest hall
        obtain ⟨arm, hmem, hv⟩ := hex
        rcases List.mem_cons.mp hmem with e | hmem'
        · subst e
          simp only [sizeArmLabel] at hv
          exfalso; apply hm; simp [hv]
        · exact ⟨arm, hmem', hv⟩
    | .data l true, hall => simp [allDataNoPad] at hall
    | .void l, hall => simp [allDataNoPad] at hall

theorem findSizeArm_skip (v : String) : ∀ (pre rest : List SizeArm),
    (∀ arm ∈ pre, nonDigitName (sizeArmLabel arm) ≠ v) → findSizeArm v (pre ++ rest) = findSizeArm v rest := by
  intro pre
  induction pre with
  | nil => intro rest _; rfl
  | cons x xs ih =>
    intro rest h
    have hx := h x List.mem_cons_self
    have := ih rest (fun arm hm => h arm (List.mem_cons_of_mem _ hm))
    cases x with
    | data l p =>
      simp only [sizeArmLabel] at hx
      have : (nonDigitName l == v) = false := by simp [hx]
      simp only [List.cons_append, findSizeArm, this, Bool.false_eq_true, if_false]
      assumption
    | void l =>
      simp only [sizeArmLabel] at hx
      have : (nonDigitName l == v) = false := by simp [hx]
      simp only [List.cons_append, findSizeArm, this, Bool.false_eq_true, if_false]
      assumption

def unionSizeArms (u : Union) : List SizeArm :=
  (u.cases.map fun c => c.caseValues.map fun l => SizeArm.data l c.containsOpaque).flatten
    ++ u.voidCases.map SizeArm.void
    ++ (match u.default with | some d => [SizeArm.data "default" d.containsOpaque] | none => [])

theorem emitSize_union (a : Ast) (u : Union) : (emitSize a (.union u)).body = .union (unionSizeArms u) := rfl

/-- the discriminant decoder of a supported union reads one word -/
theorem unionDisc_ok {a : Ast} {P : Plans} (hP : PlansFor a P) (t : BasicType)
    (hk : (match discKind a t with | .unsupported => false | _ => true) = true)
    (disc : BasicDec) (he : decodeBasic a t .useTarget = .ok disc) :
    disc.resolved P = true ∧ discIsWord P disc = true := by
  match t, hk, he with
  | .u32, _, he => simp only [decodeBasic, decodeBasicAlias] at he; cases he; simp [BasicDec.resolved, discIsWord]
  | .i32, _, he => simp only [decodeBasic, decodeBasicAlias] at he; cases he; simp [BasicDec.resolved, discIsWord]
  | .bool, _, he => simp only [decodeBasic, decodeBasicAlias] at he; cases he; simp [BasicDec.resolved, discIsWord]
  | .u64, hk, _ => simp [discKind] at hk
  | .i64, hk, _ => simp [discKind] at hk
  | .f32, hk, _ => simp [discKind] at hk
  | .f64, hk, _ => simp [discKind] at hk
  | .string, hk, _ => simp [discKind] at hk
  | .opaque, hk, _ => simp [discKind] at hk
  | .ident n, hk, he =>
    simp only [discKind] at hk
    simp only [decodeBasic, Ast.getType] at he
    cases hg : bget n a.types with
    | none => simp [hg] at hk
    | some ty =>
      cases ty with
      | struct s => simp [hg] at hk
      | union u => simp [hg] at hk
      | enum e =>
        obtain ⟨hname, i, arms, hfi, hbody⟩ := hP.enum_impl n e hg
        simp only [hg] at he
        cases he
        simp only [BasicDec.resolved, discIsWord, hname, hfi, Option.isSome_some, true_and]
        cases i with
        | mk nm g body => simp only at hbody; subst hbody; rfl
      | typedef td =>
        simp only [hg] at hk he
        cases he
        obtain ⟨target, alias⟩ := td
        rcases alias with t2 | ⟨t2, sz⟩ | ⟨t2, m⟩ <;> cases target <;> simp at hk <;>
          simp [decodeBasicAlias, BasicDec.resolved, discIsWord]

theorem armDecode_ok {a : Ast} {P : Plans} (hP : PlansFor a P) (fv : ArrayType) (hf : armTypeOk a fv = true)
    (fd : FieldDec) (he : decodeArray a fv .useAlias = .ok fd) :
    fd.resolved P = true ∧ fv.unwrapArray.isOpaque = false ∧ ∃ b, fd = .one b ∧ isOpaqueDec b = false := by
  rcases fv with t | ⟨t, sz⟩ | ⟨t, m⟩
  · simp only [decodeArray, decodeBasic] at he
    cases t <;> simp only [armTypeOk, basicDeclared] at hf <;> (first | (cases hf; done) | skip)
    all_goals (
      simp only [decodeBasicAlias, G.bind_ok] at he
      cases he
      simp [FieldDec.resolved, BasicDec.resolved, ArrayType.unwrapArray, BasicType.isOpaque, isOpaqueDec])
    exact hP.declared_has_impl _ hf
  · simp [armTypeOk] at hf
  · simp [armTypeOk] at hf

def dataSizeArms (cases : List UnionCase) : List SizeArm :=
  (cases.map fun c => c.caseValues.map fun l => SizeArm.data l c.containsOpaque).flatten

theorem allDataNoPad_append : ∀ (x y : List SizeArm), allDataNoPad x = true → allDataNoPad y = true → allDataNoPad (x ++ y) = true := by
  intro x
  induction x with
  | nil => intro y _ hy; exact hy
  | cons h t ih =>
    intro y hx hy
    match h, hx with
    | .data l false, hx => simp only [allDataNoPad, List.cons_append] at hx ⊢; exact ih y hx hy
    | .data l true, hx => simp [allDataNoPad] at hx
    | .void l, hx => simp [allDataNoPad] at hx

theorem allDataNoPad_labels (ls : List String) : allDataNoPad (ls.map fun l => SizeArm.data l false) = true := by
  induction ls with
  | nil => rfl
  | cons l rest ih => simp only [List.map_cons, allDataNoPad]; exact ih

theorem emitCases_ok {a : Ast} {P : Plans} (hP : PlansFor a P) (swTy : BasicType) :
    ∀ (cases : List UnionCase) (dataArms : List (List Arm)),
      cases.all (fun c => armTypeOk a c.fieldValue && !c.caseValues.isEmpty) = true →
      mapG (emitCase a swTy) cases = .ok dataArms →
      (∀ arm ∈ dataArms.flatten, arm.resolved P = true ∧
          (∃ b, arm.payload = some (.one b) ∧ isOpaqueDec b = false) ∧
          (∃ sa ∈ dataSizeArms cases, sizeArmLabel sa = arm.variant)) ∧
      allDataNoPad (dataSizeArms cases) = true := by
  intro cases
  induction cases with
  | nil =>
    intro dataArms _ he
    simp only [mapG] at he; cases he
    simp [dataSizeArms, allDataNoPad]
  | cons c rest ih =>
    intro dataArms hall he
    simp only [List.all_cons, Bool.and_eq_true] at hall
    simp only [mapG] at he
    obtain ⟨b, hb, he⟩ := G.bind_eq_ok he
    obtain ⟨bs, hbs, he⟩ := G.bind_eq_ok he
    cases he
    obtain ⟨ihArms, ihPad⟩ := ih bs hall.2 hbs
    simp only [emitCase] at hb
    obtain ⟨fd, hfd, hb⟩ := G.bind_eq_ok hb
    cases hb
    obtain ⟨hres, hnop, bd, hbd, hbo⟩ := armDecode_ok hP c.fieldValue hall.1.1 fd hfd
    have hco : c.containsOpaque = false := hnop
    constructor
    · intro arm harm
      simp only [List.flatten_cons, List.mem_append] at harm
      rcases harm with h1 | h2
      · obtain ⟨l, hl, rfl⟩ := List.mem_map.mp h1
        refine ⟨by simp [Arm.resolved, hres], ⟨bd, by simp [hbd], hbo⟩, ?_⟩
        refine ⟨SizeArm.data l c.containsOpaque, ?_, rfl⟩
        simp only [dataSizeArms, List.map_cons, List.flatten_cons, List.mem_append]
        exact Or.inl (List.mem_map.mpr ⟨l, hl, rfl⟩)
      · obtain ⟨r1, r2, sa, hsa, hlab⟩ := ihArms arm h2
        refine ⟨r1, r2, sa, ?_, hlab⟩
        simp only [dataSizeArms, List.map_cons, List.flatten_cons, List.mem_append]
        exact Or.inr hsa
    · simp only [dataSizeArms, List.map_cons, List.flatten_cons, hco]
      exact allDataNoPad_append _ _ (allDataNoPad_labels _) ihPad

theorem unionOk_labels_ne_default {a : Ast} {u : Union} (hu : unionOk a u = true) :
    (∀ c ∈ u.cases, ∀ l ∈ c.caseValues, l ≠ "default") := by
  simp only [unionOk, Bool.and_eq_true] at hu
  obtain ⟨⟨⟨⟨⟨_, _⟩, _⟩, hlab⟩, _⟩, _⟩ := hu
  intro c hc l hl
  have hmem : l ∈ allLabels u := by
    simp only [allLabels, List.mem_append, List.mem_flatten, List.mem_map]
    exact Or.inl (Or.inl ⟨c.caseValues, ⟨c, hc, rfl⟩, hl⟩)
  have := (List.all_eq_true.mp hlab) l hmem
  simp only [labelKindOk, Bool.and_eq_true, bne_iff_ne, ne_eq] at this
  exact this.1

theorem emitUnion_ok {a : Ast} {P : Plans} (hP : PlansFor a P) (u : Union) (hu : unionOk a u = true)
    (ud : UnionDec) (he : emitUnion a u = .ok ud) :
    ud.disc.resolved P = true ∧ discIsWord P ud.disc = true ∧
    ud.arms.all (·.resolved P) = true ∧
    ud.arms.all (fun arm => armSizeOk (unionSizeArms u) arm.variant arm.payload) = true ∧
    (match ud.tail with
     | .defaultData fd => fd.resolved P = true ∧ armSizeOk (unionSizeArms u) "default" (some fd) = true
     | .errUnknown => True
     | .none => hasWild ud.arms = true) := by
  have hne := unionOk_labels_ne_default hu
  simp only [unionOk, Bool.and_eq_true] at hu
  obtain ⟨⟨⟨⟨⟨hk, hcases⟩, hdef⟩, hlab⟩, _⟩, _⟩ := hu
  simp only [emitUnion] at he
  obtain ⟨disc, hdisc, he⟩ := G.bind_eq_ok he
  obtain ⟨dataArms, hdata, he⟩ := G.bind_eq_ok he
  obtain ⟨tail, htail, he⟩ := G.bind_eq_ok he
  cases he
  obtain ⟨hdr, hdw⟩ := unionDisc_ok hP u.switch.varType hk disc hdisc
  obtain ⟨hArms, hPad⟩ := emitCases_ok hP u.switch.varType u.cases dataArms hcases hdata
  have hsplit : unionSizeArms u = dataSizeArms u.cases ++ (u.voidCases.map SizeArm.void ++
      (match u.default with | some d => [SizeArm.data "default" d.containsOpaque] | none => [])) := by
    simp [unionSizeArms, dataSizeArms, List.append_assoc]
  refine ⟨hdr, hdw, ?_, ?_, ?_⟩
  · -- every arm's payload refers to declared decoders
    simp only [List.all_append, Bool.and_eq_true]
    constructor
    · exact List.all_eq_true.mpr (fun arm harm => (hArms arm harm).1)
    · apply List.all_eq_true.mpr
      intro arm harm
      obtain ⟨l, _, rfl⟩ := List.mem_map.mp harm
      simp only [emitVoid]
      split <;> simp [Arm.resolved]
  · -- every data arm finds a no-padding size arm; void arms carry nothing
    simp only [List.all_append, Bool.and_eq_true]
    constructor
    · apply List.all_eq_true.mpr
      intro arm harm
      obtain ⟨_, ⟨b, hb, hbo⟩, sa, hsa, hlabel⟩ := hArms arm harm
      obtain ⟨l', hfind⟩ := findSizeArm_in_data (nonDigitName arm.variant) (dataSizeArms u.cases)
        (u.voidCases.map SizeArm.void ++ (match u.default with | some d => [SizeArm.data "default" d.containsOpaque] | none => []))
        hPad ⟨sa, hsa, by rw [hlabel]⟩
      rw [← hsplit] at hfind
      simp only [armSizeOk, hb, fieldShapeOk, Bool.true_and]
      match b, hbo with
      | .prim _, _ => simp [hfind]
      | .string, _ => simp [hfind]
      | .tryFrom _, _ => simp [hfind]
      | .opaque, hbo => simp [isOpaqueDec] at hbo
    · apply List.all_eq_true.mpr
      intro arm harm
      obtain ⟨l, _, rfl⟩ := List.mem_map.mp harm
      simp only [emitVoid]
      split <;> simp [armSizeOk]
  · -- the tail
    cases hd : u.default with
    | some d =>
      simp only [hd] at htail hdef
      obtain ⟨dd, hdd, htail⟩ := G.bind_eq_ok htail
      cases htail
      simp only [Bool.and_eq_true, Bool.not_eq_true'] at hdef
      obtain ⟨⟨hat, hnov⟩, _⟩ := hdef
      obtain ⟨hres, hnop, bd, hbd, hbo⟩ := armDecode_ok hP d.fieldValue hat dd hdd
      refine ⟨hres, ?_⟩
      -- no data or void arm is called "default"; the default arm itself has no padding
      have hskip1 : findSizeArm "default" (unionSizeArms u) =
          findSizeArm "default" (u.voidCases.map SizeArm.void ++ [SizeArm.data "default" d.containsOpaque]) := by
        rw [hsplit, hd]
        apply findSizeArm_skip
        intro arm harm hname
        simp only [dataSizeArms, List.mem_flatten, List.mem_map] at harm
        obtain ⟨ls, ⟨c, hc, rfl⟩, hin⟩ := harm
        obtain ⟨l, hl, rfl⟩ := List.mem_map.mp hin
        exact hne c hc l hl (nonDigitName_eq_default hname)
      have hskip2 : findSizeArm "default" (u.voidCases.map SizeArm.void ++ [SizeArm.data "default" d.containsOpaque]) =
          findSizeArm "default" [SizeArm.data "default" d.containsOpaque] := by
        apply findSizeArm_skip
        intro arm harm hname
        obtain ⟨l, hl, rfl⟩ := List.mem_map.mp harm
        have : l = "default" := nonDigitName_eq_default hname
        subst this
        have : u.voidCases.contains "default" = true := by simpa using hl
        rw [this] at hnov; cases hnov
      have hco : d.containsOpaque = false := hnop
      have hval : findSizeArm "default" (unionSizeArms u) = some (SizeArm.data "default" false) := by
        rw [hskip1, hskip2, hco]
        simp [findSizeArm, nonDigitName]
      have hnd : nonDigitName "default" = "default" := by simp [nonDigitName]
      simp only [armSizeOk, hbd, fieldShapeOk, Bool.true_and, hnd]
      match bd, hbo with
      | .prim _, _ => simp [hval]
      | .string, _ => simp [hval]
      | .tryFrom _, _ => simp [hval]
      | .opaque, hbo => simp [isOpaqueDec] at hbo
    | none =>
      simp only [hd] at htail
      cases htail
      by_cases hv : u.voidCases.contains "default" = true
      · simp only [hv, if_true]
        simp only [hasWild, List.any_append, Bool.or_eq_true]
        right
        apply List.any_eq_true.mpr
        refine ⟨emitVoid a u.switch.varType "default", List.mem_map.mpr ⟨"default", by simpa using hv, rfl⟩, ?_⟩
        simp [emitVoid]
      · simp only [hv, Bool.false_eq_true, if_false]

/-! ### assembly -/

theorem keysOk_facts {a : Ast} (h : keysOk a = true) :
    (∀ kv ∈ a.types, kv.1 = kv.2.rustName) ∧ (∀ kv ∈ a.types, (BasicType.ident kv.1).asSafeString = kv.1) ∧ keysSorted a.types = true := by
  simp only [keysOk, Bool.and_eq_true] at h
  obtain ⟨hall, hs⟩ := h
  refine ⟨?_, ?_, hs⟩
  · intro kv hkv
    have := (List.all_eq_true.mp hall) kv hkv
    simp only [Bool.and_eq_true, beq_iff_eq] at this
    exact this.1
  · intro kv hkv
    have := (List.all_eq_true.mp hall) kv hkv
    simp only [Bool.and_eq_true, nameSafe, beq_iff_eq] at this
    exact this.2

theorem plansFor_of_supported {a : Ast} {m : Module} (hs : Supported a = true) (hg : generateModule a = .ok m) :
    PlansFor a m.plans := by
  obtain ⟨hkeys, _, _, _, _⟩ := Supported.facts hs
  obtain ⟨hkn, hsafe, _⟩ := keysOk_facts hkeys
  obtain ⟨_, _, h2, _⟩ := generateModule_ok hg
  have hfind := find_impl_of_types a a.types m.fromRefMut h2 hkn
  refine ⟨?_, ?_, ?_⟩
  · intro n hd
    simp only [declared] at hd
    cases hb : bget n a.types with
    | none => simp [hb] at hd
    | some ty =>
      obtain ⟨i, hi, _⟩ := hfind n ty hb
      simp [Module.plans, Plans.findImpl, hi]
  · intro n hd
    simp only [declared] at hd
    cases hb : bget n a.types with
    | none => simp [hb] at hd
    | some ty => exact hsafe (n, ty) (bget_mem hb)
  · intro n e hb
    have hk := hkn (n, .enum e) (bget_mem hb)
    simp only [AstType.rustName] at hk
    obtain ⟨i, hi, he⟩ := hfind n (.enum e) hb
    simp only [emitImpl] at he
    cases he
    refine ⟨hk.symm, ⟨e.name, a.isGeneric e.name, .enum (e.variants.map fun v => (v.value, v.name))⟩, _, ?_, rfl⟩
    simp only [Module.plans, Plans.findImpl]
    exact hi

/-- **For every supported specification the emitted plans are well-formed and size-exact.** -/
theorem supported_plans {a : Ast} {m : Module} (hs : Supported a = true) (hg : generateModule a = .ok m) :
    m.plans.Ok = true ∧ m.plans.SizeExact' = true := by
  have hP := plansFor_of_supported hs hg
  obtain ⟨hkeys, htypes, _, _, _⟩ := Supported.facts hs
  obtain ⟨hkn, _, hsorted⟩ := keysOk_facts hkeys
  obtain ⟨_, _, h2, h3⟩ := generateModule_ok hg
  -- every impl comes from a declaration of the index, whose size impl is the one `findSize` returns
  have hfrom : ∀ i ∈ m.fromRefMut, ∃ kv ∈ a.types, emitImpl a kv.2 = .ok i ∧ typeOk a kv.2 = true ∧
      m.plans.findSize i.name = some (emitSize a kv.2) ∧ a.getType kv.1 = some kv.2 := by
    intro i hi
    obtain ⟨ty, hty, he⟩ := mapG_mem _ _ h2 i hi
    obtain ⟨kv, hkv, rfl⟩ := List.mem_map.mp hty
    have hb := bget_of_mem_sorted hsorted hkv
    refine ⟨kv, hkv, he, (List.all_eq_true.mp htypes) kv hkv, ?_, hb⟩
    have hname : i.name = kv.1 := by rw [emitImpl_name he, ← hkn kv hkv]
    have := find_size_of_types a a.types hkn kv.1 kv.2 hb
    simp only [Module.plans, Plans.findSize, h3, emitWireSize, hname]
    exact this
  have hper : ∀ i ∈ m.fromRefMut, i.body.okFor m.plans = true ∧ implSizeExact m.plans i = true ∧
      (match i.body with | .union u => discIsWord m.plans u.disc | _ => true) = true := by
    intro i hi
    obtain ⟨kv, hkv, he, hok, hfs, hget⟩ := hfrom i hi
    obtain ⟨k, ty⟩ := kv
    simp only at he hok hfs hget
    cases ty with
    | struct s =>
      simp only [typeOk, Bool.and_eq_true] at hok
      simp only [emitImpl] at he
      obtain ⟨fs, hfsd, he⟩ := G.bind_eq_ok he
      cases he
      obtain ⟨r, mt⟩ := emitStructFields_ok hP s.fields fs hok.2 hfsd
      refine ⟨by simp [ImplBody.okFor, r], ?_, rfl⟩
      simp only [implSizeExact, hfs, emitSize]
      exact mt
    | union u =>
      simp only [typeOk] at hok
      simp only [emitImpl] at he
      obtain ⟨ud, hud, he⟩ := G.bind_eq_ok he
      cases he
      obtain ⟨r1, r2, r3, r4, r5⟩ := emitUnion_ok hP u hok ud hud
      refine ⟨?_, ?_, r2⟩
      · simp only [ImplBody.okFor, r1, r3, Bool.true_and]
        cases ht : ud.tail with
        | defaultData fd => simp only [ht] at r5; exact r5.1
        | errUnknown => rfl
        | none => simp only [ht] at r5; exact r5
      · simp only [implSizeExact, hfs, emitSize]
        show (ud.arms.all (fun arm => armSizeOk (unionSizeArms u) arm.variant arm.payload) &&
          (match ud.tail with | .defaultData fd => armSizeOk (unionSizeArms u) "default" (some fd) | _ => true)) = true
        simp only [r4, Bool.true_and]
        cases ht : ud.tail with
        | defaultData fd => simp only [ht] at r5; exact r5.2
        | errUnknown => rfl
        | none => rfl
    | enum e =>
      simp only [emitImpl] at he
      cases he
      exact ⟨rfl, by simp [implSizeExact, hfs, emitSize], rfl⟩
    | typedef td =>
      simp only [typeOk] at hok
      simp only [emitImpl] at he
      obtain ⟨fd, hfd, he⟩ := G.bind_eq_ok he
      cases he
      have hkn' := hkn (k, .typedef td) hkv
      simp only [AstType.rustName] at hkn'
      have hself : a.getType td.alias.unwrapArray.asStr = some (.typedef td) := by rw [← hkn']; exact hget
      obtain ⟨r, mt⟩ := emitTypedef_ok hP td hok hself fd hfd
      refine ⟨by simp [ImplBody.okFor, r], ?_, rfl⟩
      simp only [implSizeExact, hfs, emitSize]
      exact mt
  refine ⟨?_, ?_⟩
  · exact List.all_eq_true.mpr (fun i hi => (hper i hi).1)
  · simp only [Plans.SizeExact', Plans.SizeExact, Bool.and_eq_true]
    exact ⟨List.all_eq_true.mpr (fun i hi => (hper i hi).2.1), List.all_eq_true.mpr (fun i hi => (hper i hi).2.2)⟩

end Fx
