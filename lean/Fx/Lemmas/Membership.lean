/-
  Fx.Lemmas.Membership — the emitters look at the generic index only through membership tests.
  (The real index is a `HashSet` whose iteration order changes from process to process; nothing emitted can depend on it.)
-/
import Fx.Emit
namespace Fx

section
variable (c : List (String × ConstantType)) (t : List (String × AstType)) (l l' : List String)
variable (h : ∀ n, l'.contains n = l.contains n)
include h

theorem isGeneric_congr (n : String) : Ast.isGeneric ⟨c, l', t⟩ n = Ast.isGeneric ⟨c, l, t⟩ n := h n

omit h in
theorem decodeBasic_congr (ty : BasicType) (r : TypeResolve) : decodeBasic ⟨c, l', t⟩ ty r = decodeBasic ⟨c, l, t⟩ ty r := rfl

omit h in
theorem resolveSize_congr (s : ArraySize) : resolveSize ⟨c, l', t⟩ s = resolveSize ⟨c, l, t⟩ s := by
  cases s <;> rfl

omit h in
theorem printFixed_congr (ty : BasicType) (n : Nat) (r : TypeResolve) : printFixed ⟨c, l', t⟩ ty n r = printFixed ⟨c, l, t⟩ ty n r := rfl

theorem printVariable_congr (ty : BasicType) (sz : Option Nat) (r : TypeResolve) :
    printVariable ⟨c, l', t⟩ ty sz r = printVariable ⟨c, l, t⟩ ty sz r := by
  simp only [printVariable, isGeneric_congr c t l l' h]
  rfl

theorem decodeArray_congr (at_ : ArrayType) (r : TypeResolve) : decodeArray ⟨c, l', t⟩ at_ r = decodeArray ⟨c, l, t⟩ at_ r := by
  cases at_ with
  | none ty => rfl
  | fixed ty sz => rfl
  | «variable» ty m =>
    cases m with
    | none => simp only [decodeArray, printVariable_congr c t l l' h]
    | some sz =>
      simp only [decodeArray, resolveSize_congr c t l l']
      congr 1
      funext n
      exact printVariable_congr c t l l' h ty (some n) r

theorem emitStructField_congr (f : StructField) : emitStructField ⟨c, l', t⟩ f = emitStructField ⟨c, l, t⟩ f := by
  simp only [emitStructField, decodeArray_congr c t l l' h]

omit h in
theorem matcherOf_congr (sw : BasicType) (lab : String) : matcherOf ⟨c, l', t⟩ sw lab = matcherOf ⟨c, l, t⟩ sw lab := rfl

theorem emitCase_congr (sw : BasicType) (uc : UnionCase) : emitCase ⟨c, l', t⟩ sw uc = emitCase ⟨c, l, t⟩ sw uc := by
  simp only [emitCase, decodeArray_congr c t l l' h]
  rfl

omit h in
theorem emitVoid_congr (sw : BasicType) (lab : String) : emitVoid ⟨c, l', t⟩ sw lab = emitVoid ⟨c, l, t⟩ sw lab := rfl

theorem emitUnion_congr (u : Union) : emitUnion ⟨c, l', t⟩ u = emitUnion ⟨c, l, t⟩ u := by
  have e1 : emitCase ⟨c, l', t⟩ u.switch.varType = emitCase ⟨c, l, t⟩ u.switch.varType :=
    funext (emitCase_congr c t l l' h u.switch.varType)
  have e2 : emitVoid ⟨c, l', t⟩ u.switch.varType = emitVoid ⟨c, l, t⟩ u.switch.varType := rfl
  simp only [emitUnion, e1, e2, decodeArray_congr c t l l' h]
  rfl

theorem emitImpl_congr (ty : AstType) : emitImpl ⟨c, l', t⟩ ty = emitImpl ⟨c, l, t⟩ ty := by
  have e1 : emitStructField ⟨c, l', t⟩ = emitStructField ⟨c, l, t⟩ := funext (emitStructField_congr c t l l' h)
  cases ty <;> simp only [emitImpl, e1, emitUnion_congr c t l l' h, decodeArray_congr c t l l' h, isGeneric_congr c t l l' h]

theorem emitSize_congr (ty : AstType) : emitSize ⟨c, l', t⟩ ty = emitSize ⟨c, l, t⟩ ty := by
  cases ty <;> simp only [emitSize, isGeneric_congr c t l l' h]

theorem payloadTy_congr (at_ : ArrayType) : payloadTy ⟨c, l', t⟩ at_ = payloadTy ⟨c, l, t⟩ at_ := by
  simp only [payloadTy, isGeneric_congr c t l l' h]

theorem armTy_congr (at_ : ArrayType) : armTy ⟨c, l', t⟩ at_ = armTy ⟨c, l, t⟩ at_ := by
  simp only [armTy, isGeneric_congr c t l l' h, payloadTy_congr c t l l' h]

theorem targetGeneric_congr (b : BasicType) : Ast.targetGeneric ⟨c, l', t⟩ b = Ast.targetGeneric ⟨c, l, t⟩ b := by
  cases b <;> simp only [Ast.targetGeneric, isGeneric_congr c t l l' h]

theorem emitTypeDecl_congr (ty : AstType) : emitTypeDecl ⟨c, l', t⟩ ty = emitTypeDecl ⟨c, l, t⟩ ty := by
  cases ty <;> simp only [emitTypeDecl, isGeneric_congr c t l l' h, payloadTy_congr c t l l' h, armTy_congr c t l l' h,
    targetGeneric_congr c t l l' h]

/-- **the emitters use the generic index only as a set** -/
theorem generateModule_membership_only : generateModule ⟨c, l', t⟩ = generateModule ⟨c, l, t⟩ := by
  have e1 : emitImpl ⟨c, l', t⟩ = emitImpl ⟨c, l, t⟩ := funext (emitImpl_congr c t l l' h)
  have e2 : emitSize ⟨c, l', t⟩ = emitSize ⟨c, l, t⟩ := funext (emitSize_congr c t l l' h)
  have e3 : emitTypeDecl ⟨c, l', t⟩ = emitTypeDecl ⟨c, l, t⟩ := funext (emitTypeDecl_congr c t l l' h)
  simp only [generateModule, emitFrom, emitWireSize, emitTypes, e1, e2, e3]

end

end Fx
