/-
  Fx.Lemmas.Enc — facts about the RFC 4506 encoding of reference values.
-/
import Fx.Xdr
import Fx.Lemmas.Runtime
namespace Fx

mutual
/-- every XDR encoding is a whole number of 4-byte words -/
theorem XVal.enc_len_mod4 (x : XVal) : x.enc.length % 4 = 0 := by
  cases x with
  | u32 n => simp [XVal.enc]
  | i32 i => simp [XVal.enc]
  | u64 n => simp [XVal.enc]
  | i64 i => simp [XVal.enc]
  | f32 b => simp [XVal.enc]
  | f64 b => simp [XVal.enc]
  | bool b => simp [XVal.enc]
  | str bs => simp [XVal.enc]; have := padLen_mod bs.length; omega
  | varOpaque bs => simp [XVal.enc]; have := padLen_mod bs.length; omega
  | fixedOpaque bs => simp [XVal.enc]; exact padLen_mod bs.length
  | varArr xs => simp [XVal.enc]; have := XVals.enc_len_mod4 xs; omega
  | fixedArr xs => simp [XVal.enc]; exact XVals.enc_len_mod4 xs
  | optNone => simp [XVal.enc]
  | optSome v => simp [XVal.enc]; have := XVal.enc_len_mod4 v; omega
  | struct fs => simp [XVal.enc]; exact XVals.enc_len_mod4 fs
  | union d arm => simp [XVal.enc]; have := XVal.enc_len_mod4 arm; omega
  | void => simp [XVal.enc]
  | enumv n => simp [XVal.enc]
  | alias v => simp [XVal.enc]; exact XVal.enc_len_mod4 v
theorem XVals.enc_len_mod4 (xs : XVals) : xs.enc.length % 4 = 0 := by
  cases xs with
  | nil => simp [XVals.enc]
  | cons v vs =>
    simp [XVals.enc]
    have := XVal.enc_len_mod4 v
    have := XVals.enc_len_mod4 vs
    omega
end

end Fx
