/-
  Fx.Lemmas.PegFuel — the recursion budget of the parser model is not observable: once a parse answers
  (accepts or rejects), every larger budget gives the same answer, tokens included.
-/
import Fx.Peg
namespace Fx.Peg

/-- `r'` is `r` wherever `r` is an answer -/
def Same (r r' : PR) : Prop := r ≠ .outOfFuel → r' = r

theorem Same.of_eq {r r' : PR} (h : r' = r) : Same r r' := fun _ => h

theorem skipOr_same (g : Grammar) (f : Nat) (atomic : Bool) (s : St) (hS : ∀ s, Same (skip g f s) (skip g (f + 1) s)) :
    Same (if atomic then PR.ok s [] else skip g f s) (if atomic then PR.ok s [] else skip g (f + 1) s) := by
  cases atomic
  · simpa using hS s
  · exact Same.of_eq rfl

/-! one-step unfoldings at a variable budget (so that the inner calls stay folded) -/

theorem eval_ref (g : Grammar) (k : Nat) (atomic : Bool) (n : String) (s : St) :
    eval g (k + 1) atomic (.ref n) s = evalRule g k atomic n s := by simp only [eval]

theorem eval_seq (g : Grammar) (k : Nat) (atomic : Bool) (a b : Expr) (s : St) :
    eval g (k + 1) atomic (.seq a b) s =
      (match eval g k atomic a s with
       | .ok s1 t1 =>
         (match (if atomic then PR.ok s1 [] else skip g k s1) with
          | .ok s1' _ =>
            match eval g k atomic b s1' with
            | .ok s2 t2 => .ok s2 (t1 ++ t2)
            | r => r
          | r => r)
       | r => r) := by simp only [eval]; rfl

theorem eval_alt (g : Grammar) (k : Nat) (atomic : Bool) (a b : Expr) (s : St) :
    eval g (k + 1) atomic (.alt a b) s = (match eval g k atomic a s with | .fail => eval g k atomic b s | r => r) := by
  simp only [eval]; rfl

theorem eval_opt (g : Grammar) (k : Nat) (atomic : Bool) (e : Expr) (s : St) :
    eval g (k + 1) atomic (.opt e) s = (match eval g k atomic e s with | .fail => .ok s [] | r => r) := by simp only [eval]; rfl

theorem eval_not (g : Grammar) (k : Nat) (atomic : Bool) (e : Expr) (s : St) :
    eval g (k + 1) atomic (.not e) s =
      (match eval g k atomic e s with | .ok _ _ => .fail | .fail => .ok s [] | .outOfFuel => .outOfFuel) := by simp only [eval]; rfl

theorem eval_star (g : Grammar) (k : Nat) (atomic : Bool) (e : Expr) (s : St) :
    eval g (k + 1) atomic (.star e) s =
      (match eval g k atomic e s with
       | .ok s1 t1 => repeatMore g k atomic e s1 t1
       | .fail => .ok s []
       | .outOfFuel => .outOfFuel) := by simp only [eval]; rfl

theorem eval_plus (g : Grammar) (k : Nat) (atomic : Bool) (e : Expr) (s : St) :
    eval g (k + 1) atomic (.plus e) s = eval g k atomic (.seq e (.star e)) s := by simp only [eval]

theorem repeatMore_unf (g : Grammar) (k : Nat) (atomic : Bool) (e : Expr) (s : St) (acc : List Pair) :
    repeatMore g (k + 1) atomic e s acc =
      (match (if atomic then PR.ok s [] else skip g k s) with
       | .ok s' _ =>
         (match eval g k atomic e s' with
          | .ok s2 t2 => if s2.pos = s.pos then .ok s acc else repeatMore g k atomic e s2 (acc ++ t2)
          | .fail => .ok s acc
          | .outOfFuel => .outOfFuel)
       | .fail => .ok s acc
       | .outOfFuel => .outOfFuel) := by simp only [repeatMore]; rfl

theorem evalRule_unf (g : Grammar) (k : Nat) (atomic : Bool) (n : String) (s : St) :
    evalRule g (k + 1) atomic n s =
      (match g.find n with
       | none => .fail
       | some r =>
         if n == "WHITESPACE" || n == "COMMENT" then
           match eval g k true r.body s with
           | .ok s' _ => .ok s' []
           | x => x
         else match r.ty with
         | .silent => eval g k atomic r.body s
         | .normal =>
           (match eval g k atomic r.body s with
            | .ok s' ts => if atomic then .ok s' [] else .ok s' [Pair.mk n (consumed s s') ts]
            | x => x)
         | .atomic =>
           (match eval g k true r.body s with
            | .ok s' _ => if atomic then .ok s' [] else .ok s' [Pair.mk n (consumed s s') []]
            | x => x)) := by simp only [evalRule]; rfl

theorem skipWs_unf (g : Grammar) (k : Nat) (s : St) :
    skipWs g (k + 1) s =
      (match evalRule g k true "WHITESPACE" s with
       | .ok s' _ => if s'.pos = s.pos then .ok s [] else skipWs g k s'
       | .fail => .ok s []
       | .outOfFuel => .outOfFuel) := by simp only [skipWs]; rfl

theorem skip_unf (g : Grammar) (k : Nat) (s : St) :
    skip g (k + 1) s =
      (match skipWs g k s with
       | .ok s1 _ =>
         (match evalRule g k true "COMMENT" s1 with
          | .ok s2 _ => if s2.pos = s1.pos then .ok s1 [] else skip g k s2
          | .fail => .ok s1 []
          | .outOfFuel => .outOfFuel)
       | x => x) := by simp only [skip]; rfl

theorem fuel_succ (g : Grammar) (f : Nat) :
    (∀ atomic e s, Same (eval g f atomic e s) (eval g (f + 1) atomic e s)) ∧
    (∀ atomic e s acc, Same (repeatMore g f atomic e s acc) (repeatMore g (f + 1) atomic e s acc)) ∧
    (∀ atomic n s, Same (evalRule g f atomic n s) (evalRule g (f + 1) atomic n s)) ∧
    (∀ s, Same (skipWs g f s) (skipWs g (f + 1) s)) ∧
    (∀ s, Same (skip g f s) (skip g (f + 1) s)) := by
  induction f with
  | zero => refine ⟨?_, ?_, ?_, ?_, ?_⟩ <;> intros <;> intro h <;> simp [eval, repeatMore, evalRule, skipWs, skip] at h
  | succ f ih =>
    obtain ⟨ihE, ihR, ihU, ihW, ihS⟩ := ih
    refine ⟨?_, ?_, ?_, ?_, ?_⟩
    · intro atomic e s
      cases e with
      | str t => exact Same.of_eq (by simp [eval])
      | any => exact Same.of_eq (by simp [eval])
      | soi => exact Same.of_eq (by simp [eval])
      | eoi => exact Same.of_eq (by simp [eval])
      | digit => exact Same.of_eq (by simp [eval])
      | alnum => exact Same.of_eq (by simp [eval])
      | newline => exact Same.of_eq (by simp [eval])
      | ref n => intro h; rw [eval_ref g f] at h; rw [eval_ref g (f + 1), eval_ref g f]; exact ihU atomic n s h
      | seq a b =>
        intro h
        rw [eval_seq g f] at h; rw [eval_seq g (f + 1), eval_seq g f]
        have h1 : eval g f atomic a s ≠ .outOfFuel := by intro e; rw [e] at h; exact h rfl
        rw [ihE atomic a s h1]
        cases hra : eval g f atomic a s with
        | outOfFuel => exact absurd hra h1
        | fail => rfl
        | ok s1 t1 =>
          rw [hra] at h
          simp only at h ⊢
          have h2 : (if atomic then PR.ok s1 [] else skip g f s1) ≠ .outOfFuel := by intro e; rw [e] at h; exact h rfl
          rw [skipOr_same g f atomic s1 ihS h2]
          cases hsk : (if atomic then PR.ok s1 [] else skip g f s1) with
          | outOfFuel => exact absurd hsk h2
          | fail => rfl
          | ok s1' x =>
            rw [hsk] at h
            simp only at h ⊢
            have h3 : eval g f atomic b s1' ≠ .outOfFuel := by intro e; rw [e] at h; exact h rfl
            rw [ihE atomic b s1' h3]
      | alt a b =>
        intro h
        rw [eval_alt g f] at h; rw [eval_alt g (f + 1), eval_alt g f]
        have h1 : eval g f atomic a s ≠ .outOfFuel := by intro e; rw [e] at h; exact h rfl
        rw [ihE atomic a s h1]
        cases hra : eval g f atomic a s with
        | outOfFuel => exact absurd hra h1
        | fail => rw [hra] at h; simp only at h ⊢; exact ihE atomic b s h
        | ok s1 t1 => rfl
      | opt e =>
        intro h
        rw [eval_opt g f] at h; rw [eval_opt g (f + 1), eval_opt g f]
        have h1 : eval g f atomic e s ≠ .outOfFuel := by intro e'; rw [e'] at h; exact h rfl
        rw [ihE atomic e s h1]
      | not e =>
        intro h
        rw [eval_not g f] at h; rw [eval_not g (f + 1), eval_not g f]
        have h1 : eval g f atomic e s ≠ .outOfFuel := by intro e'; rw [e'] at h; exact h rfl
        rw [ihE atomic e s h1]
      | star e =>
        intro h
        rw [eval_star g f] at h; rw [eval_star g (f + 1), eval_star g f]
        have h1 : eval g f atomic e s ≠ .outOfFuel := by intro e'; rw [e'] at h; exact h rfl
        rw [ihE atomic e s h1]
        cases hre : eval g f atomic e s with
        | outOfFuel => exact absurd hre h1
        | fail => rfl
        | ok s1 t1 => rw [hre] at h; simp only at h ⊢; exact ihR atomic e s1 t1 h
      | plus e => intro h; rw [eval_plus g f] at h; rw [eval_plus g (f + 1), eval_plus g f]; exact ihE atomic (.seq e (.star e)) s h
    · intro atomic e s acc h
      rw [repeatMore_unf g f] at h; rw [repeatMore_unf g (f + 1), repeatMore_unf g f]
      have h2 : (if atomic then PR.ok s [] else skip g f s) ≠ .outOfFuel := by intro e'; rw [e'] at h; exact h rfl
      rw [skipOr_same g f atomic s ihS h2]
      cases hsk : (if atomic then PR.ok s [] else skip g f s) with
      | outOfFuel => exact absurd hsk h2
      | fail => rfl
      | ok s' x =>
        rw [hsk] at h
        simp only at h ⊢
        have h3 : eval g f atomic e s' ≠ .outOfFuel := by intro e'; rw [e'] at h; exact h rfl
        rw [ihE atomic e s' h3]
        cases hre : eval g f atomic e s' with
        | outOfFuel => exact absurd hre h3
        | fail => rfl
        | ok s2 t2 =>
          rw [hre] at h
          simp only at h ⊢
          split
          · rfl
          · rename_i hne
            simp only [hne, if_false] at h
            exact ihR atomic e s2 (acc ++ t2) h
    · intro atomic n s h
      rw [evalRule_unf g f] at h; rw [evalRule_unf g (f + 1), evalRule_unf g f]
      cases hfd : g.find n with
      | none => rfl
      | some r =>
        rw [hfd] at h
        simp only at h ⊢
        split
        · rename_i hws
          simp only [hws, if_true] at h
          have h1 : eval g f true r.body s ≠ .outOfFuel := by intro e'; rw [e'] at h; exact h rfl
          rw [ihE true r.body s h1]
        · rename_i hws
          simp only [hws, if_false] at h
          cases hty : r.ty with
          | silent => rw [hty] at h; simp only at h ⊢; exact ihE atomic r.body s h
          | normal =>
            rw [hty] at h
            simp only at h ⊢
            have h1 : eval g f atomic r.body s ≠ .outOfFuel := by intro e'; rw [e'] at h; exact h rfl
            rw [ihE atomic r.body s h1]
          | atomic =>
            rw [hty] at h
            simp only at h ⊢
            have h1 : eval g f true r.body s ≠ .outOfFuel := by intro e'; rw [e'] at h; exact h rfl
            rw [ihE true r.body s h1]
    · intro s h
      rw [skipWs_unf g f] at h; rw [skipWs_unf g (f + 1), skipWs_unf g f]
      have h1 : evalRule g f true "WHITESPACE" s ≠ .outOfFuel := by intro e'; rw [e'] at h; exact h rfl
      rw [ihU true "WHITESPACE" s h1]
      cases hr : evalRule g f true "WHITESPACE" s with
      | outOfFuel => exact absurd hr h1
      | fail => rfl
      | ok s' x =>
        rw [hr] at h
        simp only at h ⊢
        split
        · rfl
        · rename_i hne
          simp only [hne, if_false] at h
          exact ihW s' h
    · intro s h
      rw [skip_unf g f] at h; rw [skip_unf g (f + 1), skip_unf g f]
      have h1 : skipWs g f s ≠ .outOfFuel := by intro e'; rw [e'] at h; exact h rfl
      rw [ihW s h1]
      cases hr : skipWs g f s with
      | outOfFuel => exact absurd hr h1
      | fail => rfl
      | ok s1 x =>
        rw [hr] at h
        simp only at h ⊢
        have h2 : evalRule g f true "COMMENT" s1 ≠ .outOfFuel := by intro e'; rw [e'] at h; exact h rfl
        rw [ihU true "COMMENT" s1 h2]
        cases hc : evalRule g f true "COMMENT" s1 with
        | outOfFuel => exact absurd hc h2
        | fail => rfl
        | ok s2 y =>
          rw [hc] at h
          simp only at h ⊢
          split
          · rfl
          · rename_i hne
            simp only [hne, if_false] at h
            exact ihS s2 h

/-- any larger budget -/
theorem evalRule_fuel_mono (g : Grammar) (atomic : Bool) (n : String) (s : St) (f f' : Nat) (hff : f ≤ f')
    (h : evalRule g f atomic n s ≠ .outOfFuel) : evalRule g f' atomic n s = evalRule g f atomic n s := by
  induction f' with
  | zero =>
    have : f = 0 := by omega
    subst this; rfl
  | succ k ih =>
    by_cases hk : f ≤ k
    · have e := ih hk
      rw [← e]
      exact (fuel_succ g k).2.2.1 atomic n s (by rw [e]; exact h)
    · have : f = k + 1 := by omega
      subst this; rfl

end Fx.Peg
