/-
  Fx.Lemmas.ParseAst — `walk` on the token tree of a specification, in closed form: the node list each declaration
  becomes, computed from the declaration itself (no tokens, no layout), handed to the constructors of `src/ast`.
-/
import Fx.Lemmas.ParseNorm
import Fx.Lemmas.WalkTotal
namespace Fx.Parse
open Fx.Peg

/-- the built-in type a spelling denotes -/
def Prim.basic : Prim → BasicType
  | .int => .i32 | .hyper => .i64 | .uint _ => .u32 | .uhyper _ => .u64
  | .float => .f32 | .double => .f64 | .string => .string | .opaque => .opaque

theorem ofStr_prim_basic (pr : Prim) (t : List Char) (hp : pr.ok = true) (ht : wsRun t = true) :
    BasicType.ofStr (String.ofList (pr.words ++ t)) = pr.basic := by
  have h := normWs_prim pr t hp ht
  simp only [BasicType.ofStr, h]
  cases pr <;> rfl

/-- `BasicType::from` of a name as written (a name that spells `bool`, `uint32_t`, … is that built-in type) -/
def nameTy (n : List Char) : BasicType := BasicType.ofStr (String.ofList n)

def TyRef.node : TyRef → Node
  | .named n => .type (nameTy n)
  | .prim pr _ => .type pr.basic

def Lit.node (l : Lit) : Node := .type (nameTy l.text)

def Arr.node : Arr → Node
  | .var _ none => .arrayVariable ""
  | .var _ (some (n, _)) => .arrayVariable (String.ofList n.text)
  | .fixed _ n _ => .arrayFixed (String.ofList n.text)

def Field.nameNode (f : Field) : Node :=
  match f.star with
  | none => .type (nameTy f.name)
  | some _ => .option [.type (nameTy f.name)]

def arrNodes : Option (Arr × Layout) → List Node
  | none => []
  | some (a, _) => [a.node]

def Field.nodes (f : Field) : List Node := f.ty.node :: f.nameNode :: arrNodes f.arr

/-! one-step readings of `walk` (the children stay folded) -/
theorem walkAll_one (p : Pair) : walkAll [p] = (walk p).bind fun n => .ok [n] := by
  simp only [walkAll]
  cases walk p <;> simp [Out.bind]
theorem walk_ident (t : List Char) (cs : List Pair) : walk (.mk "ident" t cs) = .ok (.type (nameTy t)) := by simp only [walk]; rfl
theorem walk_identConst (t : List Char) (cs : List Pair) : walk (.mk "ident_const" t cs) = .ok (.type (nameTy t)) := by simp only [walk]; rfl
theorem walk_identValue (t : List Char) (cs : List Pair) : walk (.mk "ident_value" t cs) = .ok (.type (nameTy t)) := by simp only [walk]; rfl
theorem walk_basic (t : List Char) (cs : List Pair) : walk (.mk "basic_type" t cs) = .ok (.type (BasicType.ofStr (String.ofList t))) := by
  simp only [walk]
theorem walk_av (t : List Char) (cs : List Pair) : walk (.mk "array_variable" t cs) = .ok (.arrayVariable (innerStr cs)) := by simp only [walk]
theorem walk_af (t : List Char) (cs : List Pair) : walk (.mk "array_fixed" t cs) = .ok (.arrayFixed (innerStr cs)) := by simp only [walk]
theorem walk_optionT (t : List Char) (cs : List Pair) : walk (.mk "option" t cs) = (walkAll cs).bind fun ns => .ok (.option ns) := by simp only [walk]
theorem walk_constT (t : List Char) (cs : List Pair) : walk (.mk "constant" t cs) = (walkAll cs).bind fun ns => .ok (.constant ns) := by simp only [walk]
theorem walk_typedefT (t : List Char) (cs : List Pair) :
    walk (.mk "typedef" t cs) = (walkAll cs).bind fun ns => (Typedef.new ns).bind fun x => .ok (.typedef x) := by simp only [walk]
theorem walk_enumT (t : List Char) (cs : List Pair) :
    walk (.mk "enum_type" t cs) = (walkAll cs).bind fun ns => (Enum.new ns).bind fun x => .ok (.enum x) := by simp only [walk]
theorem walk_evT (t : List Char) (cs : List Pair) : walk (.mk "enum_variant" t cs) = (walkAll cs).bind fun ns => .ok (.enumVariant ns) := by
  simp only [walk]
theorem walk_structT (t : List Char) (cs : List Pair) :
    walk (.mk "struct_type" t cs) = (walkAll cs).bind fun ns => (Struct.new ns).bind fun x => .ok (.struct x) := by simp only [walk]
theorem walk_sdfT (t : List Char) (cs : List Pair) : walk (.mk "struct_data_field" t cs) = (walkAll cs).bind fun ns => .ok (.structDataField ns) := by
  simp only [walk]
theorem walk_udfT (t : List Char) (cs : List Pair) : walk (.mk "union_data_field" t cs) = (walkAll cs).bind fun ns => .ok (.unionDataField ns) := by
  simp only [walk]
theorem walk_unionT (t : List Char) (cs : List Pair) :
    walk (.mk "union" t cs) = (walkAll cs).bind fun ns => (Union.new ns).bind fun x => .ok (.union x) := by simp only [walk]
theorem walk_ucT (t : List Char) (cs : List Pair) : walk (.mk "union_case" t cs) = (walkAll cs).bind fun ns => .ok (.unionCase ns) := by simp only [walk]
theorem walk_udT (t : List Char) (cs : List Pair) : walk (.mk "union_default" t cs) = (walkAll cs).bind fun ns => .ok (.unionDefault ns) := by
  simp only [walk]
theorem walk_uvT (t : List Char) (cs : List Pair) : walk (.mk "union_void" t cs) = .ok .unionVoid := by simp only [walk]
theorem walk_itemT (t : List Char) (cs : List Pair) : walk (.mk "item" t cs) = (walkAll cs).bind fun ns => .ok (.root ns) := by simp only [walk]
theorem walk_eoiT (t : List Char) (cs : List Pair) : walk (.mk "EOI" t cs) = .ok .eof := by simp only [walk]
theorem walkAll_cons_ok (p : Pair) (ps : List Pair) (n : Node) (ns : List Node) (h1 : walk p = .ok n) (h2 : walkAll ps = .ok ns) :
    walkAll (p :: ps) = .ok (n :: ns) := by simp only [walkAll, h1, h2, Out.bind_ok]

theorem walk_tyref (t : TyRef) (h : t.ok = true) : walkAll t.tokens = .ok [t.node] := by
  cases t with
  | named n => exact walkAll_cons_ok _ _ _ _ (walk_ident n []) rfl
  | prim pr tr =>
    simp only [TyRef.ok, Bool.and_eq_true] at h
    refine walkAll_cons_ok _ _ _ _ ?_ rfl
    rw [walk_basic, ofStr_prim_basic pr tr h.1 h.2]; rfl

theorem walk_lit (l : Lit) : walkAll l.tokens = .ok [l.node] := by
  cases l with
  | num d => exact walkAll_cons_ok _ _ _ _ (walk_identValue d []) rfl
  | name n => exact walkAll_cons_ok _ _ _ _ (walk_identConst n _) rfl

theorem innerStr_lit (l : Lit) : innerStr l.tokens = String.ofList l.text := by
  cases l <;> rfl

theorem walk_arr (a : Arr) : walkAll a.tokens = .ok [a.node] := by
  cases a with
  | var l1 len =>
    cases len with
    | none => exact walkAll_cons_ok _ _ _ _ (by rw [walk_av]; rfl) rfl
    | some nl' =>
      obtain ⟨n, l2⟩ := nl'
      exact walkAll_cons_ok _ _ _ _ (by rw [walk_av, innerStr_lit]; rfl) rfl
  | fixed l1 n l2 => exact walkAll_cons_ok _ _ _ _ (by rw [walk_af, innerStr_lit]; rfl) rfl

theorem walk_nameToks (f : Field) : walkAll f.nameToks = .ok [f.nameNode] := by
  simp only [Field.nameToks, Field.nameNode]
  cases f.star with
  | none => exact walkAll_cons_ok _ _ _ _ (walk_ident _ []) rfl
  | some ls =>
    refine walkAll_cons_ok _ _ _ _ ?_ rfl
    rw [walk_optionT, walkAll_cons_ok _ _ _ _ (walk_ident f.name []) rfl]; rfl

theorem walk_arrToks (a : Option (Arr × Layout)) : walkAll (arrToks a) = .ok (arrNodes a) := by
  cases a with
  | none => rfl
  | some al => exact walk_arr al.1

theorem walk_field (f : Field) (h : f.ok = true) : walkAll f.tokens = .ok f.nodes := by
  simp only [Field.ok, Bool.and_eq_true] at h
  simp only [Field.tokens, Field.nodes]
  rw [walkAll_append, walk_tyref f.ty h.1.1.1.1.1.1, Out.bind_ok, walkAll_append, walk_nameToks, Out.bind_ok, walk_arrToks]
  rfl

/-! ### lists of elements -/

def mapOutL {α β} (f : α → Out β) : List α → Out (List β) := mapOut f

theorem walkAll_elems {α : Type} (l : List α) (el : α → Elem) (node : α → Out Node)
    (h : ∀ x ∈ l, walkAll (el x).TS = (node x).bind fun n => .ok [n]) :
    walkAll (elemToks (l.map el)) = mapOut node l := by
  induction l with
  | nil => simp [elemToks, walkAll, mapOut]
  | cons x xs ih =>
    have hx := h x (by simp)
    have hxs := ih (fun y hy => h y (by simp [hy]))
    simp only [List.map_cons, elemToks, List.flatten_cons, mapOut]
    rw [walkAll_append, hx]
    have : walkAll (List.map (fun x => x.TS) (List.map el xs)).flatten = mapOut node xs := by simpa [elemToks] using hxs
    rw [this]
    cases node x with
    | panicAt f m => rfl
    | ok n =>
      simp only [Out.bind_ok]
      cases mapOut node xs with
      | panicAt f m => rfl
      | ok ns => simp

/-! ### declarations -/

def ConstD.node (d : ConstD) : Out Node := .ok (.constant [.type (nameTy d.name), .type (nameTy d.val)])

def TypedefD.node (d : TypedefD) : Out Node := (Typedef.new d.f.nodes).bind fun t => .ok (.typedef t)

def VariantD.node (v : VariantD) : Node := .enumVariant [.type (nameTy v.name), .type (nameTy v.val)]

def EnumD.node (d : EnumD) : Out Node :=
  (Enum.new (.type (nameTy d.name) :: d.first.node :: d.more.map (fun m => m.2.1.node))).bind fun e => .ok (.enum e)

def StructD.node (d : StructD) : Out Node :=
  (Struct.new (.type (nameTy d.name) :: d.fields.map (fun fl => Node.structDataField fl.1.nodes))).bind fun s => .ok (.struct s)

def Body.node : Body → Node
  | .void _ => .unionVoid
  | .field f => .unionDataField f.nodes

def Arm.node : Arm → Node
  | .case _ lab _ _ body => .unionCase (lab.node :: (match body with | none => [] | some b => [b.node]))
  | .dflt _ _ body => .unionDefault [body.node]

def UnionD.node (d : UnionD) : Out Node :=
  (Union.new (.type (nameTy d.name) :: d.ty.node :: .type (nameTy d.var) :: d.arms.map (fun al => al.1.node))).bind
    fun u => .ok (.union u)

def Decl.node : Decl → Out Node
  | .const d => d.node
  | .typedef d => d.node
  | .enum d => d.node
  | .struct d => d.node
  | .union d => d.node

def optBodyNodes : Option Body → List Node
  | none => []
  | some b => [b.node]

theorem mapOut_ok {α β} (f : α → β) (l : List α) : mapOut (fun x => Out.ok (f x)) l = .ok (l.map f) := by
  induction l with
  | nil => rfl
  | cons x xs ih => simp [mapOut, ih]

theorem one_of_bind {o : Out Node} : (o.bind fun n => Out.ok [n]) = (o.bind fun n => .ok [n]) := rfl

theorem walk_const (d : ConstD) : walkAll d.tokens = d.node.bind fun n => .ok [n] := by
  simp only [ConstD.tokens, ConstD.node, Out.bind_ok]
  refine walkAll_cons_ok _ _ _ _ ?_ rfl
  rw [walk_constT, walkAll_cons_ok _ _ _ _ (walk_ident d.name []) (walkAll_cons_ok _ _ _ _ (walk_ident d.val []) rfl)]; rfl

theorem walk_typedef (d : TypedefD) (h : d.ok = true) : walkAll d.tokens = d.node.bind fun n => .ok [n] := by
  simp only [TypedefD.ok, Bool.and_eq_true] at h
  simp only [TypedefD.tokens, TypedefD.node]
  rw [walkAll_one, walk_typedefT, walk_field d.f h.1.2, Out.bind_ok]

theorem walk_variant (v : VariantD) : walkAll v.tokens = .ok [v.node] := by
  refine walkAll_cons_ok _ _ _ _ ?_ rfl
  rw [walk_evT, walkAll_cons_ok _ _ _ _ (walk_ident v.name []) (walkAll_cons_ok _ _ _ _ (walk_ident v.val []) rfl)]; rfl

theorem walk_enum (d : EnumD) : walkAll d.tokens = d.node.bind fun n => .ok [n] := by
  have hmore : walkAll (elemToks (d.more.map moreElem)) = .ok (d.more.map (fun m => m.2.1.node)) := by
    rw [walkAll_elems d.more moreElem (fun m => .ok m.2.1.node) (fun m _ => by simpa [moreElem] using walk_variant m.2.1)]
    exact mapOut_ok _ _
  have hcs : walkAll (Pair.mk "ident" d.name [] :: (d.first.tokens ++ elemToks (d.more.map moreElem))) =
      .ok (.type (nameTy d.name) :: d.first.node :: d.more.map (fun m => m.2.1.node)) := by
    refine walkAll_cons_ok _ _ _ _ (walk_ident _ _) ?_
    rw [walkAll_append, walk_variant, Out.bind_ok, hmore]; rfl
  simp only [EnumD.tokens, EnumD.node]
  rw [walkAll_one, walk_enumT, hcs, Out.bind_ok]

theorem walk_struct (d : StructD) (h : d.ok = true) : walkAll d.tokens = d.node.bind fun n => .ok [n] := by
  simp only [StructD.ok, Bool.and_eq_true, List.all_eq_true] at h
  have hfs : walkAll (elemToks (d.fields.map (fieldElem "struct_data_field"))) =
      .ok (d.fields.map (fun fl => Node.structDataField fl.1.nodes)) := by
    rw [walkAll_elems d.fields (fieldElem "struct_data_field") (fun fl => .ok (Node.structDataField fl.1.nodes)) (fun fl hfl => by
      have := (h.1.2 fl hfl).1
      simp only [fieldElem, Out.bind_ok]
      exact walkAll_cons_ok _ _ _ _ (by rw [walk_sdfT, walk_field fl.1 this]; rfl) rfl)]
    exact mapOut_ok _ _
  have hcs : walkAll (Pair.mk "ident" d.name [] :: elemToks (d.fields.map (fieldElem "struct_data_field"))) =
      .ok (.type (nameTy d.name) :: d.fields.map (fun fl => Node.structDataField fl.1.nodes)) :=
    walkAll_cons_ok _ _ _ _ (walk_ident _ _) hfs
  simp only [StructD.tokens, StructD.node]
  rw [walkAll_one, walk_structT, hcs, Out.bind_ok]

theorem walk_body (b : Body) (h : b.ok = true) : walkAll b.tokens = .ok [b.node] := by
  cases b with
  | void l => exact walkAll_cons_ok _ _ _ _ (walk_uvT _ _) rfl
  | field f => exact walkAll_cons_ok _ _ _ _ (by rw [walk_udfT, walk_field f h]; rfl) rfl

theorem walk_optBody (b : Option Body) (h : (match b with | none => true | some b => b.ok) = true) :
    walkAll (optBodyToks b) = .ok (optBodyNodes b) := by
  cases b with
  | none => rfl
  | some b => exact walk_body b h

theorem walk_arm (a : Arm) (h : a.ok = true) : walkAll a.tokens = .ok [a.node] := by
  cases a with
  | case la lab lb lc body =>
    simp only [Arm.ok, Bool.and_eq_true] at h
    refine walkAll_cons_ok _ _ _ _ ?_ rfl
    rw [walk_ucT, walkAll_append, walk_lit, Out.bind_ok, walk_optBody body h.2]
    cases body <;> rfl
  | dflt la lb body =>
    simp only [Arm.ok, Bool.and_eq_true] at h
    refine walkAll_cons_ok _ _ _ _ ?_ rfl
    rw [walk_udT, walk_body body h.2]; rfl

theorem walk_union (d : UnionD) (h : d.ok = true) : walkAll d.tokens = d.node.bind fun n => .ok [n] := by
  simp only [UnionD.ok, Bool.and_eq_true] at h
  obtain ⟨⟨⟨⟨⟨⟨⟨⟨⟨⟨⟨⟨⟨⟨_, _⟩, _⟩, _⟩, _⟩, hty⟩, _⟩, _⟩, _⟩, _⟩, _⟩, harms⟩, _⟩, _⟩, _⟩ := h
  have hfs : walkAll (elemToks (d.arms.map armElem)) = .ok (d.arms.map (fun al => al.1.node)) := by
    rw [walkAll_elems d.arms armElem (fun al => .ok al.1.node) (fun al hal => by
      have := (List.all_eq_true.mp harms) al hal
      simp only [Bool.and_eq_true] at this
      simpa [armElem] using walk_arm al.1 this.1.1)]
    exact mapOut_ok _ _
  have hcs : walkAll (Pair.mk "ident" d.name [] :: (d.ty.tokens ++ (Pair.mk "ident" d.var [] :: elemToks (d.arms.map armElem)))) =
      .ok (.type (nameTy d.name) :: d.ty.node :: .type (nameTy d.var) :: d.arms.map (fun al => al.1.node)) := by
    refine walkAll_cons_ok _ _ _ _ (walk_ident _ _) ?_
    rw [walkAll_append, walk_tyref d.ty hty, Out.bind_ok, walkAll_cons_ok _ _ _ _ (walk_ident d.var []) hfs]; rfl
  simp only [UnionD.tokens, UnionD.node]
  rw [walkAll_one, walk_unionT, hcs, Out.bind_ok]

theorem walk_decl (d : Decl) (h : d.ok = true) : walkAll d.tokens = d.node.bind fun n => .ok [n] := by
  cases d with
  | const d => exact walk_const d
  | typedef d => exact walk_typedef d h
  | enum d => exact walk_enum d
  | struct d => exact walk_struct d h
  | union d => exact walk_union d h

/-- **`walk` on the token tree of a specification**: one node per declaration, each built by its constructor from the
    node list the declaration itself determines, then the end-of-input node -/
theorem walk_root (s : Spec) (h : s.ok = true) :
    walk s.root = (mapOut (fun dl : Decl × Layout => dl.1.node) s.decls).bind fun ns => .ok (.root (ns ++ [.eof])) := by
  simp only [Spec.ok, Bool.and_eq_true, List.all_eq_true] at h
  simp only [Spec.root, Spec.children]
  rw [walk_itemT, walkAll_append, walkAll_elems s.decls declElem (fun dl => dl.1.node) (fun dl hdl => by
    simpa [declElem] using walk_decl dl.1 (h.2 dl hdl).1)]
  cases mapOut (fun dl : Decl × Layout => dl.1.node) s.decls with
  | panicAt f m => rfl
  | ok ns =>
    simp only [Out.bind_ok]
    rw [walkAll_cons_ok _ _ _ _ (walk_eoiT [] []) rfl]; rfl

end Fx.Parse
