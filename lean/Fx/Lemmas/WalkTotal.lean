/-
  Fx.Lemmas.WalkTotal — from the shape of the parser's token trees (`Fx.Lemmas.PegShape`) to the panic sites of the front end:
  on every tree the grammar of `src/xdr.pest` can produce, `walk`, the constructors and the indexes either succeed or stop at
  one of five sites — the recorded findings K6.a, K6.b, K6.c, K6.d, K6.f.  The other seventeen `panic!` / `unwrap` /
  index sites of `src/ast` are unreachable.

  The proofs read the concrete grammar (`Fx.Grammar`, regenerated from `src/xdr.pest` on every run): a change to the grammar
  re-opens them.
-/
import Fx.Lemmas.PegShape
import Fx.Grammar
import Fx.Walk
import Fx.Index
namespace Fx
open Peg

/-! ### inversion of `Shape` -/

theorem sh_str {g a t ts} (h : Shape g a (.str t) ts) : ts = [] := by cases h; rfl
theorem sh_soi {g a ts} (h : Shape g a .soi ts) : ts = [] := by cases h; rfl
theorem sh_eoi {g ts} (h : Shape g false .eoi ts) : ts = [Pair.mk "EOI" [] []] := by cases h; rfl

theorem sh_seq {g a e1 e2 ts} (h : Shape g a (.seq e1 e2) ts) : ∃ t1 t2, ts = t1 ++ t2 ∧ Shape g a e1 t1 ∧ Shape g a e2 t2 := by
  cases h with
  | seq h1 h2 => exact ⟨_, _, rfl, h1, h2⟩

theorem sh_alt {g a e1 e2 ts} (h : Shape g a (.alt e1 e2) ts) : Shape g a e1 ts ∨ Shape g a e2 ts := by
  cases h with
  | altL h1 => exact Or.inl h1
  | altR h1 => exact Or.inr h1

theorem sh_opt {g a e ts} (h : Shape g a (.opt e) ts) : ts = [] ∨ Shape g a e ts := by
  cases h with
  | optNone => exact Or.inl rfl
  | optSome h1 => exact Or.inr h1

theorem sh_star {g a e} : ∀ {se ts}, Shape g a se ts → se = .star e → ∃ tss : List (List Pair), ts = tss.flatten ∧ ∀ t ∈ tss, Shape g a e t := by
  intro se ts h
  induction h with
  | starNil a e0 => intro he; exact ⟨[], rfl, fun _ h => by cases h⟩
  | @starCons a0 e0 t1 t2 h1 h2 _ ih2 =>
    intro he
    cases he
    obtain ⟨tss, hts, hall⟩ := ih2 rfl
    refine ⟨t1 :: tss, by simp [hts], ?_⟩
    intro t ht
    rcases List.mem_cons.mp ht with rfl | ht'
    · exact h1
    · exact hall t ht'
  | _ => intro he; cases he

theorem sh_plus {g a e ts} (h : Shape g a (.plus e) ts) : Shape g a (.seq e (.star e)) ts := by
  cases h with
  | plus h1 => exact h1

theorem sh_ref_atomic {g : Grammar} {n : String} {r : Rule} {ts : List Pair} (hf : g.find n = some r)
    (hw : (n == "WHITESPACE" || n == "COMMENT") = false) (hty : r.ty = .atomic) (h : Shape g false (.ref n) ts) :
    ∃ txt, ts = [Pair.mk n txt []] := by
  cases h with
  | refSkip hw' => rw [hw] at hw'; cases hw'
  | refSilent hfd _ hty' _ => rw [hf] at hfd; cases hfd; rw [hty] at hty'; cases hty'
  | refNormal hfd _ hty' _ => rw [hf] at hfd; cases hfd; rw [hty] at hty'; cases hty'
  | refAtomic _ _ _ => exact ⟨_, rfl⟩

theorem sh_ref_normal {g : Grammar} {n : String} {r : Rule} {ts : List Pair} (hf : g.find n = some r)
    (hw : (n == "WHITESPACE" || n == "COMMENT") = false) (hty : r.ty = .normal) (h : Shape g false (.ref n) ts) :
    ∃ txt cs, ts = [Pair.mk n txt cs] ∧ Shape g false r.body cs := by
  cases h with
  | refSkip hw' => rw [hw] at hw'; cases hw'
  | refSilent hfd _ hty' _ => rw [hf] at hfd; cases hfd; rw [hty] at hty'; cases hty'
  | refNormal hfd _ _ hb => rw [hf] at hfd; cases hfd; exact ⟨_, _, rfl, hb⟩
  | refAtomic hfd _ hty' => rw [hf] at hfd; cases hfd; rw [hty] at hty'; cases hty'

theorem sh_ref_silent {g : Grammar} {n : String} {r : Rule} {ts : List Pair} (hf : g.find n = some r)
    (hw : (n == "WHITESPACE" || n == "COMMENT") = false) (hty : r.ty = .silent) (h : Shape g false (.ref n) ts) :
    Shape g false r.body ts := by
  cases h with
  | refSkip hw' => rw [hw] at hw'; cases hw'
  | refSilent hfd _ _ hb => rw [hf] at hfd; cases hfd; exact hb
  | refNormal hfd _ hty' _ => rw [hf] at hfd; cases hfd; rw [hty] at hty'; cases hty'
  | refAtomic hfd _ hty' => rw [hf] at hfd; cases hfd; rw [hty] at hty'; cases hty'

/-! ### the five known sites, and "succeeds or stops at a known site" -/

def knownSites : List (String × String) :=
  [("union.rs", "invalid number of union field tokens"),                       -- K6.a
   ("structure.rs", "invalid number of struct field tokens"),                  -- K6.b
   ("enumeration.rs", "called `Result::unwrap()` on an `Err` value"),          -- K6.c
   ("constants.rs", "duplicate case keys"),                                    -- K6.d
   ("structure.rs", "unexpected struct field option layout")]                  -- K6.f

def Good {α} (o : Out α) (P : α → Prop) : Prop :=
  match o with
  | .ok x => P x
  | .panicAt f m => (f, m) ∈ knownSites

theorem Good.ok {α} {x : α} {P : α → Prop} (h : P x) : Good (.ok x) P := h

theorem Good.bind {α β} {o : Out α} {k : α → Out β} {P : α → Prop} {Q : β → Prop}
    (h1 : Good o P) (h2 : ∀ x, P x → Good (k x) Q) : Good (o.bind k) Q := by
  cases o with
  | ok x => exact h2 x h1
  | panicAt f m => exact h1

theorem Good.mono {α} {o : Out α} {P Q : α → Prop} (h : Good o P) (hpq : ∀ x, P x → Q x) : Good o Q := by
  cases o with
  | ok x => exact hpq x h
  | panicAt f m => exact h

theorem walkAll_append : ∀ (t1 t2 : List Pair),
    walkAll (t1 ++ t2) = (walkAll t1).bind fun n1 => (walkAll t2).bind fun n2 => .ok (n1 ++ n2) := by
  intro t1
  induction t1 with
  | nil =>
    intro t2
    simp only [List.nil_append, walkAll, Out.bind_ok]
    cases walkAll t2 <;> simp [Out.bind]
  | cons p ps ih =>
    intro t2
    simp only [List.cons_append, walkAll, ih]
    cases walk p with
    | panicAt f m => rfl
    | ok n =>
      simp only [Out.bind_ok]
      cases walkAll ps with
      | panicAt f m => rfl
      | ok ns =>
        simp only [Out.bind_ok]
        cases walkAll t2 with
        | panicAt f m => rfl
        | ok ns2 => simp [Out.bind]

theorem walkAll_nil : walkAll [] = .ok [] := by simp [walkAll]
theorem walkAll_single (p : Pair) : walkAll [p] = (walk p).bind fun n => .ok [n] := by
  simp only [walkAll]
  cases walk p <;> simp [Out.bind]

/-- `walkAll` of an append, as a `Good` statement -/
theorem Good.walk_append {t1 t2 : List Pair} {P Q : List Node → Prop} (h1 : Good (walkAll t1) P) (h2 : Good (walkAll t2) Q) :
    Good (walkAll (t1 ++ t2)) (fun ns => ∃ n1 n2, ns = n1 ++ n2 ∧ P n1 ∧ Q n2) := by
  rw [walkAll_append]
  refine Good.bind h1 (fun n1 hn1 => Good.bind h2 (fun n2 hn2 => ?_))
  exact ⟨n1, n2, rfl, hn1, hn2⟩

/-! ### the grammar of `src/xdr.pest`, rule by rule -/

abbrev X : Peg.Grammar := Grammar.xdr
def ruleOf (n : String) : Rule := (X.find n).getD ⟨"", .silent, .any⟩

theorem w_ident {ts : List Pair} (h : Shape X false (.ref "ident") ts) : ∃ t, walkAll ts = .ok [.type t] := by
  obtain ⟨txt, rfl⟩ := sh_ref_atomic (r := ruleOf "ident") rfl rfl rfl h
  exact ⟨BasicType.ofStr (String.ofList txt), by simp [walkAll_single, walk]⟩

theorem w_basic_type {ts : List Pair} (h : Shape X false (.ref "basic_type") ts) : ∃ t, walkAll ts = .ok [.type t] := by
  obtain ⟨txt, rfl⟩ := sh_ref_atomic (r := ruleOf "basic_type") rfl rfl rfl h
  exact ⟨BasicType.ofStr (String.ofList txt), by simp [walkAll_single, walk]⟩

theorem w_ident_value {ts : List Pair} (h : Shape X false (.ref "ident_value") ts) : ∃ t, walkAll ts = .ok [.type t] := by
  obtain ⟨txt, rfl⟩ := sh_ref_atomic (r := ruleOf "ident_value") rfl rfl rfl h
  exact ⟨BasicType.ofStr (String.ofList txt), by simp [walkAll_single, walk]⟩

theorem w_ident_const {ts : List Pair} (h : Shape X false (.ref "ident_const") ts) : ∃ t, walkAll ts = .ok [.type t] := by
  obtain ⟨txt, cs, rfl, _⟩ := sh_ref_normal (r := ruleOf "ident_const") rfl rfl rfl h
  exact ⟨BasicType.ofStr (String.ofList txt), by simp [walkAll_single, walk]⟩

/-- `ident | basic_type` -/
theorem w_type_or_ident {ts : List Pair} (h : Shape X false (.alt (.ref "ident") (.ref "basic_type")) ts) :
    ∃ t, walkAll ts = .ok [.type t] := by
  rcases sh_alt h with h1 | h1
  · exact w_ident h1
  · exact w_basic_type h1

/-- `ident_value | ident_const` (array lengths, case values) -/
theorem w_value {ts : List Pair} (h : Shape X false (.alt (.ref "ident_value") (.ref "ident_const")) ts) :
    ∃ t, walkAll ts = .ok [.type t] := by
  rcases sh_alt h with h1 | h1
  · exact w_ident_value h1
  · exact w_ident_const h1

def isArr (n : Node) : Prop := (∃ s, n = .arrayVariable s) ∨ (∃ s, n = .arrayFixed s)

theorem w_array {ts : List Pair} (h : Shape X false (.ref "array") ts) : ∃ n, walkAll ts = .ok [n] ∧ isArr n := by
  have hb := sh_ref_silent (r := ruleOf "array") rfl rfl rfl h
  have hbody : (ruleOf "array").body = .alt (.ref "array_variable") (.ref "array_fixed") := rfl
  rw [hbody] at hb
  rcases sh_alt hb with h1 | h1
  · obtain ⟨txt, cs, rfl, _⟩ := sh_ref_normal (r := ruleOf "array_variable") rfl rfl rfl h1
    exact ⟨.arrayVariable (innerStr cs), by simp [walkAll_single, walk], Or.inl ⟨_, rfl⟩⟩
  · obtain ⟨txt, cs, rfl, _⟩ := sh_ref_normal (r := ruleOf "array_fixed") rfl rfl rfl h1
    exact ⟨.arrayFixed (innerStr cs), by simp [walkAll_single, walk], Or.inr ⟨_, rfl⟩⟩

def isOpt (n : Node) : Prop := ∃ t, n = .option [.type t]

theorem w_option {ts : List Pair} (h : Shape X false (.ref "option") ts) : ∃ n, walkAll ts = .ok [n] ∧ isOpt n := by
  obtain ⟨txt, cs, rfl, hb⟩ := sh_ref_normal (r := ruleOf "option") rfl rfl rfl h
  have hbody : (ruleOf "option").body = .seq (.str ['*']) (.ref "ident") := rfl
  rw [hbody] at hb
  obtain ⟨t1, t2, rfl, h1, h2⟩ := sh_seq hb
  have := sh_str h1; subst this
  obtain ⟨t, ht⟩ := w_ident h2
  exact ⟨.option [.type t], by simp [walkAll_single, walk, ht], ⟨t, rfl⟩⟩

/-- the nodes of a `data_field`: a type, then a name or `*name`, then possibly an array suffix -/
def fieldNodes (l : List Node) : Prop :=
  ∃ (t : BasicType) (o : Node), ((∃ t2, o = .type t2) ∨ isOpt o) ∧ (l = [.type t, o] ∨ ∃ arr, isArr arr ∧ l = [.type t, o, arr])

theorem w_data_field {ts : List Pair} (h : Shape X false (.ref "data_field") ts) : ∃ l, walkAll ts = .ok l ∧ fieldNodes l := by
  have hb := sh_ref_silent (r := ruleOf "data_field") rfl rfl rfl h
  have hbody : (ruleOf "data_field").body =
      .seq (.alt (.ref "ident") (.ref "basic_type")) (.seq (.alt (.ref "option") (.ref "ident")) (.seq (.opt (.ref "array")) (.str [';']))) := rfl
  rw [hbody] at hb
  obtain ⟨a1, r1, rfl, h1, hb⟩ := sh_seq hb
  obtain ⟨a2, r2, rfl, h2, hb⟩ := sh_seq hb
  obtain ⟨a3, r3, rfl, h3, h4⟩ := sh_seq hb
  have := sh_str h4; subst this
  obtain ⟨t, ht⟩ := w_type_or_ident h1
  have ho : ∃ o, walkAll a2 = .ok [o] ∧ ((∃ t2, o = .type t2) ∨ isOpt o) := by
    rcases sh_alt h2 with h2' | h2'
    · obtain ⟨o, e, ho⟩ := w_option h2'; exact ⟨o, e, Or.inr ho⟩
    · obtain ⟨t2, e⟩ := w_ident h2'; exact ⟨_, e, Or.inl ⟨t2, rfl⟩⟩
  obtain ⟨o, eo, hoo⟩ := ho
  rcases sh_opt h3 with h3' | h3'
  · subst h3'
    refine ⟨[.type t, o], ?_, t, o, hoo, Or.inl rfl⟩
    simp [walkAll_append, ht, eo, walkAll_nil]
  · obtain ⟨arr, ea, harr⟩ := w_array h3'
    refine ⟨[.type t, o, arr], ?_, t, o, hoo, Or.inr ⟨arr, harr, rfl⟩⟩
    simp [walkAll_append, ht, eo, ea, walkAll_nil]

theorem walkAll_flatten (P : Node → Prop) : ∀ (tss : List (List Pair)),
    (∀ t ∈ tss, Good (walkAll t) (fun ns => ∃ n, ns = [n] ∧ P n)) →
    Good (walkAll tss.flatten) (fun ns => ∀ n ∈ ns, P n) := by
  intro tss
  induction tss with
  | nil => intro _; simp [walkAll_nil, Good]
  | cons t rest ih =>
    intro h
    simp only [List.flatten_cons]
    have h1 := h t List.mem_cons_self
    have h2 := ih (fun t' ht' => h t' (List.mem_cons_of_mem _ ht'))
    refine (Good.walk_append h1 h2).mono ?_
    rintro ns ⟨n1, n2, rfl, ⟨n, rfl, hn⟩, hall⟩ m hm
    rcases List.mem_append.mp hm with hm | hm
    · simp at hm; subst hm; exact hn
    · exact hall m hm

theorem Good.mapOut {α β} (f : α → Out β) (P : α → Prop) : ∀ (l : List α), (∀ x ∈ l, P x) → (∀ x, P x → Good (f x) (fun _ => True)) →
    Good (mapOut f l) (fun _ => True) := by
  intro l
  induction l with
  | nil => intro _ _; simp [Fx.mapOut, Good]
  | cons x xs ih =>
    intro hall hf
    simp only [Fx.mapOut]
    refine Good.bind (hf x (hall x List.mem_cons_self)) (fun b _ => ?_)
    refine Good.bind (ih (fun y hy => hall y (List.mem_cons_of_mem _ hy)) hf) (fun bs _ => ?_)
    trivial

/-! #### structs -/

theorem w_struct_data_field {ts : List Pair} (h : Shape X false (.ref "struct_data_field") ts) :
    ∃ l, walkAll ts = .ok [.structDataField l] ∧ fieldNodes l := by
  obtain ⟨txt, cs, rfl, hb⟩ := sh_ref_normal (r := ruleOf "struct_data_field") rfl rfl rfl h
  have hbody : (ruleOf "struct_data_field").body = .ref "data_field" := rfl
  rw [hbody] at hb
  obtain ⟨l, hl, hfn⟩ := w_data_field hb
  exact ⟨l, by simp [walkAll_single, walk, hl], hfn⟩

/-- `StructField::new` on the nodes of a `data_field`: a field, or K6.b / K6.f -/
theorem structField_good (l : List Node) (h : fieldNodes l) : Good (StructField.new (.structDataField l)) (fun _ => True) := by
  obtain ⟨t, o, ho, hl⟩ := h
  rcases hl with rfl | ⟨arr, harr, rfl⟩
  · rcases ho with ⟨t2, rfl⟩ | ⟨t2, rfl⟩
    · cases t2 <;> simp [StructField.new, Good, knownSites]
    · cases t2 <;> simp [StructField.new, Good, knownSites]
  · rcases ho with ⟨t2, rfl⟩ | ⟨t2, rfl⟩
    · rcases harr with ⟨sz, rfl⟩ | ⟨sz, rfl⟩ <;> cases t2 <;> simp [StructField.new, Good, knownSites]
    · rcases harr with ⟨sz, rfl⟩ | ⟨sz, rfl⟩ <;> simp [StructField.new, Good, knownSites]

theorem w_struct {ts : List Pair} (h : Shape X false (.ref "struct_type") ts) :
    Good (walkAll ts) (fun ns => ∃ s, ns = [.struct s]) := by
  obtain ⟨txt, cs, rfl, hb⟩ := sh_ref_normal (r := ruleOf "struct_type") rfl rfl rfl h
  have hbody : (ruleOf "struct_type").body =
      .seq (.str ['s', 't', 'r', 'u', 'c', 't']) (.seq (.ref "ident") (.seq (.str ['{']) (.seq (.star (.ref "struct_data_field"))
        (.seq (.str ['}']) (.str [';']))))) := rfl
  rw [hbody] at hb
  obtain ⟨a1, r1, rfl, h1, hb⟩ := sh_seq hb
  obtain ⟨a2, r2, rfl, h2, hb⟩ := sh_seq hb
  obtain ⟨a3, r3, rfl, h3, hb⟩ := sh_seq hb
  obtain ⟨a4, r4, rfl, h4, hb⟩ := sh_seq hb
  obtain ⟨a5, a6, rfl, h5, h6⟩ := sh_seq hb
  have := sh_str h1; subst this
  have := sh_str h3; subst this
  have := sh_str h5; subst this
  have := sh_str h6; subst this
  obtain ⟨tss, rfl, hall⟩ := sh_star h4 rfl
  obtain ⟨nm, hnm⟩ := w_ident h2
  have hfields := walkAll_flatten (fun n => ∃ l, n = .structDataField l ∧ fieldNodes l) tss (fun t ht => by
    obtain ⟨l, hl, hfn⟩ := w_struct_data_field (hall t ht)
    rw [hl]; exact ⟨_, rfl, l, rfl, hfn⟩)
  simp only [List.nil_append, List.append_nil, walkAll_single, walk]
  have hcs : Good (walkAll (a2 ++ tss.flatten)) (fun ns => ∃ rest, ns = .type nm :: rest ∧ ∀ n ∈ rest, ∃ l, n = .structDataField l ∧ fieldNodes l) := by
    refine (Good.walk_append (P := fun n1 => n1 = [.type nm]) (by rw [hnm]; rfl) hfields).mono ?_
    rintro ns ⟨n1, n2, rfl, rfl, h2'⟩
    exact ⟨n2, rfl, h2'⟩
  refine Good.bind (P := fun n => ∃ sv, n = Node.struct sv) ?_ (fun n ⟨sv, hsv⟩ => ⟨sv, by rw [hsv]⟩)
  refine Good.bind hcs (fun ns hns => ?_)
  obtain ⟨rest, rfl, hrest⟩ := hns
  refine Good.bind (P := fun _ => True) ?_ (fun sv _ => ⟨sv, rfl⟩)
  simp only [Struct.new, Node.identStr, Out.bind_ok]
  refine Good.bind (Good.mapOut StructField.new (fun n => ∃ l, n = .structDataField l ∧ fieldNodes l) rest hrest
    (fun x ⟨l, hx, hl⟩ => by rw [hx]; exact structField_good l hl)) (fun fs _ => ?_)
  trivial

/-! #### enums -/

theorem vv_core (clean : List Char) (f m : String)
    (h : (if clean.isEmpty = true then (Out.panicAt "enumeration.rs" "called `Result::unwrap()` on an `Err` value" : Out VariantValue)
      else match hexStrVal clean with
        | some n => if n < 2^31 then .ok (.numeric n) else .panicAt "enumeration.rs" "called `Result::unwrap()` on an `Err` value"
        | none => .panicAt "enumeration.rs" "called `Result::unwrap()` on an `Err` value") = .panicAt f m) :
    f = "enumeration.rs" ∧ m = "called `Result::unwrap()` on an `Err` value" := by
  by_cases he : clean.isEmpty = true
  · simp only [he, if_true] at h
    injection h with h1 h2; exact ⟨h1.symm, h2.symm⟩
  · simp only [he, Bool.false_eq_true, if_false] at h
    cases hx : hexStrVal clean with
    | none => simp only [hx] at h; injection h with h1 h2; exact ⟨h1.symm, h2.symm⟩
    | some n =>
      simp only [hx] at h
      by_cases hn : n < 2^31
      · simp only [hn, if_true] at h; cases h
      · simp only [hn, if_false] at h; injection h with h1 h2; exact ⟨h1.symm, h2.symm⟩

theorem variantValue_site (v : String) (f m : String) (h : VariantValue.ofStr v = .panicAt f m) :
    f = "enumeration.rs" ∧ m = "called `Result::unwrap()` on an `Err` value" := by
  simp only [VariantValue.ofStr] at h
  by_cases h0 : v.startsWith "0x" = true
  · simp only [h0, if_true] at h
    split at h
    · exact vv_core _ f m h
    · exact vv_core _ f m h
  · simp only [h0, Bool.false_eq_true, if_false] at h
    split at h <;> cases h
theorem variantValue_good (v : String) : Good (VariantValue.ofStr v) (fun _ => True) := by
  cases h : VariantValue.ofStr v with
  | ok x => trivial
  | panicAt f m =>
    obtain ⟨rfl, rfl⟩ := variantValue_site v f m h
    simp [Good, knownSites]

theorem w_enum_variant {ts : List Pair} (h : Shape X false (.ref "enum_variant") ts) :
    ∃ a b, walkAll ts = .ok [.enumVariant [.type a, .type b]] := by
  obtain ⟨txt, cs, rfl, hb⟩ := sh_ref_normal (r := ruleOf "enum_variant") rfl rfl rfl h
  have hbody : (ruleOf "enum_variant").body = .seq (.ref "ident") (.seq (.str ['=']) (.ref "ident")) := rfl
  rw [hbody] at hb
  obtain ⟨a1, r1, rfl, h1, hb⟩ := sh_seq hb
  obtain ⟨a2, a3, rfl, h2, h3⟩ := sh_seq hb
  have := sh_str h2; subst this
  obtain ⟨a, ha⟩ := w_ident h1
  obtain ⟨b, hb'⟩ := w_ident h3
  exact ⟨a, b, by simp [walkAll_single, walk, walkAll_append, ha, hb']⟩

theorem variant_good (a b : BasicType) : Good (Variant.new (.enumVariant [.type a, .type b])) (fun _ => True) := by
  simp only [Variant.new, Node.identStr, Out.bind_ok]
  exact Good.bind (variantValue_good _) (fun _ _ => trivial)

theorem w_enum {ts : List Pair} (h : Shape X false (.ref "enum_type") ts) :
    Good (walkAll ts) (fun ns => ∃ e, ns = [.enum e]) := by
  obtain ⟨txt, cs, rfl, hb⟩ := sh_ref_normal (r := ruleOf "enum_type") rfl rfl rfl h
  have hbody : (ruleOf "enum_type").body =
      .seq (.str ['e', 'n', 'u', 'm']) (.seq (.ref "ident") (.seq (.str ['{']) (.seq (.plus (.ref "enum_variant"))
        (.seq (.star (.seq (.str [',']) (.ref "enum_variant"))) (.seq (.str ['}']) (.str [';'])))))) := rfl
  rw [hbody] at hb
  obtain ⟨a1, r1, rfl, h1, hb⟩ := sh_seq hb
  obtain ⟨a2, r2, rfl, h2, hb⟩ := sh_seq hb
  obtain ⟨a3, r3, rfl, h3, hb⟩ := sh_seq hb
  obtain ⟨a4, r4, rfl, h4, hb⟩ := sh_seq hb
  obtain ⟨a5, r5, rfl, h5, hb⟩ := sh_seq hb
  obtain ⟨a6, a7, rfl, h6, h7⟩ := sh_seq hb
  have := sh_str h1; subst this
  have := sh_str h3; subst this
  have := sh_str h6; subst this
  have := sh_str h7; subst this
  obtain ⟨nm, hnm⟩ := w_ident h2
  -- `enum_variant+`
  obtain ⟨p1, p2, rfl, hp1, hp2⟩ := sh_seq (sh_plus h4)
  obtain ⟨tss1, rfl, hall1⟩ := sh_star hp2 rfl
  -- `("," enum_variant)*`
  obtain ⟨tss2, rfl, hall2⟩ := sh_star h5 rfl
  let V := fun n : Node => ∃ a b, n = .enumVariant [.type a, .type b]
  have hv1 : Good (walkAll p1) (fun ns => ∃ n, ns = [n] ∧ V n) := by
    obtain ⟨a, b, e⟩ := w_enum_variant hp1; rw [e]; exact ⟨_, rfl, a, b, rfl⟩
  have hvs1 := walkAll_flatten V tss1 (fun t ht => by
    obtain ⟨a, b, e⟩ := w_enum_variant (hall1 t ht); rw [e]; exact ⟨_, rfl, a, b, rfl⟩)
  have hvs2 := walkAll_flatten V tss2 (fun t ht => by
    obtain ⟨c1, c2, rfl, hc1, hc2⟩ := sh_seq (hall2 t ht)
    have := sh_str hc1; subst this
    obtain ⟨a, b, e⟩ := w_enum_variant hc2
    rw [show ([] : List Pair) ++ c2 = c2 from rfl, e]; exact ⟨_, rfl, a, b, rfl⟩)
  simp only [List.nil_append, List.append_nil, walkAll_single, walk]
  have hcs : Good (walkAll (a2 ++ ((p1 ++ tss1.flatten) ++ tss2.flatten))) (fun ns => ∃ rest, ns = .type nm :: rest ∧ ∀ n ∈ rest, V n) := by
    refine (Good.walk_append (P := fun n1 => n1 = [.type nm]) (by rw [hnm]; rfl)
      (Good.walk_append (Good.walk_append hv1 hvs1) hvs2)).mono ?_
    rintro ns ⟨n1, n2, rfl, rfl, ⟨m1, m2, rfl, ⟨k1, k2, rfl, ⟨k, rfl, hk⟩, hk2⟩, hm2⟩⟩
    refine ⟨_, rfl, ?_⟩
    intro n hn
    have hn' : n = k ∨ n ∈ k2 ∨ n ∈ m2 := by simpa [or_assoc] using hn
    rcases hn' with rfl | hn' | hn'
    · exact hk
    · exact hk2 n hn'
    · exact hm2 n hn'
  refine Good.bind (P := fun n => ∃ e, n = Node.enum e) ?_ (fun n ⟨e, he⟩ => ⟨e, by rw [he]⟩)
  refine Good.bind hcs (fun ns hns => ?_)
  obtain ⟨rest, rfl, hrest⟩ := hns
  refine Good.bind (P := fun _ => True) ?_ (fun e _ => ⟨e, rfl⟩)
  simp only [Enum.new, Node.identStr, Out.bind_ok]
  refine Good.bind (Good.mapOut Variant.new V rest hrest (fun x ⟨a, b, hx⟩ => by rw [hx]; exact variant_good a b)) (fun vs _ => ?_)
  trivial

/-! #### typedefs and constants -/

theorem w_typedef {ts : List Pair} (h : Shape X false (.ref "typedef") ts) : ∃ td, walkAll ts = .ok [.typedef td] := by
  obtain ⟨txt, cs, rfl, hb⟩ := sh_ref_normal (r := ruleOf "typedef") rfl rfl rfl h
  have hbody : (ruleOf "typedef").body =
      .seq (.str ['t', 'y', 'p', 'e', 'd', 'e', 'f']) (.seq (.alt (.ref "ident") (.ref "basic_type")) (.seq (.ref "ident")
        (.seq (.opt (.ref "array")) (.str [';'])))) := rfl
  rw [hbody] at hb
  obtain ⟨a1, r1, rfl, h1, hb⟩ := sh_seq hb
  obtain ⟨a2, r2, rfl, h2, hb⟩ := sh_seq hb
  obtain ⟨a3, r3, rfl, h3, hb⟩ := sh_seq hb
  obtain ⟨a4, a5, rfl, h4, h5⟩ := sh_seq hb
  have := sh_str h1; subst this
  have := sh_str h5; subst this
  obtain ⟨t, ht⟩ := w_type_or_ident h2
  obtain ⟨al, hal⟩ := w_ident h3
  rcases sh_opt h4 with h4' | h4'
  · subst h4'
    exact ⟨_, by simp [walkAll_single, walk, walkAll_append, ht, hal, walkAll_nil, Typedef.new]; rfl⟩
  · obtain ⟨arr, ea, harr⟩ := w_array h4'
    rcases harr with ⟨sz, rfl⟩ | ⟨sz, rfl⟩
    · by_cases hop : t.isOpaque = true
      · cases hsz : optSize sz with
        | none => exact ⟨_, by simp [walkAll_single, walk, walkAll_append, ht, hal, ea, Typedef.new, hop, hsz]; rfl⟩
        | some n => exact ⟨_, by simp [walkAll_single, walk, walkAll_append, ht, hal, ea, Typedef.new, hop, hsz]; rfl⟩
      · exact ⟨_, by simp [walkAll_single, walk, walkAll_append, ht, hal, ea, Typedef.new, hop]; rfl⟩
    · exact ⟨_, by simp [walkAll_single, walk, walkAll_append, ht, hal, ea, Typedef.new]; rfl⟩

theorem w_constant {ts : List Pair} (h : Shape X false (.ref "constant") ts) : ∃ a b, walkAll ts = .ok [.constant [.type a, .type b]] := by
  obtain ⟨txt, cs, rfl, hb⟩ := sh_ref_normal (r := ruleOf "constant") rfl rfl rfl h
  have hbody : (ruleOf "constant").body =
      .seq (.str ['c', 'o', 'n', 's', 't']) (.seq (.ref "ident") (.seq (.str ['=']) (.seq (.ref "ident") (.str [';'])))) := rfl
  rw [hbody] at hb
  obtain ⟨a1, r1, rfl, h1, hb⟩ := sh_seq hb
  obtain ⟨a2, r2, rfl, h2, hb⟩ := sh_seq hb
  obtain ⟨a3, r3, rfl, h3, hb⟩ := sh_seq hb
  obtain ⟨a4, a5, rfl, h4, h5⟩ := sh_seq hb
  have := sh_str h1; subst this
  have := sh_str h3; subst this
  have := sh_str h5; subst this
  obtain ⟨a, ha⟩ := w_ident h2
  obtain ⟨b, hb'⟩ := w_ident h4
  exact ⟨a, b, by simp [walkAll_single, walk, walkAll_append, ha, hb', walkAll_nil]⟩

/-! #### unions -/

theorem w_union_data_field {ts : List Pair} (h : Shape X false (.ref "union_data_field") ts) :
    ∃ l, walkAll ts = .ok [.unionDataField l] ∧ fieldNodes l := by
  obtain ⟨txt, cs, rfl, hb⟩ := sh_ref_normal (r := ruleOf "union_data_field") rfl rfl rfl h
  have hbody : (ruleOf "union_data_field").body = .ref "data_field" := rfl
  rw [hbody] at hb
  obtain ⟨l, hl, hfn⟩ := w_data_field hb
  exact ⟨l, by simp [walkAll_single, walk, hl], hfn⟩

theorem w_union_void {ts : List Pair} (h : Shape X false (.ref "union_void") ts) : walkAll ts = .ok [.unionVoid] := by
  obtain ⟨txt, cs, rfl, _⟩ := sh_ref_normal (r := ruleOf "union_void") rfl rfl rfl h
  simp [walkAll_single, walk]

/-- the body of an arm: a data field or `void` -/
def bodyNodes (ns : List Node) : Prop := (∃ l, fieldNodes l ∧ ns = [.unionDataField l]) ∨ ns = [.unionVoid]

theorem w_arm_body {ts : List Pair} (h : Shape X false (.alt (.ref "union_data_field") (.ref "union_void")) ts) :
    ∃ ns, walkAll ts = .ok ns ∧ bodyNodes ns := by
  rcases sh_alt h with h1 | h1
  · obtain ⟨l, hl, hfn⟩ := w_union_data_field h1
    exact ⟨_, hl, Or.inl ⟨l, hfn, rfl⟩⟩
  · exact ⟨_, w_union_void h1, Or.inr rfl⟩

def caseNodes (ns : List Node) : Prop := ∃ t, ns = [.type t] ∨ ∃ b, bodyNodes b ∧ ns = .type t :: b

def isArm (n : Node) : Prop := (∃ ns, n = .unionCase ns ∧ caseNodes ns) ∨ (∃ ns, n = .unionDefault ns ∧ bodyNodes ns)

theorem w_union_case {ts : List Pair} (h : Shape X false (.ref "union_case") ts) : ∃ n, walkAll ts = .ok [n] ∧ isArm n := by
  obtain ⟨txt, cs, rfl, hb⟩ := sh_ref_normal (r := ruleOf "union_case") rfl rfl rfl h
  have hbody : (ruleOf "union_case").body =
      .seq (.str ['c', 'a', 's', 'e']) (.seq (.ref "union_case_value") (.seq (.str [':'])
        (.opt (.alt (.ref "union_data_field") (.ref "union_void"))))) := rfl
  rw [hbody] at hb
  obtain ⟨a1, r1, rfl, h1, hb⟩ := sh_seq hb
  obtain ⟨a2, r2, rfl, h2, hb⟩ := sh_seq hb
  obtain ⟨a3, a4, rfl, h3, h4⟩ := sh_seq hb
  have := sh_str h1; subst this
  have := sh_str h3; subst this
  have hv := sh_ref_silent (r := ruleOf "union_case_value") rfl rfl rfl h2
  have hvb : (ruleOf "union_case_value").body = .alt (.ref "ident_value") (.ref "ident_const") := rfl
  rw [hvb] at hv
  obtain ⟨t, ht⟩ := w_value hv
  rcases sh_opt h4 with h4' | h4'
  · subst h4'
    exact ⟨.unionCase [.type t], by simp [walkAll_single, walk, walkAll_append, ht, walkAll_nil], Or.inl ⟨_, rfl, t, Or.inl rfl⟩⟩
  · obtain ⟨b, hb', hbn⟩ := w_arm_body h4'
    exact ⟨.unionCase (.type t :: b), by simp [walkAll_single, walk, walkAll_append, ht, hb'], Or.inl ⟨_, rfl, t, Or.inr ⟨b, hbn, rfl⟩⟩⟩

theorem w_union_default {ts : List Pair} (h : Shape X false (.ref "union_default") ts) : ∃ n, walkAll ts = .ok [n] ∧ isArm n := by
  obtain ⟨txt, cs, rfl, hb⟩ := sh_ref_normal (r := ruleOf "union_default") rfl rfl rfl h
  have hbody : (ruleOf "union_default").body =
      .seq (.str ['d', 'e', 'f', 'a', 'u', 'l', 't']) (.seq (.str [':']) (.alt (.ref "union_data_field") (.ref "union_void"))) := rfl
  rw [hbody] at hb
  obtain ⟨a1, r1, rfl, h1, hb⟩ := sh_seq hb
  obtain ⟨a2, a3, rfl, h2, h3⟩ := sh_seq hb
  have := sh_str h1; subst this
  have := sh_str h2; subst this
  obtain ⟨b, hb', hbn⟩ := w_arm_body h3
  exact ⟨.unionDefault b, by simp [walkAll_single, walk, hb'], Or.inr ⟨_, rfl, hbn⟩⟩

/-- `UnionCase::new` on the nodes of a `data_field`: an arm, or K6.a -/
theorem unionCase_good (cv : List String) (l : List Node) (h : fieldNodes l) : Good (UnionCase.new cv l) (fun _ => True) := by
  obtain ⟨t, o, ho, hl⟩ := h
  rcases hl with rfl | ⟨arr, harr, rfl⟩
  · rcases ho with ⟨t2, rfl⟩ | ⟨t2, rfl⟩
    · cases t2 <;> simp [UnionCase.new, Good, knownSites]
    · simp [UnionCase.new, Good, knownSites]
  · simp [UnionCase.new, Good, knownSites]

theorem caseStmt_good_body (cv : List String) (b : List Node) (hb : bodyNodes b) : Good (CaseStmt.parse cv b) (fun _ => True) := by
  rcases hb with ⟨l, hl, rfl⟩ | rfl
  · simp only [CaseStmt.parse]
    exact Good.bind (unionCase_good cv l hl) (fun _ _ => trivial)
  · simp [CaseStmt.parse, Good]

theorem caseStmt_good_case (cv : List String) (ns : List Node) (h : caseNodes ns) : Good (CaseStmt.parse cv ns) (fun _ => True) := by
  obtain ⟨t, rfl | ⟨b, hb, rfl⟩⟩ := h
  · simp [CaseStmt.parse, Good]
  · rcases hb with ⟨l, hl, rfl⟩ | rfl
    · simp only [CaseStmt.parse]
      exact Good.bind (unionCase_good _ l hl) (fun _ _ => trivial)
    · simp [CaseStmt.parse, Good]

theorem unionStep_good (acc : UAcc) (n : Node) (h : isArm n) : Good (Union.step acc n) (fun _ => True) := by
  rcases h with ⟨ns, rfl, hns⟩ | ⟨ns, rfl, hns⟩
  · simp only [Union.step]
    refine Good.bind (caseStmt_good_case _ ns hns) (fun stmt _ => ?_)
    cases stmt <;> trivial
  · simp only [Union.step]
    refine Good.bind (caseStmt_good_body _ ns hns) (fun stmt _ => ?_)
    cases stmt <;> trivial

theorem unionLoop_good : ∀ (arms : List Node) (acc : UAcc), (∀ n ∈ arms, isArm n) → Good (Union.loop acc arms) (fun _ => True) := by
  intro arms
  induction arms with
  | nil => intro acc _; simp [Union.loop, Good]
  | cons n rest ih =>
    intro acc h
    simp only [Union.loop]
    exact Good.bind (unionStep_good acc n (h n List.mem_cons_self)) (fun acc' _ => ih acc' (fun m hm => h m (List.mem_cons_of_mem _ hm)))

theorem w_union {ts : List Pair} (h : Shape X false (.ref "union") ts) : Good (walkAll ts) (fun ns => ∃ u, ns = [.union u]) := by
  obtain ⟨txt, cs, rfl, hb⟩ := sh_ref_normal (r := ruleOf "union") rfl rfl rfl h
  have hbody : (ruleOf "union").body =
      .seq (.str ['u', 'n', 'i', 'o', 'n']) (.seq (.ref "ident") (.seq (.str ['s', 'w', 'i', 't', 'c', 'h']) (.seq (.str ['('])
        (.seq (.alt (.ref "ident") (.ref "basic_type")) (.seq (.ref "ident") (.seq (.str [')']) (.seq (.str ['{'])
          (.seq (.star (.alt (.ref "union_case") (.ref "union_default"))) (.seq (.str ['}']) (.str [';'])))))))))) := rfl
  rw [hbody] at hb
  obtain ⟨a1, r1, rfl, h1, hb⟩ := sh_seq hb
  obtain ⟨a2, r2, rfl, h2, hb⟩ := sh_seq hb
  obtain ⟨a3, r3, rfl, h3, hb⟩ := sh_seq hb
  obtain ⟨a4, r4, rfl, h4, hb⟩ := sh_seq hb
  obtain ⟨a5, r5, rfl, h5, hb⟩ := sh_seq hb
  obtain ⟨a6, r6, rfl, h6, hb⟩ := sh_seq hb
  obtain ⟨a7, r7, rfl, h7, hb⟩ := sh_seq hb
  obtain ⟨a8, r8, rfl, h8, hb⟩ := sh_seq hb
  obtain ⟨a9, r9, rfl, h9, hb⟩ := sh_seq hb
  obtain ⟨a10, a11, rfl, h10, h11⟩ := sh_seq hb
  have := sh_str h1; subst this
  have := sh_str h3; subst this
  have := sh_str h4; subst this
  have := sh_str h7; subst this
  have := sh_str h8; subst this
  have := sh_str h10; subst this
  have := sh_str h11; subst this
  obtain ⟨nm, hnm⟩ := w_ident h2
  obtain ⟨ty, hty⟩ := w_type_or_ident h5
  obtain ⟨vr, hvr⟩ := w_ident h6
  obtain ⟨tss, rfl, hall⟩ := sh_star h9 rfl
  have harms := walkAll_flatten isArm tss (fun t ht => by
    rcases sh_alt (hall t ht) with h' | h'
    · obtain ⟨n, e, hn⟩ := w_union_case h'; rw [e]; exact ⟨n, rfl, hn⟩
    · obtain ⟨n, e, hn⟩ := w_union_default h'; rw [e]; exact ⟨n, rfl, hn⟩)
  simp only [List.nil_append, List.append_nil, walkAll_single, walk]
  have hcs : Good (walkAll (a2 ++ (a5 ++ (a6 ++ tss.flatten))))
      (fun ns => ∃ rest, ns = .type nm :: .type ty :: .type vr :: rest ∧ ∀ n ∈ rest, isArm n) := by
    refine (Good.walk_append (P := fun n1 => n1 = [.type nm]) (by rw [hnm]; rfl)
      (Good.walk_append (P := fun n1 => n1 = [.type ty]) (by rw [hty]; rfl)
        (Good.walk_append (P := fun n1 => n1 = [.type vr]) (by rw [hvr]; rfl) harms))).mono ?_
    rintro ns ⟨n1, n2, rfl, rfl, ⟨m1, m2, rfl, rfl, ⟨k1, k2, rfl, rfl, hk2⟩⟩⟩
    exact ⟨k2, rfl, hk2⟩
  refine Good.bind (P := fun n => ∃ u, n = Node.union u) ?_ (fun n ⟨u, hu⟩ => ⟨u, by rw [hu]⟩)
  refine Good.bind hcs (fun ns hns => ?_)
  obtain ⟨rest, rfl, hrest⟩ := hns
  refine Good.bind (P := fun _ => True) ?_ (fun u _ => ⟨u, rfl⟩)
  simp only [Union.new, Node.identStr, Out.bind_ok]
  exact Good.bind (unionLoop_good rest {} hrest) (fun acc _ => trivial)

/-! #### the root -/

/-- what a top-level declaration walks to -/
def isDecl (n : Node) : Prop :=
  (∃ a b, n = .constant [.type a, .type b]) ∨ (∃ t, n = .typedef t) ∨ (∃ e, n = .enum e) ∨ (∃ s, n = .struct s) ∨ (∃ u, n = .union u)

theorem w_decl {ts : List Pair}
    (h : Shape X false (.alt (.ref "constant") (.alt (.ref "typedef") (.alt (.ref "enum_type") (.alt (.ref "struct_type") (.ref "union"))))) ts) :
    Good (walkAll ts) (fun ns => ∃ n, ns = [n] ∧ isDecl n) := by
  rcases sh_alt h with h1 | h
  · obtain ⟨a, b, e⟩ := w_constant h1; rw [e]; exact ⟨_, rfl, Or.inl ⟨a, b, rfl⟩⟩
  rcases sh_alt h with h1 | h
  · obtain ⟨t, e⟩ := w_typedef h1; rw [e]; exact ⟨_, rfl, Or.inr (Or.inl ⟨t, rfl⟩)⟩
  rcases sh_alt h with h1 | h
  · exact (w_enum h1).mono (fun ns ⟨e, he⟩ => ⟨_, he, Or.inr (Or.inr (Or.inl ⟨e, rfl⟩))⟩)
  rcases sh_alt h with h1 | h1
  · exact (w_struct h1).mono (fun ns ⟨sv, he⟩ => ⟨_, he, Or.inr (Or.inr (Or.inr (Or.inl ⟨sv, rfl⟩)))⟩)
  · exact (w_union h1).mono (fun ns ⟨u, he⟩ => ⟨_, he, Or.inr (Or.inr (Or.inr (Or.inr ⟨u, rfl⟩)))⟩)

theorem itemsOf_decls : ∀ (ns : List Node), (∀ n ∈ ns, isDecl n ∨ n = .eof) → ∃ items, itemsOf ns = .ok items := by
  intro ns
  induction ns with
  | nil => intro _; exact ⟨[], rfl⟩
  | cons n rest ih =>
    intro h
    obtain ⟨items, hi⟩ := ih (fun m hm => h m (List.mem_cons_of_mem _ hm))
    simp only [itemsOf, hi]
    rcases h n List.mem_cons_self with hd | rfl
    · rcases hd with ⟨a, b, rfl⟩ | ⟨t, rfl⟩ | ⟨e, rfl⟩ | ⟨sv, rfl⟩ | ⟨u, rfl⟩ <;> simp [itemOf, Node.identStr]
    · simp [itemOf]

theorem constInsertAll_good : ∀ (es m : List (String × ConstantType)), Good (constInsertAll es m) (fun _ => True) := by
  intro es
  induction es with
  | nil => intro m; simp [constInsertAll, Good]
  | cons e rest ih =>
    intro m
    obtain ⟨k, v⟩ := e
    simp only [constInsertAll]
    split
    · simp [Good, knownSites]
    · exact ih _

theorem ofItems_good (items : List Item) : Good (Ast.ofItems items) (fun _ => True) := by
  simp only [Ast.ofItems, ConstantIndex.new]
  exact Good.bind (constInsertAll_good _ _) (fun _ _ => trivial)

/-- on every token tree the grammar can produce, the front end succeeds or stops at one of the five known sites -/
theorem ofPairs_good {ps : List Pair} (h : Shape X false (.ref "item") ps) : Good (Ast.ofPairs ps) (fun _ => True) := by
  obtain ⟨txt, cs, rfl, hb⟩ := sh_ref_normal (r := ruleOf "item") rfl rfl rfl h
  have hbody : (ruleOf "item").body =
      .seq .soi (.seq (.star (.alt (.ref "constant") (.alt (.ref "typedef") (.alt (.ref "enum_type") (.alt (.ref "struct_type") (.ref "union")))))) .eoi) := rfl
  rw [hbody] at hb
  obtain ⟨a1, r1, rfl, h1, hb⟩ := sh_seq hb
  obtain ⟨a2, a3, rfl, h2, h3⟩ := sh_seq hb
  have := sh_soi h1; subst this
  have := sh_eoi h3; subst this
  obtain ⟨tss, rfl, hall⟩ := sh_star h2 rfl
  have hdecls := walkAll_flatten isDecl tss (fun t ht => w_decl (hall t ht))
  have heoi : Good (walkAll [Pair.mk "EOI" [] []]) (fun ns => ns = [.eof]) := by simp [walkAll_single, walk, Good]
  simp only [Ast.ofPairs, List.nil_append, walk]
  refine Good.bind (P := fun n => ∃ ns, n = Node.root ns ∧ ∀ m ∈ ns, isDecl m ∨ m = .eof) ?_ (fun n ⟨ns, hn, hns⟩ => ?_)
  · refine Good.bind ((Good.walk_append hdecls heoi).mono ?_) (fun ns hns => ⟨ns, rfl, hns⟩)
    rintro ns ⟨n1, n2, rfl, h1', rfl⟩ m hm
    rcases List.mem_append.mp hm with hm | hm
    · exact Or.inl (h1' m hm)
    · simp at hm; exact Or.inr hm
  · subst hn
    obtain ⟨items, hi⟩ := itemsOf_decls ns hns
    simp only [hi, Out.bind_ok]
    exact ofItems_good items

/-- **C14 (the known panic sites are all there are).**  For EVERY text: if `Ast::new` panics, it panics at one of the five sites
    recorded as findings K6.a (`UnionCase::new`), K6.b and K6.f (`StructField::new`), K6.c (`VariantValue::from`), K6.d
    (`ConstantIndex::new`); the other seventeen `panic!` / `unwrap` / index / `unreachable!` sites of `src/ast` cannot be
    reached from a tree the grammar of `src/xdr.pest` produces. -/
theorem front_end_known_panics (txt : String) (f m : String) (h : Ast.new txt = .panicAt f m) : (f, m) ∈ knownSites := by
  unfold Ast.new at h
  cases hp : Peg.parseWith Grammar.xdr "item" txt.toList with
  | fail => rw [hp] at h; cases h
  | outOfFuel => rw [hp] at h; cases h
  | ok s ps =>
    rw [hp] at h
    simp only at h
    have hs : Shape X false (.ref "item") ps := by
      have := (Peg.shape X (Peg.fuelFor txt.toList.length)).2.2 "item" ⟨0, txt.toList⟩
      unfold Peg.parseWith at hp
      rw [hp] at this
      exact this
    have hg := ofPairs_good hs
    cases ho : Ast.ofPairs ps with
    | ok a => rw [ho] at h; cases h
    | panicAt f' m' =>
      rw [ho] at h hg
      cases h
      exact hg

end Fx
