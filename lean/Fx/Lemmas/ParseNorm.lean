/-
  Fx.Lemmas.ParseNorm — forgetting the layout: `norm` replaces every layout of a concrete syntax tree by nothing (and every
  white-space run inside a `basic_type` token by one blank).  The token tree of a specification and the token tree of its
  normal form are indistinguishable for `walk`.
-/
import Fx.Lemmas.ParseSim
namespace Fx.Parse
open Fx.Peg

mutual
theorem sim_refl : ∀ (p : Pair), sim p p = true
  | .mk r t cs => by
    simp only [sim, beq_self_eq_true, Bool.true_and, Bool.and_eq_true]
    refine ⟨?_, simL_refl cs⟩
    simp only [leafCond]
    split
    · simp
    · split
      · simp
      · split <;> simp
theorem simL_refl : ∀ (ps : List Pair), simL ps ps = true
  | [] => rfl
  | p :: ps => by simp only [simL, sim_refl p, simL_refl ps, Bool.and_self]
end

/-- a composite token: only the rule name and the children count -/
theorem sim_comp (r : String) (t t' : List Char) {cs cs' : List Pair}
    (h1 : (r == "ident" || r == "ident_const" || r == "ident_value") = false) (h2 : (r == "basic_type") = false)
    (h3 : (r == "array_variable" || r == "array_fixed") = false) (hcs : simL cs cs' = true) :
    sim (.mk r t cs) (.mk r t' cs') = true := by
  simp only [sim, beq_self_eq_true, Bool.true_and, Bool.and_eq_true]
  exact ⟨by simp only [leafCond, h1, h2, h3, Bool.false_eq_true, if_false], hcs⟩

theorem sim_comp1 (r : String) (t t' : List Char) {cs cs' : List Pair}
    (h1 : (r == "ident" || r == "ident_const" || r == "ident_value") = false) (h2 : (r == "basic_type") = false)
    (h3 : (r == "array_variable" || r == "array_fixed") = false) (hcs : simL cs cs' = true) :
    simL [.mk r t cs] [.mk r t' cs'] = true := simL_single (sim_comp r t t' h1 h2 h3 hcs)

/-- an array suffix: additionally the text of the bound (its first child) -/
theorem sim_arr1 (r : String) (t t' : List Char) (cs : List Pair) (h : (r == "array_variable" || r == "array_fixed") = true)
    (h1 : (r == "ident" || r == "ident_const" || r == "ident_value") = false) (h2 : (r == "basic_type") = false) :
    simL [.mk r t cs] [.mk r t' cs] = true := by
  refine simL_single ?_
  simp only [sim, beq_self_eq_true, Bool.true_and, Bool.and_eq_true]
  exact ⟨by simp only [leafCond, h1, h2, h, Bool.false_eq_true, if_false, if_true, beq_self_eq_true], simL_refl cs⟩

theorem simL_elemToks' {α : Type} (l : List α) (f : α → Elem) (n : α → α) (h : ∀ x ∈ l, simL (f x).TS (f (n x)).TS = true) :
    simL (elemToks (l.map f)) (elemToks ((l.map n).map f)) = true := by
  rw [List.map_map]; exact simL_elemToks l f (f ∘ n) h

/-! ### normal forms -/

def nl : Layout := ⟨[], []⟩

def Prim.norm : Prim → Prim
  | .uint _ => .uint [' ']
  | .uhyper _ => .uhyper [' ']
  | p => p

def TyRef.norm : TyRef → TyRef
  | .named n => .named n
  | .prim pr _ => .prim pr.norm [' ']

def Arr.norm : Arr → Arr
  | .var _ none => .var nl none
  | .var _ (some (n, _)) => .var nl (some (n, nl))
  | .fixed _ n _ => .fixed nl n nl

def Field.norm (f : Field) : Field :=
  ⟨f.ty.norm, nl, f.star.map (fun _ => nl), f.name, nl, f.arr.map (fun al => (al.1.norm, nl))⟩

def ConstD.norm (d : ConstD) : ConstD := ⟨nl, d.name, nl, nl, d.val, nl⟩
def TypedefD.norm (d : TypedefD) : TypedefD := ⟨nl, d.f.norm⟩
def VariantD.norm (v : VariantD) : VariantD := ⟨v.name, nl, nl, v.val⟩
def EnumD.norm (d : EnumD) : EnumD :=
  ⟨nl, d.name, nl, nl, d.first.norm, nl, d.more.map (fun m => (nl, m.2.1.norm, nl)), nl⟩
def StructD.norm (d : StructD) : StructD := ⟨nl, d.name, nl, nl, d.fields.map (fun fl => (fl.1.norm, nl)), nl⟩

def Body.norm : Body → Body
  | .void _ => .void nl
  | .field f => .field f.norm

def Arm.norm : Arm → Arm
  | .case _ lab _ _ body => .case nl lab nl nl (body.map Body.norm)
  | .dflt _ _ body => .dflt nl nl body.norm

def UnionD.norm (d : UnionD) : UnionD :=
  ⟨nl, d.name, nl, nl, nl, d.ty.norm, nl, d.var, nl, nl, nl, d.arms.map (fun al => (al.1.norm, nl)), nl⟩

def Decl.norm : Decl → Decl
  | .const d => .const d.norm
  | .typedef d => .typedef d.norm
  | .enum d => .enum d.norm
  | .struct d => .struct d.norm
  | .union d => .union d.norm

/-- **the declarations without any layout** -/
def Spec.norm (s : Spec) : Spec := ⟨nl, s.decls.map (fun dl => (dl.1.norm, nl))⟩

/-! ### a tree and its normal form are indistinguishable for `walk` -/

theorem Prim.norm_ok (pr : Prim) : pr.norm.ok = true := by cases pr <;> rfl
theorem Prim.norm_canon (pr : Prim) : pr.canon = pr.norm.canon := by cases pr <;> rfl

theorem sim_tyref (t : TyRef) (h : t.ok = true) : simL t.tokens t.norm.tokens = true := by
  cases t with
  | named n => exact simL_refl _
  | prim pr tr =>
    simp only [TyRef.ok, Bool.and_eq_true] at h
    refine simL_single ?_
    simp only [sim, beq_self_eq_true, Bool.true_and, Bool.and_eq_true]
    refine ⟨?_, rfl⟩
    have := ofStr_prim pr tr [' '] pr.norm h.1 h.2 pr.norm_ok (by decide) pr.norm_canon
    simp only [leafCond]
    rw [if_neg (by decide), if_pos (by decide)]
    exact decide_eq_true this

theorem sim_arr (a : Arr) : simL a.tokens a.norm.tokens = true := by
  cases a with
  | var l1 len =>
    cases len with
    | none => exact sim_arr1 _ _ _ _ (by decide) (by decide) (by decide)
    | some nl' => obtain ⟨n, l2⟩ := nl'; exact sim_arr1 _ _ _ _ (by decide) (by decide) (by decide)
  | fixed l1 n l2 => exact sim_arr1 _ _ _ _ (by decide) (by decide) (by decide)

theorem sim_field (f : Field) (h : f.ok = true) : simL f.tokens f.norm.tokens = true := by
  simp only [Field.ok, Bool.and_eq_true] at h
  refine simL_append _ _ _ _ (sim_tyref f.ty h.1.1.1.1.1.1) (simL_append _ _ _ _ ?_ ?_)
  · simp only [Field.nameToks, Field.norm]
    cases f.star with
    | none => exact simL_refl _
    | some ls => exact sim_comp1 _ _ _ (by decide) (by decide) (by decide) (simL_refl _)
  · simp only [Field.norm]
    cases f.arr with
    | none => rfl
    | some al => exact sim_arr al.1

theorem sim_const (d : ConstD) : simL d.tokens d.norm.tokens = true :=
  sim_comp1 _ _ _ (by decide) (by decide) (by decide) (simL_refl _)

theorem sim_typedef (d : TypedefD) (h : d.ok = true) : simL d.tokens d.norm.tokens = true := by
  simp only [TypedefD.ok, Bool.and_eq_true] at h
  exact sim_comp1 _ _ _ (by decide) (by decide) (by decide) (sim_field d.f h.1.2)

theorem sim_variant (v : VariantD) : simL v.tokens v.norm.tokens = true :=
  sim_comp1 _ _ _ (by decide) (by decide) (by decide) (simL_refl _)

theorem sim_enum (d : EnumD) : simL d.tokens d.norm.tokens = true := by
  refine sim_comp1 _ _ _ (by decide) (by decide) (by decide) ?_
  refine simL_append [_] [_] _ _ (simL_refl _) (simL_append _ _ _ _ (sim_variant d.first) ?_)
  exact simL_elemToks' d.more moreElem (fun m => (nl, m.2.1.norm, nl)) (fun m _ => sim_variant m.2.1)

theorem sim_struct (d : StructD) (h : d.ok = true) : simL d.tokens d.norm.tokens = true := by
  simp only [StructD.ok, Bool.and_eq_true, List.all_eq_true] at h
  refine sim_comp1 _ _ _ (by decide) (by decide) (by decide) ?_
  refine simL_append [_] [_] _ _ (simL_refl _) ?_
  refine simL_elemToks' d.fields (fieldElem "struct_data_field") (fun fl => (fl.1.norm, nl)) (fun fl hfl => ?_)
  have := h.1.2 fl hfl
  exact sim_comp1 _ _ _ (by decide) (by decide) (by decide) (sim_field fl.1 this.1)

theorem sim_body (b : Body) (h : b.ok = true) : simL b.tokens b.norm.tokens = true := by
  cases b with
  | void l => exact sim_comp1 _ _ _ (by decide) (by decide) (by decide) rfl
  | field f => exact sim_comp1 _ _ _ (by decide) (by decide) (by decide) (sim_field f h)

theorem sim_arm (a : Arm) (h : a.ok = true) : simL a.tokens a.norm.tokens = true := by
  cases a with
  | case la lab lb lc body =>
    simp only [Arm.ok, Bool.and_eq_true] at h
    refine sim_comp1 _ _ _ (by decide) (by decide) (by decide) (simL_append _ _ _ _ (simL_refl _) ?_)
    cases body with
    | none => rfl
    | some b => exact sim_body b h.2
  | dflt la lb body =>
    simp only [Arm.ok, Bool.and_eq_true] at h
    exact sim_comp1 _ _ _ (by decide) (by decide) (by decide) (sim_body body h.2)

theorem sim_union (d : UnionD) (h : d.ok = true) : simL d.tokens d.norm.tokens = true := by
  simp only [UnionD.ok, Bool.and_eq_true] at h
  obtain ⟨⟨⟨⟨⟨⟨⟨⟨⟨⟨⟨⟨⟨⟨_, _⟩, _⟩, _⟩, _⟩, hty⟩, _⟩, _⟩, _⟩, _⟩, _⟩, harms⟩, _⟩, _⟩, _⟩ := h
  refine sim_comp1 _ _ _ (by decide) (by decide) (by decide) ?_
  refine simL_append [_] [_] _ _ (simL_refl _) (simL_append _ _ _ _ (sim_tyref d.ty hty) (simL_append [_] [_] _ _ (simL_refl _) ?_))
  refine simL_elemToks' d.arms armElem (fun al => (al.1.norm, nl)) (fun al hal => ?_)
  have := (List.all_eq_true.mp harms) al hal
  simp only [Bool.and_eq_true] at this
  exact sim_arm al.1 this.1.1

theorem sim_decl (d : Decl) (h : d.ok = true) : simL d.tokens d.norm.tokens = true := by
  cases d with
  | const d => exact sim_const d
  | typedef d => exact sim_typedef d h
  | enum d => exact sim_enum d
  | struct d => exact sim_struct d h
  | union d => exact sim_union d h

/-- **the token tree of a specification and that of its layout-free normal form look the same to `walk`** -/
theorem spec_sim (s : Spec) (h : s.ok = true) : sim s.root s.norm.root = true := by
  simp only [Spec.ok, Bool.and_eq_true, List.all_eq_true] at h
  refine sim_comp _ _ _ (by decide) (by decide) (by decide) (simL_append _ _ [_] [_] ?_ (simL_refl _))
  exact simL_elemToks' s.decls declElem (fun dl => (dl.1.norm, nl)) (fun dl hdl => sim_decl dl.1 (h.2 dl hdl).1)

/-- two well-formed texts of the same declarations, whatever their layouts, are walked to the same result -/
theorem walk_layout (s s' : Spec) (h : s.ok = true) (h' : s'.ok = true) (hn : s.norm = s'.norm) : walk s.root = walk s'.root := by
  rw [walk_sim _ _ (spec_sim s h), walk_sim _ _ (spec_sim s' h'), hn]

end Fx.Parse
