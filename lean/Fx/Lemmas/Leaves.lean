/-
  Fx.Lemmas.Leaves — every opaque leaf of a decoded value is a window of the input buffer
  at the offset where its bytes sit.
-/
import Fx.Lemmas.Advance
namespace Fx

/-- `bs` is the window of `c`'s buffer that starts at absolute offset `off` -/
def leafIn (c : Cur) (off : Nat) (bs : List Byte) : Prop :=
  c.off ≤ off ∧ off + bs.length ≤ c.off + c.remaining ∧ bs = (c.data.drop (off - c.off)).take bs.length

mutual
def Val.LeavesIn (c : Cur) : Val → Prop
  | .bytes off bs => leafIn c off bs
  | .vec xs => xs.LeavesIn c
  | .arr xs => xs.LeavesIn c
  | .some v => v.LeavesIn c
  | .struct _ _ fs => fs.LeavesIn c
  | .tuple _ _ v => v.LeavesIn c
  | .newtype _ v => v.LeavesIn c
  | _ => True
def Vals.LeavesIn (c : Cur) : Vals → Prop
  | .nil => True
  | .cons v vs => v.LeavesIn c ∧ vs.LeavesIn c
end

theorem leafIn_of_adv {c c1 : Cur} (h : Adv c c1) {off : Nat} {bs : List Byte} (hl : leafIn c1 off bs) : leafIn c off bs := by
  obtain ⟨k, hk, ho, hd⟩ := h
  obtain ⟨h1, h2, h3⟩ := hl
  have hr : c1.remaining = c.remaining - k := by simp [Cur.remaining, hd]
  have e1 : c1.remaining + k = c.remaining := by rw [hr]; omega
  refine ⟨by omega, by omega, ?_⟩
  rw [hd, List.drop_drop] at h3
  have : k + (off - c1.off) = off - c.off := by omega
  rw [this] at h3
  exact h3

mutual
theorem Val.leavesIn_of_adv {c c1 : Cur} (h : Adv c c1) : ∀ (v : Val), v.LeavesIn c1 → v.LeavesIn c
  | .bytes off bs, hv => by simp only [Val.LeavesIn] at *; exact leafIn_of_adv h hv
  | .vec xs, hv => by simp only [Val.LeavesIn] at *; exact Vals.leavesIn_of_adv h xs hv
  | .arr xs, hv => by simp only [Val.LeavesIn] at *; exact Vals.leavesIn_of_adv h xs hv
  | .some v, hv => by simp only [Val.LeavesIn] at *; exact Val.leavesIn_of_adv h v hv
  | .struct _ _ fs, hv => by simp only [Val.LeavesIn] at *; exact Vals.leavesIn_of_adv h fs hv
  | .tuple _ _ v, hv => by simp only [Val.LeavesIn] at *; exact Val.leavesIn_of_adv h v hv
  | .newtype _ v, hv => by simp only [Val.LeavesIn] at *; exact Val.leavesIn_of_adv h v hv
  | .u32 _, _ => by simp [Val.LeavesIn]
  | .u64 _, _ => by simp [Val.LeavesIn]
  | .i32 _, _ => by simp [Val.LeavesIn]
  | .i64 _, _ => by simp [Val.LeavesIn]
  | .f32 _, _ => by simp [Val.LeavesIn]
  | .f64 _, _ => by simp [Val.LeavesIn]
  | .bool _, _ => by simp [Val.LeavesIn]
  | .str _, _ => by simp [Val.LeavesIn]
  | .none, _ => by simp [Val.LeavesIn]
  | .unit _ _, _ => by simp [Val.LeavesIn]
  | .cenum _ _, _ => by simp [Val.LeavesIn]
theorem Vals.leavesIn_of_adv {c c1 : Cur} (h : Adv c c1) : ∀ (vs : Vals), vs.LeavesIn c1 → vs.LeavesIn c
  | .nil, _ => by simp [Vals.LeavesIn]
  | .cons v vs, hv => by
    simp only [Vals.LeavesIn] at *
    exact ⟨Val.leavesIn_of_adv h v hv.1, Vals.leavesIn_of_adv h vs hv.2⟩
end

theorem Vals.leavesIn_snoc {c : Cur} : ∀ (vs : Vals) (v : Val), vs.LeavesIn c → v.LeavesIn c → (vs.snoc v).LeavesIn c
  | .nil, v, _, hv => by simp [Vals.snoc, Vals.LeavesIn, hv]
  | .cons x xs, v, hvs, hv => by
    simp only [Vals.snoc, Vals.LeavesIn] at *
    exact ⟨hvs.1, Vals.leavesIn_snoc xs v hvs.2 hv⟩

/-- the log does not matter for where leaves are -/
theorem leafIn_log (c : Cur) (l) (off bs) : leafIn { c with log := l } off bs ↔ leafIn c off bs := Iff.rfl

theorem readBytes_leaves {n c v c'} (h : readBytes n c = .ok v c') : v.LeavesIn c := by
  obtain ⟨hl, hv, _⟩ := readBytes_ok h
  subst hv
  simp only [Val.LeavesIn, leafIn]
  refine ⟨Nat.le_refl _, ?_, ?_⟩
  · simp [Cur.remaining] at *; omega
  · simp

theorem readVariableBytes_leaves {m c v c'} (h : readVariableBytes m c = .ok v c') : v.LeavesIn c := by
  unfold readVariableBytes at h
  obtain ⟨n, c1, h1, h2⟩ := Res.bind_eq_ok h
  split at h2
  · cases h2
  · exact Val.leavesIn_of_adv (readU32_adv h1) v (readBytes_leaves h2)

theorem readString_leaves {m c v c'} (h : readString m c = .ok v c') : v.LeavesIn c := by
  unfold readString at h
  obtain ⟨b, c1, h1, h2⟩ := Res.bind_eq_ok h
  simp only at h2
  split at h2
  · cases h2; simp [Val.LeavesIn]
  · cases h2

theorem readPrim_leaves {p c v c'} (h : readPrim p c = .ok v c') : v.LeavesIn c := by
  cases p <;> simp only [readPrim] at h <;> obtain ⟨a, _, h2⟩ := Res.map_eq_ok h <;> subst h2 <;> simp [Val.LeavesIn]

theorem arrLoop_leaves (dec : Cur → Res Val) (ws : Val → Nat)
    (hd : ∀ c v c', dec c = .ok v c' → v.LeavesIn c) :
    ∀ (k : Nat) (c0 c : Cur) (sum : Nat) (acc : Vals) (r : Vals × Nat) (c' : Cur),
      Adv c0 c → acc.LeavesIn c0 → arrLoop dec ws k c sum acc = .ok r c' → r.1.LeavesIn c0 := by
  intro k
  induction k with
  | zero => intro c0 c sum acc r c' _ hacc h; simp only [arrLoop] at h; cases h; exact hacc
  | succ k ih =>
    intro c0 c sum acc r c' hadv hacc h
    simp only [arrLoop] at h
    split at h
    · rename_i t ct hdec
      split at h
      · cases h
      · rename_i hlt
        have ht : t.LeavesIn c0 := Val.leavesIn_of_adv hadv t (hd _ _ _ hdec)
        have h1 : Adv c { c.advance (ws t) with log := ct.log } := ⟨ws t, by omega, rfl, rfl⟩
        exact ih c0 _ _ _ _ _ (hadv.trans h1) (Vals.leavesIn_snoc acc t hacc ht) h
    · cases h
    · cases h
    · cases h
    · cases h

theorem readVariableArray_leaves {dec ws m c v c'} (hd : ∀ c v c', dec c = .ok v c' → v.LeavesIn c)
    (h : readVariableArray dec ws m c = .ok v c') : v.LeavesIn c := by
  unfold readVariableArray at h
  obtain ⟨n, c1, h1, h2⟩ := Res.bind_eq_ok h
  split at h2
  · cases h2
  · obtain ⟨⟨out, sum⟩, c3, h3, h4⟩ := Res.bind_eq_ok h2
    simp only at h4
    split at h4
    · cases h4
    · obtain ⟨u, c4, h5, h6⟩ := Res.bind_eq_ok h4
      cases h6
      simp only [Val.LeavesIn]
      have a1 := readU32_adv h1
      have := arrLoop_leaves dec ws hd n c _ 0 .nil (out, sum) c3 (a1.trans (Adv.refl c1 |>.addLog _)) (by simp [Vals.LeavesIn]) h3
      exact this

/-- every opaque leaf of every successfully decoded value is a window of the input (ALL bytes, ALL plans) -/
theorem eval_leaves (a : Ast) (p : Plans) (fuel : Nat) :
    (∀ n c v c', evalImpl a p fuel n c = .ok v c' → v.LeavesIn c) ∧
    (∀ b c v c', evalBasic a p fuel b c = .ok v c' → v.LeavesIn c) ∧
    (∀ fd c v c', evalField a p fuel fd c = .ok v c' → v.LeavesIn c) ∧
    (∀ k b c vs c', evalRepeat a p fuel k b c = .ok vs c' → vs.LeavesIn c) ∧
    (∀ fs c vs c', evalFields a p fuel fs c = .ok vs c' → vs.LeavesIn c) := by
  induction fuel with
  | zero => refine ⟨?_, ?_, ?_, ?_, ?_⟩ <;> intros <;> simp [evalImpl, evalBasic, evalField, evalRepeat, evalFields] at *
  | succ f ih =>
    obtain ⟨ihI, ihB, ihF, ihR, ihFs⟩ := ih
    obtain ⟨adI, adB, adF, adR, adFs⟩ := eval_adv a p f
    refine ⟨?_, ?_, ?_, ?_, ?_⟩
    · intro n c v c' h
      simp only [evalImpl] at h
      split at h
      · cases h
      · split at h
        · obtain ⟨vs, c1, h1, h2⟩ := Res.bind_eq_ok h
          cases h2; simp only [Val.LeavesIn]; exact ihFs _ _ _ _ h1
        · obtain ⟨d, c1, h1, h2⟩ := Res.bind_eq_ok h
          have a1 := adB _ _ _ _ h1
          split at h2
          · split at h2
            · obtain ⟨v2, c2, h3, h4⟩ := Res.bind_eq_ok h2
              cases h4; simp only [Val.LeavesIn]
              exact Val.leavesIn_of_adv a1 _ (ihF _ _ _ _ h3)
            · cases h2; simp [Val.LeavesIn]
          · split at h2
            · obtain ⟨v2, c2, h3, h4⟩ := Res.bind_eq_ok h2
              cases h4; simp only [Val.LeavesIn]
              exact Val.leavesIn_of_adv a1 _ (ihF _ _ _ _ h3)
            · cases h2
            · cases h2
        · obtain ⟨i, c1, h1, h2⟩ := Res.bind_eq_ok h
          split at h2
          · cases h2; simp [Val.LeavesIn]
          · cases h2
        · obtain ⟨v2, c1, h1, h2⟩ := Res.bind_eq_ok h
          cases h2; simp only [Val.LeavesIn]; exact ihF _ _ _ _ h1
    · intro b c v c' h
      match b, h with
      | .prim pr, h => simp only [evalBasic] at h; exact readPrim_leaves h
      | .string, h => simp only [evalBasic] at h; exact readString_leaves h
      | .opaque, h => simp only [evalBasic] at h; exact readVariableBytes_leaves h
      | .tryFrom n, h => simp only [evalBasic] at h; exact ihI _ _ _ _ h
    · intro fd c v c' h
      cases fd with
      | one b => simp only [evalField] at h; exact ihB _ _ _ _ h
      | fixedBytes n => simp only [evalField] at h; exact readBytes_leaves h
      | fixedArr n b =>
        simp only [evalField] at h
        obtain ⟨vs, c1, h1, h2⟩ := Res.bind_eq_ok h
        cases h2; simp only [Val.LeavesIn]; exact ihR _ _ _ _ _ h1
      | varBytes m => simp only [evalField] at h; exact readVariableBytes_leaves h
      | varString m => simp only [evalField] at h; exact readString_leaves h
      | varArr ty g m => simp only [evalField] at h; exact readVariableArray_leaves (fun c v c' hh => ihI ty c v c' hh) h
    · intro k b c vs c' h
      cases k with
      | zero => simp only [evalRepeat] at h; cases h; simp [Vals.LeavesIn]
      | succ k =>
        simp only [evalRepeat] at h
        obtain ⟨v, c1, h1, h2⟩ := Res.bind_eq_ok h
        obtain ⟨vs2, c2, h3, h4⟩ := Res.bind_eq_ok h2
        cases h4
        simp only [Vals.LeavesIn]
        exact ⟨ihB _ _ _ _ h1, Vals.leavesIn_of_adv (adB _ _ _ _ h1) _ (ihR _ _ _ _ _ h3)⟩
    · intro fs c vs c' h
      cases fs with
      | nil => simp only [evalFields] at h; cases h; simp [Vals.LeavesIn]
      | cons fld rest =>
        simp only [evalFields] at h
        obtain ⟨v, c1, h1, h2⟩ := Res.bind_eq_ok h
        obtain ⟨vs2, c2, h3, h4⟩ := Res.bind_eq_ok h2
        cases h4
        simp only [Vals.LeavesIn]
        cases fld with
        | plain nm fd =>
          exact ⟨ihF _ _ _ _ h1, Vals.leavesIn_of_adv (adF _ _ _ _ h1) _ (ihFs _ _ _ _ h3)⟩
        | optional nm ty =>
          simp only at h1
          obtain ⟨m, cm, h5, h6⟩ := Res.bind_eq_ok h1
          have a1 := readU32_adv h5
          split at h6
          · cases h6
            exact ⟨by simp [Val.LeavesIn], Vals.leavesIn_of_adv a1 _ (ihFs _ _ _ _ h3)⟩
          · split at h6
            · obtain ⟨v3, c3, h7, h8⟩ := Res.bind_eq_ok h6
              cases h8
              refine ⟨?_, ?_⟩
              · simp only [Val.LeavesIn]; exact Val.leavesIn_of_adv a1 _ (ihI _ _ _ _ h7)
              · exact Vals.leavesIn_of_adv (a1.trans ((adI _ _ _ _ h7).addLog _)) _ (ihFs _ _ _ _ h3)
            · cases h6

end Fx
