/-
  Fx.Lemmas.PegRel — a budget-free way to state what the parser model answers.

  `EOk g a e s s' ts` says: *some* recursion budget makes `eval g · a e s` answer `ok s' ts`; by budget irrelevance
  (`fuel_succ`) every larger budget gives the same answer, so facts of this form compose like the rules of a big-step
  semantics.  Every lemma below is one such rule, proved about the interpreter itself (no separate relation to keep in
  step with it).
-/
import Fx.Lemmas.PegFuel
namespace Fx.Peg

theorem mono_of_succ (F : Nat → PR) (hs : ∀ f, Same (F f) (F (f + 1))) {f f' : Nat} (hff : f ≤ f')
    (h : F f ≠ .outOfFuel) : F f' = F f := by
  induction f' with
  | zero =>
    have : f = 0 := by omega
    subst this; rfl
  | succ k ih =>
    by_cases hk : f ≤ k
    · have e := ih hk
      rw [← e]
      exact hs k (by rw [e]; exact h)
    · have : f = k + 1 := by omega
      subst this; rfl

section
variable (g : Grammar)

theorem eval_lift {f f' : Nat} {a : Bool} {e : Expr} {s : St} {r : PR} (h : eval g f a e s = r) (hr : r ≠ .outOfFuel)
    (hff : f ≤ f') : eval g f' a e s = r := by
  rw [mono_of_succ (fun f => eval g f a e s) (fun f => (fuel_succ g f).1 a e s) hff (by rw [h]; exact hr)]; exact h

theorem rep_lift {f f' : Nat} {a : Bool} {e : Expr} {s : St} {acc : List Pair} {r : PR} (h : repeatMore g f a e s acc = r)
    (hr : r ≠ .outOfFuel) (hff : f ≤ f') : repeatMore g f' a e s acc = r := by
  rw [mono_of_succ (fun f => repeatMore g f a e s acc) (fun f => (fuel_succ g f).2.1 a e s acc) hff (by rw [h]; exact hr)]
  exact h

theorem rule_lift {f f' : Nat} {a : Bool} {n : String} {s : St} {r : PR} (h : evalRule g f a n s = r) (hr : r ≠ .outOfFuel)
    (hff : f ≤ f') : evalRule g f' a n s = r := by
  rw [mono_of_succ (fun f => evalRule g f a n s) (fun f => (fuel_succ g f).2.2.1 a n s) hff (by rw [h]; exact hr)]; exact h

theorem ws_lift {f f' : Nat} {s : St} {r : PR} (h : skipWs g f s = r) (hr : r ≠ .outOfFuel)
    (hff : f ≤ f') : skipWs g f' s = r := by
  rw [mono_of_succ (fun f => skipWs g f s) (fun f => (fuel_succ g f).2.2.2.1 s) hff (by rw [h]; exact hr)]; exact h

theorem skip_lift {f f' : Nat} {s : St} {r : PR} (h : skip g f s = r) (hr : r ≠ .outOfFuel)
    (hff : f ≤ f') : skip g f' s = r := by
  rw [mono_of_succ (fun f => skip g f s) (fun f => (fuel_succ g f).2.2.2.2 s) hff (by rw [h]; exact hr)]; exact h

/-- some budget makes `e` accept at `s`, ending at `s'` with tokens `ts` -/
def EOk (a : Bool) (e : Expr) (s s' : St) (ts : List Pair) : Prop := ∃ f, eval g f a e s = .ok s' ts
/-- some budget makes `e` reject at `s` -/
def EFail (a : Bool) (e : Expr) (s : St) : Prop := ∃ f, eval g f a e s = .fail
def ROk (a : Bool) (n : String) (s s' : St) (ts : List Pair) : Prop := ∃ f, evalRule g f a n s = .ok s' ts
def RFail (a : Bool) (n : String) (s : St) : Prop := ∃ f, evalRule g f a n s = .fail
/-- the implicit skip ends at `s'` (its token list is always discarded by the callers) -/
def SkOk (s s' : St) : Prop := ∃ f ts, skip g f s = .ok s' ts
def WsOk (s s' : St) : Prop := ∃ f ts, skipWs g f s = .ok s' ts
def RepOk (a : Bool) (e : Expr) (s : St) (acc : List Pair) (s' : St) (ts : List Pair) : Prop :=
  ∃ f, repeatMore g f a e s acc = .ok s' ts

variable {g}

/-! ### terminals -/

theorem EOk.str {a : Bool} {t : List Char} {s s' : St} (h : matchStr t s = some s') : EOk g a (.str t) s s' [] :=
  ⟨1, by simp [eval, h, ofOpt]⟩

theorem EFail.str {a : Bool} {t : List Char} {s : St} (h : matchStr t s = none) : EFail g a (.str t) s :=
  ⟨1, by simp [eval, h, ofOpt]⟩

theorem EOk.any {a : Bool} {p : Nat} {c : Char} {cs : List Char} : EOk g a .any ⟨p, c :: cs⟩ ⟨p + 1, cs⟩ [] :=
  ⟨1, by simp [eval]⟩

theorem EOk.soi {a : Bool} {cs : List Char} : EOk g a .soi ⟨0, cs⟩ ⟨0, cs⟩ [] := ⟨1, by simp [eval]⟩

theorem EOk.eoi {p : Nat} : EOk g false .eoi ⟨p, []⟩ ⟨p, []⟩ [Pair.mk "EOI" [] []] := ⟨1, by simp [eval]⟩

theorem EOk.digit {a : Bool} {p : Nat} {c : Char} {cs : List Char} (h : isAsciiDigit c = true) :
    EOk g a .digit ⟨p, c :: cs⟩ ⟨p + 1, cs⟩ [] := ⟨1, by simp [eval, h]⟩

theorem EFail.digit {a : Bool} {p : Nat} {c : Char} {cs : List Char} (h : isAsciiDigit c = false) :
    EFail g a .digit ⟨p, c :: cs⟩ := ⟨1, by simp [eval, h]⟩

theorem EFail.digit_nil {a : Bool} {p : Nat} : EFail g a .digit ⟨p, []⟩ := ⟨1, by simp [eval]⟩

theorem EOk.alnum {a : Bool} {p : Nat} {c : Char} {cs : List Char} (h : isAsciiAlnum c = true) :
    EOk g a .alnum ⟨p, c :: cs⟩ ⟨p + 1, cs⟩ [] := ⟨1, by simp [eval, h]⟩

theorem EFail.alnum {a : Bool} {p : Nat} {c : Char} {cs : List Char} (h : isAsciiAlnum c = false) :
    EFail g a .alnum ⟨p, c :: cs⟩ := ⟨1, by simp [eval, h]⟩

theorem EFail.alnum_nil {a : Bool} {p : Nat} : EFail g a .alnum ⟨p, []⟩ := ⟨1, by simp [eval]⟩


theorem EOk.newline_n {a : Bool} {p : Nat} {cs : List Char} : EOk g a .newline ⟨p, '\n' :: cs⟩ ⟨p + 1, cs⟩ [] :=
  ⟨1, by simp [eval, matchStr]⟩

theorem EOk.newline_rn {a : Bool} {p : Nat} {cs : List Char} : EOk g a .newline ⟨p, '\r' :: '\n' :: cs⟩ ⟨p + 1 + 1, cs⟩ [] :=
  ⟨1, by simp [eval, matchStr]⟩

theorem EOk.newline_r {a : Bool} {p : Nat} {cs : List Char} (h : cs.head? ≠ some '\n') :
    EOk g a .newline ⟨p, '\r' :: cs⟩ ⟨p + 1, cs⟩ [] := by
  refine ⟨1, ?_⟩
  cases cs with
  | nil => simp [eval, matchStr, ofOpt]
  | cons d ds =>
    have : ¬ ('\n' = d) := fun e => h (by simp [← e])
    simp [eval, matchStr, ofOpt, this]

theorem EFail.newline {a : Bool} {p : Nat} {c : Char} {cs : List Char} (h1 : c ≠ '\n') (h2 : c ≠ '\r') :
    EFail g a .newline ⟨p, c :: cs⟩ := by
  have e1 : ¬ ('\n' = c) := fun e => h1 e.symm
  have e2 : ¬ ('\r' = c) := fun e => h2 e.symm
  exact ⟨1, by simp [eval, matchStr, ofOpt, e1, e2]⟩

theorem EFail.newline_nil {a : Bool} {p : Nat} : EFail g a .newline ⟨p, []⟩ := ⟨1, by simp [eval, matchStr, ofOpt]⟩

theorem EFail.any_nil {a : Bool} {p : Nat} : EFail g a .any ⟨p, []⟩ := ⟨1, by simp [eval]⟩

theorem EFail.eoi {a : Bool} {p : Nat} {c : Char} {cs : List Char} : EFail g a .eoi ⟨p, c :: cs⟩ := ⟨1, by simp [eval]⟩

/-! ### references -/

theorem EOk.ref {a : Bool} {n : String} {s s' : St} {ts : List Pair} (h : ROk g a n s s' ts) : EOk g a (.ref n) s s' ts := by
  obtain ⟨f, h⟩ := h
  exact ⟨f + 1, by rw [eval_ref]; exact h⟩

theorem EFail.ref {a : Bool} {n : String} {s : St} (h : RFail g a n s) : EFail g a (.ref n) s := by
  obtain ⟨f, h⟩ := h
  exact ⟨f + 1, by rw [eval_ref]; exact h⟩

/-! ### sequence -/

theorem EOk.seq {a b : Expr} {s s1 s1' s2 : St} {t1 t2 : List Pair} (ha : EOk g false a s s1 t1) (hs : SkOk g s1 s1')
    (hb : EOk g false b s1' s2 t2) : EOk g false (.seq a b) s s2 (t1 ++ t2) := by
  obtain ⟨f1, h1⟩ := ha; obtain ⟨f2, x, h2⟩ := hs; obtain ⟨f3, h3⟩ := hb
  refine ⟨max f1 (max f2 f3) + 1, ?_⟩
  rw [eval_seq, eval_lift g h1 (by simp) (by omega)]
  simp only [Bool.false_eq_true, if_false]
  rw [skip_lift g h2 (by simp) (by omega)]
  simp only
  rw [eval_lift g h3 (by simp) (by omega)]

theorem EOk.seqA {a b : Expr} {s s1 s2 : St} {t1 t2 : List Pair} (ha : EOk g true a s s1 t1)
    (hb : EOk g true b s1 s2 t2) : EOk g true (.seq a b) s s2 (t1 ++ t2) := by
  obtain ⟨f1, h1⟩ := ha; obtain ⟨f3, h3⟩ := hb
  refine ⟨max f1 f3 + 1, ?_⟩
  rw [eval_seq, eval_lift g h1 (by simp) (by omega)]
  simp only [if_true]
  rw [eval_lift g h3 (by simp) (by omega)]

theorem EFail.seq1 {at_ : Bool} {a b : Expr} {s : St} (ha : EFail g at_ a s) : EFail g at_ (.seq a b) s := by
  obtain ⟨f1, h1⟩ := ha
  exact ⟨f1 + 1, by rw [eval_seq, h1]⟩

theorem EFail.seq2 {a b : Expr} {s s1 s1' : St} {t1 : List Pair} (ha : EOk g false a s s1 t1) (hs : SkOk g s1 s1')
    (hb : EFail g false b s1') : EFail g false (.seq a b) s := by
  obtain ⟨f1, h1⟩ := ha; obtain ⟨f2, x, h2⟩ := hs; obtain ⟨f3, h3⟩ := hb
  refine ⟨max f1 (max f2 f3) + 1, ?_⟩
  rw [eval_seq, eval_lift g h1 (by simp) (by omega)]
  simp only [Bool.false_eq_true, if_false]
  rw [skip_lift g h2 (by simp) (by omega)]
  simp only
  rw [eval_lift g h3 (by simp) (by omega)]

theorem EFail.seq2A {a b : Expr} {s s1 : St} {t1 : List Pair} (ha : EOk g true a s s1 t1)
    (hb : EFail g true b s1) : EFail g true (.seq a b) s := by
  obtain ⟨f1, h1⟩ := ha; obtain ⟨f3, h3⟩ := hb
  refine ⟨max f1 f3 + 1, ?_⟩
  rw [eval_seq, eval_lift g h1 (by simp) (by omega)]
  simp only [if_true]
  rw [eval_lift g h3 (by simp) (by omega)]

/-! ### choice, option, lookahead -/

theorem EOk.alt1 {at_ : Bool} {a b : Expr} {s s' : St} {ts : List Pair} (ha : EOk g at_ a s s' ts) :
    EOk g at_ (.alt a b) s s' ts := by
  obtain ⟨f1, h1⟩ := ha
  exact ⟨f1 + 1, by rw [eval_alt, h1]⟩

theorem EOk.alt2 {at_ : Bool} {a b : Expr} {s s' : St} {ts : List Pair} (ha : EFail g at_ a s) (hb : EOk g at_ b s s' ts) :
    EOk g at_ (.alt a b) s s' ts := by
  obtain ⟨f1, h1⟩ := ha; obtain ⟨f2, h2⟩ := hb
  refine ⟨max f1 f2 + 1, ?_⟩
  rw [eval_alt, eval_lift g h1 (by simp) (by omega)]
  simp only
  rw [eval_lift g h2 (by simp) (by omega)]

theorem EFail.alt {at_ : Bool} {a b : Expr} {s : St} (ha : EFail g at_ a s) (hb : EFail g at_ b s) :
    EFail g at_ (.alt a b) s := by
  obtain ⟨f1, h1⟩ := ha; obtain ⟨f2, h2⟩ := hb
  refine ⟨max f1 f2 + 1, ?_⟩
  rw [eval_alt, eval_lift g h1 (by simp) (by omega)]
  simp only
  rw [eval_lift g h2 (by simp) (by omega)]

theorem EOk.opt_some {at_ : Bool} {e : Expr} {s s' : St} {ts : List Pair} (h : EOk g at_ e s s' ts) :
    EOk g at_ (.opt e) s s' ts := by
  obtain ⟨f1, h1⟩ := h
  exact ⟨f1 + 1, by rw [eval_opt, h1]⟩

theorem EOk.opt_none {at_ : Bool} {e : Expr} {s : St} (h : EFail g at_ e s) : EOk g at_ (.opt e) s s [] := by
  obtain ⟨f1, h1⟩ := h
  exact ⟨f1 + 1, by rw [eval_opt, h1]⟩

theorem EOk.not {at_ : Bool} {e : Expr} {s : St} (h : EFail g at_ e s) : EOk g at_ (.not e) s s [] := by
  obtain ⟨f1, h1⟩ := h
  exact ⟨f1 + 1, by rw [eval_not, h1]⟩

theorem EFail.not {at_ : Bool} {e : Expr} {s s' : St} {ts : List Pair} (h : EOk g at_ e s s' ts) : EFail g at_ (.not e) s := by
  obtain ⟨f1, h1⟩ := h
  exact ⟨f1 + 1, by rw [eval_not, h1]⟩

/-! ### repetition -/

theorem EOk.star_nil {at_ : Bool} {e : Expr} {s : St} (h : EFail g at_ e s) : EOk g at_ (.star e) s s [] := by
  obtain ⟨f1, h1⟩ := h
  exact ⟨f1 + 1, by rw [eval_star, h1]⟩

theorem EOk.star_cons {at_ : Bool} {e : Expr} {s s1 s' : St} {t1 ts : List Pair} (h : EOk g at_ e s s1 t1)
    (hr : RepOk g at_ e s1 t1 s' ts) : EOk g at_ (.star e) s s' ts := by
  obtain ⟨f1, h1⟩ := h; obtain ⟨f2, h2⟩ := hr
  refine ⟨max f1 f2 + 1, ?_⟩
  rw [eval_star, eval_lift g h1 (by simp) (by omega)]
  simp only
  rw [rep_lift g h2 (by simp) (by omega)]

/-- the loop stops: the next iteration (after the skip) rejects; the position before the skip is restored -/
theorem RepOk.stop {e : Expr} {s s' : St} {acc : List Pair} (hs : SkOk g s s') (h : EFail g false e s') :
    RepOk g false e s acc s acc := by
  obtain ⟨f1, x, h1⟩ := hs; obtain ⟨f2, h2⟩ := h
  refine ⟨max f1 f2 + 1, ?_⟩
  rw [repeatMore_unf]
  simp only [Bool.false_eq_true, if_false]
  rw [skip_lift g h1 (by simp) (by omega)]
  simp only
  rw [eval_lift g h2 (by simp) (by omega)]

theorem RepOk.stopA {e : Expr} {s : St} {acc : List Pair} (h : EFail g true e s) : RepOk g true e s acc s acc := by
  obtain ⟨f2, h2⟩ := h
  refine ⟨f2 + 1, ?_⟩
  rw [repeatMore_unf]
  simp only [if_true]
  rw [h2]

theorem RepOk.step {e : Expr} {s s' s2 sf : St} {acc t2 tf : List Pair} (hs : SkOk g s s') (h : EOk g false e s' s2 t2)
    (hp : s2.pos ≠ s.pos) (hr : RepOk g false e s2 (acc ++ t2) sf tf) : RepOk g false e s acc sf tf := by
  obtain ⟨f1, x, h1⟩ := hs; obtain ⟨f2, h2⟩ := h; obtain ⟨f3, h3⟩ := hr
  refine ⟨max f1 (max f2 f3) + 1, ?_⟩
  rw [repeatMore_unf]
  simp only [Bool.false_eq_true, if_false]
  rw [skip_lift g h1 (by simp) (by omega)]
  simp only
  rw [eval_lift g h2 (by simp) (by omega)]
  simp only [hp, if_false]
  rw [rep_lift g h3 (by simp) (by omega)]

theorem RepOk.stepA {e : Expr} {s s2 sf : St} {acc t2 tf : List Pair} (h : EOk g true e s s2 t2)
    (hp : s2.pos ≠ s.pos) (hr : RepOk g true e s2 (acc ++ t2) sf tf) : RepOk g true e s acc sf tf := by
  obtain ⟨f2, h2⟩ := h; obtain ⟨f3, h3⟩ := hr
  refine ⟨max f2 f3 + 1, ?_⟩
  rw [repeatMore_unf]
  simp only [if_true]
  rw [eval_lift g h2 (by simp) (by omega)]
  simp only [hp, if_false]
  rw [rep_lift g h3 (by simp) (by omega)]

theorem EOk.plus {at_ : Bool} {e : Expr} {s s' : St} {ts : List Pair} (h : EOk g at_ (.seq e (.star e)) s s' ts) :
    EOk g at_ (.plus e) s s' ts := by
  obtain ⟨f1, h1⟩ := h
  exact ⟨f1 + 1, by rw [eval_plus, h1]⟩

theorem EFail.plus {at_ : Bool} {e : Expr} {s : St} (h : EFail g at_ e s) : EFail g at_ (.plus e) s := by
  obtain ⟨f1, h1⟩ := h
  exact ⟨f1 + 2, by rw [eval_plus, eval_seq, h1]⟩

/-! ### rules -/

theorem ROk.silent {at_ : Bool} {n : String} {r : Rule} {s s' : St} {ts : List Pair} (hf : g.find n = some r)
    (hn : (n == "WHITESPACE" || n == "COMMENT") = false) (ht : r.ty = .silent) (h : EOk g at_ r.body s s' ts) :
    ROk g at_ n s s' ts := by
  obtain ⟨f1, h1⟩ := h
  exact ⟨f1 + 1, by rw [evalRule_unf, hf]; simp only [hn, Bool.false_eq_true, if_false, ht]; exact h1⟩

theorem RFail.silent {at_ : Bool} {n : String} {r : Rule} {s : St} (hf : g.find n = some r)
    (hn : (n == "WHITESPACE" || n == "COMMENT") = false) (ht : r.ty = .silent) (h : EFail g at_ r.body s) :
    RFail g at_ n s := by
  obtain ⟨f1, h1⟩ := h
  exact ⟨f1 + 1, by rw [evalRule_unf, hf]; simp only [hn, Bool.false_eq_true, if_false, ht]; exact h1⟩

theorem ROk.normal {n : String} {r : Rule} {s s' : St} {ts : List Pair} (hf : g.find n = some r)
    (hn : (n == "WHITESPACE" || n == "COMMENT") = false) (ht : r.ty = .normal) (h : EOk g false r.body s s' ts) :
    ROk g false n s s' [Pair.mk n (consumed s s') ts] := by
  obtain ⟨f1, h1⟩ := h
  exact ⟨f1 + 1, by rw [evalRule_unf, hf]; simp only [hn, Bool.false_eq_true, if_false, ht, h1]⟩

theorem ROk.normalA {n : String} {r : Rule} {s s' : St} {ts : List Pair} (hf : g.find n = some r)
    (hn : (n == "WHITESPACE" || n == "COMMENT") = false) (ht : r.ty = .normal) (h : EOk g true r.body s s' ts) :
    ROk g true n s s' [] := by
  obtain ⟨f1, h1⟩ := h
  exact ⟨f1 + 1, by rw [evalRule_unf, hf]; simp only [hn, Bool.false_eq_true, if_false, ht, h1, if_true]⟩

theorem RFail.normal {at_ : Bool} {n : String} {r : Rule} {s : St} (hf : g.find n = some r)
    (hn : (n == "WHITESPACE" || n == "COMMENT") = false) (ht : r.ty = .normal) (h : EFail g at_ r.body s) :
    RFail g at_ n s := by
  obtain ⟨f1, h1⟩ := h
  exact ⟨f1 + 1, by rw [evalRule_unf, hf]; simp only [hn, Bool.false_eq_true, if_false, ht, h1]⟩

/-- an atomic rule called from a non-atomic context: one token, no children -/
theorem ROk.atomic {n : String} {r : Rule} {s s' : St} {ts : List Pair} (hf : g.find n = some r)
    (hn : (n == "WHITESPACE" || n == "COMMENT") = false) (ht : r.ty = .atomic) (h : EOk g true r.body s s' ts) :
    ROk g false n s s' [Pair.mk n (consumed s s') []] := by
  obtain ⟨f1, h1⟩ := h
  exact ⟨f1 + 1, by rw [evalRule_unf, hf]; simp only [hn, Bool.false_eq_true, if_false, ht, h1]⟩

theorem ROk.atomicA {n : String} {r : Rule} {s s' : St} {ts : List Pair} (hf : g.find n = some r)
    (hn : (n == "WHITESPACE" || n == "COMMENT") = false) (ht : r.ty = .atomic) (h : EOk g true r.body s s' ts) :
    ROk g true n s s' [] := by
  obtain ⟨f1, h1⟩ := h
  exact ⟨f1 + 1, by rw [evalRule_unf, hf]; simp only [hn, Bool.false_eq_true, if_false, ht, h1, if_true]⟩

theorem RFail.atomic {at_ : Bool} {n : String} {r : Rule} {s : St} (hf : g.find n = some r)
    (hn : (n == "WHITESPACE" || n == "COMMENT") = false) (ht : r.ty = .atomic) (h : EFail g true r.body s) :
    RFail g at_ n s := by
  obtain ⟨f1, h1⟩ := h
  exact ⟨f1 + 1, by rw [evalRule_unf, hf]; simp only [hn, Bool.false_eq_true, if_false, ht, h1]⟩

/-- `WHITESPACE` and `COMMENT` always run atomically and never produce tokens -/
theorem ROk.layout {at_ : Bool} {n : String} {r : Rule} {s s' : St} {ts : List Pair} (hf : g.find n = some r)
    (hn : (n == "WHITESPACE" || n == "COMMENT") = true) (h : EOk g true r.body s s' ts) : ROk g at_ n s s' [] := by
  obtain ⟨f1, h1⟩ := h
  exact ⟨f1 + 1, by rw [evalRule_unf, hf]; simp only [hn, if_true, h1]⟩

theorem RFail.layout {at_ : Bool} {n : String} {r : Rule} {s : St} (hf : g.find n = some r)
    (hn : (n == "WHITESPACE" || n == "COMMENT") = true) (h : EFail g true r.body s) : RFail g at_ n s := by
  obtain ⟨f1, h1⟩ := h
  exact ⟨f1 + 1, by rw [evalRule_unf, hf]; simp only [hn, if_true, h1]⟩

/-! ### the implicit skip -/

theorem WsOk.stop {s : St} (h : RFail g true "WHITESPACE" s) : WsOk g s s := by
  obtain ⟨f1, h1⟩ := h
  exact ⟨f1 + 1, [], by rw [skipWs_unf, h1]⟩

theorem WsOk.step {s s1 s' : St} {ts : List Pair} (h : ROk g true "WHITESPACE" s s1 ts) (hp : s1.pos ≠ s.pos) (hr : WsOk g s1 s') :
    WsOk g s s' := by
  obtain ⟨f1, h1⟩ := h; obtain ⟨f2, x, h2⟩ := hr
  refine ⟨max f1 f2 + 1, x, ?_⟩
  rw [skipWs_unf, rule_lift g h1 (by simp) (by omega)]
  simp only [hp, if_false]
  rw [ws_lift g h2 (by simp) (by omega)]

theorem SkOk.stop {s s1 : St} (hw : WsOk g s s1) (h : RFail g true "COMMENT" s1) : SkOk g s s1 := by
  obtain ⟨f1, x, h1⟩ := hw; obtain ⟨f2, h2⟩ := h
  refine ⟨max f1 f2 + 1, [], ?_⟩
  rw [skip_unf, ws_lift g h1 (by simp) (by omega)]
  simp only
  rw [rule_lift g h2 (by simp) (by omega)]

theorem SkOk.step {s s1 s2 s' : St} {ts : List Pair} (hw : WsOk g s s1) (h : ROk g true "COMMENT" s1 s2 ts)
    (hp : s2.pos ≠ s1.pos) (hr : SkOk g s2 s') : SkOk g s s' := by
  obtain ⟨f1, x, h1⟩ := hw; obtain ⟨f2, h2⟩ := h; obtain ⟨f3, y, h3⟩ := hr
  refine ⟨max f1 (max f2 f3) + 1, y, ?_⟩
  rw [skip_unf, ws_lift g h1 (by simp) (by omega)]
  simp only
  rw [rule_lift g h2 (by simp) (by omega)]
  simp only [hp, if_false]
  rw [skip_lift g h3 (by simp) (by omega)]

/-! ### from "some budget" to the budget `parseWith` uses -/

theorem ROk.at_budget {n : String} {s s' : St} {ts : List Pair} (h : ROk g false n s s' ts) {f : Nat}
    (hf : evalRule g f false n s ≠ .outOfFuel) : evalRule g f false n s = .ok s' ts := by
  obtain ⟨f1, h1⟩ := h
  have a := rule_lift g h1 (by simp) (Nat.le_max_left f1 f)
  have b := rule_lift g (r := evalRule g f false n s) rfl hf (Nat.le_max_right f1 f)
  rw [← b, a]

end
end Fx.Peg
