/-
  Fx.Lemmas.Depth — for specifications without recursive types, an explicit recursion budget computed from the plans alone.

  `C04_terminates` gives, for finite types, *some* budget per buffer length (a recursive list type needs a budget that grows
  with the input).  When no declaration can reach itself at all — not even through `Option<Box<_>>` or `Vec<_>` — the budget
  does not depend on the input: `Plans.need` below is computed from the plans only, and from it on every decoder answers on
  EVERY buffer.  C09 uses it: the total reservation of one decode is at most `depth × bytes present`, with `depth` a constant
  of the specification.
-/
import Fx.Lemmas.Terminates
namespace Fx

/-! ### soundness of `need` -/

section level
variable (a : Ast) (p : Plans) (rec : String → Nat)

/-- the named decoders in `S` answer from their budget `rec` on, on every buffer -/
def RecOk (S : List String) : Prop := ∀ m ∈ S, ∀ f, rec m ≤ f → ∀ c, evalImpl a p f m c ≠ .outOfFuel

theorem basic_need (b : BasicDec) (h : RecOk a p rec b.direct) (f : Nat) (hf : b.need rec ≤ f) (c : Cur) :
    evalBasic a p f b c ≠ .outOfFuel := by
  cases f with
  | zero => cases b <;> simp [BasicDec.need] at hf
  | succ f' =>
    cases b with
    | prim pr => simp only [evalBasic]; exact readPrim_noof pr c
    | string => simp only [evalBasic]; exact readString_noof none c
    | «opaque» => simp only [evalBasic]; exact readVariableBytes_noof none c
    | tryFrom n =>
      simp only [evalBasic]
      exact h n (by simp [BasicDec.direct]) f' (by simp [BasicDec.need] at hf; omega) c

theorem repeat_need (b : BasicDec) (h : RecOk a p rec b.direct) :
    ∀ (k f : Nat), k + b.need rec + 1 ≤ f → ∀ c, evalRepeat a p f k b c ≠ .outOfFuel := by
  intro k
  induction k with
  | zero =>
    intro f hf c
    cases f with
    | zero => omega
    | succ f' => simp [evalRepeat]
  | succ k ih =>
    intro f hf c
    cases f with
    | zero => omega
    | succ f' =>
      simp only [evalRepeat]
      refine bind_noof (basic_need a p rec b h f' (by omega) c) (fun v c1 _ => ?_)
      refine bind_noof (ih f' (by omega) c1) (fun vs c2 _ => ?_)
      intro h; cases h

theorem field_need (fd : FieldDec) (h : RecOk a p rec fd.allRefs) (f : Nat) (hf : fd.need rec ≤ f) (c : Cur) :
    evalField a p f fd c ≠ .outOfFuel := by
  cases f with
  | zero => cases fd <;> simp [FieldDec.need] at hf
  | succ f' =>
    cases fd with
    | one b =>
      simp only [evalField]
      exact basic_need a p rec b h f' (by simp [FieldDec.need] at hf; omega) c
    | fixedBytes n => simp only [evalField]; exact readBytes_noof n c
    | fixedArr k b =>
      simp only [evalField]
      refine bind_noof (repeat_need a p rec b h k f' (by simp [FieldDec.need] at hf; omega) c) (fun vs c1 _ => ?_)
      intro h; cases h
    | varBytes m => simp only [evalField]; exact readVariableBytes_noof m c
    | varString m => simp only [evalField]; exact readString_noof m c
    | varArr ty g m =>
      simp only [evalField]
      exact readVariableArray_noof _ _ m c.remaining
        (fun c' _ => h ty (by simp [FieldDec.allRefs]) f' (by simp [FieldDec.need] at hf; omega) c') c (Nat.le_refl _)

theorem fields_need : ∀ (fs : List StructFieldDec), RecOk a p rec (fs.flatMap StructFieldDec.allRefs) →
    ∀ f, fieldsNeed rec fs ≤ f → ∀ c, evalFields a p f fs c ≠ .outOfFuel := by
  intro fs
  induction fs with
  | nil =>
    intro _ f hf c
    cases f with
    | zero => simp [fieldsNeed] at hf
    | succ f' => simp [evalFields]
  | cons fld rest ih =>
    intro h f hf c
    have hrest : RecOk a p rec (rest.flatMap StructFieldDec.allRefs) :=
      fun m hm => h m (by simp only [List.flatMap_cons, List.mem_append]; exact Or.inr hm)
    have hfld : RecOk a p rec fld.allRefs :=
      fun m hm => h m (by simp only [List.flatMap_cons, List.mem_append]; exact Or.inl hm)
    cases f with
    | zero => simp [fieldsNeed] at hf
    | succ f' =>
      simp only [fieldsNeed] at hf
      simp only [evalFields]
      have hhead : (match fld with
          | .plain _ fd => evalField a p f' fd c
          | .optional _ ty =>
            (readU32 c).bind fun m c1 =>
              if m = 0 then Res.ok Val.none c1
              else if m = 1 then (evalImpl a p f' ty c1).bind fun v c2 => Res.ok (Val.some v) (c2.addLog .box)
              else Res.err (.unknownOptionVariant m) c1.log) ≠ .outOfFuel := by
        cases fld with
        | plain nm fd =>
          simp only
          exact field_need a p rec fd hfld f' (by simp only [StructFieldDec.need] at hf; omega) c
        | optional nm ty =>
          simp only
          refine bind_noof (readU32_noof c) (fun m c1 _ => ?_)
          split
          · intro h; cases h
          · split
            · refine bind_noof (hfld ty (by simp [StructFieldDec.allRefs]) f'
                (by simp only [StructFieldDec.need] at hf; omega) c1) (fun v c2 _ => ?_)
              intro h; cases h
            · intro h; cases h
      refine bind_noof hhead (fun v c1 _ => ?_)
      refine bind_noof (ih hrest f' (by omega) c1) (fun vs c2 _ => ?_)
      intro h; cases h

theorem arm_need_le : ∀ (arms : List Arm) (arm : Arm), arm ∈ arms → arm.need rec ≤ armsNeed rec arms := by
  intro arms
  induction arms with
  | nil => intro arm h; cases h
  | cons x xs ih =>
    intro arm h
    simp only [armsNeed]
    rcases List.mem_cons.mp h with rfl | h
    · exact Nat.le_max_left _ _
    · exact Nat.le_trans (ih arm h) (Nat.le_max_right _ _)

theorem impl_need (n : String) (i : Impl) (hfi : p.findImpl n = some i) (h : RecOk a p rec i.body.allRefs)
    (f : Nat) (hf : i.body.need rec ≤ f) (c : Cur) : evalImpl a p f n c ≠ .outOfFuel := by
  cases f with
  | zero => cases hb : i.body <;> simp [hb, ImplBody.need] at hf
  | succ f' =>
    simp only [evalImpl, hfi]
    cases hb : i.body with
    | struct fs =>
      simp only
      rw [hb] at h hf
      refine bind_noof (fields_need a p rec fs h f' (by simp only [ImplBody.need] at hf; omega) c) (fun vs c1 _ => ?_)
      intro h; cases h
    | union u =>
      simp only
      rw [hb] at h hf
      simp only [ImplBody.need] at hf
      simp only [ImplBody.allRefs] at h
      have hdisc : RecOk a p rec u.disc.direct := fun m hm => h m (by simp only [List.mem_append]; exact Or.inl (Or.inl hm))
      refine bind_noof (basic_need a p rec u.disc hdisc f' (by omega) c) (fun d c1 _ => ?_)
      cases hsel : selectArm a d u.arms with
      | some arm =>
        simp only
        have hmem := selectArm_mem a d u.arms arm hsel
        cases hpl : arm.payload with
        | none => simp only; intro h; cases h
        | some fd =>
          simp only
          have hrefs : RecOk a p rec fd.allRefs := fun m hm => h m (by
            simp only [List.mem_append, List.mem_flatMap]
            exact Or.inl (Or.inr ⟨arm, hmem, by simp [Arm.allRefs, hpl, hm]⟩))
          have hle := arm_need_le rec u.arms arm hmem
          simp only [Arm.need, hpl] at hle
          refine bind_noof (field_need a p rec fd hrefs f' (by omega) c1) (fun v c2 _ => ?_)
          intro h; cases h
      | none =>
        simp only
        cases htl : u.tail with
        | defaultData fd =>
          simp only
          have hrefs : RecOk a p rec fd.allRefs := fun m hm => h m (by
            simp only [List.mem_append]
            exact Or.inr (by simp [Tail.allRefs, htl, hm]))
          have : fd.need rec ≤ f' := by simp only [htl, Tail.need] at hf; omega
          refine bind_noof (field_need a p rec fd hrefs f' this c1) (fun v c2 _ => ?_)
          intro h; cases h
        | errUnknown => simp only; intro h; cases h
        | none => simp only; intro h; cases h
    | enum arms =>
      simp only
      refine bind_noof (readI32_noof c) (fun iv c1 _ => ?_)
      split <;> (intro h; cases h)
    | typedef fd =>
      simp only
      rw [hb] at h hf
      refine bind_noof (field_need a p rec fd h f' (by simp only [ImplBody.need] at hf; omega) c) (fun v c1 _ => ?_)
      intro h; cases h

end level

/-- **an input-independent budget**: if every reference goes down in rank (no recursive type), the decoder of `n` answers on
    every buffer from the budget `p.need g n` on, for any exploration depth `g` above the rank of `n` -/
theorem need_sound (a : Ast) (p : Plans) (rk : String → Nat)
    (hr : ∀ i ∈ p.impls, ∀ m ∈ i.body.allRefs, rk m < rk i.name) :
    ∀ (g : Nat) (n : String), rk n < g → ∀ f, p.need g n ≤ f → ∀ c, evalImpl a p f n c ≠ .outOfFuel := by
  intro g
  induction g with
  | zero => intro n h; omega
  | succ g ih =>
    intro n hn f hf c
    simp only [Plans.need] at hf
    cases hfi : p.findImpl n with
    | none =>
      rw [hfi] at hf
      cases f with
      | zero => simp at hf
      | succ f' => simp [evalImpl, hfi]
    | some i =>
      rw [hfi] at hf
      obtain ⟨hmem, hname⟩ := findImpl_some hfi
      refine impl_need a p (p.need g) n i hfi (fun m hm f' hf' c' => ?_) f hf c
      have hlt : rk m < rk n := hname ▸ hr i hmem m hm
      exact ih m (Nat.lt_of_lt_of_le hlt (Nat.le_of_lt_succ hn)) f' hf' c'

theorem Plans.acyclic_ranked (p : Plans) (h : p.acyclic = true) :
    ∀ i ∈ p.impls, ∀ m ∈ i.body.allRefs, p.rankAll (p.impls.length + 1) m < p.rankAll (p.impls.length + 1) i.name := by
  intro i hi m hm
  simp only [Plans.acyclic, List.all_eq_true, decide_eq_true_eq] at h
  exact h i hi m hm

/-- for a specification without recursive types, `p.depth n` is a budget for the decoder of `n` on every buffer -/
theorem depth_suffices (a : Ast) (p : Plans) (h : p.acyclic = true) (n : String) (f : Nat) (hf : p.depth n ≤ f) (c : Cur) :
    evalImpl a p f n c ≠ .outOfFuel :=
  need_sound a p _ (p.acyclic_ranked h) _ n (Nat.lt_succ_self _) f hf c

end Fx
